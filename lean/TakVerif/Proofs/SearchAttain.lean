import TakVerif.Proofs.SearchTable

/-! The MOVES behind the verdicts of the search with a transposition table (C05, for `GetMove` / `AnalyzeAll`).

`Proofs/SearchTable.lean` proves that every value the search returns or stores beyond the threshold is a real forced
result (`TableSound`, `SoundRes`).  Here the same induction carries a second invariant about the *moves*: whenever a
result claims a win, the first move of its PV **keeps** the win (`Keeps g p m`: `m` is accepted at `p` and the mover
of the resulting position is lost), and so does the move of every winning lower/exact table entry for every position
that finds the entry (`TableAtt`).  The latter needs more of the hash than `HashOK`: positions with the same hash must
have the same winning moves (`HashMovesOK`; implied by `HashInj`, and for Tak by "equal hashes ⇒ `Position.Equal`"). -/
namespace Search
open Tak (Err)

variable {P M : Type}

/-- the move `m` keeps a win at `p`: it is accepted and the side to move afterwards is lost against best play -/
def Keeps (g : Game P M) (p : P) (m : M) : Prop := ∃ c, g.apply p m = .ok c ∧ Loss g c

/-- `l` is not empty and its first move keeps a win at `p` -/
def HeadKeeps (g : Game P M) (p : P) (l : List M) : Prop := ∃ m rest, l = m :: rest ∧ Keeps g p m

/-- a table entry read for position `p`: a winning lower/exact entry names a move that keeps the win -/
def AttE (g : Game P M) (e : TEntry M) (p : P) : Prop :=
  (e.bound = Facts.lowerBound ∨ e.bound = Facts.exactBound) → e.value > Facts.winThreshold → Keeps g p e.m

/-- every entry names a winning move for every position that would find it -/
def TableAtt (g : Game P M) (s : Eng M) : Prop :=
  ∀ (i : Nat) (e : TEntry M), s.table[i]? = some e → ∀ p, g.hash p = e.hash → AttE g e p

/-- positions with the same hash have the same win-keeping moves (the `NoCollision` hypothesis as far as the moves of
table entries go) -/
def HashMovesOK (g : Game P M) : Prop := ∀ p q, g.hash p = g.hash q → ∀ m, Keeps g p m → Keeps g q m

theorem HashInj.movesOK {g : Game P M} (h : HashInj g) : HashMovesOK g := by
  intro p q e m hk
  rw [← h p q e]; exact hk

/-- a result that claims a win above `α` comes with a PV whose first move keeps the win -/
def AttRes (g : Game P M) (p : P) (α : Int) (r : Res M) : Prop :=
  α < r.2 → r.2 > Facts.winThreshold → ∀ l, r.1 = some l → HeadKeeps g p l

theorem Sat.and {α : Type} {x : Except Err α} {Q R : α → Prop} (h1 : Sat x Q) (h2 : Sat x R) :
    Sat x (fun a => Q a ∧ R a) := fun a ha => ⟨h1 a ha, h2 a ha⟩

theorem headKeeps_cons {g : Game P M} {p : P} {m : M} {l : List M} (h : Keeps g p m) : HeadKeeps g p (m :: l) :=
  ⟨m, l, rfl, h⟩

theorem HeadKeeps.head {g : Game P M} {p : P} {m : M} {l : List M} (h : HeadKeeps g p (m :: l)) : Keeps g p m := by
  obtain ⟨m', rest, e, hk⟩ := h
  cases e
  exact hk

/-! ### the table -/

theorem TableAtt.setEntry {g : Game P M} {s : Eng M} (h : TableAtt g s) (i : Nat) (e : TEntry M)
    (he : ∀ p, g.hash p = e.hash → AttE g e p) : TableAtt g (s.setEntry i e) := by
  intro j e' hj p hp
  unfold Eng.setEntry at hj
  dsimp only at hj
  rw [Array.getElem?_setIfInBounds] at hj
  split at hj
  · split at hj
    · cases hj; exact he p hp
    · cases hj
  · exact h j e' hj p hp

theorem TableAtt.evict {g : Game P M} {s : Eng M} (h : TableAtt g s) (k : H) : TableAtt g (s.evict k) := by
  unfold Eng.evict
  split
  · exact h
  · rename_i e1 he1
    split
    · intro j e' hj p hp
      dsimp only at hj
      rw [Array.getElem?_setIfInBounds] at hj
      split at hj
      · split at hj
        · cases hj; exact h _ e1 he1 p hp
        · cases hj
      · exact h j e' hj p hp
    · exact h

theorem ttGet_att {g : Game P M} {s : Eng M} (h : TableAtt g s) (p : P) :
    Sat (ttGet s (g.hash p)) (fun te => ∀ e, te = some e → AttE g e p) := by
  unfold ttGet
  split
  · exact Sat.ok (fun e he => by cases he)
  · split
    · exact Sat.error
    · split
      · rename_i e1 e2 h1 h2
        split
        · rename_i hh
          refine Sat.ok (fun e he => ?_)
          cases he
          exact h _ e1 h1 p (by have := hh; simp only [beq_iff_eq] at this; exact this.symm)
        · split
          · rename_i hh
            refine Sat.ok (fun e he => ?_)
            cases he
            exact h _ e2 h2 p (by have := hh; simp only [beq_iff_eq] at this; exact this.symm)
          · exact Sat.ok (fun e he => by cases he)
      · exact Sat.error

/-- an entry that suffices for the window and claims a win above `α` is a lower or exact bound -/
theorem teSuffices_bound {e : TEntry M} {depth α β : Int} (h : teSuffices e depth α β = true) (ha : α < e.value) :
    e.bound = Facts.lowerBound ∨ e.bound = Facts.exactBound := by
  unfold teSuffices at h
  simp only [Bool.or_eq_true, Bool.and_eq_true, decide_eq_true_eq, beq_iff_eq] at h
  rcases h with ⟨_, (hb | ⟨hv, _⟩) | ⟨_, hb⟩⟩ | ⟨hb, _⟩
  · exact .inr hb
  · omega
  · exact .inl hb
  · exact .inr hb

theorem ttProbe_att {g : Game P M} (p : P) (ply : Nat) (depth α β : Int) {s : Eng M} (h : TableAtt g s) :
    Sat (ttProbe g p ply depth α β s) (fun x => TableAtt g x.2 ∧
      match x.1 with
      | .inl r => AttRes g p α r
      | .inr _ => True) := by
  unfold ttProbe
  apply Sat.bind
  refine (ttGet_att h p).mono ?_
  intro te hte
  cases te with
  | none => exact Sat.pure ⟨h, trivial⟩
  | some e =>
    dsimp only
    split
    · rename_i hsuff
      split
      · apply Sat.bind; intro pv0 _
        refine Sat.pure ⟨h, ?_⟩
        intro h1 h2 l hl
        cases hl
        exact headKeeps_cons (hte e rfl (teSuffices_bound hsuff h1) h2)
      · exact Sat.pure ⟨h, trivial⟩
      · exact Sat.throw
    · exact Sat.pure ⟨h, trivial⟩

theorem ttPut_att {g : Game P M} (o : Oracle M) {s : Eng M} (h : TableAtt g s) (k : H) :
    Sat (ttPut o s k) (fun x => TableAtt g x.2) := by
  unfold ttPut
  split
  · exact Sat.ok h
  · dsimp only
    split
    · exact Sat.ok h
    · intro x hx
      cases hi : ttSlotIdx (load o s).2 k with
      | error e => rw [hi] at hx; cases hx
      | ok i =>
        rw [hi] at hx
        have : x = (some i, (load o s).2.evict k) := (Except.ok.inj hx).symm
        rw [this]
        exact TableAtt.evict (s := (load o s).2) h k

theorem recordCut_att [DecidableEq M] {g : Game P M} {s : Eng M} (h : TableAtt g s) (m : M) (mv ply : Nat) :
    Sat (recordCut s m mv ply) (fun s' => TableAtt g s') := by
  unfold recordCut
  dsimp only
  split
  · split
    · exact Sat.error
    · exact Sat.ok h
  · exact Sat.ok h

theorem pvInitBest_att {g : Game P M} (ply : Nat) (pv : List M) {s : Eng M} (h : TableAtt g s) :
    Sat (pvInitBest ply pv s) (fun x => TableAtt g x.2) := by
  unfold pvInitBest
  split
  · apply Sat.bind; intro pv0 _; exact Sat.pure h
  · apply Sat.bind; intro x _; exact Sat.pure h

/-- the store at the end of `pvSearch`: the entry names the head of `best`, which keeps the win when one was found -/
theorem pvStore_att {g : Game P M} (hm : HashMovesOK g) (o : Oracle M) (p : P) (depth β : Int) (a : PvAcc M)
    {s : Eng M} (h : TableAtt g s)
    (hk : a.improved = true → a.α > Facts.winThreshold → HeadKeeps g p a.best) :
    Sat (pvStore o (g.hash p) depth β a s) (fun x => TableAtt g x.2 ∧ x.1 = (some a.best, a.α)) := by
  unfold pvStore
  apply Sat.bind
  refine (ttPut_att o h (g.hash p)).mono ?_
  rintro ⟨slot?, s1⟩ hs1
  dsimp only at hs1 ⊢
  cases slot? with
  | none => exact Sat.pure ⟨hs1, rfl⟩
  | some slot =>
    dsimp only
    split
    · rename_i old b0 tl _ hbest
      split
      · refine Sat.pure ⟨?_, rfl⟩
        have hs1' : TableAtt g (if (!a.improved) = true then
            { s1 with st := { s1.st with allNodes := s1.st.allNodes + 1 } } else s1) := by
          split <;> exact hs1
        refine TableAtt.setEntry hs1' slot _ ?_
        intro q hq hb hw
        dsimp only at hq hb hw ⊢
        cases hi : a.improved with
        | false =>
          rw [hi] at hb
          simp only [Bool.not_false, if_true] at hb
          simp only [Facts.upperBound, Facts.lowerBound, Facts.exactBound] at hb
          omega
        | true => exact hm p q hq.symm b0 (by have := hk hi hw; rw [hbest] at this; exact this.head)
      · exact Sat.pure ⟨hs1, rfl⟩
    · exact Sat.throw

/-- the store at the end of `zwSearch` -/
theorem zwStore_att {g : Game P M} (hm : HashMovesOK g) (o : Oracle M) (p : P) (depth α : Int) (a : ZwAcc M)
    {s : Eng M} (h : TableAtt g s)
    (hk : a.didCut = true → α ≥ Facts.winThreshold → HeadKeeps g p a.best) :
    Sat (zwStore o (g.hash p) depth α a s)
      (fun x => TableAtt g x.2 ∧ x.1 = (some a.best, if a.didCut then α + 1 else α)) := by
  unfold zwStore
  apply Sat.bind
  refine (ttPut_att o h (g.hash p)).mono ?_
  rintro ⟨slot?, s1⟩ hs1
  dsimp only at hs1 ⊢
  cases slot? with
  | none => exact Sat.pure ⟨hs1, rfl⟩
  | some slot =>
    dsimp only
    split
    · rename_i b0 tl hbest
      refine Sat.pure ⟨?_, rfl⟩
      have hs1' : TableAtt g (if a.didCut = true then s1 else
          { s1 with st := { s1.st with allNodes := s1.st.allNodes + 1 } }) := by
        split <;> exact hs1
      refine TableAtt.setEntry hs1' slot _ ?_
      intro q hq hb hw
      dsimp only at hq hb hw ⊢
      cases hd : a.didCut with
      | true => exact hm p q hq.symm b0 (by have := hk hd (by omega); rw [hbest] at this; exact this.head)
      | false =>
        rw [hd] at hb
        simp only [Bool.false_eq_true, if_false, Facts.upperBound, Facts.lowerBound, Facts.exactBound] at hb
        omega
    · exact Sat.throw

/-! ### contracts -/

/-- a PV search keeps the table's moves winning and returns a PV whose head keeps a claimed win -/
def PvOKa (g : Game P M) (f : PvFn P M) : Prop :=
  ∀ p ply depth pv α β s, TableSound g s → TableAtt g s → α < β →
    Sat (f p ply depth pv α β s) (fun x => TableAtt g x.2 ∧ AttRes g p α x.1)

def ZwOKa (g : Game P M) (f : ZwFn P M) : Prop :=
  ∀ p ply depth pv α cut s, TableSound g s → TableAtt g s →
    Sat (f p ply depth pv α cut s) (fun x => TableAtt g x.2 ∧ AttRes g p α x.1)

theorem pvChild_att {g : Game P M} {cpv : PvFn P M} {czw : ZwFn P M} (hp : PvOKt g cpv) (hz : ZwOKt g czw)
    (hpa : PvOKa g cpv) (hza : ZwOKa g czw)
    (i : Nat) (child : P) (ply : Nat) (depth : Int) (tail : List M) (α β : Int) (s : Eng M)
    (hs : TableSound g s) (ha : TableAtt g s) (hab : α < β) :
    Sat (pvChild cpv czw i child ply depth tail α β s) (fun x => TableAtt g x.2) := by
  have _ := hp
  unfold pvChild
  split
  · apply Sat.bind
    refine ((hz child (ply + 1) (depth - 1) tail (-α - 1) true s hs).and
      (hza child (ply + 1) (depth - 1) tail (-α - 1) true s hs ha)).mono ?_
    rintro ⟨⟨ms, v⟩, s'⟩ ⟨⟨hts, _⟩, ⟨hta, _⟩⟩
    dsimp only at hts hta ⊢
    split
    · exact (hpa child (ply + 1) (depth - 1) tail (-β) (-α)
        { s' with st := { s'.st with reSearch := s'.st.reSearch + 1 } } hts hta (by omega)).mono (fun _ hx => hx.1)
    · exact Sat.pure hta
  · exact (hpa child (ply + 1) (depth - 1) tail (-β) (-α) s hs ha (by omega)).mono (fun _ hx => hx.1)

/-! ### PV nodes -/

/-- the part of a loop's postcondition that is about the moves -/
def AttPost {σ ρ : Type} (Inv2 : σ → Eng M → Prop) (Qb2 : σ → Eng M → Prop) (Qr2 : ρ → Eng M → Prop) :
    Ctl σ ρ × Eng M → Prop
  | (.next a', s') => Inv2 a' s'
  | (.brk a', s') => Qb2 a' s'
  | (.ret r, s') => Qr2 r s'

theorem LoopPost.and {σ ρ : Type} {Inv Inv2 : σ → Eng M → Prop} {Cov : σ → P → Prop} {Qb Qb2 : σ → Eng M → Prop}
    {Qr Qr2 : ρ → Eng M → Prop} {a0 : σ} {K : P → Prop} {r : Ctl σ ρ × Eng M}
    (h : LoopPost Inv Cov Qb Qr a0 K r) (h2 : AttPost Inv2 Qb2 Qr2 r) :
    LoopPost (fun a s => Inv a s ∧ Inv2 a s) Cov (fun a s => Qb a s ∧ Qb2 a s) (fun r s => Qr r s ∧ Qr2 r s) a0 K r := by
  rcases r with ⟨c, s⟩
  cases c with
  | next a => exact ⟨⟨h.1, h2⟩, h.2.1, h.2.2⟩
  | brk a => exact ⟨h, h2⟩
  | ret r => exact ⟨h, h2⟩

def AInv (g : Game P M) (p : P) (a : PvAcc M) (s : Eng M) : Prop :=
  TableAtt g s ∧ (a.improved = true → a.α > Facts.winThreshold → HeadKeeps g p a.best)

def AQb (g : Game P M) (p : P) (a : PvAcc M) (s : Eng M) : Prop :=
  TableAtt g s ∧ (a.α > Facts.winThreshold → HeadKeeps g p a.best)

def AQr (g : Game P M) (_r : Res M) (s : Eng M) : Prop := TableAtt g s

theorem pvBody_att [DecidableEq M] {g : Game P M} (hg : GameOK g) {o : Oracle M}
    {cpv : PvFn P M} {czw : ZwFn P M} (hp : PvOKt g cpv) (hz : ZwOKt g czw) (hpa : PvOKa g cpv) (hza : ZwOKa g czw)
    (p : P) (hov : g.over p = false) (ply : Nat) (depth α0 β : Int) :
    BodyOK g p (pvBody g o cpv czw ply depth β false)
      (fun a s => TInv g p α0 β a s ∧ AInv g p a s) (TCov g)
      (fun a s => TQb g p β a s ∧ AQb g p a s) (fun r s => TQr g r s ∧ AQr g r s) := by
  intro m c a s hap hinv
  obtain ⟨hold, hta, hhead⟩ := hinv
  have hsound := pvBody_sound hg (o := o) hp hz p hov ply depth α0 β m c a s hap hold
  obtain ⟨hts, hlt, _, _, _⟩ := hold
  refine (hsound.and (?_ : Sat _ (AttPost (AInv g p) (AQb g p) (AQr g)))).mono (fun r hr => hr.1.and hr.2)
  unfold pvBody
  simp only [Bool.false_and, Bool.false_eq_true, if_false]
  apply Sat.bind
  intro sm _
  apply Sat.bind
  refine ((pvChild_sound hp hz (a.i + 1) c ply depth (a.best.drop 1) a.α β { s with stackM := sm } hts hlt).and
    (pvChild_att hp hz hpa hza (a.i + 1) c ply depth (a.best.drop 1) a.α β { s with stackM := sm } hts hta hlt)).mono ?_
  rintro ⟨⟨ms, v⟩, s'⟩ ⟨⟨_, hcs⟩, hta'⟩
  dsimp only at hcs hta' ⊢
  obtain ⟨hc1, _⟩ := hcs
  split
  · rename_i hgt
    apply Sat.bind
    intro pv0 _
    have hk : -v > Facts.winThreshold → HeadKeeps g p (m :: ms.getD []) :=
      fun hw => headKeeps_cons ⟨c, hap, hc1 (by omega) hw⟩
    split
    · apply Sat.bind
      refine (recordCut_att (s := { s' with pv0 := pv0 }) hta' m (a.i + 1) ply).mono ?_
      intro s'' hta''
      exact Sat.pure ⟨hta'', hk⟩
    · apply Sat.pure
      rcases afterChild_cases o ({ a with i := a.i + 1, improved := true, best := m :: ms.getD [], α := -v } : PvAcc M)
        { s' with pv0 := pv0 } with h | h
      · rw [h]; exact hta'
      · rw [h]; exact ⟨hta', fun _ => hk⟩
  · apply Sat.pure
    rcases afterChild_cases o ({ a with i := a.i + 1 } : PvAcc M) s' with h | h
    · rw [h]; exact hta'
    · rw [h]; exact ⟨hta', hhead⟩

theorem leaf_att {g : Game P M} (p : P) (α : Int) {s : Eng M} (h : TableAtt g s) :
    TableAtt g (leaf g p (g.over p) s).2 ∧ AttRes g p α (leaf g p (g.over p) s).1 := by
  refine ⟨h, ?_⟩
  intro _ _ l hl
  cases hl

theorem pvNode_att [DecidableEq M] {g : Game P M} (hg : GameOK g) (he : EvalOK g) (hinj : HashOK g)
    (hm : HashMovesOK g)
    {cfg : SOpts} (hpr : Precise cfg) {o : Oracle M} (hord : OrderOK o) (frame : Bool)
    {cpv : PvFn P M} {czw : ZwFn P M} (hp : PvOKt g cpv) (hz : ZwOKt g czw) (hpa : PvOKa g cpv) (hza : ZwOKa g czw) :
    PvOKa g (pvNode g cfg o frame cpv czw) := by
  have _ := he
  have _ := hinj
  intro p ply depth pv α β s hts hta hab
  unfold pvNode
  dsimp only
  split
  · exact Sat.pure (leaf_att p α hta)
  · rename_i hnl
    simp only [Bool.or_eq_true, decide_eq_true_eq, not_or, Int.not_le, Bool.not_eq_true] at hnl
    obtain ⟨hdpos, hov⟩ := hnl
    split
    · exact Sat.throw
    · have hdd : (cfg.dedupSymmetry && decide (g.moveNumber p < Facts.maxDedup)) = false := by
        rw [hpr.dd]; rfl
      apply Sat.bind
      refine Sat.mono ((ttProbe_sound p ply depth α β (s := _) (by exact hts)).and
        (ttProbe_att p ply depth α β (s := _) (by exact hta))) ?_
      rintro ⟨probe, s1⟩ ⟨⟨hts1, _⟩, ⟨hta1, hprobe⟩⟩
      dsimp only at hts1 hta1 hprobe ⊢
      cases probe with
      | inl r => exact Sat.pure ⟨hta1, hprobe⟩
      | inr te =>
        dsimp only
        apply Sat.bind
        refine Sat.mono ((pvInitBest_sound ply pv hts1).and (pvInitBest_att ply pv hta1)) ?_
        rintro ⟨best, s2⟩ ⟨hts2, hta2⟩
        dsimp only at hts2 hta2 ⊢
        apply Sat.bind
        rw [hdd]
        have hb := pvBody_att hg (o := o) hp hz hpa hza p hov ply depth α β
        have hinv0 : TInv g p α β (⟨α, best, false, 0, []⟩ : PvAcc M) s2 ∧
            AInv g p (⟨α, best, false, 0, []⟩ : PvAcc M) s2 :=
          ⟨⟨hts2, hab, Int.le_refl _, fun _ => rfl, fun h => by cases h⟩, hta2, fun h => by cases h⟩
        refine (iterate_rule hb cfg o ⟨ply, depth, te, pv⟩ (hg.gen p) hord
          (fun a s k hi => ⟨⟨hi.1.1, hi.1.2.1, hi.1.2.2.1, hi.1.2.2.2.1, hi.1.2.2.2.2⟩, hi.2.1, hi.2.2⟩)
          _ s2 hinv0).mono ?_
        rintro ⟨c, s3⟩ hpost
        cases c with
        | ret r =>
          obtain ⟨⟨_, hr0⟩, hta3⟩ := hpost
          refine Sat.pure ⟨hta3, ?_⟩
          dsimp only
          intro _ h0 _ _
          rw [hr0] at h0
          simp only [Facts.winThreshold] at h0
          omega
        | next a =>
          obtain ⟨⟨⟨_, _, _, hni, _⟩, hta3, hhead⟩, _, _⟩ := hpost
          dsimp only
          refine (pvStore_att hm o p depth β a hta3 hhead).mono ?_
          rintro ⟨r, s4⟩ ⟨hta4, hr⟩
          dsimp only at hta4 hr ⊢
          refine ⟨hta4, ?_⟩
          rw [hr]
          intro h1 hw l hl
          dsimp only at h1 hw hl
          cases hl
          cases hi : a.improved with
          | false => have := hni hi; omega
          | true => exact hhead hi hw
        | brk a =>
          obtain ⟨⟨_, himp, _, _⟩, hta3, hhead⟩ := hpost
          dsimp only
          refine (pvStore_att hm o p depth β a hta3 (fun _ => hhead)).mono ?_
          rintro ⟨r, s4⟩ ⟨hta4, hr⟩
          dsimp only at hta4 hr ⊢
          refine ⟨hta4, ?_⟩
          rw [hr]
          intro _ hw l hl
          dsimp only at hw hl
          cases hl
          exact hhead hw

/-! ### zero-window nodes -/

def ZAInv (g : Game P M) (_a : ZwAcc M) (s : Eng M) : Prop := TableAtt g s

def ZAQb (g : Game P M) (p : P) (α : Int) (a : ZwAcc M) (s : Eng M) : Prop :=
  TableAtt g s ∧ (α ≥ Facts.winThreshold → HeadKeeps g p a.best)

theorem zwBody_att [DecidableEq M] {g : Game P M} (hg : GameOK g) {o : Oracle M} {czw : ZwFn P M}
    (hz : ZwOKt g czw) (hza : ZwOKa g czw) (p : P) (hov : g.over p = false) (ply : Nat) (depth α : Int) (cut : Bool) :
    BodyOK g p (zwBody o czw ply depth α cut)
      (fun a s => ZInv g a s ∧ ZAInv g a s) (ZCov g α)
      (fun a s => ZQb g p α a s ∧ ZAQb g p α a s) (fun r s => TQr g r s ∧ AQr g r s) := by
  intro m c a s hap hinv
  obtain ⟨hold, hta⟩ := hinv
  have hsound := zwBody_sound hg (o := o) hz p hov ply depth α cut m c a s hap hold
  obtain ⟨hts, _⟩ := hold
  refine (hsound.and (?_ : Sat _ (AttPost (ZAInv g) (ZAQb g p α) (AQr g)))).mono (fun r hr => hr.1.and hr.2)
  unfold zwBody
  apply Sat.bind
  intro sm _
  apply Sat.bind
  refine Sat.mono ((hz c (ply + 1) (depth - 1) _ (-α - 1) (!cut) { s with stackM := sm } hts).and
    (hza c (ply + 1) (depth - 1) _ (-α - 1) (!cut) { s with stackM := sm } hts hta)) ?_
  rintro ⟨⟨ms, v⟩, s'⟩ ⟨⟨_, hsr⟩, ⟨hta', _⟩⟩
  dsimp only at hsr hta' ⊢
  split
  · rename_i hgt
    apply Sat.bind
    refine (recordCut_att hta' m (a.i + 1) ply).mono ?_
    intro s'' hta''
    apply Sat.bind
    intro pv0 _
    refine Sat.pure ⟨hta'', ?_⟩
    intro hw
    exact headKeeps_cons ⟨c, hap, hsr.2 (by omega) (by omega)⟩
  · apply Sat.pure
    rcases afterChild_cases o ({ a with i := a.i + 1 } : ZwAcc M) s' with h | h
    · rw [h]; exact hta'
    · rw [h]; exact hta'

theorem zwNode_att [DecidableEq M] {g : Game P M} (hg : GameOK g) (he : EvalOK g) (hinj : HashOK g)
    (hm : HashMovesOK g)
    {cfg : SOpts} (hpr : Precise cfg) {o : Oracle M} (hord : OrderOK o) (frame : Bool)
    {czw : ZwFn P M} (hz : ZwOKt g czw) (hza : ZwOKa g czw) :
    ZwOKa g (zwNode g cfg o frame czw) := by
  have _ := he
  have _ := hinj
  intro p ply depth pv α cut s hts hta
  unfold zwNode
  dsimp only
  split
  · exact Sat.pure (leaf_att p α hta)
  · rename_i hnl
    simp only [Bool.or_eq_true, decide_eq_true_eq, not_or, Int.not_le, Bool.not_eq_true] at hnl
    obtain ⟨hdpos, hov⟩ := hnl
    split
    · exact Sat.throw
    · apply Sat.bind
      refine Sat.mono ((ttProbe_sound p ply depth α (α + 1) (s := _) (by exact hts)).and
        (ttProbe_att p ply depth α (α + 1) (s := _) (by exact hta))) ?_
      rintro ⟨probe, s1⟩ ⟨⟨hts1, _⟩, ⟨hta1, hprobe⟩⟩
      dsimp only at hts1 hta1 hprobe ⊢
      cases probe with
      | inl r => exact Sat.pure ⟨hta1, hprobe⟩
      | inr te =>
        dsimp only
        apply Sat.bind
        rw [nullMove_precise hpr]
        apply Sat.ok
        dsimp only
        apply Sat.bind
        rw [slideReduction_precise hpr]
        apply Sat.ok
        dsimp only
        apply Sat.bind
        rw [multiCut_precise hpr]
        apply Sat.ok
        dsimp only
        apply Sat.bind
        intro x _
        apply Sat.bind
        have hb := zwBody_att hg (o := o) hz hza p hov ply depth α cut
        refine Sat.mono (iterate_rule hb cfg o ⟨ply, depth, te, pv⟩ (hg.gen p) hord
          (fun a s k hi => ⟨⟨hi.1.1, hi.1.2⟩, hi.2⟩) (⟨[x], 0, false⟩ : ZwAcc M) _ ⟨⟨hts1, rfl⟩, hta1⟩) ?_
        rintro ⟨c, s2⟩ hpost
        cases c with
        | ret r =>
          obtain ⟨⟨_, hr0⟩, hta3⟩ := hpost
          refine Sat.pure ⟨hta3, ?_⟩
          dsimp only
          intro _ h0 _ _
          rw [hr0] at h0
          simp only [Facts.winThreshold] at h0
          omega
        | next a =>
          obtain ⟨⟨⟨_, hdc⟩, hta3⟩, _, _⟩ := hpost
          dsimp only
          refine (zwStore_att hm o p depth α a hta3 (fun h => by rw [hdc] at h; cases h)).mono ?_
          rintro ⟨r, s4⟩ ⟨hta4, hr⟩
          dsimp only at hta4 hr ⊢
          refine ⟨hta4, ?_⟩
          rw [hr, hdc]
          simp only [Bool.false_eq_true, if_false]
          intro h1 _ _ _
          omega
        | brk a =>
          obtain ⟨⟨_, hdc, _⟩, hta3, hhead⟩ := hpost
          dsimp only
          refine (zwStore_att hm o p depth α a hta3 (fun _ => hhead)).mono ?_
          rintro ⟨r, s4⟩ ⟨hta4, hr⟩
          dsimp only at hta4 hr ⊢
          refine ⟨hta4, ?_⟩
          rw [hr, hdc]
          simp only [if_true]
          intro _ hw l hl
          cases hl
          exact hhead (by omega)

/-- **the moves of the search with a table**: in a precise configuration both searches keep every winning table entry's
move a win-keeping move, and a result that claims a win comes with a PV whose first move keeps it -/
theorem search_att [DecidableEq M] {g : Game P M} (hg : GameOK g) (he : EvalOK g) (hinj : HashOK g)
    (hm : HashMovesOK g) {cfg : SOpts} (hpr : Precise cfg) {o : Oracle M} (hord : OrderOK o) :
    ∀ n, PvOKa g (search g cfg o n).1 ∧ ZwOKa g (search g cfg o n).2 := by
  intro n
  induction n with
  | zero =>
    have hze : ZwOKt g (fun _ _ _ _ _ _ _ => (.error (.panic "ai.stack[ply]: index out of range") : Except Err (Res M × Eng M))) :=
      fun _ _ _ _ _ _ _ _ => Sat.error
    have hpe : PvOKt g (fun _ _ _ _ _ _ _ => (.error (.panic "ai.stack[ply]: index out of range") : Except Err (Res M × Eng M))) :=
      fun _ _ _ _ _ _ _ _ _ => Sat.error
    have hzea : ZwOKa g (fun _ _ _ _ _ _ _ => (.error (.panic "ai.stack[ply]: index out of range") : Except Err (Res M × Eng M))) :=
      fun _ _ _ _ _ _ _ _ _ => Sat.error
    have hpea : PvOKa g (fun _ _ _ _ _ _ _ => (.error (.panic "ai.stack[ply]: index out of range") : Except Err (Res M × Eng M))) :=
      fun _ _ _ _ _ _ _ _ _ _ => Sat.error
    exact ⟨pvNode_att hg he hinj hm hpr hord false hpe hze hpea hzea, zwNode_att hg he hinj hm hpr hord false hze hzea⟩
  | succ n ih =>
    have hs := search_sound hg he hinj hpr hord n
    exact ⟨pvNode_att hg he hinj hm hpr hord true hs.1 hs.2 ih.1 ih.2,
           zwNode_att hg he hinj hm hpr hord true hs.2 ih.2⟩

end Search
