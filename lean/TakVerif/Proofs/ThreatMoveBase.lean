import TakVerif.Proofs.ThreatGeom

/-! C19, step 3 (shared part): bit lemmas, `finish`, and what is needed of the position after the move. -/
namespace C19
open Tak Roads Spec

theorem idx_toNat (x y n : Nat) : ((x : Int) + (y : Int) * (n : Int)).toNat = x + y * n := by
  rw [← Int.natCast_mul, ← Int.natCast_add, Int.toNat_natCast]

theorem elems_one : Slides.elems 1#32 = [1] := by decide

theorem getLsbD_setBit (w : W) (i k : Nat) (hi : i < 64) :
    (setBit w i).getLsbD k = (w.getLsbD k || decide (k = i)) := by
  unfold setBit; rw [BitVec.getLsbD_or]; unfold bit; rw [Roads.bit_getLsbD i k hi]

theorem getLsbD_clrBit (w : W) (i k : Nat) (hi : i < 64) :
    (clrBit w i).getLsbD k = (w.getLsbD k && !decide (k = i)) := by
  unfold clrBit; rw [BitVec.getLsbD_and, BitVec.getLsbD_not]; unfold bit; rw [Roads.bit_getLsbD i k hi]
  by_cases hk : k < 64
  · simp [hk]
  · rw [BitVec.getLsbD_of_ge w k (by omega)]; simp

theorem finish_ok (next : Pos) : ∃ wg bg, finish next = .ok { next with wgroups := wg, bgroups := bg } ∧
    floodGroups next.c (next.white &&& ~~~next.standing) = some wg ∧
    floodGroups next.c (next.black &&& ~~~next.standing) = some bg := by
  have h1 := floodGroups_isSome next.c (next.white &&& ~~~next.standing)
  have h2 := floodGroups_isSome next.c (next.black &&& ~~~next.standing)
  obtain ⟨wg, hw⟩ := Option.isSome_iff_exists.mp h1
  obtain ⟨bg, hb⟩ := Option.isSome_iff_exists.mp h2
  refine ⟨wg, bg, ?_, hw, hb⟩
  unfold finish Pos.analyze
  simp only [hw, hb]

theorem finish_exists (next : Pos) (P : Pos → Prop)
    (h : ∀ wg bg, floodGroups next.c (next.white &&& ~~~next.standing) = some wg →
      floodGroups next.c (next.black &&& ~~~next.standing) = some bg →
      P { next with wgroups := wg, bgroups := bg }) : ∃ q, finish next = .ok q ∧ P q := by
  obtain ⟨wg, bg, hf, hw, hb⟩ := finish_ok next
  exact ⟨_, hf, h wg bg hw hb⟩

/-- what the proof needs to know about the position `q` after the winning move of the side whose bitboard
is `own` (before) / `own'` (after), the other side's `opp` / `opp'`: the square `s` now belongs to the side, nothing else of it moved except
possibly the origin square `j`, no new wall appeared, and `q` carries the analysis of its own bitboards. -/
structure After (p q : Pos) (j s : Nat) (own own' opp opp' : W) : Prop where
  c_eq : q.c = p.c
  cfg_eq : q.cfg = p.cfg
  move_eq : q.move = p.move + 1
  at_s : own'.getLsbD s = true
  keep : ∀ k, k ≠ j → own.getLsbD k = true → own'.getLsbD k = true
  upper : ∀ k, own'.getLsbD k = true → own.getLsbD k = true ∨ k = s ∨ k = j
  oupper : ∀ k, opp'.getLsbD k = true → opp.getLsbD k = true ∨ k = j
  disj : ∀ k, own'.getLsbD k = true → opp'.getLsbD k = true → False
  stand : ∀ k, q.standing.getLsbD k = true → p.standing.getLsbD k = true
  wg : floodGroups q.c (q.white &&& ~~~q.standing) = some q.wgroups
  bg : floodGroups q.c (q.black &&& ~~~q.standing) = some q.bgroups

/-- closes the pointwise goals about `setBit`/`clrBit` compositions -/
syntax "after_bits " ident ident ident : tactic
macro_rules
  | `(tactic| after_bits $hj $hs $hne) => `(tactic|
      (have _ := $hne
       simp only [getLsbD_setBit _ _ _ $hs, getLsbD_setBit _ _ _ $hj, getLsbD_clrBit _ _ _ $hs,
         getLsbD_clrBit _ _ _ $hj, Bool.or_eq_true, Bool.and_eq_true, Bool.not_eq_true', decide_eq_true_eq,
         decide_eq_false_iff_not]
       grind))

syntax "place_bits " ident : tactic
macro_rules
  | `(tactic| place_bits $hs) => `(tactic|
      ((try simp only [getLsbD_setBit _ _ _ $hs, Bool.or_eq_true, decide_eq_true_eq])
       grind))

end C19
