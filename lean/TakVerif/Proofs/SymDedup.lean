import TakVerif.Impl.Symmetry

/-! The de-duplication loop of `Symmetries`. -/
namespace Tak

theorem dedup_out_sub (ps : List (Pos × Fin 8)) : ∀ (seen : List W) (out : List (Pos × Fin 8)) e,
    e ∈ out → e ∈ dedupByHash ps seen out := by
  induction ps with
  | nil => intro seen out e h; simpa [dedupByHash] using h
  | cons a rest ih =>
    intro seen out e h
    obtain ⟨q, k⟩ := a
    unfold dedupByHash
    split
    · exact ih _ _ _ h
    · exact ih _ _ _ (List.mem_append_left _ h)

theorem dedup_mem (ps : List (Pos × Fin 8)) : ∀ (seen : List W) (out : List (Pos × Fin 8)) e,
    e ∈ dedupByHash ps seen out → e ∈ out ∨ e ∈ ps := by
  induction ps with
  | nil => intro seen out e h; left; simpa [dedupByHash] using h
  | cons a rest ih =>
    intro seen out e h
    obtain ⟨q, k⟩ := a
    unfold dedupByHash at h
    split at h
    · rcases ih _ _ _ h with h | h
      · exact Or.inl h
      · exact Or.inr (List.mem_cons_of_mem _ h)
    · rcases ih _ _ _ h with h | h
      · rcases List.mem_append.1 h with h | h
        · exact Or.inl h
        · right; simp at h; simp [h]
      · exact Or.inr (List.mem_cons_of_mem _ h)

theorem dedup_nodup (ps : List (Pos × Fin 8)) : ∀ (seen : List W) (out : List (Pos × Fin 8)),
    (out.map (·.1.hashOf)).Nodup → (∀ e ∈ out, e.1.hashOf ∈ seen) →
    ((dedupByHash ps seen out).map (·.1.hashOf)).Nodup := by
  induction ps with
  | nil => intro seen out h _; simpa [dedupByHash] using h
  | cons a rest ih =>
    intro seen out h hs
    obtain ⟨q, k⟩ := a
    unfold dedupByHash
    split
    · exact ih _ _ h hs
    · rename_i hc
      apply ih
      · rw [List.map_append, List.nodup_append]
        refine ⟨h, by simp, ?_⟩
        intro x hx y hy
        simp at hy
        subst hy
        intro e
        obtain ⟨e', he', rfl⟩ := List.mem_map.1 hx
        have := hs e' he'
        rw [e] at this
        exact hc (by simpa using this)
      · intro e he
        rcases List.mem_append.1 he with he | he
        · exact List.mem_cons_of_mem _ (hs e he)
        · simp at he; subst he; simp

theorem dedup_cover (ps : List (Pos × Fin 8)) : ∀ (seen : List W) (out : List (Pos × Fin 8)),
    (∀ x ∈ seen, ∃ e ∈ out, e.1.hashOf = x) →
    ∀ a ∈ ps, ∃ e ∈ dedupByHash ps seen out, e.1.hashOf = a.1.hashOf := by
  induction ps with
  | nil => intro _ _ _ a h; simp at h
  | cons b rest ih =>
    intro seen out hs a ha
    obtain ⟨q, k⟩ := b
    unfold dedupByHash
    split
    · rename_i hc
      rcases List.mem_cons.1 ha with rfl | ha
      · obtain ⟨e, he, ee⟩ := hs _ (by simpa using hc)
        exact ⟨e, dedup_out_sub _ _ _ _ he, ee⟩
      · exact ih _ _ hs a ha
    · have hs' : ∀ x ∈ q.hashOf :: seen, ∃ e ∈ out ++ [(q, k)], e.1.hashOf = x := by
        intro x hx
        rcases List.mem_cons.1 hx with rfl | hx
        · exact ⟨(q, k), by simp, rfl⟩
        · obtain ⟨e, he, ee⟩ := hs x hx
          exact ⟨e, List.mem_append_left _ he, ee⟩
      rcases List.mem_cons.1 ha with rfl | ha
      · exact ⟨(q, k), dedup_out_sub _ _ _ _ (by simp), rfl⟩
      · exact ih _ _ hs' a ha

end Tak

namespace Tak

/-- what a successful `mapM` in the `Except` monad returned -/
theorem mapM_ok_mem {α β : Type} (f : α → R β) : ∀ (l : List α) (ps : List β), l.mapM f = .ok ps →
    (∀ e ∈ ps, ∃ k ∈ l, f k = .ok e) ∧ (∀ k ∈ l, ∃ e ∈ ps, f k = .ok e) := by
  intro l
  induction l with
  | nil => intro ps h; simp [pure, Except.pure] at h; subst h; simp
  | cons a rest ih =>
    intro ps h
    rw [List.mapM_cons] at h
    cases ha : f a with
    | error e => simp [ha, bind, Except.bind] at h
    | ok b =>
      cases hr : rest.mapM f with
      | error e => simp [ha, hr, bind, Except.bind] at h
      | ok bs =>
        simp [ha, hr, bind, Except.bind, pure, Except.pure] at h
        subst h
        obtain ⟨i1, i2⟩ := ih bs hr
        constructor
        · intro e he
          rcases List.mem_cons.1 he with rfl | he
          · exact ⟨a, by simp, ha⟩
          · obtain ⟨k, hk, hfk⟩ := i1 e he
            exact ⟨k, List.mem_cons_of_mem _ hk, hfk⟩
        · intro k hk
          rcases List.mem_cons.1 hk with rfl | hk
          · exact ⟨b, by simp, ha⟩
          · obtain ⟨e, he, hfk⟩ := i2 k hk
            exact ⟨e, List.mem_cons_of_mem _ he, hfk⟩

end Tak

namespace Tak

theorem image_pair_unpack (basis : Array W) (p : Pos) (k : Fin 8) (e : Pos × Fin 8)
    (hk : (do let q ← imagePos basis p k; pure (q, k) : R (Pos × Fin 8)) = .ok e) :
    imagePos basis p k = .ok e.1 ∧ e.2 = k := by
  cases hq : imagePos basis p k with
  | error err => simp [hq, bind, Except.bind] at hk
  | ok q => simp [hq, bind, Except.bind, pure, Except.pure] at hk; subst hk; exact ⟨rfl, rfl⟩

/-- every pair returned by `Symmetries` is (the `k`-th rebuilt image, `k`), and every one of the eight
images has a representative with the same hash in the list -/
theorem symmetries_mem (basis : Array W) (p : Pos) (rs : List (Pos × Fin 8)) (h : symmetries basis p = .ok rs) :
    (∀ e ∈ rs, imagePos basis p e.2 = .ok e.1) ∧
    (∀ k q, imagePos basis p k = .ok q → ∃ e ∈ rs, e.1.hashOf = q.hashOf) := by
  unfold symmetries at h
  cases hps : (List.finRange 8).mapM (fun k => do let q ← imagePos basis p k; pure (q, k)) with
  | error e => rw [hps] at h; cases h
  | ok ps =>
    rw [hps] at h
    have hrs : rs = dedupByHash ps [] [] := by cases h; rfl
    obtain ⟨m1, m2⟩ := mapM_ok_mem _ _ _ hps
    have hmem : ∀ e ∈ ps, imagePos basis p e.2 = .ok e.1 := by
      intro e he
      obtain ⟨k, _, hk⟩ := m1 e he
      obtain ⟨h1, h2⟩ := image_pair_unpack basis p k e hk
      rw [h2]; exact h1
    subst hrs
    constructor
    · intro e he
      rcases dedup_mem ps [] [] e he with h | h
      · simp at h
      · exact hmem e h
    · intro k q hq
      obtain ⟨a, ha, hk⟩ := m2 k (List.mem_finRange k)
      obtain ⟨h1, _⟩ := image_pair_unpack basis p k a hk
      rw [hq] at h1
      cases h1
      exact dedup_cover ps [] [] (by simp) a ha

end Tak
