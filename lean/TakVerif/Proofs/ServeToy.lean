import TakVerif.Impl.Serve
import TakVerif.Proofs.SearchToy

/-! A toy instance of `Serve.Env` for the non-vacuity examples of `Props/C05_serve.lean`: the subtraction game of
`Proofs/SearchToy.lean` behind the three handlers.  A position is spelled by one byte (the heap size), a move by one
byte; passing leaves the heap to the other player; the engines get 2-entry tables (forced replacement). -/
namespace Tak.Serve.Toy
open Search Go

def env : Env (Fin 32) Nat where
  parseTPS b :=
    match b with
    | [x] => if h : x.toNat < 32 then .ok ⟨x.toNat, h⟩ else .error (.illegal "heap too large")
    | _ => .error (.illegal "one byte expected")
  size _ := 3
  game _ := Search.Toy.game
  pass p := .ok p
  parseMove b :=
    match b with
    | [x] => .ok x.toNat
    | _ => .error (.illegal "one byte expected")
  formatMove m := [UInt8.ofNat m]
  canonical _ ms := .ok ms
  tableEntries := 2

/-- responses only (an error of either kind is `none`) -/
def view : Except Err Resp → Option Resp
  | .ok r => some r
  | .error _ => none

end Tak.Serve.Toy
