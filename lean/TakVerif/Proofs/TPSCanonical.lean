import TakVerif.Proofs.TPSRoundtrip

/-! C10: the canonical TPS grammar is exactly what `FormatTPS` writes, and `FormatTPS ∘ ParseTPS` is the
identity on it. -/
set_option linter.unusedSimpArgs false
namespace Tak.TPS
open Go Notation

theorem join_split (sep : UInt8) (s : Bytes) : join sep (split sep s) = s := by
  induction s with
  | nil => rfl
  | cons b rest ih =>
    simp only [split]
    cases hs : split sep rest with
    | nil => exact absurd hs (split_ne_nil sep rest)
    | cons w ws =>
      rw [hs] at ih
      simp only []
      by_cases hb : b = sep
      · subst hb
        simp only [beq_self_eq_true, if_true, join, List.nil_append, ih]
      · have : (b == sep) = false := by simpa using hb
        simp only [this, Bool.false_eq_true, if_false]
        cases ws with
        | nil => simp only [join] at ih ⊢; rw [ih]
        | cons w2 ws2 => simp only [join, List.cons_append] at ih ⊢; rw [ih]

/-! ### decoding canonical cells -/

def colourPiece (b : UInt8) : Piece := ⟨if b == 49 then .white else .black, .flat⟩

def decodeStack (cell : Bytes) : List Piece :=
  let k : Kind := if cell.dropWhile isColourByte == [83] then .standing
                  else if cell.dropWhile isColourByte == [67] then .capstone else .flat
  match ((cell.takeWhile isColourByte).map colourPiece).reverse with
  | [] => []
  | top :: tl => ⟨top.color, k⟩ :: tl

theorem mem_takeWhile_sat {α : Type} (f : α → Bool) (l : List α) : ∀ b ∈ l.takeWhile f, f b = true := by
  induction l with
  | nil => intro b hb; cases hb
  | cons a l ih =>
    intro b hb
    simp only [List.takeWhile_cons] at hb
    split at hb
    · rename_i ha
      rcases List.mem_cons.mp hb with rfl | hb
      · exact ha
      · exact ih b hb
    · cases hb

theorem pcByte_colourPiece (b : UInt8) (h : isColourByte b = true) : pcByte (colourPiece b) = b := by
  simp only [isColourByte, Bool.or_eq_true, beq_iff_eq] at h
  rcases h with rfl | rfl <;> rfl

theorem decodeStack_spec (cell : Bytes) (h : isStackCell cell = true) :
    sqText (decodeStack cell) = cell ∧ ValidSq (decodeStack cell) ∧ (decodeStack cell).length ≤ 64 ∧
      decodeStack cell ≠ [] := by
  unfold isStackCell at h
  simp only [Bool.and_eq_true, decide_eq_true_eq, Bool.or_eq_true, beq_iff_eq] at h
  obtain ⟨⟨h1, h64⟩, hrest⟩ := h
  have hcell : cell.takeWhile isColourByte ++ cell.dropWhile isColourByte = cell := List.takeWhile_append_dropWhile
  generalize hbody : cell.takeWhile isColourByte = body at h1 h64 hcell
  have hbody_col : ∀ b ∈ body, isColourByte b = true := by
    intro b hb; rw [← hbody] at hb; exact mem_takeWhile_sat _ _ b hb
  unfold decodeStack
  rw [hbody]
  cases hr : (body.map colourPiece).reverse with
  | nil =>
    have : body = [] := by simpa using hr
    rw [this] at h1; simp at h1
  | cons top tl =>
    simp only []
    have hrev : (top :: tl).reverse = body.map colourPiece := by rw [← hr, List.reverse_reverse]
    have hbytes : ∀ k, ((⟨top.color, k⟩ : Piece) :: tl).reverse.map pcByte = body := by
      intro k
      have e1 : ((⟨top.color, k⟩ : Piece) :: tl).reverse.map pcByte = (top :: tl).reverse.map pcByte := by
        simp only [List.reverse_cons, List.map_append, List.map_cons, List.map_nil]
        rfl
      rw [e1, hrev, List.map_map]
      conv => rhs; rw [← List.map_id body]
      apply List.map_congr_left
      intro b hb
      exact pcByte_colourPiece b (hbody_col b hb)
    have hlen : (top :: tl).length = body.length := by
      have := congrArg List.length hrev; simpa using this
    have hvalid : ∀ k, ValidSq ((⟨top.color, k⟩ : Piece) :: tl) := by
      intro k
      have hmem : ∀ pc ∈ top :: tl, pc.color ≠ .none ∧ pc.kind = .flat := by
        intro pc hpc
        have : pc ∈ body.map colourPiece := by rw [← hrev]; exact List.mem_reverse.mpr hpc
        obtain ⟨b, _, rfl⟩ := List.mem_map.mp this
        unfold colourPiece; constructor
        · simp only; split <;> simp
        · rfl
      constructor
      · intro pc hpc
        rcases List.mem_cons.mp hpc with rfl | hpc
        · exact (hmem top (by simp)).1
        · exact (hmem pc (by simp [hpc])).1
      · intro pc hpc
        exact (hmem pc (by simp at hpc; simp [hpc])).2
    refine ⟨?_, hvalid _, by simp only [List.length_cons] at hlen ⊢; omega, by simp⟩
    unfold sqText
    rw [hbytes]
    simp only []
    rcases hrest with (hd | hd) | hd
    · rw [hd] at hcell ⊢
      simp only [markOf]
      have e1 : (([] : Bytes) == [83]) = false := by decide
      have e2 : (([] : Bytes) == [67]) = false := by decide
      simp only [e1, e2, Bool.false_eq_true, if_false]
      exact hcell
    · rw [hd] at hcell ⊢
      simp only [beq_self_eq_true, if_true, markOf]
      exact hcell
    · rw [hd] at hcell ⊢
      have e1 : (([67] : Bytes) == [83]) = false := by decide
      simp only [e1, Bool.false_eq_true, if_false, beq_self_eq_true, if_true, markOf]
      exact hcell

/-- the squares a canonical cell stands for -/
def decodeCell (cell : Bytes) : List (List Piece) :=
  match cell with
  | [120] => [[]]
  | [120, d] => List.replicate (d.toNat - 48) []
  | _ => [decodeStack cell]

/-- the three kinds of canonical cell -/
theorem cell_cases (cell : Bytes) (w : Nat) (h : cellWidth cell = some w) :
    (cell = [120] ∧ w = 1 ∧ decodeCell cell = [[]]) ∨
    (∃ d : UInt8, cell = [120, d] ∧ 50 ≤ d.toNat ∧ d.toNat ≤ 56 ∧ w = d.toNat - 48 ∧
      decodeCell cell = List.replicate (d.toNat - 48) []) ∨
    (isStackCell cell = true ∧ w = 1 ∧ decodeCell cell = [decodeStack cell] ∧ isEmptyCell cell = false) := by
  unfold cellWidth at h
  split at h
  · left; simp only [Option.some.injEq] at h; exact ⟨rfl, h.symm, rfl⟩
  · right; left
    rename_i d
    split at h
    · rename_i hd
      simp only [Bool.and_eq_true, decide_eq_true_eq] at hd
      simp only [Option.some.injEq] at h
      exact ⟨d, rfl, hd.1, hd.2, h.symm, rfl⟩
    · cases h
  · right; right
    rename_i h1 h2
    split at h
    · rename_i hs
      simp only [Option.some.injEq] at h
      refine ⟨hs, h.symm, ?_, ?_⟩
      · unfold decodeCell
        split
        · exact absurd rfl h1
        · rename_i d; exact absurd rfl (h2 d)
        · rfl
      · -- a stack cell starts with a colour digit
        unfold isStackCell at hs
        simp only [Bool.and_eq_true, decide_eq_true_eq] at hs
        cases cell with
        | nil => simp at hs
        | cons b tl =>
          unfold isEmptyCell
          simp only [List.head?_cons, Option.some.injEq, beq_eq_false_iff_ne, ne_eq]
          intro hb
          rw [hb] at hs
          have : isColourByte 120 = false := by decide
          simp [List.takeWhile_cons, this] at hs
    · cases h

theorem cellsOf_replicate (run w : Nat) (S : List (List Piece)) :
    cellsOf run (List.replicate w [] ++ S) = cellsOf (run + w) S := by
  induction w generalizing run with
  | zero => simp
  | succ w ih =>
    rw [List.replicate_succ, List.cons_append]
    have step : cellsOf run ([] :: (List.replicate w [] ++ S)) = cellsOf (run + 1) (List.replicate w [] ++ S) := rfl
    rw [step, ih (run + 1)]
    have e : run + 1 + w = run + (w + 1) := by omega
    rw [e]

theorem flushRun_cell_x : flushRun 1 = [[120]] := rfl

theorem flushRun_cell_xd (d : UInt8) (h1 : 50 ≤ d.toNat) (h2 : d.toNat ≤ 56) :
    flushRun (d.toNat - 48) = [[120, d]] := by
  have : d.toNat = 50 ∨ d.toNat = 51 ∨ d.toNat = 52 ∨ d.toNat = 53 ∨ d.toNat = 54 ∨ d.toNat = 55 ∨ d.toNat = 56 := by omega
  have hd : ∀ k : Nat, d.toNat = k → d = UInt8.ofNat k := by
    intro k hk; rw [← hk]; simp
  rcases this with h | h | h | h | h | h | h <;> (rw [hd _ h]; rfl)

theorem noAdj_tail (c : Bytes) (rest : List Bytes) (h : noAdjacentRuns (c :: rest) = true) :
    noAdjacentRuns rest = true := by
  cases rest with
  | nil => rfl
  | cons c2 rest' =>
    unfold noAdjacentRuns at h
    simp only [Bool.and_eq_true] at h
    exact h.2

/-- decoding the cells of a canonical row and writing them again gives the same cells -/
theorem cellsOf_decode (cells : List Bytes) (ws : List Nat) (hw : cells.mapM cellWidth = some ws)
    (hadj : noAdjacentRuns cells = true) :
    cellsOf 0 (cells.flatMap decodeCell) = cells ∧
    (cells.flatMap decodeCell).length = ws.foldl (· + ·) 0 ∧
    (∀ sq ∈ cells.flatMap decodeCell, ValidSq sq ∧ sq.length ≤ 64) := by
  induction cells generalizing ws with
  | nil =>
    simp only [List.mapM_nil, Option.pure_def, Option.some.injEq] at hw
    subst hw
    exact ⟨rfl, rfl, by intro sq h; cases h⟩
  | cons c rest ih =>
    rw [List.mapM_cons] at hw
    cases hcw : cellWidth c with
    | none => simp [hcw] at hw
    | some w =>
      cases hrw : rest.mapM cellWidth with
      | none => simp [hcw, hrw] at hw
      | some ws' =>
        simp only [hcw, hrw, Option.pure_def, Option.bind_eq_bind, Option.bind_some, Option.some.injEq] at hw
        subst hw
        obtain ⟨ih1, ih2, ih3⟩ := ih ws' hrw (noAdj_tail c rest hadj)
        simp only [List.flatMap_cons, List.length_append, List.foldl_cons, Nat.zero_add]
        rw [foldl_add_nat ws' w, ih2]
        -- runs of empty squares: the next cell, if any, is a stack
        have hrun : ∀ k, 1 ≤ k → flushRun k = [c] → isEmptyCell c = true →
            cellsOf 0 (List.replicate k [] ++ rest.flatMap decodeCell) = c :: rest := by
          intro k hk hfl hce
          rw [cellsOf_replicate, Nat.zero_add]
          cases rest with
          | nil => simp only [List.flatMap_nil]; unfold cellsOf; exact hfl
          | cons c2 rest' =>
            -- c2 cannot be another run
            have hc2 : isEmptyCell c2 = false := by
              unfold noAdjacentRuns at hadj
              simp only [hce, Bool.true_and, Bool.and_eq_true, Bool.not_eq_true'] at hadj
              exact hadj.1
            rw [List.mapM_cons] at hrw
            cases hcw2 : cellWidth c2 with
            | none => simp [hcw2] at hrw
            | some w2 =>
              rcases cell_cases c2 w2 hcw2 with ⟨rfl, _, _⟩ | ⟨d, rfl, _⟩ | ⟨hs, _, hdec, _⟩
              · exact absurd hc2 (by decide)
              · revert hc2; simp [isEmptyCell]
              · obtain ⟨t1, _, _, t4⟩ := decodeStack_spec c2 hs
                simp only [List.flatMap_cons, hdec, List.cons_append, List.nil_append] at ih1 ⊢
                have hne : (decodeStack c2).isEmpty = false := by
                  cases hd : decodeStack c2 with
                  | nil => exact absurd hd t4
                  | cons a b => rfl
                unfold cellsOf at ih1 ⊢
                simp only [hne, Bool.false_eq_true, if_false, t1] at ih1 ⊢
                rw [hfl]
                simp only [flushRun, beq_self_eq_true, if_true, List.nil_append, List.cons.injEq, true_and] at ih1
                rw [ih1]
                rfl
        rcases cell_cases c w hcw with ⟨rfl, rfl, hdec⟩ | ⟨d, rfl, hd1, hd2, rfl, hdec⟩ | ⟨hs, rfl, hdec, hce⟩
        · rw [hdec]
          refine ⟨?_, by simp, ?_⟩
          · exact hrun 1 (by omega) rfl (by decide)
          · intro sq hsq
            rcases List.mem_append.mp hsq with h | h
            · simp only [List.mem_singleton] at h; subst h; exact ⟨⟨by simp, by simp⟩, by simp⟩
            · exact ih3 sq h
        · rw [hdec]
          refine ⟨?_, by simp, ?_⟩
          · exact hrun (d.toNat - 48) (by omega) (flushRun_cell_xd d hd1 hd2) (by simp [isEmptyCell])
          · intro sq hsq
            rcases List.mem_append.mp hsq with h | h
            · have := List.eq_of_mem_replicate h
              subst this; exact ⟨⟨by simp, by simp⟩, by simp⟩
            · exact ih3 sq h
        · obtain ⟨t1, t2, t3, t4⟩ := decodeStack_spec c hs
          rw [hdec]
          refine ⟨?_, by simp, ?_⟩
          · simp only [List.cons_append, List.nil_append]
            have hne : (decodeStack c).isEmpty = false := by
              cases hd : decodeStack c with
              | nil => exact absurd hd t4
              | cons a b => rfl
            unfold cellsOf
            simp only [hne, Bool.false_eq_true, if_false, t1, ih1]
            rfl
          · intro sq hsq
            rcases List.mem_append.mp hsq with h | h
            · simp only [List.mem_singleton] at h; subst h; exact ⟨t2, t3⟩
            · exact ih3 sq h

/-- a canonical row is the text of `n` valid squares -/
theorem canonicalRow_decode (n : Nat) (row : Bytes) (h : canonicalRow n row = true) :
    ∃ sqs : List (List Piece), sqs.length = n ∧ (∀ sq ∈ sqs, ValidSq sq ∧ sq.length ≤ 64) ∧ rowText sqs = row := by
  unfold canonicalRow at h
  simp only [] at h
  cases hm : (split 44 row).mapM cellWidth with
  | none => simp [hm] at h
  | some ws =>
    simp only [hm, Bool.and_eq_true, beq_iff_eq] at h
    obtain ⟨d1, d2, d3⟩ := cellsOf_decode (split 44 row) ws hm h.2
    refine ⟨(split 44 row).flatMap decodeCell, by rw [d2, h.1], d3, ?_⟩
    unfold rowText
    rw [d1]
    exact join_split 44 row

theorem canonicalNumber_decode (w : Bytes) (h : canonicalNumber w = true) :
    ∃ N : Nat, 1 ≤ N ∧ N ≤ 4611686018427387904 ∧ w = itoaNat N := by
  unfold canonicalNumber at h
  cases hd : digitsVal w 0 with
  | none => simp [hd] at h
  | some n =>
    simp only [hd, Bool.and_eq_true, decide_eq_true_eq, beq_iff_eq] at h
    exact ⟨n, h.1.1, h.1.2, h.2⟩

/-- every canonical TPS string is the text `FormatTPS` writes for some valid board and ply -/
theorem canonical_decode (s : Bytes) (h : canonicalTPS s = true) :
    ∃ (n : Nat) (rows : List (List (List Piece))) (mv : Int),
      3 ≤ n ∧ n ≤ 8 ∧ ValidRows n rows ∧ 0 ≤ mv ∧ mv ≤ maxInt64 ∧ s = tpsText (rows.map rowText) mv := by
  unfold canonicalTPS at h
  have hjs := join_split 32 s
  cases hsp : split 32 s with
  | nil => simp [hsp] at h
  | cons w0 t0 =>
  cases t0 with
  | nil => simp [hsp] at h
  | cons w1 t1 =>
  cases t1 with
  | nil => simp [hsp] at h
  | cons w2 t2 =>
  cases t2 with
  | cons w3 t3 => simp [hsp] at h
  | nil =>
    simp only [hsp, Bool.and_eq_true, decide_eq_true_eq, List.all_eq_true, Bool.or_eq_true, beq_iff_eq] at h
    obtain ⟨⟨⟨⟨h3, h8⟩, hrows⟩, hturn⟩, hnum⟩ := h
    obtain ⟨N, hN1, hN2, hw2⟩ := canonicalNumber_decode w2 hnum
    rw [hsp] at hjs
    simp only [join] at hjs
    -- decode every row
    have hdec : ∀ (rs : List Bytes), (∀ r ∈ rs, canonicalRow (split 47 w0).length r = true) →
        ∃ rows : List (List (List Piece)), rows.length = rs.length ∧ rows.map rowText = rs ∧
          ∀ r ∈ rows, r.length = (split 47 w0).length ∧ ∀ sq ∈ r, ValidSq sq ∧ sq.length ≤ 64 := by
      intro rs
      induction rs with
      | nil => intro _; exact ⟨[], rfl, rfl, by intro r hr; cases hr⟩
      | cons r rs ih =>
        intro hall
        obtain ⟨rows, e1, e2, e3⟩ := ih (fun r' hr' => hall r' (by simp [hr']))
        obtain ⟨sqs, f1, f2, f3⟩ := canonicalRow_decode _ r (hall r (by simp))
        refine ⟨sqs :: rows, by simp [e1], by simp [e2, f3], ?_⟩
        intro r' hr'
        rcases List.mem_cons.mp hr' with rfl | hr'
        · exact ⟨f1, f2⟩
        · exact e3 r' hr'
    obtain ⟨rows, e1, e2, e3⟩ := hdec (split 47 w0) hrows
    have hboard : join cSlash (rows.map rowText) = w0 := by rw [e2]; exact join_split 47 w0
    -- the ply
    have key : ∀ (t : Int) (tb : UInt8), (t = 0 ∨ t = 1) → w1 = [tb] → tb = (if t = 0 then c1 else c2) →
        ∃ mv : Int, 0 ≤ mv ∧ mv ≤ maxInt64 ∧ s = tpsText (rows.map rowText) mv := by
      intro t tb ht hw1 htb
      refine ⟨2 * ((N : Int) - 1) + t, by omega, by unfold maxInt64; omega, ?_⟩
      unfold tpsText
      simp only []
      have hpar : ((2 * ((N : Int) - 1) + t) % 2 == 0) = decide (t = 0) := by
        rcases ht with rfl | rfl
        · have : (2 * ((N : Int) - 1) + 0) % 2 = 0 := by omega
          simp [this]
        · have : (2 * ((N : Int) - 1) + 1) % 2 = 1 := by omega
          simp [this]
      have hdiv : (2 * ((N : Int) - 1) + t).tdiv 2 + 1 = (N : Int) := by
        rw [Int.tdiv_eq_ediv_of_nonneg (by omega)]; omega
      rw [hdiv, hboard, ← hjs, hw1, hw2, htb]
      have hit : itoa (N : Int) = itoaNat N := by
        unfold itoa
        have : ¬ ((N : Int) < 0) := by omega
        simp [this]
      rw [hit, hpar]
      rcases ht with rfl | rfl <;> rfl
    rcases hturn with hw1 | hw1
    · obtain ⟨mv, m0, m1, hs⟩ := key 0 49 (Or.inl rfl) hw1 rfl
      exact ⟨_, rows, mv, h3, h8, ⟨e1, e3⟩, m0, m1, hs⟩
    · obtain ⟨mv, m0, m1, hs⟩ := key 1 50 (Or.inr rfl) hw1 rfl
      exact ⟨_, rows, mv, h3, h8, ⟨e1, e3⟩, m0, m1, hs⟩

theorem tps_canonical_roundtrip_core (basis : Array W) (s : Bytes) (hA : AnalyzeTotal) (h : canonicalTPS s = true) :
    ∃ p, parseTPS basis s = .ok p ∧ formatTPS p = .ok s := by
  obtain ⟨n, rows, mv, h3, h8, hv, m0, m1, rfl⟩ := canonical_decode s h
  cases hq : (fsPure basis n (flatBoard rows) mv).analyze with
  | none => exact absurd hq (hA _)
  | some q' =>
    refine ⟨q', ?_, formatTPS_fsPure basis n rows mv q' h8 hv hq⟩
    rw [parseTPS_rows basis n rows mv h3 h8 hv m0 m1, hq]

/-! ### what `FormatTPS` writes is canonical -/

theorem cellWidth_not_x (cell : Bytes) (h : isEmptyCell cell = false) :
    cellWidth cell = if isStackCell cell then some 1 else none := by
  unfold cellWidth
  split
  · exact absurd h (by decide)
  · simp [isEmptyCell] at h
  · rfl

theorem takeWhile_append_of {α : Type} (f : α → Bool) (a b : List α) (ha : ∀ x ∈ a, f x = true)
    (hb : b.head?.all (fun x => !f x) = true) : (a ++ b).takeWhile f = a ∧ (a ++ b).dropWhile f = b := by
  induction a with
  | nil =>
    cases b with
    | nil => exact ⟨rfl, rfl⟩
    | cons x b =>
      simp only [List.head?_cons, Option.all_some, Bool.not_eq_true'] at hb
      simp [List.takeWhile_cons, List.dropWhile_cons, hb]
  | cons x a ih =>
    have hx := ha x (by simp)
    obtain ⟨i1, i2⟩ := ih (fun y hy => ha y (by simp [hy]))
    simp [List.takeWhile_cons, List.dropWhile_cons, hx, i1, i2]

theorem sqText_isStackCell (sq : List Piece) (hne : sq ≠ []) (hl : sq.length ≤ 64) :
    isStackCell (sqText sq) = true ∧ isEmptyCell (sqText sq) = false := by
  cases sq with
  | nil => exact absurd rfl hne
  | cons top tl =>
    have hbody : ∀ b ∈ (top :: tl).reverse.map pcByte, isColourByte b = true := by
      intro b hb
      obtain ⟨pc, _, rfl⟩ := List.mem_map.mp hb
      unfold pcByte; split <;> rfl
    have hmark : (markOf top.kind).head?.all (fun x => !isColourByte x) = true := by
      cases top.kind <;> rfl
    obtain ⟨t1, t2⟩ := takeWhile_append_of isColourByte _ _ hbody hmark
    constructor
    · unfold isStackCell sqText
      simp only []
      rw [t1, t2]
      simp only [List.length_map, List.length_reverse, List.length_cons, Bool.and_eq_true, decide_eq_true_eq,
        Bool.or_eq_true, beq_iff_eq]
      simp only [List.length_cons] at hl
      refine ⟨⟨by omega, hl⟩, ?_⟩
      cases top.kind
      · left; left; rfl
      · left; right; rfl
      · right; rfl
    · unfold isEmptyCell sqText
      cases hr : (top :: tl).reverse with
      | nil => simp at hr
      | cons p ps =>
        simp only [List.map_cons, List.cons_append, List.head?_cons]
        unfold pcByte; split <;> rfl

theorem noAdj_cons_stack (c : Bytes) (L : List Bytes) (h : isEmptyCell c = false) :
    noAdjacentRuns (c :: L) = noAdjacentRuns L := by
  cases L with
  | nil => rfl
  | cons x L' => simp [noAdjacentRuns, h]

theorem noAdj_run_stack (rc c : Bytes) (L : List Bytes) (h : isEmptyCell c = false) :
    noAdjacentRuns (rc :: c :: L) = noAdjacentRuns L := by
  rw [noAdjacentRuns, h, Bool.and_false, Bool.not_false, Bool.true_and, noAdj_cons_stack c L h]

theorem flushRun_widths (run : Nat) (h : run ≤ 8) :
    (flushRun run = [] ∧ run = 0) ∨
    (∃ rc, flushRun run = [rc] ∧ cellWidth rc = some run ∧ 1 ≤ run) := by
  have : run = 0 ∨ run = 1 ∨ run = 2 ∨ run = 3 ∨ run = 4 ∨ run = 5 ∨ run = 6 ∨ run = 7 ∨ run = 8 := by omega
  rcases this with rfl | rfl | rfl | rfl | rfl | rfl | rfl | rfl | rfl
  · left; exact ⟨rfl, rfl⟩
  all_goals (right; exact ⟨_, rfl, rfl, by omega⟩)

/-- the cells written for a row are canonical cells whose widths add up to the row, with maximal runs -/
theorem cellsOf_canonical (run : Nat) (sqs : List (List Piece)) (hlen : run + sqs.length ≤ 8)
    (hv : ∀ sq ∈ sqs, sq.length ≤ 64) :
    ∃ ws, (cellsOf run sqs).mapM cellWidth = some ws ∧ ws.foldl (· + ·) 0 = run + sqs.length ∧
      noAdjacentRuns (cellsOf run sqs) = true := by
  induction sqs generalizing run with
  | nil =>
    simp only [cellsOf, List.length_nil, Nat.add_zero]
    rcases flushRun_widths run (by simpa using hlen) with ⟨h1, h2⟩ | ⟨rc, h1, h2, _⟩
    · rw [h1, h2]; exact ⟨[], rfl, rfl, rfl⟩
    · rw [h1]; exact ⟨[run], by simp [h2], by simp, rfl⟩
  | cons sq rest ih =>
    simp only [List.length_cons] at hlen
    have hvr : ∀ s ∈ rest, s.length ≤ 64 := fun s hs => hv s (by simp [hs])
    unfold cellsOf
    split
    · obtain ⟨ws, a1, a2, a3⟩ := ih (run + 1) (by omega) hvr
      exact ⟨ws, a1, by rw [a2]; simp only [List.length_cons]; omega, a3⟩
    · rename_i hne
      have hne' : sq ≠ [] := by simpa using hne
      obtain ⟨ws, a1, a2, a3⟩ := ih 0 (by omega) hvr
      obtain ⟨s1, s2⟩ := sqText_isStackCell sq hne' (hv sq (by simp))
      have hcw : cellWidth (sqText sq) = some 1 := by rw [cellWidth_not_x _ s2, s1]; rfl
      rcases flushRun_widths run (by omega) with ⟨h1, h2⟩ | ⟨rc, h1, h2, h3⟩
      · rw [h1, h2]
        refine ⟨1 :: ws, by simp [hcw, a1], ?_, ?_⟩
        · simp only [List.foldl_cons, List.length_cons]; rw [foldl_add_nat, a2]; omega
        · simp only [List.nil_append]; rw [noAdj_cons_stack _ _ s2]; exact a3
      · rw [h1]
        refine ⟨run :: 1 :: ws, by simp [hcw, a1, h2], ?_, ?_⟩
        · simp only [List.foldl_cons, List.length_cons]; rw [foldl_add_nat, a2]; omega
        · simp only [List.cons_append, List.nil_append]; rw [noAdj_run_stack _ _ _ s2]; exact a3

theorem rowText_canonical (n : Nat) (sqs : List (List Piece)) (hn : sqs.length = n) (h1 : 1 ≤ n) (h8 : n ≤ 8)
    (hv : ∀ sq ∈ sqs, sq.length ≤ 64) : canonicalRow n (rowText sqs) = true := by
  obtain ⟨ws, a1, a2, a3⟩ := cellsOf_canonical 0 sqs (by omega) hv
  unfold canonicalRow rowText
  simp only []
  have hsplit : split 44 (join cComma (cellsOf 0 sqs)) = cellsOf 0 sqs :=
    split_join cComma _ (cellsOf_ne_nil 0 sqs (by omega))
      (fun w hw b hb => (noSep_cellsOf 0 sqs (by omega) w hw b hb).1)
  rw [hsplit, a1]
  simp only [a2, a3, Nat.zero_add, hn, beq_self_eq_true, Bool.and_self]

/-- the text of a valid board and a ply in `[0, 2^63)` is a canonical TPS string -/
theorem tpsText_canonical (n : Nat) (rows : List (List (List Piece))) (mv : Int)
    (h3 : 3 ≤ n) (h8 : n ≤ 8) (hv : ValidRows n rows) (h0 : 0 ≤ mv) (h1 : mv ≤ maxInt64) :
    canonicalTPS (tpsText (rows.map rowText) mv) = true := by
  have hrowlen : ∀ r ∈ rows, r.length ≤ 9 := fun r hr => by have := (hv.2 r hr).1; omega
  have hboard : ∀ b ∈ join cSlash (rows.map rowText), b ≠ 32 := by
    apply noSpace_join_slash
    intro w hw
    obtain ⟨r, hr, rfl⟩ := List.mem_map.mp hw
    exact rowText_noSlash r (hrowlen r hr)
  have hN : 1 ≤ mv.tdiv 2 + 1 := by have := Int.tdiv_nonneg h0 (by omega : (0:Int) ≤ 2); omega
  have hdiv : mv.tdiv 2 = mv / 2 := Int.tdiv_eq_ediv_of_nonneg h0
  have hitoa : itoa (mv.tdiv 2 + 1) = itoaNat (mv.tdiv 2 + 1).toNat := by
    unfold itoa; have : ¬ (mv.tdiv 2 + 1 < 0) := by omega
    simp [this]
  obtain ⟨_, hdig, hval, _⟩ := itoaNat_spec (mv.tdiv 2 + 1).toNat
  have hnum : ∀ b ∈ itoa (mv.tdiv 2 + 1), b ≠ 32 := by
    intro b hb; rw [hitoa] at hb; exact (noSep_of_digit b (hdig b hb)).2.2
  have hturn : ∀ b ∈ [if mv % 2 == 0 then c1 else c2], b ≠ cSpace := by
    intro b hb; simp only [List.mem_singleton] at hb; subst hb; split <;> decide
  have hsplit : split 32 (join cSlash (rows.map rowText) ++
      cSpace :: (if mv % 2 == 0 then c1 else c2) :: cSpace :: itoa (mv.tdiv 2 + 1)) =
      [join cSlash (rows.map rowText), [if mv % 2 == 0 then c1 else c2], itoa (mv.tdiv 2 + 1)] := by
    show split cSpace _ = _
    rw [split_append_sep cSpace _ _ hboard]
    have e : (if mv % 2 == 0 then c1 else c2) :: cSpace :: itoa (mv.tdiv 2 + 1) =
        [if mv % 2 == 0 then c1 else c2] ++ cSpace :: itoa (mv.tdiv 2 + 1) := rfl
    rw [e, split_append_sep cSpace _ _ hturn, split_nosep cSpace _ hnum]
  unfold canonicalTPS tpsText
  simp only []
  rw [hsplit]
  simp only []
  have hslash : ∀ w ∈ rows.map rowText, ∀ b ∈ w, b ≠ cSlash := by
    intro w hw b hb
    obtain ⟨r, hr, rfl⟩ := List.mem_map.mp hw
    exact (rowText_noSlash r (hrowlen r hr) b hb).1
  have hne : rows.map rowText ≠ [] := by
    intro e; have hr : rows = [] := by simpa using e
    have hl := hv.1; rw [hr] at hl; simp only [List.length_nil] at hl; omega
  have hsj : split 47 (join cSlash (rows.map rowText)) = rows.map rowText := split_join cSlash _ hne hslash
  rw [hsj]
  simp only [List.length_map, hv.1, Bool.and_eq_true, decide_eq_true_eq, List.all_eq_true, Bool.or_eq_true, beq_iff_eq]
  refine ⟨⟨⟨⟨h3, h8⟩, ?_⟩, ?_⟩, ?_⟩
  · intro r hr
    obtain ⟨r0, hr0, rfl⟩ := List.mem_map.mp hr
    obtain ⟨a, b⟩ := hv.2 r0 hr0
    exact rowText_canonical n r0 a (by omega) h8 (fun sq hsq => (b sq hsq).2)
  · split
    · left; rfl
    · right; rfl
  · unfold canonicalNumber
    rw [hitoa, hval]
    simp only [Bool.and_eq_true, decide_eq_true_eq, beq_self_eq_true, and_true]
    unfold maxInt64 at h1
    omega

theorem formatTPS_canonical_core (basis : Array W) (p : Pos) (h : tpsHyp basis p = true) :
    ∃ s, formatTPS p = .ok s ∧ canonicalTPS s = true := by
  have wf := tpsWF_of_hyp basis p h
  exact ⟨_, formatTPS_eq p (wf_heightsOK basis p wf),
    tpsText_canonical p.cfg.size (boardRows p) p.move wf.n3 wf.n8 (wf_validRows basis p wf) wf.mv0 wf.mv1⟩


end Tak.TPS
