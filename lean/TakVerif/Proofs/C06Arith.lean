import TakVerif.Impl.DFPN

/-! Arithmetic of proof numbers: when a saturating sum / minimum over children is zero. -/
namespace C06
open Tak Tak.PN

theorem u32_eq_zero_iff (a : UInt32) : a = 0 ↔ a.toNat = 0 := by
  constructor
  · intro h; subst h; rfl
  · intro h; apply UInt32.toNat_inj.mp; simpa using h

theorem maxU32_ne_zero : maxU32 ≠ 0 := by decide

theorem saturatingAdd_eq_zero (l r : UInt32) : saturatingAdd l r = 0 ↔ l = 0 ∧ r = 0 := by
  unfold saturatingAdd
  constructor
  · intro h
    split at h
    · exact absurd h maxU32_ne_zero
    · rename_i hlt
      rw [UInt32.lt_iff_toNat_lt, UInt32.toNat_add] at hlt
      rw [u32_eq_zero_iff, UInt32.toNat_add] at h
      have hl := l.toNat_lt
      have hr := r.toNat_lt
      rw [u32_eq_zero_iff, u32_eq_zero_iff]
      omega
  · rintro ⟨rfl, rfl⟩
    decide

theorem sumChildren_delta_zero {M : Type} (cs : List (Node M)) (p0 d0 : UInt32) :
    (sumChildren cs p0 d0).2 = 0 ↔ d0 = 0 ∧ ∀ c ∈ cs, c.phi = 0 := by
  induction cs generalizing p0 d0 with
  | nil => simp [sumChildren]
  | cons c cs ih =>
    simp only [sumChildren, ih, saturatingAdd_eq_zero, List.mem_cons, forall_eq_or_imp]
    constructor
    · rintro ⟨⟨h1, h2⟩, h3⟩; exact ⟨h1, h2, h3⟩
    · rintro ⟨h1, h2, h3⟩; exact ⟨⟨h1, h2⟩, h3⟩

theorem sumChildren_phi_zero {M : Type} (cs : List (Node M)) (p0 d0 : UInt32) :
    (sumChildren cs p0 d0).1 = 0 ↔ p0 = 0 ∨ ∃ c ∈ cs, c.delta = 0 := by
  induction cs generalizing p0 d0 with
  | nil => simp [sumChildren]
  | cons c cs ih =>
    simp only [sumChildren, ih, List.mem_cons, exists_eq_or_imp]
    constructor
    · rintro (h | h)
      · split at h
        · exact Or.inr (Or.inl h)
        · exact Or.inl h
      · exact Or.inr (Or.inr h)
    · rintro (h | h | h)
      · left
        split
        · rename_i hlt
          rw [h] at hlt
          rw [UInt32.lt_iff_toNat_lt] at hlt
          simp at hlt
        · exact h
      · left
        split
        · exact h
        · rename_i hlt
          rw [h, UInt32.lt_iff_toNat_lt] at hlt
          rw [u32_eq_zero_iff]
          simp at hlt
          exact hlt
      · exact Or.inr h

end C06
