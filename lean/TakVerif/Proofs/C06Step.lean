import TakVerif.Proofs.C06Inv

/-! Soundness of the local steps of PN search: `evaluate` and `setNumbers`. -/
namespace C06
open Tak Tak.PN Spec.Game

variable {S M : Type} (G : Game S M) (att : Color)

theorem repCount_le (cur : S) : ∀ (ups : List (Crumb M)) (rest : List S) (k : Nat),
    repCount G cur k ups rest ≤ k + (rest.filter (fun t => G.equal t cur)).length := by
  intro ups
  induction ups with
  | nil => intro rest k; simp [repCount]
  | cons cr ups ih =>
    intro rest k
    cases rest with
    | nil => simp [repCount]
    | cons pos rest =>
      simp only [repCount]
      split
      · have := ih rest (if G.equal pos cur = true then k + 1 else k)
        simp only [List.filter_cons]
        split <;> rename_i he <;> simp only [he, if_true, if_false, Bool.false_eq_true] at this ⊢ <;>
          (try simp only [List.length_cons]) <;> omega
      · omega

theorem checkRepetition_sound (st : St S M) (cur : S) (rest : List S) (hs : st.stack = cur :: rest)
    (h : checkRepetition G st = true) : Rep3 G rest cur := by
  unfold checkRepetition at h
  split at h
  · exact absurd h (by simp)
  · rw [hs] at h
    simp only [beq_iff_eq] at h
    have := repCount_le G cur st.up rest 1
    unfold Rep3
    omega

/-- what `evaluate` does: only the value of the focus and the depth-limit flag change, and the value is justified -/
theorem evaluate_spec (st st' : St S M) (cur : S) (rest : List S) (hs : st.stack = cur :: rest)
    (h : PN.evaluate G att st = some st') :
    ∃ v, st'.focus = { st.focus with value := v } ∧ st'.up = st.up ∧ st'.stack = st.stack ∧
      st'.cfg = st.cfg ∧ st'.stats = st.stats ∧ st'.anomaly = st.anomaly ∧
      (st'.depthLimited = (st.depthLimited || st'.depthLimited)) ∧
      (v = .proven → G.over cur = some att) ∧
      (v = .unknown → G.over cur = none) ∧
      (v = .disproven → st'.depthLimited = true ∨ (∃ w, G.over cur = some w ∧ w ≠ att) ∨
          (G.over cur = none ∧ Rep3 G rest cur)) := by
  unfold PN.evaluate at h
  split at h
  · injection h with h; subst h
    exact ⟨.disproven, rfl, rfl, rfl, rfl, rfl, rfl, by simp, by simp, by simp, fun _ => Or.inl rfl⟩
  · split at h
    · exact absurd h (by simp)
    · rename_i cur' rest' hst
      rw [hs] at hst
      injection hst with h1 h2
      subst h1; subst h2
      split at h
      · rename_i who hw
        injection h with h; subst h
        by_cases hwa : who = att
        · subst hwa
          exact ⟨.proven, by simp, rfl, rfl, rfl, rfl, rfl, by simp, fun _ => hw, by simp, by simp⟩
        · exact ⟨.disproven, by simp [hwa], rfl, rfl, rfl, rfl, rfl, by simp, by simp, by simp,
            fun _ => Or.inr (Or.inl ⟨who, hw, hwa⟩)⟩
      · rename_i hw
        split at h
        · rename_i hr
          injection h with h; subst h
          exact ⟨.disproven, rfl, rfl, rfl, rfl, rfl, rfl, by simp, by simp, by simp,
            fun _ => Or.inr (Or.inr ⟨hw, checkRepetition_sound G st cur rest hs hr⟩)⟩
        · injection h with h; subst h
          exact ⟨.unknown, rfl, rfl, rfl, rfl, rfl, rfl, by simp, by simp, fun _ => hw, by simp⟩


/-! ### `setNumbers` -/

theorem setNumbers_value (cur : S) (n : Node M) : (setNumbers G cur n).value = n.value := by
  unfold setNumbers; split
  · rfl
  · split <;> (try split) <;> rfl

theorem setNumbers_isAnd (cur : S) (n : Node M) : (setNumbers G cur n).isAnd = n.isAnd := by
  unfold setNumbers; split
  · rfl
  · split <;> (try split) <;> rfl

theorem setNumbers_expanded (cur : S) (n : Node M) : (setNumbers G cur n).expanded = n.expanded := by
  unfold setNumbers; split
  · rfl
  · split <;> (try split) <;> rfl

theorem setNumbers_children (cur : S) (n : Node M) : (setNumbers G cur n).children = n.children := by
  unfold setNumbers; split
  · rfl
  · split <;> (try split) <;> rfl

theorem setNumbers_move (cur : S) (n : Node M) : (setNumbers G cur n).move = n.move := by
  unfold setNumbers; split
  · rfl
  · split <;> (try split) <;> rfl

theorem setNumbers_irreversible (cur : S) (n : Node M) : (setNumbers G cur n).irreversible = n.irreversible := by
  unfold setNumbers; split
  · rfl
  · split <;> (try split) <;> rfl

theorem ofNat_length_eq_zero (s : S) (hsb : (G.moves s).length < 2 ^ 32) (h : UInt32.ofNat (G.moves s).length = 0) :
    G.moves s = [] := by
  have hb := hsb
  rw [u32_eq_zero_iff] at h
  simp only [UInt32.toNat_ofNat'] at h
  have : (G.moves s).length = 0 := by omega
  exact List.eq_nil_of_length_eq_zero this

theorem no_succ_of_no_moves {s s' : S} (h : G.moves s = []) : ¬ Succ G s s' := by
  rintro ⟨m, hm, _⟩; rw [h] at hm; exact absurd hm (by simp)

/-- numbers of a node that has not been expanded: from its value -/
theorem setNumbers_leaf_ok {dl : Bool} {h : List S} {s : S} {n : Node M} (hsb : (G.moves s).length < 2 ^ 32)
    (hexp : n.expanded = false)
    (hP : n.value = .proven → PlainWin G att s)
    (hD : dl = false → n.value = .disproven → ¬ Win G att h s)
    (hU : n.value = .unknown → G.over s = none)
    (hside : n.isAnd = true ↔ G.toMove s ≠ att) :
    NumOK G att dl h s (setNumbers G s n) := by
  have hmax := maxU32_ne_zero
  unfold setNumbers
  rw [if_neg (by simp [hexp])]
  cases hv : n.value with
  | unknown =>
    simp only
    have hover := hU hv
    refine ⟨?_, ?_, ?_, ?_, ?_, hside, ?_, Or.inl hover⟩
    · intro hp
      simp only [Node.proof] at hp
      split at hp
      · rename_i ha
        have hm := ofNat_length_eq_zero G s hsb hp
        exact .defender hover (hside.mp ha) (fun s' hs' => absurd hs' (no_succ_of_no_moves G hm))
      · exact absurd hp (by decide)
    · intro _ hd w
      simp only [Node.disproof] at hd
      split at hd
      · exact absurd hd (by decide)
      · rename_i ha
        have hm := ofNat_length_eq_zero G s hsb hd
        cases w with
        | terminal ho => rw [hover] at ho; exact absurd ho (by simp)
        | attacker _ _ _ hs' _ => exact no_succ_of_no_moves G hm hs'
        | defender _ _ ht _ => exact ha (hside.mpr ht)
    · intro hp; simp only at hp; exact absurd hp (by simp)
    · intro _ hp; simp only at hp; exact absurd hp (by simp)
    · intro _; exact hover
    · rintro ⟨h1, _⟩; simp only at h1; exact absurd h1 (by decide)
  | proven =>
    simp only
    have hw := hP hv
    have e : (Eval.proven == Eval.proven) = true := by decide
    split
    · rename_i hc
      rw [e] at hc
      have hc' : n.isAnd = true := by simpa using hc
      refine ⟨fun _ => hw, ?_, fun _ => hw, ?_, ?_, hside, ?_, Or.inr ⟨hexp, Or.inr rfl⟩⟩
      · intro _ hd
        simp only [Node.disproof, hc', if_true] at hd
        exact absurd hd hmax
      · intro _ hp; simp only at hp; exact absurd hp (by simp)
      · intro hp; simp only at hp; exact absurd hp (by simp)
      · rintro ⟨h1, _⟩; exact absurd h1 hmax
    · rename_i hc
      rw [e] at hc
      have hc' : n.isAnd = false := by simpa using hc
      refine ⟨fun _ => hw, ?_, fun _ => hw, ?_, ?_, hside, ?_, Or.inr ⟨hexp, Or.inl rfl⟩⟩
      · intro _ hd
        simp only [Node.disproof, hc'] at hd
        exact absurd hd hmax
      · intro _ hp; simp only at hp; exact absurd hp (by simp)
      · intro hp; simp only at hp; exact absurd hp (by simp)
      · rintro ⟨_, h2⟩; exact absurd h2 hmax
  | disproven =>
    simp only
    split
    · rename_i hc
      have e : (Eval.disproven == Eval.proven) = false := by decide
      rw [e] at hc
      have hc' : n.isAnd = false := by simpa using hc
      refine ⟨?_, fun hdl _ => hD hdl hv, ?_, fun hdl _ => hD hdl hv, ?_, hside, ?_, Or.inr ⟨hexp, Or.inr rfl⟩⟩
      · intro hp; simp only [Node.proof, hc'] at hp; exact absurd hp hmax
      · intro hp; simp only at hp; exact absurd hp (by simp)
      · intro hp; simp only at hp; exact absurd hp (by simp)
      · rintro ⟨h1, _⟩; exact absurd h1 hmax
    · rename_i hc
      have e : (Eval.disproven == Eval.proven) = false := by decide
      rw [e] at hc
      have hc' : n.isAnd = true := by simpa using hc
      refine ⟨?_, fun hdl _ => hD hdl hv, ?_, fun hdl _ => hD hdl hv, ?_, hside, ?_, Or.inr ⟨hexp, Or.inl rfl⟩⟩
      · intro hp; simp only [Node.proof, hc', if_true] at hp; exact absurd hp hmax
      · intro hp; simp only at hp; exact absurd hp (by simp)
      · intro hp; simp only at hp; exact absurd hp (by simp)
      · rintro ⟨_, h2⟩; exact absurd h2 hmax


/-- a legal move has a child node standing for the position it leads to -/
theorem cover_child {s : S} {n : Node M} {cs : List (Node M)} {dl : Bool} {h : List S}
    (hkids : ∀ c ∈ cs, ∃ s', ChildOf G s n c s' ∧ NumOK G att dl (s :: h) s' c)
    (hcov : ∀ m ∈ G.moves s, ∀ s', G.apply s m = some s' → ∃ c ∈ cs, c.move = m)
    {s' : S} (hs : Succ G s s') : ∃ c ∈ cs, ChildOf G s n c s' ∧ NumOK G att dl (s :: h) s' c := by
  obtain ⟨m, hm, ha⟩ := hs
  obtain ⟨c, hc, hcm⟩ := hcov m hm s' ha
  obtain ⟨s'', hco, hnum⟩ := hkids c hc
  have : s'' = s' := by
    have h1 := hco.2.1
    rw [hcm, ha] at h1
    exact (Option.some.inj h1).symm
  subst this
  exact ⟨c, hc, hco, hnum⟩

/-- numbers of an expanded node: from its children -/
theorem setNumbers_expanded_ok {dl : Bool} {h : List S} {s : S} {n : Node M}
    (hexp : n.expanded = true) (hover : G.over s = none)
    (hP : n.value = .proven → PlainWin G att s)
    (hD : dl = false → n.value = .disproven → ¬ Win G att h s)
    (hU : n.value = .unknown → G.over s = none)
    (hside : n.isAnd = true ↔ G.toMove s ≠ att)
    (hkids : ∀ c ∈ n.children, ∃ s', ChildOf G s n c s' ∧ NumOK G att dl (s :: h) s' c)
    (hcover : Cover G s n.children) :
    NumOK G att dl h s (setNumbers G s n) := by
  have hmax := maxU32_ne_zero
  unfold setNumbers
  rw [if_pos hexp]
  have hphi := sumChildren_phi_zero n.children maxU32 0
  have hdelta := sumChildren_delta_zero n.children maxU32 0
  generalize sumChildren n.children maxU32 0 = pd at hphi hdelta
  obtain ⟨p, d⟩ := pd
  simp only at hphi hdelta ⊢
  -- a zero minimum names a child with δ = 0; a zero sum makes every child's φ zero
  have hp0 : p = 0 → ∃ c ∈ n.children, c.delta = 0 := fun hp =>
    (hphi.mp hp).resolve_left hmax
  have hd0 : d = 0 → ∀ c ∈ n.children, c.phi = 0 := fun hd => (hdelta.mp hd).2
  -- with all φ zero the child chain is complete (an early stop would have both numbers zero)
  have hcomplete : d = 0 → ∀ m ∈ G.moves s, ∀ s', G.apply s m = some s' → ∃ c ∈ n.children, c.move = m := by
    intro hd
    rcases hcover with hc | ⟨c, hc, _, hcd⟩
    · exact hc
    · obtain ⟨s', _, hnum⟩ := hkids c hc
      exact absurd ⟨hd0 hd c hc, hcd⟩ hnum.notBoth
  refine ⟨?_, ?_, hP, hD, hU, hside, ?_, Or.inl hover⟩
  · -- proof number zero
    intro hp
    simp only [Node.proof] at hp
    split at hp
    · rename_i ha
      -- AND node: every successor is won
      refine .defender hover (hside.mp ha) ?_
      intro s' hs'
      obtain ⟨c, hc, hco, hnum⟩ := cover_child G att hkids (hcomplete hp) hs'
      apply hnum.proof
      have hca : c.isAnd = false := by rw [hco.2.2, ha]; rfl
      simp only [Node.proof, hca]
      exact hd0 hp c hc
    · rename_i ha
      have ha' : n.isAnd = false := by simpa using ha
      obtain ⟨c, hc, hcd⟩ := hp0 hp
      obtain ⟨s', hco, hnum⟩ := hkids c hc
      have hca : c.isAnd = true := by rw [hco.2.2, ha']; rfl
      have hw : PlainWin G att s' := by
        apply hnum.proof
        simp only [Node.proof, hca, if_true]
        exact hcd
      have htm : G.toMove s = att := by
        by_cases ht : G.toMove s = att
        · exact ht
        · exact absurd (hside.mpr ht) ha
      exact .attacker hover htm ⟨c.move, hco.1, hco.2.1⟩ hw
  · -- disproof number zero
    intro hdl hd w
    simp only [Node.disproof] at hd
    split at hd
    · rename_i ha
      -- AND node: one successor is not won
      obtain ⟨c, hc, hcd⟩ := hp0 hd
      obtain ⟨s', hco, hnum⟩ := hkids c hc
      have hca : c.isAnd = false := by rw [hco.2.2, ha]; rfl
      have hnw : ¬ Win G att (s :: h) s' := by
        apply hnum.disproof hdl
        simp only [Node.disproof, hca]
        exact hcd
      cases w with
      | terminal ho => rw [hover] at ho; exact absurd ho (by simp)
      | attacker _ _ ht _ _ => exact (hside.mp ha) ht
      | defender _ _ _ hall => exact hnw (hall s' ⟨c.move, hco.1, hco.2.1⟩)
    · rename_i ha
      have ha' : n.isAnd = false := by simpa using ha
      cases w with
      | terminal ho => rw [hover] at ho; exact absurd ho (by simp)
      | attacker _ _ _ hs' hw' =>
        obtain ⟨c, hc, hco, hnum⟩ := cover_child G att hkids (hcomplete hd) hs'
        have hca : c.isAnd = true := by rw [hco.2.2, ha']; rfl
        refine hnum.disproof hdl ?_ hw'
        simp only [Node.disproof, hca, if_true]
        exact hd0 hd c hc
      | defender _ _ ht _ => exact ha (hside.mpr ht)
  · rintro ⟨hp, hd⟩
    obtain ⟨c, hc, hcd⟩ := hp0 hp
    obtain ⟨s', _, hnum⟩ := hkids c hc
    exact hnum.notBoth ⟨hd0 hd c hc, hcd⟩

end C06
