import TakVerif.Impl.GoBytes

/-! Lemmas about the Go string helpers: `split`/`join` inversion, decimal formatting and parsing. -/
namespace Go

theorem split_ne_nil (sep : UInt8) (s : Bytes) : split sep s ≠ [] := by
  induction s with
  | nil => simp [split]
  | cons b rest ih =>
    simp only [split]
    split
    · simp
    · split <;> simp

theorem split_cons_sep (sep : UInt8) (rest : Bytes) : split sep (sep :: rest) = [] :: split sep rest := by
  simp only [split]
  split
  · rename_i h; exact absurd h (split_ne_nil sep rest)
  · rename_i w ws h; simp [h]

theorem split_cons_ne (sep b : UInt8) (rest : Bytes) (w : Bytes) (ws : List Bytes) (hb : b ≠ sep)
    (h : split sep rest = w :: ws) : split sep (b :: rest) = (b :: w) :: ws := by
  simp only [split, h]
  have : (b == sep) = false := by simpa using hb
  simp [this]

/-- a piece without the separator, followed by the separator: the piece is split off -/
theorem split_append_sep (sep : UInt8) (w rest : Bytes) (hw : ∀ b ∈ w, b ≠ sep) :
    split sep (w ++ sep :: rest) = w :: split sep rest := by
  induction w with
  | nil => exact split_cons_sep sep rest
  | cons b w ih =>
    have := ih (fun c hc => hw c (by simp [hc]))
    exact split_cons_ne sep b _ _ _ (hw b (by simp)) this

theorem split_nosep (sep : UInt8) (w : Bytes) (hw : ∀ b ∈ w, b ≠ sep) : split sep w = [w] := by
  induction w with
  | nil => rfl
  | cons b w ih =>
    have := ih (fun c hc => hw c (by simp [hc]))
    exact split_cons_ne sep b _ _ _ (hw b (by simp)) this

/-- `Split(Join(ws, sep), sep) = ws` for a non-empty list of separator-free pieces -/
theorem split_join (sep : UInt8) (ws : List Bytes) (hne : ws ≠ []) (hw : ∀ w ∈ ws, ∀ b ∈ w, b ≠ sep) :
    split sep (join sep ws) = ws := by
  induction ws with
  | nil => exact absurd rfl hne
  | cons w ws ih =>
    cases ws with
    | nil => simp only [join]; exact split_nosep sep w (hw w (by simp))
    | cons w2 ws2 =>
      simp only [join]
      rw [split_append_sep sep w _ (hw w (by simp))]
      rw [ih (by simp) (fun v hv => hw v (by simp [hv]))]

end Go
