import TakVerif.Impl.GoBytes

/-! Lemmas about the Go string helpers: `split`/`join` inversion, decimal formatting and parsing. -/
namespace Go

theorem split_ne_nil (sep : UInt8) (s : Bytes) : split sep s ≠ [] := by
  induction s with
  | nil => simp [split]
  | cons b rest ih =>
    simp only [split]
    split
    · simp
    · split <;> simp

theorem split_cons_sep (sep : UInt8) (rest : Bytes) : split sep (sep :: rest) = [] :: split sep rest := by
  simp only [split]
  split
  · rename_i h; exact absurd h (split_ne_nil sep rest)
  · rename_i w ws h; simp [h]

theorem split_cons_ne (sep b : UInt8) (rest : Bytes) (w : Bytes) (ws : List Bytes) (hb : b ≠ sep)
    (h : split sep rest = w :: ws) : split sep (b :: rest) = (b :: w) :: ws := by
  simp only [split, h]
  have : (b == sep) = false := by simpa using hb
  simp [this]

/-- a piece without the separator, followed by the separator: the piece is split off -/
theorem split_append_sep (sep : UInt8) (w rest : Bytes) (hw : ∀ b ∈ w, b ≠ sep) :
    split sep (w ++ sep :: rest) = w :: split sep rest := by
  induction w with
  | nil => exact split_cons_sep sep rest
  | cons b w ih =>
    have := ih (fun c hc => hw c (by simp [hc]))
    exact split_cons_ne sep b _ _ _ (hw b (by simp)) this

theorem split_nosep (sep : UInt8) (w : Bytes) (hw : ∀ b ∈ w, b ≠ sep) : split sep w = [w] := by
  induction w with
  | nil => rfl
  | cons b w ih =>
    have := ih (fun c hc => hw c (by simp [hc]))
    exact split_cons_ne sep b _ _ _ (hw b (by simp)) this

/-- `Split(Join(ws, sep), sep) = ws` for a non-empty list of separator-free pieces -/
theorem split_join (sep : UInt8) (ws : List Bytes) (hne : ws ≠ []) (hw : ∀ w ∈ ws, ∀ b ∈ w, b ≠ sep) :
    split sep (join sep ws) = ws := by
  induction ws with
  | nil => exact absurd rfl hne
  | cons w ws ih =>
    cases ws with
    | nil => simp only [join]; exact split_nosep sep w (hw w (by simp))
    | cons w2 ws2 =>
      simp only [join]
      rw [split_append_sep sep w _ (hw w (by simp))]
      rw [ih (by simp) (fun v hv => hw v (by simp [hv]))]

theorem toNat_digitByte (d : Nat) (h : d ≤ 9) : (UInt8.ofNat (48 + d)).toNat = 48 + d := by
  rw [UInt8.toNat_ofNat']; omega

theorem isDigit_digitByte (d : Nat) (h : d ≤ 9) : isDigit (UInt8.ofNat (48 + d)) = true := by
  simp only [isDigit, toNat_digitByte d h, Bool.and_eq_true, decide_eq_true_eq]; omega

theorem digitsVal_append (xs ys : Bytes) (a : Nat) :
    digitsVal (xs ++ ys) a = (digitsVal xs a).bind (digitsVal ys) := by
  induction xs generalizing a with
  | nil => rfl
  | cons b xs ih =>
    simp only [List.cons_append, digitsVal]
    split
    · exact ih _
    · rfl

/-- `natDigits` prepends a block of decimal digits whose value is `n` -/
theorem natDigits_spec (fuel n : Nat) (acc : Bytes) (hn : n < 10 ^ fuel) :
    ∃ pre : Bytes, natDigits fuel n acc = pre ++ acc ∧ (∀ b ∈ pre, isDigit b = true) ∧ (1 ≤ fuel → pre ≠ []) ∧
      (∀ a, digitsVal pre a = some (a * 10 ^ pre.length + n)) ∧
      (1 ≤ n → ∀ b, pre.head? = some b → b ≠ 48) := by
  induction fuel generalizing n acc with
  | zero =>
    have : n = 0 := by simpa using hn
    subst this
    exact ⟨[], rfl, by simp, by omega, by intro a; simp [digitsVal], by omega⟩
  | succ f ih =>
    unfold natDigits
    simp only []
    have hd : n % 10 ≤ 9 := by omega
    by_cases hq : n / 10 = 0
    · have hq' : (n / 10 == 0) = true := by simp [hq]
      simp only [hq', if_true]
      refine ⟨[UInt8.ofNat (48 + n % 10)], rfl, ?_, by simp, ?_, ?_⟩
      · intro b hb; simp only [List.mem_singleton] at hb; subst hb; exact isDigit_digitByte _ hd
      · intro a
        simp only [digitsVal, isDigit_digitByte _ hd, if_true, toNat_digitByte _ hd, List.length_singleton]
        congr 1; omega
      · intro h1 b hb
        simp only [List.head?_cons, Option.some.injEq] at hb
        subst hb
        intro h48
        have := congrArg UInt8.toNat h48
        rw [toNat_digitByte _ hd] at this
        have : (48 : UInt8).toNat = 48 := rfl
        omega
    · have hq' : (n / 10 == 0) = false := by simp [hq]
      simp only [hq']
      have hlt : n / 10 < 10 ^ f := by
        apply Nat.div_lt_of_lt_mul
        have : 10 ^ (f + 1) = 10 * 10 ^ f := by rw [Nat.pow_succ, Nat.mul_comm]
        omega
      obtain ⟨pre, h1, h2, h3, h4, h5⟩ := ih (n / 10) (UInt8.ofNat (48 + n % 10) :: acc) hlt
      refine ⟨pre ++ [UInt8.ofNat (48 + n % 10)], ?_, ?_, by simp, ?_, ?_⟩
      · rw [h1]; simp
      · intro b hb
        rcases List.mem_append.mp hb with h | h
        · exact h2 b h
        · simp only [List.mem_singleton] at h; subst h; exact isDigit_digitByte _ hd
      · intro a
        rw [digitsVal_append, h4 a]
        simp only [Option.bind_some, digitsVal, isDigit_digitByte _ hd, if_true, toNat_digitByte _ hd,
          List.length_append, List.length_singleton]
        congr 1
        rw [Nat.pow_succ, ← Nat.mul_assoc]
        generalize a * 10 ^ pre.length = X
        omega
      · intro hn1 b hb
        have hq1 : 1 ≤ n / 10 := by omega
        cases pre with
        | nil =>
          have := h4 0
          simp [digitsVal] at this
          omega
        | cons c pre' =>
          simp only [List.cons_append, List.head?_cons, Option.some.injEq] at hb
          subst hb
          exact h5 hq1 c rfl

theorem itoaNat_spec (n : Nat) :
    itoaNat n ≠ [] ∧ (∀ b ∈ itoaNat n, isDigit b = true) ∧ digitsVal (itoaNat n) 0 = some n ∧
      (1 ≤ n → ∀ b, (itoaNat n).head? = some b → b ≠ 48) := by
  have hlt : n < 10 ^ (n + 1) := by
    have : n + 1 < 10 ^ (n + 1) := Nat.lt_pow_self (by omega)
    omega
  obtain ⟨pre, h1, h2, h3, h4, h5⟩ := natDigits_spec (n + 1) n [] hlt
  unfold itoaNat
  rw [h1, List.append_nil]
  refine ⟨h3 (by omega), h2, ?_, h5⟩
  have := h4 0
  simpa using this

theorem atoi_itoaNat (n : Nat) (h : (n : Int) ≤ maxInt64) : atoi (itoaNat n) = some (n : Int) := by
  obtain ⟨hne, hdig, hval, _⟩ := itoaNat_spec n
  cases hs : itoaNat n with
  | nil => exact absurd hs hne
  | cons b rest =>
    have hb : isDigit b = true := hdig b (by rw [hs]; simp)
    have h45 : (b == 45) = false := by
      apply beq_false_of_ne; intro e; subst e; revert hb; decide
    have h43 : (b == 43) = false := by
      apply beq_false_of_ne; intro e; subst e; revert hb; decide
    simp only [atoi, h45, h43, Bool.false_eq_true, if_false]
    rw [← hs, hval]
    simp only []
    have : ¬ ((n : Int) < minInt64 ∨ (n : Int) > maxInt64) := by
      unfold minInt64; omega
    simp [this]


theorem itoaNat_digit (e : Nat) (h : e ≤ 9) : itoaNat e = [UInt8.ofNat (48 + e)] := by
  have : e = 0 ∨ e = 1 ∨ e = 2 ∨ e = 3 ∨ e = 4 ∨ e = 5 ∨ e = 6 ∨ e = 7 ∨ e = 8 ∨ e = 9 := by omega
  rcases this with rfl | rfl | rfl | rfl | rfl | rfl | rfl | rfl | rfl | rfl <;> rfl

end Go
