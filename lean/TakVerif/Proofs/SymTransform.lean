import TakVerif.Proofs.SymBasic
import TakVerif.Proofs.SymRaw
import TakVerif.Impl.Symmetry

/-! The model of `TransformMove` (int8 arithmetic, direction re-derived from a unit step) is the
list-level action `Spec.Sym.move` on every move whose coordinates stay clear of the int8 limits. -/
namespace Tak
open Spec

/-- the group element a word of basic maps stands for -/
def Symm.prod : Symm → Sym
  | [] => 0
  | k :: ks => Sym.mul k (Symm.prod ks)

/-- coordinates that no sequence of the eight maps can push over the int8 limits -/
def SafeC (n : Nat) (v : Int) : Prop := -110 ≤ v ∧ v ≤ (n : Int) + 109

theorem wrap8_id {v : Int} (h1 : -128 ≤ v) (h2 : v ≤ 127) : wrap8 v = v := by
  unfold wrap8; omega

theorem symFlip_eq {n : Nat} (hn : n ≤ 8) {v : Int} (h : SafeC n v) :
    symFlip n v = (n : Int) - 1 - v ∧ SafeC n ((n : Int) - 1 - v) := by
  obtain ⟨h1, h2⟩ := h
  unfold symFlip
  rw [wrap8_id (v := (n : Int)) (by omega) (by omega), wrap8_id (v := (n : Int) - 1) (by omega) (by omega),
    wrap8_id (by omega) (by omega)]
  exact ⟨rfl, by unfold SafeC; omega⟩

theorem symBasic_eq {n : Nat} (hn : n ≤ 8) (k : Fin 8) {x y : Int} (hx : SafeC n x) (hy : SafeC n y) :
    symBasic n k x y = Sym.app k n x y ∧ SafeC n (Sym.app k n x y).1 ∧ SafeC n (Sym.app k n x y).2 := by
  obtain ⟨fx, sx⟩ := symFlip_eq hn hx
  obtain ⟨fy, sy⟩ := symFlip_eq hn hy
  induction k using Sym.cases8 <;> simp [symBasic, Sym.app, fx, fy, sx, sy, hx, hy]

theorem Symm.app_eq {n : Nat} (hn : n ≤ 8) (w : Symm) {x y : Int} (hx : SafeC n x) (hy : SafeC n y) :
    Symm.app n w x y = (Symm.prod w).app n x y ∧
      SafeC n ((Symm.prod w).app n x y).1 ∧ SafeC n ((Symm.prod w).app n x y).2 := by
  induction w with
  | nil => exact ⟨rfl, hx, hy⟩
  | cons k ks ih =>
    obtain ⟨e, s1, s2⟩ := ih
    obtain ⟨e', s1', s2'⟩ := symBasic_eq hn k s1 s2
    simp only [Symm.app, Symm.prod, e, Sym.mul_app]
    exact ⟨e', s1', s2'⟩

/-- **`TransformMove` computes `Sym.raw`** (and does not panic) for every word of the basic maps, on every
raw move whose coordinates lie in `[-100, 100]`. -/
theorem transformMove_raw {n : Nat} (hn : n ≤ 8) (w : Symm) (m : Move)
    (hx : -100 ≤ m.x ∧ m.x ≤ 100) (hy : -100 ≤ m.y ∧ m.y ≤ 100) :
    transformMove n w m = .ok (Sym.raw (Symm.prod w) n m) := by
  have sx : SafeC n m.x := by unfold SafeC; omega
  have sy : SafeC n m.y := by unfold SafeC; omega
  obtain ⟨e0, -, -⟩ := Symm.app_eq hn w sx sy
  unfold transformMove
  rw [e0]
  by_cases ht' : ¬ (m.type = 5 ∨ m.type = 6 ∨ m.type = 7 ∨ m.type = 8)
  · -- placements and non-moves keep their type
    have hns : (!m.isSlide || decide (m.type > Facts.mtSlideDown)) = true := by
      simp [Move.isSlide, Facts.mtSlideLeft, Facts.mtSlideDown]
      omega
    simp only [hns, if_true]
    have hnd : dirOf m.type = none := by
      have : m.type ≠ 5 ∧ m.type ≠ 6 ∧ m.type ≠ 7 ∧ m.type ≠ 8 := by omega
      simp [dirOf, Facts.mtSlideLeft, Facts.mtSlideRight, Facts.mtSlideUp, Facts.mtSlideDown, this.1, this.2.1,
        this.2.2.1, this.2.2.2]
    simp [Sym.raw, hnd]
  · have ht : m.type = 5 ∨ m.type = 6 ∨ m.type = 7 ∨ m.type = 8 := Classical.not_not.mp ht'
    have hns : (!m.isSlide || decide (m.type > Facts.mtSlideDown)) = false := by
      simp [Move.isSlide, Facts.mtSlideLeft, Facts.mtSlideDown]
      omega
    simp only [hns, Bool.false_eq_true, if_false]
    -- the direction of the move and its unit destination
    obtain ⟨d, hd, hdest⟩ : ∃ d : Dir, m.type = dirCode d ∧
        Move.dest { m with slides := 1#32 } = some (m.x + d.dx, m.y + d.dy) := by
      have hl : Slides.len 1#32 = 1 := by decide
      have w1 : wrap8 (m.x - 1) = m.x - 1 := wrap8_id (by omega) (by omega)
      have w2 : wrap8 (m.x + 1) = m.x + 1 := wrap8_id (by omega) (by omega)
      have w3 : wrap8 (m.y - 1) = m.y - 1 := wrap8_id (by omega) (by omega)
      have w4 : wrap8 (m.y + 1) = m.y + 1 := wrap8_id (by omega) (by omega)
      rcases ht with h | h | h | h
      · exact ⟨.left, h, by simp [Move.dest, h, hl, Facts.mtPlaceFlat, Facts.mtPlaceStanding, Facts.mtPlaceCapstone, Facts.mtSlideLeft, Dir.dx, Dir.dy, w1]; omega⟩
      · exact ⟨.right, h, by simp [Move.dest, h, hl, Facts.mtPlaceFlat, Facts.mtPlaceStanding, Facts.mtPlaceCapstone, Facts.mtSlideLeft, Facts.mtSlideRight, Dir.dx, Dir.dy, w2]⟩
      · exact ⟨.up, h, by simp [Move.dest, h, hl, Facts.mtPlaceFlat, Facts.mtPlaceStanding, Facts.mtPlaceCapstone, Facts.mtSlideLeft, Facts.mtSlideRight, Facts.mtSlideUp, Dir.dx, Dir.dy, w4]⟩
      · exact ⟨.down, h, by simp [Move.dest, h, hl, Facts.mtPlaceFlat, Facts.mtPlaceStanding, Facts.mtPlaceCapstone, Facts.mtSlideLeft, Facts.mtSlideRight, Facts.mtSlideUp, Facts.mtSlideDown, Dir.dx, Dir.dy, w3]; omega⟩
    rw [hdest]
    have sux : SafeC n (m.x + d.dx) := by cases d <;> simp [SafeC, Dir.dx] <;> omega
    have suy : SafeC n (m.y + d.dy) := by cases d <;> simp [SafeC, Dir.dy] <;> omega
    obtain ⟨e1, -, -⟩ := Symm.app_eq hn w sux suy
    simp only [e1, Sym.app_step]
    have hdo : dirOf m.type = some d := by rw [hd]; exact dirOf_dirCode d
    simp only [Sym.raw, hdo]
    generalize (Symm.prod w).app n m.x m.y = o
    generalize (Symm.prod w).dir d = d'
    cases d'
    · have a1 : o.1 + -1 < o.1 := by omega
      simp [Dir.dx, Dir.dy, a1, dirCode]
    · have a1 : ¬ (o.1 + 1 < o.1) := by omega
      have a3 : o.1 < o.1 + 1 := by omega
      simp [Dir.dx, Dir.dy, a1, a3, dirCode]
    · have a1 : o.2 < o.2 + 1 := by omega
      simp [Dir.dx, Dir.dy, a1, dirCode]
    · have a1 : ¬ (o.2 < o.2 + -1) := by omega
      have a2 : o.2 + -1 < o.2 := by omega
      simp [Dir.dx, Dir.dy, a1, a2, dirCode]

/-- **`TransformMove` is the list-level action** (and does not panic) for every word of the basic maps,
on every move whose coordinates lie in `[-100, 100]` (in particular every move with an on-board origin,
legal or not, with any type code and any drop word). -/
theorem transformMove_spec {n : Nat} (hn : n ≤ 8) (w : Symm) (m : Move)
    (hx : -100 ≤ m.x ∧ m.x ≤ 100) (hy : -100 ≤ m.y ∧ m.y ≤ 100) :
    ∃ m', transformMove n w m = .ok m' ∧
      Spec.decode m' = Sym.move (Symm.prod w) n (Spec.decode m) ∧
      (m'.x, m'.y) = (Symm.prod w).app n m.x m.y := by
  refine ⟨_, transformMove_raw hn w m hx hy, decode_raw _ _ _, ?_⟩
  unfold Sym.raw
  cases dirOf m.type <;> rfl

end Tak
