import TakVerif.Proofs.HeapAnalyze
import TakVerif.Proofs.HeapValue

/-! C09, layer 3: the separation invariant and its preservation by the storage primitives
(`alloc`, `copyPosition`/field stores on a non-live object, `analyze`). -/
namespace Tak

/-- Separation relative to an ownership map `owner : array index → owning object`.

* `wg`  — for EVERY object `i` (live position or dead-but-reusable buffer) the `WhiteGroups` header points
  into an array owned by `i` and lies within its bounds (`off+cap ≤ len(array)`, `len ≤ cap`).  This is the
  header `copyPosition` keeps (`g[:0]`) and `analyze` appends through, so it is what makes buffer reuse safe.
* `bg`  — for every LIVE object the `BlackGroups` header is nil (a position straight out of `New`) or points
  into an array owned by `i`, within bounds, and if it shares the array with `WhiteGroups` it starts at or
  after the end of `WhiteGroups`' used part.
* Because `owner` is a function, the arrays reachable from distinct objects are disjoint.
Owned arrays are the object's own `alloc.Groups` (assigned by `SepWith.allocFrom`) and arrays allocated by an
`append` during an `analyze` on that object (assigned by `SepWith.analyze`). -/
structure SepWith (owner : Nat → Option Nat) (h : Heap) (live : List Nat) : Prop where
  wg : ∀ i o, h.objs[i]? = some o → owner o.wg.arr = some i ∧ h.InBounds o.wg
  liveObj : ∀ i, i ∈ live → i < h.objs.size
  bg : ∀ i o, i ∈ live → h.objs[i]? = some o →
        o.bg = Slice.nil ∨
        (owner o.bg.arr = some i ∧ h.InBounds o.bg ∧ (o.bg.arr = o.wg.arr → o.wg.off + o.wg.len ≤ o.bg.off))

theorem SepWith.mono {owner h live live'} (S : SepWith owner h live) (hsub : ∀ i, i ∈ live' → i ∈ live) :
    SepWith owner h live' :=
  ⟨S.wg, fun i hi => S.liveObj i (hsub i hi), fun i o hi => S.bg i o (hsub i hi)⟩

theorem SepWith.empty (owner) : SepWith owner {} [] :=
  ⟨fun i o h => by simp at h, fun i hi => (by cases hi), fun i o hi => (by cases hi)⟩

/-- reading a slice that is nil, or owned by `j`, is unaffected by writes whose footprint avoids `j`'s arrays -/
theorem SepWith.observe_frame {owner h live} (S : SepWith owner h live) {h' : Heap} {a lo hi j : Nat}
    (hj : j ∈ live) (hobj : h'.objs[j]? = h.objs[j]?) (f : h.Frame h' a lo hi)
    (hd : ∀ t : Slice, owner t.arr = some j → t.arr ≠ a ∨ t.off + t.len ≤ lo ∨ hi ≤ t.off) :
    h'.observe j = h.observe j := by
  unfold Heap.observe
  rw [hobj]
  cases ho : h.objs[j]? with
  | none => rfl
  | some o =>
    simp only
    have hw := S.wg j o ho
    have e1 : h'.readSlice o.wg = h.readSlice o.wg := f.readSlice _ hw.2.arr (hd _ hw.1)
    have e2 : h'.readSlice o.bg = h.readSlice o.bg := by
      rcases S.bg j o hj ho with hnil | ⟨hown, hib, _⟩
      · rw [hnil]; rfl
      · exact f.readSlice _ hib.arr (hd _ hown)
    rw [e1, e2]

/-! ### stores into the struct of a non-live object (copyPosition's `*out = *p`, `next.X = …`) -/

theorem Heap.observe_setObj_ne (h : Heap) (t j : Nat) (o' : PObj) (hne : j ≠ t) :
    Heap.observe { h with objs := h.objs.setIfInBounds t o' } j = h.observe j := by
  simp only [Heap.observe, Array.getElem?_setIfInBounds, if_neg (Ne.symm hne)]
  rfl

theorem SepWith.setObj {owner h live} (S : SepWith owner h live) {t : Nat} {o o' : PObj}
    (ho : h.objs[t]? = some o) (ht : t ∉ live)
    (ha : o'.wg.arr = o.wg.arr) (hoff : o'.wg.off = o.wg.off) (hc : o'.wg.cap = o.wg.cap) (hl : o'.wg.len ≤ o'.wg.cap) :
    SepWith owner { h with objs := h.objs.setIfInBounds t o' } live := by
  refine ⟨fun i oi hi => ?_, fun i hi => by simpa using S.liveObj i hi, fun i oi hil hi => ?_⟩
  · simp only [Array.getElem?_setIfInBounds] at hi
    split at hi
    · rename_i hti; subst hti
      split at hi
      · cases hi
        have := S.wg t o ho
        refine ⟨by rw [ha]; exact this.1, ⟨by rw [ha]; exact this.2.arr, ?_, hl⟩⟩
        have hcap := this.2.cap
        simp only [Heap.asize] at hcap ⊢
        rw [ha, hoff, hc]; exact hcap
      · cases hi
    · have := S.wg i oi hi
      exact ⟨this.1, ⟨this.2.arr, this.2.cap, this.2.len⟩⟩
  · have hne : t ≠ i := fun e => ht (e ▸ hil)
    simp only [Array.getElem?_setIfInBounds, if_neg hne] at hi
    rcases S.bg i oi hil hi with hn | ⟨h1, h2, h3⟩
    · exact .inl hn
    · exact .inr ⟨h1, ⟨h2.arr, h2.cap, h2.len⟩, h3⟩

/-! ### `alloc` -/

theorem Heap.allocFrom_fst_objs (h : Heap) (v : Pos) (b : Slice) :
    (h.allocFrom v b).1.objs = h.objs.push ⟨v, ⟨h.arrs.size, 0, 0, 2 * v.cfg.size⟩, b, h.arrs.size⟩ := rfl
theorem Heap.allocFrom_snd (h : Heap) (v : Pos) (b : Slice) : (h.allocFrom v b).2 = h.objs.size := rfl

theorem Heap.allocFrom_frame (h : Heap) (v : Pos) (b : Slice) (a lo hi : Nat) :
    h.Frame (h.allocFrom v b).1 a lo hi :=
  (Heap.Frame.push h (Array.replicate (2 * v.cfg.size) 0#64) a lo hi).of_arrs_eq rfl

theorem SepWith.allocFrom {owner h live} (S : SepWith owner h live) (v : Pos) (b : Slice) :
    SepWith (fun a => if a = h.arrs.size then some h.objs.size else owner a) (h.allocFrom v b).1 live := by
  have f := h.allocFrom_frame v b 0 0 0
  refine ⟨fun i oi hi => ?_, fun i hi => ?_, fun i oi hil hi => ?_⟩
  · rw [Heap.allocFrom_fst_objs, Array.getElem?_push] at hi
    split at hi
    · rename_i his; cases hi
      refine ⟨by simp [his], ⟨by simp [Heap.allocFrom], ?_, Nat.zero_le _⟩⟩
      simp [Heap.allocFrom, Heap.asize]
    · have := S.wg i oi hi
      refine ⟨?_, f.inBounds this.2⟩
      have := this.2.arr
      simp only [if_neg (Nat.ne_of_lt this)]
      exact ‹owner oi.wg.arr = some i ∧ _›.1
  · have := S.liveObj i hi
    rw [Heap.allocFrom_fst_objs, Array.size_push]; omega
  · have hlt := S.liveObj i hil
    rw [Heap.allocFrom_fst_objs, Array.getElem?_push, if_neg (by omega)] at hi
    rcases S.bg i oi hil hi with hn | ⟨h1, h2, h3⟩
    · exact .inl hn
    · refine .inr ⟨?_, f.inBounds h2, h3⟩
      simp only [if_neg (Nat.ne_of_lt h2.arr)]
      exact h1

theorem SepWith.observe_allocFrom {owner h live} (S : SepWith owner h live) (v : Pos) (b : Slice) {j : Nat}
    (hj : j ∈ live) : (h.allocFrom v b).1.observe j = h.observe j := by
  refine S.observe_frame hj ?_ (h.allocFrom_frame v b 0 0 0) (fun t _ => by omega)
  rw [Heap.allocFrom_fst_objs, Array.getElem?_push, if_neg (Nat.ne_of_lt (S.liveObj j hj))]

/-! ### `analyze` on a non-live target -/

theorem Heap.lt_size_of_getElem? {h : Heap} {t : Nat} {o : PObj} (ho : h.objs[t]? = some o) : t < h.objs.size := by
  rcases Array.getElem?_eq_some_iff.mp ho with ⟨hlt, _⟩
  exact hlt

theorem SepWith.analyze {owner h live} (S : SepWith owner h live) {t : Nat} {o : PObj} {r : Pos}
    (ho : h.objs[t]? = some o) (ht : t ∉ live) (hr : o.val.analyze = some r) :
    ∃ h', h.analyze t = some h' ∧
      SepWith (fun a => if h.arrs.size ≤ a then some t else owner a) h' (t :: live) ∧
      h'.observe t = some r ∧ h'.objs.size = h.objs.size ∧
      ∀ j, j ∈ live → h'.observe j = h.observe j := by
  obtain ⟨wl, bl, hw, hb, rfl⟩ := Pos.analyze_eq_some hr
  have hwg := S.wg t o ho
  obtain ⟨h', wgS, bgS, han, P⟩ := h.analyze_spec t o wl bl ho hwg.2 hw hb
  have tlt := Heap.lt_size_of_getElem? ho
  have hot : h'.objs[t]? = some { o with wg := wgS, bg := bgS } := by
    rw [P.objs]; simp [tlt]
  have hoj : ∀ j, j ≠ t → h'.objs[j]? = h.objs[j]? := by
    intro j hj; rw [P.objs]; simp [Ne.symm hj]
  have ownW : (if h.arrs.size ≤ wgS.arr then some t else owner wgS.arr) = some t := by
    rcases P.placeW with ⟨ha, _, _⟩ | hf
    · have := hwg.2.arr
      rw [ha, if_neg (by omega)]; exact hwg.1
    · rw [if_pos hf]
  refine ⟨h', han, ⟨fun i oi hi => ?_, fun i hi => ?_, fun i oi hil hi => ?_⟩, ?_, ?_, fun j hj => ?_⟩
  · by_cases hit : i = t
    · subst hit
      rw [hot] at hi; cases hi
      exact ⟨ownW, P.inbW⟩
    · rw [hoj i hit] at hi
      have := S.wg i oi hi
      refine ⟨?_, P.frame.inBounds this.2⟩
      have hlt := this.2.arr
      simp only [if_neg (Nat.not_le_of_lt hlt)]
      exact this.1
  · have hsz : h'.objs.size = h.objs.size := by rw [P.objs]; simp
    rw [hsz]
    rcases List.mem_cons.mp hi with rfl | hi
    · exact tlt
    · exact S.liveObj i hi
  · by_cases hit : i = t
    · subst hit
      rw [hot] at hi; cases hi
      right
      rcases P.placeB with ⟨ha, hoff, _⟩ | ⟨hf, hne⟩
      · refine ⟨?_, P.inbB, fun _ => ?_⟩
        · simp only; rw [ha]; exact ownW
        · simp only; omega
      · refine ⟨?_, P.inbB, fun e => absurd e hne⟩
        simp only [if_pos hf]
    · rw [hoj i hit] at hi
      have hil' : i ∈ live := by
        rcases List.mem_cons.mp hil with e | e
        · exact absurd e hit
        · exact e
      rcases S.bg i oi hil' hi with hn | ⟨h1, h2, h3⟩
      · exact .inl hn
      · refine .inr ⟨?_, P.frame.inBounds h2, h3⟩
        simp only [if_neg (Nat.not_le_of_lt h2.arr)]
        exact h1
  · simp only [Heap.observe, hot, P.readW, P.readB]
  · rw [P.objs]; simp
  · have hjt : j ≠ t := fun e => ht (e ▸ hj)
    refine S.observe_frame hj (hoj j hjt) P.frame (fun s hs => .inl ?_)
    intro e
    rw [e, hwg.1] at hs
    exact hjt (Option.some.inj hs).symm

end Tak
