import TakVerif.Proofs.SearchBasic

/-! The search never changes the NUMBER of frames of `ai.stack` (`Eng.stackM.size`): every write is `setA` on one frame.
Needed by `Props/C05_gen4.lean` to discharge the hypothesis `hbody` of `next_iterate` for the search's own loop bodies. -/
namespace Search
open Tak (Err)

variable {P M : Type}

/-- the computation, if it returns, returns an engine state with `n` frames -/
def Fr {α : Type} (n : Nat) (x : Except Err (α × Eng M)) : Prop := Sat x (fun r => r.2.stackM.size = n)

def FrZw (n : Nat) (f : ZwFn P M) : Prop := ∀ p ply depth pv α cut s, s.stackM.size = n → Fr n (f p ply depth pv α cut s)
def FrPv (n : Nat) (f : PvFn P M) : Prop := ∀ p ply depth pv α β s, s.stackM.size = n → Fr n (f p ply depth pv α β s)
def FrBody {σ ρ : Type} (n : Nat) (body : M → P → σ → Eng M → Except Err (Ctl σ ρ × Eng M)) : Prop :=
  ∀ m c a s, s.stackM.size = n → Fr n (body m c a s)

theorem setA_size {α : Type} (a : Array α) (i : Nat) (x : α) (site : String) : Sat (setA a i x site) (fun a' => a'.size = a.size) := by
  intro a' h
  unfold setA at h
  split at h
  · cases h; simp
  · cases h

theorem Fr.ok {α : Type} {n : Nat} {a : α} {s : Eng M} (h : s.stackM.size = n) : Fr n (.ok (a, s) : Except Err (α × Eng M)) :=
  Sat.ok h

theorem Fr.pure {α : Type} {n : Nat} {a : α} {s : Eng M} (h : s.stackM.size = n) : Fr n (pure (a, s) : Except Err (α × Eng M)) :=
  Sat.ok h

theorem Fr.bind {α β : Type} {n : Nat} {x : Except Err (α × Eng M)} {f : α × Eng M → Except Err (β × Eng M)}
    (hx : Fr n x) (hf : ∀ r, r.2.stackM.size = n → Fr n (f r)) : Fr n (x >>= f) :=
  Sat.bind (fun r hr => hf r (hx r hr))

theorem Fr.bind' {α β : Type} {n : Nat} {x : Except Err α} {f : α → Except Err (β × Eng M)}
    (hf : ∀ a, x = .ok a → Fr n (f a)) : Fr n (x >>= f) :=
  Sat.bind (fun a ha => hf a ha)

section loop
variable {σ ρ : Type} {n : Nat} {g : Game P M} {p : P} {body : M → P → σ → Eng M → Except Err (Ctl σ ρ × Eng M)}

theorem Fr.andThen {r : Except Err (Ctl σ ρ × Eng M)} {k : σ → Eng M → Except Err (Ctl σ ρ × Eng M)}
    (hr : Fr n r) (hk : ∀ a s, s.stackM.size = n → Fr n (k a s)) : Fr n (Ctl.andThen r k) := by
  unfold Ctl.andThen
  rcases r with e | ⟨c, s⟩
  · exact Sat.error
  · have hs := hr _ rfl
    cases c with
    | next a => exact hk a s hs
    | brk a => exact Sat.ok hs
    | ret x => exact Sat.ok hs

theorem tryMove_fr (hb : FrBody n body) (m : M) (a : σ) (s : Eng M) (hs : s.stackM.size = n) : Fr n (tryMove g p body m a s) := by
  unfold tryMove
  split
  · exact hb _ _ _ _ hs
  · exact Sat.ok hs
  · exact Sat.error

theorem runList_fr (hb : FrBody n body) (skip : M → Bool) (ms : List M) :
    ∀ (a : σ) (s : Eng M), s.stackM.size = n → Fr n (runList g p body skip ms a s) := by
  induction ms with
  | nil => intro a s hs; exact Sat.ok hs
  | cons m ms ih =>
    intro a s hs
    rw [runList]
    split
    · exact ih a s hs
    · exact Fr.andThen (tryMove_fr hb m a s hs) ih

theorem iterate_fr [DecidableEq M] (hb : FrBody n body) (cfg : SOpts) (o : Oracle M) (mg : MG M) (a : σ) (s : Eng M)
    (hs : s.stackM.size = n) : Fr n (iterate g cfg o p mg body a s) := by
  unfold iterate
  refine Fr.andThen (Fr.andThen ?_ ?_) ?_
  · unfold stage0
    split
    · exact tryMove_fr hb _ a s hs
    · exact Sat.ok hs
  · intro a s hs
    unfold stage1
    split
    · split
      · exact Sat.ok hs
      · exact tryMove_fr hb _ a s hs
    · exact Sat.ok hs
  · intro a s hs
    unfold stage23
    split
    · exact Sat.error
    · refine Fr.andThen ?_ ?_
      · split
        · exact tryMove_fr hb _ a s hs
        · exact Sat.ok hs
      · intro a s hs
        unfold stage3
        dsimp only
        refine runList_fr hb _ _ a _ ?_
        split <;> exact hs

end loop
section nodes
variable {n : Nat}

theorem recordCut_stackM [DecidableEq M] (s : Eng M) (m : M) (mv ply : Nat) :
    Sat (recordCut s m mv ply) (fun s' => s'.stackM = s.stackM) := by
  intro s' h
  unfold recordCut at h
  dsimp only at h
  split at h
  · split at h
    · cases h
    · cases h; rfl
  · cases h; rfl

theorem evict_stackM (s : Eng M) (h : H) : (s.evict h).stackM = s.stackM := by
  unfold Eng.evict
  split
  · rfl
  · split <;> rfl

theorem ttPut_fr (o : Oracle M) (s : Eng M) (h : H) (hs : s.stackM.size = n) : Fr n (ttPut o s h) := by
  intro r hr
  unfold ttPut at hr
  split at hr
  · cases hr; exact hs
  · dsimp only at hr
    split at hr
    · cases hr; exact hs
    · cases hi : ttSlotIdx (load o s).2 h with
      | error e => rw [hi] at hr; cases hr
      | ok i => rw [hi] at hr; cases hr; rw [evict_stackM]; exact hs

theorem ttProbe_fr (g : Game P M) (p : P) (ply : Nat) (depth α β : Int) (s : Eng M) (hs : s.stackM.size = n) :
    Fr n (ttProbe g p ply depth α β s) := by
  unfold ttProbe
  refine Fr.bind' (fun te _ => ?_)
  split
  · exact Fr.pure hs
  · dsimp only
    split
    · split
      · refine Fr.bind' (fun pv0 _ => ?_)
        exact Fr.pure hs
      · exact Fr.pure hs
      · exact Sat.error
    · exact Fr.pure hs

theorem afterChild_fr {σ : Type} (o : Oracle M) (a : σ) (s : Eng M) (hs : s.stackM.size = n) :
    Fr n (pure (afterChild (M := M) o a s) : Except Err (Ctl σ (Res M) × Eng M)) := by
  unfold afterChild
  dsimp only [load]
  split <;> exact Sat.ok hs

end nodes

section bodies
variable {n : Nat}

theorem pvChild_fr {cpv : PvFn P M} {czw : ZwFn P M} (hp : FrPv n cpv) (hz : FrZw n czw) (i : Nat) (child : P) (ply : Nat)
    (depth : Int) (tail : List M) (α β : Int) (s : Eng M) (hs : s.stackM.size = n) :
    Fr n (pvChild cpv czw i child ply depth tail α β s) := by
  unfold pvChild
  split
  · refine Fr.bind (hz _ _ _ _ _ _ _ hs) (fun r hr => ?_)
    dsimp only
    split
    · exact hp _ _ _ _ _ _ _ hr
    · exact Fr.pure hr
  · exact hp _ _ _ _ _ _ _ hs

theorem pvBody_fr [DecidableEq M] (g : Game P M) (o : Oracle M) {cpv : PvFn P M} {czw : ZwFn P M} (hp : FrPv n cpv) (hz : FrZw n czw)
    (ply : Nat) (depth β : Int) (dedup : Bool) : FrBody n (pvBody g o cpv czw ply depth β dedup) := by
  intro m c a s hs
  unfold pvBody
  split
  · exact Fr.pure hs
  · generalize (if dedup = true then ({ a with seen := a.seen ++ g.symHashes c } : PvAcc M) else a) = a1
    dsimp only
    refine Fr.bind' (fun sm hsm => ?_)
    have hsz := setA_size _ _ _ _ sm hsm
    refine Fr.bind (pvChild_fr hp hz _ _ _ _ _ _ _ _ (by show sm.size = n; omega)) (fun r hr => ?_)
    split
    · refine Fr.bind' (fun pv0 _ => ?_)
      split
      · refine Fr.bind' (fun s2 hs2 => ?_)
        have := recordCut_stackM _ _ _ _ s2 hs2
        refine Fr.pure ?_
        rw [this]; exact hr
      · exact afterChild_fr o _ _ hr
    · exact afterChild_fr o _ _ hr

theorem pvInitBest_fr (ply : Nat) (pv : List M) (s : Eng M) (hs : s.stackM.size = n) : Fr n (pvInitBest ply pv s) := by
  unfold pvInitBest
  split
  · refine Fr.bind' (fun pv0 _ => Fr.pure hs)
  · refine Fr.bind' (fun x _ => Fr.pure hs)

theorem pvStore_fr (o : Oracle M) (hash : H) (depth β : Int) (a : PvAcc M) (s : Eng M) (hs : s.stackM.size = n) :
    Fr n (pvStore o hash depth β a s) := by
  unfold pvStore
  refine Fr.bind (ttPut_fr o s hash hs) (fun r hr => ?_)
  obtain ⟨slot?, s1⟩ := r
  dsimp only
  split
  · exact Fr.pure hr
  · split
    · split
      · refine Fr.pure ?_
        show (Eng.setEntry _ _ _).stackM.size = n
        unfold Eng.setEntry
        dsimp only
        split <;> exact hr
      · exact Fr.pure hr
    · exact Sat.error

theorem zwStore_fr (o : Oracle M) (hash : H) (depth α : Int) (a : ZwAcc M) (s : Eng M) (hs : s.stackM.size = n) :
    Fr n (zwStore o hash depth α a s) := by
  unfold zwStore
  dsimp only
  refine Fr.bind (ttPut_fr o s hash hs) (fun r hr => ?_)
  obtain ⟨slot?, s1⟩ := r
  dsimp only
  split
  · exact Fr.pure hr
  · split
    · refine Fr.pure ?_
      show (Eng.setEntry _ _ _).stackM.size = n
      unfold Eng.setEntry
      dsimp only
      split <;> exact hr
    · exact Sat.error

theorem nullMove_fr (g : Game P M) (cfg : SOpts) {czw : ZwFn P M} (hz : FrZw n czw) (p : P) (ply : Nat) (depth α : Int)
    (s : Eng M) (hs : s.stackM.size = n) : Fr n (nullMove g cfg czw p ply depth α s) := by
  unfold nullMove
  refine Fr.bind' (fun ok _ => ?_)
  split
  · exact Fr.pure hs
  · refine Fr.bind' (fun sm hsm => ?_)
    have hsz := setA_size _ _ _ _ sm hsm
    have hs' : sm.size = n := by omega
    dsimp only
    split
    · exact Fr.pure hs'
    · exact Sat.error
    · refine Fr.bind (hz _ _ _ _ _ _ _ hs') (fun r hr => ?_)
      split <;> exact Fr.pure hr

theorem slideReduction_fr (g : Game P M) (cfg : SOpts) (p : P) (ply : Nat) (depth : Int) (s : Eng M) (hs : s.stackM.size = n) :
    Fr n (slideReduction g cfg p ply depth s) := by
  unfold slideReduction
  split
  · refine Fr.bind' (fun prev _ => ?_)
    refine Fr.bind' (fun red _ => ?_)
    split <;> exact Fr.pure hs
  · exact Fr.pure hs

theorem mcBody_fr {czw : ZwFn P M} (hz : FrZw n czw) (ply : Nat) (depth α : Int) (cut : Bool) :
    FrBody n (mcBody czw ply depth α cut) := by
  intro m c a s hs
  unfold mcBody
  split
  · exact Fr.pure hs
  · dsimp only
    refine Fr.bind' (fun sm hsm => ?_)
    have hsz := setA_size _ _ _ _ sm hsm
    refine Fr.bind (hz _ _ _ _ _ _ _ (by show sm.size = n; omega)) (fun r hr => ?_)
    split
    · split <;> exact Fr.pure hr
    · exact Fr.pure hr

theorem multiCut_fr [DecidableEq M] (g : Game P M) (cfg : SOpts) (o : Oracle M) {czw : ZwFn P M} (hz : FrZw n czw) (p : P) (mg : MG M)
    (α : Int) (cut : Bool) (s : Eng M) (hs : s.stackM.size = n) : Fr n (multiCut g cfg o czw p mg α cut s) := by
  unfold multiCut
  split
  · dsimp only
    refine Fr.bind (iterate_fr (mcBody_fr hz _ _ _ _) cfg o mg _ _ hs) (fun r hr => ?_)
    obtain ⟨c, s1⟩ := r
    dsimp only
    split <;> exact Fr.pure hr
  · exact Fr.pure hs

theorem zwBody_fr [DecidableEq M] (o : Oracle M) {czw : ZwFn P M} (hz : FrZw n czw) (ply : Nat) (depth α : Int) (cut : Bool) :
    FrBody n (zwBody o czw ply depth α cut) := by
  intro m c a s hs
  unfold zwBody
  dsimp only
  refine Fr.bind' (fun sm hsm => ?_)
  have hsz := setA_size _ _ _ _ sm hsm
  refine Fr.bind (hz _ _ _ _ _ _ _ (by show sm.size = n; omega)) (fun r hr => ?_)
  split
  · refine Fr.bind' (fun s2 hs2 => ?_)
    have := recordCut_stackM _ _ _ _ s2 hs2
    refine Fr.bind' (fun pv0 _ => ?_)
    refine Fr.pure ?_
    show s2.stackM.size = n
    rw [this]; exact hr
  · exact afterChild_fr o _ _ hr

end bodies

section search
variable {n : Nat}

theorem pvNode_fr [DecidableEq M] (g : Game P M) (cfg : SOpts) (o : Oracle M) (frame : Bool) {cpv : PvFn P M} {czw : ZwFn P M}
    (hp : FrPv n cpv) (hz : FrZw n czw) : FrPv n (pvNode g cfg o frame cpv czw) := by
  intro p ply depth pv α β s hs
  unfold pvNode
  dsimp only
  split
  · exact Fr.pure hs
  · split
    · exact Sat.error
    · refine Fr.bind (ttProbe_fr g p ply depth α β _ hs) (fun r hr => ?_)
      obtain ⟨probe, s1⟩ := r
      dsimp only
      split
      · exact Fr.pure hr
      · refine Fr.bind (pvInitBest_fr ply pv s1 hr) (fun r2 hr2 => ?_)
        obtain ⟨best, s2⟩ := r2
        dsimp only
        refine Fr.bind (iterate_fr (pvBody_fr g o hp hz _ _ _ _) cfg o _ _ _ hr2) (fun r3 hr3 => ?_)
        obtain ⟨c, s3⟩ := r3
        dsimp only
        split
        · exact Fr.pure hr3
        · exact pvStore_fr o _ _ _ _ _ hr3
        · exact pvStore_fr o _ _ _ _ _ hr3

theorem zwNode_fr [DecidableEq M] (g : Game P M) (cfg : SOpts) (o : Oracle M) (frame : Bool) {czw : ZwFn P M}
    (hz : FrZw n czw) : FrZw n (zwNode g cfg o frame czw) := by
  intro p ply depth pv α cut s hs
  unfold zwNode
  dsimp only
  split
  · exact Fr.pure hs
  · split
    · exact Sat.error
    · refine Fr.bind (ttProbe_fr g p ply depth α (α + 1) _ hs) (fun r hr => ?_)
      obtain ⟨probe, s1⟩ := r
      dsimp only
      split
      · exact Fr.pure hr
      · refine Fr.bind (nullMove_fr g cfg hz p ply depth α s1 hr) (fun r2 hr2 => ?_)
        obtain ⟨nm, s2⟩ := r2
        dsimp only
        split
        · exact Fr.pure hr2
        · refine Fr.bind (slideReduction_fr g cfg p ply depth s2 hr2) (fun r3 hr3 => ?_)
          obtain ⟨depth', s3⟩ := r3
          dsimp only
          refine Fr.bind (multiCut_fr g cfg o hz p _ α cut s3 hr3) (fun r4 hr4 => ?_)
          obtain ⟨mc, s4⟩ := r4
          dsimp only
          split
          · exact Fr.pure hr4
          · refine Fr.bind' (fun x _ => ?_)
            refine Fr.bind (iterate_fr (zwBody_fr o hz _ _ _ _) cfg o _ _ _ hr4) (fun r5 hr5 => ?_)
            obtain ⟨c, s5⟩ := r5
            dsimp only
            split
            · exact Fr.pure hr5
            · exact zwStore_fr o _ _ _ _ _ hr5
            · exact zwStore_fr o _ _ _ _ _ hr5

/-- **the search keeps the number of frames** -/
theorem search_fr [DecidableEq M] (g : Game P M) (cfg : SOpts) (o : Oracle M) (n : Nat) :
    ∀ k, FrPv n (search g cfg o k).1 ∧ FrZw n (search g cfg o k).2 := by
  intro k
  induction k with
  | zero =>
    have hz : FrZw n (fun _ _ _ _ _ _ _ => .error (.panic "ai.stack[ply]: index out of range") : ZwFn P M) :=
      fun _ _ _ _ _ _ _ _ => Sat.error
    have hp : FrPv n (fun _ _ _ _ _ _ _ => .error (.panic "ai.stack[ply]: index out of range") : PvFn P M) :=
      fun _ _ _ _ _ _ _ _ => Sat.error
    exact ⟨pvNode_fr g cfg o false hp hz, zwNode_fr g cfg o false hz⟩
  | succ k ih => exact ⟨pvNode_fr g cfg o true ih.1 ih.2, zwNode_fr g cfg o true ih.2⟩

theorem pvSearch_fr [DecidableEq M] (g : Game P M) (cfg : SOpts) (o : Oracle M) (ply : Nat) (p : P) (depth : Int) (pv : List M)
    (α β : Int) (s : Eng M) (hs : s.stackM.size = n) : Fr n (pvSearch g cfg o ply p depth pv α β s) :=
  (search_fr g cfg o n _).1 _ _ _ _ _ _ _ hs

theorem aaBody_fr [DecidableEq M] (g : Game P M) (cfg : SOpts) (o : Oracle M) (depth : Int) (pv0 : M) (rest : List M) (v : Int) :
    FrBody n (aaBody g cfg o depth pv0 rest v) := by
  intro m c a s hs
  unfold aaBody
  refine Fr.bind' (fun sm hsm => ?_)
  have hsz := setA_size _ _ _ _ sm hsm
  refine Fr.bind (pvSearch_fr g cfg o 1 _ _ _ _ _ _ (by show sm.size = n; omega)) (fun r hr => ?_)
  split
  · exact Fr.pure hr
  · split <;> exact Fr.pure hr

theorem gmBody_fr [DecidableEq M] (g : Game P M) (cfg : Cfg) (o : Oracle M) (depth : Int) (rest : List M) (v base : Int) :
    FrBody n (gmBody g cfg o depth rest v base) := by
  intro m c a s hs
  unfold gmBody
  refine Fr.bind' (fun sm hsm => ?_)
  have hsz := setA_size _ _ _ _ sm hsm
  refine Fr.bind (pvSearch_fr g cfg.opts o 1 _ _ _ _ _ _ (by show sm.size = n; omega)) (fun r hr => ?_)
  dsimp only
  split
  · exact Fr.pure hr
  · split
    · exact Fr.pure hr
    · split
      · exact Sat.error
      · exact Fr.pure hr

end search

end Search
