import TakVerif.Spec.ForcedWin
import TakVerif.Impl.PN

/-! The Tak model is an alternating game: every accepted move hands the turn to the other player
(`takGame_alternating`), because `Position.Move` adds one to the ply counter and nothing else touches it.
(Replaces the out-of-date `Proofs/C06Tak.lean`, written against an earlier shape of `Impl/Move.lean`.) -/
namespace Tak
open Tak.PN Spec.Game

theorem analyze_move' (p q : Pos) (h : p.analyze = some q) : q.move = p.move := by
  unfold Pos.analyze at h
  simp only at h
  split at h
  · injection h with h; subst h; rfl
  · exact absurd h (by simp)

theorem finish_move' (n q : Pos) (h : finish n = .ok q) : q.move = n.move := by
  unfold finish at h
  split at h
  · rename_i q' ha
    injection h with h; subst h
    exact analyze_move' n _ ha
  · exact absurd h (by simp)

theorem setStack_move (basis : Array W) (p : Pos) (i : Nat) (s : W) (h : U8) : (p.setStack basis i s h).move = p.move := rfl

theorem enterSquare_move (next n' : Pos) (top : Piece) (ct i : Nat) (h : enterSquare next top ct i = .ok n') :
    n'.move = next.move := by
  unfold enterSquare at h
  split at h
  · cases h
  · split at h
    · split at h
      · cases h
      · cases h; rfl
    · cases h; rfl

theorem dropOn_move (basis : Array W) (next : Pos) (top : Piece) (stack : W) (ct c i : Nat) :
    (dropOn basis next top stack ct c i).move = next.move := by
  unfold dropOn
  simp only []
  repeat' split
  all_goals rfl

theorem slideStep_move' (basis : Array W) (p : Pos) (top : Piece) (stack : W) (dx dy : Int) (st st' : SlideSt) (c : Nat)
    (h : slideStep basis p top stack dx dy st c = .ok st') : st'.next.move = st.next.move := by
  unfold slideStep at h
  simp only at h
  split at h
  · cases h
  · split at h
    · cases h
    · split at h
      · cases h
      · rename_i next hb
        cases h
        simp only [dropOn_move]
        exact enterSquare_move _ _ _ _ _ hb

theorem slideLoop_move' (basis : Array W) (p : Pos) (top : Piece) (stack : W) (dx dy : Int) :
    ∀ (cs : List Nat) (st st' : SlideSt), slideLoop basis p top stack dx dy cs st = .ok st' →
      st'.next.move = st.next.move := by
  intro cs
  induction cs with
  | nil => intro st st' h; simp only [slideLoop] at h; cases h; rfl
  | cons c cs ih =>
    intro st st' h
    simp only [slideLoop] at h
    split at h
    · cases h
    · rename_i st1 h1
      rw [ih st1 st' h, slideStep_move' basis p top stack dx dy st st1 c h1]

theorem ite_err_ok {α : Type} {c : Prop} [Decidable c] {e : Err} {x : R α} {q : α}
    (h : (if c then (.error e : R α) else x) = .ok q) : x = .ok q := by
  split at h
  · cases h
  · exact h

theorem placeOn_move (p next q : Pos) (i : Nat) (pc : Piece) (h : placeOn p next i pc = .ok q) : q.move = next.move := by
  unfold placeOn at h
  have h1 := ite_err_ok h
  dsimp only at h1
  have h2 := ite_err_ok h1
  rw [finish_move' _ q h2]
  dsimp only
  repeat' split
  all_goals rfl

theorem liftFrom_move (basis : Array W) (next : Pos) (stack : W) (h ct i : Nat) :
    (liftFrom basis next stack h ct i).move = next.move := by
  unfold liftFrom
  simp only [setStack_move]
  (repeat' split) <;> rfl

theorem slideFrom_move (basis : Array W) (p next q : Pos) (m : Move) (i : Nat) (dx dy : Int)
    (h : slideFrom basis p next m i dx dy = .ok q) : q.move = next.move := by
  unfold slideFrom at h
  simp only at h
  split at h
  · cases h
  · split at h
    · cases h
    · split at h
      · cases h
      · split at h
        · cases h
        · split at h
          · cases h
          · split at h
            · cases h
            · rename_i st hl
              rw [finish_move' _ q h, slideLoop_move' _ _ _ _ _ _ _ _ st hl]
              exact liftFrom_move _ _ _ _ _ _

/-- `Position.Move` adds one to the ply counter -/
theorem apply_move' (basis : Array W) (p q : Pos) (m : Move) (h : p.apply basis m = .ok q) :
    q.move = p.move + 1 := by
  unfold Pos.apply at h
  dsimp only at h
  split at h
  · exact finish_move' _ q h
  · split at h
    · cases h
    · split at h
      · cases h
      · split at h
        · cases h
        · split at h
          · exact placeOn_move _ _ _ _ _ h
          · exact slideFrom_move _ _ _ _ _ _ _ _ h

theorem takGame_alternating' (basis : Array W) : Alternating (takGame basis) where
  binary := fun p => by
    simp only [takGame, Pos.toMove]
    split <;> simp
  flips := fun p m q h => by
    simp only [takGame] at h
    split at h
    · rename_i q' ha
      injection h with h; subst h
      have := apply_move' basis p _ m ha
      simp only [takGame, Pos.toMove, this]
      have e : (p.move + 1) % 2 = if p.move % 2 = 0 then 1 else 0 := by split <;> omega
      by_cases hp : p.move % 2 = 0
      · simp [hp, e, Color.flip]
      · have hp1 : p.move % 2 = 1 := by omega
        simp [hp1, e, Color.flip]
    · exact absurd h (by simp)

end Tak
