import TakVerif.Proofs.SymOutcome
import TakVerif.Proofs.SymTransform

/-! The board that the triple loop of `Symmetries` fills for the `k`-th image: square `j` of the image board
holds what `At` returns for the square that `k` maps to `j`. -/
namespace Tak
open Spec

theorem foldl_set_length {α β : Type} (f : β → Nat) (g : β → α) : ∀ (l : List β) (b : List α),
    (l.foldl (fun b x => b.set (f x) (g x)) b).length = b.length := by
  intro l
  induction l with
  | nil => intro b; rfl
  | cons x rest ih => intro b; simp only [List.foldl_cons]; rw [ih]; simp

/-- writing each of several distinct cells once -/
theorem foldl_set_getD {α β : Type} (f : β → Nat) (g : β → α) (d : α) : ∀ (l : List β) (b : List α) (j : Nat),
    (l.map f).Nodup → (∀ x ∈ l, f x < b.length) →
    (l.foldl (fun b x => b.set (f x) (g x)) b).getD j d =
      match l.find? (fun x => f x == j) with
      | some x => g x
      | none => b.getD j d := by
  intro l
  induction l with
  | nil => intro b j _ _; rfl
  | cons x rest ih =>
    intro b j hnd hlt
    simp only [List.map_cons, List.nodup_cons] at hnd
    simp only [List.foldl_cons]
    rw [ih (b.set (f x) (g x)) j hnd.2 (fun y hy => by simp; exact hlt y (by simp [hy]))]
    by_cases hx : f x = j
    · have hnone : rest.find? (fun y => f y == j) = none := by
        rw [List.find?_eq_none]
        intro y hy hfy
        apply hnd.1
        rw [hx, ← beq_iff_eq.1 hfy]
        exact List.mem_map.2 ⟨y, hy, rfl⟩
      have hlx := hlt x (by simp)
      simp [hnone, List.find?_cons, hx, List.getD_eq_getElem?_getD, hx ▸ hlx]
    · have hb : (f x == j) = false := by simp [hx]
      simp only [List.find?_cons, hb]
      cases rest.find? (fun y => f y == j) with
      | some y => rfl
      | none => simp [List.getD_eq_getElem?_getD, List.getElem?_set_ne hx]

theorem nodup_flatMap_of {α β : Type} (g : α → List β) : ∀ (l : List α), (∀ a ∈ l, (g a).Nodup) →
    l.Pairwise (fun a b => ∀ x ∈ g a, x ∉ g b) → (l.flatMap g).Nodup := by
  intro l
  induction l with
  | nil => intro _ _; simp
  | cons a rest ih =>
    intro h1 h2
    rw [List.flatMap_cons, List.nodup_append]
    rw [List.pairwise_cons] at h2
    refine ⟨h1 a (by simp), ih (fun b hb => h1 b (by simp [hb])) h2.2, ?_⟩
    intro x hx y hy e
    subst e
    obtain ⟨b, hb, hxb⟩ := List.mem_flatMap.1 hy
    exact h2.1 b hb x hx hxb

/-- `At` succeeds on every square: an occupied square has a non-zero height -/
def AtOK (p : Pos) : Prop := ∀ i, p.atR i = .ok (p.squareAt i)

/-- the body of the inner loop of `imageBoard` -/
def imgStep (p : Pos) (k : Fin 8) (x : Nat) (b : List (List Nat)) (y : Nat) : R (List (List Nat)) := do
  let (rx, ry) := symBasic p.cfg.size k (x : Int) (y : Int)
  if rx < 0 ∨ rx ≥ (p.cfg.size : Int) ∨ ry < 0 ∨ ry ≥ (p.cfg.size : Int) then
    (.error (.panic "Symmetries: boards index") : R PUnit)
  let sq ← p.atR (x + y * p.cfg.size)
  pure (b.set (rx.toNat + ry.toNat * p.cfg.size) (sq.map Piece.code))

theorem imageBoard_unfold (p : Pos) (k : Fin 8) :
    imageBoard p k = (List.range p.cfg.size).foldlM (fun (b : List (List Nat)) (x : Nat) =>
      (List.range p.cfg.size).foldlM (imgStep p k x) b) (List.replicate (p.cfg.size * p.cfg.size) []) := rfl

theorem imageBoard_step {p : Pos} (hat : AtOK p) (hn : p.cfg.size ≤ 8) (k : Fin 8) {x y : Nat}
    (hx : x < p.cfg.size) (hy : y < p.cfg.size) (b : List (List Nat)) :
    imgStep p k x b y =
    .ok (b.set (Sym.idxMap k p.cfg.size (x + y * p.cfg.size)) ((p.squareAt (x + y * p.cfg.size)).map Piece.code)) := by
  unfold imgStep
  have sx : SafeC p.cfg.size (x : Int) := by unfold SafeC; omega
  have sy : SafeC p.cfg.size (y : Int) := by unfold SafeC; omega
  obtain ⟨e, -, -⟩ := symBasic_eq hn k sx sy
  have hob : onB p.cfg.size (x : Int) (y : Int) := ⟨by omega, by omega, by omega, by omega⟩
  have hob' := (Sym.onB_app k p.cfg.size x y).2 hob
  rw [e]
  obtain ⟨o1, o2, o3, o4⟩ := hob'
  have hguard : ¬ ((Sym.app k p.cfg.size x y).1 < 0 ∨ (Sym.app k p.cfg.size x y).1 ≥ (p.cfg.size : Int) ∨
      (Sym.app k p.cfg.size x y).2 < 0 ∨ (Sym.app k p.cfg.size x y).2 ≥ (p.cfg.size : Int)) := by omega
  simp only [hguard, if_false, hat (x + y * p.cfg.size), bind, Except.bind, pure, Except.pure]
  have hidx : (Sym.app k p.cfg.size x y).1.toNat + (Sym.app k p.cfg.size x y).2.toNat * p.cfg.size =
      Sym.idxMap k p.cfg.size (x + y * p.cfg.size) := by
    unfold Sym.idxMap
    rw [cell_mod hx, cell_div hx]
    obtain ⟨a, ha⟩ := Int.eq_ofNat_of_zero_le o1
    obtain ⟨c, hc⟩ := Int.eq_ofNat_of_zero_le o3
    rw [ha, hc]
    simp only [Int.toNat_natCast]
    rw [← Int.natCast_mul, ← Int.natCast_add, Int.toNat_natCast]
  rw [hidx]

/-- **the image board**: cell `j` holds the piece codes of the square that `k` maps to `j` -/
theorem imageBoard_eq {p : Pos} (hat : AtOK p) (hn : p.cfg.size ≤ 8) (k : Fin 8) :
    imageBoard p k = .ok ((List.range (p.cfg.size * p.cfg.size)).map (fun j =>
      (p.squareAt (Sym.idxMap (Sym.inv k) p.cfg.size j)).map Piece.code)) := by
  -- the loops as one pure fold over the cells
  have inner : ∀ (x : Nat), x < p.cfg.size → ∀ (ys : List Nat) (b : List (List Nat)), (∀ y ∈ ys, y < p.cfg.size) →
      ys.foldlM (imgStep p k x) b =
      .ok (ys.foldl (fun b y => b.set (Sym.idxMap k p.cfg.size (x + y * p.cfg.size))
        ((p.squareAt (x + y * p.cfg.size)).map Piece.code)) b) := by
    intro x hx ys
    induction ys with
    | nil => intro b _; rfl
    | cons y rest ih =>
      intro b hys
      rw [List.foldlM_cons, imageBoard_step hat hn k hx (hys y (by simp)) b]
      exact ih _ (fun z hz => hys z (by simp [hz]))
  have outer : ∀ (xs : List Nat) (b : List (List Nat)), (∀ x ∈ xs, x < p.cfg.size) →
      xs.foldlM (fun (b : List (List Nat)) (x : Nat) => (List.range p.cfg.size).foldlM (imgStep p k x) b) b =
      .ok ((xs.flatMap (fun x => (List.range p.cfg.size).map (fun y => (x, y)))).foldl
        (fun b (xy : Nat × Nat) => b.set (Sym.idxMap k p.cfg.size (xy.1 + xy.2 * p.cfg.size))
          ((p.squareAt (xy.1 + xy.2 * p.cfg.size)).map Piece.code)) b) := by
    intro xs
    induction xs with
    | nil => intro b _; rfl
    | cons x rest ih =>
      intro b hxs
      rw [List.foldlM_cons, inner x (hxs x (by simp)) _ b (fun y hy => List.mem_range.1 hy)]
      have := ih ((List.range p.cfg.size).foldl (fun b y => b.set (Sym.idxMap k p.cfg.size (x + y * p.cfg.size))
        ((p.squareAt (x + y * p.cfg.size)).map Piece.code)) b) (fun z hz => hxs z (by simp [hz]))
      rw [List.flatMap_cons, List.foldl_append, List.foldl_map]
      exact this
  rw [imageBoard_unfold, outer (List.range p.cfg.size) _ (fun x hx => List.mem_range.1 hx)]
  congr 1
  -- read the result cell by cell
  let cells := (List.range p.cfg.size).flatMap (fun x => (List.range p.cfg.size).map (fun y => (x, y)))
  let f := fun (xy : Nat × Nat) => Sym.idxMap k p.cfg.size (xy.1 + xy.2 * p.cfg.size)
  let g := fun (xy : Nat × Nat) => (p.squareAt (xy.1 + xy.2 * p.cfg.size)).map Piece.code
  have hmem : ∀ xy ∈ cells, xy.1 < p.cfg.size ∧ xy.2 < p.cfg.size := by
    intro xy h
    simp only [cells, List.mem_flatMap, List.mem_map, List.mem_range] at h
    obtain ⟨x, hx, y, hy, rfl⟩ := h
    exact ⟨hx, hy⟩
  have hfinj : ∀ a ∈ cells, ∀ c ∈ cells, f a = f c → a = c := by
    intro a ha c hc he
    obtain ⟨a1, a2⟩ := hmem a ha
    obtain ⟨c1, c2⟩ := hmem c hc
    have := congrArg (Sym.idxMap (Sym.inv k) p.cfg.size) he
    simp only [f] at this
    rw [Sym.idxMap_inv k (cell_lt a1 a2), Sym.idxMap_inv k (cell_lt c1 c2)] at this
    obtain ⟨e1, e2⟩ := cell_inj a1 c1 this
    exact Prod.ext e1 e2
  have hcells_nd : cells.Nodup := by
    apply nodup_flatMap_of
    · intro x _
      rw [List.Nodup, List.pairwise_map]
      exact List.Pairwise.imp (fun hne e => hne (by simpa using congrArg Prod.snd e)) (List.nodup_range (n := p.cfg.size))
    · refine List.Pairwise.imp_of_mem ?_ (List.nodup_range (n := p.cfg.size))
      intro a b _ _ hne
      intro xy h1 h2
      simp only [List.mem_map] at h1 h2
      obtain ⟨_, _, rfl⟩ := h1
      obtain ⟨_, _, e⟩ := h2
      exact hne (by simpa using (congrArg Prod.fst e).symm)
  have hnd : (cells.map f).Nodup := by
    rw [List.Nodup, List.pairwise_map]
    refine List.Pairwise.imp_of_mem ?_ hcells_nd
    intro a c ha hc hne he
    exact hne (hfinj a ha c hc he)
  apply List.ext_getElem
  · rw [foldl_set_length]; simp
  · intro j h1 h2
    have hj : j < p.cfg.size * p.cfg.size := by simpa using h2
    have hlen : ∀ xy ∈ cells, f xy < (List.replicate (p.cfg.size * p.cfg.size) ([] : List Nat)).length := by
      intro xy hxy
      obtain ⟨a1, a2⟩ := hmem xy hxy
      simp only [List.length_replicate, f]
      exact (Sym.idxMap_coords k (cell_lt a1 a2)).1
    have key := foldl_set_getD f g [] cells (List.replicate (p.cfg.size * p.cfg.size) []) j hnd hlen
    -- the cell that is mapped to j
    have hi := Sym.idxMap_coords (Sym.inv k) hj
    have hn0 : 0 < p.cfg.size := by
      rcases Nat.eq_zero_or_pos p.cfg.size with h | h
      · rw [h] at hj; simp at hj
      · exact h
    let i := Sym.idxMap (Sym.inv k) p.cfg.size j
    have hxy : (i % p.cfg.size, i / p.cfg.size) ∈ cells := by
      simp only [cells, List.mem_flatMap, List.mem_map, List.mem_range]
      exact ⟨i % p.cfg.size, Nat.mod_lt _ hn0, i / p.cfg.size,
        by rw [Nat.div_lt_iff_lt_mul hn0]; exact hi.1, rfl⟩
    have hi_eq : i % p.cfg.size + i / p.cfg.size * p.cfg.size = i := by
      have := Nat.mod_add_div i p.cfg.size; rw [Nat.mul_comm] at this; exact this
    have hfi : f (i % p.cfg.size, i / p.cfg.size) = j := by
      simp only [f]
      rw [hi_eq]
      have := Sym.idxMap_inv (Sym.inv k) hj
      rw [Sym.inv_inv] at this
      exact this
    have hfind : ∃ xy, cells.find? (fun x => f x == j) = some xy ∧ f xy = j := by
      cases hf : cells.find? (fun x => f x == j) with
      | none =>
        have := List.find?_eq_none.1 hf _ hxy
        simp [hfi] at this
      | some xy => exact ⟨xy, rfl, beq_iff_eq.1 (List.find?_some (p := fun x => f x == j) hf)⟩
    obtain ⟨xy, hf, hfxy⟩ := hfind
    rw [hf] at key
    have hxy' : xy = (i % p.cfg.size, i / p.cfg.size) :=
      hfinj xy (List.mem_of_find?_eq_some hf) _ hxy (by rw [hfxy, hfi])
    simp only [List.getD_eq_getElem?_getD] at key
    have hgoal : ∀ (X : List (List Nat)) (hX : j < X.length), X[j] = X[j]?.getD [] := by
      intro X hX; simp [hX]
    rw [hgoal _ h1]
    refine key.trans ?_
    rw [hxy']
    simp only [g, List.getElem_map, List.getElem_range, hi_eq]
    rfl

end Tak
