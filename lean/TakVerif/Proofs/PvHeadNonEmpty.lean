import TakVerif.Proofs.PvHeadAnalyze
import TakVerif.Proofs.SearchPvs

/-! An `Analyze` that is never cancelled reports a move: with `NoCancel o`, `1 ≤ Cfg.Depth` and a position that is
not over, the returned PV is not empty — every configuration, any engine state.  (The root `pvSearch` returns `nil`
only at depth ≤ 0, on a finished position, or when the cancel flag is seen after a child.) -/
namespace Search
open Tak (Err)

variable {P M : Type} {g : Game P M} {o : Oracle M}

theorem pvBodyCore_noRet [DecidableEq M] (hnc : NoCancel o) (cpv : PvFn P M) (czw : ZwFn P M) (ply : Nat)
    (depth β : Int) (m : M) (c : P) (a : PvAcc M) (s : Eng M) :
    Sat (pvBodyCore o cpv czw ply depth β m c a s)
      (LoopOut (fun (_ : PvAcc M) _ => True) (fun _ _ => True) (fun (_ : Res M) _ => False)) := by
  unfold pvBodyCore
  apply Sat.bind; intro sm _
  apply Sat.bind; intro r _
  dsimp only
  split
  · apply Sat.bind; intro pv0 _
    split
    · apply Sat.bind; intro s2 _
      exact Sat.pure trivial
    · refine Sat.pure ?_
      rw [afterChild_nc hnc]; exact trivial
  · refine Sat.pure ?_
    rw [afterChild_nc hnc]; exact trivial

/-- the body of `pvSearch`'s child loop never `return`s when the flag is never set -/
theorem pvBody_noRet [DecidableEq M] (hnc : NoCancel o) (cpv : PvFn P M) (czw : ZwFn P M) (p : P) (ply : Nat)
    (depth β : Int) (dedup : Bool) :
    BodyQ g p (pvBody g o cpv czw ply depth β dedup) (fun _ => True) (fun (_ : PvAcc M) _ => True) (fun _ _ => True)
      (fun (_ : Res M) _ => False) := by
  intro m c a s _ _ _
  rw [pvBody_eq]
  split
  · exact Sat.pure trivial
  · exact pvBodyCore_noRet hnc cpv czw ply depth β m c _ s

/-- an uncancelled `pvSearch` of positive depth on an unfinished position returns a PV (not `nil`) -/
theorem pvNode_some [DecidableEq M] (hnc : NoCancel o) (cfg : SOpts) (cpv : PvFn P M) (czw : ZwFn P M)
    (p : P) (ply : Nat) (depth : Int) (pv : List M) (α β : Int) (s : Eng M) (hd : 0 < depth) (hov : g.over p = false) :
    Sat (pvNode g cfg o true cpv czw p ply depth pv α β s) (fun r => ∃ l, r.1.1 = some l) := by
  unfold pvNode
  dsimp only
  have hleaf : (decide (depth ≤ 0) || g.over p) = false := by
    rw [hov]; simp; omega
  rw [hleaf]
  simp only [Bool.false_eq_true, if_false, Bool.not_true]
  apply Sat.bind
  refine (ttProbe_q (Q := fun _ => True) (D := fun _ => False) p ply depth α β (engOK_trivial g _)).mono ?_
  rintro ⟨probe, s1⟩ ⟨_, hprobe⟩
  dsimp only at hprobe ⊢
  cases probe with
  | inl r =>
    dsimp only at hprobe ⊢
    obtain ⟨m, hr, _⟩ := hprobe
    exact Sat.pure ⟨[m], hr⟩
  | inr te =>
    dsimp only
    apply Sat.bind
    rintro ⟨best, s2⟩ _
    dsimp only
    apply Sat.bind
    refine (iterate_q (pvBody_noRet hnc cpv czw p ply depth β _) cfg o ⟨ply, depth, te, pv⟩
      (fun _ _ => trivial) (fun _ _ _ => trivial) (fun _ _ _ _ _ _ => trivial) (fun _ _ => trivial)
      (fun _ _ _ _ _ => trivial) (fun _ _ _ _ => trivial) _ s2 trivial).mono ?_
    rintro ⟨c, s3⟩ hc
    dsimp only
    cases c with
    | ret r => exact absurd hc id
    | next a => exact (pvStore_fst (g.hash p) depth β a s3).mono (fun r hr => ⟨a.best, by rw [hr]⟩)
    | brk a => exact (pvStore_fst (g.hash p) depth β a s3).mono (fun r hr => ⟨a.best, by rw [hr]⟩)

/-- an uncancelled iteration of positive depth completes -/
theorem analyzeStep_completes [DecidableEq M] (hnc : NoCancel o) (cfg : Cfg) (p : P) (hov : g.over p = false)
    (base i : Int) (hd : 0 < i + base) (a : ALoop M) (s : Eng M) :
    Sat (analyzeStep g cfg o p base i a s) (fun out =>
      match out with
      | .cancelled _ => False
      | .done a' _ => a'.ms ≠ []
      | .go a' _ => a'.ms ≠ []) := by
  unfold analyzeStep
  have h15 : Facts.maxDepth - 0 = 14 + 1 := rfl
  have hP := prov_trivial g o
  have h1 := pvSearch_q hP cfg.opts 0 p 0 (i + base) a.ms (Facts.minEval - 1) (Facts.maxEval + 1)
    { s with st := { depth := i + base } } trivial (fun _ _ => trivial) (engOK_trivial g _)
  have h2 : Sat (pvSearch g cfg.opts o 0 p (i + base) a.ms (Facts.minEval - 1) (Facts.maxEval + 1)
      { s with st := { depth := i + base } }) (fun r => ∃ l, r.1.1 = some l) := by
    unfold pvSearch
    rw [h15]
    exact pvNode_some hnc cfg.opts _ _ p 0 (i + base) a.ms _ _ _ hd hov
  cases hr : pvSearch g cfg.opts o 0 p (i + base) a.ms (Facts.minEval - 1) (Facts.maxEval + 1)
      { s with st := { depth := i + base } } with
  | error e => exact Sat.error
  | ok r =>
    obtain ⟨next, hn⟩ := h2 r hr
    have hne : next ≠ [] := ((h1 r hr).2 next hn).ne
    refine Sat.ok ?_
    unfold iterEnd
    rw [hn]
    dsimp only
    rw [load_nc hnc]
    simp only [Bool.false_eq_true, if_false]
    rcases iterDone_cases cfg base i a next r.1.2 { r.2 with loads := r.2.loads + 1 } with h | h <;> rw [h] <;> exact hne

/-- once a PV is there, the deepening loop keeps one -/
theorem analyzeLoop_keeps_ne [DecidableEq M] (cfg : Cfg) (p : P) (base : Int) (n : Nat) (i : Int) (a : ALoop M)
    (s : Eng M) (ha : a.ms ≠ []) :
    Sat (analyzeLoop g cfg o p base n i a s) (fun x => x.1.ms ≠ []) := by
  refine (analyzeLoop_rule (prov_trivial g o) cfg p trivial base (J := fun _ ms _ => ms ≠ [])
    (fun _ _ _ _ _ _ _ => fun _ _ _ _ hres => hres.ne) n i a s ha (fun _ _ => trivial) (engOK_trivial g s)).mono ?_
  rintro x ⟨_, _, _, h⟩
  exact h

/-- **an uncancelled `Analyze` reports a move**: `NoCancel o`, `1 ≤ Cfg.Depth`, the position is not over ⇒ the PV
returned is not empty (every configuration, any engine state) -/
theorem analyze_nonempty [DecidableEq M] (hnc : NoCancel o) (cfg : Cfg) (hdepth : 1 ≤ cfg.depth) (p : P)
    (hov : g.over p = false) (s : Eng M) :
    Sat (analyze g cfg o p s) (fun x => x.1.1 ≠ []) := by
  unfold analyze
  cases hte : ttGet { s with loads := 0, evals := 0, sorts := 0, rnds := 0, wlog := [] } (g.hash p) with
  | error e => exact Sat.error
  | ok te =>
    show Sat (analyzeFrom g cfg o p (seedOf te) _) _
    unfold analyzeFrom
    have hfin : ∀ (x : Except Err (ALoop M × Eng M)), Sat x (fun y => y.1.ms ≠ []) →
        Sat (match x with
          | .error e => (.error e : Except Err ((List M × Int × Stats) × Eng M))
          | .ok (a, s) => .ok ((a.ms, a.v, a.st), s)) (fun y => y.1.1 ≠ []) := by
      intro x hx
      cases x with
      | error e => exact Sat.error
      | ok y => obtain ⟨a', s'⟩ := y; exact Sat.ok (hx _ rfl)
    apply hfin
    by_cases hseed : (seedOf te).2.1 = []
    · -- no seed: base = 0, the first iteration (depth 1) completes
      have hbase : (seedOf te).1 = 0 := by
        unfold seedOf at hseed ⊢
        cases te with
        | none => rfl
        | some e =>
          dsimp only at hseed ⊢
          split
          · rename_i hb; rw [if_pos hb] at hseed; cases hseed
          · rfl
      rw [hbase]
      have hn : (cfg.depth - 0).toNat = (cfg.depth - 0).toNat - 1 + 1 := by omega
      rw [hn]
      simp only [analyzeLoop]
      have hle : (!decide ((1 : Int) + 0 ≤ cfg.depth)) = false := by simp; omega
      rw [hle]
      simp only [Bool.false_eq_true, if_false]
      have hst := analyzeStep_completes hnc cfg p hov 0 1 (by omega)
        ⟨(seedOf te).2.1, (seedOf te).2.2, { depth := 0 }, 0, 0⟩
        { s with loads := 0, evals := 0, sorts := 0, rnds := 0, wlog := [] }
      cases hr : analyzeStep g cfg o p 0 1 ⟨(seedOf te).2.1, (seedOf te).2.2, { depth := 0 }, 0, 0⟩
          { s with loads := 0, evals := 0, sorts := 0, rnds := 0, wlog := [] } with
      | error e => exact Sat.error
      | ok out =>
        have h := hst out hr
        cases out with
        | cancelled s' => exact absurd h id
        | done a' s' => exact Sat.ok h
        | go a' s' => exact analyzeLoop_keeps_ne cfg p 0 _ _ a' s' h
    · exact analyzeLoop_keeps_ne cfg p _ _ _ _ _ hseed

end Search
