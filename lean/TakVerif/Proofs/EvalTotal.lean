import TakVerif.Proofs.EvalTerminal
import TakVerif.Proofs.Road

/-! `evaluate` returns a value (no panic, no hang) on every well-formed position:
`Dimensions` terminates on a non-empty group inside the board, and for a group that does not touch both the
left and the right edge (no road, the game is not over) its width and height are at most the board size, so
the computed index `ws[Groups+w]` stays inside `Weights`. -/
namespace C18
open Tak Roads

/-! ### the two loops of `Dimensions` -/

theorem shr_shr (b : W) (sh k : Nat) : (b >>> sh) >>> (sh * k) = b >>> (sh * (k + 1)) := by
  rw [Nat.mul_succ, Nat.add_comm, BitVec.shiftRight_add]

theorem dimSkip_spec (bits : W) (sh : Nat) (fuel : Nat) (b : W) (k : Nat) (hk : k < fuel)
    (hne : bits &&& (b >>> (sh * k)) ≠ 0#64) :
    ∃ k', k' ≤ k ∧ dimSkip bits sh fuel b = some (b >>> (sh * k')) := by
  induction fuel generalizing b k with
  | zero => omega
  | succ fuel ih =>
    unfold dimSkip
    by_cases hb : bits &&& b = 0#64
    · simp only [hb, beq_self_eq_true, if_true]
      cases k with
      | zero => simp at hne; exact absurd hb hne
      | succ k =>
        rw [← shr_shr] at hne
        obtain ⟨k', hk', e⟩ := ih (b >>> sh) k (by omega) hne
        exact ⟨k' + 1, by omega, by rw [e, shr_shr]⟩
    · have : (bits &&& b == 0#64) = false := by simpa using hb
      simp only [this, Bool.false_eq_true, if_false]
      exact ⟨0, by omega, by simp⟩

theorem dimCount_le (bits : W) (sh : Nat) (fuel : Nat) (b : W) (acc m : Nat)
    (h : b >>> (sh * m) = 0#64 ∨ bits &&& (b >>> (sh * m)) = 0#64) :
    dimCount bits sh fuel b acc ≤ acc + m := by
  induction fuel generalizing b acc m with
  | zero => unfold dimCount; omega
  | succ fuel ih =>
    unfold dimCount
    split
    · rename_i hc
      simp only [Bool.and_eq_true, bne_iff_ne, ne_eq] at hc
      cases m with
      | zero =>
        simp only [Nat.mul_zero, BitVec.ushiftRight_zero] at h
        rcases h with h | h
        · exact absurd h hc.1
        · exact absurd h hc.2
      | succ m =>
        rw [← shr_shr] at h
        have := ih (b >>> sh) (acc + 1) m h
        omega
    · omega

/-! ### columns and rows of the real masks -/

theorem and_eq_zero_of_sub {g a b : W} (hab : a &&& ~~~b = 0#64) (hgb : g &&& b = 0#64) : g &&& a = 0#64 := by
  apply BitVec.eq_of_getLsbD_eq
  intro i hi
  have h1 := congrArg (fun v => BitVec.getLsbD v i) hab
  have h2 := congrArg (fun v => BitVec.getLsbD v i) hgb
  simp only [BitVec.getLsbD_and, BitVec.getLsbD_not, BitVec.getLsbD_zero, hi, decide_true, Bool.true_and] at h1 h2 ⊢
  cases hg : g.getLsbD i <;> cases ha : a.getLsbD i <;> cases hb : b.getLsbD i <;> simp_all

theorem L_shift_R (n : Nat) (hn : SizeOK n) : (Gen.precompute n).L >>> (n - 1) = (Gen.precompute n).R := by
  rcases hn.cases with h | h | h | h | h | h <;> subst h <;> decide

theorem L_shift_n (n : Nat) (hn : SizeOK n) : ((Gen.precompute n).L >>> n) &&& ~~~(Gen.precompute n).L = 0#64 := by
  rcases hn.cases with h | h | h | h | h | h <;> subst h <;> decide

theorem T_shift_nn (n : Nat) (hn : SizeOK n) : (Gen.precompute n).T >>> (n * n) = 0#64 := by
  rcases hn.cases with h | h | h | h | h | h <;> subst h <;> decide

/-- square `i` lies in the column reached from `L` after `n-1 - i%n` shifts -/
theorem col_hit (n : Nat) (hn : SizeOK n) (i : Nat) (hi : i < n * n) :
    ((Gen.precompute n).L >>> (1 * (n - 1 - i % n))).getLsbD i = true := by
  have h64 := sq_le n hn
  rw [BitVec.getLsbD_ushiftRight]
  have hlt : 1 * (n - 1 - i % n) + i < 64 := by
    rcases hn.cases with h | h | h | h | h | h <;> subst h <;> omega
  have := L_bit n hn ⟨1 * (n - 1 - i % n) + i, hlt⟩
  rw [this]
  simp only [Bool.and_eq_true, decide_eq_true_eq]
  rcases hn.cases with h | h | h | h | h | h <;> subst h <;> omega

/-- square `i` lies in the row reached from `T` after `n-1 - i/n` shifts by `n` -/
theorem row_hit (n : Nat) (hn : SizeOK n) (i : Nat) (hi : i < n * n) :
    ((Gen.precompute n).T >>> (n * (n - 1 - i / n))).getLsbD i = true := by
  have h64 := sq_le n hn
  rw [BitVec.getLsbD_ushiftRight]
  have hlt : n * (n - 1 - i / n) + i < 64 := by
    rcases hn.cases with h | h | h | h | h | h <;> subst h <;> omega
  have := T_bit n hn ⟨n * (n - 1 - i / n) + i, hlt⟩
  rw [this]
  simp only [Bool.and_eq_true, decide_eq_true_eq]
  rcases hn.cases with h | h | h | h | h | h <;> subst h <;> omega

theorem and_ne_zero_of_bits {a b : W} {i : Nat} (ha : a.getLsbD i = true) (hb : b.getLsbD i = true) :
    a &&& b ≠ 0#64 := by
  intro e
  have := congrArg (fun v => BitVec.getLsbD v i) e
  simp [ha, hb] at this

/-- **`Dimensions` on a group that is no left-right road**: it returns, and both numbers are ≤ the board size -/
theorem dimensions_ok (n : Nat) (hn : SizeOK n) (g : W) (hne : g ≠ 0#64) (hg : Sub g (Gen.precompute n).Mask)
    (hlr : g &&& (Gen.precompute n).L = 0#64 ∨ g &&& (Gen.precompute n).R = 0#64) :
    ∃ w h, dimensions (Gen.precompute n) g = some (w, h) ∧ w ≤ n ∧ h ≤ n := by
  have h3 : 3 ≤ n := hn.1
  have h8 : n ≤ 8 := hn.2
  obtain ⟨i, hi⟩ := exists_bit_of_ne_zero g hne
  have hin : i < n * n := lt_of_mask hn hg hi
  -- width
  have hx : i % n < n := Nat.mod_lt _ (by omega)
  have hc70 : n - 1 - i % n < 70 := by have := Nat.sub_le (n - 1) (i % n); omega
  obtain ⟨t0, ht0, e1⟩ := dimSkip_spec g 1 70 (Gen.precompute n).L (n - 1 - i % n) hc70
    (and_ne_zero_of_bits hi (col_hit n hn i hin))
  -- the skip stops at the first column with a square of g, at the latest at the column of `i`
  have hwid : dimCount g 1 70 ((Gen.precompute n).L >>> (1 * t0)) 0 ≤ n := by
    rcases hlr with hl | hr
    · -- no square in the left column: the count stops at the latest when `L >>> n` is reached
      have := dimCount_le g 1 70 ((Gen.precompute n).L >>> (1 * t0)) 0 (n - t0) (Or.inr (by
        rw [← BitVec.shiftRight_add]
        have : 1 * t0 + 1 * (n - t0) = n := by omega
        rw [this]
        exact and_eq_zero_of_sub (L_shift_n n hn) hl))
      omega
    · -- no square in the right column: the count stops at the latest when `L >>> (n-1) = R` is reached
      have := dimCount_le g 1 70 ((Gen.precompute n).L >>> (1 * t0)) 0 (n - 1 - t0) (Or.inr (by
        rw [← BitVec.shiftRight_add]
        have : 1 * t0 + 1 * (n - 1 - t0) = n - 1 := by omega
        rw [this, L_shift_R n hn]
        exact hr))
      omega
  -- height
  have hy : i / n < n := Nat.div_lt_of_lt_mul hin
  have hr70 : n - 1 - i / n < 70 := by have := Nat.sub_le (n - 1) (i / n); omega
  obtain ⟨s0, hs0, e2⟩ := dimSkip_spec g n 70 (Gen.precompute n).T (n - 1 - i / n) hr70
    (and_ne_zero_of_bits hi (row_hit n hn i hin))
  have hhei : dimCount g n 70 ((Gen.precompute n).T >>> (n * s0)) 0 ≤ n := by
    have := dimCount_le g n 70 ((Gen.precompute n).T >>> (n * s0)) 0 n (Or.inl (by
      rw [← BitVec.shiftRight_add]
      apply BitVec.eq_of_getLsbD_eq
      intro k hk
      rw [BitVec.getLsbD_zero]
      have h0 := congrArg (fun v => BitVec.getLsbD v (n * s0 + k)) (T_shift_nn n hn)
      simp only [BitVec.getLsbD_ushiftRight, BitVec.getLsbD_zero] at h0
      rw [BitVec.getLsbD_ushiftRight]
      have : n * s0 + n * n + k = n * n + (n * s0 + k) := by omega
      rw [this]; exact h0))
    omega
  refine ⟨_, _, ?_, hwid, hhei⟩
  unfold dimensions
  have : (g == 0#64) = false := by simpa using hne
  simp only [this, Bool.false_eq_true, if_false, precompute_Size, e1, e2]

/-! ### `scoreGroups` and `evaluate` return -/

/-- what is needed of a group: non-empty, on the board, not touching both the left and the right edge -/
def GroupOK (n : Nat) (g : W) : Prop :=
  g ≠ 0#64 ∧ Sub g (Gen.precompute n).Mask ∧
    (g &&& (Gen.precompute n).L = 0#64 ∨ g &&& (Gen.precompute n).R = 0#64)

theorem groupDimScore_ok (n : Nat) (hn : SizeOK n) (ws : Weights) (gs : List W) (h : ∀ g ∈ gs, GroupOK n g) :
    ∃ v, groupDimScore (Gen.precompute n) ws gs = .ok v := by
  induction gs with
  | nil => exact ⟨0, rfl⟩
  | cons g gs ih =>
    obtain ⟨hne, hsub, hlr⟩ := h g (by simp)
    obtain ⟨w, hh, e, hw, hh'⟩ := dimensions_ok n hn g hne hsub hlr
    obtain ⟨v, hv⟩ := ih (fun g' hg' => h g' (by simp [hg']))
    have h8 := hn.2
    have i1 : ¬ (Facts.fGroups + w ≥ Facts.maxFeature) := by
      simp only [Facts.fGroups, Facts.maxFeature]; omega
    have i2 : ¬ (Facts.fGroups + hh ≥ Facts.maxFeature) := by
      simp only [Facts.fGroups, Facts.maxFeature]; omega
    unfold groupDimScore
    simp only [e, i1, i2, if_false, hv]
    exact ⟨_, rfl⟩

theorem scoreGroups_ok (n : Nat) (hn : SizeOK n) (ws : Weights) (gs : List W) (other : W)
    (h : ∀ g ∈ gs, GroupOK n g) : ∃ v, scoreGroups (Gen.precompute n) gs ws other = .ok v := by
  obtain ⟨v, hv⟩ := groupDimScore_ok n hn ws gs h
  unfold scoreGroups
  simp only [hv]
  split <;> exact ⟨_, rfl⟩

theorem hasRoad_false (p : Pos) (h : p.hasRoad.2 = false) :
    p.wgroups.any (isRoadGroup p.c) = false ∧ p.bgroups.any (isRoadGroup p.c) = false := by
  unfold Pos.hasRoad at h
  cases hw : p.wgroups.any (isRoadGroup p.c) <;> cases hb : p.bgroups.any (isRoadGroup p.c)
  · exact ⟨rfl, rfl⟩
  · simp [hw, hb] at h
  · simp [hw, hb] at h
  · simp only [hw, hb, Bool.and_self, if_true] at h
    split at h <;> simp at h

theorem not_over_hasRoad (p : Pos) (hno : p.gameOver.1 = false) : p.hasRoad.2 = false := by
  unfold Pos.gameOver at hno
  rcases hr : p.hasRoad with ⟨a, b⟩
  rw [hr] at hno
  cases b with
  | false => rfl
  | true => simp at hno

/-- the groups of a well-formed position whose game is not over -/
theorem groups_ok (p : Pos) (wf : RoadWF p) (hno : p.gameOver.1 = false) (col : Color)
    (hc : col = .white ∨ col = .black) : ∀ g ∈ groupsOf p col, GroupOK p.cfg.size g := by
  have hn := wf.size_ok
  have hbm := roadBits_sub p wf col
  obtain ⟨a1, a2⟩ := analyze_groups p wf.analyzed
  have hg : floodGroups (Gen.precompute p.cfg.size) (roadBits p col) = some (groupsOf p col) := by
    rw [← wf.consts]
    rcases hc with e | e <;> subst e
    · exact a1
    · exact a2
  obtain ⟨gs, hgs, _, hmem⟩ := groups_spec p.cfg.size hn (roadBits p col) hbm
  rw [hg] at hgs
  have hgs' : groupsOf p col = gs := Option.some.inj hgs
  obtain ⟨r1, r2⟩ := hasRoad_false p (not_over_hasRoad p hno)
  have hany : (groupsOf p col).any (isRoadGroup p.c) = false := by
    rcases hc with e | e <;> subst e
    · exact r1
    · exact r2
  intro g hg'
  have hcomp := (hmem g).mp (by rw [← hgs']; exact hg')
  obtain ⟨i, _, _, hi, _⟩ := hcomp.2
  refine ⟨ne_zero_of_getLsbD hi, Sub.trans hcomp.1.sub hbm, ?_⟩
  have hnr : isRoadGroup p.c g = false := by
    rw [List.any_eq_false] at hany
    have := hany g hg'
    simpa using this
  rw [wf.consts] at hnr
  unfold isRoadGroup at hnr
  simp only [Bool.or_eq_false_iff, Bool.and_eq_false_iff, bne_eq_false_iff_eq] at hnr
  exact hnr.2
where
  ne_zero_of_getLsbD {x : W} {i : Nat} (h : x.getLsbD i = true) : x ≠ 0#64 := by
    intro e; rw [e] at h; simp at h

/-- **`evaluate` returns a value** on every well-formed position (`Stacks` as long as `Height`, as `alloc`
makes them): no index panic in `scoreGroups`, no endless loop in `Dimensions`. -/
theorem evaluate_total (w : Weights) (p : Pos) (wf : RoadWF p) (hst : p.height.size ≤ p.stacks.size) :
    ∃ v, evaluate p.c w p = .ok v := by
  unfold evaluate
  cases hgo : p.gameOver.1 with
  | true => exact ⟨evaluateTerminal p w, by simp⟩
  | false =>
    simp only [Bool.false_eq_true, if_false]
    have hw := groups_ok p wf hgo .white (Or.inl rfl)
    have hb := groups_ok p wf hgo .black (Or.inr rfl)
    simp only [groupsOf] at hw hb
    obtain ⟨v1, e1⟩ := scoreGroups_ok p.cfg.size wf.size_ok w p.wgroups (p.black ||| p.standing) hw
    obtain ⟨v2, e2⟩ := scoreGroups_ok p.cfg.size wf.size_ok w p.bgroups (p.white ||| p.standing) hb
    rw [← wf.consts] at e1 e2
    unfold rawScore
    have : ¬ (p.stacks.size < p.height.size) := by omega
    simp only [this, if_false, e1, e2]
    split <;> exact ⟨_, rfl⟩

end C18
