import TakVerif.Proofs.HashInv

/-! Concrete positions used by the non-vacuity `example`s in `Props/`. -/
namespace Tak.Ex

/-- some 25-entry basis table (the theorems hold for any) -/
def basis : Array W := (List.range 25).toArray.map (fun i => BitVec.ofNat 64 (i * 0x9E3779B97F4A7C15 + 12345))

def okOr (r : R Pos) : Pos := match r with | .ok p => p | .error _ => default

/-- 5×5 start position -/
def start5 : Pos := okOr (Pos.new ⟨5, 0, 0, false⟩)

/-- a1 e5 b1 b2 b1+ a1> : two placements per side in the opening/after it, then two captures by sliding -/
def moves : List Move := [⟨0,0,2,0⟩, ⟨4,4,2,0⟩, ⟨1,0,2,0⟩, ⟨1,1,2,0⟩, ⟨1,0,7,1⟩, ⟨0,0,6,1⟩]

def mid : Pos := okOr (start5.applyAll basis (moves.take 4))
def after : Pos := okOr (start5.applyAll basis moves)

theorem start5_ok : Pos.new ⟨5, 0, 0, false⟩ = .ok start5 := rfl
theorem mid_ok : start5.applyAll basis (moves.take 4) = .ok mid := by rfl
theorem after_ok : start5.applyAll basis moves = .ok after := by rfl
/-- the slide b1+ (type 7 = SlideUp, one piece) from `mid` is accepted -/
theorem mid_slide_ok : ∃ q, mid.apply basis ⟨1,0,7,1⟩ = .ok q := ⟨_, by rfl⟩

end Tak.Ex
