import TakVerif.Proofs.HashInv
import TakVerif.Proofs.WFCheck
import TakVerif.Proofs.MoveRefine

/-! Concrete positions used by the non-vacuity `example`s in `Props/`. -/
namespace Tak.Ex

/-- some 25-entry basis table (the theorems hold for any) -/
def basis : Array W := (List.range 25).toArray.map (fun i => BitVec.ofNat 64 (i * 0x9E3779B97F4A7C15 + 12345))

def okOr (r : R Pos) : Pos := match r with | .ok p => p | .error _ => default

/-- 5×5 start position -/
def start5 : Pos := okOr (Pos.new ⟨5, 0, 0, false⟩)

/-- a1 e5 b1 b2 b1+ a1> : two placements per side in the opening/after it, then two captures by sliding -/
def moves : List Move := [⟨0,0,2,0⟩, ⟨4,4,2,0⟩, ⟨1,0,2,0⟩, ⟨1,1,2,0⟩, ⟨1,0,7,1⟩, ⟨0,0,6,1⟩]

def mid : Pos := okOr (start5.applyAll basis (moves.take 4))
def after : Pos := okOr (start5.applyAll basis moves)

theorem start5_ok : Pos.new ⟨5, 0, 0, false⟩ = .ok start5 := rfl
theorem mid_ok : start5.applyAll basis (moves.take 4) = .ok mid := by rfl
theorem after_ok : start5.applyAll basis moves = .ok after := by rfl
/-- the slide b1+ (type 7 = SlideUp, one piece) from `mid` is accepted -/
theorem mid_slide_ok : ∃ q, mid.apply basis ⟨1,0,7,1⟩ = .ok q := ⟨_, by rfl⟩

/-- the position after a1 e5 b1 b2 is well-formed (checked by evaluating `Pos.wfB`) -/
theorem mid_wf : WF basis mid := Pos.wfB_sound (by decide +kernel)
theorem after_wf : WF basis after := Pos.wfB_sound (by decide +kernel)

/-- the rule-book successor of `mid` under b1+ -/
def midSlideSpec : Spec.State := (Spec.step (Spec.abs mid) (Spec.decode ⟨1,0,7,1⟩)).getD default

theorem mid_slide_spec : Spec.step (Spec.abs mid) (Spec.decode ⟨1,0,7,1⟩) = some midSlideSpec := by rfl

theorem mid_slide_limit : StackLimit mid ⟨1,0,7,1⟩ := by
  intro s' h
  rw [mid_slide_spec] at h
  cases h
  decide +kernel

/-- two orders of the same four placements after the opening a1 e5: (b1 b2 c1 c2) and (c1 c2 b1 b2) -/
def trA : List Move := [⟨0,0,2,0⟩, ⟨4,4,2,0⟩, ⟨1,0,2,0⟩, ⟨1,1,2,0⟩, ⟨2,0,2,0⟩, ⟨2,1,2,0⟩]
def trB : List Move := [⟨0,0,2,0⟩, ⟨4,4,2,0⟩, ⟨2,0,2,0⟩, ⟨2,1,2,0⟩, ⟨1,0,2,0⟩, ⟨1,1,2,0⟩]
def qa : Pos := okOr (start5.applyAll basis trA)
def qb : Pos := okOr (start5.applyAll basis trB)
theorem qa_ok : start5.applyAll basis trA = .ok qa := by rfl
theorem qb_ok : start5.applyAll basis trB = .ok qb := by rfl
theorem qa_qb_same : (Spec.abs qa).squares = (Spec.abs qb).squares ∧ qa.toMove = qb.toMove := by decide +kernel
theorem tr_places : (∀ m ∈ trA, ∃ k, m.type = placeCode k) ∧ (∀ m ∈ trB, ∃ k, m.type = placeCode k) := by
  constructor <;> (intro m hm; simp only [trA, trB, List.mem_cons, List.mem_nil_iff, or_false] at hm
                   rcases hm with rfl | rfl | rfl | rfl | rfl | rfl <;> exact ⟨.flat, rfl⟩)

end Tak.Ex
