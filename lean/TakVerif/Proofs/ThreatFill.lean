import TakVerif.Proofs.ThreatMoveW
import TakVerif.Proofs.ThreatMoveB
import TakVerif.Proofs.ThreatMovePlace

/-! C19, step 3 (colour-generic wrappers): a legal placement on an empty square, a legal one-step slide of a
single own flat onto a neighbouring square that carries no wall or capstone. -/
namespace C19
open Tak Roads Spec

/-- the squares topped by a colour -/
def own (p : Pos) : Color → W
  | .white => p.white
  | .black => p.black
  | .none => 0#64

def stonesOf (p : Pos) : Color → U8
  | .white => p.whiteStones
  | .black => p.blackStones
  | .none => 0#8

def capsOf (p : Pos) : Color → U8
  | .white => p.whiteCaps
  | .black => p.blackCaps
  | .none => 0#8

/-- every occupied square has at least one piece counted in `Height` (kept by `New`, `FromSquares`, `Move`) -/
def HeightsOK (p : Pos) : Prop :=
  ∀ i, (p.white ||| p.black).getLsbD i = true → 1 ≤ (p.height.getD i 0#8).toNat

theorem coords {n s : Nat} (hn : 0 < n) (hs : s < n * n) : s % n < n ∧ s / n < n ∧ s % n + s / n * n = s := by
  refine ⟨Nat.mod_lt _ hn, Nat.div_lt_of_lt_mul hs, ?_⟩
  have := Nat.mod_add_div s n
  rw [Nat.mul_comm] at this; exact this

theorem toMove_cases (p : Pos) : p.toMove = .white ∨ p.toMove = .black := by
  unfold Pos.toMove; split <;> simp

theorem disjoint_bits (p : Pos) (wf : WFBoard p) :
    ∀ k, p.white.getLsbD k = true → p.black.getLsbD k = true → False := by
  intro k h1 h2
  have := congrArg (fun v => BitVec.getLsbD v k) wf.disjoint
  simp [h1, h2] at this

/-- a flat or, failing that, a capstone can be placed on an empty square of the board -/
theorem place_generic (basis : Array W) (p : Pos) (wf : WFBoard p) (hply : 2 ≤ p.move) (col : Color)
    (hcol : p.toMove = col) (s : Nat) (hs : s < p.cfg.size * p.cfg.size)
    (hemp : (p.white ||| p.black).getLsbD s = false)
    (hres : stonesOf p col ≠ 0#8 ∨ capsOf p col ≠ 0#8) :
    ∃ m q, m.type ≠ Facts.mtPass ∧ p.apply basis m = .ok q ∧
      After p q 64 s (own p col) (own q col) (own p col.flip) (own q col.flip) := by
  have hn : 0 < p.cfg.size := by have := wf.size_ok.1; omega
  have h64 := sq_le _ wf.size_ok
  have hdis := disjoint_bits p wf
  obtain ⟨hx, hy, e⟩ := coords hn hs
  rw [← e] at hemp
  rcases toMove_cases p with hw | hb
  · rw [hw] at hcol; subst hcol
    rcases hres with h | h
    · obtain ⟨q, h1, h2⟩ := apply_place_flat_w basis p _ _ hx hy h64 hply hw hdis hemp h
      rw [e] at h2; exact ⟨_, q, by simp only []; decide, h1, h2⟩
    · obtain ⟨q, h1, h2⟩ := apply_place_cap_w basis p _ _ hx hy h64 hply hw hdis hemp h
      rw [e] at h2; exact ⟨_, q, by simp only []; decide, h1, h2⟩
  · rw [hb] at hcol; subst hcol
    rcases hres with h | h
    · obtain ⟨q, h1, h2⟩ := apply_place_flat_b basis p _ _ hx hy h64 hply hb hdis hemp h
      rw [e] at h2; exact ⟨_, q, by simp only []; decide, h1, h2⟩
    · obtain ⟨q, h1, h2⟩ := apply_place_cap_b basis p _ _ hx hy h64 hply hb hdis hemp h
      rw [e] at h2; exact ⟨_, q, by simp only []; decide, h1, h2⟩

/-- the top flat of square `j` can be slid one step onto a neighbouring square `s` without wall or capstone -/
theorem slide_generic (basis : Array W) (p : Pos) (wf : WFBoard p) (hh : HeightsOK p) (hply : 2 ≤ p.move)
    (col : Color) (hcol : p.toMove = col) (j s : Nat) (hs : s < p.cfg.size * p.cfg.size)
    (hj : j ∈ neighbours p.cfg.size s)
    (hown : (own p col).getLsbD j = true)
    (hjs : p.standing.getLsbD j = false) (hjc : p.caps.getLsbD j = false)
    (hss : p.standing.getLsbD s = false) (hsc : p.caps.getLsbD s = false) :
    ∃ m q, m.type ≠ Facts.mtPass ∧ p.apply basis m = .ok q ∧
      After p q j s (own p col) (own q col) (own p col.flip) (own q col.flip) := by
  have hn3 := wf.size_ok.1
  have hn : 0 < p.cfg.size := by omega
  have h64 := sq_le _ wf.size_ok
  have hdis := disjoint_bits p wf
  obtain ⟨hjn, hco, _⟩ := neighbours_cases hs hj
  obtain ⟨hx, hy, e⟩ := coords hn hjn
  obtain ⟨hsx, hsy, es⟩ := coords hn hs
  have hocc : (p.white ||| p.black).getLsbD j = true := by
    rw [BitVec.getLsbD_or]
    rcases toMove_cases p with hw | hb
    · rw [hw] at hcol; subst hcol; simp only [own] at hown; simp [hown]
    · rw [hb] at hcol; subst hcol; simp only [own] at hown; simp [hown]
  have hht : 1 ≤ (p.height[j]?.getD 0#8).toNat := by
    have := hh j hocc
    simpa using this
  -- the target index in each of the four directions
  have tR : j / p.cfg.size = s / p.cfg.size → j % p.cfg.size + 1 = s % p.cfg.size →
      j % p.cfg.size + 1 + (j / p.cfg.size) * p.cfg.size = s := by
    intro a b; rw [a, b]; exact es
  have tL : j / p.cfg.size = s / p.cfg.size → j % p.cfg.size = s % p.cfg.size + 1 →
      j % p.cfg.size - 1 + (j / p.cfg.size) * p.cfg.size = s := by
    intro a b; rw [a, b]; simpa using es
  have tU : j % p.cfg.size = s % p.cfg.size → j / p.cfg.size + 1 = s / p.cfg.size →
      j % p.cfg.size + (j / p.cfg.size + 1) * p.cfg.size = s := by
    intro a b; rw [a, b]; exact es
  have tD : j % p.cfg.size = s % p.cfg.size → j / p.cfg.size = s / p.cfg.size + 1 →
      j % p.cfg.size + (j / p.cfg.size - 1) * p.cfg.size = s := by
    intro a b; rw [a, b]; simpa using es
  rcases toMove_cases p with hw | hb
  · rw [hw] at hcol; subst hcol
    simp only [own] at hown ⊢
    rw [← e] at hown hjs hjc hht
    rcases hco with ⟨a, b | b⟩ | ⟨a, b | b⟩
    · have t := tR a b
      rw [← t] at hss hsc
      obtain ⟨q, h1, h2⟩ := apply_slide_right_w basis p _ _ (by omega) hy h64 hply hw hdis hown hjs hjc hht hss hsc
      rw [t, e] at h2; exact ⟨_, q, by simp only []; decide, h1, h2⟩
    · have t := tL a b
      rw [← t] at hss hsc
      have hx1 : 1 ≤ j % p.cfg.size := by rw [b]; exact Nat.succ_le_succ (Nat.zero_le _)
      obtain ⟨q, h1, h2⟩ := apply_slide_left_w basis p _ _ hx1 hx hy h64 hply hw hdis hown hjs hjc hht hss hsc
      rw [t, e] at h2; exact ⟨_, q, by simp only []; decide, h1, h2⟩
    · have t := tU a b
      rw [← t] at hss hsc
      obtain ⟨q, h1, h2⟩ := apply_slide_up_w basis p _ _ hx (by omega) h64 hply hw hdis hown hjs hjc hht hss hsc
      rw [t, e] at h2; exact ⟨_, q, by simp only []; decide, h1, h2⟩
    · have t := tD a b
      rw [← t] at hss hsc
      have hy1 : 1 ≤ j / p.cfg.size := by rw [b]; exact Nat.succ_le_succ (Nat.zero_le _)
      obtain ⟨q, h1, h2⟩ := apply_slide_down_w basis p _ _ hx hy1 hy h64 hply hw hdis hown hjs hjc hht hss hsc
      rw [t, e] at h2; exact ⟨_, q, by simp only []; decide, h1, h2⟩
  · rw [hb] at hcol; subst hcol
    simp only [own] at hown ⊢
    have hnw : p.white.getLsbD j = false := by
      cases hwj : p.white.getLsbD j with
      | false => rfl
      | true =>
        have := congrArg (fun v => BitVec.getLsbD v j) wf.disjoint
        simp [hwj, hown] at this
    rw [← e] at hown hjs hjc hht hnw
    rcases hco with ⟨a, b | b⟩ | ⟨a, b | b⟩
    · have t := tR a b
      rw [← t] at hss hsc
      obtain ⟨q, h1, h2⟩ := apply_slide_right_b basis p _ _ (by omega) hy h64 hply hb hdis hown hnw hjs hjc hht hss hsc
      rw [t, e] at h2; exact ⟨_, q, by simp only []; decide, h1, h2⟩
    · have t := tL a b
      rw [← t] at hss hsc
      have hx1 : 1 ≤ j % p.cfg.size := by rw [b]; exact Nat.succ_le_succ (Nat.zero_le _)
      obtain ⟨q, h1, h2⟩ := apply_slide_left_b basis p _ _ hx1 hx hy h64 hply hb hdis hown hnw hjs hjc hht hss hsc
      rw [t, e] at h2; exact ⟨_, q, by simp only []; decide, h1, h2⟩
    · have t := tU a b
      rw [← t] at hss hsc
      obtain ⟨q, h1, h2⟩ := apply_slide_up_b basis p _ _ hx (by omega) h64 hply hb hdis hown hnw hjs hjc hht hss hsc
      rw [t, e] at h2; exact ⟨_, q, by simp only []; decide, h1, h2⟩
    · have t := tD a b
      rw [← t] at hss hsc
      have hy1 : 1 ≤ j / p.cfg.size := by rw [b]; exact Nat.succ_le_succ (Nat.zero_le _)
      obtain ⟨q, h1, h2⟩ := apply_slide_down_b basis p _ _ hx hy1 hy h64 hply hb hdis hown hnw hjs hjc hht hss hsc
      rw [t, e] at h2; exact ⟨_, q, by simp only []; decide, h1, h2⟩

end C19
