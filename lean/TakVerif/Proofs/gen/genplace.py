import sys
HEAD='''import TakVerif.Proofs.ThreatMoveBase

/-! C19, step 3: `Pos.apply` on the placement of a flat or a capstone on an empty square. -/
namespace C19
open Tak Roads Spec
set_option linter.unusedSimpArgs false
'''
T='''
theorem apply_place_{kind}_{cl} (basis : Array W) (p : Pos) (x y : Nat) (hx : x < p.cfg.size) (hy : y < p.cfg.size)
    (h64 : p.cfg.size * p.cfg.size ≤ 64) (hply : 2 ≤ p.move) (hw : p.toMove = .{color})
    (hdis : ∀ k, p.white.getLsbD k = true → p.black.getLsbD k = true → False)
    (hemp : (p.white ||| p.black).getLsbD (x + y * p.cfg.size) = false)
    (hst : p.{res} ≠ 0#8) :
    ∃ q, p.apply basis ⟨x, y, {T}, 0⟩ = .ok q ∧ After p q 64 (x + y * p.cfg.size) p.{color} q.{color} p.{opp} q.{opp} := by
  have h2 : ¬ (p.move < 2) := by omega
  have hx' : ¬ ((p.cfg.size : Int) ≤ x) := by omega
  have hy' : ¬ ((p.cfg.size : Int) ≤ y) := by omega
  have hxn : ¬ ((x : Int) < 0) := by omega
  have hyn : ¬ ((y : Int) < 0) := by omega
  have hidx := idx_toNat x y p.cfg.size
  have hs64 : x + y * p.cfg.size < 64 := by
    have : y * p.cfg.size + p.cfg.size ≤ p.cfg.size * p.cfg.size := by
      rw [← Nat.succ_mul]; exact Nat.mul_le_mul_right _ hy
    omega
  rw [BitVec.getLsbD_or] at hemp
  simp only [Bool.or_eq_false_iff] at hemp
  unfold Pos.apply
  simp [Facts.mtPlaceFlat, Facts.mtPlaceCapstone, Facts.mtPlaceStanding, Facts.mtPass, hw, h2, hx', hy', hxn, hyn, hidx,
    hemp.1, hemp.2, hst, dispatch, openingRule, placeOn]
  apply finish_exists
  intro wg bg hwg hbg
  constructor <;> simp only [] <;> first | rfl | assumption | place_bits hs64
'''
out=HEAD
for color,cl in (('white','w'),('black','b')):
    for kind,TT,res in (('flat','Facts.mtPlaceFlat',color+'Stones'),('cap','Facts.mtPlaceCapstone',color+'Caps')):
        out+=T.format(kind=kind,cl=cl,color=color,T=TT,res=res,opp=('black' if color=='white' else 'white'))
out+='\nend C19\n'
open(sys.argv[1]+'/ThreatMovePlace.lean','w').write(out)
