#!/usr/bin/env python3
"""generate TakVerif/Proofs/ThreatMove{W,B}.lean: Pos.apply on the two kinds of winning moves"""
import sys
HEAD = '''import TakVerif.Proofs.ThreatMoveBase

/-! C19, step 3 (COLOR mover): `Pos.apply` on a one-step slide of a single flat.  One lemma per direction;
the three branches of the origin update (stack of one / next piece white / next piece black) are
separated before `Pos.apply` is unfolded, so that every intermediate position stays a plain record. -/
namespace C19
open Tak Roads Spec
set_option linter.unusedSimpArgs false
'''
DIRS = {
 'right': dict(T='Facts.mtSlideRight', hyps='(hx : x + 1 < p.cfg.size) (hy : y < p.cfg.size)', tx='x + 1', ty='y',
               ix='(x : Int) + 1', iy='(y : Int)'),
 'left':  dict(T='Facts.mtSlideLeft', hyps='(hx0' + "'" + ' : 1 ≤ x) (hx : x < p.cfg.size) (hy : y < p.cfg.size)', tx='x - 1', ty='y',
               ix='(x : Int) + -1', iy='(y : Int)'),
 'up':    dict(T='Facts.mtSlideUp', hyps='(hx : x < p.cfg.size) (hy : y + 1 < p.cfg.size)', tx='x', ty='y + 1',
               ix='(x : Int)', iy='(y : Int) + 1'),
 'down':  dict(T='Facts.mtSlideDown', hyps='(hx : x < p.cfg.size) (hy0' + "'" + ' : 1 ≤ y) (hy : y < p.cfg.size)', tx='x', ty='y - 1',
               ix='(x : Int)', iy='(y : Int) + -1'),
}
TEMPLATE = '''
theorem apply_slide_{d}_{cl} (basis : Array W) (p : Pos) (x y : Nat) {hyps}
    (h64 : p.cfg.size * p.cfg.size ≤ 64) (hply : 2 ≤ p.move) (hw : p.toMove = .{color})
    (hdis : ∀ k, p.white.getLsbD k = true → p.black.getLsbD k = true → False)
    (hown : p.{own}.getLsbD (x + y * p.cfg.size) = true){extra_h}
    (hns : p.standing.getLsbD (x + y * p.cfg.size) = false)
    (hnc : p.caps.getLsbD (x + y * p.cfg.size) = false)
    (hh : 1 ≤ (p.height[x + y * p.cfg.size]?.getD 0#8).toNat)
    (hts : p.standing.getLsbD ({tx} + ({ty}) * p.cfg.size) = false)
    (htc : p.caps.getLsbD ({tx} + ({ty}) * p.cfg.size) = false) :
    ∃ q, p.apply basis ⟨x, y, {T}, 1#32⟩ = .ok q ∧
      After p q (x + y * p.cfg.size) ({tx} + ({ty}) * p.cfg.size) p.{own} q.{own} p.{opp} q.{opp} := by
  have h2 : ¬ (p.move < 2) := by omega
  have hx' : ¬ ((p.cfg.size : Int) ≤ x) := by omega
  have hy' : ¬ ((p.cfg.size : Int) ≤ y) := by omega
  have hxn : ¬ ((x : Int) < 0) := by omega
  have hyn : ¬ ((y : Int) < 0) := by omega
  have hidx := idx_toNat x y p.cfg.size
  have htop : p.topAt (x + y * p.cfg.size) = some ⟨.{color}, .flat⟩ := by
    unfold Pos.topAt; simp [hown, hns, hnc{extra_s}]
  have hsz : ¬ (p.cfg.size = 0) := by omega
  have hh0 : ¬ ((p.height[x + y * p.cfg.size]?.getD 0#8).toNat = 0) := by omega
  have hidx2 : ({ix} + ({iy}) * (p.cfg.size : Int)).toNat = {tx} + ({ty}) * p.cfg.size := by
    have := idx_toNat ({tx}) ({ty}) p.cfg.size
    have e1 : ((({tx} : Nat)) : Int) = {ix} := by omega
    have e2 : ((({ty} : Nat)) : Int) = {iy} := by omega
    rw [e1, e2] at this; exact this
  have hb1 : ¬ ((p.cfg.size : Int) ≤ {ix}) := by omega
  have hb2 : ¬ ({ix} < 0) := by omega
  have hb3 : ¬ ((p.cfg.size : Int) ≤ {iy}) := by omega
  have hb4 : ¬ ({iy} < 0) := by omega
  have hrow : ∀ a b : Nat, a < p.cfg.size → b < p.cfg.size → a + b * p.cfg.size < 64 := by
    intro a b ha hb
    have : b * p.cfg.size + p.cfg.size ≤ p.cfg.size * p.cfg.size := by
      rw [← Nat.succ_mul]; exact Nat.mul_le_mul_right _ hb
    omega
  have hj64 : x + y * p.cfg.size < 64 := hrow x y (by omega) (by omega)
  have hs64 : {tx} + ({ty}) * p.cfg.size < 64 := hrow ({tx}) ({ty}) (by omega) (by omega)
  have hne : {tx} + ({ty}) * p.cfg.size ≠ x + y * p.cfg.size := by
    {hne_proof}
  have c1 : (clrBit p.caps (x + y * p.cfg.size)).getLsbD ({tx} + ({ty}) * p.cfg.size) = false := by
    rw [getLsbD_clrBit _ _ _ hj64, htc]; rfl
  have c2 : (clrBit p.standing (x + y * p.cfg.size)).getLsbD ({tx} + ({ty}) * p.cfg.size) = false := by
    rw [getLsbD_clrBit _ _ _ hj64, hts]; rfl
  by_cases hh1 : (p.height[x + y * p.cfg.size]?.getD 0#8).toNat = 1
  · unfold Pos.apply
    simp [Facts.mtSlideRight, Facts.mtSlideLeft, Facts.mtSlideUp, Facts.mtSlideDown, Facts.mtPass, Facts.mtPlaceFlat,
      Facts.mtPlaceStanding, Facts.mtPlaceCapstone,
      hw, h2, hx', hy', hxn, hyn, hidx, elems_one, hown, htop, hsz, hh1, slideLoop, slideStep, dispatch, openingRule, slideFrom, liftFrom, dropOn, enterSquare, Pos.setStack, hidx2, hb1, hb2, hb3, hb4,
      c1, c2, bind, Except.bind]
    apply finish_exists
    intro wg bg hwg hbg
    constructor <;> simp only [] <;> first | rfl | assumption | after_bits hj64 hs64 hne
  · by_cases hb : (p.stacks[x + y * p.cfg.size]?.getD 0#64)[0] = false
    · unfold Pos.apply
      simp [Facts.mtSlideRight, Facts.mtSlideLeft, Facts.mtSlideUp, Facts.mtSlideDown, Facts.mtPass, Facts.mtPlaceFlat,
        Facts.mtPlaceStanding, Facts.mtPlaceCapstone,
        hw, h2, hx', hy', hxn, hyn, hidx, elems_one, hown, htop, hsz, hh1, hh0, hb, slideLoop, slideStep, dispatch, openingRule, slideFrom, liftFrom, dropOn, enterSquare, Pos.setStack, hidx2, hb1, hb2,
        hb3, hb4, c1, c2, bind, Except.bind]
      apply finish_exists
      intro wg bg hwg hbg
      constructor <;> simp only [] <;> first | rfl | assumption | after_bits hj64 hs64 hne
    · unfold Pos.apply
      simp [Facts.mtSlideRight, Facts.mtSlideLeft, Facts.mtSlideUp, Facts.mtSlideDown, Facts.mtPass, Facts.mtPlaceFlat,
        Facts.mtPlaceStanding, Facts.mtPlaceCapstone,
        hw, h2, hx', hy', hxn, hyn, hidx, elems_one, hown, htop, hsz, hh1, hh0, hb, slideLoop, slideStep, dispatch, openingRule, slideFrom, liftFrom, dropOn, enterSquare, Pos.setStack, hidx2, hb1, hb2,
        hb3, hb4, c1, c2, bind, Except.bind]
      apply finish_exists
      intro wg bg hwg hbg
      constructor <;> simp only [] <;> first | rfl | assumption | after_bits hj64 hs64 hne
'''
HNE = {
 'right': 'omega', 'left': 'omega',
 'up': 'have : (y + 1) * p.cfg.size = y * p.cfg.size + p.cfg.size := Nat.succ_mul _ _\n    omega',
 'down': 'have : (y - 1 + 1) * p.cfg.size = (y - 1) * p.cfg.size + p.cfg.size := Nat.succ_mul _ _\n    have e : y - 1 + 1 = y := by omega\n    rw [e] at this; omega',
}
def gen(color):
    cl = 'w' if color == 'white' else 'b'
    own = color
    extra_h = '' if color == 'white' else '\n    (hnw : p.white.getLsbD (x + y * p.cfg.size) = false)'
    extra_s = '' if color == 'white' else ', hnw'
    out = HEAD.replace('COLOR', color)
    for d, v in DIRS.items():
        out += TEMPLATE.format(d=d, cl=cl, color=color, own=own, opp=('black' if color == 'white' else 'white'), extra_h=extra_h, extra_s=extra_s, hne_proof=HNE[d], **v)
    out += '\nend C19\n'
    return out
open(sys.argv[1] + '/ThreatMoveW.lean', 'w').write(gen('white'))
open(sys.argv[1] + '/ThreatMoveB.lean', 'w').write(gen('black'))
