import TakVerif.Proofs.C06Top

/-! Reading the verdict and the move off the root (`readResult`), and the nodes of the tree. -/
namespace C06
open Tak Tak.PN Spec.Game

variable {S M : Type} (G : Game S M) (att : Color)

/-- `n` is a node of the tree below `root` (which stands for `pos`): it stands for position `s`, reached along `h` -/
inductive NodeAt (root : Node M) (pos : S) : List S → S → Node M → Prop
  | root : NodeAt root pos [] pos root
  | child {h : List S} {s s' : S} {n c : Node M} : NodeAt root pos h s n → c ∈ n.children →
      G.apply s c.move = some s' → NodeAt root pos (s :: h) s' c

theorem treeOK_nodeAt {dl : Bool} {root : Node M} {pos : S} (ht : TreeOK G att dl [] pos root)
    {h : List S} {s : S} {n : Node M} (hn : NodeAt G root pos h s n) : TreeOK G att dl h s n := by
  induction hn with
  | root => exact ht
  | @child h0 s0 s1 n0 c0 _ hc happ ih =>
    rw [TreeOK_iff] at ih
    obtain ⟨s'', hco, htc⟩ := ih.2.1 _ hc
    have : s'' = s1 := by
      have h1 := hco.2.1
      rw [happ] at h1
      exact (Option.some.inj h1).symm
    subst this
    exact htc

theorem foldl_pv_spec (cs : List (Node M)) (m : M) :
    ∀ (init : Option M), cs.foldl (fun pv c => if c.delta == 0 then some c.move else pv) init = some m →
      init = some m ∨ ∃ c ∈ cs, c.delta = 0 ∧ c.move = m := by
  induction cs with
  | nil => intro init h; exact Or.inl h
  | cons c cs ih =>
    intro init h
    simp only [List.foldl_cons] at h
    rcases ih _ h with h1 | ⟨c', hc', q⟩
    · split at h1
      · rename_i hd
        right
        exact ⟨c, List.mem_cons_self, by simpa using hd, Option.some.inj h1⟩
      · exact Or.inl h1
    · exact Or.inr ⟨c', List.mem_cons_of_mem _ hc', q⟩

/-- the root is an OR node when the attacker is to move there -/
theorem root_or {dl : Bool} {pos : S} {n : Node M} (hnum : NumOK G att dl [] pos n) (hroot : G.toMove pos = att) :
    n.isAnd = false := by
  cases h : n.isAnd with
  | false => rfl
  | true => exact absurd hroot (hnum.side.mp h)

theorem readResult_proven (st : St S M) (pos : S) (hroot : G.toMove pos = att)
    (ht : TreeOK G att st.depthLimited [] pos st.focus)
    (hr : (readResult st).1.result = .proven) : PlainWin G att pos := by
  rw [TreeOK_iff] at ht
  obtain ⟨hnum, _, _, _⟩ := ht
  have hor := root_or G att hnum hroot
  unfold readResult at hr
  simp only at hr
  by_cases h1 : st.focus.phi = 0
  · exact hnum.proof (by simp [Node.proof, hor, h1])
  · by_cases h2 : st.focus.delta = 0
    · simp only [beq_iff_eq, h1, h2, if_false, if_true] at hr
      split at hr <;> simp at hr
    · simp only [beq_iff_eq, h1, h2, if_false] at hr
      split at hr
      · simp at hr
      · exact hnum.valueP hr

theorem readResult_disproven (st : St S M) (pos : S) (hroot : G.toMove pos = att)
    (ht : TreeOK G att st.depthLimited [] pos st.focus)
    (hr : (readResult st).1.result = .disproven) : ¬ Win G att [] pos := by
  rw [TreeOK_iff] at ht
  obtain ⟨hnum, _, _, _⟩ := ht
  have hor := root_or G att hnum hroot
  unfold readResult at hr
  simp only at hr
  by_cases h1 : st.focus.phi = 0
  · simp only [beq_iff_eq, h1, if_true] at hr
    split at hr <;> simp at hr
  · by_cases h2 : st.focus.delta = 0
    · simp only [beq_iff_eq, h1, h2, if_false, if_true] at hr
      split at hr
      · simp at hr
      · rename_i hdl
        have hdl' : st.depthLimited = false := by simpa using hdl
        exact hnum.disproof hdl' (by simp [Node.disproof, hor, h2])
    · simp only [beq_iff_eq, h1, h2, if_false] at hr
      split at hr
      · simp at hr
      · rename_i hdl
        have hdl' : st.depthLimited = false := by
          cases hd : st.depthLimited with
          | false => rfl
          | true => rw [hd, hr] at hdl; simp at hdl
        exact hnum.valueD hdl' hr

theorem readResult_move (st : St S M) (pos : S) (hroot : G.toMove pos = att)
    (ht : TreeOK G att st.depthLimited [] pos st.focus)
    (hr : (readResult st).1.result = .proven) (m : M) (hm : (readResult st).1.move = some m) :
    m ∈ G.moves pos ∧ ∃ s', G.apply pos m = some s' ∧ PlainWin G att s' := by
  rw [TreeOK_iff] at ht
  obtain ⟨hnum, hkids, _, _⟩ := ht
  have hor := root_or G att hnum hroot
  unfold readResult at hr hm
  simp only at hr hm
  by_cases h1 : st.focus.phi = 0
  · simp only [h1, beq_self_eq_true, if_true] at hm
    rcases foldl_pv_spec _ m none hm with h | ⟨c, hc, hcd, hcm⟩
    · exact absurd h (by simp)
    · obtain ⟨s', hco, htc⟩ := hkids c hc
      rw [TreeOK_iff] at htc
      have hca : c.isAnd = true := by rw [hco.2.2, hor]; rfl
      refine ⟨hcm ▸ hco.1, s', hcm ▸ hco.2.1, ?_⟩
      exact htc.1.proof (by simp [Node.proof, hca, hcd])
  · by_cases h2 : st.focus.delta = 0
    · simp only [beq_iff_eq, h1, h2, if_false, if_true] at hr
      split at hr <;> simp at hr
    · simp only [beq_iff_eq, h1, h2, if_false] at hm
      exact absurd hm (by simp)

end C06
