import TakVerif.Props.C12_legal
import TakVerif.Props.C04_selfplay

/-! `writeGame` of `taktician selfplay` (`Impl/CmdSelfplay.lean`): the `ptn.PTN` value it builds, as data for C12. -/
namespace Tak.CmdSelfplay
open Go (Bytes lit)
open _root_.PTN (File Op Tag movesOf)

theorem movesOf_append (a b : List Op) : movesOf (a ++ b) = movesOf a ++ movesOf b := by
  induction a with
  | nil => rfl
  | cons op a ih => cases op <;> simp [movesOf, ih]

theorem movesOf_clearSrc (ops : List Op) : movesOf (ops.map Op.clearSrc) = movesOf ops := by
  induction ops with
  | nil => rfl
  | cons op ops ih => cases op <;> simp [movesOf, Op.clearSrc, ih]

/-- the moves of the operations `writeGame` emits are the recorded moves -/
theorem movesOf_gameOps (start : Int) : ∀ (ms : List Move) (i : Nat), movesOf (gameOps start i ms) = ms
  | [], _ => rfl
  | m :: ms, i => by
    simp only [gameOps]
    split <;> simp [movesOf, movesOf_gameOps start ms (i + 1)]

/-- every operation of `gameOps` is a move number `ply/2 + 1` with `start ≤ ply < start + i + len` or a bare move of the list -/
theorem gameOps_mem (start : Int) : ∀ (ms : List Move) (i : Nat) (op : Op), op ∈ gameOps start i ms →
    (∃ n : Int, op = .moveNumber [] n ∧ ∃ ply : Int, start + i ≤ ply ∧ ply < start + i + ms.length ∧ n = ply.tdiv 2 + 1) ∨
    (∃ m ∈ ms, op = .move [] m [])
  | [], _, op, h => by simp [gameOps] at h
  | m :: ms, i, op, h => by
    simp only [gameOps, List.mem_append, List.mem_singleton] at h
    rcases h with (h | h) | h
    · left
      split at h
      · simp only [List.mem_singleton] at h
        exact ⟨_, h, start + i, by omega, by simp only [List.length_cons]; omega, rfl⟩
      · simp at h
    · right; exact ⟨m, by simp, h⟩
    · rcases gameOps_mem start ms (i + 1) op h with ⟨n, hn, ply, h1, h2, h3⟩ | ⟨m', hm', h'⟩
      · left; exact ⟨n, hn, ply, by push_cast at h1; omega, by simp only [List.length_cons]; push_cast at h2 ⊢; omega, h3⟩
      · right; exact ⟨m', by simp [hm'], h'⟩

/-- `ResultFromGame` returns one of five of the 25 result strings -/
theorem resultFromGame_match (p : Pos) (s : String) (h : p.resultFromGame = .ok s) :
    _root_.PTN.matchResult (lit s) = true ∧ (lit s).isEmpty = false := by
  unfold Pos.resultFromGame at h
  dsimp only at h
  split at h
  · cases h
  · split at h
    · cases h; exact ⟨by decide, by decide⟩
    · split at h
      · cases h; split <;> exact ⟨by decide, by decide⟩
      · cases h; split <;> exact ⟨by decide, by decide⟩

/-- the replay of `C04.applyAll` is the replay the PTN theorems use -/
theorem applyAll_eq_ptn (basis : Array W) : ∀ (ms : List Move) (p : Pos), C04.applyAll basis p ms = _root_.PTN.applyAll basis p ms
  | [], _ => rfl
  | m :: ms, p => by
    simp only [C04.applyAll, _root_.PTN.applyAll]
    cases p.apply basis m with
    | ok q => exact applyAll_eq_ptn basis ms q
    | error e => rfl

/-- the value `writeGame` builds: the tag list, and the operations -/
theorem gameFile_shape (p1 p2 : List Bytes) (r : Result) (f : File) (h : gameFile p1 p2 r = .ok f) :
    ∃ (res : Option Bytes) (tps : List Tag),
      f.tags = [⟨lit "Size", Go.itoa r.position.cfg.size⟩,
                ⟨lit "Player1", joinCmd (if r.spec.p1color == .white then p1 else p2)⟩,
                ⟨lit "Player2", joinCmd (if r.spec.p1color == .white then p2 else p1)⟩] ++
               (match res with | some s => [⟨lit "Result", s⟩] | none => []) ++ tps ∧
      f.ops = gameOps r.spec.opening.move 0 r.moves ++ (match res with | some s => [.result [] s] | none => []) ∧
      (∀ s, res = some s → _root_.PTN.matchResult s = true) ∧
      (res.isSome = r.position.gameOver.1) ∧
      ((r.spec.opening.move = 0 ∧ tps = []) ∨
       (r.spec.opening.move ≠ 0 ∧ ∃ t, TPS.formatTPS r.spec.opening = .ok t ∧ tps = [⟨lit "TPS", t⟩])) := by
  unfold gameFile at h
  cases hc : (r.spec.p1color == Color.white) <;> simp only [hc] at h ⊢
  all_goals
    split at h
    · cases h
    · rename_i result hres
      split at h
      · cases h
      · rename_i tt htt
        simp only [Except.ok.injEq] at h
        subst h
        have hT : (r.spec.opening.move = 0 ∧ tt = []) ∨
            (r.spec.opening.move ≠ 0 ∧ ∃ t, TPS.formatTPS r.spec.opening = .ok t ∧ tt = [⟨lit "TPS", t⟩]) := by
          split at htt
          · rename_i hm
            have hm' : r.spec.opening.move ≠ 0 := by simpa using hm
            split at htt
            · rename_i t ht; cases htt; exact .inr ⟨hm', t, ht, rfl⟩
            · cases htt
          · rename_i hm
            have hm' : r.spec.opening.move = 0 := by simpa using hm
            cases htt; exact .inl ⟨hm', rfl⟩
        split at hres
        · rename_i hov
          split at hres
          · rename_i s hs
            cases hres
            obtain ⟨hm, hne⟩ := resultFromGame_match _ s hs
            refine ⟨some (lit s), tt, by simp, ?_, ?_, by simp [hov], hT⟩
            · simp only [hne]; simp
            · intro s' hs'; cases hs'; exact hm
          · cases hres
        · rename_i hov
          cases hres
          exact ⟨none, tt, by simp, by simp, by simp, by simp [hov], hT⟩

end Tak.CmdSelfplay
