import TakVerif.Proofs.TPSWF

/-! C10: the round trip `ParseTPS (FormatTPS p)` for well-formed positions. -/
set_option linter.unusedSimpArgs false
namespace Tak.TPS
open Go Notation

theorem mask_getLsbD : ∀ n : Fin 9, 3 ≤ n.val → ∀ j : Fin 64,
    (((1#64 <<< (n.val * n.val)) - 1#64).getLsbD j.val) = decide (j.val < n.val * n.val) := by decide

theorem flatBoard_boardRows (p : Pos) :
    flatBoard (boardRows p) = (List.range (p.size * p.size)).map p.squareAt := by
  have hL : ∀ r ∈ (List.range p.size).map (rowOf p), r.length = p.size := by
    intro r hr
    obtain ⟨y, _, rfl⟩ := List.mem_map.mp hr
    simp [rowOf]
  have hflat : flatBoard (boardRows p) = ((List.range p.size).map (rowOf p)).flatten := by
    unfold flatBoard boardRows
    rw [← List.map_reverse, List.reverse_reverse]
  have hlen : (((List.range p.size).map (rowOf p)).flatten).length = p.size * p.size := by
    have : ∀ (L : List (List (List Piece))), (∀ r ∈ L, r.length = p.size) → L.flatten.length = L.length * p.size := by
      intro L hL
      induction L with
      | nil => simp
      | cons r L ih =>
        simp only [List.flatten_cons, List.length_append, List.length_cons]
        rw [ih (fun r' hr' => hL r' (by simp [hr'])), hL r (by simp), Nat.add_mul]; omega
    rw [this _ hL]; simp
  rw [hflat]
  apply List.ext_getElem
  · rw [hlen]; simp
  · intro j h1 h2
    have hj : j < p.size * p.size := by rw [hlen] at h1; exact h1
    have hn : 0 < p.size := by
      rcases Nat.eq_zero_or_pos p.size with h | h
      · rw [h] at hj; simp at hj
      · exact h
    have hx : j % p.size < p.size := Nat.mod_lt _ hn
    have hy : j / p.size < p.size := Nat.div_lt_of_lt_mul hj
    have hdecomp : j % p.size + j / p.size * p.size = j := by
      rw [Nat.mul_comm]; exact Nat.mod_add_div j p.size
    have := flatten_getD p.size ((List.range p.size).map (rowOf p)) hL (j % p.size) (j / p.size) [] hx (by simpa using hy)
    rw [hdecomp] at this
    rw [List.getD_eq_getElem?_getD, List.getElem?_eq_getElem h1, Option.getD_some] at this
    rw [this]
    simp only [List.getElem_map, List.getElem_range]
    have e1 : ((List.range p.size).map (rowOf p)).getD (j / p.size) [] = rowOf p (j / p.size) := by
      rw [List.getD_eq_getElem?_getD, List.getElem?_eq_getElem (by simpa using hy)]
      simp
    rw [e1]
    unfold rowOf
    rw [List.getD_eq_getElem?_getD, List.getElem?_eq_getElem (by simpa using hx)]
    simp only [List.getElem_map, List.getElem_range, Option.getD_some, hdecomp]

theorem wf_validRows (basis : Array W) (p : Pos) (h : TPSWF basis p) : ValidRows p.cfg.size (boardRows p) := by
  constructor
  · simp [boardRows, Pos.size]
  · intro r hr
    unfold boardRows at hr
    obtain ⟨y, hy, rfl⟩ := List.mem_map.mp hr
    have hy' : y < p.cfg.size := by simpa [Pos.size] using hy
    refine ⟨by simp [rowOf, Pos.size], ?_⟩
    intro sq hsq
    unfold rowOf at hsq
    obtain ⟨x, hx, rfl⟩ := List.mem_map.mp hsq
    have hx' : x < p.cfg.size := by simpa [Pos.size] using hx
    have hj : x + y * p.size < p.cfg.size * p.cfg.size := by
      unfold Pos.size
      calc x + y * p.cfg.size < p.cfg.size + y * p.cfg.size := by omega
        _ = (y + 1) * p.cfg.size := by rw [Nat.add_mul]; omega
        _ ≤ p.cfg.size * p.cfg.size := Nat.mul_le_mul_right _ (by omega)
    obtain ⟨_, _, _, _, _, _, hv, hl⟩ := wf_square basis p h _ hj
    exact ⟨hv, hl⟩

theorem board_getD (p : Pos) (j : Nat) :
    (flatBoard (boardRows p)).getD j [] = if j < p.size * p.size then p.squareAt j else [] := by
  rw [flatBoard_boardRows, List.getD_eq_getElem?_getD]
  split
  · rename_i hj
    rw [List.getElem?_eq_getElem (by simpa using hj)]
    simp
  · rename_i hj
    rw [List.getElem?_eq_none (by simpa using hj)]
    rfl

/-- bits outside the board are clear in a well-formed position -/
theorem wf_outside (basis : Array W) (p : Pos) (h : TPSWF basis p) (j : Nat) (hj : ¬ j < p.cfg.size * p.cfg.size) :
    p.white.getLsbD j = false ∧ p.black.getLsbD j = false ∧ p.standing.getLsbD j = false ∧ p.caps.getLsbD j = false := by
  by_cases h64 : j < 64
  · have hm := mask_getLsbD ⟨p.cfg.size, by have := h.n8; omega⟩ h.n3 ⟨j, h64⟩
    simp only [hj, decide_false] at hm
    have h1 := congrArg (fun x => x.getLsbD j) h.mask
    simp only [BitVec.getLsbD_and, BitVec.getLsbD_or, BitVec.getLsbD_not, hm, h64, decide_true, Bool.not_false,
      Bool.and_true, BitVec.getLsbD_zero, Bool.or_eq_false_iff] at h1
    have h2 := congrArg (fun x => x.getLsbD j) h.sub
    simp only [BitVec.getLsbD_and, BitVec.getLsbD_or, BitVec.getLsbD_not, h64, decide_true, Bool.true_and,
      BitVec.getLsbD_zero, h1.1, h1.2, Bool.or_self, Bool.not_false, Bool.and_true, Bool.or_eq_false_iff] at h2
    exact ⟨h1.1, h1.2, h2.1, h2.2⟩
  · have : 64 ≤ j := by omega
    exact ⟨BitVec.getLsbD_of_ge _ _ this, BitVec.getLsbD_of_ge _ _ this, BitVec.getLsbD_of_ge _ _ this,
      BitVec.getLsbD_of_ge _ _ this⟩

theorem fsPure_wf_bits (basis : Array W) (p : Pos) (h : TPSWF basis p) :
    let q := fsPure basis p.cfg.size (flatBoard (boardRows p)) p.move
    q.white = p.white ∧ q.black = p.black ∧ q.standing = p.standing ∧ q.caps = p.caps ∧
    (∀ j, j < p.cfg.size * p.cfg.size →
      q.height[j]?.getD 0 = p.height.getD j 0 ∧ q.stacks[j]?.getD 0 = p.stacks.getD j 0) := by
  have hlen := flatBoard_length p.cfg.size (boardRows p) (wf_validRows basis p h)
  have key : ∀ j, let q := fsPure basis p.cfg.size (flatBoard (boardRows p)) p.move
      q.white.getLsbD j = p.white.getLsbD j ∧ q.black.getLsbD j = p.black.getLsbD j ∧
      q.standing.getLsbD j = p.standing.getLsbD j ∧ q.caps.getLsbD j = p.caps.getLsbD j := by
    intro j
    obtain ⟨f1, f2, f3, f4, _⟩ := fsPure_fields basis p.cfg.size (flatBoard (boardRows p)) p.move hlen j
    simp only []
    rw [f1, f2, f3, f4, board_getD]
    by_cases hj : j < p.cfg.size * p.cfg.size
    · have hj64 : j < 64 := by
        have : p.cfg.size * p.cfg.size ≤ 8 * 8 := Nat.mul_le_mul h.n8 h.n8
        omega
      obtain ⟨w1, w2, w3, w4, _⟩ := wf_square basis p h j hj
      have hj' : j < p.size * p.size := hj
      simp only [hj', if_true, hj64, decide_true, Bool.true_and, w1, w2, w3, w4, and_self]
    · obtain ⟨o1, o2, o3, o4⟩ := wf_outside basis p h j hj
      have hj' : ¬ j < p.size * p.size := hj
      simp only [hj', if_false, headIs, Bool.and_false, o1, o2, o3, o4, and_self]
  refine ⟨?_, ?_, ?_, ?_, ?_⟩
  · exact BitVec.eq_of_getLsbD_eq (fun j _ => (key j).1)
  · exact BitVec.eq_of_getLsbD_eq (fun j _ => (key j).2.1)
  · exact BitVec.eq_of_getLsbD_eq (fun j _ => (key j).2.2.1)
  · exact BitVec.eq_of_getLsbD_eq (fun j _ => (key j).2.2.2)
  · intro j hj
    obtain ⟨_, _, _, _, f5, f6, _⟩ := fsPure_fields basis p.cfg.size (flatBoard (boardRows p)) p.move hlen j
    obtain ⟨_, _, _, _, w5, w6, _⟩ := wf_square basis p h j hj
    have hj' : j < p.size * p.size := hj
    rw [f5, f6, board_getD]
    simp only [hj', if_true]
    exact ⟨w5, w6⟩

theorem fsPure_wf_hash (basis : Array W) (p : Pos) (h : TPSWF basis p) :
    (fsPure basis p.cfg.size (flatBoard (boardRows p)) p.move).hash = p.hash := by
  have hv := wf_validRows basis p h
  have hlen := flatBoard_length p.cfg.size (boardRows p) hv
  obtain ⟨_, _, _, _, hhs⟩ := fsPure_wf_bits basis p h
  have hs : 0 + (flatBoard (boardRows p)).length ≤ (startPos p.cfg.size p.move).stacks.size := by
    simp [startPos, hlen]
  have := goPure_hash basis 0 (flatBoard (boardRows p)) (startPos p.cfg.size p.move) hs (by simp [startPos])
    p.height p.stacks
    (fun j _ hj => by
      rw [hlen] at hj
      rw [← Array.getD_eq_getD_getElem?, ← (hhs j (by omega)).1]; rfl)
    (fun j _ hj => by
      rw [hlen] at hj
      rw [← Array.getD_eq_getD_getElem?, ← (hhs j (by omega)).2]; rfl)
    (fun k hk he => by
      rw [hlen] at hk
      rw [board_getD] at he
      have hk' : k < p.size * p.size := hk
      simp only [hk', if_true] at he
      obtain ⟨_, _, _, _, w5, _⟩ := wf_square basis p h k hk
      rw [he] at w5
      simp only [Nat.zero_add]
      unfold hashAtRaw
      rw [← w5]
      simp)
  unfold fsPure
  rw [this, h.hash, hlen, List.range_eq_range']
  rfl

theorem add_right_cancel8 (a b c : U8) (h : a + c = b + c) : a = b := by
  have := congrArg (· - c) h
  simpa [BitVec.add_sub_cancel] using this

theorem fsPure_wf_reserves (basis : Array W) (p : Pos) (h : TPSWF basis p) :
    let q := fsPure basis p.cfg.size (flatBoard (boardRows p)) p.move
    q.whiteStones = p.whiteStones ∧ q.whiteCaps = p.whiteCaps ∧ q.blackStones = p.blackStones ∧ q.blackCaps = p.blackCaps := by
  have hboard : flatBoard (boardRows p) = (List.range (p.cfg.size * p.cfg.size)).map p.squareAt := flatBoard_boardRows p
  have hcount : ∀ c cap, countOn (fun pc => pc.color == c && ((pc.kind == .capstone) == cap)) (flatBoard (boardRows p)) =
      countPieces p c cap := by
    intro c cap
    rw [hboard]; unfold countOn countPieces
    rw [List.map_map]; rfl
  have gen : ∀ (fld : Pos → U8) (c : Color) (cap : Bool) (tot : Nat),
      (∀ p pc, fld (decReserve p pc) + (if (pc.color == c && ((pc.kind == .capstone) == cap)) then 1#8 else 0#8) = fld p) →
      (∀ (p : Pos) s, fld { p with stacks := s } = fld p) →
      (∀ i top p, fld (markTop i top p) = fld p) →
      (∀ i len p, fld (finishSq basis i len p) = fld p) →
      fld (startPos p.cfg.size p.move) = BitVec.ofNat 8 tot →
      (fld p).toNat + countPieces p c cap = tot →
      fld (fsPure basis p.cfg.size (flatBoard (boardRows p)) p.move) = fld p := by
    intro fld c cap tot h1 h2 h3 h4 h5 h6
    have := goPure_reserve basis fld _ h1 h2 h3 h4 0 (flatBoard (boardRows p)) (startPos p.cfg.size p.move)
    rw [hcount, h5, ← h6, BitVec.ofNat_add, BitVec.ofNat_toNat, BitVec.setWidth_eq] at this
    exact add_right_cancel8 _ _ _ this
  refine ⟨?_, ?_, ?_, ?_⟩
  · apply gen (·.whiteStones) .white false p.cfg.pieces
    · intro p pc; obtain ⟨c, k⟩ := pc; cases c <;> cases k <;> simp [decReserve, BitVec.sub_add_cancel]
    · intro p s; rfl
    · intro i top p; unfold markTop; cases top.color <;> cases top.kind <;> rfl
    · intro i len p; rfl
    · rw [h.pieces]; rfl
    · exact h.rws
  · apply gen (·.whiteCaps) .white true p.cfg.capstones
    · intro p pc; obtain ⟨c, k⟩ := pc; cases c <;> cases k <;> simp [decReserve, BitVec.sub_add_cancel]
    · intro p s; rfl
    · intro i top p; unfold markTop; cases top.color <;> cases top.kind <;> rfl
    · intro i len p; rfl
    · rw [h.capstones]; rfl
    · exact h.rwc
  · apply gen (·.blackStones) .black false p.cfg.pieces
    · intro p pc; obtain ⟨c, k⟩ := pc; cases c <;> cases k <;> simp [decReserve, BitVec.sub_add_cancel]
    · intro p s; rfl
    · intro i top p; unfold markTop; cases top.color <;> cases top.kind <;> rfl
    · intro i len p; rfl
    · rw [h.pieces]; rfl
    · exact h.rbs
  · apply gen (·.blackCaps) .black true p.cfg.capstones
    · intro p pc; obtain ⟨c, k⟩ := pc; cases c <;> cases k <;> simp [decReserve, BitVec.sub_add_cancel]
    · intro p s; rfl
    · intro i top p; unfold markTop; cases top.color <;> cases top.kind <;> rfl
    · intro i len p; rfl
    · rw [h.capstones]; rfl
    · exact h.rbc

/-- `analyze()` always returns (the flood fuel of the model never runs out).  Proved as
`Roads.analyze_ne_none` in the C02 package (`Proofs/Groups.lean`); taken as a hypothesis here so that the
two packages stay independent. -/
def AnalyzeTotal : Prop := ∀ p : Pos, p.analyze ≠ none

theorem wf_heightsOK (basis : Array W) (p : Pos) (h : TPSWF basis p) : HeightsOK p := by
  intro i hi htop
  obtain ⟨hocc, _, _⟩ := h.sq i hi
  unfold occupied at hocc
  rw [BitVec.getLsbD_or] at hocc
  unfold Pos.topAt at htop
  cases hw : p.white.getLsbD i <;> cases hb : p.black.getLsbD i <;>
    simp only [hw, hb, Bool.or_self, Bool.or_true, Bool.true_or, Bool.not_true, Bool.not_false, beq_eq_false_iff_ne,
      Bool.false_eq_true, if_false, if_true, Option.isSome_none, Option.isSome_some] at htop hocc <;>
    first | exact hocc | cases htop

/-- parsing the text of a valid board: `FromSquares` of the board, then `analyze()` -/
theorem parseTPS_rows (basis : Array W) (n : Nat) (rows : List (List (List Piece))) (mv : Int)
    (h3 : 3 ≤ n) (h8 : n ≤ 8) (hv : ValidRows n rows) (h0 : 0 ≤ mv) (h1 : mv ≤ maxInt64) :
    parseTPS basis (tpsText (rows.map rowText) mv) =
      (match (fsPure basis n (flatBoard rows) mv).analyze with
       | some q => .ok q
       | none => .error (.hang "analyze")) := by
  have hrow : ∀ r ∈ rows, r.length = rows.length ∧ ∀ sq ∈ r, ValidSq sq := by
    intro r hr
    obtain ⟨a, b⟩ := hv.2 r hr
    exact ⟨by rw [a, hv.1], fun sq hsq => (b sq hsq).1⟩
  rw [parseTPS_tpsText basis rows mv (by rw [hv.1]; exact h3) (by rw [hv.1]; exact h8) hrow h0 h1, hv.1]
  have e : (rows.reverse.map (fun r => r.map codes)).flatten = (flatBoard rows).map codes := by
    unfold flatBoard; rw [List.map_flatten]
  rw [e]
  exact fromSquares_eq basis n (flatBoard rows) mv h3 h8 (flatBoard_length n rows hv)
    (fun sq hsq => (flatBoard_mem n rows hv sq hsq).1.1)

theorem tps_roundtrip_core (basis : Array W) (p : Pos) (hA : AnalyzeTotal) (h : tpsHyp basis p = true) :
    ∃ s p', formatTPS p = .ok s ∧ parseTPS basis s = .ok p' ∧
      p'.equal p = true ∧ p'.hashOf = p.hashOf ∧
      p'.whiteStones = p.whiteStones ∧ p'.whiteCaps = p.whiteCaps ∧
      p'.blackStones = p.blackStones ∧ p'.blackCaps = p.blackCaps ∧
      p'.toMove = p.toMove ∧ p'.move = p.move := by
  have wf := tpsWF_of_hyp basis p h
  have hv := wf_validRows basis p wf
  have hlen := flatBoard_length p.cfg.size (boardRows p) hv
  refine ⟨tpsText ((boardRows p).map rowText) p.move, ?_⟩
  cases hq : (fsPure basis p.cfg.size (flatBoard (boardRows p)) p.move).analyze with
  | none => exact absurd hq (hA _)
  | some q' =>
    refine ⟨q', formatTPS_eq p (wf_heightsOK basis p wf), ?_, ?_⟩
    · rw [parseTPS_rows basis p.cfg.size (boardRows p) p.move wf.n3 wf.n8 hv wf.mv0 wf.mv1, hq]
    · obtain ⟨a1, a2, a3, a4, a5, a6, a7, a8, a9, a10, a11, a12, a13⟩ := analyze_fields _ _ hq
      obtain ⟨b1, b2, b3, b4, b5⟩ := fsPure_wf_bits basis p wf
      obtain ⟨r1, r2, r3, r4⟩ := fsPure_wf_reserves basis p wf
      have hh := fsPure_wf_hash basis p wf
      obtain ⟨_, _, _, _, _, _, f7, f8, f9, f10⟩ := fsPure_fields basis p.cfg.size (flatBoard (boardRows p)) p.move hlen 0
      have hmv : q'.move = p.move := by rw [a2, f8]
      have htm : q'.toMove = p.toMove := by unfold Pos.toMove; rw [hmv]
      refine ⟨?_, ?_, by rw [a10, r1], by rw [a11, r2], by rw [a12, r3], by rw [a13, r4], htm, hmv⟩
      · unfold Pos.equal
        simp only [Bool.and_eq_true, beq_iff_eq, List.all_eq_true, List.mem_range]
        refine ⟨⟨⟨⟨⟨⟨⟨?_, ?_⟩, ?_⟩, ?_⟩, ?_⟩, ?_⟩, htm⟩, ?_⟩
        · rw [a1, f7]; rfl
        · rw [a9, hh]
        · rw [a3, b1]
        · rw [a4, b2]
        · rw [a5, b3]
        · rw [a6, b4]
        · intro i hi
          rw [a7, f9] at hi
          obtain ⟨c1, c2⟩ := b5 i hi
          refine ⟨?_, ?_⟩
          · rw [a7, ← c1, Array.getD_eq_getD_getElem?]
          · rw [a8, ← c2, Array.getD_eq_getD_getElem?]
      · unfold Pos.hashOf
        simp only []
        rw [a9, hh, a3, b1, a4, b2, a5, b3, a6, b4, htm]


end Tak.TPS
