import TakVerif.Impl.GenEval
import TakVerif.Proofs.Popcount
import TakVerif.Proofs.GenSlices
import TakVerif.Props.C02_gen

/-! Bridge lemmas for `ai.CountThreats`: the hand-written model `Tak.countThreats` (`Impl/Evaluate.lean`: folds over
`prev ++ lowBits 64 singles`) equals the definition regenerated from `ai/evaluate.go` (`Generated/FuncsThreat.lean`: the
closure `countOne` with its three loops) for ALL constants and positions.  The regenerated inner `for { .. break .. }`
loop carries whitelist fuel `len(gs) + 65`; the lemmas show it suffices (every round either advances `j < i <= len(gs)`
or clears the lowest set bit of `s`, at most 64 times) and that the index read `gs[j]` never panics. -/
namespace GenThreat
open Tak Roads

/-! ### the single bits of a word -/

/-- `lowBits` does not depend on its fuel once the fuel covers the number of set bits -/
theorem lowBits_fuel : ∀ (n m : Nat) (s : W), cnt s ≤ n → cnt s ≤ m → lowBits n s = lowBits m s := by
  intro n
  induction n with
  | zero =>
    intro m s hn _
    have hs : s = 0#64 := cnt_eq_zero (by omega)
    subst hs
    cases m <;> simp [lowBits]
  | succ n ih =>
    intro m s hn hm
    by_cases hs : s = 0#64
    · subst hs; cases m <;> simp [lowBits]
    · have hc := cnt_and_pred s hs
      cases m with
      | zero => omega
      | succ m =>
        have hne : (s == 0#64) = false := by simpa using hs
        simp only [lowBits, hne, Bool.false_eq_true, if_false]
        rw [ih m _ (by omega) (by omega)]

theorem lowBits_succ (n : Nat) (s : W) (hs : s ≠ 0#64) :
    lowBits (n + 1) s = (s &&& ~~~(s &&& (s - 1#64))) :: lowBits n (s &&& (s - 1#64)) := by
  have hne : (s == 0#64) = false := by simpa using hs
  simp only [lowBits, hne, Bool.false_eq_true, if_false]

/-- unfolding `lowBits 64` at a non-zero word: the lowest set bit, then the bits of the rest -/
theorem lowBits_cons (s : W) (hs : s ≠ 0#64) :
    lowBits 64 s = (s &&& ~~~(s &&& (s - 1#64))) :: lowBits 64 (s &&& (s - 1#64)) := by
  have hc := cnt_and_pred s hs
  have h64 := cnt_le s
  rw [show lowBits 64 s = lowBits (63 + 1) s from rfl, lowBits_succ 63 s hs,
    lowBits_fuel 63 64 _ (by omega) (by omega)]

theorem lowBits_zero' (n : Nat) : lowBits n 0#64 = [] := by cases n <;> simp [lowBits]

theorem lowBits_zero : lowBits 64 0#64 = [] := lowBits_zero' 64

/-! ### the inner loop of `countOne` -/

/-- the edge test of the inner loop, in the shape the regenerated code has it -/
theorem opposed_unfold (c : Consts) (g other : W) :
    ((((((((g &&& c.L) != 0#64) && ((other &&& c.R) != 0#64))) || ((((g &&& c.R) != 0#64) && ((other &&& c.L) != 0#64)))) ||
      ((((g &&& c.B) != 0#64) && ((other &&& c.T) != 0#64)))) || ((((g &&& c.T) != 0#64) && ((other &&& c.B) != 0#64))))) =
    opposed c g other := rfl

/-- one round of the regenerated inner loop for the partner `other` is the model's `pairMaps` -/
theorem pair_step (c : Consts) (p : Pos) (empty pieces g other pm tm : W) :
    pairMaps c p empty pieces g (pm, tm) other =
      if (!opposed c g other) = true then (pm, tm)
      else (pm ||| ((Gen.grow c c.Mask g &&& Gen.grow c c.Mask other) &&& empty),
            tm ||| ((Gen.grow c c.Mask g &&& Gen.grow c c.Mask other) &&&
              Gen.grow c (c.Mask &&& ~~~(p.standing ||| p.caps)) (pieces &&& ~~~(g ||| other)))) := rfl

/-- the regenerated `for { .. break .. }` loop of `countOne`, started at group index `j` with single bits `s`: never
panics, never runs out of fuel `>= (i - j) + popcount s + 1`, and folds `pairMaps` over the groups `gs[j..i)` followed by
the single bits of `s`, lowest first - exactly the list the model folds over -/
theorem loop2_eq (c : Consts) (p : Pos) (empty pieces g : W) (gs : Array W) (i : Nat) (hi : i ≤ gs.size) :
    ∀ (fuel j : Nat) (pm s tm : W), j ≤ i → (i - j) + cnt s + 1 ≤ fuel →
      ∃ j' s', Gen.countThreats_countOne_loop2 c empty g gs (i : Int) p.caps p.standing pieces fuel ((j : Int), pm, s, tm) =
        some (j', (((gs.toList.take i).drop j ++ lowBits 64 s).foldl (pairMaps c p empty pieces g) (pm, tm)).1, s',
                  (((gs.toList.take i).drop j ++ lowBits 64 s).foldl (pairMaps c p empty pieces g) (pm, tm)).2) := by
  intro fuel
  induction fuel with
  | zero => intro j pm s tm _ h; omega
  | succ fuel ih =>
    intro j pm s tm hj hf
    unfold Gen.countThreats_countOne_loop2
    simp only [opposed_unfold]
    by_cases hlt : j < i
    · -- a group of the prefix
      have hd : (decide ((j : Int) < (i : Int))) = true := by simp; omega
      have hg : (!(decide ((0 : Int) ≤ (j : Int)) && decide ((j : Int) < Int.ofNat gs.size))) = false := by
        simp; omega
      have hjs : j < gs.size := by omega
      have hdrop : (gs.toList.take i).drop j = gs.getD j 0#64 :: (gs.toList.take i).drop (j + 1) := by
        have hlen : j < (gs.toList.take i).length := by simp; omega
        rw [List.drop_eq_getElem_cons hlen]
        congr 1
        simp [List.getElem_take, Array.getD, hjs]
      have hj1 : ((j : Int) + 1) = ((j + 1 : Nat) : Int) := by omega
      simp only [hd, hg, Bool.false_eq_true, if_false, if_true, Int.toNat_natCast, hj1]
      rw [hdrop, List.cons_append, List.foldl_cons, pair_step]
      generalize gs.getD j 0#64 = other
      cases hop : opposed c g other
      · simp only [Bool.not_false, if_true]
        exact ih (j + 1) pm s tm (by omega) (by omega)
      · simp only [Bool.not_true, Bool.false_eq_true, if_false]
        exact ih (j + 1) _ s _ (by omega) (by omega)
    · have hji : j = i := by omega
      subst hji
      have hd : (decide ((j : Int) < (j : Int))) = false := by simp
      have hdrop : (gs.toList.take j).drop j = [] := by simp
      simp only [hd, Bool.false_eq_true, if_false]
      rw [hdrop, List.nil_append]
      by_cases hs : s = 0#64
      · subst hs
        simp only [bne_self_eq_false, Bool.false_eq_true, if_false]
        rw [lowBits_zero]
        exact ⟨_, _, rfl⟩
      · have hne : (s != 0#64) = true := by simpa using hs
        have hc := cnt_and_pred s hs
        simp only [hne, if_true]
        rw [lowBits_cons s hs, List.foldl_cons, pair_step]
        have hrec := fun pm' tm' => ih j pm' (s &&& (s - 1#64)) tm' (by omega) (by omega)
        rw [hdrop] at hrec
        simp only [List.nil_append] at hrec
        generalize s &&& ~~~(s &&& (s - 1#64)) = other
        by_cases hop : opposed c g other = true
        · simp only [hop, Bool.not_true, Bool.false_eq_true, if_false]
          exact hrec _ _
        · have hop' : opposed c g other = false := by simpa using hop
          simp only [hop', Bool.not_false, if_true]
          exact hrec pm tm

/-! ### the outer loop -/

/-- the four `if g&c.X != 0` statements in front of the inner loop build the model's `edgeMaps` (stated for an arbitrary
continuation `k` of the two maps, in the shape of the regenerated text) -/
theorem edge_k {α : Type} (c : Consts) (p : Pos) (empty pieces g : W) (k : W → W → α) :
    (let pmap : BitVec 64 := 0#64
     let tmap : BitVec 64 := 0#64
     let slides : BitVec 64 := (Gen.grow c (c.Mask &&& ~~~((p.standing ||| p.caps))) (pieces &&& ~~~g))
     let (pmap, tmap) : (BitVec 64 × BitVec 64) :=
       if ((g &&& c.L) != 0#64) then
         let pmap : BitVec 64 := (pmap ||| ((((g >>> 1)) &&& empty) &&& c.R))
         let tmap : BitVec 64 := (tmap ||| ((((g >>> 1)) &&& slides) &&& c.R))
         (pmap, tmap)
       else
         (pmap, tmap)
     let (pmap, tmap) : (BitVec 64 × BitVec 64) :=
       if ((g &&& c.R) != 0#64) then
         let pmap : BitVec 64 := (pmap ||| ((((g <<< 1)) &&& empty) &&& c.L))
         let tmap : BitVec 64 := (tmap ||| ((((g <<< 1)) &&& slides) &&& c.L))
         (pmap, tmap)
       else
         (pmap, tmap)
     let (pmap, tmap) : (BitVec 64 × BitVec 64) :=
       if ((g &&& c.T) != 0#64) then
         let pmap : BitVec 64 := (pmap ||| ((((Gen.shr g (c.Size))) &&& empty) &&& c.B))
         let tmap : BitVec 64 := (tmap ||| ((((Gen.shr g (c.Size))) &&& slides) &&& c.B))
         (pmap, tmap)
       else
         (pmap, tmap)
     let (pmap, tmap) : (BitVec 64 × BitVec 64) :=
       if ((g &&& c.B) != 0#64) then
         let pmap : BitVec 64 := (pmap ||| ((((Gen.shl g (c.Size))) &&& empty) &&& c.T))
         let tmap : BitVec 64 := (tmap ||| ((((Gen.shl g (c.Size))) &&& slides) &&& c.T))
         (pmap, tmap)
       else
         (pmap, tmap)
     k pmap tmap) = k (edgeMaps c p empty pieces g).1 (edgeMaps c p empty pieces g).2 := by
  unfold edgeMaps slideMap
  simp only [Gen.shr_eq, Gen.shl_eq]

/-- sums of the two components of a list of maps -/
def sum1 (l : List (W × W)) : Int := ((l.map (fun m => popcount m.1)).sum : Nat)
def sum2 (l : List (W × W)) : Int := ((l.map (fun m => popcount m.2)).sum : Nat)

theorem sum1_cons (m : W × W) (l : List (W × W)) : sum1 (m :: l) = (popcount m.1 : Int) + sum1 l := by
  simp [sum1]
theorem sum2_cons (m : W × W) (l : List (W × W)) : sum2 (m :: l) = (popcount m.2 : Int) + sum2 l := by
  simp [sum2]

/-- the outer `for i, g := range gs` loop of `countOne`, entered at the suffix `rest` after the groups `prev`: never
`none`, and adds the popcounts of the model's `threatMapsAll prev rest` to the two counters -/
theorem loop1_eq (c : Consts) (p : Pos) (empty pieces singles : W) (gs : Array W) :
    ∀ (rest prev : List W) (place threat : Int), gs.toList = prev ++ rest →
      Gen.countThreats_countOne_loop1 c empty gs p.caps p.standing pieces singles rest (prev.length : Int) (place, threat) =
        some (place + sum1 (threatMapsAll c p empty pieces singles prev rest),
              threat + sum2 (threatMapsAll c p empty pieces singles prev rest)) := by
  intro rest
  induction rest with
  | nil => intro prev place threat _; simp [Gen.countThreats_countOne_loop1, threatMapsAll, sum1, sum2]
  | cons g rest ih =>
    intro prev place threat hgs
    have hnext : gs.toList = (prev ++ [g]) ++ rest := by simp [hgs]
    have hlen : ((prev.length : Int) + 1) = ((prev ++ [g]).length : Int) := by simp
    unfold Gen.countThreats_countOne_loop1 threatMapsAll
    by_cases he : (g &&& c.Edge == 0#64) = true
    · change (if (g &&& c.Edge == 0#64) = true then _ else _) = _
      rw [if_pos he, if_pos he, hlen]
      exact ih _ _ _ hnext
    · change (if (g &&& c.Edge == 0#64) = true then _ else _) = _
      rw [if_neg he, if_neg he]
      have hi : prev.length ≤ gs.size := by
        have : gs.size = (prev ++ g :: rest).length := by rw [← hgs]; simp
        rw [this]; simp
      have htake : (gs.toList.take prev.length).drop 0 = prev := by
        rw [hgs]; simp
      have hfuel : (prev.length - 0) + cnt singles + 1 ≤ gs.size + 65 := by
        have := cnt_le singles; omega
      obtain ⟨j', s', hrec⟩ := loop2_eq c p empty pieces g gs prev.length hi (gs.size + 65) 0
        (edgeMaps c p empty pieces g).1 singles (edgeMaps c p empty pieces g).2 (by omega) hfuel
      rw [htake] at hrec
      have hmaps : (prev ++ lowBits 64 singles).foldl (pairMaps c p empty pieces g)
          ((edgeMaps c p empty pieces g).1, (edgeMaps c p empty pieces g).2) = threatMaps c p empty pieces singles prev g := rfl
      rw [hmaps] at hrec
      refine (edge_k c p empty pieces g (fun pmap tmap =>
        match Gen.countThreats_countOne_loop2 c empty g gs (prev.length : Int) p.caps p.standing pieces (gs.size + 65)
            ((0 : Int), pmap, singles, tmap) with
        | none => none
        | some (_, pmap, _, tmap) =>
          Gen.countThreats_countOne_loop1 c empty gs p.caps p.standing pieces singles rest ((prev.length : Int) + 1)
            (place + Gen.popcount64 pmap, threat + Gen.popcount64 tmap))).trans ?_
      have h0 : ((0 : Nat) : Int) = 0 := rfl
      rw [h0] at hrec
      simp only [hrec, ← C02.popcount_is_source, hlen]
      rw [ih (prev ++ [g]) _ _ hnext, sum1_cons, sum2_cons]
      simp only [Int.add_assoc]

/-! ### `countOne`, `CountThreats` -/

theorem loop0_eq : ∀ (l : List W) (s : W),
    Gen.countThreats_countOne_loop0 l s = some (l.foldl (fun s g => s &&& ~~~g) s) := by
  intro l
  induction l with
  | nil => intro s; rfl
  | cons g l ih => intro s; simp only [Gen.countThreats_countOne_loop0, ih, List.foldl_cons]

/-- the closure `countOne` -/
theorem countOne_eq (c : Consts) (p : Pos) (gs : List W) (pieces : W) :
    Gen.countThreats_countOne c (c.Mask &&& ~~~(p.white ||| p.black)) p.caps p.standing gs.toArray pieces =
      some (((countOne c p gs pieces).1 : Int), ((countOne c p gs pieces).2 : Int)) := by
  unfold Gen.countThreats_countOne countOne
  have h1 := loop1_eq c p (c.Mask &&& ~~~(p.white ||| p.black)) pieces (gs.foldl (fun s g => s &&& ~~~g) pieces) gs.toArray
    gs [] 0 0 (by simp)
  have h0 : (((([] : List W).length : Nat) : Int)) = 0 := rfl
  rw [h0] at h1
  simp only [loop0_eq, h1, sum1, sum2, Int.zero_add]

/-- **`ai.CountThreats`**: for EVERY `Constants` value and EVERY position the regenerated function returns (never
`none`: the index read `gs[j]` stays inside the slice and the whitelist fuel of the inner loop suffices) and returns
the four counts of the hand-written model -/
theorem countThreats_eq (c : Consts) (p : Pos) :
    genCountThreats c p = some (((countThreats c p).wp : Int), ((countThreats c p).wt : Int),
      ((countThreats c p).bp : Int), ((countThreats c p).bt : Int)) := by
  unfold genCountThreats Gen.countThreats countThreats
  simp only [countOne_eq]

end GenThreat
