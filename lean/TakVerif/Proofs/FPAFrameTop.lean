import TakVerif.Proofs.FPAFrameGame

/-! The cairn opening evaluated through the frame theorem.

The first two plies (the free first stones) are enumerated as before (`fnode`, the body of `fcheck`); at
every state of ply 2 the evaluation is replaced by a look-up (`leaf`): the stones on the centre squares and
their neighbours (`keyOf`: a filter by a bit mask that is checked to cover `nearS`) must be the stones of an
entry of a table, and for every entry of the table the opening from the state with just these stones
(`stOfKey`) has been evaluated (`fcheck`).  `check_frame` carries the result over to the state itself. -/
set_option linter.unusedSimpArgs false
set_option linter.unusedVariables false
namespace Proofs.FPAFrame
open Tak Tak.FPA Spec Spec.FPA Proofs.FPA Proofs.FPAMini Proofs.FPAFast

abbrev Key := List (Nat × Square)

/-- the state at ply 2 with just the stones `key` on the board -/
def stOfKey (size : Nat) (key : Key) : St MB :=
  { rule := {}
    cur := { size := size, ply := 2, stones := key
             ws := Facts.defaultPieces.getD size 0 - 1, wc := Facts.defaultCaps.getD size 0
             bs := Facts.defaultPieces.getD size 0 - 1, bc := Facts.defaultCaps.getD size 0 }
    prev := some ({ size := size, ply := 1, stones := []
                    ws := Facts.defaultPieces.getD size 0, wc := Facts.defaultCaps.getD size 0
                    bs := Facts.defaultPieces.getD size 0, bc := Facts.defaultCaps.getD size 0 }, place 0 0)
    lastScripted := false }

/-- the stones on the squares of the mask -/
def keyOf (mask : Nat) (s : St MB) : Key := s.cur.stones.filter fun e => mask.testBit e.1

/-- a number to find a key by (nothing is claimed about it) -/
def hashKey (key : Key) : Nat :=
  key.foldl (fun a e => a * 200 + (e.1 + 1) * 2 + (match e.2 with | ⟨.white, _⟩ :: _ => 1 | _ => 0)) 0

/-- the state is one after the two first stones of a game on a board of this size -/
def shapeOK (size : Nat) (s : St MB) : Bool :=
  decide (s.rule = {}) && !s.lastScripted && decide (s.cur.size = size) && decide (s.cur.ply = 2) &&
  decide (s.cur.ws = Facts.defaultPieces.getD size 0 - 1) && decide (s.cur.wc = Facts.defaultCaps.getD size 0) &&
  decide (s.cur.bs = Facts.defaultPieces.getD size 0 - 1) && decide (s.cur.bc = Facts.defaultCaps.getD size 0) &&
  s.cur.stones.all (fun e => decide (e.2.length ≤ 1)) &&
  match s.prev with
  | some (p, _) => decide (p.size = size) && decide (p.ply = 1)
  | none => false

def leaf (size mask : Nat) (tab : List (Nat × Key)) (s : St MB) : Bool :=
  shapeOK size s &&
  match tab.find? (fun e => e.1 == hashKey (keyOf mask s)) with
  | some e => e.2 == keyOf mask s
  | none => false

theorem lookup_filter (p : Nat → Bool) (i : Nat) (hp : p i = true) : ∀ l : List (Nat × Square),
    lookup i (l.filter fun e => p e.1) = lookup i l := by
  intro l
  induction l with
  | nil => rfl
  | cons e rest ih =>
    obtain ⟨k, sq⟩ := e
    by_cases hk : p k = true
    · simp only [List.filter_cons, hk, if_true, lookup, ih]
    · have hne : ¬ k = i := by intro he; rw [he] at hk; exact hk hp
      simp only [List.filter_cons, hk, if_false, lookup, ih, hne, Bool.false_eq_true]

theorem lookup_len (i : Nat) : ∀ l : List (Nat × Square), (∀ e ∈ l, e.2.length ≤ 1) → (lookup i l).length ≤ 1 := by
  intro l
  induction l with
  | nil => intro _; simp [lookup]
  | cons e rest ih =>
    obtain ⟨k, sq⟩ := e
    intro h
    simp only [lookup]
    split
    · exact h (k, sq) (by simp)
    · exact ih (fun e he => h e (by simp [he]))

theorem get_len (b : MB) (i : Nat) (h : ∀ e ∈ b.stones, e.2.length ≤ 1) : (b.get i).length ≤ 1 := by
  unfold MB.get
  split
  · exact lookup_len i _ h
  · simp

theorem get_congr (b b' : MB) (hs : b.size = b'.size) (i : Nat) (hl : lookup i b.stones = lookup i b'.stones) :
    b.get i = b'.get i := by
  unfold MB.get; rw [hs, hl]

theorem cairnLegal_ply1 (r : Rule) (v : View) (m : Tak.Move) (h : v.ply = 1) : cairnLegal r v m = .ok (r, true) := by
  unfold cairnLegal
  rw [if_pos (Or.inr h)]

/-- a state of the right shape is related to the table state of its key -/
theorem sr_of_shape (size mask : Nat) (h4 : 4 ≤ size) (h64 : size ≤ 64)
    (hmask : ∀ a c : Nat, a < size → c < size → nearS size a c = true → mask.testBit (a + c * size) = true)
    (s : St MB) (h : shapeOK size s = true) : SR 4 s (stOfKey size (keyOf mask s)) := by
  unfold shapeOK at h
  simp only [Bool.and_eq_true, decide_eq_true_eq, Bool.not_eq_true', List.all_eq_true] at h
  obtain ⟨⟨⟨⟨⟨⟨⟨⟨⟨hr, hls⟩, hsz⟩, hply⟩, hws⟩, hwc⟩, hbs⟩, hbc⟩, hlow⟩, hprev⟩ := h
  have hlow' : ∀ e ∈ s.cur.stones, e.2.length ≤ 1 := hlow
  cases hp : s.prev with
  | none => rw [hp] at hprev; cases hprev
  | some ppm =>
    obtain ⟨p, pm⟩ := ppm
    rw [hp] at hprev
    simp only [Bool.and_eq_true, decide_eq_true_eq] at hprev
    refine ⟨hr, hls, ?_, by rw [hsz]; exact h4, by rw [hsz]; exact h64, by rw [hply]; decide, by rw [hply]; decide, ?_⟩
    · refine ⟨hsz, hply, hws, hwc, hbs, hbc, ?_, ?_⟩
      · intro a c ha hc hn
        rw [hsz] at ha hc hn ⊢
        have hm := hmask a c ha hc hn
        show s.cur.get (a + c * size) = (stOfKey size (keyOf mask s)).cur.get (a + c * size)
        have hl := lookup_filter (fun k => mask.testBit k) _ hm s.cur.stones
        exact get_congr _ _ hsz _ hl.symm
      · intro a c ha hc hn
        refine ⟨get_len _ _ hlow', get_len _ _ ?_⟩
        intro e he
        have : e ∈ s.cur.stones := by
          simp only [stOfKey, keyOf, List.mem_filter] at he
          exact he.1
        exact hlow' e this
    · refine ⟨p, pm, _, _, hp, rfl, by rw [hsz]; exact hprev.1, by rw [hply]; omega, ?_⟩
      intro r
      have e1 : (mview p).ply = 1 := hprev.2
      rw [cairnLegal_ply1 _ _ _ e1, cairnLegal_ply1 _ _ _ rfl]

/-- **a look-up that succeeds proves the state** -/
theorem leaf_sound (color : Color) (size mask : Nat) (tab : List (Nat × Key)) (h4 : 4 ≤ size) (h64 : size ≤ 64)
    (hmask : ∀ a c : Nat, a < size → c < size → nearS size a c = true → mask.testBit (a + c * size) = true)
    (htab : ∀ e ∈ tab, fcheck .cairn color 4 (stOfKey size e.2) = true)
    (s : St MB) (h : leaf size mask tab s = true) : check miniBoard FM .cairn color 4 s = true := by
  unfold leaf at h
  rw [Bool.and_eq_true] at h
  obtain ⟨hshape, hfind⟩ := h
  split at hfind
  · rename_i e he
    have hmem : e ∈ tab := List.mem_of_find?_eq_some he
    have hkey : e.2 = keyOf mask s := eq_of_beq hfind
    have hc := fcheck_check .cairn color 4 _ (htab e hmem)
    rw [hkey] at hc
    exact check_frame color 4 s _ (sr_of_shape size mask h4 h64 hmask s hshape) hc
  · cases hfind

/-! ### one level of the evaluator with an arbitrary continuation -/

section
variable (var : Variant) (color : Color)

/-- the body of `fcheck (n+1)` with `k` for `fcheck n` -/
def fnode (k : St MB → Bool) (s : St MB) : Bool :=
  match turn miniBoard var color s with
  | .error _ => false
  | .ok (_, .resign) => !s.lastScripted
  | .ok (r, .scripted m) =>
    match mstep s.cur (Spec.decode m) with
    | none => false
    | some q => succ FM r s.cur m q true k
  | .ok (r, _) =>
    (fastCands var r s.cur).all fun m =>
      !(accepted var r (mview s.cur) m) ||
      match mstep s.cur (Spec.decode m) with
      | none => true
      | some q => succ FM r s.cur m q false k

theorem fnode_check (n : Nat) (k : St MB → Bool)
    (hk : ∀ t, k t = true → check miniBoard FM var color n t = true) (s : St MB)
    (h : fnode var color k s = true) : check miniBoard FM var color (n+1) s = true := by
  unfold fnode at h
  unfold check
  cases ht : turn miniBoard var color s with
  | error e => simp [ht] at h
  | ok v =>
    obtain ⟨r, rep⟩ := v
    cases rep with
    | resign => simpa [ht] using h
    | scripted m =>
      simp only [ht] at h ⊢
      cases hs : miniBoard.step s.cur (Spec.decode m) with
      | none =>
        have hs' : mstep s.cur (Spec.decode m) = none := hs
        simp [hs'] at h
      | some q =>
        have hs' : mstep s.cur (Spec.decode m) = some q := hs
        simp only [hs', succ_eq] at h ⊢
        exact hk _ h
    | notMyTurn | search =>
      simp only [ht] at h ⊢
      rw [List.all_eq_true] at h ⊢
      intro m hm
      have hv : miniBoard.view s.cur = mview s.cur := rfl
      rw [hv]
      by_cases ha : accepted var r (mview s.cur) m = true
      · cases hs : miniBoard.step s.cur (Spec.decode m) with
        | none => simp
        | some q =>
          have hs' : mstep s.cur (Spec.decode m) = some q := hs
          simp only [ha, Bool.not_true, Bool.false_or, succ_eq]
          have hin := fast_complete var r s.cur m hm ha (by rw [hs']; rfl)
          have := h m hin
          simp only [ha, hs', Bool.not_true, Bool.false_or, succ_eq] at this
          exact hk _ this
      · simp [ha]

end

section
variable (var : Variant) (color : Color)

/-- `fnode` restricted, at a node where the move is free, to the candidates `sel` picks -/
def fnodeSel (sel : Tak.Move → Bool) (k : St MB → Bool) (s : St MB) : Bool :=
  match turn miniBoard var color s with
  | .error _ => false
  | .ok (_, .resign) => !s.lastScripted
  | .ok (r, .scripted m) =>
    match mstep s.cur (Spec.decode m) with
    | none => false
    | some q => succ FM r s.cur m q true k
  | .ok (r, _) =>
    (fastCands var r s.cur).all fun m =>
      !(sel m) || (!(accepted var r (mview s.cur) m) ||
      match mstep s.cur (Spec.decode m) with
      | none => true
      | some q => succ FM r s.cur m q false k)

/-- a node evaluated in two declarations: the candidates `sel` picks and the others -/
theorem fnode_of_sel (sel : Tak.Move → Bool) (k : St MB → Bool) (s : St MB)
    (h1 : fnodeSel var color sel k s = true) (h2 : fnodeSel var color (fun m => !sel m) k s = true) :
    fnode var color k s = true := by
  unfold fnodeSel at h1 h2
  unfold fnode
  cases ht : turn miniBoard var color s with
  | error e => simp [ht] at h1
  | ok v =>
    obtain ⟨r, rep⟩ := v
    cases rep with
    | resign => simpa [ht] using h1
    | scripted m => simpa [ht] using h1
    | notMyTurn | search =>
      simp only [ht] at h1 h2 ⊢
      rw [List.all_eq_true] at h1 h2 ⊢
      intro m hm
      have a1 := h1 m hm
      have a2 := h2 m hm
      cases hsel : sel m with
      | true => simpa [hsel] using a1
      | false => simpa [hsel] using a2

end

/-- the whole evaluation: the first two plies enumerated, the states of ply 2 looked up -/
def frameCheck (color : Color) (size mask : Nat) (tab : List (Nat × Key)) : Bool :=
  fnode .cairn color (fnode .cairn color (leaf size mask tab)) (minit size)

/-- `frameCheck` for the first stones on the rows below `c` … -/
def frameCheckLow (color : Color) (size mask : Nat) (tab : List (Nat × Key)) (c : Int) : Bool :=
  fnodeSel .cairn color (fun m => decide (m.y < c)) (fnode .cairn color (leaf size mask tab)) (minit size)

/-- … and on the other rows -/
def frameCheckHigh (color : Color) (size mask : Nat) (tab : List (Nat × Key)) (c : Int) : Bool :=
  fnodeSel .cairn color (fun m => !decide (m.y < c)) (fnode .cairn color (leaf size mask tab)) (minit size)

theorem frameCheck_of_halves (color : Color) (size mask : Nat) (tab : List (Nat × Key)) (c : Int)
    (h1 : frameCheckLow color size mask tab c = true) (h2 : frameCheckHigh color size mask tab c = true) :
    frameCheck color size mask tab = true :=
  fnode_of_sel .cairn color _ _ _ h1 h2

/-- the table entries evaluated -/
def tabOK (color : Color) (size : Nat) (tab : List (Nat × Key)) : Bool :=
  tab.all fun e => fcheck .cairn color 4 (stOfKey size e.2)

def maskOK (size mask : Nat) : Bool :=
  (List.range size).all fun c => (List.range size).all fun a => !(nearS size a c) || mask.testBit (a + c * size)

/-- **the cairn opening through the frame theorem** -/
theorem frame_sound (color : Color) (size mask : Nat) (tab : List (Nat × Key)) (h4 : 4 ≤ size) (h64 : size ≤ 64)
    (hmask : maskOK size mask = true) (htab : tabOK color size tab = true)
    (hroot : frameCheck color size mask tab = true) :
    check miniBoard FM .cairn color 6 (minit size) = true := by
  have hm : ∀ a c : Nat, a < size → c < size → nearS size a c = true → mask.testBit (a + c * size) = true := by
    intro a c ha hc hn
    unfold maskOK at hmask
    rw [List.all_eq_true] at hmask
    have h1 := hmask c (List.mem_range.2 hc)
    rw [List.all_eq_true] at h1
    have h2 := h1 a (List.mem_range.2 ha)
    rw [hn] at h2
    simpa using h2
  have ht : ∀ e ∈ tab, fcheck .cairn color 4 (stOfKey size e.2) = true := by
    unfold tabOK at htab
    rw [List.all_eq_true] at htab
    exact htab
  unfold frameCheck at hroot
  exact fnode_check .cairn color 5 _
    (fun t => fnode_check .cairn color 4 _ (fun u => leaf_sound color size mask tab h4 h64 hm ht u) t) _ hroot

theorem tabOK_append (color : Color) (size : Nat) (t1 t2 : List (Nat × Key))
    (h1 : tabOK color size t1 = true) (h2 : tabOK color size t2 = true) : tabOK color size (t1 ++ t2) = true := by
  unfold tabOK at *
  rw [List.all_append, h1, h2]; rfl

end Proofs.FPAFrame
