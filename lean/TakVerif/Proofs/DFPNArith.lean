import TakVerif.Impl.DFPN
import TakVerif.Proofs.C06Arith

/-! Arithmetic of `prove/dfpn.go`: `computePNs` (minimum of the children's δ, sum of the children's φ
clamped at `INFINITY`, in 32-bit arithmetic), the scan of `selectChild`, the thresholds it hands down. -/
namespace C06
open Tak Tak.PN Tak.DFPN

variable {S M : Type}

theorem infinity_toNat : DFPN.infinity.toNat = 2 ^ 30 := by decide

theorem u32_eq_inf_iff (a : UInt32) : a = DFPN.infinity ↔ a.toNat = 2 ^ 30 := by
  rw [← infinity_toNat]
  exact UInt32.toNat_inj.symm

theorem infinity_ne_zero : DFPN.infinity ≠ 0 := by decide

/-- one step of the loop of `computePNs` -/
def pnStep (out : PNs) (ch : Child S M) : PNs :=
  let d := out.delta + ch.data.bounds.phi
  let d := if d > DFPN.infinity then DFPN.infinity else d
  { phi := if ch.data.bounds.delta < out.phi then ch.data.bounds.delta else out.phi, delta := d }

theorem computePNs_eq (cs : List (Child S M)) :
    computePNs cs = cs.foldl pnStep { phi := DFPN.infinity, delta := 0 } := rfl

theorem pnStep_phi (out : PNs) (c : Child S M) :
    (pnStep out c).phi.toNat = min c.data.bounds.delta.toNat out.phi.toNat := by
  simp only [pnStep]
  split
  · rename_i h; rw [UInt32.lt_iff_toNat_lt] at h; omega
  · rename_i h; rw [UInt32.lt_iff_toNat_lt] at h; omega

theorem pnStep_delta (out : PNs) (c : Child S M) (ho : out.delta.toNat ≤ 2 ^ 30)
    (hc : c.data.bounds.phi.toNat ≤ 2 ^ 30) :
    (pnStep out c).delta.toNat = min (2 ^ 30) (out.delta.toNat + c.data.bounds.phi.toNat) := by
  simp only [pnStep]
  have hadd : (out.delta + c.data.bounds.phi).toNat = out.delta.toNat + c.data.bounds.phi.toNat := by
    rw [UInt32.toNat_add]; omega
  split
  · rename_i h
    rw [gt_iff_lt, UInt32.lt_iff_toNat_lt, hadd, infinity_toNat] at h
    rw [infinity_toNat]; omega
  · rename_i h
    rw [gt_iff_lt, UInt32.lt_iff_toNat_lt, hadd, infinity_toNat] at h
    rw [hadd]; omega

/-- φ of the result: the minimum of the start value and the children's δ -/
theorem fold_phi (cs : List (Child S M)) (out : PNs) :
    (cs.foldl pnStep out).phi.toNat ≤ out.phi.toNat ∧
    (∀ c ∈ cs, (cs.foldl pnStep out).phi.toNat ≤ c.data.bounds.delta.toNat) ∧
    ((cs.foldl pnStep out).phi.toNat = out.phi.toNat ∨
      ∃ c ∈ cs, (cs.foldl pnStep out).phi.toNat = c.data.bounds.delta.toNat) := by
  induction cs generalizing out with
  | nil => simp
  | cons c cs ih =>
    simp only [List.foldl_cons, List.mem_cons, forall_eq_or_imp, exists_eq_or_imp]
    obtain ⟨h1, h2, h3⟩ := ih (pnStep out c)
    have hp := pnStep_phi out c
    refine ⟨by omega, ⟨by omega, h2⟩, ?_⟩
    rcases h3 with h3 | ⟨c', hc', h3⟩
    · by_cases hlt : c.data.bounds.delta.toNat ≤ out.phi.toNat
      · right; left; omega
      · left; omega
    · right; right; exact ⟨c', hc', h3⟩

/-- δ of the result: the sum of the start value and the children's φ, clamped at `INFINITY` — as long as
no addend exceeds `INFINITY` (so that the 32-bit sum cannot wrap) -/
theorem fold_delta (cs : List (Child S M)) (out : PNs) (ho : out.delta.toNat ≤ 2 ^ 30)
    (hc : ∀ c ∈ cs, c.data.bounds.phi.toNat ≤ 2 ^ 30) :
    (cs.foldl pnStep out).delta.toNat ≤ 2 ^ 30 ∧
    out.delta.toNat ≤ (cs.foldl pnStep out).delta.toNat ∧
    (∀ c ∈ cs, c.data.bounds.phi.toNat ≤ (cs.foldl pnStep out).delta.toNat) ∧
    ((cs.foldl pnStep out).delta.toNat = 0 → out.delta.toNat = 0 ∧ ∀ c ∈ cs, c.data.bounds.phi.toNat = 0) ∧
    (out.delta.toNat = 0 → (∀ c ∈ cs, c.data.bounds.phi.toNat = 0) → (cs.foldl pnStep out).delta.toNat = 0) := by
  induction cs generalizing out with
  | nil => simp [ho]
  | cons c cs ih =>
    simp only [List.foldl_cons, List.mem_cons, forall_eq_or_imp] at hc ⊢
    have hd := pnStep_delta out c ho hc.1
    obtain ⟨h1, h2, h3, h4, h5⟩ := ih (pnStep out c) (by omega) hc.2
    refine ⟨h1, by omega, ⟨by omega, h3⟩, ?_, ?_⟩
    · intro hz
      obtain ⟨a, b⟩ := h4 hz
      exact ⟨by omega, by omega, b⟩
    · intro hz hall
      exact h5 (by have := hall.1; omega) hall.2

theorem computePNs_phi_le (cs : List (Child S M)) : (computePNs cs).phi.toNat ≤ 2 ^ 30 := by
  rw [computePNs_eq]
  have := (fold_phi cs { phi := DFPN.infinity, delta := 0 }).1
  simpa [infinity_toNat] using this

theorem computePNs_phi_zero (cs : List (Child S M)) :
    (computePNs cs).phi = 0 ↔ ∃ c ∈ cs, c.data.bounds.delta = 0 := by
  rw [computePNs_eq]
  obtain ⟨_, h2, h3⟩ := fold_phi cs { phi := DFPN.infinity, delta := 0 }
  constructor
  · intro h
    rw [u32_eq_zero_iff] at h
    rcases h3 with h3 | ⟨c, hc, h3⟩
    · rw [h] at h3; simp only [infinity_toNat] at h3; omega
    · exact ⟨c, hc, by rw [u32_eq_zero_iff]; omega⟩
  · rintro ⟨c, hc, hz⟩
    rw [u32_eq_zero_iff] at hz ⊢
    have := h2 c hc
    omega

/-- all children's δ = `INFINITY` ⇒ φ = `INFINITY` -/
theorem computePNs_phi_inf (cs : List (Child S M)) (h : ∀ c ∈ cs, c.data.bounds.delta = DFPN.infinity) :
    (computePNs cs).phi = DFPN.infinity := by
  rw [computePNs_eq]
  obtain ⟨_, _, h3⟩ := fold_phi cs { phi := DFPN.infinity, delta := 0 }
  rw [u32_eq_inf_iff]
  rcases h3 with h3 | ⟨c, hc, h3⟩
  · rw [h3]; exact infinity_toNat
  · rw [h3, ← u32_eq_inf_iff]; exact h c hc

theorem computePNs_delta (cs : List (Child S M)) (hc : ∀ c ∈ cs, c.data.bounds.phi.toNat ≤ 2 ^ 30) :
    (computePNs cs).delta.toNat ≤ 2 ^ 30 ∧
    (∀ c ∈ cs, c.data.bounds.phi.toNat ≤ (computePNs cs).delta.toNat) ∧
    ((computePNs cs).delta = 0 ↔ ∀ c ∈ cs, c.data.bounds.phi = 0) := by
  rw [computePNs_eq]
  obtain ⟨h1, _, h3, h4, h5⟩ := fold_delta cs { phi := DFPN.infinity, delta := 0 } (by decide) hc
  refine ⟨h1, h3, ?_⟩
  constructor
  · intro hz c hcm
    rw [u32_eq_zero_iff] at hz ⊢
    exact (h4 hz).2 c hcm
  · intro hall
    rw [u32_eq_zero_iff]
    exact h5 rfl (fun c hcm => (u32_eq_zero_iff _).mp (hall c hcm))

/-- the scan of `selectChild` returns the index of a child whose δ is below `INFINITY` and least -/
theorem selectScan_spec (all : List (Child S M)) :
    ∀ (cs : List (Child S M)) (i : Nat) (best : Option Nat) (d1 d2 : UInt32),
      all.drop i = cs → d1.toNat ≤ 2 ^ 30 →
      (∀ c, ∀ j, j < i → all[j]? = some c → d1.toNat ≤ c.data.bounds.delta.toNat) →
      (∀ b, best = some b → ∃ c, all[b]? = some c ∧ c.data.bounds.delta = d1 ∧ d1.toNat < 2 ^ 30) →
      ∀ b x y, selectScan cs i best d1 d2 = (some b, x, y) →
        ∃ c, all[b]? = some c ∧ c.data.bounds.delta.toNat < 2 ^ 30 ∧
          ∀ c' ∈ all, c.data.bounds.delta.toNat ≤ c'.data.bounds.delta.toNat := by
  intro cs
  induction cs with
  | nil =>
    intro i best d1 d2 hdrop hd1 hmin hbest b x y hrun
    simp only [selectScan, Prod.mk.injEq] at hrun
    obtain ⟨c, hc, hcd, hlt⟩ := hbest b hrun.1
    refine ⟨c, hc, by rw [hcd]; exact hlt, ?_⟩
    intro c' hc'
    obtain ⟨j, hj, hjc⟩ := List.getElem_of_mem hc'
    have hlen : all.length ≤ i := by
      have := congrArg List.length hdrop
      simp only [List.length_drop, List.length_nil] at this
      omega
    rw [hcd]
    exact hmin c' j (by omega) (by rw [List.getElem?_eq_getElem hj, hjc])
  | cons ch cs ih =>
    intro i best d1 d2 hdrop hd1 hmin hbest b x y hrun
    have hi : all[i]? = some ch := by
      have := congrArg (fun l => l[0]?) hdrop
      simpa using this
    have hdrop' : all.drop (i+1) = cs := by
      rw [← List.drop_drop, hdrop]; rfl
    simp only [selectScan] at hrun
    split at hrun
    · rename_i hlt
      rw [UInt32.lt_iff_toNat_lt] at hlt
      refine ih (i+1) (some i) _ _ hdrop' (by omega) ?_ ?_ b x y hrun
      · intro c j hj hjc
        by_cases hji : j = i
        · subst hji; rw [hi] at hjc; injection hjc with hjc; subst hjc; omega
        · have := hmin c j (by omega) hjc; omega
      · intro b' hb'
        injection hb' with hb'
        subst hb'
        exact ⟨ch, hi, rfl, by omega⟩
    · rename_i hnlt
      rw [UInt32.lt_iff_toNat_lt] at hnlt
      have hmin' : ∀ c, ∀ j, j < i + 1 → all[j]? = some c → d1.toNat ≤ c.data.bounds.delta.toNat := by
        intro c j hj hjc
        by_cases hji : j = i
        · subst hji; rw [hi] at hjc; injection hjc with hjc; subst hjc; omega
        · exact hmin c j (by omega) hjc
      split at hrun
      · exact ih (i+1) best _ _ hdrop' hd1 hmin' hbest b x y hrun
      · exact ih (i+1) best _ _ hdrop' hd1 hmin' hbest b x y hrun

theorem minU_le_left (a b : UInt32) : (minU a b).toNat ≤ a.toNat := by
  unfold minU; split
  · omega
  · rename_i h; rw [UInt32.lt_iff_toNat_lt] at h; omega

theorem minU_le_right (a b : UInt32) : (minU a b).toNat ≤ b.toNat := by
  unfold minU; split
  · rename_i h; rw [UInt32.lt_iff_toNat_lt] at h; omega
  · omega

/-- what `selectChild` returns: a child whose δ is least and below `INFINITY`; the δ-threshold handed
down is at most `INFINITY` -/
theorem selectChild_spec (scale : UInt32 → UInt32) (children : Array (Child S M)) (bounds pns : PNs)
    (best : Nat) (cb : PNs) (h : selectChild scale children bounds pns = .ok (best, cb)) :
    cb.delta.toNat ≤ 2 ^ 30 ∧
    ∃ c, children[best]? = some c ∧ c.data.bounds.delta.toNat < 2 ^ 30 ∧
      ∀ c' ∈ children.toList, c.data.bounds.delta.toNat ≤ c'.data.bounds.delta.toNat := by
  unfold selectChild at h
  split at h
  · cases h
  · rename_i b x delta2 hscan
    obtain ⟨c, hc, hlt, hmin⟩ := selectScan_spec children.toList children.toList 0 none DFPN.infinity DFPN.infinity
      rfl (by decide) (fun _ j hj => by omega) (fun _ hb => by cases hb) b x delta2 hscan
    have hc' : children[b]? = some c := by rw [← Array.getElem?_toList]; exact hc
    rw [hc'] at h
    simp only [Except.ok.injEq, Prod.mk.injEq] at h
    obtain ⟨hb, hcb⟩ := h
    subst hb
    subst hcb
    refine ⟨?_, c, hc', hlt, hmin⟩
    have h1 := minU_le_right bounds.phi (minU (maxU (delta2 + 1) (scale delta2)) DFPN.infinity)
    have h2 := minU_le_right (maxU (delta2 + 1) (scale delta2)) DFPN.infinity
    simp only [infinity_toNat] at h2
    show (minU bounds.phi (minU (maxU (delta2 + 1) (scale delta2)) DFPN.infinity)).toNat ≤ 2 ^ 30
    omega

end C06
