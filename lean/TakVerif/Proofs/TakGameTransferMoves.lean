import TakVerif.Proofs.TakGameTransfer
import TakVerif.Proofs.SearchAttainHist

/-! `C05.getMove_verdict` / `analyzeAll_verdict`, relativised to a domain of positions and moves (the pattern of
`Proofs/TakGameTransfer.lean`): the generic theorems are applied to the restricted game and carried over by the
simulation theorems (`getMove_sim`, `analyzeAll_sim`, `analyze_sim`). -/
namespace Search
open Tak (Err)

variable {P M : Type} [DecidableEq M]
variable {g : Game P M} {S : Nat → P → Prop} {IM : M → Prop}

/-- positions of the domain with the same hash have the same win-keeping moves (moves of the move domain) -/
def HashMovesOKOn (g : Game P M) (S0 : P → Prop) (IM : M → Prop) : Prop :=
  ∀ p q, S0 p → S0 q → g.hash p = g.hash q → ∀ m c, IM m → g.apply p m = .ok c → Loss g c →
    ∃ c', g.apply q m = .ok c' ∧ Loss g c'

omit [DecidableEq M] in
theorem keeps_restrict (hR : Restr g S IM) (hconst : ∀ k j p, S k p → S j p) {p' : {p // S 0 p}} {m : M}
    (h : Keeps (g.restrict (S 0) IM) p' m) : IM m ∧ ∃ c, g.apply p'.val m = .ok c ∧ Loss g c := by
  obtain ⟨c', hap, hl⟩ := h
  obtain ⟨him, hap'⟩ := restrict_apply_inv hap
  exact ⟨him, c'.val, hap', (loss_restrict hR c' (fun d => hconst _ _ _ c'.property)).mp hl⟩

omit [DecidableEq M] in
theorem keeps_of_restrict (hR : Restr g S IM) (hconst : ∀ k j p, S k p → S j p) {p' : {p // S 0 p}} {m : M} {c : P}
    (him : IM m) (hap : g.apply p'.val m = .ok c) (hl : Loss g c) : Keeps (g.restrict (S 0) IM) p' m := by
  have hc : S 0 c := hR.closed 0 _ _ _ (hconst _ _ _ p'.property) him hap
  exact ⟨⟨c, hc⟩, restrict_apply_ok him hap hc, (loss_restrict hR ⟨c, hc⟩ (fun d => hconst _ _ _ hc)).mpr hl⟩

omit [DecidableEq M] in
theorem hashMovesOK_restrict (hR : Restr g S IM) (hconst : ∀ k j p, S k p → S j p)
    (h : HashMovesOKOn g (S 0) IM) : HashMovesOK (g.restrict (S 0) IM) := by
  intro p q hpq m hk
  obtain ⟨him, c, hap, hl⟩ := keeps_restrict hR hconst hk
  obtain ⟨c', hap', hl'⟩ := h _ _ p.property q.property hpq m c him hap hl
  exact keeps_of_restrict hR hconst him hap' hl'

/-- a history of calls on the domain, read as a history of the original game -/
def callsVal (h : Calls {p // S 0 p} M) : Calls P M := h.map (fun x => (x.1, x.2.1.val, x.2.2))

omit [DecidableEq M] in
theorem calls_lift (h : Calls P M) (hh : ∀ x ∈ h, S 0 x.2.1) : ∃ h' : Calls {p // S 0 p} M, callsVal h' = h := by
  induction h with
  | nil => exact ⟨[], rfl⟩
  | cons c rest ih =>
    obtain ⟨h', e⟩ := ih (fun x hx => hh x (List.mem_cons_of_mem _ hx))
    refine ⟨(c.1, ⟨c.2.1, hh c (by simp)⟩, c.2.2) :: h', ?_⟩
    simp only [callsVal, List.map_cons] at e ⊢
    rw [e]

omit [DecidableEq M] in
theorem callsVal_mem {h' : Calls {p // S 0 p} M} {x : Entry × {p // S 0 p} × Oracle M} (hx : x ∈ h') :
    (x.1, x.2.1.val, x.2.2) ∈ callsVal h' := by
  unfold callsVal
  exact List.mem_map.mpr ⟨x, hx, rfl⟩

theorem callEntry_sim (hR : Restr g S IM) (cfg : Cfg) (hnn : cfg.opts.noNullMove = true) (k : Entry)
    (o : Oracle M) (hord : OrderOK o) (p' : {p // S 0 p}) (hk : S Facts.maxDepth p'.val)
    (s : Eng M) (hs : EngGood IM s) :
    Sim (callEntry (g.restrict (S 0) IM) cfg k o p' s) (callEntry g cfg k o p'.val s) (EngGood IM) := by
  cases k with
  | analyze =>
    obtain ⟨e, hsat⟩ := analyze_sim hR cfg hnn o hord p' hk s hs
    refine ⟨by simp only [callEntry]; rw [e], ?_⟩
    simp only [callEntry]
    exact sat_map_snd (Q := EngGood IM) (hsat.mono (fun _ h => h.2))
  | analyzeAll =>
    obtain ⟨e, hsat⟩ := analyzeAll_sim hR cfg hnn o hord p' hk s hs
    refine ⟨by simp only [callEntry]; rw [e], ?_⟩
    simp only [callEntry]
    exact sat_map_snd (Q := EngGood IM) hsat
  | getMove =>
    obtain ⟨e, hsat⟩ := getMove_sim hR cfg hnn o hord p' hk s hs
    refine ⟨by simp only [callEntry]; rw [e], ?_⟩
    simp only [callEntry]
    exact sat_map_snd (Q := EngGood IM) hsat

/-- histories of calls: the same final engine state, without foreign hints -/
theorem runEntries_sim (hR : Restr g S IM) (cfg : Cfg) (hnn : cfg.opts.noNullMove = true) :
    ∀ (h : Calls {p // S 0 p} M) (s : Eng M), (∀ x ∈ h, OrderOK x.2.2 ∧ S Facts.maxDepth x.2.1.val) → EngGood IM s →
      ∀ s2, runEntries g cfg (callsVal h) s = .ok s2 →
        runEntries (g.restrict (S 0) IM) cfg h s = .ok s2 ∧ EngGood IM s2 := by
  intro h
  induction h with
  | nil =>
    intro s _ hs s2 hr
    simp only [callsVal, List.map_nil, runEntries] at hr
    cases hr
    exact ⟨rfl, hs⟩
  | cons c rest ih =>
    intro s hh hs s2 hr
    obtain ⟨k, p', o⟩ := c
    obtain ⟨hord, hk⟩ := hh (k, p', o) (by simp)
    simp only [callsVal, List.map_cons, runEntries] at hr ⊢
    obtain ⟨e, hsat⟩ := callEntry_sim hR cfg hnn k o hord p' hk s hs
    rw [e]
    cases hc : callEntry g cfg k o p'.val s with
    | error err => rw [hc] at hr; cases hr
    | ok s1 =>
      rw [hc] at hr
      dsimp only at hr ⊢
      exact ih s1 (fun x hx => hh x (List.mem_cons_of_mem _ hx)) (hsat _ hc) s2 hr

/-- what the domain theorems ask of the game besides `Restr` / `RestrOK` (as in `verdict_sound_restr`) -/
structure DomOK (g : Game P M) (S : Nat → P → Prop) (IM : M → Prop) : Prop where
  inside : ∀ p, S 0 p → g.over p = false → -Facts.winThreshold ≤ g.eval p ∧ g.eval p ≤ Facts.winThreshold
  live : ∀ p, S 1 p → g.over p = false → kids g p ≠ []
  const : ∀ k j p, S k p → S j p
  hash : HashOKOn g (S 0)
  hashMoves : HashMovesOKOn g (S 0) IM

/-- `C05.getMove_verdict` on a domain whose rank is immaterial -/
theorem getMove_verdict_restr (hR : Restr g S IM) (hO : RestrOK g S IM) (hD : DomOK g S IM)
    {cfg : Cfg} (hpr : Precise cfg.opts) (hw : 0 ≤ cfg.randomizeWindow)
    (h : Calls P M) (hh : ∀ x ∈ h, OrderOK x.2.2 ∧ x.2.2.Monotone ∧ S 0 x.2.1)
    (p : P) (hp : S 0 p) (hov : g.over p = false) {o : Oracle M} (hord : OrderOK o)
    (s : Eng M) (h1 : runEntries g cfg h (Eng.new g cfg) = .ok s)
    (m : M) (s' : Eng M) (h2 : getMove g cfg o p s = .ok (m, s')) :
    EngGood IM s' ∧
    ∃ pv v st s1, analyze g cfg o p s = .ok ((pv, v, st), s1) ∧
      (v > Facts.winThreshold → Win g p ∧ IM m ∧ ∃ c, g.apply p m = .ok c ∧ Loss g c) ∧
      (v < -Facts.winThreshold → Loss g p) ∧
      (NoCancel o →
        (negamax g st.depth.toNat p > Facts.winThreshold →
          v > Facts.winThreshold ∧ IM m ∧ ∃ c, g.apply p m = .ok c ∧ Loss g c) ∧
        (negamax g st.depth.toNat p < -Facts.winThreshold → v < -Facts.winThreshold)) := by
  obtain ⟨h', e⟩ := calls_lift (S := S) h (fun x hx => (hh x hx).2.2)
  subst e
  have hh' : ∀ x ∈ h', OrderOK x.2.2 ∧ S Facts.maxDepth x.2.1.val := by
    intro x hx
    have := hh _ (callsVal_mem hx)
    exact ⟨this.1, hD.const _ _ _ this.2.2⟩
  obtain ⟨e1, hgood⟩ := runEntries_sim hR cfg hpr.nn h' _ hh' (engGood_new hR cfg) s h1
  obtain ⟨e2, hsat2⟩ := getMove_sim hR cfg hpr.nn o hord ⟨p, hp⟩ (hD.const _ _ _ hp) s hgood
  obtain ⟨e3, _⟩ := analyze_sim hR cfg hpr.nn o hord ⟨p, hp⟩ (hD.const _ _ _ hp) s hgood
  have hgen := getMove_core (gameOK_restrict hR hO)
    (evalOK_restrict hR hD.inside (fun p hp => hD.const _ _ _ hp) hD.live) (hashOK_restrict hR hD.const hD.hash)
    (hashMovesOK_restrict hR hD.const hD.hashMoves) hpr hw h'
    (fun x hx => ⟨(hh' x hx).1, (hh _ (callsVal_mem hx)).2.1⟩) ⟨p, hp⟩ hov hord s e1 m s' (by rw [e2]; exact h2)
  obtain ⟨pv, v, st, s1, ha, hwin, hloss, hcomp⟩ := hgen
  rw [e3] at ha
  have hall : ∀ d, S d p := fun d => hD.const _ _ _ hp
  refine ⟨hsat2 _ h2, pv, v, st, s1, ha, ?_, ?_, ?_⟩
  · intro hv
    obtain ⟨h3, h4⟩ := hwin hv
    obtain ⟨him, c, hap, hl⟩ := keeps_restrict hR hD.const h4
    exact ⟨(win_restrict hR ⟨p, hp⟩ hall).mp h3, him, c, hap, hl⟩
  · intro hv
    exact (loss_restrict hR ⟨p, hp⟩ hall).mp (hloss hv)
  · intro hnc
    obtain ⟨h5, h6⟩ := hcomp hnc
    rw [negamax_restrict hR _ ⟨p, hp⟩ (hall _)] at h5 h6
    refine ⟨?_, h6⟩
    intro hn
    obtain ⟨h7, h8⟩ := h5 hn
    obtain ⟨him, c, hap, hl⟩ := keeps_restrict hR hD.const h8
    exact ⟨h7, him, c, hap, hl⟩

/-- `C05.analyzeAll_verdict` on a domain whose rank is immaterial -/
theorem analyzeAll_verdict_restr (hR : Restr g S IM) (hO : RestrOK g S IM) (hD : DomOK g S IM)
    {cfg : Cfg} (hpr : Precise cfg.opts) (hw : 0 ≤ cfg.randomizeWindow)
    (h : Calls P M) (hh : ∀ x ∈ h, OrderOK x.2.2 ∧ x.2.2.Monotone ∧ S 0 x.2.1)
    (p : P) (hp : S 0 p) (hov : g.over p = false) {o : Oracle M} (hord : OrderOK o)
    (s : Eng M) (h1 : runEntries g cfg h (Eng.new g cfg) = .ok s)
    (lines : List (List M)) (v : Int) (st : Stats) (s' : Eng M)
    (h2 : analyzeAll g cfg o p s = .ok ((lines, v, st), s')) :
    EngGood IM s' ∧
    (∃ pv s1, analyze g cfg o p s = .ok ((pv, v, st), s1)) ∧
    (v > Facts.winThreshold → Win g p ∧
      ∀ l ∈ lines, ∃ m rest c, l = m :: rest ∧ IM m ∧ g.apply p m = .ok c ∧ Loss g c) ∧
    (v < -Facts.winThreshold → Loss g p) ∧
    (NoCancel o →
      (negamax g st.depth.toNat p > Facts.winThreshold → v > Facts.winThreshold) ∧
      (negamax g st.depth.toNat p < -Facts.winThreshold → v < -Facts.winThreshold)) := by
  obtain ⟨h', e⟩ := calls_lift (S := S) h (fun x hx => (hh x hx).2.2)
  subst e
  have hh' : ∀ x ∈ h', OrderOK x.2.2 ∧ S Facts.maxDepth x.2.1.val := by
    intro x hx
    have := hh _ (callsVal_mem hx)
    exact ⟨this.1, hD.const _ _ _ this.2.2⟩
  obtain ⟨e1, hgood⟩ := runEntries_sim hR cfg hpr.nn h' _ hh' (engGood_new hR cfg) s h1
  obtain ⟨e2, hsat2⟩ := analyzeAll_sim hR cfg hpr.nn o hord ⟨p, hp⟩ (hD.const _ _ _ hp) s hgood
  obtain ⟨e3, _⟩ := analyze_sim hR cfg hpr.nn o hord ⟨p, hp⟩ (hD.const _ _ _ hp) s hgood
  have hgen := analyzeAll_core (gameOK_restrict hR hO)
    (evalOK_restrict hR hD.inside (fun p hp => hD.const _ _ _ hp) hD.live) (hashOK_restrict hR hD.const hD.hash)
    (hashMovesOK_restrict hR hD.const hD.hashMoves) hpr hw h'
    (fun x hx => ⟨(hh' x hx).1, (hh _ (callsVal_mem hx)).2.1⟩) ⟨p, hp⟩ hov hord s e1 lines v st s'
    (by rw [e2]; exact h2)
  obtain ⟨⟨pv, s1, ha⟩, hwin, hloss, hcomp⟩ := hgen
  rw [e3] at ha
  have hall : ∀ d, S d p := fun d => hD.const _ _ _ hp
  refine ⟨hsat2 _ h2, ⟨pv, s1, ha⟩, ?_, ?_, ?_⟩
  · intro hv
    obtain ⟨h3, h4⟩ := hwin hv
    refine ⟨(win_restrict hR ⟨p, hp⟩ hall).mp h3, ?_⟩
    intro l hl
    obtain ⟨m, rest, e, hk⟩ := h4 l hl
    obtain ⟨him, c, hap, hlc⟩ := keeps_restrict hR hD.const hk
    exact ⟨m, rest, c, e, him, hap, hlc⟩
  · intro hv
    exact (loss_restrict hR ⟨p, hp⟩ hall).mp (hloss hv)
  · intro hnc
    obtain ⟨h5, h6⟩ := hcomp hnc
    rw [negamax_restrict hR _ ⟨p, hp⟩ (hall _)] at h5 h6
    exact ⟨h5, h6⟩

end Search
