import TakVerif.Proofs.Hash
import TakVerif.Proofs.CellOps

/-! Well-formedness of the bit-level position, and the abstraction `Spec.abs` seen through cells. -/
namespace Tak

/-- the static part: configuration, constants, array lengths -/
structure Frame (p : Pos) : Prop where
  size_ge : 3 ≤ p.cfg.size
  size_le : p.cfg.size ≤ 8
  consts : p.c = Gen.precompute p.cfg.size
  height_size : p.height.size = p.cfg.size * p.cfg.size
  stacks_size : p.stacks.size = p.cfg.size * p.cfg.size

/-- **Well-formedness of a position** (for a given Zobrist basis table, any table):
size ∈ 3..8, `c = Precompute(size)`, `len(Height) = len(Stacks) = size²`, every square is consistent
(`Cell.WF`: White∩Black = ∅, Standing∩Caps = ∅, Standing∪Caps ⊆ White∪Black, Height = 0 ↔ empty, Height ≤ 64,
Stacks has no bit at or above Height−1), the hash field is the from-scratch fold, the ply counter is ≥ 0.
That the boards have no bit outside the `size²` mask follows (`WF.mask`). -/
structure WF (basis : Array W) (p : Pos) : Prop extends Frame p where
  cell : ∀ j, (p.cell j).WF
  hash : HashOK basis p
  move_nonneg : 0 ≤ p.move

theorem Frame.n_le {p : Pos} (h : Frame p) : p.cfg.size * p.cfg.size ≤ 64 := by
  have := Nat.mul_le_mul h.size_le h.size_le
  omega

/-- cells outside the board are empty -/
theorem WF.mask {basis : Array W} {p : Pos} (h : WF basis p) (j : Nat) (hj : p.cfg.size * p.cfg.size ≤ j) :
    p.white.getLsbD j = false ∧ p.black.getLsbD j = false ∧ p.standing.getLsbD j = false ∧ p.caps.getLsbD j = false := by
  have hc := h.cell j
  have h0 : (p.cell j).h = 0#8 := by
    simp only [Pos.cell]
    rw [getD_oob _ _ _ (by rw [h.height_size]; exact hj)]; rfl
  have ⟨hw, hb⟩ := hc.h_zero.1 h0
  have hs : (p.cell j).s = false := by
    cases hs : (p.cell j).s
    · rfl
    · have := hc.kind_occ (.inl hs); simp [hw, hb] at this
  have hcp : (p.cell j).c = false := by
    cases hs : (p.cell j).c
    · rfl
    · have := hc.kind_occ (.inr hs); simp [hw, hb] at this
  exact ⟨hw, hb, hs, hcp⟩

/-! ### the requested word-level readings of `WF` -/

theorem WF.white_black_disjoint {basis : Array W} {p : Pos} (h : WF basis p) : p.white &&& p.black = 0#64 := by
  apply BitVec.eq_of_getLsbD_eq
  intro j _
  have := (h.cell j).wb
  simp only [Pos.cell] at this
  rw [BitVec.getLsbD_and]
  cases hw : p.white.getLsbD j <;> cases hb : p.black.getLsbD j <;> simp_all

theorem WF.standing_caps_disjoint {basis : Array W} {p : Pos} (h : WF basis p) : p.standing &&& p.caps = 0#64 := by
  apply BitVec.eq_of_getLsbD_eq
  intro j _
  have := (h.cell j).sc
  simp only [Pos.cell] at this
  rw [BitVec.getLsbD_and]
  cases hw : p.standing.getLsbD j <;> cases hb : p.caps.getLsbD j <;> simp_all

theorem WF.kinds_sub {basis : Array W} {p : Pos} (h : WF basis p) :
    (p.standing ||| p.caps) &&& ~~~(p.white ||| p.black) = 0#64 := by
  apply BitVec.eq_of_getLsbD_eq
  intro j hj
  have := (h.cell j).kind_occ
  simp only [Pos.cell] at this
  simp only [BitVec.getLsbD_and, BitVec.getLsbD_or, BitVec.getLsbD_not, hj, decide_true, Bool.true_and]
  cases hs : p.standing.getLsbD j <;> cases hc : p.caps.getLsbD j <;>
    cases hw : p.white.getLsbD j <;> cases hb : p.black.getLsbD j <;> simp_all

theorem WF.stacks_lt {basis : Array W} {p : Pos} (h : WF basis p) (j : Nat) :
    (p.stacks.getD j 0).toNat < 2 ^ ((p.height.getD j 0).toNat - 1) := by
  have := (h.cell j).st_hi
  simp only [Pos.cell] at this
  apply Nat.lt_pow_two_of_testBit
  intro k hk
  exact this k hk

/-! ### abstraction -/

theorem abs_squares_getD (p : Pos) (j : Nat) (hj : j < p.cfg.size * p.cfg.size) :
    (Spec.abs p).squares.getD j [] = (p.cell j).square := by
  simp only [Spec.abs, List.getD_eq_getElem?_getD, List.getElem?_map, List.getElem?_range hj, Option.map_some,
    Option.getD_some, squareAt_cell]

theorem abs_squares_length (p : Pos) : (Spec.abs p).squares.length = p.cfg.size * p.cfg.size := by
  simp [Spec.abs]

/-- two positions with the same scalars and the same cells on the board have the same abstraction -/
theorem abs_congr {p q : Pos} (hc : q.cfg = p.cfg) (hm : q.move = p.move)
    (h1 : q.whiteStones = p.whiteStones) (h2 : q.whiteCaps = p.whiteCaps)
    (h3 : q.blackStones = p.blackStones) (h4 : q.blackCaps = p.blackCaps)
    (hcell : ∀ j, q.cell j = p.cell j) : Spec.abs q = Spec.abs p := by
  unfold Spec.abs
  rw [hc, hm, h1, h2, h3, h4]
  congr 1
  apply List.map_congr_left
  intro j _
  rw [squareAt_cell, squareAt_cell, hcell]

theorem finish_cell {p q : Pos} (h : finish p = .ok q) (j : Nat) : q.cell j = p.cell j := by
  rw [finish_ok h]; rfl

theorem abs_finish {p q : Pos} (h : finish p = .ok q) : Spec.abs q = Spec.abs p := by
  apply abs_congr <;> first | (intro j; exact finish_cell h j) | (rw [finish_ok h])

theorem WF.finish {basis : Array W} {p q : Pos} (hp : WF basis p) (h : finish p = .ok q) : WF basis q := by
  have hq := finish_ok h
  refine { size_ge := ?_, size_le := ?_, consts := ?_, height_size := ?_, stacks_size := ?_, cell := ?_, hash := ?_, move_nonneg := ?_ }
  · rw [hq]; exact hp.size_ge
  · rw [hq]; exact hp.size_le
  · rw [hq]; exact hp.consts
  · rw [hq]; exact hp.height_size
  · rw [hq]; exact hp.stacks_size
  · intro j; rw [finish_cell h]; exact hp.cell j
  · rw [hq]; exact hp.hash.congr rfl rfl rfl
  · rw [hq]; exact hp.move_nonneg

end Tak
