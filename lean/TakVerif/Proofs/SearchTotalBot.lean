import TakVerif.Proofs.BotMovesCompose

/-! `Compose.minv_composed_step` relativised to the searching player's invariant (helper for `Props/C07_compose3.lean`). -/
namespace Tak.Compose
open Tak Tak.Bot Tak.Glue Tak.FPA

variable {σ χ : Type}

/-- `minv_composed_step` for a searching player that never answers the pass **from a state satisfying its invariant `G`**
(the alpha-beta model: from `EngInv` states) — one composed step keeps the record's moves placements and slides -/
theorem minv_composed_step_on {c : Conf} {S : Searcher σ χ} {G : σ → Prop} {A : Pos → Prop} {s : St σ χ}
    (hSP : ∀ x p e m e', A p → G e → S.run x p e = .ok (m, e') → m.type ≠ Facts.mtPass)
    (hApos : ∀ call, s.inside = some call → A call.pos)
    (h : CInv c S G s) (hM : MInv s.b) (e : Ev χ) (he : EvNoPass e) : MInv (step c S s e).b := by
  unfold step
  split
  · exact hM
  · cases e with
    | deliver bits parsed =>
      refine minv_step c.bot hM (.deliver bits parsed c.acceptUndo) ?_
      cases parsed with
      | none => trivial
      | some m => exact he
    | close => exact minv_step c.bot hM .close trivial
    | timerFires => exact minv_step c.bot hM .timerFires trivial
    | enter k chk =>
      dsimp only
      unfold enter
      split
      · exact hM
      · split
        · exact hM
        · split
          · exact minv_aiReturns c.bot (minv_grant c.bot hM k) k _ zeroMove_not_pass
          · split
            · exact minv_grant c.bot hM k
            · split
              · exact minv_grant c.bot hM k
              · exact minv_grant c.bot hM k
    | leave k x =>
      dsimp only
      unfold leave
      split
      · exact hM
      · rename_i call hin
        have hcall : CallOK c call := h.calls call (h.inside call hin).1
        split
        · exact hM
        · split
          · exact hM
          · split
            · exact hM
            · split
              · split
                · exact minv_aiReturns c.bot hM _ _ zeroMove_not_pass
                · exact hM
              · exact minv_aiReturns c.bot hM _ _ zeroMove_not_pass
              · rename_i m hact
                refine minv_aiReturns c.bot hM _ _ ?_
                unfold CallOK at hcall
                rw [hact] at hcall
                exact glueOn_move_not_pass hcall
              · split
                · exact hM
                · rename_i m eng' hrun
                  exact minv_aiReturns c.bot hM _ _ (hSP _ _ _ _ _ (hApos call hin) h.eng hrun)

end Tak.Compose
