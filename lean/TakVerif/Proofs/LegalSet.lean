import TakVerif.Proofs.AllMovesSound

/-! # The legal move set (C03, part 5)

`AllMoves` filtered by legality = the legal moves, each once; and it is a permutation of the
rule-book enumeration `Spec.legalMoves` (all shapes filtered through `Spec.step`) that the
correspondence check compares with Go's "AllMoves filtered by Move". -/
namespace Tak.Proofs
open Tak Spec

/-- legality by the rule book, as a test on raw move values -/
def legal (p : Pos) (m : Move) : Bool := (step (abs p) (decode m)).isSome

theorem legal_iff (p : Pos) (m : Move) : legal p m = true ↔ step (abs p) (decode m) ≠ none := by
  unfold legal; cases step (abs p) (decode m) <;> simp

theorem legal_of_equal (p : Pos) (m1 m2 : Move) (he : m1.equal m2 = true) : legal p m1 = legal p m2 := by
  unfold legal; rw [decode_eq_of_equal m1 m2 he]

theorem equal_fields (m1 m2 : Move) (h : m1.equal m2 = true) :
    m1.x = m2.x ∧ m1.y = m2.y ∧ m1.type = m2.type ∧ (m1.isSlide = true → m1.slides = m2.slides) := by
  unfold Move.equal at h
  by_cases hxy : m1.x ≠ m2.x ∨ m1.y ≠ m2.y
  · simp [hxy] at h
  simp only [hxy, if_false] at h
  by_cases ht : m1.type ≠ m2.type
  · simp [ht] at h
  simp only [ht, if_false] at h
  refine ⟨by omega, by omega, by omega, ?_⟩
  intro hs
  simpa [hs] using h

theorem equal_of_fields (m1 m2 : Move) (hx : m1.x = m2.x) (hy : m1.y = m2.y) (ht : m1.type = m2.type)
    (hs : m1.isSlide = true → m1.slides = m2.slides) : m1.equal m2 = true := by
  unfold Move.equal
  simp only [hx, hy, ht, ne_eq, not_true_eq_false, or_self, if_false]
  cases h : m1.isSlide
  · simp
  · simp [hs h]

/-- two generated moves `Equal` to the same move are the same list entry -/
theorem allMoves_equal_unique (p : Pos) (m1 m2 m : Move) (h1 : m1 ∈ p.allMoves) (h2 : m2 ∈ p.allMoves)
    (e1 : m1.equal m = true) (e2 : m2.equal m = true) : m1 = m2 := by
  apply allMoves_equal_eq p m1 m2 h1 h2
  obtain ⟨x1, y1, t1, s1⟩ := equal_fields _ _ e1
  obtain ⟨x2, y2, t2, s2⟩ := equal_fields _ _ e2
  apply equal_of_fields _ _ (by omega) (by omega) (by omega)
  intro hs
  have hs2 : m2.isSlide = true := by unfold Move.isSlide at hs ⊢; rw [t2, ← t1]; exact hs
  rw [s1 hs, s2 hs2]

/-- **the legal move set**: filtering the generated list by legality enumerates the legal non-pass moves,
each exactly once (up to `Move.Equal`, which ignores the slide word of placements) -/
theorem legal_filter_eq' (p : Pos) (wf : WFlite p) :
    (∀ m, m.type ≠ Facts.mtPass → legal p m = true →
        ∃ m', (m' ∈ p.allMoves.filter (legal p) ∧ m'.equal m = true) ∧
          ∀ m'', m'' ∈ p.allMoves.filter (legal p) → m''.equal m = true → m'' = m') ∧
    (∀ m' ∈ p.allMoves.filter (legal p), legal p m' = true ∧ m'.type ≠ Facts.mtPass ∧ OnBoard p.cfg.size m') ∧
    (p.allMoves.filter (legal p)).Nodup ∧
    (p.allMoves.filter (legal p)).Pairwise (fun a b => a.equal b = false) := by
  refine ⟨?_, ?_, ?_, ?_⟩
  · intro m hnp hl
    obtain ⟨m', hm', he⟩ := allMoves_complete' p wf m hnp ((legal_iff p m).1 hl)
    refine ⟨m', ⟨?_, he⟩, ?_⟩
    · rw [List.mem_filter]; exact ⟨hm', by rw [legal_of_equal p m' m he]; exact hl⟩
    · intro m'' hm'' he''
      rw [List.mem_filter] at hm''
      exact allMoves_equal_unique p m'' m' m hm''.1 hm' he'' he
  · intro m' hm'
    rw [List.mem_filter] at hm'
    have hob := allMoves_onboard' p wf.size_hi m' hm'.1
    refine ⟨hm'.2, ?_, hob⟩
    have tc := types_cases
    obtain ⟨_, _, _, _, ht, _⟩ := hob
    omega
  · have := allMoves_nodup' p wf.size_hi
    rw [List.Nodup] at this ⊢
    exact this.filter _
  · exact (allMoves_pairwise_not_equal p wf.size_hi).filter _


/-! ## the enumeration of all shapes -/

theorem nodup_flatMap_key {α β γ : Type} (key : β → γ) (k : α → γ) (f : α → List β) (l : List α)
    (hl : l.Pairwise (fun a b => k a ≠ k b)) (hf : ∀ a ∈ l, (f a).Nodup)
    (hk : ∀ a ∈ l, ∀ b ∈ f a, key b = k a) : (l.flatMap f).Nodup := by
  rw [List.Nodup, List.pairwise_flatMap]
  refine ⟨hf, ?_⟩
  refine hl.imp_of_mem ?_
  intro a b ha hb hne x hx y hy heq
  apply hne
  rw [← hk a ha x hx, ← hk b hb y hy, heq]

def coords (size : Nat) : List Int := (List.range size).map (fun (n : Nat) => (n : Int))

theorem coords_pairwise (size : Nat) : (coords size).Pairwise (fun a b => id a ≠ id b) := by
  unfold coords
  rw [List.pairwise_map]
  refine (@List.pairwise_lt_range size).imp ?_
  intro a b hab; simp; omega

theorem mem_coords (size : Nat) (v : Int) : v ∈ coords size ↔ 0 ≤ v ∧ v < size := by
  unfold coords
  rw [List.mem_map]
  constructor
  · rintro ⟨n, hn, rfl⟩; rw [List.mem_range] at hn; omega
  · rintro ⟨h0, h1⟩; exact ⟨v.toNat, by rw [List.mem_range]; omega, by omega⟩

def placeShapes (size : Nat) : List Move :=
  (coords size).flatMap (fun x => (coords size).flatMap (fun y =>
    [Facts.mtPlaceFlat, Facts.mtPlaceStanding, Facts.mtPlaceCapstone].map (fun t => (⟨x, y, t, 0⟩ : Move))))

def slideShapes (size : Nat) : List Move :=
  (coords size).flatMap (fun x => (coords size).flatMap (fun y =>
    [Facts.mtSlideLeft, Facts.mtSlideRight, Facts.mtSlideUp, Facts.mtSlideDown].flatMap (fun t =>
      (slidesTable.getD (min size 8) []).map (fun s => (⟨x, y, t, s⟩ : Move)))))

theorem allShapes_eq (size : Nat) : allShapes size = placeShapes size ++ slideShapes size := rfl

theorem mem_placeShapes (size : Nat) (m : Move) :
    m ∈ placeShapes size ↔ (0 ≤ m.x ∧ m.x < size) ∧ (0 ≤ m.y ∧ m.y < size) ∧
      (m.type = Facts.mtPlaceFlat ∨ m.type = Facts.mtPlaceStanding ∨ m.type = Facts.mtPlaceCapstone) ∧ m.slides = 0#32 := by
  unfold placeShapes
  simp only [List.mem_flatMap, List.mem_map, mem_coords]
  constructor
  · rintro ⟨x, hx, y, hy, t, ht, rfl⟩
    simp at ht
    exact ⟨hx, hy, ht, rfl⟩
  · rintro ⟨hx, hy, ht, hs⟩
    refine ⟨m.x, hx, m.y, hy, m.type, by simpa using ht, ?_⟩
    cases m; simp_all

theorem mem_slideShapes (size : Nat) (m : Move) :
    m ∈ slideShapes size ↔ (0 ≤ m.x ∧ m.x < size) ∧ (0 ≤ m.y ∧ m.y < size) ∧
      (m.type = Facts.mtSlideLeft ∨ m.type = Facts.mtSlideRight ∨ m.type = Facts.mtSlideUp ∨ m.type = Facts.mtSlideDown) ∧
      m.slides ∈ slidesTable.getD (min size 8) [] := by
  unfold slideShapes
  simp only [List.mem_flatMap, List.mem_map, mem_coords]
  constructor
  · rintro ⟨x, hx, y, hy, t, ht, s, hs, rfl⟩
    simp at ht
    exact ⟨hx, hy, ht, hs⟩
  · rintro ⟨hx, hy, ht, hs⟩
    exact ⟨m.x, hx, m.y, hy, m.type, by simpa using ht, m.slides, hs, rfl⟩

theorem placeShapes_nodup (size : Nat) : (placeShapes size).Nodup := by
  unfold placeShapes
  apply nodup_flatMap_key Move.x id _ _ (coords_pairwise size)
  · intro x _
    apply nodup_flatMap_key Move.y id _ _ (coords_pairwise size)
    · intro y _
      simp [types_cases]
    · intro y _ m hm
      rw [List.mem_map] at hm; obtain ⟨_, _, rfl⟩ := hm; rfl
  · intro x _ m hm
    simp only [List.mem_flatMap, List.mem_map] at hm
    obtain ⟨_, _, _, _, rfl⟩ := hm; rfl

theorem slideShapes_nodup (size : Nat) : (slideShapes size).Nodup := by
  unfold slideShapes
  apply nodup_flatMap_key Move.x id _ _ (coords_pairwise size)
  · intro x _
    apply nodup_flatMap_key Move.y id _ _ (coords_pairwise size)
    · intro y _
      apply nodup_flatMap_key Move.type id
      · simp [types_cases]
      · intro t _
        have hn := slides_nodup (min size 8) (by omega)
        rw [List.Nodup] at hn ⊢
        rw [List.pairwise_map]
        refine hn.imp ?_
        intro a b hne heq; apply hne; injection heq
      · intro t _ m hm
        rw [List.mem_map] at hm; obtain ⟨_, _, rfl⟩ := hm; rfl
    · intro y _ m hm
      simp only [List.mem_flatMap, List.mem_map] at hm
      obtain ⟨_, _, _, _, rfl⟩ := hm; rfl
  · intro x _ m hm
    simp only [List.mem_flatMap, List.mem_map] at hm
    obtain ⟨_, _, _, _, _, _, rfl⟩ := hm; rfl

theorem allShapes_nodup (size : Nat) : (allShapes size).Nodup := by
  rw [allShapes_eq, List.nodup_append]
  refine ⟨placeShapes_nodup size, slideShapes_nodup size, ?_⟩
  intro a ha b hb heq
  rw [mem_placeShapes] at ha
  rw [mem_slideShapes] at hb
  have tc := types_cases
  subst heq
  obtain ⟨_, _, h1, _⟩ := ha
  obtain ⟨_, _, h2, _⟩ := hb
  omega

/-- rows of the table grow with the carry limit -/
theorem slidesTable_mono (h1 h2 : Nat) (h12 : h1 ≤ h2) (h8 : h2 ≤ 8) (s : BitVec 32)
    (hs : s ∈ slidesTable.getD h1 []) : s ∈ slidesTable.getD h2 [] := by
  rw [slides_table h1 (by omega)] at hs
  rw [slides_table h2 h8]
  obtain ⟨a, b, c, d⟩ := hs
  exact ⟨a, b, by omega, d⟩


/-! ## generator list vs rule-book enumeration -/

theorem mem_allShapes_of_allMoves (p : Pos) (hs8 : p.cfg.size ≤ 8) (m : Move) (hm : m ∈ p.allMoves) :
    m ∈ allShapes p.cfg.size := by
  have tc := types_cases
  rw [allShapes_eq, List.mem_append]
  obtain ⟨hx0, hx1, hy0, hy1, ht, _⟩ := allMoves_onboard' p hs8 m hm
  rcases allMoves_sound_shape' p hs8 m hm with ⟨hns, hp⟩ | ⟨hsl, hp⟩
  · left
    rw [mem_placeShapes]
    refine ⟨⟨hx0, hx1⟩, ⟨hy0, hy1⟩, ?_, hp.2.1⟩
    simp only [Move.isSlide, decide_eq_false_iff_not] at hns
    omega
  · right
    rw [mem_slideShapes]
    refine ⟨⟨hx0, hx1⟩, ⟨hy0, hy1⟩, ?_, ?_⟩
    · simp only [Move.isSlide, decide_eq_true_eq] at hsl
      omega
    · obtain ⟨_, hne, hpos, _, hsum, _⟩ := hp
      rw [slides_table _ (by omega)]
      refine ⟨hne, ?_, by omega, (encode_elems _).symm⟩
      intro d hd
      have := le_sum_of_mem _ d hd
      exact ⟨hpos d hd, by omega⟩

/-- **the rule-book enumeration and the filtered generator list are the same set, without repetition** -/
theorem legalMoves_perm' (p : Pos) (wf : WFlite p) :
    (p.allMoves.filter (legal p)).Perm (Spec.legalMoves (abs p)) := by
  have tc := types_cases
  have hN1 : (p.allMoves.filter (legal p)).Nodup := by
    have := allMoves_nodup' p wf.size_hi
    rw [List.Nodup] at this ⊢
    exact this.filter _
  have hN2 : (Spec.legalMoves (abs p)).Nodup := by
    have := allShapes_nodup p.cfg.size
    unfold Spec.legalMoves
    rw [List.Nodup] at this ⊢
    exact this.filter _
  rw [List.perm_ext_iff_of_nodup hN1 hN2]
  intro m
  have hL : Spec.legalMoves (abs p) = (allShapes p.cfg.size).filter (legal p) := rfl
  rw [hL, List.mem_filter, List.mem_filter]
  constructor
  · rintro ⟨hm, hl⟩
    exact ⟨mem_allShapes_of_allMoves p wf.size_hi m hm, hl⟩
  · rintro ⟨hm, hl⟩
    refine ⟨?_, hl⟩
    rw [allShapes_eq, List.mem_append, mem_placeShapes, mem_slideShapes] at hm
    have hnp : m.type ≠ Facts.mtPass := by
      rcases hm with ⟨_, _, h, _⟩ | ⟨_, _, h, _⟩ <;> omega
    obtain ⟨m', hm', he⟩ := allMoves_complete' p wf m hnp ((legal_iff p m).1 hl)
    obtain ⟨ex, ey, et, es⟩ := equal_fields _ _ he
    have : m' = m := by
      have hsl : m'.slides = m.slides := by
        by_cases hs : m'.isSlide = true
        · exact es hs
        · have hs' : m'.isSlide = false := by simpa using hs
          rw [allMoves_place_slides p m' hm' hs']
          simp only [Move.isSlide, decide_eq_false_iff_not] at hs'
          rcases hm with ⟨_, _, _, h⟩ | ⟨_, _, h, _⟩
          · exact h.symm
          · omega
      cases m'; cases m; simp_all
    rw [← this]; exact hm'

theorem allShapesC_eq (size : Nat) : allShapesC size = allShapes size := by
  unfold allShapesC allShapes
  rw [slidesTable_row _ (by omega)]

theorem legalMovesC_eq (s : State) : legalMovesC s = legalMoves s := by
  unfold legalMovesC legalMoves; rw [allShapesC_eq]

end Tak.Proofs
