import TakVerif.Proofs.TakGameBisimTak
import TakVerif.Proofs.TakGamePN4
import TakVerif.Proofs.WinIn

/-! The verdict of depth-limited negamax on the bit-level Tak game **is** a forced win / loss within that many plies:

`negamax (takGame basis ev sym) d p > WinThreshold ↔ WinIn (PN.takGame basis) p.toMove d p` and
`… < -WinThreshold ↔ WinIn (PN.takGame basis) p.toMove.flip d p`

for every evaluator that gives the verdict of finished games (`EvVerdictAt`: decisive exactly at finished games with a
winner, with the sign winner-vs-mover) on the positions within `d` plies of `p`.  `EvaluateWinner` does so everywhere
(`evVerdictAt_winner`); `MakeEvaluator(size, nil)` and the material evaluator up to ply 2·10^6 (C18: beyond it the
terminal scores leave the decisive range, `C18.terminal_beyond_bound`).  `Proofs/NegamaxRules2.lean` carries the right-hand
sides to the rule book. -/
namespace Search
open Tak Tak.Proofs Spec.Game

/-- the evaluator gives the verdict of position `q`: above the threshold exactly when the game is over and the side to
move has won, below minus the threshold exactly when it is over and the other side has won -/
def EvVerdictAt (ev : Pos → Int) (q : Pos) : Prop :=
  (ev q > Facts.winThreshold ↔ q.gameOver.1 = true ∧ q.gameOver.2 = q.toMove) ∧
  (ev q < -Facts.winThreshold ↔ q.gameOver.1 = true ∧ q.gameOver.2 = q.toMove.flip)

/-- … on the well-formed analysed positions up to ply `N` -/
def EvVerdict (basis : Array W) (ev : Pos → Int) (N : Int) : Prop :=
  ∀ q, WF basis q → q.analyze = some q → q.move ≤ N → EvVerdictAt ev q

theorem toMove_binary (p : Pos) : p.toMove = .white ∨ p.toMove = .black := by
  unfold Pos.toMove; split
  · exact .inl rfl
  · exact .inr rfl

theorem toMove_ne_flip (p : Pos) : p.toMove ≠ p.toMove.flip := by
  rcases toMove_binary p with h | h <;> rw [h] <;> decide

theorem toMove_flip_flip (p : Pos) : p.toMove.flip.flip = p.toMove := by
  rcases toMove_binary p with h | h <;> rw [h] <;> rfl

/-- a colour that is a winner but not the mover is the other side -/
theorem eq_flip_of_ne {p : Pos} {w : Color} (h0 : w ≠ .none) (h1 : w ≠ p.toMove) : w = p.toMove.flip := by
  rcases toMove_binary p with h | h <;> rw [h] at h1 ⊢ <;> cases w <;> simp_all [Color.flip]

/-- the shape every evaluator's verdict is derived from -/
theorem evVerdictAt_of_cases {ev : Pos → Int} {q : Pos}
    (h0 : q.gameOver.1 = false → -Facts.winThreshold ≤ ev q ∧ ev q ≤ Facts.winThreshold)
    (h1 : q.gameOver.1 = true → q.gameOver.2 = .none → -Facts.winThreshold ≤ ev q ∧ ev q ≤ Facts.winThreshold)
    (h2 : q.gameOver.1 = true → q.gameOver.2 ≠ .none → q.gameOver.2 = q.toMove → Facts.winThreshold < ev q)
    (h3 : q.gameOver.1 = true → q.gameOver.2 ≠ .none → q.gameOver.2 ≠ q.toMove → ev q < -Facts.winThreshold) :
    EvVerdictAt ev q := by
  have hT : (0 : Int) < Facts.winThreshold := by decide
  have hmv : q.toMove ≠ .none := by rcases toMove_binary q with h | h <;> rw [h] <;> decide
  have hfl : q.toMove.flip ≠ .none := by rcases toMove_binary q with h | h <;> rw [h] <;> decide
  constructor
  · constructor
    · intro h
      cases ho : q.gameOver.1 with
      | false => have := h0 ho; omega
      | true =>
        refine ⟨rfl, ?_⟩
        by_cases hn : q.gameOver.2 = .none
        · have := h1 ho hn; omega
        · by_cases he : q.gameOver.2 = q.toMove
          · exact he
          · have := h3 ho hn he; omega
    · rintro ⟨ho, hw⟩
      exact h2 ho (by rw [hw]; exact hmv) hw
  · constructor
    · intro h
      cases ho : q.gameOver.1 with
      | false => have := h0 ho; omega
      | true =>
        refine ⟨rfl, ?_⟩
        by_cases hn : q.gameOver.2 = .none
        · have := h1 ho hn; omega
        · by_cases he : q.gameOver.2 = q.toMove
          · have := h2 ho hn he; omega
          · exact eq_flip_of_ne hn he
    · rintro ⟨ho, hw⟩
      exact h3 ho (by rw [hw]; exact hfl) (by rw [hw]; exact fun e => toMove_ne_flip q e.symm)

/-- `EvaluateWinner` gives the verdict of every position -/
theorem evVerdictAt_winner (q : Pos) : EvVerdictAt evalWinner q := by
  have hs := C18.winner_eval_spec q
  rw [← evalWinner_eq] at hs
  obtain ⟨s0, s1, s2, s3, hT, _⟩ := hs
  have hT0 : (0 : Int) < Facts.winThreshold := by decide
  refine evVerdictAt_of_cases ?_ ?_ ?_ ?_
  · intro h; rw [s0 h]; omega
  · intro h hn; rw [s1 h hn]; omega
  · intro h hn he; rw [s2 h hn he]; exact hT
  · intro h hn he; rw [s3 h hn he]; omega

theorem evVerdict_winner (basis : Array W) (N : Int) : EvVerdict basis evalWinner N :=
  fun q _ _ _ => evVerdictAt_winner q

/-- `MakeEvaluator(size, nil)` gives the verdict up to ply 2·10^6 (C18) -/
theorem evVerdict_default (basis : Array W) : EvVerdict basis evalDefault 2000000 := by
  intro q hwf han hN
  obtain ⟨w, hmem, hv⟩ := evalDefault_eq basis q hwf han
  have hh : q.height.size ≤ 64 := by rw [hwf.height_size]; exact hwf.toFrame.n_le
  have hterm : q.gameOver.1 = true → ∃ v, v = evalDefault q ∧
      (q.gameOver.2 = .none → v = 0) ∧
      (q.gameOver.2 ≠ .none → q.gameOver.2 = q.toMove → Facts.winThreshold < v ∧ v ≤ Facts.maxEval) ∧
      (q.gameOver.2 ≠ .none → q.gameOver.2 ≠ q.toMove → Facts.minEval ≤ v ∧ v < -Facts.winThreshold) := by
    intro ho
    obtain ⟨v, hv', h⟩ := C18.terminal_outside q.c w hmem q ho hwf.size_le hwf.move_nonneg hN
    rw [hv] at hv'
    exact ⟨v, (Except.ok.inj hv').symm, h⟩
  have hT0 : (0 : Int) < Facts.winThreshold := by decide
  refine evVerdictAt_of_cases ?_ ?_ ?_ ?_
  · intro ho
    have := C18.heuristic_inside q.c w hmem q (C18.analyze_analyzed q q han) hh ho _ hv
    exact ⟨by omega, by omega⟩
  · intro ho hn
    obtain ⟨v, e, h1, _, _⟩ := hterm ho
    rw [← e, h1 hn]; omega
  · intro ho hn he
    obtain ⟨v, e, _, h2, _⟩ := hterm ho
    rw [← e]; exact (h2 hn he).1
  · intro ho hn he
    obtain ⟨v, e, _, _, h3⟩ := hterm ho
    rw [← e]; exact (h3 hn he).2

/-- the material evaluator (`WinBase - ply` for the winner) gives the verdict up to ply 2·10^6 -/
theorem evVerdict_mat (basis : Array W) : EvVerdict basis evalMat 2000000 := by
  intro q hwf _ hN
  have h0 := hwf.move_nonneg
  have e3 : Facts.winBase = 805306368 := by decide
  have e4 : Facts.winThreshold = 536870912 := by decide
  refine evVerdictAt_of_cases ?_ ?_ ?_ ?_
  · intro ho
    have := evalMat_not_over q ho
    exact ⟨by omega, by omega⟩
  all_goals
    intro ho
    unfold evalMat
    rcases hg : q.gameOver with ⟨a, b⟩
    rw [hg] at ho
    dsimp only at ho ⊢
    subst ho
    simp only [if_true]
  · intro hn; rw [hn]; simp only [beq_self_eq_true, if_true]; omega
  · intro hn he
    have h1 : (b == Color.none) = false := by simpa using hn
    have h2 : (b == q.toMove) = true := by simpa using he
    simp only [h1, h2, Bool.false_eq_true, if_false, if_true]; omega
  · intro hn he
    have h1 : (b == Color.none) = false := by simpa using hn
    have h2 : (b == q.toMove) = false := by simpa using he
    simp only [h1, h2, Bool.false_eq_true, if_false]; omega

variable (basis : Array W) (ev : Pos → Int) (sym : Pos → List H)

theorem pn_over_some_iff (q : Pos) (c : Color) :
    (Tak.PN.takGame basis).over q = some c ↔ q.gameOver.1 = true ∧ q.gameOver.2 = c := by
  simp only [Tak.PN.takGame]
  rcases q.gameOver with ⟨a, b⟩
  cases a <;> simp

theorem pn_over_none_iff (q : Pos) : (Tak.PN.takGame basis).over q = none ↔ q.gameOver.1 = false := by
  simp only [Tak.PN.takGame]
  rcases q.gameOver with ⟨a, b⟩
  cases a <;> simp

/-- at a finished game (or at the horizon) the evaluation's verdict is the game's -/
theorem verdict_terminal {q : Pos} (hq : EvVerdictAt ev q) :
    (ev q > Facts.winThreshold ↔ (Tak.PN.takGame basis).over q = some q.toMove) ∧
    (ev q < -Facts.winThreshold ↔ (Tak.PN.takGame basis).over q = some q.toMove.flip) := by
  rw [pn_over_some_iff, pn_over_some_iff]
  exact hq

theorem kid_facts {p : Pos} (hp : C06.TakOK basis p) {x : Move × Pos} (hx : x ∈ kids (takGame basis ev sym) p) :
    C06.TakOK basis x.2 ∧ x.2.move = p.move + 1 ∧ x.2.toMove = p.toMove.flip := by
  have hs := succ_of_kid basis ev sym hx
  obtain ⟨hm, hap⟩ := mem_kids.mp (show (x.1, x.2) ∈ kids (takGame basis ev sym) p from hx)
  refine ⟨(C06.succ_abs hp hs).1, C06.apply_move basis p x.2 x.1 hap, ?_⟩
  exact (C06.takGame_alternating basis).flips p x.1 x.2 (C06.takGame_apply_some.mpr hap)

/-- **the verdict of depth-limited negamax is a forced win / loss within the depth** (bit-level game): for an evaluator
that gives the verdict of finished games on the good positions up to ply `N`, a good position `p` and `ply + d ≤ N` -/
theorem negamax_winIn (N : Int) (hev : ∀ q, C06.TakOK basis q → q.move ≤ N → EvVerdictAt ev q) :
    ∀ (d : Nat) (p : Pos), C06.TakOK basis p → p.move + d ≤ N →
      (negamax (takGame basis ev sym) d p > Facts.winThreshold ↔ WinIn (Tak.PN.takGame basis) p.toMove d p) ∧
      (negamax (takGame basis ev sym) d p < -Facts.winThreshold ↔
        WinIn (Tak.PN.takGame basis) p.toMove.flip d p) := by
  have eT : Facts.winThreshold = 536870912 := by decide
  have eM : Facts.minEval = -1073741824 := by decide
  intro d
  induction d with
  | zero =>
    intro p hp hN
    rw [negamax_zero, winIn_zero_iff, winIn_zero_iff]
    exact verdict_terminal basis ev (hev p hp (by omega))
  | succ d ih =>
    intro p hp hN
    cases hov : p.gameOver.1 with
    | true =>
      have hov' : (takGame basis ev sym).over p = true := hov
      rw [negamax_over _ _ _ hov']
      have hpo : (Tak.PN.takGame basis).over p = some p.gameOver.2 := (pn_over_some_iff basis p _).mpr ⟨hov, rfl⟩
      rw [winIn_over_iff hpo, winIn_over_iff hpo]
      have := verdict_terminal basis ev (hev p hp (by omega))
      rw [hpo] at this
      simp only [Option.some.injEq] at this
      exact this
    | false =>
      have hov' : (takGame basis ev sym).over p = false := hov
      have hpo : (Tak.PN.takGame basis).over p = none := (pn_over_none_iff basis p).mpr hov
      rw [negamax_succ _ d p hov']
      have hih : ∀ x ∈ kids (takGame basis ev sym) p,
          (negamax (takGame basis ev sym) d x.2 > Facts.winThreshold ↔
            WinIn (Tak.PN.takGame basis) p.toMove.flip d x.2) ∧
          (negamax (takGame basis ev sym) d x.2 < -Facts.winThreshold ↔
            WinIn (Tak.PN.takGame basis) p.toMove d x.2) := by
        intro x hx
        obtain ⟨hk, hmv, htm⟩ := kid_facts basis ev sym hp hx
        have := ih x.2 hk (by omega)
        rw [htm, toMove_flip_flip] at this
        exact this
      constructor
      · rw [winIn_succ_attacker_iff hpo (show (Tak.PN.takGame basis).toMove p = p.toMove from rfl)]
        constructor
        · intro h
          have hne : kids (takGame basis ev sym) p ≠ [] := by
            intro e; rw [e] at h; simp only [maxOver] at h; omega
          obtain ⟨x, hx, hm⟩ := maxOver_attained (fun c => -(negamax (takGame basis ev sym) d c.2))
            (Facts.minEval - 1) _ hne
          rw [hm] at h
          exact ⟨x.2, succ_of_kid basis ev sym hx, (hih x hx).2.mp (by omega)⟩
        · rintro ⟨s', hs, hw⟩
          obtain ⟨y, hy, rfl⟩ := kid_of_succ basis ev sym hs
          have h1 := (hih y hy).2.mpr hw
          have h2 := maxOver_ge (fun c => -(negamax (takGame basis ev sym) d c.2)) (Facts.minEval - 1) _ y hy
          omega
      · rw [winIn_succ_defender_iff hpo (show (Tak.PN.takGame basis).toMove p ≠ p.toMove.flip from toMove_ne_flip p)]
        constructor
        · intro h s' hs
          obtain ⟨y, hy, rfl⟩ := kid_of_succ basis ev sym hs
          have h2 := maxOver_ge (fun c => -(negamax (takGame basis ev sym) d c.2)) (Facts.minEval - 1) _ y hy
          exact (hih y hy).1.mp (by omega)
        · intro hall
          by_cases hne : kids (takGame basis ev sym) p = []
          · rw [hne]; simp only [maxOver]; omega
          · obtain ⟨x, hx, hm⟩ := maxOver_attained (fun c => -(negamax (takGame basis ev sym) d c.2))
              (Facts.minEval - 1) _ hne
            rw [hm]
            have := (hih x hx).1.mpr (hall x.2 (succ_of_kid basis ev sym hx))
            omega

end Search
