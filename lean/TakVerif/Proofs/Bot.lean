import TakVerif.Spec.Bot

/-! Lemmas for C07: the strengthened invariant of the bot loop and its preservation by every handler. -/
namespace Tak.Bot

/-- the part of the invariant that only mentions the record, the ghost server, the log and the status -/
structure Core (cfg : Conf) (s : St) : Prop where
  inv : Inv cfg s
  shape : ¬ s.crashed → s.positions.length = s.moves.length + 1

/-- a thinker that is not parked was started on a position that is not over -/
def Parked (s : St) : Prop := s.cur.st ≠ .idle → s.cur.pos.gameOver.1 = false

/-- the inductive invariant: while the loop listens to its thinker, that thinker was started on the
current position and it is the bot's turn there -/
structure SInv (cfg : Conf) (s : St) : Prop where
  core : Core cfg s
  listen : s.status = .running → s.listening = true → s.cur.pos = s.p ∧ s.p.toMove = cfg.color
  parked : Parked s

theorem not_crashed_of_running {s : St} (h : s.status = .running) : ¬ s.crashed := by
  rintro ⟨e, he⟩; rw [h] at he; cases he

/-- `Core` only reads these fields -/
theorem Core.congr {cfg : Conf} {s t : St} (h : Core cfg s)
    (h1 : t.positions = s.positions) (h2 : t.moves = s.moves) (h3 : t.p = s.p)
    (h4 : t.srvPos = s.srvPos) (h5 : t.srvMoves = s.srvMoves) (h6 : t.log = s.log)
    (h7 : t.sent = s.sent) (h8 : t.status = s.status) : Core cfg t := by
  have hc : t.crashed ↔ s.crashed := by simp [St.crashed, h8]
  refine ⟨⟨?_, ?_, ?_⟩, ?_⟩
  · intro hn
    have := h.inv.tracks (by rwa [hc] at hn)
    simpa [RecordTracks, h1, h2, h3, h4, h5] using this
  · simpa [h6] using h.inv.sends
  · have := h.inv.logged
    simpa [sentMoves, h6, h7] using this
  · intro hn
    have := h.shape (by rwa [hc] at hn)
    simpa [h1, h2] using this

theorem sinv_spawn {cfg : Conf} {s : St} (h : Core cfg s) : SInv cfg (spawn cfg s) := by
  refine ⟨h.congr rfl rfl rfl rfl rfl rfl rfl rfl, ?_, ?_⟩
  · intro _ hl
    have : s.p.toMove = cfg.color := by simpa [spawn] using hl
    exact ⟨rfl, this⟩
  · intro hi
    simp only [spawn] at hi ⊢
    cases ho : s.p.gameOver.1 with
    | false => rfl
    | true => simp [ho] at hi

theorem sinv_retFalse {cfg : Conf} {s : St} (h : Core cfg s) : SInv cfg (retFalse cfg s) := by
  unfold retFalse
  exact sinv_spawn (h.congr rfl rfl rfl rfl rfl rfl rfl rfl)

theorem sinv_of_core_not_running {cfg : Conf} {s : St} (h : Core cfg s) (hs : s.status ≠ .running)
    (hp : Parked s) : SInv cfg s :=
  ⟨h, fun hr => absurd hr hs, hp⟩

/-- a state whose loop is gone but whose record, log and transmissions are those of `s` -/
theorem core_ended {cfg : Conf} {s t : St} (h : Core cfg s) (hr : s.status = .running)
    (h1 : t.positions = s.positions) (h2 : t.moves = s.moves) (h3 : t.p = s.p)
    (h4 : t.srvPos = s.srvPos) (h5 : t.srvMoves = s.srvMoves) (h6 : t.log = s.log)
    (h7 : t.sent = s.sent) (_h8 : t.status = .ended) : Core cfg t := by
  have hn := not_crashed_of_running hr
  refine ⟨⟨?_, ?_, ?_⟩, ?_⟩
  · intro _
    have := h.inv.tracks hn
    simpa [RecordTracks, h1, h2, h3, h4, h5] using this
  · simpa [h6] using h.inv.sends
  · have := h.inv.logged
    simpa [sentMoves, h6, h7] using this
  · intro _
    have := h.shape hn
    simpa [h1, h2] using this

theorem sinv_retTrue {cfg : Conf} {s : St} (h : Core cfg s) (hp : Parked s) (hr : s.status = .running) :
    SInv cfg (retTrue s) := by
  refine sinv_of_core_not_running (core_ended h hr rfl rfl rfl rfl rfl rfl rfl rfl) ?_ hp
  simp [retTrue]

/-- after a panic only the log and the transmissions are still claimed -/
theorem core_crashed {cfg : Conf} {s t : St} (h : Core cfg s) (e : Err)
    (h6 : t.log = s.log) (h7 : t.sent = s.sent) (h8 : t.status = .crashed e) : Core cfg t := by
  have hc : t.crashed := ⟨e, h8⟩
  refine ⟨⟨fun hn => absurd hc hn, ?_, ?_⟩, fun hn => absurd hc hn⟩
  · simpa [h6] using h.inv.sends
  · have := h.inv.logged
    simpa [sentMoves, h6, h7] using this

theorem sinv_crash {cfg : Conf} {s : St} (h : Core cfg s) (hp : Parked s) (e : Err) : SInv cfg (s.crash e) := by
  refine sinv_of_core_not_running (core_crashed h e rfl rfl rfl) ?_ hp
  simp [St.crash]

/-- `SInv` only reads the `Core` fields, `listening` and the tag of the current thinker -/
theorem SInv.congr {cfg : Conf} {s t : St} (h : SInv cfg s)
    (h1 : t.positions = s.positions) (h2 : t.moves = s.moves) (h3 : t.p = s.p)
    (h4 : t.srvPos = s.srvPos) (h5 : t.srvMoves = s.srvMoves) (h6 : t.log = s.log)
    (h7 : t.sent = s.sent) (h8 : t.status = s.status)
    (h9 : t.listening = s.listening) (h10 : t.cur.pos = s.cur.pos)
    (h11 : t.cur.st ≠ .idle → s.cur.st ≠ .idle := by exact id) : SInv cfg t := by
  refine ⟨h.core.congr h1 h2 h3 h4 h5 h6 h7 h8, ?_, ?_⟩
  · intro hr hl
    rw [h8] at hr; rw [h9] at hl; rw [h10, h3]
    exact h.listen hr hl
  · intro hi
    rw [h10]
    exact h.parked (h11 hi)

/-- with a tracked record the ghost server's current position is `g.p` -/
theorem srvPos_eq {s : St} (ht : RecordTracks s) : ∃ tl, s.srvPos = s.p :: tl ∧ s.positions = s.p :: tl := by
  obtain ⟨hp, _, hh⟩ := ht
  cases hps : s.positions with
  | nil => simp [hps] at hh
  | cons a tl =>
    simp [hps] at hh
    exact ⟨tl, by rw [← hp, hps, hh], by rw [hh]⟩

theorem sinv_onServerMove {cfg : Conf} (hf : cfg.fixed = true) {s : St} (h : SInv cfg s)
    (hr : s.status = .running) (parsed : Option Move) : SInv cfg (onServerMove cfg s parsed) := by
  cases parsed with
  | none => exact sinv_crash h.core h.parked _
  | some m =>
    have hn := not_crashed_of_running hr
    have ht := h.core.inv.tracks hn
    have hlen := h.core.shape hn
    obtain ⟨tl, htl, hpl⟩ := srvPos_eq ht
    simp only [onServerMove]
    cases hap : s.p.apply cfg.basis m with
    | error e =>
      have hpush : srvPush cfg s m = s := by simp [srvPush, htl, hap]
      simp only [hpush, hap]
      exact sinv_crash h.core h.parked _
    | ok q =>
      have hpush : srvPush cfg s m = { s with srvPos := q :: s.srvPos, srvMoves := m :: s.srvMoves } := by
        simp [srvPush, htl, hap]
      simp only [hpush, hap, hf]
      refine ⟨⟨⟨?_, ?_, ?_⟩, ?_⟩, ?_, h.parked⟩
      · intro _
        obtain ⟨hp, hm, _⟩ := ht
        simp [RecordTracks, hp, hm]
      · exact h.core.inv.sends
      · exact h.core.inv.logged
      · intro _
        simp [hlen]
      · intro _ hl
        simp at hl

theorem sinv_onTime {cfg : Conf} {s : St} (h : SInv cfg s) (args : List String) : SInv cfg (onTime cfg s args) := by
  unfold onTime
  split
  · rename_i w b _
    by_cases hc : cfg.color = .white
    · simp only [hc, if_true]
      split
      · exact sinv_retFalse (h.core.congr rfl rfl rfl rfl rfl rfl rfl rfl)
      · exact h.congr rfl rfl rfl rfl rfl rfl rfl rfl rfl rfl
    · simp only [hc, if_false]
      split
      · exact sinv_retFalse (h.core.congr rfl rfl rfl rfl rfl rfl rfl rfl)
      · exact h.congr rfl rfl rfl rfl rfl rfl rfl rfl rfl rfl
  · exact sinv_crash h.core h.parked _

theorem sentMoves_append_undo (s : St) (t : St) (h : t.sent = s.sent ++ [.requestUndo]) : sentMoves t = sentMoves s := by
  simp [sentMoves, h]

theorem sinv_onRequestUndo {cfg : Conf} {s : St} (h : SInv cfg s) (accept : Bool) : SInv cfg (onRequestUndo s accept) := by
  unfold onRequestUndo
  split
  · refine ⟨⟨⟨?_, ?_, ?_⟩, ?_⟩, ?_, h.parked⟩
    · intro hn
      exact h.core.inv.tracks (by simpa [St.crashed] using hn)
    · exact h.core.inv.sends
    · rw [sentMoves_append_undo s _ rfl]; exact h.core.inv.logged
    · intro hn
      exact h.core.shape (by simpa [St.crashed] using hn)
    · intro _ hl
      simp at hl
  · exact h

theorem sinv_onUndo {cfg : Conf} {s : St} (h : SInv cfg s) (hr : s.status = .running) : SInv cfg (onUndo cfg s) := by
  have hn := not_crashed_of_running hr
  obtain ⟨hp, hm, hh⟩ := h.core.inv.tracks hn
  have hlen := h.core.shape hn
  unfold onUndo
  cases hms : s.moves with
  | nil =>
    -- the server has nothing to undo either; the loop panics in `Moves[:len-1]`
    have hsm : s.srvMoves = [] := by rw [← hm, hms]
    have hpop : srvPop s = s := by simp [srvPop, hsm]
    simp only [hpop]
    cases hps : s.positions with
    | nil => exact sinv_crash h.core h.parked _
    | cons a ps =>
      simp only [hms]
      exact sinv_of_core_not_running (core_crashed h.core _ rfl rfl rfl) (by simp [St.crash]) h.parked
  | cons m ms =>
    have hsm : s.srvMoves = m :: ms := by rw [← hm, hms]
    have hpop : srvPop s = { s with srvMoves := ms, srvPos := s.srvPos.tail } := by simp [srvPop, hsm]
    simp only [hpop]
    cases hps : s.positions with
    | nil => simp [hps, hms] at hlen
    | cons a ps =>
      cases hps2 : ps with
      | nil => simp [hps, hms, hps2] at hlen
      | cons q ps' =>
        simp only [hms]
        refine sinv_retFalse ⟨⟨?_, ?_, ?_⟩, ?_⟩
        · intro _
          simp [RecordTracks, ← hp, hps, hps2]
        · exact h.core.inv.sends
        · exact h.core.inv.logged
        · intro _
          simp [hps, hms, hps2] at hlen
          simp [hlen]

theorem sinv_onGameLine {cfg : Conf} (hf : cfg.fixed = true) {s : St} (h : SInv cfg s) (hr : s.status = .running)
    (rest : List String) (parsed : Option Move) (accept : Bool) : SInv cfg (onGameLine cfg s rest parsed accept) := by
  unfold onGameLine
  split
  · exact sinv_crash h.core h.parked _
  · split
    · exact sinv_onServerMove hf h hr parsed
    · split
      · exact sinv_retTrue h.core h.parked hr
      · split
        · split
          · exact sinv_crash h.core h.parked _
          · exact sinv_retTrue (h.core.congr rfl rfl rfl rfl rfl rfl rfl rfl) h.parked hr
        · split
          · exact sinv_onTime h _
          · split
            · exact sinv_onRequestUndo h accept
            · split
              · exact sinv_onUndo h hr
              · exact h

theorem sinv_onLine {cfg : Conf} (hf : cfg.fixed = true) {s : St} (h : SInv cfg s) (hr : s.status = .running)
    (bits : List String) (parsed : Option Move) (accept : Bool) : SInv cfg (onLine cfg s bits parsed accept) := by
  unfold onLine
  split
  · exact h
  · split
    · exact sinv_onGameLine hf h hr _ parsed accept
    · split
      · exact sinv_onGameLine hf h hr _ parsed accept
      · exact h

theorem srvAccept_eq {cfg : Conf} {t : St} {m : Move} {p q : Pos} {tl : List Pos} (h1 : t.srvPos = p :: tl)
    (hlive : p.gameOver.1 = false) (hturn : p.toMove = cfg.color) (hap : p.apply cfg.basis m = .ok q) :
    srvAccept cfg t m = { t with srvPos := q :: t.srvPos, srvMoves := m :: t.srvMoves } := by
  simp [srvAccept, srvPush, h1, hlive, hturn, hap]

/-- `case move := <-moves` when the loop was listening to a thinker started on the current position -/
theorem sinv_onAnswer {cfg : Conf} {s : St} (h : Core cfg s) (hp : Parked s) (hr : s.status = .running)
    (htag : s.cur.pos = s.p) (hlive : s.p.gameOver.1 = false) (hturn : s.p.toMove = cfg.color) (m : Move) :
    SInv cfg (onAnswer cfg s m) := by
  have hn := not_crashed_of_running hr
  have ht := h.inv.tracks hn
  have hlen := h.shape hn
  obtain ⟨tl, htl, hpl⟩ := srvPos_eq ht
  unfold onAnswer
  cases hap : s.p.apply cfg.basis m with
  | error e =>
    cases e with
    | illegal w => exact sinv_retFalse h
    | panic w => exact sinv_crash h hp _
    | hang w => exact sinv_crash h hp _
  | ok q =>
    simp only
    rw [srvAccept_eq (p := s.p) (q := q) (tl := tl) (by exact htl) hlive hturn hap]
    refine sinv_retFalse ⟨⟨?_, ?_, ?_⟩, ?_⟩
    · intro _
      obtain ⟨hp, hm, _⟩ := ht
      simp [RecordTracks, hp, hm]
    · intro r hrm
      simp only [List.mem_append, List.mem_singleton] at hrm
      rcases hrm with hrm | rfl
      · exact h.inv.sends r hrm
      · exact ⟨by simp [srvCur, htl], hlive, ⟨q, hap⟩, hturn, htag⟩
    · have := h.inv.logged
      simp [sentMoves] at this ⊢
      exact this
    · intro _
      simp [hlen]

@[simp] theorem Thinker.enter_pos (t : Thinker) : t.enter.pos = t.pos := by
  unfold Thinker.enter; split <;> rfl

@[simp] theorem Thinker.leave_pos (t : Thinker) (m : Move) : (t.leave m).pos = t.pos := by
  unfold Thinker.leave; split <;> rfl

theorem Thinker.enter_not_idle (t : Thinker) (h : t.enter.st ≠ .idle) : t.st ≠ .idle := by
  intro hi; apply h; unfold Thinker.enter; rw [if_neg (by rw [hi]; decide)]; exact hi

theorem Thinker.leave_not_idle (t : Thinker) (m : Move) (h : (t.leave m).st ≠ .idle) : t.st ≠ .idle := by
  intro hi; apply h; unfold Thinker.leave; rw [if_neg (by rw [hi]; decide)]; exact hi

theorem sinv_grant {cfg : Conf} {s : St} (h : SInv cfg s) (k : Nat) : SInv cfg (grant s k) := by
  unfold grant
  split
  · exact h
  · split
    · exact h.congr rfl rfl rfl rfl rfl rfl rfl rfl rfl rfl
    · split
      · exact h.congr rfl rfl rfl rfl rfl rfl rfl rfl rfl (by simp) (Thinker.enter_not_idle _)
      · exact h

theorem sinv_aiReturns {cfg : Conf} {s : St} (h : SInv cfg s) (k : Nat) (m : Move) : SInv cfg (aiReturns cfg s k m) := by
  unfold aiReturns
  split
  · exact h.congr rfl rfl rfl rfl rfl rfl rfl rfl rfl rfl
  · split
    · split
      · split
        · rename_i hrun hl
          obtain ⟨htag, hturn⟩ := h.listen hl.1 hl.2
          have hlive : s.cur.pos.gameOver.1 = false := h.parked (by rw [hrun]; decide)
          exact sinv_onAnswer (s := { s with cur := { s.cur with st := .done, cancelled := true } })
            (h.core.congr rfl rfl rfl rfl rfl rfl rfl rfl) (fun _ => hlive) hl.1 htag (by rw [← htag]; exact hlive) hturn m
        · exact h.congr rfl rfl rfl rfl rfl rfl rfl rfl rfl (by simp) (Thinker.leave_not_idle _ m)
      · exact h
    · exact h

theorem sinv_step {cfg : Conf} (hf : cfg.fixed = true) {s : St} (h : SInv cfg s) (e : Ev) : SInv cfg (step cfg s e) := by
  cases e with
  | deliver bits parsed accept =>
    simp only [step]
    split
    · rename_i hr; exact sinv_onLine hf h hr bits parsed accept
    · exact h
  | close =>
    simp only [step]
    split
    · rename_i hr; exact sinv_retTrue h.core h.parked hr
    · exact h
  | timerFires =>
    simp only [step]
    split
    · exact sinv_retFalse h.core
    · exact h
  | grant k => exact sinv_grant h k
  | aiReturns k m => exact sinv_aiReturns h k m

theorem sinv_run {cfg : Conf} (hf : cfg.fixed = true) {s : St} (h : SInv cfg s) (evs : List Ev) : SInv cfg (run cfg s evs) := by
  induction evs generalizing s with
  | nil => exact h
  | cons e es ih => exact ih (sinv_step hf h e)

theorem sinv_tieRun {cfg : Conf} (hf : cfg.fixed = true) {s : St} (h : SInv cfg s) (evs : List Ev) : SInv cfg (tieRun cfg s evs) := by
  induction evs generalizing s with
  | nil => exact h
  | cons e es ih => exact ih (sinv_run hf (sinv_step hf h e) _)

/-- the state in which `PlayGame`/`ObserveGame` first blocks satisfies the invariant -/
theorem sinv_start (cfg : Conf) (size : Nat) (secs : Int) : SInv cfg (start cfg size secs) := by
  unfold start
  split
  · refine sinv_of_core_not_running ⟨⟨fun hn => absurd ⟨_, rfl⟩ hn, ?_, ?_⟩, fun hn => absurd ⟨_, rfl⟩ hn⟩ (by simp) (fun h => absurd rfl h)
    · intro r hr; cases hr
    · rfl
  · refine sinv_spawn ⟨⟨?_, ?_, ?_⟩, ?_⟩
    · intro _; simp [RecordTracks]
    · intro r hr; cases hr
    · rfl
    · intro _; rfl

/-! ### the loop ends exactly when the server ends the game -/

@[simp] theorem spawn_status (cfg : Conf) (s : St) : (spawn cfg s).status = s.status := rfl
@[simp] theorem retFalse_status (cfg : Conf) (s : St) : (retFalse cfg s).status = s.status := rfl
@[simp] theorem retTrue_status (s : St) : (retTrue s).status = .ended := rfl

theorem onServerMove_running {cfg : Conf} {s : St} (h : SInv cfg s) (hr : s.status = .running)
    {parsed : Option Move} (hok : MoveOK cfg s parsed) :
    (onServerMove cfg s parsed).status = .running := by
  obtain ⟨m, q, rfl, hq, q', hap⟩ : ∃ m q, parsed = some m ∧ srvCur s = some q ∧ Legal cfg.basis q m := by
    cases parsed with
    | none => simp [MoveOK] at hok
    | some m =>
      cases hq : srvCur s with
      | none => simp [MoveOK, hq] at hok
      | some q => exact ⟨m, q, rfl, rfl, by simpa [MoveOK, hq] using hok⟩
  obtain ⟨tl, htl, _⟩ := srvPos_eq (h.core.inv.tracks (not_crashed_of_running hr))
  have : q = s.p := by simpa [srvCur, htl] using hq.symm
  subst this
  have hpush : srvPush cfg s m = { s with srvPos := q' :: s.srvPos, srvMoves := m :: s.srvMoves } := by
    simp [srvPush, htl, hap]
  simp [onServerMove, hpush, hap, hr]

theorem onTime_running {cfg : Conf} {s : St} (hr : s.status = .running) {args : List String} (hok : 2 ≤ args.length) :
    (onTime cfg s args).status = .running := by
  match args, hok with
  | w :: b :: _, _ =>
    simp only [onTime]
    by_cases hc : cfg.color = .white <;> simp only [hc, if_true, if_false] <;> split <;> simp [hr]

theorem onRequestUndo_status (s : St) (a : Bool) : (onRequestUndo s a).status = s.status := by
  unfold onRequestUndo; split <;> rfl

theorem onUndo_running {cfg : Conf} {s : St} (h : SInv cfg s) (hr : s.status = .running) (hok : s.srvMoves ≠ []) :
    (onUndo cfg s).status = .running := by
  have hn := not_crashed_of_running hr
  obtain ⟨hp, hm, hh⟩ := h.core.inv.tracks hn
  have hlen := h.core.shape hn
  unfold onUndo
  cases hms : s.moves with
  | nil => exact absurd (by rw [← hm, hms]) hok
  | cons m ms =>
    have hsm : s.srvMoves = m :: ms := by rw [← hm, hms]
    have hpop : srvPop s = { s with srvMoves := ms, srvPos := s.srvPos.tail } := by simp [srvPop, hsm]
    simp only [hpop]
    cases hps : s.positions with
    | nil => simp [hps, hms] at hlen
    | cons a ps =>
      cases hps2 : ps with
      | nil => simp [hps, hms, hps2] at hlen
      | cons q ps' => simp [hms, hr]

theorem onAnswer_running {cfg : Conf} {s : St} (hr : s.status = .running) (m : Move)
    (hrules : AnswerOK cfg.basis s.p m) : (onAnswer cfg s m).status = .running := by
  unfold onAnswer
  cases hap : s.p.apply cfg.basis m with
  | error e =>
    cases e with
    | illegal w => simp [hr]
    | panic w => simp [AnswerOK, hap] at hrules
    | hang w => simp [AnswerOK, hap] at hrules
  | ok q =>
    simp only [retFalse_status]
    unfold srvAccept
    split
    · exact hr
    · split
      · unfold srvPush; split
        · exact hr
        · split <;> exact hr
      · exact hr

theorem grant_status (s : St) (k : Nat) : (grant s k).status = s.status := by
  unfold grant; split
  · rfl
  · split
    · rfl
    · split <;> rfl

theorem aiReturns_status_of_not_running {cfg : Conf} {s : St} (hr : s.status ≠ .running) (k : Nat) (m : Move) :
    (aiReturns cfg s k m).status = s.status := by
  unfold aiReturns; split
  · rfl
  · split
    · split
      · split
        · rename_i hl; exact absurd hl.1 hr
        · rfl
      · rfl
    · rfl

theorem aiReturns_running {cfg : Conf} {s : St} (hr : s.status = .running) (k : Nat) (m : Move)
    (hrules : AnswerOK cfg.basis s.p m) : (aiReturns cfg s k m).status = .running := by
  unfold aiReturns; split
  · exact hr
  · split
    · split
      · split
        · exact onAnswer_running (by exact hr) m hrules
        · exact hr
      · exact hr
    · exact hr

/-- one step from a running loop under well-formed traffic: it ends iff the event is a game end, and never panics -/
theorem step_status {cfg : Conf} {s : St} (h : SInv cfg s) (hr : s.status = .running)
    (e : Ev) (hok : LineOK cfg s e) :
    (isEnd cfg e → (step cfg s e).status = .ended) ∧ (¬ isEnd cfg e → (step cfg s e).status = .running) := by
  cases e with
  | close => simp [step, hr, isEnd]
  | timerFires =>
    refine ⟨fun he => absurd he (by simp [isEnd]), fun _ => ?_⟩
    simp only [step]; split <;> simp [hr]
  | grant k => exact ⟨fun he => absurd he (by simp [isEnd]), fun _ => by simp [step, grant_status, hr]⟩
  | aiReturns k m => exact ⟨fun he => absurd he (by simp [isEnd]), fun _ => aiReturns_running hr k m hok⟩
  | deliver bits parsed accept =>
    simp only [step, hr, if_true]
    match bits, hok with
    | [], _ => exact ⟨fun he => absurd he (by simp [isEnd]), fun _ => by simp [onLine, hr]⟩
    | [b0], hok =>
      obtain ⟨h1, h2⟩ : b0 ≠ cfg.gameStr ∧ b0 ≠ "Tell" := hok
      exact ⟨fun he => absurd he (by simp [isEnd]), fun _ => by simp [onLine, h1, h2, hr]⟩
    | b0 :: b1 :: args, hok =>
      obtain ⟨htell, hgame⟩ := hok
      by_cases hg : b0 = cfg.gameStr
      · obtain ⟨hmv, hover, htime, hundo⟩ := hgame hg
        simp only [onLine, hg, if_true, isEnd, true_and]
        unfold onGameLine
        simp only
        by_cases hP : b1 = "P" ∨ b1 = "M"
        · refine ⟨fun he => ?_, fun _ => ?_⟩
          · exfalso; rcases hP with rfl | rfl <;> simp at he
          · simp only [hP, if_true]; exact onServerMove_running h hr (hmv hP)
        · simp only [hP, if_false]
          by_cases hA : b1 = "Abandoned."
          · simp [hA]
          · simp only [hA, if_false]
            by_cases hO : b1 = "Over"
            · subst hO
              match args, hover rfl with
              | r :: _, _ => simp
            · simp only [hO, if_false]
              refine ⟨fun he => absurd he (by simp), fun _ => ?_⟩
              by_cases hT : b1 = "Time"
              · simp only [hT, if_true]; exact onTime_running hr (htime hT)
              · simp only [hT, if_false]
                by_cases hR : b1 = "RequestUndo"
                · simp [hR, onRequestUndo_status, hr]
                · simp only [hR, if_false]
                  by_cases hU : b1 = "Undo"
                  · simp only [hU, if_true]; exact onUndo_running h hr (hundo hU)
                  · simp [hU, hr]
      · refine ⟨fun he => absurd he.1 hg, fun _ => ?_⟩
        simp only [onLine, hg, if_false]
        by_cases ht : b0 = "Tell"
        · obtain ⟨_, hk⟩ := htell ht
          simp [keywords] at hk
          obtain ⟨k1, k2, k3, k4, k5, k6, k7⟩ := hk
          simp [ht, onGameLine, k1, k2, k3, k4, k5, k6, k7, hr]
        · simp [ht, hr]

theorem step_status_of_not_running {cfg : Conf} {s : St} (hr : s.status ≠ .running) (e : Ev) :
    (step cfg s e).status = s.status := by
  cases e with
  | deliver bits parsed accept => simp [step, hr]
  | close => simp [step, hr]
  | timerFires => simp [step, hr]
  | grant k => exact grant_status s k
  | aiReturns k m => exact aiReturns_status_of_not_running hr k m

theorem run_status_of_not_running {cfg : Conf} {s : St} (hr : s.status ≠ .running) (evs : List Ev) :
    (run cfg s evs).status = s.status := by
  induction evs generalizing s with
  | nil => rfl
  | cons e es ih =>
    have h1 := step_status_of_not_running (cfg := cfg) hr e
    show (run cfg (step cfg s e) es).status = s.status
    rw [ih (by rw [h1]; exact hr), h1]

theorem run_status {cfg : Conf} (hf : cfg.fixed = true) {s : St} (h : SInv cfg s)
    (hr : s.status = .running) (evs : List Ev) (hok : TraceOK cfg s evs) :
    ((∃ e ∈ evs, isEnd cfg e) → (run cfg s evs).status = .ended) ∧
    ((¬ ∃ e ∈ evs, isEnd cfg e) → (run cfg s evs).status = .running) := by
  induction evs generalizing s with
  | nil => exact ⟨fun ⟨e, he, _⟩ => (by cases he), fun _ => hr⟩
  | cons e es ih =>
    obtain ⟨hl, hrest⟩ := hok
    obtain ⟨hend, hnend⟩ := step_status h hr e (hl hr)
    have hs' := sinv_step hf h e
    by_cases he : isEnd cfg e
    · have hst := hend he
      have : (run cfg s (e :: es)).status = .ended := by
        show (run cfg (step cfg s e) es).status = .ended
        rw [run_status_of_not_running (by rw [hst]; decide), hst]
      exact ⟨fun _ => this, fun hno => absurd ⟨e, List.mem_cons_self, he⟩ hno⟩
    · have hst := hnend he
      obtain ⟨i1, i2⟩ := ih hs' hst hrest
      refine ⟨fun ⟨x, hx, hxe⟩ => ?_, fun hno => ?_⟩
      · rcases List.mem_cons.mp hx with rfl | hx
        · exact absurd hxe he
        · exact i1 ⟨x, hx, hxe⟩
      · exact i2 (fun ⟨x, hx, hxe⟩ => hno ⟨x, List.mem_cons_of_mem _ hx, hxe⟩)

/-- on the six board sizes `tak.New` succeeds and the loop starts -/
theorem start_running (cfg : Conf) (size : Nat) (secs : Int) (h1 : 3 ≤ size) (h2 : size ≤ 8) :
    (start cfg size secs).status = .running := by
  unfold start
  have hl : Facts.defaultPieces.length = 9 := by decide
  have : ∃ p, Pos.new { size := size, pieces := 0, capstones := 0, blackWinsTies := false } = .ok p := by
    unfold Pos.new
    simp only [hl]
    rw [if_neg (by omega)]
    show ∃ p, (if size < 3 ∨ size > 8 then _ else _) = Except.ok p
    rw [if_neg (by omega)]
    exact ⟨_, rfl⟩
  obtain ⟨p, hp⟩ := this
  rw [hp]
  rfl
/-! ### the hypotheses of `bot_ends_iff` are decidable on concrete traces -/

instance (basis : Array W) (p : Pos) (m : Move) : Decidable (Legal basis p m) :=
  match h : p.apply basis m with
  | .ok q => isTrue ⟨q, h⟩
  | .error _ => isFalse (fun ⟨q, hq⟩ => by rw [h] at hq; cases hq)

instance (basis : Array W) (p : Pos) (m : Move) : Decidable (AnswerOK basis p m) :=
  match h : p.apply basis m with
  | .ok _ => isTrue (by simp [AnswerOK, h])
  | .error (.illegal _) => isTrue (by simp [AnswerOK, h])
  | .error (.panic _) => isFalse (by simp [AnswerOK, h])
  | .error (.hang _) => isFalse (by simp [AnswerOK, h])

instance (cfg : Conf) (s : St) : (parsed : Option Move) → Decidable (MoveOK cfg s parsed)
  | none => isFalse (by simp [MoveOK])
  | some m =>
    match h : srvCur s with
    | none => isFalse (by simp [MoveOK, h])
    | some q =>
      if hl : Legal cfg.basis q m then isTrue (by simpa [MoveOK, h] using hl)
      else isFalse (by simpa [MoveOK, h] using hl)

instance (cfg : Conf) (s : St) : (e : Ev) → Decidable (LineOK cfg s e)
  | .deliver [] _ _ => isTrue trivial
  | .deliver [b0] _ _ => inferInstanceAs (Decidable (b0 ≠ cfg.gameStr ∧ b0 ≠ "Tell"))
  | .deliver (b0 :: b1 :: args) parsed _ =>
    inferInstanceAs (Decidable (
      (b0 = "Tell" → b0 ≠ cfg.gameStr ∧ b1 ∉ keywords) ∧
      (b0 = cfg.gameStr →
        ((b1 = "P" ∨ b1 = "M") → MoveOK cfg s parsed) ∧
        (b1 = "Over" → args ≠ []) ∧
        (b1 = "Time" → 2 ≤ args.length) ∧
        (b1 = "Undo" → s.srvMoves ≠ []))))
  | .aiReturns _ m => inferInstanceAs (Decidable (AnswerOK cfg.basis s.p m))
  | .close => isTrue trivial
  | .grant _ => isTrue trivial
  | .timerFires => isTrue trivial

instance decTraceOK (cfg : Conf) : (s : St) → (evs : List Ev) → Decidable (TraceOK cfg s evs)
  | _, [] => isTrue trivial
  | s, e :: es =>
    have := decTraceOK cfg (step cfg s e) es
    inferInstanceAs (Decidable ((s.status = .running → LineOK cfg s e) ∧ TraceOK cfg (step cfg s e) es))

instance (cfg : Conf) : (e : Ev) → Decidable (isEnd cfg e)
  | .close => isTrue trivial
  | .deliver [] _ _ => isFalse (fun h => h)
  | .deliver [_] _ _ => isFalse (fun h => h)
  | .deliver (b0 :: b1 :: _) _ _ => inferInstanceAs (Decidable (b0 = cfg.gameStr ∧ (b1 = "Over" ∨ b1 = "Abandoned.")))
  | .grant _ => isFalse (fun h => h)
  | .aiReturns _ _ => isFalse (fun h => h)
  | .timerFires => isFalse (fun h => h)

end Tak.Bot
