import TakVerif.Spec.Bot

/-! Lemmas for C07: the strengthened invariant of the bot loop and its preservation by every handler. -/
namespace Tak.Bot

/-- the part of the invariant that only mentions the record, the ghost server, the log and the status -/
structure Core (cfg : Conf) (s : St) : Prop where
  inv : Inv cfg s
  shape : ¬ s.crashed → s.positions.length = s.moves.length + 1

/-- the inductive invariant: while the loop listens to its thinker, that thinker was started on the
current position and it is the bot's turn there -/
structure SInv (cfg : Conf) (s : St) : Prop where
  core : Core cfg s
  listen : s.status = .running → s.listening = true → s.cur.pos = s.p ∧ s.p.toMove = cfg.color

theorem not_crashed_of_running {s : St} (h : s.status = .running) : ¬ s.crashed := by
  rintro ⟨e, he⟩; rw [h] at he; cases he

/-- `Core` only reads these fields -/
theorem Core.congr {cfg : Conf} {s t : St} (h : Core cfg s)
    (h1 : t.positions = s.positions) (h2 : t.moves = s.moves) (h3 : t.p = s.p)
    (h4 : t.srvPos = s.srvPos) (h5 : t.srvMoves = s.srvMoves) (h6 : t.log = s.log)
    (h7 : t.sent = s.sent) (h8 : t.status = s.status) : Core cfg t := by
  have hc : t.crashed ↔ s.crashed := by simp [St.crashed, h8]
  refine ⟨⟨?_, ?_, ?_⟩, ?_⟩
  · intro hn
    have := h.inv.tracks (by rwa [hc] at hn)
    simpa [RecordTracks, h1, h2, h3, h4, h5] using this
  · simpa [h6] using h.inv.sends
  · have := h.inv.logged
    simpa [sentMoves, h6, h7] using this
  · intro hn
    have := h.shape (by rwa [hc] at hn)
    simpa [h1, h2] using this

theorem sinv_spawn {cfg : Conf} {s : St} (h : Core cfg s) : SInv cfg (spawn cfg s) := by
  refine ⟨h.congr rfl rfl rfl rfl rfl rfl rfl rfl, ?_⟩
  intro _ hl
  simp only [spawn] at hl ⊢
  exact ⟨rfl, by simpa using hl⟩

theorem sinv_retFalse {cfg : Conf} {s : St} (h : Core cfg s) : SInv cfg (retFalse cfg s) := by
  unfold retFalse
  exact sinv_spawn (h.congr rfl rfl rfl rfl rfl rfl rfl rfl)

theorem sinv_of_core_not_running {cfg : Conf} {s : St} (h : Core cfg s) (hs : s.status ≠ .running) : SInv cfg s :=
  ⟨h, fun hr => absurd hr hs⟩

/-- a state whose loop is gone but whose record, log and transmissions are those of `s` -/
theorem core_ended {cfg : Conf} {s t : St} (h : Core cfg s) (hr : s.status = .running)
    (h1 : t.positions = s.positions) (h2 : t.moves = s.moves) (h3 : t.p = s.p)
    (h4 : t.srvPos = s.srvPos) (h5 : t.srvMoves = s.srvMoves) (h6 : t.log = s.log)
    (h7 : t.sent = s.sent) (h8 : t.status = .ended) : Core cfg t := by
  have hn := not_crashed_of_running hr
  refine ⟨⟨?_, ?_, ?_⟩, ?_⟩
  · intro _
    have := h.inv.tracks hn
    simpa [RecordTracks, h1, h2, h3, h4, h5] using this
  · simpa [h6] using h.inv.sends
  · have := h.inv.logged
    simpa [sentMoves, h6, h7] using this
  · intro _
    have := h.shape hn
    simpa [h1, h2] using this

theorem sinv_retTrue {cfg : Conf} {s : St} (h : Core cfg s) (hr : s.status = .running) : SInv cfg (retTrue s) := by
  refine sinv_of_core_not_running (core_ended h hr rfl rfl rfl rfl rfl rfl rfl rfl) ?_
  simp [retTrue]

/-- after a panic only the log and the transmissions are still claimed -/
theorem core_crashed {cfg : Conf} {s t : St} (h : Core cfg s) (e : Err)
    (h6 : t.log = s.log) (h7 : t.sent = s.sent) (h8 : t.status = .crashed e) : Core cfg t := by
  have hc : t.crashed := ⟨e, h8⟩
  refine ⟨⟨fun hn => absurd hc hn, ?_, ?_⟩, fun hn => absurd hc hn⟩
  · simpa [h6] using h.inv.sends
  · have := h.inv.logged
    simpa [sentMoves, h6, h7] using this

theorem sinv_crash {cfg : Conf} {s : St} (h : Core cfg s) (e : Err) : SInv cfg (s.crash e) := by
  refine sinv_of_core_not_running (core_crashed h e rfl rfl rfl) ?_
  simp [St.crash]

end Tak.Bot
