import TakVerif.Proofs.BotCompose

/-! # The ghost records of the composed bot are right (helper for `Props/C07_compose.lean`)

`CInv`: every recorded `GetMove` call is what the model of the real `GetMove` computes from what the call read; the
call in progress belongs to a thinker started on the position it was handed; every returned move is what the branch
taken prescribes (the searcher's answer for exactly that position from the engine state of that moment, the rule's
script, or the zero move); every transmitted move is one of these returns, by the thinker of the position it was sent
in; the commands sent from inside `GetMove` are exactly the resignations; the engine state satisfies `G`. -/
namespace Tak.Compose
open Tak Tak.Bot Tak.Glue Tak.FPA

variable {σ χ : Type}

def CallOK (c : Conf) (call : Call) : Prop :=
  glueOn c call.fpa call.positions call.moves call.pos call.mine call.chk = .ok (call.fpa', call.act)

def RetOK (S : Searcher σ χ) (r : Ret σ χ) : Prop :=
  match r.call.act with
  | .think _ _ => ∃ x eng', r.x = some x ∧ S.run x r.call.pos r.eng = .ok (r.move, eng')
  | .move m => r.move = m ∧ r.x = none
  | .resign _ => r.move = Bot.zeroMove ∧ r.x = none
  | .noMove => r.move = Bot.zeroMove ∧ r.x = none

structure CInv (c : Conf) (S : Searcher σ χ) (G : σ → Prop) (s : St σ χ) : Prop where
  calls : ∀ call ∈ s.calls, CallOK c call
  inside : ∀ call, s.inside = some call → call ∈ s.calls ∧ ∃ t, thinkerAt s.b call.k = some t ∧ t.pos = call.pos
  rets : ∀ r ∈ s.rets, r.call ∈ s.calls ∧ RetOK S r
  log : ∀ rec ∈ s.b.log, ∃ r ∈ s.rets, r.move = rec.move ∧ r.call.pos = rec.tag
  glue : glueWire s.wire = s.calls.flatMap (fun call => resignWire call.act)
  eng : G s.eng
  retsG : ∀ r ∈ s.rets, G r.eng

variable {c : Conf} {S : Searcher σ χ} {G : σ → Prop} {A : Pos → Prop} {p0 : Pos}

theorem thinkerAt_step {b : Bot.St} (cfg : Bot.Conf) (e : Bot.Ev) {k : Nat} {t : Thinker} (h : thinkerAt b k = some t) :
    ∃ t', thinkerAt (Bot.step cfg b e) k = some t' ∧ t'.pos = t.pos :=
  (text_step cfg b e).thinker h

theorem thinkerAt_run {b : Bot.St} (cfg : Bot.Conf) (evs : List Bot.Ev) {k : Nat} {t : Thinker} (h : thinkerAt b k = some t) :
    ∃ t', thinkerAt (Bot.run cfg b evs) k = some t' ∧ t'.pos = t.pos :=
  (text_run cfg b evs).thinker h

theorem thinkerAt_cur {b : Bot.St} {t : Thinker} (h : thinkerAt b b.old.length = some t) : t = b.cur := by
  unfold thinkerAt thinkers at h
  rw [List.getElem?_append_right (Nat.le_refl _)] at h
  simpa using h.symm

theorem cinv_loopStep (h : CInv c S G s) (e : Bot.Ev)
    (he : (∃ bits parsed acc, e = .deliver bits parsed acc) ∨ e = .close ∨ e = .timerFires) :
    CInv c S G (loopStep c s e) := by
  have hlog : (Bot.step c.bot s.b e).log = s.b.log := by
    apply log_step_loop
    rcases he with h | h | h
    · exact .inl h
    · exact .inr (.inl h)
    · exact .inr (.inr (.inl h))
  refine ⟨h.calls, ?_, h.rets, ?_, ?_, h.eng, h.retsG⟩
  · intro call hc
    obtain ⟨h1, t, ht, hp⟩ := h.inside call hc
    obtain ⟨t', ht', hp'⟩ := thinkerAt_step c.bot e ht
    exact ⟨h1, t', ht', by rw [hp', hp]⟩
  · intro rec hrec
    have hrec' : rec ∈ (Bot.step c.bot s.b e).log := hrec
    rw [hlog] at hrec'
    exact h.log rec hrec'
  · show glueWire (s.wire ++ newSent s.b _) = _
    rw [glueWire_append, glueWire_newSent, List.append_nil]
    exact h.glue

theorem flatMap_append_singleton {α β : Type} (l : List α) (a : α) (f : α → List β) :
    (l ++ [a]).flatMap f = l.flatMap f ++ f a := by
  simp

theorem cinv_enter (hz : ∀ p q, A p → p.apply c.bot.basis Bot.zeroMove ≠ .ok q) (hP : PInv A p0 s.b)
    (h : CInv c S G s) (k : Nat) (chk : CheckOracle) : CInv c S G (enter c s k chk) := by
  unfold enter
  split
  · exact h
  · rename_i t ht
    split
    · exact h
    · rename_i hen
      have hnone : s.inside = none := by
        cases hi : s.inside with
        | none => rfl
        | some x => simp [hi] at hen
      have hin : ∀ (b' : Bot.St) call, (none : Option Call) = some call →
          call ∈ s.calls ∧ ∃ t, thinkerAt b' call.k = some t ∧ t.pos = call.pos := fun _ _ hc => by cases hc
      split
      · -- the guarded call of a cancelled thinker: lock taken and released
        refine ⟨h.calls, by rw [hnone]; exact hin _, h.rets, ?_, h.glue, h.eng, h.retsG⟩
        intro rec hrec
        have hl : (Bot.aiReturns c.bot (Bot.grant s.b k) k Bot.zeroMove).log = s.b.log := by
          rw [log_aiReturns_rejected, grant_log]
          intro q
          rw [grant_p]
          exact hz _ q hP.p
        have hrec' : rec ∈ (Bot.aiReturns c.bot (Bot.grant s.b k) k Bot.zeroMove).log := hrec
        rw [hl] at hrec'
        exact h.log rec hrec'
      · have hlog : ∀ rec ∈ (Bot.grant s.b k).log, ∃ r ∈ s.rets, r.move = rec.move ∧ r.call.pos = rec.tag := by
          intro rec hrec
          rw [grant_log] at hrec
          exact h.log rec hrec
        split
        · exact ⟨h.calls, by rw [hnone]; exact hin _, h.rets, hlog, h.glue, h.eng, h.retsG⟩
        · split
          · exact ⟨h.calls, by rw [hnone]; exact hin _, h.rets, hlog, h.glue, h.eng, h.retsG⟩
          · rename_i fpa' act hglue
            refine ⟨?_, ?_, ?_, hlog, ?_, h.eng, h.retsG⟩
            · intro call hc
              simp only [List.mem_append, List.mem_singleton] at hc
              rcases hc with hc | rfl
              · exact h.calls call hc
              · exact hglue
            · intro call hc
              injection hc with hc
              subst hc
              refine ⟨by simp, ?_⟩
              obtain ⟨t', ht', hp'⟩ := thinkerAt_step c.bot (.grant k) ht
              exact ⟨t', ht', hp'⟩
            · intro r hr
              obtain ⟨h1, h2⟩ := h.rets r hr
              exact ⟨List.mem_append_left _ h1, h2⟩
            · show glueWire (s.wire ++ resignWire act) = _
              rw [glueWire_append, glueWire_resignWire, flatMap_append_singleton, h.glue]

theorem cinv_ret (hI : CInv c S G s) (call : Call) (hin : s.inside = some call) (x : Option χ) (m : Move) (eng' : σ)
    (hr : RetOK S { call := call, eng := s.eng, x := x, move := m }) (hG : G eng') :
    CInv c S G (ret c s call x m eng') := by
  obtain ⟨hcall, t, ht, hpos⟩ := hI.inside call hin
  refine ⟨hI.calls, (fun _ hc => by cases hc), ?_, ?_, ?_, hG, ?_⟩
  · intro r hr'
    have hr'' : r ∈ s.rets ++ [{ call := call, eng := s.eng, x := x, move := m }] := hr'
    simp only [List.mem_append, List.mem_singleton] at hr''
    rcases hr'' with hr'' | rfl
    · exact hI.rets r hr''
    · exact ⟨hcall, hr⟩
  · intro rec hrec
    have hrec' : rec ∈ (Bot.aiReturns c.bot s.b call.k m).log := hrec
    rcases log_aiReturns c.bot s.b call.k m with hl | ⟨hk, _, r0, hm, htag, hl⟩
    · rw [hl] at hrec'
      obtain ⟨r, hr1, hr2⟩ := hI.log rec hrec'
      exact ⟨r, List.mem_append_left _ hr1, hr2⟩
    · rw [hl] at hrec'
      simp only [List.mem_append, List.mem_singleton] at hrec'
      rcases hrec' with hrec' | rfl
      · obtain ⟨r, hr1, hr2⟩ := hI.log rec hrec'
        exact ⟨r, List.mem_append_left _ hr1, hr2⟩
      · refine ⟨{ call := call, eng := s.eng, x := x, move := m }, List.mem_append_right _ List.mem_cons_self, hm.symm, ?_⟩
        show call.pos = rec.tag
        rw [htag, ← hpos]
        rw [hk] at ht
        rw [thinkerAt_cur ht]
  · show glueWire (s.wire ++ newSent s.b _) = _
    rw [glueWire_append, glueWire_newSent, List.append_nil]
    exact hI.glue
  · intro r hr'
    have hr'' : r ∈ s.rets ++ [{ call := call, eng := s.eng, x := x, move := m }] := hr'
    simp only [List.mem_append, List.mem_singleton] at hr''
    rcases hr'' with hr'' | rfl
    · exact hI.retsG r hr''
    · exact hI.eng

theorem cinv_leave (hS : ∀ x p e m e', A p → G e → S.run x p e = .ok (m, e') → G e') (hP : PInv A p0 s.b)
    (h : CInv c S G s) (k : Nat) (x : χ) : CInv c S G (leave c S s k x) := by
  unfold leave
  split
  · exact h
  · rename_i call hin
    split
    · exact h
    · split
      · exact h
      · split
        · exact h
        · split
          · rename_i msg hact
            split
            · exact cinv_ret h call hin none _ _ (by simp [RetOK, hact]) h.eng
            · exact h
          · rename_i hact
            exact cinv_ret h call hin none _ _ (by simp [RetOK, hact]) h.eng
          · rename_i m hact
            exact cinv_ret h call hin none _ _ (by simp [RetOK, hact]) h.eng
          · rename_i lim fl hact
            split
            · exact ⟨h.calls, h.inside, h.rets, h.log, h.glue, h.eng, h.retsG⟩
            · rename_i m eng' hrun
              have hA : A call.pos := by
                obtain ⟨_, t, ht, hp⟩ := h.inside call hin
                rw [← hp]
                have hmem : t ∈ thinkers s.b := List.mem_of_getElem? ht
                unfold thinkers at hmem
                simp only [List.mem_append, List.mem_singleton] at hmem
                rcases hmem with hm | rfl
                · exact hP.old t hm
                · exact hP.cur
              exact cinv_ret h call hin (some x) m eng'
                (by simp only [RetOK, hact]; exact ⟨x, eng', rfl, hrun⟩) (hS x call.pos s.eng m eng' hA h.eng hrun)

theorem cinv_step (hS : ∀ x p e m e', A p → G e → S.run x p e = .ok (m, e') → G e')
    (hz : ∀ p q, A p → p.apply c.bot.basis Bot.zeroMove ≠ .ok q) (hP : PInv A p0 s.b)
    (h : CInv c S G s) (e : Ev χ) : CInv c S G (step c S s e) := by
  unfold step
  split
  · exact h
  · cases e with
    | deliver bits parsed => exact cinv_loopStep h _ (.inl ⟨_, _, _, rfl⟩)
    | close => exact cinv_loopStep h _ (.inr (.inl rfl))
    | timerFires => exact cinv_loopStep h _ (.inr (.inr rfl))
    | enter k chk => exact cinv_enter hz hP h k chk
    | leave k x => exact cinv_leave hS hP h k x

theorem pinv_composed_step (hA : ∀ p m q, A p → p.apply c.bot.basis m = .ok q → A q) (S : Searcher σ χ)
    (hP : PInv A p0 s.b) (e : Ev χ) : PInv A p0 (step c S s e).b := by
  obtain ⟨evs, he⟩ := step_b c S s e
  rw [he]
  exact pinv_run hA c.bot rfl hP evs

theorem cinv_run (hA : ∀ p m q, A p → p.apply c.bot.basis m = .ok q → A q)
    (hS : ∀ x p e m e', A p → G e → S.run x p e = .ok (m, e') → G e')
    (hz : ∀ p q, A p → p.apply c.bot.basis Bot.zeroMove ≠ .ok q) (s : St σ χ) (hP : PInv A p0 s.b)
    (h : CInv c S G s) (evs : List (Ev χ)) : CInv c S G (run c S s evs) ∧ PInv A p0 (run c S s evs).b := by
  induction evs generalizing s with
  | nil => exact ⟨h, hP⟩
  | cons e es ih => exact ih (step c S s e) (pinv_composed_step hA S hP e) (cinv_step hS hz hP h e)

end Tak.Compose
