import TakVerif.Impl.CmdCorpus

/-! Lemmas about the model of the `gencorpus` workers (`Impl/CmdCorpus.lean`). -/
namespace Tak.CmdCorpus

variable {D : Type}

theorem toMove_cases (p : Pos) : p.toMove = .white ∨ p.toMove = .black := by
  unfold Pos.toMove; split <;> simp

/-- what the worker may rely on about a solver: a new one has the configured attacker; a call fixes an unset
attacker to the side to move of its root and never changes a set one -/
structure SolversOK (sv : Solvers D) : Prop where
  new_att : ∀ c, sv.attacker (sv.new c) = c
  prove_att : ∀ d p r d', sv.prove d p = .ok (r, d') →
    sv.attacker d' = if sv.attacker d == .none then p.toMove else sv.attacker d

/-- entry `e` was obtained for position `p` from a solver whose attacker was `att` -/
def LabelledBy (sv : Solvers D) (att : Color) (p : Pos) (e : Entry) : Prop :=
  ∃ d r d', (sv.attacker d = att ∨ (sv.attacker d = .none ∧ p.toMove = att)) ∧ sv.prove d p = .ok (r, d') ∧ e = dfpnLabel r

/-- the solvers a fixed worker holds are the ones configured for their colour -/
def WorkerInv (sv : Solvers D) (w : DfpnWorker D) : Prop :=
  (∀ d, w.white = some d → sv.attacker d = .white) ∧ (∀ d, w.black = some d → sv.attacker d = .black)

theorem solverFor_attacker (sv : Solvers D) (hsv : SolversOK sv) (w : DfpnWorker D) (hinv : WorkerInv sv w)
    (c : Color) (hc : c = .white ∨ c = .black) : sv.attacker (w.solverFor sv c) = c := by
  unfold DfpnWorker.solverFor
  rcases hc with rfl | rfl
  · simp only [beq_self_eq_true, if_true]
    cases hw : w.white with
    | some d => exact hinv.1 d hw
    | none => exact hsv.new_att _
  · have : (Color.black == Color.white) = false := by decide
    simp only [this, Bool.false_eq_true, if_false]
    cases hw : w.black with
    | some d => exact hinv.2 d hw
    | none => exact hsv.new_att _

theorem dfpnStep_spec (sv : Solvers D) (hsv : SolversOK sv) (w w' : DfpnWorker D) (p : Pos) (e : Entry)
    (hinv : WorkerInv sv w) (h : dfpnStep sv w p = .ok (e, w')) :
    (∃ d r d', sv.attacker d = p.toMove ∧ sv.prove d p = .ok (r, d') ∧ e = dfpnLabel r) ∧ WorkerInv sv w' := by
  unfold dfpnStep at h
  dsimp only at h
  have hd := solverFor_attacker sv hsv w hinv p.toMove (toMove_cases p)
  generalize w.solverFor sv p.toMove = d at h hd
  cases hp : sv.prove d p with
  | error x => rw [hp] at h; cases h
  | ok r =>
    obtain ⟨r, d'⟩ := r
    rw [hp] at h
    simp only [Except.ok.injEq, Prod.mk.injEq] at h
    obtain ⟨he, hw'⟩ := h
    refine ⟨⟨d, r, d', hd, hp, he.symm⟩, ?_⟩
    have hatt := hsv.prove_att d p r d' hp
    rw [hd] at hatt
    have hatt' : sv.attacker d' = p.toMove := by
      rcases toMove_cases p with hm | hm <;> rw [hm] at hatt ⊢ <;> simpa using hatt
    subst hw'
    rcases toMove_cases p with hm | hm
    · simp only [hm, beq_self_eq_true, if_true]
      exact ⟨fun x hx => by simp at hx; subst hx; rw [hatt', hm], fun x hx => hinv.2 x hx⟩
    · have : (Color.black == Color.white) = false := by decide
      simp only [hm, this, Bool.false_eq_true, if_false]
      exact ⟨fun x hx => hinv.1 x hx, fun x hx => by simp at hx; subst hx; rw [hatt', hm]⟩

/-- the entries of a fixed worker, position by position: each was obtained from a solver whose attacker is the side
to move of the position it labels -/
theorem dfpnWorker_spec (sv : Solvers D) (hsv : SolversOK sv) :
    ∀ (ps : List Pos) (w : DfpnWorker D) (es : List Entry), WorkerInv sv w → dfpnWorker sv w ps = .ok es →
      es.length = ps.length ∧
      ∀ x ∈ ps.zip es, ∃ d r d', sv.attacker d = x.1.toMove ∧ sv.prove d x.1 = .ok (r, d') ∧ x.2 = dfpnLabel r := by
  intro ps
  induction ps with
  | nil => intro w es _ h; simp [dfpnWorker] at h; subst h; simp
  | cons p ps ih =>
    intro w es hinv h
    unfold dfpnWorker at h
    cases hs : dfpnStep sv w p with
    | error x => rw [hs] at h; cases h
    | ok r =>
      obtain ⟨e, w'⟩ := r
      rw [hs] at h
      dsimp only at h
      obtain ⟨hlab, hinv'⟩ := dfpnStep_spec sv hsv w w' p e hinv hs
      cases hr : dfpnWorker sv w' ps with
      | error x => rw [hr] at h; cases h
      | ok es' =>
        rw [hr] at h
        cases h
        obtain ⟨hlen, hall⟩ := ih w' es' hinv' hr
        refine ⟨by simp [hlen], ?_⟩
        intro x hx
        simp only [List.zip_cons_cons, List.mem_cons] at hx
        rcases hx with rfl | hx
        · exact hlab
        · exact hall x hx

/-- the entries a worker gives the positions with side to move `c` -/
def entriesOf (c : Color) (ps : List Pos) (es : List Entry) : List Entry :=
  ((ps.zip es).filter (fun x => x.1.toMove == c)).map (·.2)

/-- **a fixed worker is two independent single-attacker workers**: the entries of the positions with side to move
`c` are exactly what ONE solver with attacker `c`, fed only those positions in the same order, gives — whatever
positions of the other colour arrive in between -/
theorem dfpnWorker_splits (sv : Solvers D) (c : Color) (hc : c = .white ∨ c = .black) :
    ∀ (ps : List Pos) (w : DfpnWorker D) (es : List Entry), dfpnWorker sv w ps = .ok es →
      dfpnWorkerPinnedFrom sv (w.solverFor sv c) (ps.filter (fun p => p.toMove == c)) = .ok (entriesOf c ps es) := by
  intro ps
  induction ps with
  | nil => intro w es h; simp [dfpnWorker] at h; subst h; rfl
  | cons p ps ih =>
    intro w es h
    unfold dfpnWorker at h
    cases hs : dfpnStep sv w p with
    | error x => rw [hs] at h; cases h
    | ok r =>
      obtain ⟨e, w'⟩ := r
      rw [hs] at h
      dsimp only at h
      cases hr : dfpnWorker sv w' ps with
      | error x => rw [hr] at h; cases h
      | ok es' =>
        rw [hr] at h
        cases h
        have hrec := ih w' es' hr
        unfold dfpnStep at hs
        by_cases hpc : (p.toMove == c) = true
        · -- this position goes to the solver of colour c
          have hpc' : p.toMove = c := by simpa using hpc
          simp only [List.filter_cons, hpc, if_true, entriesOf, List.zip_cons_cons, List.map_cons]
          unfold dfpnWorkerPinnedFrom
          dsimp only at hs
          rw [hpc'] at hs
          cases hp : sv.prove (w.solverFor sv c) p with
          | error x => rw [hp] at hs; cases hs
          | ok r =>
            obtain ⟨r, d'⟩ := r
            rw [hp] at hs
            simp only [Except.ok.injEq, Prod.mk.injEq] at hs
            obtain ⟨he, hw'⟩ := hs
            dsimp only
            have hnext : w'.solverFor sv c = d' := by
              subst hw'
              unfold DfpnWorker.solverFor
              rcases hc with rfl | rfl
              · simp
              · have : (Color.black == Color.white) = false := by decide
                simp [this]
            rw [hnext] at hrec
            rw [hrec, he]
            rfl
        · -- the other colour: the solver of colour c is untouched
          have hpc' : ¬ p.toMove = c := by simpa using hpc
          simp only [Bool.not_eq_true] at hpc
          simp only [List.filter_cons, hpc, Bool.false_eq_true, if_false, entriesOf, List.zip_cons_cons]
          have hkeep : w'.solverFor sv c = w.solverFor sv c := by
            dsimp only at hs
            cases hp : sv.prove (w.solverFor sv p.toMove) p with
            | error x => rw [hp] at hs; cases hs
            | ok r =>
              obtain ⟨r, d'⟩ := r
              rw [hp] at hs
              simp only [Except.ok.injEq, Prod.mk.injEq] at hs
              obtain ⟨_, hw'⟩ := hs
              subst hw'
              unfold DfpnWorker.solverFor
              rcases hc with rfl | rfl
              · have hb : p.toMove = .black := by rcases toMove_cases p with h | h; exact absurd h hpc'; exact h
                have : (Color.black == Color.white) = false := by decide
                simp [hb, this]
              · have hb : p.toMove = .white := by rcases toMove_cases p with h | h; exact h; exact absurd h hpc'
                have : (Color.black == Color.white) = false := by decide
                simp [hb, this]
          rw [hkeep] at hrec
          exact hrec

/-- every call of the pinned worker after the first uses the attacker the first call fixed -/
theorem dfpnWorkerPinnedFrom_spec (sv : Solvers D) (hsv : SolversOK sv) (att : Color) (hatt : att ≠ .none) :
    ∀ (ps : List Pos) (d : D) (es : List Entry), sv.attacker d = att → dfpnWorkerPinnedFrom sv d ps = .ok es →
      es.length = ps.length ∧
      ∀ x ∈ ps.zip es, ∃ d r d', sv.attacker d = att ∧ sv.prove d x.1 = .ok (r, d') ∧ x.2 = dfpnLabel r := by
  intro ps
  induction ps with
  | nil => intro d es _ h; simp [dfpnWorkerPinnedFrom] at h; subst h; simp
  | cons p ps ih =>
    intro d es hd h
    unfold dfpnWorkerPinnedFrom at h
    cases hp : sv.prove d p with
    | error x => rw [hp] at h; cases h
    | ok r =>
      obtain ⟨r, d'⟩ := r
      rw [hp] at h
      dsimp only at h
      cases hr : dfpnWorkerPinnedFrom sv d' ps with
      | error x => rw [hr] at h; cases h
      | ok es' =>
        rw [hr] at h
        cases h
        have hd' : sv.attacker d' = att := by
          rw [hsv.prove_att d p r d' hp, hd]
          have : (att == Color.none) = false := by cases att <;> simp_all
          simp [this]
        obtain ⟨hlen, hall⟩ := ih d' es' hd' hr
        refine ⟨by simp [hlen], ?_⟩
        intro x hx
        simp only [List.zip_cons_cons, List.mem_cons] at hx
        rcases hx with rfl | hx
        · exact ⟨d, r, d', hd, hp, rfl⟩
        · exact hall x hx

/-- the model solver satisfies what the worker relies on -/
theorem takSolvers_ok (basis : Array W) (scale : UInt32 → UInt32) (fuel : Nat) : SolversOK (takSolvers basis scale fuel) where
  new_att := fun _ => rfl
  prove_att := by
    intro d p r d' h
    simp only [takSolvers, Tak.DFPN.takProveWith, Tak.DFPN.proveWith] at h
    split at h
    · cases h
    · rename_i r0 s0 d0 heq
      simp only [Except.ok.injEq, Prod.mk.injEq] at h
      obtain ⟨_, hd⟩ := h
      subst hd
      split at heq
      · cases heq
      · simp only [Except.ok.injEq, Prod.mk.injEq] at heq
        obtain ⟨_, _, hd0⟩ := heq
        subst hd0
        rfl

end Tak.CmdCorpus
