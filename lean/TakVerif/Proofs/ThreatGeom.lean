import TakVerif.Proofs.ThreatExtract

/-! C19, step 2: the geometry of a counted square.  If the counted square `s` becomes a road square of the
side and the joined group(s) stay, two squares on opposite edges are connected. -/
namespace C19
open Tak Roads Spec

/-! ### edge masks, `Nat` index -/

theorem R_mem {n : Nat} (hn : SizeOK n) {i : Nat} (h : (Gen.precompute n).R.getLsbD i = true) :
    i % n = 0 ∧ i < n * n := by
  by_cases hi : i < 64
  · have := R_bit n hn ⟨i, hi⟩
    rw [this] at h; simpa using h
  · rw [BitVec.getLsbD_of_ge _ _ (by omega)] at h; cases h

theorem L_mem {n : Nat} (hn : SizeOK n) {i : Nat} (h : (Gen.precompute n).L.getLsbD i = true) :
    i % n = n - 1 ∧ i < n * n := by
  by_cases hi : i < 64
  · have := L_bit n hn ⟨i, hi⟩
    rw [this] at h; simpa using h
  · rw [BitVec.getLsbD_of_ge _ _ (by omega)] at h; cases h

theorem T_mem {n : Nat} (hn : SizeOK n) {i : Nat} (h : (Gen.precompute n).T.getLsbD i = true) :
    i / n = n - 1 ∧ i < n * n := by
  by_cases hi : i < 64
  · have := T_bit n hn ⟨i, hi⟩
    rw [this] at h; simpa using h
  · rw [BitVec.getLsbD_of_ge _ _ (by omega)] at h; cases h

theorem B_mem {n : Nat} (hn : SizeOK n) {i : Nat} (h : (Gen.precompute n).B.getLsbD i = true) :
    i / n = 0 ∧ i < n * n := by
  by_cases hi : i < 64
  · have := B_bit n hn ⟨i, hi⟩
    rw [this] at h
    have h1 : i < n := by simpa using h
    have : n ≤ n * n := Nat.le_mul_self n
    exact ⟨Nat.div_eq_of_lt h1, by omega⟩
  · rw [BitVec.getLsbD_of_ge _ _ (by omega)] at h; cases h

/-! ### connectivity of a kept group inside the new road squares -/

/-- `o` is internally connected inside `bits'` -/
def ConnIn (n : Nat) (bits' o : W) : Prop :=
  ∀ a b, o.getLsbD a = true → o.getLsbD b = true → Conn n (fun k => bits'.getLsbD k = true) a b

/-- a component of `bits` all of whose squares are still in `bits'` is connected inside `bits'` -/
theorem comp_connIn {n : Nat} {bits bits' g : W} (hg : IsComp n bits g)
    (hkeep : ∀ k, g.getLsbD k = true → bits'.getLsbD k = true) : ConnIn n bits' g := by
  intro a b ha hb
  have hab : Conn n (fun x => bits.getLsbD x = true) a b := (hg.eq_of_mem ha b).mp hb
  have hclosed : ∀ j k, g.getLsbD j = true → j < n * n → k ∈ neighbours n j → bits.getLsbD k = true →
      g.getLsbD k = true := by
    intro j k hj hjn hk hbk
    have hjj : Conn n (fun x => bits.getLsbD x = true) j j := Conn.refl hjn (hg.sub j hj)
    exact (hg.eq_of_mem hj k).mpr (Conn.step hjj hk hbk)
  have := Conn.restrict (fun k => g.getLsbD k = true) hclosed ha hab
  exact this.mono (fun k hk => hkeep k hk.2)

/-- a single square of `bits'` is connected inside `bits'` -/
theorem single_connIn {n : Nat} {bits' o : W} (k : Nat) (hk : k < n * n) (ho : ∀ i, o.getLsbD i = decide (i = k))
    (hb : bits'.getLsbD k = true) : ConnIn n bits' o := by
  intro a b ha hb'
  rw [ho] at ha hb'
  have ea : a = k := by simpa using ha
  have eb : b = k := by simpa using hb'
  subst ea; subst eb
  exact Conn.refl hk hb

/-- attaching the square `s` (in `bits'`) next to a connected set -/
theorem attach {n : Nat} {bits' o : W} {s : Nat} (hc : ConnIn n bits' o) (hs : bits'.getLsbD s = true)
    (hsn : s < n * n) (hadj : o.getLsbD s = true ∨ ∃ j ∈ neighbours n s, o.getLsbD j = true) :
    ∀ a, o.getLsbD a = true → Conn n (fun k => bits'.getLsbD k = true) a s := by
  intro a ha
  rcases hadj with h | ⟨j, hj, hoj⟩
  · exact hc a s ha h
  · have h1 := hc a j ha hoj
    exact Conn.step h1 (neighbours_symm hsn hj) hs

/-! ### edge gap -/

theorem shr_bit (g : W) (k i : Nat) : (g >>> k).getLsbD i = g.getLsbD (k + i) := BitVec.getLsbD_ushiftRight ..

theorem shl_bit (g : W) (k i : Nat) (h : (g <<< k).getLsbD i = true) : k ≤ i ∧ g.getLsbD (i - k) = true := by
  rw [BitVec.getLsbD_shiftLeft] at h
  simp only [Bool.and_eq_true, Bool.not_eq_true', decide_eq_true_eq, decide_eq_false_iff_not] at h
  exact ⟨by omega, h.2⟩

/-- an edge gap: the gap square is on the far edge, next to a square of `g`, and `g` has a square on the near edge -/
theorem edgeGap_geom {n : Nat} (hn : SizeOK n) {g : W} {s : Nat} (h : EdgeGap (Gen.precompute n) g s) :
    s < n * n ∧ (∃ j ∈ neighbours n s, g.getLsbD j = true) ∧
    ∃ a, g.getLsbD a = true ∧ (Spans n s a ∨ Spans n a s) := by
  have h3 : 3 ≤ n := hn.1
  unfold EdgeGap at h
  rw [precompute_Size] at h
  rcases h with ⟨h1, h2, h3'⟩ | ⟨h1, h2, h3'⟩ | ⟨h1, h2, h3'⟩ | ⟨h1, h2, h3'⟩
  · obtain ⟨a, ha, hal⟩ := (and_ne_zero_iff _ _).mp h1
    obtain ⟨al, _⟩ := L_mem hn hal
    obtain ⟨sr, ss⟩ := R_mem hn h3'
    rw [shr_bit] at h2
    refine ⟨ss, ⟨1 + s, ?_, h2⟩, a, ha, Or.inl (Or.inl ⟨sr, al⟩)⟩
    rw [mem_neighbours]; right; left; exact ⟨by omega, by omega⟩
  · obtain ⟨a, ha, har⟩ := (and_ne_zero_iff _ _).mp h1
    obtain ⟨ar, _⟩ := R_mem hn har
    obtain ⟨sl, ss⟩ := L_mem hn h3'
    obtain ⟨k1, h2⟩ := shl_bit _ _ _ h2
    refine ⟨ss, ⟨s - 1, ?_, h2⟩, a, ha, Or.inr (Or.inl ⟨ar, sl⟩)⟩
    rw [mem_neighbours]; left; exact ⟨by omega, rfl⟩
  · obtain ⟨a, ha, hat⟩ := (and_ne_zero_iff _ _).mp h1
    obtain ⟨at', _⟩ := T_mem hn hat
    obtain ⟨sb, ss⟩ := B_mem hn h3'
    rw [shr_bit] at h2
    refine ⟨ss, ⟨n + s, ?_, h2⟩, a, ha, Or.inl (Or.inr ⟨sb, at'⟩)⟩
    rw [mem_neighbours]; right; right; right; exact ⟨by omega, by omega⟩
  · obtain ⟨a, ha, hab⟩ := (and_ne_zero_iff _ _).mp h1
    obtain ⟨ab', _⟩ := B_mem hn hab
    obtain ⟨st, ss⟩ := T_mem hn h3'
    obtain ⟨k1, h2⟩ := shl_bit _ _ _ h2
    refine ⟨ss, ⟨s - n, ?_, h2⟩, a, ha, Or.inr (Or.inr ⟨ab', st⟩)⟩
    rw [mem_neighbours]; right; right; left; exact ⟨by omega, rfl⟩

/-- **Edge case**: the group kept, the gap square filled ⇒ two connected squares on opposite edges. -/
theorem edge_spans {n : Nat} (hn : SizeOK n) {bits' g : W} {s : Nat}
    (hgap : EdgeGap (Gen.precompute n) g s) (hc : ConnIn n bits' g) (hs : bits'.getLsbD s = true) :
    ∃ i j, Conn n (fun k => bits'.getLsbD k = true) i j ∧ Spans n i j := by
  obtain ⟨hsn, hadj, a, ha, hsp⟩ := edgeGap_geom hn hgap
  have hconn := attach hc hs hsn (Or.inr hadj) a ha
  rcases hsp with h | h
  · exact ⟨s, a, hconn.symm, h⟩
  · exact ⟨a, s, hconn, h⟩

/-! ### junction -/

/-- `opposed`: a square of `g` and a square of `o` on opposite edges -/
theorem opposed_geom {n : Nat} (hn : SizeOK n) {g o : W} (h : opposed (Gen.precompute n) g o = true) :
    ∃ a b, g.getLsbD a = true ∧ o.getLsbD b = true ∧ (Spans n a b ∨ Spans n b a) := by
  unfold opposed at h
  simp only [Bool.or_eq_true, Bool.and_eq_true] at h
  rcases h with ((⟨h1, h2⟩ | ⟨h1, h2⟩) | ⟨h1, h2⟩) | ⟨h1, h2⟩
  · obtain ⟨a, ha, x⟩ := (and_ne_zero_iff _ _).mp h1
    obtain ⟨b, hb, y⟩ := (and_ne_zero_iff _ _).mp h2
    exact ⟨a, b, ha, hb, Or.inr (Or.inl ⟨(R_mem hn y).1, (L_mem hn x).1⟩)⟩
  · obtain ⟨a, ha, x⟩ := (and_ne_zero_iff _ _).mp h1
    obtain ⟨b, hb, y⟩ := (and_ne_zero_iff _ _).mp h2
    exact ⟨a, b, ha, hb, Or.inl (Or.inl ⟨(R_mem hn x).1, (L_mem hn y).1⟩)⟩
  · obtain ⟨a, ha, x⟩ := (and_ne_zero_iff _ _).mp h1
    obtain ⟨b, hb, y⟩ := (and_ne_zero_iff _ _).mp h2
    exact ⟨a, b, ha, hb, Or.inl (Or.inr ⟨(B_mem hn x).1, (T_mem hn y).1⟩)⟩
  · obtain ⟨a, ha, x⟩ := (and_ne_zero_iff _ _).mp h1
    obtain ⟨b, hb, y⟩ := (and_ne_zero_iff _ _).mp h2
    exact ⟨a, b, ha, hb, Or.inr (Or.inr ⟨(B_mem hn y).1, (T_mem hn x).1⟩)⟩

/-- membership in `Grow(c, Mask, o)` as adjacency -/
theorem grow_mask_adj {n : Nat} (hn : SizeOK n) {o : W} (ho : Sub o (Gen.precompute n).Mask) {s : Nat}
    (h : (Gen.grow (Gen.precompute n) (Gen.precompute n).Mask o).getLsbD s = true) :
    s < n * n ∧ (o.getLsbD s = true ∨ ∃ j ∈ neighbours n s, o.getLsbD j = true) := by
  rw [grow_mem n hn _ _ (Sub.refl _) ho] at h
  exact ⟨lt_of_mask hn (Sub.refl _) h.1, h.2⟩

/-- **Junction case**: both partners kept, the junction square filled ⇒ two connected squares on opposite edges. -/
theorem junction_spans {n : Nat} (hn : SizeOK n) {bits' g o : W} {s : Nat}
    (hgm : Sub g (Gen.precompute n).Mask) (hom : Sub o (Gen.precompute n).Mask)
    (hop : opposed (Gen.precompute n) g o = true)
    (hg : (Gen.grow (Gen.precompute n) (Gen.precompute n).Mask g).getLsbD s = true)
    (ho : (Gen.grow (Gen.precompute n) (Gen.precompute n).Mask o).getLsbD s = true)
    (hcg : ConnIn n bits' g) (hco : ConnIn n bits' o) (hs : bits'.getLsbD s = true) :
    ∃ i j, Conn n (fun k => bits'.getLsbD k = true) i j ∧ Spans n i j := by
  obtain ⟨a, b, ha, hb, hsp⟩ := opposed_geom hn hop
  obtain ⟨hsn, hadjg⟩ := grow_mask_adj hn hgm hg
  obtain ⟨_, hadjo⟩ := grow_mask_adj hn hom ho
  have c1 := attach hcg hs hsn hadjg a ha
  have c2 := attach hco hs hsn hadjo b hb
  rcases hsp with h | h
  · exact ⟨a, b, c1.trans c2.symm, h⟩
  · exact ⟨b, a, c2.trans c1.symm, h⟩

end C19
