import TakVerif.Proofs.EvalBound2

/-! Terminal scores: `evaluateTerminal` is `± (WinBase + bounded bonuses)` or 0. -/
namespace C18
open Tak

/-- how far the terminal bonuses can move the value away from `WinBase` when `0 ≤ ply ≤ N`:
reserves are bytes (≤ 255), the flat margin is a difference of two popcounts or the board size (≤ 64) -/
def TermSlack (w : Weights) (N : Int) : Int :=
  255 * ab (w.at Facts.fTerminalReserves) + 64 * ab (w.at Facts.fTerminalFlats)
    + 255 * ab (w.at Facts.fTerminalOpponentReserves) + N * ab (w.at Facts.fTerminalPlies)

theorem winDetails_winner (p : Pos) : p.winDetails.winner = p.gameOver.2 := by
  unfold Pos.winDetails
  rcases h : p.gameOver with ⟨o, c⟩
  rcases h2 : p.countFlats with ⟨a, b⟩
  rfl

theorem winDetails_flats (p : Pos) : p.winDetails.whiteFlats ≤ 64 ∧ p.winDetails.blackFlats ≤ 64 := by
  unfold Pos.winDetails
  rcases h : p.gameOver with ⟨o, c⟩
  have h2 : p.countFlats = (popcount (p.white &&& ~~~(p.standing ||| p.caps)), popcount (p.black &&& ~~~(p.standing ||| p.caps))) := rfl
  rw [h2]
  exact ⟨popcount_le _, popcount_le _⟩

theorem u8_lt (x : U8) : (x.toNat : Int) < 256 := by have := x.isLt; omega

/-- shape of the terminal value: `WinBase` plus four weights times bounded factors -/
theorem terminalValue_form (p : Pos) (w : Weights) (hs : p.cfg.size ≤ 64) :
    ∃ res fl opp : Int, 0 ≤ res ∧ res ≤ 255 ∧ -64 ≤ fl ∧ fl ≤ 64 ∧ 0 ≤ opp ∧ opp ≤ 255 ∧
      terminalValue p w = Facts.winBase + (w.at Facts.fTerminalReserves * res + w.at Facts.fTerminalFlats * fl
        + w.at Facts.fTerminalOpponentReserves * opp + w.at Facts.fTerminalPlies * p.move) := by
  unfold terminalValue
  simp only []
  have hf := winDetails_flats p
  generalize p.winDetails = d at *
  have r1 := u8_lt p.whiteStones
  have r2 := u8_lt p.blackStones
  refine ⟨_, _, _, ?_, ?_, ?_, ?_, ?_, ?_, rfl⟩
  · split <;> omega
  · split <;> omega
  · split
    · omega
    · split <;> omega
  · split
    · omega
    · split <;> omega
  · split <;> omega
  · split <;> omega

theorem terminalValue_bounds (p : Pos) (w : Weights) (N : Int) (hs : p.cfg.size ≤ 64)
    (h0 : 0 ≤ p.move) (hN : p.move ≤ N) :
    Facts.winBase - TermSlack w N ≤ terminalValue p w ∧ terminalValue p w ≤ Facts.winBase + TermSlack w N := by
  obtain ⟨res, fl, opp, h1, h2, h3, h4, h5, h6, e⟩ := terminalValue_form p w hs
  rw [e]
  unfold TermSlack
  have b1 := mul_bound' res (w.at Facts.fTerminalReserves) 255 (by omega) (by omega)
  have b2 := mul_bound' fl (w.at Facts.fTerminalFlats) 64 (by omega) (by omega)
  have b3 := mul_bound' opp (w.at Facts.fTerminalOpponentReserves) 255 (by omega) (by omega)
  have b4 := mul_bound' p.move (w.at Facts.fTerminalPlies) N (by omega) (by omega)
  omega

/-- the numeric condition on a weight set that keeps finished games outside the undecided range up to ply `N` -/
def TermOK (w : Weights) (N : Int) : Prop :=
  TermSlack w N < Facts.winBase - Facts.winThreshold ∧ TermSlack w N ≤ Facts.maxEval - Facts.winBase

instance (w : Weights) (N : Int) : Decidable (TermOK w N) := by unfold TermOK; infer_instance

theorem evaluate_over (c : Consts) (w : Weights) (p : Pos) (h : p.gameOver.1 = true) :
    evaluate c w p = .ok (evaluateTerminal p w) := by
  unfold evaluate; rw [h]; simp

theorem evaluateTerminal_cases (p : Pos) (w : Weights) :
    (p.gameOver.2 = .none → evaluateTerminal p w = 0) ∧
    (p.gameOver.2 ≠ .none → p.gameOver.2 = p.toMove → evaluateTerminal p w = terminalValue p w) ∧
    (p.gameOver.2 ≠ .none → p.gameOver.2 ≠ p.toMove → evaluateTerminal p w = -(terminalValue p w)) := by
  unfold evaluateTerminal
  simp only [winDetails_winner]
  refine ⟨?_, ?_, ?_⟩
  · intro h; simp [h]
  · intro h1 h2
    have h3 : ¬ (p.toMove = Color.none) := by rw [← h2]; exact h1
    simp [h2, h3]
  · intro h1 h2; simp [h1, h2]

end C18
