import TakVerif.Proofs.Bot
import TakVerif.Proofs.ApplyCfg

/-! # The bot loop never changes the board size (helper for `Props/C07_legal.lean`)

`SizeInv n s`: the record's current position, every recorded position and the position of every ghost log entry
live on an `n`×`n` board.  It holds at the start of `PlayGame size` and is kept by every event, because the only
way the loop gets a new position is `Position.Move`, which never touches the configuration (`apply_cfg`). -/
namespace Tak.Bot
open Tak

/-- the part of the state the invariant reads -/
def view (s : St) : Pos × List Pos × List SentRec := (s.p, s.positions, s.log)

def SizeInv (n : Nat) (s : St) : Prop :=
  s.p.cfg.size = n ∧ (∀ q ∈ s.positions, q.cfg.size = n) ∧ (∀ r ∈ s.log, r.recAt.cfg.size = n)

theorem SizeInv.of_view {n : Nat} {s t : St} (h : SizeInv n s) (hv : view t = view s) : SizeInv n t := by
  simp only [view, Prod.mk.injEq] at hv
  obtain ⟨h1, h2, h3⟩ := hv
  unfold SizeInv
  rw [h1, h2, h3]
  exact h

@[simp] theorem view_spawn (cfg : Conf) (s : St) : view (spawn cfg s) = view s := rfl
@[simp] theorem view_retFalse (cfg : Conf) (s : St) : view (retFalse cfg s) = view s := rfl
@[simp] theorem view_retTrue (s : St) : view (retTrue s) = view s := rfl
@[simp] theorem view_crash (s : St) (e : Err) : view (s.crash e) = view s := rfl

@[simp] theorem view_srvPush (cfg : Conf) (s : St) (m : Move) : view (srvPush cfg s m) = view s := by
  unfold srvPush
  split
  · rfl
  · split <;> rfl

@[simp] theorem view_srvAccept (cfg : Conf) (s : St) (m : Move) : view (srvAccept cfg s m) = view s := by
  unfold srvAccept
  split
  · rfl
  · split
    · exact view_srvPush cfg s m
    · rfl

@[simp] theorem view_srvPop (s : St) : view (srvPop s) = view s := by
  unfold srvPop
  split <;> rfl

theorem sizeInv_onServerMove {n : Nat} (cfg : Conf) {s : St} (h : SizeInv n s) (parsed : Option Move) :
    SizeInv n (onServerMove cfg s parsed) := by
  unfold onServerMove
  cases parsed with
  | none => exact h.of_view (view_crash _ _)
  | some m =>
    dsimp only
    have hv := view_srvPush cfg s m
    have h' : SizeInv n (srvPush cfg s m) := h.of_view hv
    cases ha : (srvPush cfg s m).p.apply cfg.basis m with
    | error e => exact h'.of_view (view_crash _ _)
    | ok q =>
      dsimp only
      have hq : q.cfg.size = n := by rw [apply_cfg ha]; exact h'.1
      refine ⟨hq, ?_, h'.2.2⟩
      intro r hr
      simp only [List.mem_cons] at hr
      rcases hr with rfl | hr
      · exact hq
      · exact h'.2.1 r hr

theorem sizeInv_onTime {n : Nat} (cfg : Conf) {s : St} (h : SizeInv n s) (args : List String) :
    SizeInv n (onTime cfg s args) := by
  unfold onTime
  split
  · dsimp only
    split
    · split
      · exact h.of_view rfl
      · exact h.of_view rfl
    · split
      · exact h.of_view rfl
      · exact h.of_view rfl
  · exact h.of_view (view_crash _ _)

theorem sizeInv_onRequestUndo {n : Nat} {s : St} (h : SizeInv n s) (accept : Bool) :
    SizeInv n (onRequestUndo s accept) := by
  unfold onRequestUndo
  split
  · exact h.of_view rfl
  · exact h

theorem sizeInv_onUndo {n : Nat} (cfg : Conf) {s : St} (h : SizeInv n s) : SizeInv n (onUndo cfg s) := by
  unfold onUndo
  dsimp only
  have h' : SizeInv n (srvPop s) := h.of_view (view_srvPop s)
  split
  · exact h'.of_view (view_crash _ _)
  · rename_i q0 ps hps
    split
    · exact ⟨h'.1, fun q hq => h'.2.1 q (by rw [hps]; exact List.mem_cons_of_mem _ hq), h'.2.2⟩
    · split
      · exact ⟨h'.1, fun q hq => h'.2.1 q (by rw [hps]; exact List.mem_cons_of_mem _ hq), h'.2.2⟩
      · rename_i q qs
        have hq : q.cfg.size = n := h'.2.1 q (by rw [hps]; simp)
        exact ⟨hq, fun r hr => h'.2.1 r (by rw [hps]; exact List.mem_cons_of_mem _ hr), h'.2.2⟩

theorem sizeInv_onGameLine {n : Nat} (cfg : Conf) {s : St} (h : SizeInv n s) (rest : List String)
    (parsed : Option Move) (accept : Bool) : SizeInv n (onGameLine cfg s rest parsed accept) := by
  unfold onGameLine
  split
  · exact h.of_view (view_crash _ _)
  · split
    · exact sizeInv_onServerMove cfg h parsed
    · split
      · exact h.of_view (view_retTrue _)
      · split
        · split
          · exact h.of_view (view_crash _ _)
          · exact h.of_view rfl
        · split
          · exact sizeInv_onTime cfg h _
          · split
            · exact sizeInv_onRequestUndo h accept
            · split
              · exact sizeInv_onUndo cfg h
              · exact h

theorem sizeInv_onLine {n : Nat} (cfg : Conf) {s : St} (h : SizeInv n s) (bits : List String)
    (parsed : Option Move) (accept : Bool) : SizeInv n (onLine cfg s bits parsed accept) := by
  unfold onLine
  split
  · exact h
  · split
    · exact sizeInv_onGameLine cfg h _ parsed accept
    · split
      · exact sizeInv_onGameLine cfg h _ parsed accept
      · exact h

theorem sizeInv_onAnswer {n : Nat} (cfg : Conf) {s : St} (h : SizeInv n s) (m : Move) :
    SizeInv n (onAnswer cfg s m) := by
  unfold onAnswer
  cases ha : s.p.apply cfg.basis m with
  | error e =>
    cases e with
    | illegal w => exact h.of_view (view_retFalse _ _)
    | panic w => exact h.of_view (view_crash _ _)
    | hang w => exact h.of_view (view_crash _ _)
  | ok q =>
    dsimp only
    have hq : q.cfg.size = n := by rw [apply_cfg ha]; exact h.1
    let s1 : St := { s with log := s.log ++ [{ move := m, recAt := s.p, srvAt := srvCur s, tag := s.cur.pos }] }
    have h1 : SizeInv n s1 := by
      refine ⟨h.1, h.2.1, ?_⟩
      intro r hr
      simp only [s1, List.mem_append, List.mem_singleton] at hr
      rcases hr with hr | rfl
      · exact h.2.2 r hr
      · exact h.1
    have h2 : SizeInv n (srvAccept cfg s1 m) := h1.of_view (view_srvAccept cfg s1 m)
    refine ⟨hq, ?_, h2.2.2⟩
    intro r hr
    have hr' : r ∈ q :: (srvAccept cfg s1 m).positions := hr
    simp only [List.mem_cons] at hr'
    rcases hr' with rfl | hr'
    · exact hq
    · exact h2.2.1 r hr'

theorem sizeInv_step {n : Nat} (cfg : Conf) {s : St} (h : SizeInv n s) (e : Ev) : SizeInv n (step cfg s e) := by
  cases e with
  | deliver bits parsed accept =>
    simp only [step]
    split
    · exact sizeInv_onLine cfg h bits parsed accept
    · exact h
  | close =>
    simp only [step]
    split
    · exact h.of_view (view_retTrue _)
    · exact h
  | timerFires =>
    simp only [step]
    split
    · exact h.of_view (view_retFalse _ _)
    · exact h
  | grant k =>
    simp only [step, grant]
    split
    · exact h
    · split
      · exact h.of_view rfl
      · split
        · exact h.of_view rfl
        · exact h
  | aiReturns k m =>
    simp only [step, aiReturns]
    split
    · exact h.of_view rfl
    · split
      · split
        · split
          · exact sizeInv_onAnswer cfg (s := { s with cur := { s.cur with st := .done, cancelled := true } }) (h.of_view rfl) m
          · exact h.of_view rfl
        · exact h
      · exact h

theorem sizeInv_run {n : Nat} (cfg : Conf) {s : St} (h : SizeInv n s) (evs : List Ev) : SizeInv n (run cfg s evs) := by
  induction evs generalizing s with
  | nil => exact h
  | cons e es ih => exact ih (sizeInv_step cfg h e)

theorem sizeInv_start (cfg : Conf) (size : Nat) (secs : Int) (h3 : 3 ≤ size) (h8 : size ≤ 8) :
    SizeInv size (start cfg size secs) := by
  unfold start
  cases hn : Pos.new { size := size, pieces := 0, capstones := 0, blackWinsTies := false } with
  | error e =>
    exfalso
    unfold Pos.new at hn
    have : Facts.defaultPieces.length = 9 := by decide
    split at hn
    · dsimp only at *; omega
    · dsimp only at hn
      split at hn
      · dsimp only at *; omega
      · cases hn
  | ok p0 =>
    dsimp only
    have hp : p0.cfg.size = size := by
      unfold Pos.new at hn
      split at hn
      · cases hn
      · dsimp only at hn
        split at hn
        · cases hn
        · injection hn with hn; subst hn; rfl
    refine ⟨hp, ?_, ?_⟩
    · intro q hq
      have hq' : q ∈ [p0] := hq
      simp only [List.mem_singleton] at hq'; rw [hq']; exact hp
    · intro r hr
      have hr' : r ∈ ([] : List SentRec) := hr
      cases hr'

end Tak.Bot
