import TakVerif.Proofs.WF

/-! C08: `Equal` and `Hash()` see exactly (size, squares, side to move) on well-formed positions:
the representation is normalised, so equal squares force equal bitboards, heights, stacks and hash field. -/
namespace Tak
open Spec (abs)

theorem flatOf_inj {a b : Bool} (h : flatOf a = flatOf b) : a = b := by
  cases a <;> cases b <;> simp [flatOf] at h <;> rfl

theorem Cell.top_inj {c c' : Cell} (h : c.TopWF) (h' : c'.TopWF) (ht : c.top = c'.top) :
    c.w = c'.w ∧ c.b = c'.b ∧ c.s = c'.s ∧ c.c = c'.c := by
  have a1 := h.wb; have a2 := h.sc; have a3 := h.kind_occ
  have b1 := h'.wb; have b2 := h'.sc; have b3 := h'.kind_occ
  unfold Cell.top at ht
  cases hw : c.w <;> cases hb : c.b <;> cases hs : c.s <;> cases hc : c.c <;>
    cases hw' : c'.w <;> cases hb' : c'.b <;> cases hs' : c'.s <;> cases hc' : c'.c <;>
    simp_all

/-- a well-formed cell is determined by the list of pieces it denotes -/
theorem Cell.square_inj {c c' : Cell} (h : c.WF) (h' : c'.WF) (hsq : c.square = c'.square) : c = c' := by
  have htop : c.top = c'.top := by rw [← Cell.square_head, ← Cell.square_head, hsq]
  obtain ⟨e1, e2, e3, e4⟩ := Cell.top_inj h.toTopWF h'.toTopWF htop
  have hlen : c.h.toNat = c'.h.toNat := by rw [← Cell.square_length h, ← Cell.square_length h', hsq]
  have e5 : c.h = c'.h := BitVec.eq_of_toNat_eq hlen
  refine Cell.ext' e1 e2 e3 e4 e5 ?_
  apply BitVec.eq_of_getLsbD_eq
  intro k _
  by_cases hk : c.h.toNat - 1 ≤ k
  · rw [h.st_hi k hk, h'.st_hi k (by omega)]
  · cases ht : c.top with
    | none =>
      have := (c.top_none_iff).1 ht
      have := Cell.h_zero_of_empty h this.1 this.2
      omega
    | some t =>
      have ht' : c'.top = some t := by rw [← htop]; exact ht
      rw [Cell.square_cons ht, Cell.square_cons ht'] at hsq
      simp only [List.cons.injEq, true_and] at hsq
      have hk1 : k < (buried c.st (c.h.toNat - 1)).length := by rw [buried_length]; omega
      have hk2 : k < (buried c'.st (c'.h.toNat - 1)).length := by rw [buried_length]; omega
      have : (buried c.st (c.h.toNat - 1))[k] = (buried c'.st (c'.h.toNat - 1))[k] := by
        simp only [hsq]
      rw [buried_getElem, buried_getElem] at this
      exact flatOf_inj this

/-- equal cells everywhere ⇒ equal words / arrays -/
theorem pos_eq_of_cells {basis : Array W} {p q : Pos} (hp : WF basis p) (hq : WF basis q) (hs : p.cfg.size = q.cfg.size)
    (hc : ∀ j, p.cell j = q.cell j) :
    p.white = q.white ∧ p.black = q.black ∧ p.standing = q.standing ∧ p.caps = q.caps ∧
    p.height = q.height ∧ p.stacks = q.stacks ∧ p.hash = q.hash := by
  have w : p.white = q.white := BitVec.eq_of_getLsbD_eq fun j _ => congrArg Cell.w (hc j)
  have b : p.black = q.black := BitVec.eq_of_getLsbD_eq fun j _ => congrArg Cell.b (hc j)
  have s : p.standing = q.standing := BitVec.eq_of_getLsbD_eq fun j _ => congrArg Cell.s (hc j)
  have c : p.caps = q.caps := BitVec.eq_of_getLsbD_eq fun j _ => congrArg Cell.c (hc j)
  have hh : p.height = q.height := by
    apply Array.ext
    · rw [hp.height_size, hq.height_size, hs]
    · intro j h1 h2
      have := congrArg Cell.h (hc j)
      simp only [Pos.cell, Array.getD_eq_getD_getElem?, Array.getElem?_eq_getElem h1, Array.getElem?_eq_getElem h2,
        Option.getD_some] at this
      exact this
  have hst : p.stacks = q.stacks := by
    apply Array.ext
    · rw [hp.stacks_size, hq.stacks_size, hs]
    · intro j h1 h2
      have := congrArg Cell.st (hc j)
      simp only [Pos.cell, Array.getD_eq_getD_getElem?, Array.getElem?_eq_getElem h1, Array.getElem?_eq_getElem h2,
        Option.getD_some] at this
      exact this
  refine ⟨w, b, s, c, hh, hst, ?_⟩
  rw [hp.hash, hq.hash, scratchHash_eq, scratchHash_eq, hh, hst]

/-- same size and same squares ⇒ same cells (the normalisation invariant at work) -/
theorem cells_of_squares {basis : Array W} {p q : Pos} (hp : WF basis p) (hq : WF basis q) (hs : p.cfg.size = q.cfg.size)
    (hsq : (abs p).squares = (abs q).squares) (j : Nat) : p.cell j = q.cell j := by
  by_cases hj : j < p.cfg.size * p.cfg.size
  · apply Cell.square_inj (hp.cell j) (hq.cell j)
    rw [← abs_squares_getD p j hj, ← abs_squares_getD q j (by rw [← hs]; exact hj), hsq]
  · have hj' : p.cfg.size * p.cfg.size ≤ j := by omega
    have ⟨a1, a2, a3, a4⟩ := hp.mask j hj'
    have ⟨b1, b2, b3, b4⟩ := hq.mask j (by rw [← hs]; exact hj')
    apply Cell.ext' <;> simp only [Pos.cell]
    · rw [a1, b1]
    · rw [a2, b2]
    · rw [a3, b3]
    · rw [a4, b4]
    · rw [getD_oob _ _ _ (by rw [hp.height_size]; exact hj'), getD_oob _ _ _ (by rw [hq.height_size, ← hs]; exact hj')]
    · rw [getD_oob _ _ _ (by rw [hp.stacks_size]; exact hj'), getD_oob _ _ _ (by rw [hq.stacks_size, ← hs]; exact hj')]

theorem squares_of_cells {p q : Pos} (hs : p.cfg.size = q.cfg.size) (hc : ∀ j, p.cell j = q.cell j) :
    (abs p).squares = (abs q).squares := by
  unfold Spec.abs
  simp only
  rw [hs]
  apply List.map_congr_left
  intro j _
  rw [squareAt_cell, squareAt_cell, hc]

theorem equal_iff_core {basis : Array W} {p q : Pos} (hp : WF basis p) (hq : WF basis q) :
    p.equal q = true ↔ p.cfg.size = q.cfg.size ∧ (abs p).squares = (abs q).squares ∧ p.toMove = q.toMove := by
  constructor
  · intro h
    unfold Pos.equal at h
    simp only [Bool.and_eq_true, beq_iff_eq, List.all_eq_true, List.mem_range] at h
    obtain ⟨⟨⟨⟨⟨⟨⟨hs, _⟩, hw⟩, hb⟩, hst⟩, hc⟩, htm⟩, harr⟩ := h
    refine ⟨hs, squares_of_cells hs ?_, htm⟩
    intro j
    apply Cell.ext' <;> simp only [Pos.cell]
    · rw [hw]
    · rw [hb]
    · rw [hst]
    · rw [hc]
    · by_cases hj : j < p.height.size
      · exact (harr j hj).1
      · rw [getD_oob _ _ _ (by omega), getD_oob _ _ _ (by rw [hq.height_size, ← hs, ← hp.height_size]; omega)]
    · by_cases hj : j < p.height.size
      · exact (harr j hj).2
      · rw [getD_oob _ _ _ (by rw [hp.stacks_size, ← hp.height_size]; omega),
          getD_oob _ _ _ (by rw [hq.stacks_size, ← hs, ← hp.height_size]; omega)]
  · intro ⟨hs, hsq, htm⟩
    have hc := cells_of_squares hp hq hs hsq
    obtain ⟨e1, e2, e3, e4, e5, e6, e7⟩ := pos_eq_of_cells hp hq hs hc
    unfold Pos.equal
    simp only [Bool.and_eq_true, beq_iff_eq, List.all_eq_true, List.mem_range]
    refine ⟨⟨⟨⟨⟨⟨⟨hs, e7⟩, e1⟩, e2⟩, e3⟩, e4⟩, htm⟩, ?_⟩
    intro j _
    rw [e5, e6]; exact ⟨rfl, rfl⟩

theorem hash_congr_core {basis : Array W} {p q : Pos} (hp : WF basis p) (hq : WF basis q)
    (hs : p.cfg.size = q.cfg.size) (hsq : (abs p).squares = (abs q).squares) (htm : p.toMove = q.toMove) :
    p.hashOf = q.hashOf := by
  have hc := cells_of_squares hp hq hs hsq
  obtain ⟨e1, e2, e3, e4, _, _, e7⟩ := pos_eq_of_cells hp hq hs hc
  unfold Pos.hashOf
  rw [e1, e2, e3, e4, e7, htm]

end Tak
