import TakVerif.Proofs.CanonTak
import TakVerif.Proofs.BookLegal

/-! The bit-level model of `Canonical` (`Tak.canonical`: eight replays through `Pos.apply`, stabiliser test by
hash, `TransformMove` with int8 arithmetic, `compose` of closures) computes the list-level algorithm
`Spec.canon`, given the facts about the position code that C01/C08 prove (`PosFacts2`) and the absence of
hash collisions among the (at most eight) images of each canonical board of the game. -/
namespace Tak
open Spec

/-- `PosFacts` plus: a move the rule book allows is accepted by `Move`; positions that show the same board,
reserves and ply have the same `Hash()` -/
structure PosFacts2 (basis : Array W) (size : Nat) (Inv : Pos → Prop) (Ok : Pos → Move → Prop) : Prop
    extends PosFacts basis size Inv Ok where
  complete : ∀ p m s', Inv p → Ok p m → Spec.step (Spec.abs p) (Spec.decode m) = some s' →
    ∃ p', p.apply basis m = .ok p'
  hash_abs : ∀ p q, Inv p → Inv q → Spec.abs p = Spec.abs q → p.hashOf = q.hashOf
  /-- the side condition holds for every rule-book-legal move of every position of the invariant (with C01's
  `Ok`: a legal move is not the pass; the 64-piece limit follows from a piece budget carried by `Inv`) -/
  ok_of_legal : ∀ p m, Inv p → (Spec.step (Spec.abs p) (Spec.decode m)).isSome = true → Ok p m

/-- each board of the list shows the image of `b0` under its index -/
def BoardsRel (Inv : Pos → Prop) (n : Nat) (l : List (Pos × Fin 8)) (b0 : State) : Prop :=
  ∀ qk ∈ l, Inv qk.1 ∧ Spec.abs qk.1 = Sym.state qk.2 b0 ∧ qk.1.cfg.size = n

theorem prod_single (k : Fin 8) : Symm.prod [k] = k := by simp [Symm.prod, Sym.mul_one]

theorem onB_range {n : Nat} (hn : n ≤ 8) {x y : Int} (h : onB n x y) :
    (-100 ≤ x ∧ x ≤ 100) ∧ (-100 ≤ y ∧ y ≤ 100) := by
  simp only [onB] at h; omega

theorem raw_coords (k : Sym) (n : Int) (m : Move) : ((Sym.raw k n m).x, (Sym.raw k n m).y) = k.app n m.x m.y := by
  unfold Sym.raw; cases dirOf m.type <;> rfl

theorem raw_onB (k : Sym) (n : Int) (m : Move) : onB n (Sym.raw k n m).x (Sym.raw k n m).y ↔ onB n m.x m.y := by
  have := raw_coords k n m
  have h1 : (Sym.raw k n m).x = (k.app n m.x m.y).1 := by rw [← this]
  have h2 : (Sym.raw k n m).y = (k.app n m.x m.y).2 := by rw [← this]
  rw [h1, h2]; exact Sym.onB_app k n m.x m.y

/-- the scan by hashes is the scan by boards -/
theorem scan_sim {basis : Array W} {n : Nat} {Inv : Pos → Prop} {Ok : Pos → Move → Prop} (F : PosFacts2 basis n Inv Ok) (hn : n ≤ 8)
    (b0 : State) (hb0 : b0.size = n) (q0 : Pos) (hq0 : Inv q0) (ha0 : Spec.abs q0 = b0)
    (m : Move) (hm : onB n m.x m.y) :
    ∀ (l : List (Pos × Fin 8)) (best : Move) (rot : Option (Fin 8)), BoardsRel Inv n l b0 →
      (∀ qk ∈ l, qk.1.hashOf = q0.hashOf → Spec.abs qk.1 = Spec.abs q0) →
      Tak.canonScan n q0.hashOf m l best rot = .ok (Spec.canonScan b0 m (l.map (·.2)) (best, rot)) := by
  intro l
  induction l with
  | nil => intro best rot _ _; rfl
  | cons qk rest ih =>
    intro best rot hrel hnc
    obtain ⟨q, k⟩ := qk
    obtain ⟨i1, i2, i3⟩ := hrel (q, k) (by simp)
    have hrest : BoardsRel Inv n rest b0 := fun x hx => hrel x (List.mem_cons_of_mem _ hx)
    have hncr : ∀ qk ∈ rest, qk.1.hashOf = q0.hashOf → Spec.abs qk.1 = Spec.abs q0 :=
      fun x hx => hnc x (List.mem_cons_of_mem _ hx)
    have hcond : (q.hashOf == q0.hashOf) = true ↔ Sym.state k b0 = b0 := by
      rw [beq_iff_eq]
      constructor
      · intro h
        have := hnc (q, k) (by simp) h
        simp only at this
        rw [i2, ha0] at this; exact this
      · intro h
        apply F.hash_abs q q0 i1 hq0
        rw [i2, ha0, h]
    have htm : transformMove n [k] m = .ok (Sym.raw k n m) := by
      have := transformMove_raw hn [k] m (onB_range hn hm).1 (onB_range hn hm).2
      rw [prod_single] at this; exact this
    have hsz : ((b0.size : Nat) : Int) = (n : Int) := by rw [hb0]
    by_cases hc : Sym.state k b0 = b0
    · have hc' := hcond.2 hc
      have e1 : Tak.canonScan n q0.hashOf m ((q, k) :: rest) best rot =
          (if preferMove (Sym.raw k n m) best = true then Tak.canonScan n q0.hashOf m rest (Sym.raw k n m) (some k)
           else Tak.canonScan n q0.hashOf m rest best rot) := by
        simp only [Tak.canonScan, hc', if_true, htm, bind, Except.bind]
      have e2 : Spec.canonScan b0 m (((q, k) :: rest).map (·.2)) (best, rot) =
          (if Spec.prefer (Sym.raw k n m) best = true then Spec.canonScan b0 m (rest.map (·.2)) (Sym.raw k n m, some k)
           else Spec.canonScan b0 m (rest.map (·.2)) (best, rot)) := by
        simp only [List.map_cons, Spec.canonScan, hc, if_true, hsz]
      rw [e1, e2]
      have : preferMove (Sym.raw k n m) best = Spec.prefer (Sym.raw k n m) best := rfl
      rw [this]
      split
      · exact ih _ _ hrest hncr
      · exact ih _ _ hrest hncr
    · have hc' : ¬ ((q.hashOf == q0.hashOf) = true) := fun h => hc (hcond.1 h)
      have e1 : Tak.canonScan n q0.hashOf m ((q, k) :: rest) best rot = Tak.canonScan n q0.hashOf m rest best rot := by
        simp only [Tak.canonScan, hc']; rfl
      have e2 : Spec.canonScan b0 m (((q, k) :: rest).map (·.2)) (best, rot) =
          Spec.canonScan b0 m (rest.map (·.2)) (best, rot) := by
        simp only [List.map_cons, Spec.canonScan, hc, if_false]
      rw [e1, e2]
      exact ih _ _ hrest hncr

/-- the eight replays: all succeed, and the new boards show the images of the new board 0 -/
theorem replay_sim {basis : Array W} {n : Nat} {Inv : Pos → Prop} {Ok : Pos → Move → Prop} (F : PosFacts2 basis n Inv Ok) (hn : n ≤ 8)
    (b0 b0' : State) (hb0 : b0.size = n) (hwf : b0.WF) (m : Move) (hm : onB n m.x m.y)
    (hstep : Spec.step b0 (Spec.decode m) = some b0') :
    ∀ (l : List (Pos × Fin 8)), BoardsRel Inv n l b0 →
      ∃ l', Tak.canonReplay basis n m l = .ok l' ∧ l'.length = l.length ∧
        BoardsRel Inv n (l'.zip (l.map (·.2))) b0' := by
  intro l
  induction l with
  | nil => intro _; exact ⟨[], rfl, rfl, by intro x hx; simp at hx⟩
  | cons qk rest ih =>
    intro hrel
    obtain ⟨q, k⟩ := qk
    obtain ⟨i1, i2, i3⟩ := hrel (q, k) (by simp)
    obtain ⟨l', r1, r2, r3⟩ := ih (fun x hx => hrel x (List.mem_cons_of_mem _ hx))
    have htm : transformMove n [k] m = .ok (Sym.raw k n m) := by
      have := transformMove_raw hn [k] m (onB_range hn hm).1 (onB_range hn hm).2
      rw [prod_single] at this; exact this
    have hs : Spec.step (Spec.abs q) (Spec.decode (Sym.raw k n m)) = some (Sym.state k b0') := by
      rw [i2, decode_raw]
      have := Sym.step_equivariant k b0 hwf (Spec.decode m)
      rw [hb0] at this
      rw [this, hstep]; rfl
    have hok : Ok q (Sym.raw k n m) := F.ok_of_legal q _ i1 (by rw [hs]; rfl)
    obtain ⟨q', hq'⟩ := F.complete q (Sym.raw k n m) _ i1 hok hs
    obtain ⟨j1, j2, j3⟩ := F.apply q (Sym.raw k n m) q' i1 hok hq'
    refine ⟨q' :: l', ?_, by simp [r2], ?_⟩
    · simp only [Tak.canonReplay, htm, hq', r1, bind, Except.bind, pure, Except.pure]
    · intro x hx
      simp only [List.map_cons, List.zip_cons_cons, List.mem_cons] at hx
      rcases hx with rfl | hx
      · refine ⟨j1, ?_, by rw [j2, i3]⟩
        rw [hs] at j3
        exact (Option.some.inj j3).symm
      · exact r3 x hx

/-- the relation between the loop state of the model and of the list-level algorithm -/
structure Rel (Inv : Pos → Prop) (n : Nat) (ist : Tak.CanonSt) (sst : Spec.CanonSt) : Prop where
  len : ist.boards.length = 8
  boards : BoardsRel Inv n (withIndex ist.boards) sst.b0
  wf : sst.b0.WF
  size : sst.b0.size = n
  tfn : Symm.prod ist.tfn = sst.tfn
  rots : Symm.prod ist.rots = sst.tfn
  out : ist.moves = sst.out

theorem canonScan_fst (b0 : State) (m : Move) : ∀ (ks : List Sym) (acc : Move × Option Sym),
    (Spec.canonScan b0 m ks acc).1 = acc.1 ∨ ∃ k, (Spec.canonScan b0 m ks acc).1 = Sym.raw k b0.size m := by
  intro ks
  induction ks with
  | nil => intro acc; left; rfl
  | cons k ks ih =>
    intro acc
    obtain ⟨best, rot⟩ := acc
    simp only [Spec.canonScan]
    split
    · split
      · rcases ih (Sym.raw k b0.size m, some k) with h | h
        · right; exact ⟨k, h⟩
        · right; exact h
      · exact ih _
    · exact ih _

theorem withIndex_snd {l : List Pos} (h : l.length = 8) : (withIndex l).map (·.2) = List.finRange 8 := by
  unfold withIndex
  rw [List.map_snd_zip]
  simp [h]

theorem finRange8_drop : (List.finRange 8).drop 1 = ([1, 2, 3, 4, 5, 6, 7] : List (Fin 8)) := by decide

/-- **One iteration**: if the list-level step succeeds, so does the model's, with related results. -/
theorem canonStep_sim {basis : Array W} {n : Nat} {Inv : Pos → Prop} {Ok : Pos → Move → Prop} (F : PosFacts2 basis n Inv Ok) (hn : n ≤ 8)
    (ist : Tak.CanonSt) (sst sst' : Spec.CanonSt) (m0 : Move) (hrel : Rel Inv n ist sst)
    (hnc : ∀ p q, Inv p → Inv q → Spec.abs q = sst.b0 → (∃ k : Sym, Spec.abs p = Sym.state k sst.b0) →
      p.hashOf = q.hashOf → Spec.abs p = Spec.abs q)
    (hs : Spec.canonStep sst m0 = some sst') :
    ∃ ist', Tak.canonStep basis n ist m0 = .ok ist' ∧ Rel Inv n ist' sst' := by
  obtain ⟨hlen, hboards, hwf, hsize, htfn, hrots, hout⟩ := hrel
  rw [canonStep_eq] at hs
  -- the list-level step succeeded: name its parts
  cases hstep : Spec.step sst.b0 (Spec.decode (cPickM sst m0)) with
  | none => rw [hstep] at hs; cases hs
  | some b' =>
    rw [hstep] at hs
    simp only [Option.some.injEq] at hs
    subst hs
    -- coordinates: the move played is on the board, hence so are `m` and `m0`
    have hm'B : onB n (cPickM sst m0).x (cPickM sst m0).y := by
      have := legal_onBoard (s := sst.b0) (m := cPickM sst m0) (by rw [hstep]; rfl)
      rw [hsize] at this; exact this
    have hmB : onB n (Sym.raw sst.tfn n m0).x (Sym.raw sst.tfn n m0).y := by
      unfold cPickM Canon.sel at hm'B
      rw [hsize] at hm'B
      split at hm'B
      · rename_i k hk
        rcases Tak.canonScan_fst sst.b0 (Sym.raw sst.tfn n m0) [1, 2, 3, 4, 5, 6, 7] (Sym.raw sst.tfn n m0, none) with h | ⟨k', h⟩
        · rw [h] at hm'B; exact hm'B
        · rw [h, hsize] at hm'B; exact (raw_onB k' n _).1 hm'B
      · exact hm'B
    have hm0B : onB n m0.x m0.y := (raw_onB sst.tfn n m0).1 hmB
    -- the first board
    cases hbs : ist.boards with
    | nil => rw [hbs] at hlen; cases hlen
    | cons q0 others =>
      have hq0mem : (q0, (0 : Fin 8)) ∈ withIndex ist.boards := by
        rw [hbs]; unfold withIndex
        have : List.finRange 8 = (0 : Fin 8) :: (List.finRange 8).drop 1 := by decide
        rw [this]; simp
      obtain ⟨hq0i, hq0a, hq0s⟩ := hboards _ hq0mem
      have ha0 : Spec.abs q0 = sst.b0 := by rw [hq0a]; exact Sym.state_one hwf
      -- the transformed input move
      have htm : transformMove n ist.tfn m0 = .ok (Sym.raw sst.tfn n m0) := by
        have := transformMove_raw hn ist.tfn m0 (onB_range hn hm0B).1 (onB_range hn hm0B).2
        rw [htfn] at this; exact this
      -- the scan
      have hdrop : BoardsRel Inv n ((withIndex ist.boards).drop 1) sst.b0 :=
        fun x hx => hboards x (List.mem_of_mem_drop hx)
      have hdropsnd : ((withIndex ist.boards).drop 1).map (·.2) = ([1, 2, 3, 4, 5, 6, 7] : List (Fin 8)) := by
        rw [List.map_drop, withIndex_snd hlen, finRange8_drop]
      have hscan := scan_sim F hn sst.b0 hsize q0 hq0i ha0 (Sym.raw sst.tfn n m0) hmB
        ((withIndex ist.boards).drop 1) (Sym.raw sst.tfn n m0) none hdrop
        (by
          intro qk hqk hh
          obtain ⟨j1, j2, _⟩ := hdrop qk hqk
          exact hnc qk.1 q0 j1 hq0i ha0 ⟨qk.2, j2⟩ hh)
      rw [hdropsnd] at hscan
      -- the replay
      obtain ⟨l', r1, r2, r3⟩ := replay_sim F hn sst.b0 b' hsize hwf (cPickM sst m0) hm'B hstep
        (withIndex ist.boards) hboards
      have htm0 : transformMove n [0] (cPickM sst m0) = .ok (Sym.raw 0 n (cPickM sst m0)) := by
        have := transformMove_raw hn [0] (cPickM sst m0) (onB_range hn hm'B).1 (onB_range hn hm'B).2
        rw [prod_single] at this; exact this
      have hwi' : withIndex l' = l'.zip ((withIndex ist.boards).map (·.2)) := by
        rw [withIndex_snd hlen]; rfl
      have hl'len : l'.length = 8 := by
        rw [r2]; unfold withIndex; simp [hlen]
      obtain ⟨hb'wf, hb'size⟩ := step_WF hstep hwf
      -- assemble, by cases on what the scan chose
      have hpm : cPickM sst m0 = Canon.sel (Spec.canonScan sst.b0 (Sym.raw sst.tfn n m0) [1, 2, 3, 4, 5, 6, 7]
          (Sym.raw sst.tfn n m0, none)) (Sym.raw sst.tfn n m0) := by unfold cPickM; rw [hsize]
      have hpt : cPickT sst m0 = Canon.selT (Spec.canonScan sst.b0 (Sym.raw sst.tfn n m0) [1, 2, 3, 4, 5, 6, 7]
          (Sym.raw sst.tfn n m0, none)) sst.tfn := by unfold cPickT; rw [hsize]
      unfold Tak.canonStep
      rw [hbs]
      simp only [htm, bind, Except.bind]
      rw [← hbs, hscan]
      generalize Spec.canonScan sst.b0 (Sym.raw sst.tfn n m0) [1, 2, 3, 4, 5, 6, 7] (Sym.raw sst.tfn n m0, none) = X
        at hpm hpt ⊢
      obtain ⟨best, rot⟩ := X
      cases rot with
      | none =>
        simp only [Canon.sel, Canon.selT] at hpm hpt
        rw [hpm] at r1 htm0
        simp only [r1, htm0, pure, Except.pure]
        refine ⟨_, rfl, ?_⟩
        exact ⟨hl'len, by rw [hwi']; exact r3, hb'wf, by rw [hb'size, hsize], by rw [hpt]; exact htfn,
          by rw [hpt]; exact hrots, by rw [hout, hpm, hsize]⟩
      | some r =>
        simp only [Canon.sel, Canon.selT] at hpm hpt
        rw [hpm] at r1 htm0
        simp only [r1, htm0, pure, Except.pure]
        refine ⟨_, rfl, ?_⟩
        exact ⟨hl'len, by rw [hwi']; exact r3, hb'wf, by rw [hb'size, hsize],
          by rw [hpt]; simp [Symm.prod, hrots], by rw [hpt]; simp [Symm.prod, hrots], by rw [hout, hpm, hsize]⟩

/-- the start position of the model shows the list-level start position -/
theorem abs_new : ∀ n ∈ [3, 4, 5, 6, 7, 8],
    (match Pos.new { size := n, pieces := 0, capstones := 0, blackWinsTies := false } with
     | .ok p => Spec.abs p = startState n
     | .error _ => False) := by
  have key : ∀ n ∈ [3, 4, 5, 6, 7, 8],
      (match Pos.new { size := n, pieces := 0, capstones := 0, blackWinsTies := false } with
       | .ok p => decide (Spec.abs p = startState n)
       | .error _ => false) = true := by decide
  intro n hn
  have := key n hn
  cases hp : Pos.new { size := n, pieces := 0, capstones := 0, blackWinsTies := false } with
  | error e => rw [hp] at this; cases this
  | ok p => rw [hp] at this; simpa using this

theorem canonRun_snoc (st st1 : Spec.CanonSt) (pre : List Move) (m : Move) :
    ∀ (init : Spec.CanonSt), Spec.canonRun init pre = some st → Spec.canonStep st m = some st1 →
      Spec.canonRun init (pre ++ [m]) = some st1 := by
  induction pre with
  | nil => intro init h hs; simp only [Spec.canonRun, Option.some.injEq] at h; subst h; simp [Spec.canonRun, hs]
  | cons a pre ih =>
    intro init h hs
    simp only [List.cons_append, Spec.canonRun] at h ⊢
    cases ha : Spec.canonStep init a with
    | none => rw [ha] at h; cases h
    | some i1 => rw [ha] at h; exact ih i1 h hs

/-- no position showing an image of `b0` collides with a position showing `b0` unless it shows `b0` too -/
def NoCollisionAt (Inv : Pos → Prop) (b0 : State) : Prop :=
  ∀ p q, Inv p → Inv q → Spec.abs q = b0 → (∃ k : Sym, Spec.abs p = Sym.state k b0) →
    p.hashOf = q.hashOf → Spec.abs p = Spec.abs q

theorem canonLoop_sim {basis : Array W} {n : Nat} {Inv : Pos → Prop} {Ok : Pos → Move → Prop} (F : PosFacts2 basis n Inv Ok) (hn : n ≤ 8)
    (ms : List Move) (init : Spec.CanonSt)
    (hnc : ∀ pre st, pre <+: ms → Spec.canonRun init pre = some st → NoCollisionAt Inv st.b0) :
    ∀ (ms₂ pre : List Move) (ist : Tak.CanonSt) (sst sst' : Spec.CanonSt), pre ++ ms₂ = ms →
      Spec.canonRun init pre = some sst → Rel Inv n ist sst → Spec.canonRun sst ms₂ = some sst' →
      ∃ ist', Tak.canonLoop basis n ms₂ ist = .ok ist' ∧ Rel Inv n ist' sst' := by
  intro ms₂
  induction ms₂ with
  | nil =>
    intro pre ist sst sst' _ _ hrel h
    simp only [Spec.canonRun, Option.some.injEq] at h
    subst h
    exact ⟨ist, rfl, hrel⟩
  | cons m rest ih =>
    intro pre ist sst sst' hpre hrun hrel h
    simp only [Spec.canonRun] at h
    cases hs : Spec.canonStep sst m with
    | none => rw [hs] at h; cases h
    | some sst1 =>
      rw [hs] at h
      have hpfx : pre <+: ms := ⟨m :: rest, hpre⟩
      obtain ⟨ist1, e1, r1⟩ := canonStep_sim F hn ist sst sst1 m hrel (hnc pre sst hpfx hrun) hs
      obtain ⟨ist', e2, r2⟩ := ih (pre ++ [m]) ist1 sst1 sst' (by rw [← hpre]; simp)
        (canonRun_snoc sst sst1 pre m init hrun hs) r1 h
      exact ⟨ist', by simp only [Tak.canonLoop, e1, bind, Except.bind]; exact e2, r2⟩

/-- **The bit-level model of `Canonical` computes the list-level canonical form** of every game for which
the latter exists (i.e. every legal game), on sizes 3..8, given `PosFacts2` and no collisions between a
canonical board of a prefix of the game and a different image of it. -/
theorem canonical_refines {basis : Array W} {n : Nat} {Inv : Pos → Prop} {Ok : Pos → Move → Prop} (F : PosFacts2 basis n Inv Ok)
    (hn : n ∈ [3, 4, 5, 6, 7, 8]) (ms out : List Move) (hc : Spec.canon n ms = some out)
    (hnc : ∀ pre st, pre <+: ms → Spec.canonRun ⟨startState n, 0, []⟩ pre = some st → NoCollisionAt Inv st.b0) :
    Tak.canonical basis n ms = .ok out := by
  have hnew := abs_new n hn
  have hn8 : n ≤ 8 := by simp at hn; omega
  unfold Spec.canon at hc
  cases hr : Spec.canonRun ⟨startState n, 0, []⟩ ms with
  | none => rw [hr] at hc; cases hc
  | some sst' =>
    rw [hr] at hc
    simp only [Option.map_some, Option.some.injEq] at hc
    cases hp : Pos.new { size := n, pieces := 0, capstones := 0, blackWinsTies := false } with
    | error e => rw [hp] at hnew; exact absurd hnew (by simp)
    | ok p =>
      rw [hp] at hnew
      simp only at hnew
      obtain ⟨s1, _⟩ := new_size_ok hp
      have hrel : Rel Inv n { boards := List.replicate 8 p, moves := [], rots := [], tfn := [0] }
          ⟨startState n, 0, []⟩ := by
        refine ⟨by simp, ?_, startState_WF n, rfl, by simp [Symm.prod, Sym.mul_one], rfl, rfl⟩
        intro qk hqk
        have hq : qk.1 = p := by
          unfold withIndex at hqk
          have := (List.of_mem_zip hqk).1
          exact List.eq_of_mem_replicate this
        rw [hq]
        exact ⟨F.new _ hp, by rw [hnew, startState_sym], s1⟩
      obtain ⟨ist', e1, r1⟩ := canonLoop_sim F hn8 ms _ hnc ms [] _ _ sst' rfl rfl hrel hr
      unfold Tak.canonical
      simp only [hp, e1, bind, Except.bind, pure, Except.pure]
      rw [r1.out, hc]

end Tak
