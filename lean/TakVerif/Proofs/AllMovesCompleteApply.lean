import TakVerif.Proofs.ApplyShape

/-! # Completeness of `AllMoves` against the engine's own `Move` (C03, part 6b) -/
namespace Tak.Proofs
open Tak Spec

theorem idx_toNat (sz : Nat) (x y : Int) (hx : 0 ≤ x) (hy : 0 ≤ y) :
    (x + y * (sz : Int)).toNat = y.toNat * sz + x.toNat := by
  have e1 : x = (x.toNat : Int) := by omega
  have e2 : y = (y.toNat : Int) := by omega
  rw [e1, e2, ← Int.natCast_mul, ← Int.natCast_add, Int.toNat_natCast]
  simp only [Int.toNat_natCast]; omega

theorem gen_place (p : Pos) (wf : WFlite p) (m : Move) (k : Kind) (ht : m.type = placeCode k)
    (hx0 : 0 ≤ m.x) (hx1 : m.x < p.cfg.size) (hy0 : 0 ≤ m.y) (hy1 : m.y < p.cfg.size)
    (hemp : p.white.getLsbD (m.y.toNat * p.cfg.size + m.x.toNat) = false ∧
            p.black.getLsbD (m.y.toNat * p.cfg.size + m.x.toNat) = false)
    (hopen : p.move < 2 → k = .flat) (hcap : k = .capstone → capFlag p = true) :
    ∃ m' ∈ p.allMoves, m'.equal m = true := by
  have tc := types_cases
  have hx : m.x.toNat < p.cfg.size := by omega
  have hy : m.y.toNat < p.cfg.size := by omega
  have h0 := (wf.height_zero _ (idx_lt _ _ _ hx hy)).2 hemp
  refine ⟨⟨m.x.toNat, m.y.toNat, m.type, 0⟩, ?_, ?_⟩
  · rw [mem_allMoves]
    refine ⟨_, hx, _, hy, ?_⟩
    rw [sqMoves_of_empty p _ _ h0, mem_placeMoves, ht]
    cases k
    · left; rfl
    · right; left
      refine ⟨?_, rfl⟩
      false_or_by_contra
      have := hopen (by omega)
      cases this
    · right; right
      refine ⟨?_, hcap rfl, rfl⟩
      false_or_by_contra
      have := hopen (by omega)
      cases this
  · have ex : (m.x.toNat : Int) = m.x := by omega
    have ey : (m.y.toNat : Int) = m.y := by omega
    cases k <;> simp [Move.equal, ex, ey, Move.isSlide, ht, placeCode, tc]

theorem gen_slide (p : Pos) (wf : WFlite p) (m : Move) (d : Dir) (ht : m.type = dirCode d)
    (hx0 : 0 ≤ m.x) (hx1 : m.x < p.cfg.size) (hy0 : 0 ≤ m.y) (hy1 : m.y < p.cfg.size)
    (hply : ¬ p.move < 2) (hne : Slides.elems m.slides ≠ []) (hnz : ∀ c ∈ Slides.elems m.slides, c ≠ 0)
    (hsz : (Slides.elems m.slides).sum ≤ p.cfg.size)
    (hh : (Slides.elems m.slides).sum ≤ (p.height.getD (m.y.toNat * p.cfg.size + m.x.toNat) 0).toNat)
    (hw : p.toMove = .white → p.white.getLsbD (m.y.toNat * p.cfg.size + m.x.toNat) = true)
    (hb : p.toMove = .black → p.black.getLsbD (m.y.toNat * p.cfg.size + m.x.toNat) = true)
    (hdist : (Slides.elems m.slides).length ≤ distOf p.cfg.size m.x.toNat m.y.toNat d) :
    ∃ m' ∈ p.allMoves, m'.equal m = true := by
  have hx : m.x.toNat < p.cfg.size := by omega
  have hy : m.y.toNat < p.cfg.size := by omega
  have hs8 := wf.size_hi
  have hpos := sum_pos_of_ne_nil _ hne (fun c hc => by have := hnz c hc; omega)
  have h0 : p.height.getD (m.y.toNat * p.cfg.size + m.x.toNat) 0 ≠ 0#8 := by
    intro e; rw [e] at hh; simp at hh; omega
  have hsq' := sqMoves_of_stack p _ _ h0 hply hw hb
  have hcarry := carryAt_le p (m.y.toNat * p.cfg.size + m.x.toNat)
  have htab : m.slides ∈ slidesTable.getD (carryAt p (m.y.toNat * p.cfg.size + m.x.toNat)) [] := by
    rw [slides_table _ (by omega)]
    refine ⟨hne, ?_, ?_, (encode_elems _).symm⟩
    · intro e he
      have := le_sum_of_mem _ e he
      have := hnz e he
      exact ⟨by omega, by omega⟩
    · unfold carryAt; split <;> omega
  have hd8 : distOf p.cfg.size m.x.toNat m.y.toNat d ≤ 8 := by
    cases d <;> simp only [distOf] <;> omega
  have hmask := (mask_test _ (by omega) m.slides htab _ hd8).2 hdist
  refine ⟨⟨m.x.toNat, m.y.toNat, m.type, m.slides⟩, ?_, ?_⟩
  · rw [mem_allMoves]
    refine ⟨_, hx, _, hy, ?_⟩
    rw [hsq', mem_slideMoves]
    exact ⟨_, dir_mem_dirList _ _ _ d, m.slides, htab, hmask, by rw [ht]⟩
  · have ex : (m.x.toNat : Int) = m.x := by omega
    have ey : (m.y.toNat : Int) = m.y := by omega
    simp [Move.equal, ex, ey]

/-- **completeness against the engine model**: every non-pass raw move that `Pos.apply` (the model of
`Position.Move`) applies successfully is `Equal` to a generated move -/
theorem allMoves_complete_apply' (basis : Array W) (p : Pos) (wf : WFlite p) (m : Move) (q : Pos)
    (hnp : m.type ≠ Facts.mtPass) (h : p.apply basis m = .ok q) : ∃ m' ∈ p.allMoves, m'.equal m = true := by
  have tc := types_cases
  have place : ∀ k, m.type = placeCode k → ∃ m' ∈ p.allMoves, m'.equal m = true := by
    intro k ht
    obtain ⟨hx0, hx1, hy0, hy1, hocc, hopen, hcap⟩ := apply_place_shape basis p m q k ht h
    rw [idx_toNat _ _ _ hx0 hy0, BitVec.getLsbD_or, Bool.or_eq_false_iff] at hocc
    exact gen_place p wf m k ht hx0 hx1 hy0 hy1 hocc hopen hcap
  have slide : ∀ d, m.type = dirCode d → ∃ m' ∈ p.allMoves, m'.equal m = true := by
    intro d ht
    obtain ⟨hply, hx0, hx1, hy0, hy1, hnz, hsz, h1, hh, hw, hb, top, stack, st, st', ex, ey, hloop⟩ :=
      apply_slide_shape basis p m q d ht h
    rw [idx_toNat _ _ _ hx0 hy0] at hh hw hb
    rw [foldl_add_eq_sum] at hsz h1 hh
    have hne : Slides.elems m.slides ≠ [] := by
      intro e; rw [e] at h1; simp at h1
    have hend := slideLoop_end basis p top stack d.dx d.dy _ st st' hne hloop
    rw [ex, ey] at hend
    have hdist : (Slides.elems m.slides).length ≤ distOf p.cfg.size m.x.toNat m.y.toNat d := by
      cases d <;> simp only [Dir.dx, Dir.dy, distOf] at hend ⊢ <;> omega
    exact gen_slide p wf m d ht hx0 hx1 hy0 hy1 hply hne hnz (by omega) (by omega) hw hb hdist
  by_cases t2 : m.type = Facts.mtPlaceFlat
  · exact place .flat t2
  by_cases t3 : m.type = Facts.mtPlaceStanding
  · exact place .standing t3
  by_cases t4 : m.type = Facts.mtPlaceCapstone
  · exact place .capstone t4
  by_cases t5 : m.type = Facts.mtSlideLeft
  · exact slide .left t5
  by_cases t6 : m.type = Facts.mtSlideRight
  · exact slide .right t6
  by_cases t7 : m.type = Facts.mtSlideUp
  · exact slide .up t7
  by_cases t8 : m.type = Facts.mtSlideDown
  · exact slide .down t8
  -- any other type byte: "invalid move type"
  exfalso
  unfold Pos.apply dispatch at h
  have e1 : (m.type == Facts.mtPass) = false := by simpa using hnp
  have e2 : (m.type == Facts.mtPlaceFlat) = false := by simpa using t2
  have e3 : (m.type == Facts.mtPlaceStanding) = false := by simpa using t3
  have e4 : (m.type == Facts.mtPlaceCapstone) = false := by simpa using t4
  have e5 : (m.type == Facts.mtSlideLeft) = false := by simpa using t5
  have e6 : (m.type == Facts.mtSlideRight) = false := by simpa using t6
  have e7 : (m.type == Facts.mtSlideUp) = false := by simpa using t7
  have e8 : (m.type == Facts.mtSlideDown) = false := by simpa using t8
  simp only [e1, e2, e3, e4, e5, e6, e7, e8, Bool.false_eq_true, if_false] at h
  cases h

end Tak.Proofs
