import TakVerif.Proofs.SearchCoverNodes

/-! Completeness of verdicts with a table: a search under a *monotone cancel oracle* (a call that may be cancelled
at any point) keeps the table good.  After the flag is seen the search returns meaningless values, but `ttPut`
hands out a slot only while the flag is still clear; up to that moment the run is, step for step, the run with the
flag never set (`iterate_loc`), whose loops establish the facts the stored entry needs (`pvLoop_good`,
`zwLoop_good`). -/
namespace Search
open Tak (Err)

variable {P M : Type}

def PvKeeps (g : Game P M) (f : PvFn P M) : Prop :=
  ∀ p ply depth pv α β s, TableGood g s → α < β → Sat (f p ply depth pv α β s) (fun x => TableGood g x.2)

def ZwKeeps (g : Game P M) (f : ZwFn P M) : Prop :=
  ∀ p ply depth pv α cut s, TableGood g s → Sat (f p ply depth pv α cut s) (fun x => TableGood g x.2)

theorem never_nc (o : Oracle M) : NoCancel o.never := fun _ _ => rfl

theorem never_order {o : Oracle M} (h : OrderOK o) : OrderOK o.never := fun k l x => h k l x

/-- `ttPut` hands out a slot only while the flag is clear -/
theorem ttPut_some_falseUpTo {o : Oracle M} (hm : o.Monotone) (s : Eng M) (k : H) (slot : Nat) (s1 : Eng M)
    (h : ttPut o s k = .ok (some slot, s1)) : FalseUpTo o s := by
  unfold ttPut at h
  by_cases ht : s.hasTable = true
  · simp only [ht, Bool.not_true, Bool.false_eq_true, if_false] at h
    cases hc : (load o s).1 with
    | true => rw [hc] at h; simp only [if_true] at h; cases h
    | false => exact (FalseUpTo.of_load hm hc).weaken (Nat.le_succ _) (Nat.le_refl _)
  · have ht' : s.hasTable = false := by simpa using ht
    simp only [ht', Bool.not_false, if_true] at h
    cases h

theorem pvChild_keeps {g : Game P M} {cpv : PvFn P M} {czw : ZwFn P M} (hp : PvKeeps g cpv) (hz : ZwKeeps g czw)
    (i : Nat) (child : P) (ply : Nat) (depth : Int) (tail : List M) (α β : Int) (s : Eng M) (hs : TableGood g s)
    (hab : α < β) :
    Sat (pvChild cpv czw i child ply depth tail α β s) (fun x => TableGood g x.2) := by
  unfold pvChild
  split
  · apply Sat.bind
    refine (hz child (ply + 1) (depth - 1) tail (-α - 1) true s hs).mono ?_
    rintro ⟨⟨ms, v⟩, s'⟩ hts
    dsimp only at hts ⊢
    split
    · exact hp child (ply + 1) (depth - 1) tail (-β) (-α) _ (hts.of_table rfl) (by omega)
    · exact Sat.pure hts
  · exact hp child (ply + 1) (depth - 1) tail (-β) (-α) s hs (by omega)

theorem pvBody_keeps [DecidableEq M] {g : Game P M} {o : Oracle M} {cpv : PvFn P M} {czw : ZwFn P M}
    (hp : PvKeeps g cpv) (hz : ZwKeeps g czw) (p : P) (ply : Nat) (depth β : Int) :
    BodyOK g p (pvBody g o cpv czw ply depth β false) (fun a s => TableGood g s ∧ a.α < β) (fun _ _ => True)
      (fun _ s => TableGood g s) (fun _ s => TableGood g s) := by
  intro m c a s _ hinv
  obtain ⟨hts, hlt⟩ := hinv
  unfold pvBody
  simp only [Bool.false_and, Bool.false_eq_true, if_false]
  apply Sat.bind
  intro sm _
  apply Sat.bind
  refine (pvChild_keeps hp hz (a.i + 1) c ply depth (a.best.drop 1) a.α β { s with stackM := sm }
    (hts.of_table rfl) hlt).mono ?_
  rintro ⟨⟨ms, v⟩, s'⟩ hts'
  dsimp only at hts' ⊢
  -- the state after `afterChild` has the same table
  have hafter : ∀ (a' : PvAcc M) (s'' : Eng M), TableGood g s'' → a'.α < β →
      LoopPost (fun (a : PvAcc M) s => TableGood g s ∧ a.α < β) (fun _ _ => True) (fun _ s => TableGood g s)
        (fun _ s => TableGood g s) a (fun c' => c' = c) (afterChild o a' s'') := by
    intro a' s'' h'' hlt'
    rcases afterChild_cases o a' s'' with h | h
    · rw [h]; exact h''.of_table rfl
    · rw [h]; exact ⟨⟨h''.of_table rfl, hlt'⟩, fun _ _ => trivial, fun _ _ => trivial⟩
  split
  · apply Sat.bind
    intro pv0 _
    split
    · apply Sat.bind
      refine (recordCut_good (s := { s' with pv0 := pv0 }) (hts'.of_table rfl) m (a.i + 1) ply).mono ?_
      intro s'' hts''
      exact Sat.pure hts''
    · rename_i hnge
      exact Sat.pure (hafter _ _ (hts'.of_table rfl) (by dsimp only; omega))
  · exact Sat.pure (hafter _ _ hts' hlt)

theorem zwBody_keeps [DecidableEq M] {g : Game P M} {o : Oracle M} {czw : ZwFn P M}
    (hz : ZwKeeps g czw) (p : P) (ply : Nat) (depth α : Int) (cut : Bool) :
    BodyOK g p (zwBody o czw ply depth α cut) (fun _ s => TableGood g s) (fun _ _ => True)
      (fun _ s => TableGood g s) (fun _ s => TableGood g s) := by
  intro m c a s _ hts
  unfold zwBody
  apply Sat.bind
  intro sm _
  apply Sat.bind
  refine Sat.mono (hz c (ply + 1) (depth - 1) _ (-α - 1) (!cut) { s with stackM := sm } (hts.of_table rfl)) ?_
  rintro ⟨⟨ms, v⟩, s'⟩ hts'
  dsimp only at hts' ⊢
  split
  · apply Sat.bind
    refine (recordCut_good hts' m (a.i + 1) ply).mono ?_
    intro s'' hts''
    apply Sat.bind
    intro pv0 _
    exact Sat.pure (hts''.of_table rfl)
  · apply Sat.pure
    rcases afterChild_cases o ({ a with i := a.i + 1 } : ZwAcc M) s' with h | h
    · rw [h]; exact hts'.of_table rfl
    · rw [h]; exact ⟨hts'.of_table rfl, fun _ _ => trivial, fun _ _ => trivial⟩

/-- a PV node under a monotone oracle keeps the table good -/
theorem pvNode_keeps [DecidableEq M] {g : Game P M} (hg : GameOK g) (he : EvalOK g) (hinj : HashOK g)
    {cfg : SOpts} (hpr : Precise cfg) {o : Oracle M} (hm : o.Monotone) (hord : OrderOK o) (frame : Bool)
    {cpv cpv' : PvFn P M} {czw czw' : ZwFn P M} (hpK : PvKeeps g cpv) (hzK : ZwKeeps g czw)
    (hpL : LocPv o cpv cpv') (hzL : LocZw o czw czw') (hpG : PvGood g cpv') (hzG : ZwGood g czw') :
    PvKeeps g (pvNode g cfg o frame cpv czw) := by
  intro p ply depth pv α β s hts hab
  unfold pvNode
  dsimp only
  split
  · exact Sat.pure (hts.of_table rfl)
  · rename_i hnl
    simp only [Bool.or_eq_true, decide_eq_true_eq, not_or, Int.not_le, Bool.not_eq_true] at hnl
    obtain ⟨hdpos, hov⟩ := hnl
    split
    · exact Sat.throw
    · have hdd : (cfg.dedupSymmetry && decide (g.moveNumber p < Facts.maxDedup)) = false := by
        rw [hpr.dd]; rfl
      apply Sat.bind
      refine Sat.mono (ttProbe_good he p hov ply depth α β (s := _) (by exact hts.of_table (by split <;> rfl))) ?_
      rintro ⟨probe, s1⟩ ⟨hts1, _⟩
      dsimp only at hts1 ⊢
      cases probe with
      | inl r => exact Sat.pure hts1
      | inr te =>
        dsimp only
        apply Sat.bind
        refine Sat.mono (pvInitBest_good ply pv hts1) ?_
        rintro ⟨best, s2⟩ hts2
        dsimp only at hts2 ⊢
        rw [hdd]
        apply Sat.bind_eq
        rintro ⟨c, s3⟩ hloop
        -- the table after the loop
        have hts3 : TableGood g s3 := by
          have := iterate_inv (pvBody_keeps (o := o) hpK hzK p ply depth β) cfg o ⟨ply, depth, te, pv⟩
            (fun a s k hi => ⟨hi.1.of_table rfl, hi.2⟩) (⟨α, best, false, 0, []⟩ : PvAcc M) s2 ⟨hts2, hab⟩ _ hloop
          cases c with
          | ret r => exact this
          | next a => exact this.1.1
          | brk a => exact this
        -- if the flag was clear up to here, this was the never-cancelled loop
        have hfacts : FalseUpTo o s3 → PvLoopOut g p depth.toNat α β c := by
          intro hfu
          have hnever := (iterate_loc (g := g) (p := p) (pvBody_loc g hpL hzL ply depth β false) cfg
            ⟨ply, depth, te, pv⟩ (⟨α, best, false, 0, []⟩ : PvAcc M) s2 c s3 hloop).2.2.2.2 hfu
          exact (pvLoop_good hg he cfg (never_nc o) (never_order hord) hpG hzG p hov ply depth hdpos te pv α β hab best
            s2 hts2 _ hnever).2
        dsimp only
        cases c with
        | ret r => exact Sat.pure hts3
        | next a =>
          dsimp only
          refine (pvStore_good hinj o p depth β a hts3 ?_).mono (fun _ h => h.1)
          rintro ⟨slot, s4, hput⟩
          exact (hfacts (ttPut_some_falseUpTo hm s3 _ slot s4 hput)).facts.1
        | brk a =>
          dsimp only
          refine (pvStore_good hinj o p depth β a hts3 ?_).mono (fun _ h => h.1)
          rintro ⟨slot, s4, hput⟩
          exact (hfacts (ttPut_some_falseUpTo hm s3 _ slot s4 hput)).facts.1

/-- a zero-window node under a monotone oracle keeps the table good -/
theorem zwNode_keeps [DecidableEq M] {g : Game P M} (hg : GameOK g) (he : EvalOK g) (hinj : HashOK g)
    {cfg : SOpts} (hpr : Precise cfg) {o : Oracle M} (hm : o.Monotone) (hord : OrderOK o) (frame : Bool)
    {czw czw' : ZwFn P M} (hzK : ZwKeeps g czw) (hzL : LocZw o czw czw') (hzG : ZwGood g czw') :
    ZwKeeps g (zwNode g cfg o frame czw) := by
  intro p ply depth pv α cut s hts
  unfold zwNode
  dsimp only
  split
  · exact Sat.pure (hts.of_table rfl)
  · rename_i hnl
    simp only [Bool.or_eq_true, decide_eq_true_eq, not_or, Int.not_le, Bool.not_eq_true] at hnl
    obtain ⟨hdpos, hov⟩ := hnl
    split
    · exact Sat.throw
    · apply Sat.bind
      refine Sat.mono (ttProbe_good he p hov ply depth α (α + 1) (s := _) (by exact hts.of_table rfl)) ?_
      rintro ⟨probe, s1⟩ ⟨hts1, _⟩
      dsimp only at hts1 ⊢
      cases probe with
      | inl r => exact Sat.pure hts1
      | inr te =>
        dsimp only
        apply Sat.bind
        rw [nullMove_precise hpr]
        apply Sat.ok
        dsimp only
        apply Sat.bind
        rw [slideReduction_precise hpr]
        apply Sat.ok
        dsimp only
        apply Sat.bind
        rw [multiCut_precise hpr]
        apply Sat.ok
        dsimp only
        apply Sat.bind
        intro x _
        apply Sat.bind_eq
        rintro ⟨c, s3⟩ hloop
        have hts3 : TableGood g s3 := by
          have := iterate_inv (zwBody_keeps (o := o) hzK p ply depth α cut) cfg o ⟨ply, depth, te, pv⟩
            (fun a s k hi => hi.of_table rfl) (⟨[x], 0, false⟩ : ZwAcc M) s1 hts1 _ hloop
          cases c with
          | ret r => exact this
          | next a => exact this.1
          | brk a => exact this
        have hfacts : FalseUpTo o s3 → ZwLoopOut g p depth.toNat α c := by
          intro hfu
          have hnever := (iterate_loc (g := g) (p := p) (zwBody_loc hzL ply depth α cut) cfg
            ⟨ply, depth, te, pv⟩ (⟨[x], 0, false⟩ : ZwAcc M) s1 c s3 hloop).2.2.2.2 hfu
          exact (zwLoop_good hg he cfg (never_nc o) (never_order hord) hzG p hov ply depth hdpos te pv α cut x
            s1 hts1 _ hnever).2
        dsimp only
        cases c with
        | ret r => exact Sat.pure hts3
        | next a =>
          dsimp only
          refine (zwStore_good hinj o p depth α a hts3 ?_).mono (fun _ h => h.1)
          rintro ⟨slot, s4, hput⟩
          exact (hfacts (ttPut_some_falseUpTo hm s3 _ slot s4 hput)).facts.1
        | brk a =>
          dsimp only
          refine (zwStore_good hinj o p depth α a hts3 ?_).mono (fun _ h => h.1)
          rintro ⟨slot, s4, hput⟩
          exact (hfacts (ttPut_some_falseUpTo hm s3 _ slot s4 hput)).facts.1

/-- **a search that may be cancelled at any point keeps the table good** (precise options, any move order) -/
theorem search_keeps [DecidableEq M] {g : Game P M} (hg : GameOK g) (he : EvalOK g) (hinj : HashOK g)
    {cfg : SOpts} (hpr : Precise cfg) {o : Oracle M} (hm : o.Monotone) (hord : OrderOK o) :
    ∀ n, PvKeeps g (search g cfg o n).1 ∧ ZwKeeps g (search g cfg o n).2 := by
  intro n
  induction n with
  | zero =>
    have hzK : ZwKeeps g (fun _ _ _ _ _ _ _ => (.error (.panic "ai.stack[ply]: index out of range") : Except Err (Res M × Eng M))) :=
      fun _ _ _ _ _ _ _ _ => Sat.error
    have hpK : PvKeeps g (fun _ _ _ _ _ _ _ => (.error (.panic "ai.stack[ply]: index out of range") : Except Err (Res M × Eng M))) :=
      fun _ _ _ _ _ _ _ _ _ => Sat.error
    have hzG : ZwGood g (fun _ _ _ _ _ _ _ => (.error (.panic "ai.stack[ply]: index out of range") : Except Err (Res M × Eng M))) :=
      fun _ _ _ _ _ _ _ _ => Sat.error
    have hpG : PvGood g (fun _ _ _ _ _ _ _ => (.error (.panic "ai.stack[ply]: index out of range") : Except Err (Res M × Eng M))) :=
      fun _ _ _ _ _ _ _ _ _ => Sat.error
    have hzL : LocZw (P := P) o (fun _ _ _ _ _ _ _ => (.error (.panic "ai.stack[ply]: index out of range") : Except Err (Res M × Eng M)))
        (fun _ _ _ _ _ _ _ => (.error (.panic "ai.stack[ply]: index out of range") : Except Err (Res M × Eng M))) :=
      fun _ _ _ _ _ _ s => Loc.error s _ _
    have hpL : LocPv (P := P) o (fun _ _ _ _ _ _ _ => (.error (.panic "ai.stack[ply]: index out of range") : Except Err (Res M × Eng M)))
        (fun _ _ _ _ _ _ _ => (.error (.panic "ai.stack[ply]: index out of range") : Except Err (Res M × Eng M))) :=
      fun _ _ _ _ _ _ s => Loc.error s _ _
    exact ⟨pvNode_keeps hg he hinj hpr hm hord false hpK hzK hpL hzL hpG hzG,
      zwNode_keeps hg he hinj hpr hm hord false hzK hzL hzG⟩
  | succ n ih =>
    have hloc := search_loc (o := o) g cfg n
    have hgood := search_good hg he hinj hpr (never_nc o) (never_order hord) n
    exact ⟨pvNode_keeps hg he hinj hpr hm hord true ih.1 ih.2 hloc.1 hloc.2 hgood.1 hgood.2,
      zwNode_keeps hg he hinj hpr hm hord true ih.2 hloc.2 hgood.2⟩

end Search
