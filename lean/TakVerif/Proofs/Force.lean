import TakVerif.Spec.Tak

/-! Strictness combinators for proofs by kernel evaluation (`decide +kernel`).

The kernel evaluates by substitution (call by name): a state that is the *result* of a computation
is re-evaluated at every use unless it is first brought into normal form.  `Force.x v k` pattern-matches
`v` down to its numerals/constructors and hands the rebuilt normal form to the continuation `k`; the
`_eq` lemmas say that this is the identity, so the combinators disappear from every statement. -/
namespace Force
open Tak

def nat {α} (n : Nat) (k : Nat → α) : α :=
  match n with
  | 0 => k 0
  | m+1 => k (m+1)

theorem nat_eq {α} (n : Nat) (k : Nat → α) : nat n k = k n := by cases n <;> rfl

def int {α} (i : Int) (k : Int → α) : α :=
  match i with
  | .ofNat n => nat n (fun n' => k (Int.ofNat n'))
  | .negSucc n => nat n (fun n' => k (Int.negSucc n'))

theorem int_eq {α} (i : Int) (k : Int → α) : int i k = k i := by cases i <;> simp [int, nat_eq]

def bv {α} {w : Nat} (b : BitVec w) (k : BitVec w → α) : α :=
  nat b.toNat (fun n => k (BitVec.ofNat w n))

theorem bv_eq {α} {w : Nat} (b : BitVec w) (k : BitVec w → α) : bv b k = k b := by
  simp [bv, nat_eq]

def bool {α} (b : Bool) (k : Bool → α) : α := match b with | true => k true | false => k false
theorem bool_eq {α} (b : Bool) (k : Bool → α) : bool b k = k b := by cases b <;> rfl

def list {α β} (f : β → (β → α) → α) : List β → (List β → α) → α
  | [], k => k []
  | x :: xs, k => f x (fun x' => list f xs (fun xs' => k (x' :: xs')))

theorem list_eq {α β} (f : β → (β → α) → α) (hf : ∀ x k, f x k = k x) (l : List β) (k : List β → α) :
    list f l k = k l := by
  induction l generalizing k with
  | nil => rfl
  | cons x xs ih => simp [list, hf, ih]

def piece {α} (p : Piece) (k : Piece → α) : α :=
  match p with
  | ⟨.white, .flat⟩ => k ⟨.white, .flat⟩ | ⟨.white, .standing⟩ => k ⟨.white, .standing⟩ | ⟨.white, .capstone⟩ => k ⟨.white, .capstone⟩
  | ⟨.black, .flat⟩ => k ⟨.black, .flat⟩ | ⟨.black, .standing⟩ => k ⟨.black, .standing⟩ | ⟨.black, .capstone⟩ => k ⟨.black, .capstone⟩
  | ⟨.none, .flat⟩ => k ⟨.none, .flat⟩ | ⟨.none, .standing⟩ => k ⟨.none, .standing⟩ | ⟨.none, .capstone⟩ => k ⟨.none, .capstone⟩

theorem piece_eq {α} (p : Piece) (k : Piece → α) : piece p k = k p := by
  obtain ⟨c, kd⟩ := p
  cases c <;> cases kd <;> rfl

def square {α} (sq : List Piece) (k : List Piece → α) : α := list piece sq k
theorem square_eq {α} (sq : List Piece) (k : List Piece → α) : square sq k = k sq :=
  list_eq piece piece_eq sq k

/-- normal form of a list-level state -/
def state {α} (s : Spec.State) (k : Spec.State → α) : α :=
  nat s.size fun size => bool s.blackWinsTies fun bwt => list square s.squares fun sqs => int s.ply fun ply =>
  nat s.whiteStones fun ws => nat s.whiteCaps fun wc => nat s.blackStones fun bs => nat s.blackCaps fun bc =>
  k { size := size, blackWinsTies := bwt, squares := sqs, ply := ply,
      whiteStones := ws, whiteCaps := wc, blackStones := bs, blackCaps := bc }

theorem state_eq {α} (s : Spec.State) (k : Spec.State → α) : state s k = k s := by
  simp [state, nat_eq, int_eq, bool_eq, list_eq square square_eq]

def move {α} (m : Move) (k : Move → α) : α :=
  int m.x fun x => int m.y fun y => nat m.type fun t => bv m.slides fun s => k ⟨x, y, t, s⟩

theorem move_eq {α} (m : Move) (k : Move → α) : move m k = k m := by
  simp [move, nat_eq, int_eq, bv_eq]

end Force
