import TakVerif.Impl.CmdAnalyze
import TakVerif.Proofs.PTNIter
import TakVerif.Proofs.PTNTotal

/-! Lemmas about the model of `taktician analyze` (`Impl/CmdAnalyze.lean`): what a run prints is the concatenation of
what its steps print (`mem_bind`), every report of an analyzer is about the position it was handed and shows what the
searcher returned for it (`analyzeWith_report`), and `Execute` hands the analyzers the position `PositionAtMove`
returns for the flags (`execute_single_report`) resp. the positions the iterator shows (`execute_all_report`). -/
namespace Tak.CmdAnalyze
open PTN (Bytes)

variable {E : Type}

theorem mem_bind {α β : Type} {x : Out α} {f : α → Out β} {i : Item} :
    i ∈ (Out.bind x f).1 ↔ i ∈ x.1 ∨ ∃ a, x.2 = .ok a ∧ i ∈ (f a).1 := by
  rcases x with ⟨l, e | a⟩
  · simp [Out.bind]
  · simp [Out.bind]

theorem bind_ok {α β : Type} {x : Out α} {f : α → Out β} {b : β} :
    (Out.bind x f).2 = .ok b ↔ ∃ a, x.2 = .ok a ∧ (f a).2 = .ok b := by
  rcases x with ⟨l, e | a⟩
  · simp [Out.bind]
  · simp [Out.bind]

@[simp] theorem emit_fst (ls : List Item) : (emit ls).1 = ls := rfl
@[simp] theorem emit_snd (ls : List Item) : (emit ls).2 = .ok () := rfl
@[simp] theorem stop_fst {α : Type} (s : Stop) : (stop s : Out α).1 = [] := rfl
@[simp] theorem stop_snd {α : Type} (s : Stop) : (stop s : Out α).2 = .error s := rfl
@[simp] theorem done_fst {α : Type} (a : α) : (done a).1 = [] := rfl
@[simp] theorem done_snd {α : Type} (a : α) : (done a).2 = .ok a := rfl
@[simp] theorem lift_fst {α : Type} (r : Except Err α) : (lift r).1 = [] := by
  cases r <;> rfl
theorem lift_ok {α : Type} {r : Except Err α} {a : α} : (lift r).2 = .ok a ↔ r = .ok a := by
  cases r <;> simp [lift]

/-- what one analyzer run on position `p` may print: everything is about `p`, the solver reports show exactly what the
solver returned for `p` under the configuration the flags prescribe, the TPS line is `FormatTPS(p)` -/
def Report (eng : Engines E) (f : Flags) (p : Pos) : Item → Prop
  | .board q => q = p
  | .evalLine q _ => q = p
  | .analysis q _ _ => q = p
  | .tps t => eng.formatTPS p = .ok t
  | .resulting _ => True
  | .pnResult q out stats => q = p ∧ eng.pn (pnCfg f) p = .ok (out, stats)
  | .dfpnResult q att out stats =>
    q = p ∧ parseAttacker f.attacker = some att ∧ eng.dfpn att (dfpnEntries f.tableMem) p = .ok (out, stats)
  | .plyLabel _ _ => False

theorem showBoard_report (eng : Engines E) (f : Flags) (p : Pos) : ∀ i ∈ (showBoard f p).1, Report eng f p i := by
  intro i hi
  unfold showBoard at hi
  split at hi
  · simp at hi
  · simp at hi; subst hi; rfl

theorem pnAnalyze_report (eng : Engines E) (f : Flags) (p : Pos) : ∀ i ∈ (pnAnalyze eng f p).1, Report eng f p i := by
  intro i hi
  unfold pnAnalyze at hi
  rw [mem_bind] at hi
  rcases hi with hi | ⟨_, _, hi⟩
  · exact showBoard_report eng f p i hi
  · rw [mem_bind] at hi
    rcases hi with hi | ⟨r, hr, hi⟩
    · simp at hi
    · rw [lift_ok] at hr
      rw [mem_bind] at hi
      rcases hi with hi | ⟨_, _, hi⟩
      · simp at hi; subst hi; exact ⟨rfl, hr⟩
      · split at hi <;> simp at hi

theorem dfpnAnalyze_report (eng : Engines E) (f : Flags) (p : Pos) : ∀ i ∈ (dfpnAnalyze eng f p).1, Report eng f p i := by
  intro i hi
  unfold dfpnAnalyze at hi
  split at hi
  · simp at hi
  · rename_i att hatt
    rw [mem_bind] at hi
    rcases hi with hi | ⟨_, _, hi⟩
    · exact showBoard_report eng f p i hi
    · rw [mem_bind] at hi
      rcases hi with hi | ⟨r, hr, hi⟩
      · simp at hi
      · rw [lift_ok] at hr
        simp at hi; subst hi; exact ⟨rfl, hatt, hr⟩

theorem minimaxAnalyze_report (env : PTN.Env) (eng : Engines E) (f : Flags) (ai : E) (p : Pos) :
    ∀ i ∈ (minimaxAnalyze env eng f ai p).1, Report eng f p i := by
  intro i hi
  unfold minimaxAnalyze at hi
  rw [mem_bind] at hi
  rcases hi with hi | ⟨_, _, hi⟩
  · split at hi
    · simp at hi
    · exact showBoard_report eng f p i hi
  · split at hi
    · rw [mem_bind] at hi
      rcases hi with hi | ⟨v, _, hi⟩
      · simp at hi
      · rw [mem_bind] at hi
        rcases hi with hi | ⟨_, _, hi⟩
        · simp at hi; subst hi; rfl
        · simp at hi
    · rw [mem_bind] at hi
      rcases hi with hi | ⟨r, _, hi⟩
      · simp at hi
      · rw [mem_bind] at hi
        rcases hi with hi | ⟨_, _, hi⟩
        · simp at hi; subst hi; rfl
        · rw [mem_bind] at hi
          rcases hi with hi | ⟨_, _, hi⟩
          · split at hi
            · rw [mem_bind] at hi
              rcases hi with hi | ⟨t, ht, hi⟩
              · simp at hi
              · rw [lift_ok] at ht
                simp at hi; subst hi; exact ht
            · simp at hi
          · split at hi
            · simp at hi
            · split at hi
              · simp at hi
              · split at hi
                · split at hi <;> simp at hi
                · rw [mem_bind] at hi
                  rcases hi with hi | ⟨_, _, hi⟩
                  · simp at hi; subst hi; trivial
                  · simp at hi

/-- an `AI analysis:` block printed by the minimax analyzer shows what `AnalyzeAll` returned on the engine it was handed -/
theorem minimaxAnalyze_analysis (env : PTN.Env) (eng : Engines E) (f : Flags) (ai : E) (p q : Pos)
    (pvs : List (List Move)) (val : Int) (hi : Item.analysis q pvs val ∈ (minimaxAnalyze env eng f ai p).1) :
    q = p ∧ ∃ ai', eng.analyzeAll (minimaxCfg f) ai p = .ok ((pvs, val), ai') := by
  unfold minimaxAnalyze at hi
  rw [mem_bind] at hi
  rcases hi with hi | ⟨_, _, hi⟩
  · split at hi
    · simp at hi
    · unfold showBoard at hi; split at hi <;> simp at hi
  · split at hi
    · rw [mem_bind] at hi
      rcases hi with hi | ⟨v, _, hi⟩
      · simp at hi
      · rw [mem_bind] at hi
        rcases hi with hi | ⟨_, _, hi⟩
        · simp at hi
        · simp at hi
    · rw [mem_bind] at hi
      rcases hi with hi | ⟨r, hr, hi⟩
      · simp at hi
      · rw [lift_ok] at hr
        rw [mem_bind] at hi
        rcases hi with hi | ⟨_, _, hi⟩
        · simp at hi
          obtain ⟨h1, h2, h3⟩ := hi
          subst h1 h2 h3
          exact ⟨rfl, r.2, by rw [hr]⟩
        · rw [mem_bind] at hi
          rcases hi with hi | ⟨_, _, hi⟩
          · split at hi
            · rw [mem_bind] at hi
              rcases hi with hi | ⟨t, _, hi⟩
              · simp at hi
              · simp at hi
            · simp at hi
          · split at hi
            · simp at hi
            · split at hi
              · simp at hi
              · split at hi
                · split at hi <;> simp at hi
                · rw [mem_bind] at hi
                  rcases hi with hi | ⟨_, _, hi⟩
                  · simp at hi
                  · simp at hi

theorem showBoard_no_analysis (f : Flags) (p q : Pos) (pvs : List (List Move)) (val : Int) :
    Item.analysis q pvs val ∉ (showBoard f p).1 := by
  unfold showBoard; split <;> simp

theorem pnAnalyze_no_analysis (eng : Engines E) (f : Flags) (p q : Pos) (pvs : List (List Move)) (val : Int) :
    Item.analysis q pvs val ∉ (pnAnalyze eng f p).1 := by
  intro hi
  unfold pnAnalyze at hi
  rw [mem_bind] at hi
  rcases hi with hi | ⟨_, _, hi⟩
  · exact showBoard_no_analysis f p q pvs val hi
  · rw [mem_bind] at hi
    rcases hi with hi | ⟨r, _, hi⟩
    · simp at hi
    · rw [mem_bind] at hi
      rcases hi with hi | ⟨_, _, hi⟩
      · simp at hi
      · split at hi <;> simp at hi

theorem dfpnAnalyze_no_analysis (eng : Engines E) (f : Flags) (p q : Pos) (pvs : List (List Move)) (val : Int) :
    Item.analysis q pvs val ∉ (dfpnAnalyze eng f p).1 := by
  intro hi
  unfold dfpnAnalyze at hi
  split at hi
  · simp at hi
  · rw [mem_bind] at hi
    rcases hi with hi | ⟨_, _, hi⟩
    · exact showBoard_no_analysis f p q pvs val hi
    · rw [mem_bind] at hi
      rcases hi with hi | ⟨r, _, hi⟩
      · simp at hi
      · simp at hi

/-- without `-all`, the one `AI analysis:` block is `AnalyzeAll` on an engine newly built for the board size -/
theorem execute_single_analysis (env : PTN.Env) (eng : Engines E) (f : Flags) (input : Bytes) (hall : f.all = false)
    (q : Pos) (pvs : List (List Move)) (val : Int) (hi : Item.analysis q pvs val ∈ (execute env eng f input).1) :
    ∃ ai', eng.analyzeAll (minimaxCfg f) (eng.newMinimax q.size (minimaxCfg f)) q = .ok ((pvs, val), ai') := by
  unfold execute at hi
  split at hi
  · simp at hi
  · split at hi
    · simp at hi
    · simp only [hall, Bool.not_false, if_true] at hi
      split at hi
      · simp at hi
      · rename_i p _
        rw [mem_bind] at hi
        rcases hi with hi | ⟨a, ha, hi⟩
        · unfold buildAnalysis at hi; repeat' split at hi
          all_goals simp at hi
        · rw [mem_bind] at hi
          rcases hi with hi | ⟨_, _, hi⟩
          · unfold buildAnalysis at ha
            unfold analyzeWith at hi
            cases a with
            | dfpn =>
              simp only at hi
              rw [mem_bind] at hi
              rcases hi with hi | ⟨_, _, hi⟩
              · exact absurd hi (dfpnAnalyze_no_analysis eng f p q pvs val)
              · simp at hi
            | pn =>
              simp only at hi
              rw [mem_bind] at hi
              rcases hi with hi | ⟨_, _, hi⟩
              · exact absurd hi (pnAnalyze_no_analysis eng f p q pvs val)
              · simp at hi
            | mcts => simp at hi
            | minimax ai =>
              simp only at hi
              rw [mem_bind] at hi
              rcases hi with hi | ⟨_, _, hi⟩
              · obtain ⟨hq, ai', h⟩ := minimaxAnalyze_analysis env eng f ai p q pvs val hi
                subst hq
                have hai : ai = eng.newMinimax q.size (minimaxCfg f) := by
                  repeat' split at ha
                  all_goals simp at ha
                  exact ha.symm
                subst hai
                exact ⟨ai', h⟩
              · simp at hi
          · simp at hi

/-- **every report of an analyzer is about the position it was handed** and shows what the searcher returned for it -/
theorem analyzeWith_report (env : PTN.Env) (eng : Engines E) (f : Flags) (a : Analyzer E) (p : Pos) :
    ∀ i ∈ (analyzeWith env eng f a p).1, Report eng f p i := by
  intro i hi
  unfold analyzeWith at hi
  cases a with
  | dfpn =>
    simp only at hi
    rw [mem_bind] at hi
    rcases hi with hi | ⟨_, _, hi⟩
    · exact dfpnAnalyze_report eng f p i hi
    · simp at hi
  | pn =>
    simp only at hi
    rw [mem_bind] at hi
    rcases hi with hi | ⟨_, _, hi⟩
    · exact pnAnalyze_report eng f p i hi
    · simp at hi
  | mcts => simp at hi
  | minimax ai =>
    simp only at hi
    rw [mem_bind] at hi
    rcases hi with hi | ⟨_, _, hi⟩
    · exact minimaxAnalyze_report env eng f ai p i hi
    · simp at hi

theorem buildAnalysis_fst (eng : Engines E) (f : Flags) (p : Pos) : (buildAnalysis eng f p).1 = [] := by
  unfold buildAnalysis
  repeat' split
  all_goals rfl


/-! ### `Execute` without `-all` -/

/-- the position `Execute` hands to the analyzer when `-all` is not given: the file parses, the colour flags are
consistent, and `PositionAtMove(move, colour)` followed by the `-variation` moves gives `p` -/
def Selected (env : PTN.Env) (f : Flags) (input : Bytes) (p : Pos) : Prop :=
  ∃ parsed c, PTN.parsePTN env input = .ok parsed ∧ selectColor f = some c ∧ selectPosition env parsed f c = .ok p

theorem execute_single_report (env : PTN.Env) (eng : Engines E) (f : Flags) (input : Bytes) (hall : f.all = false) :
    ∀ i ∈ (execute env eng f input).1, ∃ p, Selected env f input p ∧ Report eng f p i := by
  intro i hi
  unfold execute at hi
  split at hi
  · simp at hi
  · rename_i parsed hparse
    split at hi
    · simp at hi
    · rename_i c hc
      simp only [hall, Bool.not_false, if_true] at hi
      split at hi
      · simp at hi
      · rename_i p hp
        refine ⟨p, ⟨parsed, c, hparse, hc, hp⟩, ?_⟩
        rw [mem_bind] at hi
        rcases hi with hi | ⟨a, _, hi⟩
        · rw [buildAnalysis_fst] at hi; simp at hi
        · rw [mem_bind] at hi
          rcases hi with hi | ⟨_, _, hi⟩
          · exact analyzeWith_report env eng f a p i hi
          · simp at hi

/-- when the selection fails, nothing is printed and the command leaves through `log.Fatal` -/
theorem execute_single_fatal (env : PTN.Env) (eng : Engines E) (f : Flags) (input : Bytes) (hall : f.all = false)
    (parsed : PTN.File) (c : Color) (w : String)
    (hparse : PTN.parsePTN env input = .ok parsed) (hc : selectColor f = some c)
    (hsel : selectPosition env parsed f c = .error (.illegal w)) :
    execute env eng f input = ([], .error (.fatal w)) := by
  unfold execute
  rw [hparse]
  simp only [hc, hall, Bool.not_false, if_true, hsel]
  rfl

/-! ### `Execute -all` -/

/-- the positions the `-all` loop hands to an analyzer, given the frames the iterator shows: every position up to
(excluding) the first finished one, of the colours the flags admit -/
def allTargets (color : Color) : List PTN.Frame → List Pos
  | [] => []
  | fr :: fs =>
    if fr.2.gameOver.1 then []
    else if fr.2.toMove == .white && color != .black then fr.2 :: allTargets color fs
    else if fr.2.toMove == .black && color != .white then fr.2 :: allTargets color fs
    else allTargets color fs

/-- the positions named by the `%d. %s` lines of a run -/
def labelsOf : List Item → List Pos
  | [] => []
  | .plyLabel p _ :: is => p :: labelsOf is
  | _ :: is => labelsOf is

theorem labelsOf_append (a b : List Item) : labelsOf (a ++ b) = labelsOf a ++ labelsOf b := by
  induction a with
  | nil => rfl
  | cons i is ih => cases i <;> simp [labelsOf, ih]

theorem labelsOf_of_report (eng : Engines E) (f : Flags) (p : Pos) (l : List Item)
    (h : ∀ i ∈ l, Report eng f p i) : labelsOf l = [] := by
  induction l with
  | nil => rfl
  | cons i is ih =>
    have hi := h i (by simp)
    have hrest := ih (fun j hj => h j (by simp [hj]))
    cases i with
    | plyLabel q m => exact hi.elim
    | _ => simpa only [labelsOf] using hrest

/-- **`-all` analyses the positions the iterator shows**, in order, up to the first finished one, filtered by the
colour flags: the `%d. %s` lines name exactly a prefix of `allTargets` (all of it when the run is not cut short by an
analyzer), and everything else printed is a report about one of these positions. -/
theorem allLoop_spec (env : PTN.Env) (eng : Engines E) (f : Flags) (color : Color) :
    ∀ fuel it (w b : Analyzer E) fs e, it.Inv → PTN.collect env fuel it = .ok (fs, e) →
      labelsOf (allLoop env eng f color fuel it w b).1 <+: allTargets color fs ∧
      ((∃ it', (allLoop env eng f color fuel it w b).2 = .ok it') →
        labelsOf (allLoop env eng f color fuel it w b).1 = allTargets color fs) ∧
      (∀ i ∈ (allLoop env eng f color fuel it w b).1,
        ∃ p ∈ allTargets color fs, (∃ m, i = .plyLabel p m) ∨ Report eng f p i) := by
  intro fuel
  induction fuel with
  | zero => intro it w b fs e _ h; simp [PTN.collect] at h
  | succ n ih =>
    intro it w b fs e hinv hc
    unfold PTN.collect at hc
    unfold allLoop
    rcases PTN.next_cases env it hinv with ⟨a, ha, ainv, _, _⟩ | ⟨a, ha, _⟩ | ⟨s, _, _, hs, _⟩
    · rw [ha] at hc ⊢
      dsimp only at hc ⊢
      cases hp : a.position with
      | none => rw [hp] at hc; simp at hc
      | some p =>
        rw [hp] at hc
        dsimp only at hc ⊢
        cases hrest : PTN.collect env n a with
        | error x => rw [hrest] at hc; simp at hc
        | ok r =>
          obtain ⟨fs', e'⟩ := r
          rw [hrest] at hc
          simp only [Except.ok.injEq, Prod.mk.injEq] at hc
          obtain ⟨hfs, _⟩ := hc
          subst hfs
          by_cases hover : p.gameOver.1 = true
          · simp [hover, allTargets, labelsOf]
          · simp only [hover, Bool.false_eq_true, if_false]
            by_cases hw : (p.toMove == .white && color != .black) = true
            · simp only [hw, if_true]
              have hT : allTargets color ((a.ptnMove, p) :: fs') = p :: allTargets color fs' := by
                simp [allTargets, hover, hw]
              rw [hT]
              have hrep := analyzeWith_report env eng f w p
              have hlab := labelsOf_of_report eng f p _ hrep
              refine ⟨?_, ?_, ?_⟩
              · -- prefix
                simp only [Out.bind, emit]
                cases hres : analyzeWith env eng f w p with
                | mk l r =>
                  rw [hres] at hlab
                  cases r with
                  | error x => simp [labelsOf, hlab]
                  | ok w' =>
                    simp only [labelsOf, labelsOf_append, hlab, List.nil_append]
                    have := (ih a w' b fs' e' ainv hrest).1
                    simpa using this
              · rintro ⟨it', hit'⟩
                simp only [Out.bind, emit] at hit' ⊢
                cases hres : analyzeWith env eng f w p with
                | mk l r =>
                  rw [hres] at hlab hit'
                  cases r with
                  | error x => simp at hit'
                  | ok w' =>
                    simp only [labelsOf, labelsOf_append, hlab, List.nil_append]
                    have := (ih a w' b fs' e' ainv hrest).2.1 ⟨it', by simpa using hit'⟩
                    simpa using this
              · intro i hi
                rw [mem_bind] at hi
                rcases hi with hi | ⟨_, _, hi⟩
                · simp at hi; subst hi; exact ⟨p, by simp, Or.inl ⟨_, rfl⟩⟩
                · rw [mem_bind] at hi
                  rcases hi with hi | ⟨w', _, hi⟩
                  · exact ⟨p, by simp, Or.inr (hrep i hi)⟩
                  · obtain ⟨q, hq, h⟩ := (ih a w' b fs' e' ainv hrest).2.2 i hi
                    exact ⟨q, by simp [hq], h⟩
            · simp only [hw, Bool.false_eq_true, if_false]
              by_cases hb : (p.toMove == .black && color != .white) = true
              · simp only [hb, if_true]
                have hT : allTargets color ((a.ptnMove, p) :: fs') = p :: allTargets color fs' := by
                  simp [allTargets, hover, hw, hb]
                rw [hT]
                have hrep := analyzeWith_report env eng f b p
                have hlab := labelsOf_of_report eng f p _ hrep
                refine ⟨?_, ?_, ?_⟩
                · simp only [Out.bind, emit]
                  cases hres : analyzeWith env eng f b p with
                  | mk l r =>
                    rw [hres] at hlab
                    cases r with
                    | error x => simp [labelsOf, hlab]
                    | ok b' =>
                      simp only [labelsOf, labelsOf_append, hlab, List.nil_append]
                      have := (ih a w b' fs' e' ainv hrest).1
                      simpa using this
                · rintro ⟨it', hit'⟩
                  simp only [Out.bind, emit] at hit' ⊢
                  cases hres : analyzeWith env eng f b p with
                  | mk l r =>
                    rw [hres] at hlab hit'
                    cases r with
                    | error x => simp at hit'
                    | ok b' =>
                      simp only [labelsOf, labelsOf_append, hlab, List.nil_append]
                      have := (ih a w b' fs' e' ainv hrest).2.1 ⟨it', by simpa using hit'⟩
                      simpa using this
                · intro i hi
                  rw [mem_bind] at hi
                  rcases hi with hi | ⟨_, _, hi⟩
                  · simp at hi; subst hi; exact ⟨p, by simp, Or.inl ⟨_, rfl⟩⟩
                  · rw [mem_bind] at hi
                    rcases hi with hi | ⟨b', _, hi⟩
                    · exact ⟨p, by simp, Or.inr (hrep i hi)⟩
                    · obtain ⟨q, hq, h⟩ := (ih a w b' fs' e' ainv hrest).2.2 i hi
                      exact ⟨q, by simp [hq], h⟩
              · simp only [hb, Bool.false_eq_true, if_false]
                have hT : allTargets color ((a.ptnMove, p) :: fs') = allTargets color fs' := by
                  simp [allTargets, hover, hw, hb]
                rw [hT]
                exact ih a w b fs' e' ainv hrest
    · rw [ha] at hc ⊢
      dsimp only at hc ⊢
      simp only [Except.ok.injEq, Prod.mk.injEq] at hc
      obtain ⟨hfs, _⟩ := hc
      subst hfs
      simp [allTargets, labelsOf]
    · rw [hs] at hc; simp at hc


/-! ### every item of every run -/

theorem allLoop_items (env : PTN.Env) (eng : Engines E) (f : Flags) (color : Color) :
    ∀ fuel it (w b : Analyzer E), ∀ i ∈ (allLoop env eng f color fuel it w b).1,
      (∃ p m, i = .plyLabel p m) ∨ ∃ p, Report eng f p i := by
  intro fuel
  induction fuel with
  | zero => intro it w b i hi; simp [allLoop] at hi
  | succ n ih =>
    intro it w b i hi
    unfold allLoop at hi
    split at hi
    · simp at hi
    · simp at hi
    · split at hi
      · simp at hi
      · rename_i p _
        split at hi
        · simp at hi
        · split at hi
          · rw [mem_bind] at hi
            rcases hi with hi | ⟨_, _, hi⟩
            · simp at hi; subst hi; exact Or.inl ⟨_, _, rfl⟩
            · rw [mem_bind] at hi
              rcases hi with hi | ⟨w', _, hi⟩
              · exact Or.inr ⟨p, analyzeWith_report env eng f w p i hi⟩
              · exact ih _ w' b i hi
          · split at hi
            · rw [mem_bind] at hi
              rcases hi with hi | ⟨_, _, hi⟩
              · simp at hi; subst hi; exact Or.inl ⟨_, _, rfl⟩
              · rw [mem_bind] at hi
                rcases hi with hi | ⟨b', _, hi⟩
                · exact Or.inr ⟨p, analyzeWith_report env eng f b p i hi⟩
                · exact ih _ w b' i hi
            · exact ih _ w b i hi

/-- **whatever the flags and the file**: every printed item is a `%d. %s` line of `-all` or a report of an analyzer
about the position it was handed (`Report`) -/
theorem execute_items (env : PTN.Env) (eng : Engines E) (f : Flags) (input : Bytes) :
    ∀ i ∈ (execute env eng f input).1, (∃ p m, i = .plyLabel p m) ∨ ∃ p, Report eng f p i := by
  intro i hi
  by_cases hall : f.all = false
  · obtain ⟨p, _, h⟩ := execute_single_report env eng f input hall i hi
    exact Or.inr ⟨p, h⟩
  · have hall' : f.all = true := by simpa using hall
    unfold execute at hi
    split at hi
    · simp at hi
    · split at hi
      · simp at hi
      · simp only [hall', Bool.not_true, Bool.false_eq_true, if_false] at hi
        split at hi
        · simp at hi
        · rw [mem_bind] at hi
          rcases hi with hi | ⟨w, _, hi⟩
          · rw [buildAnalysis_fst] at hi; simp at hi
          · rw [mem_bind] at hi
            rcases hi with hi | ⟨b, _, hi⟩
            · rw [buildAnalysis_fst] at hi; simp at hi
            · split at hi
              · simp at hi
              · rw [mem_bind] at hi
                rcases hi with hi | ⟨it, _, hi⟩
                · exact allLoop_items env eng f _ _ _ w b i hi
                · split at hi <;> simp at hi

end Tak.CmdAnalyze
