import TakVerif.Proofs.ThreatReal
import TakVerif.Impl.MCTSPolicy

/-! Helper lemmas for `Props/C04_policy.lean`: soundness of `findPlaceWins`.  A reported square is empty, and once
it carries a road piece of the mover (everything else of the mover kept), two connected road squares of the mover lie
on opposite edges.  Built on the C02 / C19 development: `Roads.grow_spec`, `IsComp`, `C19.comp_connIn`. -/
set_option linter.unusedVariables false
set_option linter.unusedSimpArgs false
namespace Proofs.MCTSPolicy
open Tak Tak.MCTS Roads Spec C19

/-! ### the loop over the groups -/

/-- one accumulator of the loop: seen through `sel`, with edge mask `ce` -/
theorem foldl_sel (c : Consts) (sel : EdgeAcc → W) (ce : W)
    (hstep : ∀ a g, sel (edgeStep c a g) = if (g &&& ce != 0#64) = true then sel a ||| g else sel a) :
    ∀ (gs : List W) (a : EdgeAcc) (k : Nat),
      (sel (gs.foldl (edgeStep c) a)).getLsbD k = true ↔
        (sel a).getLsbD k = true ∨ ∃ g ∈ gs, (g &&& ce != 0#64) = true ∧ g.getLsbD k = true := by
  intro gs
  induction gs with
  | nil => intro a k; simp
  | cons g gs ih =>
    intro a k
    rw [List.foldl_cons, ih, hstep]
    constructor
    · rintro (h | ⟨g', hg', h1, h2⟩)
      · split at h
        · rename_i hc
          rw [BitVec.getLsbD_or, Bool.or_eq_true] at h
          rcases h with h | h
          · exact .inl h
          · exact .inr ⟨g, List.mem_cons_self, hc, h⟩
        · exact .inl h
      · exact .inr ⟨g', List.mem_cons_of_mem _ hg', h1, h2⟩
    · rintro (h | ⟨g', hg', h1, h2⟩)
      · left
        split
        · rw [BitVec.getLsbD_or, h]; rfl
        · exact h
      · rcases List.mem_cons.mp hg' with e | hg''
        · subst e
          left
          rw [if_pos h1, BitVec.getLsbD_or, h2]; simp
        · exact .inr ⟨g', hg'', h1, h2⟩

theorem edgeStep_l (c : Consts) (a : EdgeAcc) (g : W) :
    (edgeStep c a g).l = if (g &&& c.L != 0#64) = true then a.l ||| g else a.l := by
  unfold edgeStep; dsimp only; repeat' split
  all_goals rfl
theorem edgeStep_r (c : Consts) (a : EdgeAcc) (g : W) :
    (edgeStep c a g).r = if (g &&& c.R != 0#64) = true then a.r ||| g else a.r := by
  unfold edgeStep; dsimp only; repeat' split
  all_goals rfl
theorem edgeStep_b (c : Consts) (a : EdgeAcc) (g : W) :
    (edgeStep c a g).b = if (g &&& c.B != 0#64) = true then a.b ||| g else a.b := by
  unfold edgeStep; dsimp only; repeat' split
  all_goals rfl
theorem edgeStep_t (c : Consts) (a : EdgeAcc) (g : W) :
    (edgeStep c a g).t = if (g &&& c.T != 0#64) = true then a.t ||| g else a.t := by
  unfold edgeStep; dsimp only; repeat' split
  all_goals rfl

/-! ### one edge -/

/-- one round of `Grow` inside `w`, seed anywhere on the board -/
theorem grow_mem' (n : Nat) (hn : SizeOK n) (w s : W) (hw : Sub w (Gen.precompute n).Mask)
    (hs : Sub s (Gen.precompute n).Mask) (k : Nat) :
    (Gen.grow (Gen.precompute n) w s).getLsbD k = true ↔
      w.getLsbD k = true ∧ (s.getLsbD k = true ∨ ∃ j ∈ Spec.neighbours n k, s.getLsbD j = true) := by
  rw [grow_spec n hn w s hw hs]
  simp only [Bool.and_eq_true, Bool.or_eq_true, List.any_eq_true]

/-- **One edge.**  `bits` = the mover's road squares, `gs` components of `bits`, `acc` = the edge's own road squares
and every listed component touching the edge `e`; `bits'` keeps `bits` and contains `s`.  If `s` is an empty square on
the edge, or an empty square in `Grow(empty, acc)`, then inside `bits'` the square `s` is connected to a square of the
edge. -/
theorem edge_reach {n : Nat} (hn : SizeOK n) {bits bits' empty acc e : W} {gs : List W} {s : Nat}
    (hbm : Sub bits (Gen.precompute n).Mask) (hem : Sub empty (Gen.precompute n).Mask)
    (hcomp : ∀ g ∈ gs, IsComp n bits g)
    (hacc : ∀ k, acc.getLsbD k = true ↔
      (bits &&& e).getLsbD k = true ∨ ∃ g ∈ gs, (g &&& e != 0#64) = true ∧ g.getLsbD k = true)
    (hkeep : ∀ k, bits.getLsbD k = true → bits'.getLsbD k = true) (hs' : bits'.getLsbD s = true)
    (h : (Gen.grow (Gen.precompute n) empty acc ||| (e &&& empty)).getLsbD s = true) :
    ∃ a, e.getLsbD a = true ∧ Conn n (fun k => bits'.getLsbD k = true) a s := by
  have haccb : Sub acc bits := by
    intro k hk
    rcases (hacc k).mp hk with h1 | ⟨g, hg, _, h2⟩
    · rw [BitVec.getLsbD_and, Bool.and_eq_true] at h1; exact h1.1
    · exact (hcomp g hg).sub k h2
  -- every square of `acc` is connected, inside `bits'`, to a square of the edge
  have hreach : ∀ j, acc.getLsbD j = true → ∃ a, e.getLsbD a = true ∧ Conn n (fun k => bits'.getLsbD k = true) a j := by
    intro j hj
    have hjn : j < n * n := lt_of_mask hn hbm (haccb j hj)
    rcases (hacc j).mp hj with h1 | ⟨g, hg, hge, h2⟩
    · rw [BitVec.getLsbD_and, Bool.and_eq_true] at h1
      exact ⟨j, h1.2, Conn.refl hjn (hkeep j h1.1)⟩
    · obtain ⟨a, hga, hea⟩ := (and_ne_zero_iff _ _).mp hge
      have hc := comp_connIn (bits' := bits') (hcomp g hg) (fun k hk => hkeep k ((hcomp g hg).sub k hk))
      exact ⟨a, hea, hc a j hga h2⟩
  rw [BitVec.getLsbD_or, Bool.or_eq_true] at h
  rcases h with h | h
  · rw [grow_mem' n hn empty acc hem (Sub.trans haccb hbm)] at h
    obtain ⟨hse, hadj⟩ := h
    have hsn : s < n * n := lt_of_mask hn hem hse
    rcases hadj with h1 | ⟨j, hj, h1⟩
    · exact hreach s h1
    · obtain ⟨a, hea, hc⟩ := hreach j h1
      exact ⟨a, hea, Conn.step hc (neighbours_symm hsn hj) hs'⟩
  · rw [BitVec.getLsbD_and, Bool.and_eq_true] at h
    exact ⟨s, h.1, Conn.refl (lt_of_mask hn hem h.2) hs'⟩

/-! ### `findPlaceWins` -/

/-- a reported square is one of `empty` (for any constants) -/
theorem findPlaceWins_sub_empty (c : Consts) (mask empty : W) (gs : List W) :
    Sub (findPlaceWins c mask empty gs) empty := by
  intro s h
  have hg : ∀ x : W, (Gen.grow c empty x).getLsbD s = true → empty.getLsbD s = true := by
    intro x hx
    unfold Gen.grow at hx
    simp only [BitVec.getLsbD_and, Bool.and_eq_true] at hx
    exact hx.2
  unfold findPlaceWins at h
  simp only [BitVec.getLsbD_or, BitVec.getLsbD_and, Bool.or_eq_true, Bool.and_eq_true] at h
  rcases h with ⟨h1 | h1, _⟩ | ⟨h1 | h1, _⟩
  · exact hg _ h1
  · exact h1.2
  · exact hg _ h1
  · exact h1.2

/-- **Soundness of `findPlaceWins`** on a board of size 3..8: `bits` the mover's road squares, `gs` components of
them, `empty` inside the board.  If `s` is reported and `bits'` keeps `bits` and contains `s`, then `bits'` connects
two squares on opposite edges. -/
theorem findPlaceWins_spans {n : Nat} (hn : SizeOK n) {bits bits' empty : W} {gs : List W} {s : Nat}
    (hbm : Sub bits (Gen.precompute n).Mask) (hem : Sub empty (Gen.precompute n).Mask)
    (hcomp : ∀ g ∈ gs, IsComp n bits g)
    (hkeep : ∀ k, bits.getLsbD k = true → bits'.getLsbD k = true) (hs' : bits'.getLsbD s = true)
    (h : (findPlaceWins (Gen.precompute n) bits empty gs).getLsbD s = true) :
    ∃ i j, Conn n (fun k => bits'.getLsbD k = true) i j ∧ Spans n i j := by
  unfold findPlaceWins at h
  dsimp only at h
  have hl := foldl_sel (Gen.precompute n) EdgeAcc.l _ (edgeStep_l _) gs
    ⟨bits &&& (Gen.precompute n).L, bits &&& (Gen.precompute n).R, bits &&& (Gen.precompute n).B, bits &&& (Gen.precompute n).T⟩
  have hr := foldl_sel (Gen.precompute n) EdgeAcc.r _ (edgeStep_r _) gs
    ⟨bits &&& (Gen.precompute n).L, bits &&& (Gen.precompute n).R, bits &&& (Gen.precompute n).B, bits &&& (Gen.precompute n).T⟩
  have hb := foldl_sel (Gen.precompute n) EdgeAcc.b _ (edgeStep_b _) gs
    ⟨bits &&& (Gen.precompute n).L, bits &&& (Gen.precompute n).R, bits &&& (Gen.precompute n).B, bits &&& (Gen.precompute n).T⟩
  have ht := foldl_sel (Gen.precompute n) EdgeAcc.t _ (edgeStep_t _) gs
    ⟨bits &&& (Gen.precompute n).L, bits &&& (Gen.precompute n).R, bits &&& (Gen.precompute n).B, bits &&& (Gen.precompute n).T⟩
  rw [BitVec.getLsbD_or, Bool.or_eq_true] at h
  rcases h with h | h
  · rw [BitVec.getLsbD_and, Bool.and_eq_true] at h
    obtain ⟨aL, hL, cL⟩ := edge_reach hn hbm hem hcomp hl hkeep hs' h.1
    obtain ⟨aR, hR, cR⟩ := edge_reach hn hbm hem hcomp hr hkeep hs' h.2
    exact ⟨aR, aL, cR.trans cL.symm, Or.inl ⟨(R_mem hn hR).1, (L_mem hn hL).1⟩⟩
  · rw [BitVec.getLsbD_and, Bool.and_eq_true] at h
    obtain ⟨aT, hT, cT⟩ := edge_reach hn hbm hem hcomp ht hkeep hs' h.1
    obtain ⟨aB, hB, cB⟩ := edge_reach hn hbm hem hcomp hb hkeep hs' h.2
    exact ⟨aB, aT, cB.trans cT.symm, Or.inr ⟨(B_mem hn hB).1, (T_mem hn hT).1⟩⟩

end Proofs.MCTSPolicy
