import TakVerif.Proofs.LegalShapeBot

/-! Where the moves the bot loop transmits come from (helper for `Props/C07_pv.lean`): the ghost log grows only in
`onAnswer`, by a record of the move the `aiReturns` event carries.  So a predicate that holds of the move of every
`aiReturns` event of a schedule holds of every transmitted move. -/
namespace Tak.Bot
open Tak

theorem log_of_view {s t : St} (h : view t = view s) : t.log = s.log := congrArg (·.2.2) h

theorem log_onServerMove (cfg : Conf) (s : St) (parsed : Option Move) : (onServerMove cfg s parsed).log = s.log := by
  unfold onServerMove
  cases parsed with
  | none => rfl
  | some m =>
    dsimp only
    have h1 := log_of_view (view_srvPush cfg s m)
    cases ha : (srvPush cfg s m).p.apply cfg.basis m with
    | error e => exact h1
    | ok q => exact h1

theorem log_onTime (cfg : Conf) (s : St) (args : List String) : (onTime cfg s args).log = s.log := by
  unfold onTime
  split
  · dsimp only
    split
    · split <;> rfl
    · split <;> rfl
  · rfl

theorem log_onRequestUndo (s : St) (accept : Bool) : (onRequestUndo s accept).log = s.log := by
  unfold onRequestUndo
  split <;> rfl

theorem log_onUndo (cfg : Conf) (s : St) : (onUndo cfg s).log = s.log := by
  unfold onUndo
  dsimp only
  have h' := log_of_view (view_srvPop s)
  split
  · exact h'
  · split
    · exact h'
    · split
      · exact h'
      · exact h'

theorem log_onGameLine (cfg : Conf) (s : St) (rest : List String) (parsed : Option Move) (accept : Bool) :
    (onGameLine cfg s rest parsed accept).log = s.log := by
  unfold onGameLine
  split
  · rfl
  · split
    · exact log_onServerMove cfg s parsed
    · split
      · rfl
      · split
        · split <;> rfl
        · split
          · exact log_onTime cfg s _
          · split
            · exact log_onRequestUndo s accept
            · split
              · exact log_onUndo cfg s
              · rfl

theorem log_onLine (cfg : Conf) (s : St) (bits : List String) (parsed : Option Move) (accept : Bool) :
    (onLine cfg s bits parsed accept).log = s.log := by
  unfold onLine
  split
  · rfl
  · split
    · exact log_onGameLine cfg s _ parsed accept
    · split
      · exact log_onGameLine cfg s _ parsed accept
      · rfl

/-- `onAnswer` appends at most one record, of the answered move -/
theorem log_onAnswer (cfg : Conf) (s : St) (m : Move) :
    (onAnswer cfg s m).log = s.log ∨ ∃ r, r.move = m ∧ (onAnswer cfg s m).log = s.log ++ [r] := by
  unfold onAnswer
  cases ha : s.p.apply cfg.basis m with
  | error e =>
    cases e with
    | illegal w => exact Or.inl rfl
    | panic w => exact Or.inl rfl
    | hang w => exact Or.inl rfl
  | ok q =>
    dsimp only
    refine Or.inr ⟨{ move := m, recAt := s.p, srvAt := srvCur s, tag := s.cur.pos }, rfl, ?_⟩
    exact log_of_view (view_srvAccept cfg
      { s with log := s.log ++ [{ move := m, recAt := s.p, srvAt := srvCur s, tag := s.cur.pos }] } m)

/-- the moves of the ghost log all satisfy `A` -/
def LogFrom (A : Move → Prop) (s : St) : Prop := ∀ r ∈ s.log, A r.move

theorem LogFrom.of_log {A : Move → Prop} {s t : St} (h : LogFrom A s) (hl : t.log = s.log) : LogFrom A t := by
  unfold LogFrom; rw [hl]; exact h

theorem logFrom_step {A : Move → Prop} (cfg : Conf) {s : St} (h : LogFrom A s) (e : Ev)
    (he : ∀ k m, e = .aiReturns k m → A m) : LogFrom A (step cfg s e) := by
  cases e with
  | deliver bits parsed accept =>
    simp only [step]
    split
    · exact h.of_log (log_onLine cfg s bits parsed accept)
    · exact h
  | close =>
    simp only [step]
    split
    · exact h.of_log rfl
    · exact h
  | timerFires =>
    simp only [step]
    split
    · exact h.of_log rfl
    · exact h
  | grant k =>
    simp only [step, grant]
    split
    · exact h
    · split
      · exact h.of_log rfl
      · split
        · exact h.of_log rfl
        · exact h
  | aiReturns k m =>
    have hm : A m := he k m rfl
    simp only [step, aiReturns]
    split
    · exact h.of_log rfl
    · split
      · split
        · split
          · rcases log_onAnswer cfg { s with cur := { s.cur with st := .done, cancelled := true } } m with hl | ⟨r, hr, hl⟩
            · exact h.of_log hl
            · intro r' hr'
              rw [hl] at hr'
              rcases List.mem_append.mp hr' with h1 | h1
              · exact h r' h1
              · simp only [List.mem_singleton] at h1
                rw [h1, hr]; exact hm
          · exact h.of_log rfl
        · exact h
      · exact h

theorem logFrom_run {A : Move → Prop} (cfg : Conf) {s : St} (h : LogFrom A s) (evs : List Ev)
    (he : ∀ k m, Ev.aiReturns k m ∈ evs → A m) : LogFrom A (run cfg s evs) := by
  induction evs generalizing s with
  | nil => exact h
  | cons e es ih =>
    exact ih (logFrom_step cfg h e (fun k m hkm => he k m (by rw [hkm]; exact List.mem_cons_self)))
      (fun k m hm => he k m (List.mem_cons_of_mem _ hm))

theorem logFrom_start (A : Move → Prop) (cfg : Conf) (size : Nat) (secs : Int) : LogFrom A (start cfg size secs) := by
  unfold start
  split
  · intro r hr; cases hr
  · intro r hr; cases hr

end Tak.Bot
