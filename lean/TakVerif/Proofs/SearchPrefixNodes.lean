import TakVerif.Proofs.SearchPrefix

/-! C16, the table clause, through `pvSearch`/`zwSearch` (every configuration).  Mirrors the second half of
`SearchCancel.lean` with `Pfx` in place of `Loc`. -/
namespace Search
open Tak (Err)

variable {P M : Type}

section nodes
variable {T0 : Array (TEntry M)} {o : Oracle M} {α : Type}

def PfxPv (T0 : Array (TEntry M)) (o : Oracle M) (f f' : PvFn P M) : Prop :=
  ∀ p ply depth pv α β s, Pfx T0 o s (f p ply depth pv α β s) (f' p ply depth pv α β s)

def PfxZw (T0 : Array (TEntry M)) (o : Oracle M) (f f' : ZwFn P M) : Prop :=
  ∀ p ply depth pv α cut s, Pfx T0 o s (f p ply depth pv α cut s) (f' p ply depth pv α cut s)

/-! #### steps that leave table and log alone -/

theorem leaf_tw (g : Game P M) (p : P) (over : Bool) (s : Eng M) : TW s (leaf g p over s).2 := ⟨rfl, rfl⟩

theorem ttProbe_tw (g : Game P M) (p : P) (ply : Nat) (depth a b : Int) (s : Eng M) :
    Sat (ttProbe g p ply depth a b s) (fun x => TW s x.2) := by
  unfold ttProbe
  apply Sat.bind
  intro te _
  cases te with
  | none => exact Sat.pure ⟨rfl, rfl⟩
  | some e =>
    dsimp only
    split
    · split
      · apply Sat.bind; intro pv0 _; exact Sat.pure ⟨rfl, rfl⟩
      · exact Sat.pure ⟨rfl, rfl⟩
      · exact Sat.throw
    · exact Sat.pure ⟨rfl, rfl⟩

theorem pvInitBest_tw (ply : Nat) (pv : List M) (s : Eng M) :
    Sat (pvInitBest ply pv s) (fun x => TW s x.2) := by
  unfold pvInitBest
  split
  · apply Sat.bind; intro pv0 _; exact Sat.pure ⟨rfl, rfl⟩
  · apply Sat.bind; intro x _; exact Sat.pure ⟨rfl, rfl⟩

theorem slideReduction_tw (g : Game P M) (cfg : SOpts) (p : P) (ply : Nat) (depth : Int) (s : Eng M) :
    Sat (slideReduction g cfg p ply depth s) (fun x => TW s x.2) := by
  unfold slideReduction
  split
  · apply Sat.bind; intro prev _
    apply Sat.bind; intro red _
    split
    · exact Sat.pure ⟨rfl, rfl⟩
    · exact Sat.pure ⟨rfl, rfl⟩
  · exact Sat.pure ⟨rfl, rfl⟩

theorem recordCut_tw [DecidableEq M] (s : Eng M) (m : M) (mv ply : Nat) :
    Sat (recordCut s m mv ply) (fun s' => TW s s') := by
  unfold recordCut
  dsimp only
  split
  · split
    · exact Sat.error
    · exact Sat.ok ⟨rfl, rfl⟩
  · exact Sat.ok ⟨rfl, rfl⟩

/-! #### the two places that write the table -/

/-- `evict` either leaves table and log alone or makes one logged write -/
theorem evict_cases (s : Eng M) (k : H) :
    TW s (s.evict k) ∨
    ∃ i e, (s.evict k).table = s.table.setIfInBounds i e ∧ (s.evict k).wlog = (i, e) :: s.wlog := by
  unfold Eng.evict
  split
  · exact Or.inl ⟨rfl, rfl⟩
  · split
    · exact Or.inr ⟨_, _, rfl, rfl⟩
    · exact Or.inl ⟨rfl, rfl⟩

theorem rep_write {s s1 : Eng M} {i : Nat} {e : TEntry M} (ht : s1.table = s.table.setIfInBounds i e)
    (hw : s1.wlog = (i, e) :: s.wlog) (h : Rep T0 s) : Rep T0 s1 := by
  unfold Rep at h ⊢
  rw [ht, hw, h]
  rfl

theorem evict_suffix (s : Eng M) (k : H) : s.wlog <:+ (s.evict k).wlog := by
  rcases evict_cases s k with h | ⟨i, e, _, hw⟩
  · exact h.suffix
  · rw [hw]; exact List.suffix_cons _ _

theorem evict_rep (s : Eng M) (k : H) (h : Rep T0 s) : Rep T0 (s.evict k) := by
  rcases evict_cases s k with h1 | ⟨i, e, ht, hw⟩
  · exact h1.rep h
  · exact rep_write ht hw h

theorem setEntry_suffix (s : Eng M) (i : Nat) (e : TEntry M) : s.wlog <:+ (s.setEntry i e).wlog :=
  List.suffix_cons _ _

theorem setEntry_rep (s : Eng M) (i : Nat) (e : TEntry M) (h : Rep T0 s) : Rep T0 (s.setEntry i e) :=
  rep_write (s := s) rfl rfl h

theorem ite_setEntry_suffix (c : Prop) [Decidable c] (s1 a b : Eng M) (i : Nat) (e : TEntry M)
    (ha : TW s1 a) (hb : TW s1 b) : s1.wlog <:+ ((if c then a else b).setEntry i e).wlog := by
  split
  · exact ha.suffix.trans (setEntry_suffix a i e)
  · exact hb.suffix.trans (setEntry_suffix b i e)

theorem ite_setEntry_rep (c : Prop) [Decidable c] (s1 a b : Eng M) (i : Nat) (e : TEntry M)
    (ha : TW s1 a) (hb : TW s1 b) (h : Rep T0 s1) : Rep T0 ((if c then a else b).setEntry i e) := by
  split
  · exact setEntry_rep a i e (ha.rep h)
  · exact setEntry_rep b i e (hb.rep h)

/-- `ttPut`: under `o.never` it may move one entry; under `o` it does the same, or — flag seen — nothing -/
theorem ttPut_pfx (hm : o.Monotone) (s : Eng M) (k : H) : Pfx T0 o s (ttPut o s k) (ttPut o.never s k) := by
  unfold ttPut
  by_cases ht : s.hasTable = true
  · simp only [ht, Bool.not_true, Bool.false_eq_true, if_false]
    rw [load_never]
    obtain ⟨hl, he, hf⟩ := load_loc (o := o) s
    dsimp only
    simp only [Bool.false_eq_true, if_false]
    -- the never-cancelled side
    have hnev : Nev T0 s ((ttSlotIdx (load o s).2 k).bind fun i => .ok (some i, (load o s).2.evict k)) := by
      intro a2 s2 h2
      cases hi : ttSlotIdx (load o s).2 k with
      | error e => rw [hi] at h2; cases h2
      | ok i =>
        rw [hi] at h2
        have h2' : (some i, (load o s).2.evict k) = (a2, s2) := Except.ok.inj h2
        have hs2 : s2 = (load o s).2.evict k := (congrArg Prod.snd h2').symm
        rw [hs2]
        exact ⟨evict_suffix (load o s).2 k, fun h0 => evict_rep (load o s).2 k h0⟩
    refine ⟨hnev, ?_⟩
    cases hc : (load o s).1 with
    | true =>
      simp only [if_true]
      intro r s' h
      cases h
      refine ⟨by omega, by omega, fun h0 => h0, fun _ => rfl, fun hfu => (by rw [hf hfu] at hc; cases hc), ?_⟩
      intro a2 s2 h2
      exact (hnev a2 s2 h2).1
    | false =>
      simp only [Bool.false_eq_true, if_false]
      intro r s' hx
      cases hi : ttSlotIdx (load o s).2 k with
      | error e => rw [hi] at hx; cases hx
      | ok i =>
        have hx0 := hx
        rw [hi] at hx0
        have hx' : (some i, (load o s).2.evict k) = (r, s') := Except.ok.inj hx0
        have h1 : s' = (load o s).2.evict k := (congrArg Prod.snd hx').symm
        obtain ⟨h2, h3, h4, h5⟩ := evict_counters (load o s).2 k
        refine ⟨by rw [h1]; omega, by rw [h1]; omega, fun h0 => by rw [h1]; exact evict_rep _ k h0, ?_, fun _ => hx0, ?_⟩
        · intro hs
          rw [hs.loadTrue hm] at hc; cases hc
        · intro a2 s2 hx2
          rw [hx0] at hx2
          cases hx2
          exact List.suffix_refl _
  · have ht' : s.hasTable = false := by simpa using ht
    simp only [ht', Bool.not_false, if_true]
    exact Pfx.ok s _ (Nat.le_refl _) (Nat.le_refl _)

/-- a successful `ttPut` under a monotone oracle: the flag has not been seen -/
theorem ttPut_some_not_seen (hm : o.Monotone) (s : Eng M) (k : H) (slot : Nat) (s1 : Eng M)
    (h : ttPut o s k = .ok (some slot, s1)) : ¬ Seen o s1 := by
  unfold ttPut at h
  by_cases ht : s.hasTable = true
  · simp only [ht, Bool.not_true, Bool.false_eq_true, if_false] at h
    cases hc : (load o s).1 with
    | true => rw [hc] at h; simp only [if_true] at h; cases h
    | false =>
      rw [hc] at h
      simp only [Bool.false_eq_true, if_false] at h
      cases hi : ttSlotIdx (load o s).2 k with
      | error e => rw [hi] at h; cases h
      | ok i =>
        rw [hi] at h
        have hx' : (some i, (load o s).2.evict k) = (some slot, s1) := Except.ok.inj h
        have h1 : s1 = (load o s).2.evict k := (congrArg Prod.snd hx').symm
        obtain ⟨h2, h3, _, _⟩ := evict_counters (load o s).2 k
        have hfu := FalseUpTo.of_load hm hc
        intro hs
        refine hs.not_falseUpTo ?_
        intro l e hl he
        exact hfu l e (by rw [h1, h2] at hl; exact hl) (by rw [h1, h3] at he; exact he)
  · have ht' : s.hasTable = false := by simpa using ht
    simp only [ht', Bool.not_false, if_true] at h
    cases h

/-- a deterministic continuation that may write the table, run after the flag was found clear -/
theorem Run.det {s : Eng M} (hns : ¬ Seen o s) (x : Except Err (α × Eng M))
    (hc : Sat x (fun r => s.loads ≤ r.2.loads ∧ s.evals ≤ r.2.evals ∧ (Rep T0 s → Rep T0 r.2))) :
    Run T0 o s x x := by
  intro a s' hx
  obtain ⟨h1, h2, h3⟩ := hc (a, s') hx
  exact ⟨h1, h2, h3, fun hs => absurd hs hns, fun _ => hx, fun a2 s2 h2 => by
    rw [hx] at h2; cases h2; exact List.suffix_refl _⟩

theorem pvStore_pfx (hm : o.Monotone) (k : H) (depth b : Int) (a : PvAcc M) (s : Eng M) :
    Pfx T0 o s (pvStore o k depth b a s) (pvStore o.never k depth b a s) := by
  unfold pvStore
  refine Pfx.bind' (ttPut_pfx hm s k) ?_ ?_
  · intro slot? s1 _
    dsimp only
    cases slot? with
    | none => exact Nev.ok s1 _ (TW.refl _)
    | some slot =>
      dsimp only
      split
      · split
        · intro a2 s2 h2
          cases h2
          exact ⟨ite_setEntry_suffix _ _ _ _ _ _ ⟨rfl, rfl⟩ ⟨rfl, rfl⟩, ite_setEntry_rep _ _ _ _ _ _ ⟨rfl, rfl⟩ ⟨rfl, rfl⟩⟩
        · exact Nev.ok s1 _ (TW.refl _)
      · exact Nev.error s1 _
  · intro slot? s1 hput
    dsimp only
    cases slot? with
    | none => exact (Pfx.ok (T0 := T0) (o := o) s1 _ (Nat.le_refl _) (Nat.le_refl _)).run
    | some slot =>
      have hns := ttPut_some_not_seen hm s k slot s1 hput
      dsimp only
      split
      · split
        · refine Run.det hns _ (Sat.ok ⟨?_, ?_, ?_⟩)
          · simp only [setEntry_counters]; split <;> exact Nat.le_refl _
          · simp only [setEntry_counters]; split <;> exact Nat.le_refl _
          · exact ite_setEntry_rep _ _ _ _ _ _ ⟨rfl, rfl⟩ ⟨rfl, rfl⟩
        · exact (Pfx.ok (T0 := T0) (o := o) s1 _ (Nat.le_refl _) (Nat.le_refl _)).run
      · exact Run.error s1 _ _

theorem zwStore_pfx (hm : o.Monotone) (k : H) (depth a0 : Int) (a : ZwAcc M) (s : Eng M) :
    Pfx T0 o s (zwStore o k depth a0 a s) (zwStore o.never k depth a0 a s) := by
  unfold zwStore
  refine Pfx.bind' (ttPut_pfx hm s k) ?_ ?_
  · intro slot? s1 _
    dsimp only
    cases slot? with
    | none => exact Nev.ok s1 _ (TW.refl _)
    | some slot =>
      dsimp only
      split
      · intro a2 s2 h2
        cases h2
        exact ⟨ite_setEntry_suffix _ _ _ _ _ _ ⟨rfl, rfl⟩ ⟨rfl, rfl⟩, ite_setEntry_rep _ _ _ _ _ _ ⟨rfl, rfl⟩ ⟨rfl, rfl⟩⟩
      · exact Nev.error s1 _
  · intro slot? s1 hput
    dsimp only
    cases slot? with
    | none => exact (Pfx.ok (T0 := T0) (o := o) s1 _ (Nat.le_refl _) (Nat.le_refl _)).run
    | some slot =>
      have hns := ttPut_some_not_seen hm s k slot s1 hput
      dsimp only
      split
      · refine Run.det hns _ (Sat.ok ⟨?_, ?_, ?_⟩)
        · simp only [setEntry_counters]; split <;> exact Nat.le_refl _
        · simp only [setEntry_counters]; split <;> exact Nat.le_refl _
        · exact ite_setEntry_rep _ _ _ _ _ _ ⟨rfl, rfl⟩ ⟨rfl, rfl⟩
      · exact Run.error s1 _ _

theorem afterChild_pfx {σ : Type} (a : σ) (s : Eng M) :
    Pfx T0 o s (Pure.pure (afterChild (M := M) o a s) : Except Err (Ctl σ (Res M) × Eng M))
      (Pure.pure (afterChild o.never a s)) := by
  unfold afterChild
  rw [load_never]
  obtain ⟨hl, he, hf⟩ := load_loc (o := o) s
  cases hc : (load o s).1 with
  | true =>
    have : load o s = (true, (load o s).2) := by rw [← hc]
    rw [this]
    exact Pfx.sameState s _ _ _ (by omega) (by omega) ⟨rfl, rfl⟩ (fun hfu => by rw [hf hfu] at hc; cases hc)
  | false =>
    have : load o s = (false, (load o s).2) := by rw [← hc]
    rw [this]
    exact Pfx.sameState s _ _ _ (by omega) (by omega) ⟨rfl, rfl⟩ (fun _ => rfl)

/-! #### the nodes -/

theorem pvChild_pfx {cpv cpv' : PvFn P M} {czw czw' : ZwFn P M} (hp : PfxPv T0 o cpv cpv') (hz : PfxZw T0 o czw czw')
    (i : Nat) (child : P) (ply : Nat) (depth : Int) (tail : List M) (a b : Int) (s : Eng M) :
    Pfx T0 o s (pvChild cpv czw i child ply depth tail a b s) (pvChild cpv' czw' i child ply depth tail a b s) := by
  unfold pvChild
  split
  · refine Pfx.bind (hz child (ply + 1) (depth - 1) tail (-a - 1) true s) ?_
    rintro ⟨ms, v⟩ s1
    dsimp only
    split
    · exact (hp child (ply + 1) (depth - 1) tail (-b) (-a) _).start rfl rfl
    · exact Pfx.pure s1 _ s1 (Nat.le_refl _) (Nat.le_refl _)
  · exact hp child (ply + 1) (depth - 1) tail (-b) (-a) s

theorem pvBody_pfx [DecidableEq M] (g : Game P M) {cpv cpv' : PvFn P M} {czw czw' : ZwFn P M}
    (hp : PfxPv T0 o cpv cpv') (hz : PfxZw T0 o czw czw') (ply : Nat) (depth b : Int) (dedup : Bool) :
    PfxBody T0 o (pvBody g o cpv czw ply depth b dedup) (pvBody g o.never cpv' czw' ply depth b dedup) := by
  intro m c a s
  unfold pvBody
  refine Pfx.ite _ (fun _ => Pfx.pure s _ s (Nat.le_refl _) (Nat.le_refl _)) (fun _ => ?_)
  refine Pfx.bind_same _ ?_
  intro sm _
  refine Pfx.bind ((pvChild_pfx hp hz _ c ply depth _ _ b _).start rfl rfl) ?_
  rintro r s1
  dsimp only
  refine Pfx.ite _ (fun _ => ?_) (fun _ => afterChild_pfx _ s1)
  refine Pfx.bind_same _ ?_
  intro pv0 _
  refine Pfx.ite _ (fun _ => ?_) (fun _ => (afterChild_pfx _ _).start rfl rfl)
  refine Pfx.bind_same _ ?_
  intro s2 hs2
  obtain ⟨h1, h2, _, _⟩ := recordCut_counters _ _ _ _ s2 hs2
  have htw := recordCut_tw _ _ _ _ s2 hs2
  exact (Pfx.pure s2 _ s2 (Nat.le_refl _) (Nat.le_refl _)).start h1.symm h2.symm ⟨htw.1, htw.2⟩

theorem pvNode_pfx [DecidableEq M] (hm : o.Monotone) (g : Game P M) (cfg : SOpts) (frame : Bool)
    {cpv cpv' : PvFn P M} {czw czw' : ZwFn P M} (hp : PfxPv T0 o cpv cpv') (hz : PfxZw T0 o czw czw') :
    PfxPv T0 o (pvNode g cfg o frame cpv czw) (pvNode g cfg o.never frame cpv' czw') := by
  intro p ply depth pv a b s
  unfold pvNode
  dsimp only
  split
  · exact Pfx.pure s _ _ (leaf_counters g p _ s).1 (leaf_counters g p _ s).2.1 (leaf_tw g p _ s)
  · split
    · exact Pfx.error s _
    · refine Pfx.bind ((Pfx.same _ _ (ttProbe_counters g p ply depth a b _) (ttProbe_tw g p ply depth a b _)).start
        rfl rfl) ?_
      rintro probe s1
      dsimp only
      cases probe with
      | inl r => exact Pfx.pure s1 _ s1 (Nat.le_refl _) (Nat.le_refl _)
      | inr te =>
        dsimp only
        refine Pfx.bind (Pfx.same _ _ (pvInitBest_counters ply pv s1) (pvInitBest_tw ply pv s1)) ?_
        rintro best s2
        dsimp only
        refine Pfx.bind (iterate_pfx (pvBody_pfx g hp hz ply depth b _) cfg _ _ s2) ?_
        rintro c s3
        dsimp only
        cases c with
        | ret r => exact Pfx.pure s3 _ s3 (Nat.le_refl _) (Nat.le_refl _)
        | next acc => exact pvStore_pfx hm _ depth b acc s3
        | brk acc => exact pvStore_pfx hm _ depth b acc s3

theorem nullMove_pfx (g : Game P M) (cfg : SOpts) {czw czw' : ZwFn P M} (hz : PfxZw T0 o czw czw')
    (p : P) (ply : Nat) (depth a : Int) (s : Eng M) :
    Pfx T0 o s (nullMove g cfg czw p ply depth a s) (nullMove g cfg czw' p ply depth a s) := by
  unfold nullMove
  refine Pfx.bind_same _ ?_
  intro ok _
  refine Pfx.ite _ (fun _ => Pfx.pure s _ s (Nat.le_refl _) (Nat.le_refl _)) (fun _ => ?_)
  refine Pfx.bind_same _ ?_
  intro sm _
  dsimp only
  cases g.apply p g.passMove with
  | error e =>
    cases e with
    | illegal w => exact (Pfx.pure _ _ _ (Nat.le_refl _) (Nat.le_refl _)).start rfl rfl
    | panic w => exact Pfx.error s _
    | hang w => exact Pfx.error s _
  | ok child =>
    dsimp only
    refine Pfx.bind ((hz child (ply + 1) (depth - 3) [] (-a - 1) true _).start rfl rfl) ?_
    rintro r s1
    dsimp only
    exact Pfx.ite _ (fun _ => Pfx.pure s1 _ _ (Nat.le_refl _) (Nat.le_refl _))
      (fun _ => Pfx.pure s1 _ _ (Nat.le_refl _) (Nat.le_refl _))

theorem mcBody_pfx {czw czw' : ZwFn P M} (hz : PfxZw T0 o czw czw') (ply : Nat) (depth a : Int) (cut : Bool) :
    PfxBody T0 o (mcBody czw ply depth a cut) (mcBody czw' ply depth a cut) := by
  intro m c acc s
  unfold mcBody
  refine Pfx.ite _ (fun _ => Pfx.pure s _ s (Nat.le_refl _) (Nat.le_refl _)) (fun _ => ?_)
  refine Pfx.bind_same _ ?_
  intro sm _
  refine Pfx.bind ((hz c (ply + 1) (depth - 1 - 2) [] (-a - 1) (!cut) _).start rfl rfl) ?_
  rintro r s1
  dsimp only
  refine Pfx.ite _ (fun _ => ?_) (fun _ => Pfx.pure s1 _ s1 (Nat.le_refl _) (Nat.le_refl _))
  exact Pfx.ite _ (fun _ => Pfx.pure s1 _ _ (Nat.le_refl _) (Nat.le_refl _))
    (fun _ => Pfx.pure s1 _ s1 (Nat.le_refl _) (Nat.le_refl _))

theorem multiCut_pfx [DecidableEq M] (g : Game P M) (cfg : SOpts) {czw czw' : ZwFn P M} (hz : PfxZw T0 o czw czw')
    (p : P) (mg : MG M) (a : Int) (cut : Bool) (s : Eng M) :
    Pfx T0 o s (multiCut g cfg o czw p mg a cut s) (multiCut g cfg o.never czw' p mg a cut s) := by
  unfold multiCut
  refine Pfx.ite _ (fun _ => ?_) (fun _ => Pfx.pure s _ s (Nat.le_refl _) (Nat.le_refl _))
  refine Pfx.bind ((iterate_pfx (mcBody_pfx hz mg.ply mg.depth a cut) cfg mg _ _).start rfl rfl) ?_
  rintro c s1
  dsimp only
  cases c with
  | ret r => exact Pfx.pure s1 _ s1 (Nat.le_refl _) (Nat.le_refl _)
  | next acc => exact Pfx.pure s1 _ s1 (Nat.le_refl _) (Nat.le_refl _)
  | brk acc => exact Pfx.pure s1 _ s1 (Nat.le_refl _) (Nat.le_refl _)

theorem zwBody_pfx [DecidableEq M] {czw czw' : ZwFn P M} (hz : PfxZw T0 o czw czw')
    (ply : Nat) (depth a : Int) (cut : Bool) :
    PfxBody T0 o (zwBody o czw ply depth a cut) (zwBody o.never czw' ply depth a cut) := by
  intro m c acc s
  unfold zwBody
  refine Pfx.bind_same _ ?_
  intro sm _
  refine Pfx.bind ((hz c (ply + 1) (depth - 1) _ (-a - 1) (!cut) _).start rfl rfl) ?_
  rintro r s1
  dsimp only
  refine Pfx.ite _ (fun _ => ?_) (fun _ => afterChild_pfx _ s1)
  refine Pfx.bind_same _ ?_
  intro s2 hs2
  obtain ⟨h1, h2, _, _⟩ := recordCut_counters _ _ _ _ s2 hs2
  have htw := recordCut_tw _ _ _ _ s2 hs2
  refine Pfx.bind_same _ ?_
  intro pv0 _
  exact (Pfx.pure (T0 := T0) (o := o) { s2 with pv0 := pv0 } _ _ (Nat.le_refl _) (Nat.le_refl _)).start
    h1.symm h2.symm ⟨htw.1, htw.2⟩

theorem zwNode_pfx [DecidableEq M] (hm : o.Monotone) (g : Game P M) (cfg : SOpts) (frame : Bool)
    {czw czw' : ZwFn P M} (hz : PfxZw T0 o czw czw') :
    PfxZw T0 o (zwNode g cfg o frame czw) (zwNode g cfg o.never frame czw') := by
  intro p ply depth pv a cut s
  unfold zwNode
  dsimp only
  split
  · exact Pfx.pure s _ _ (leaf_counters g p _ s).1 (leaf_counters g p _ s).2.1 (leaf_tw g p _ s)
  · split
    · exact Pfx.error s _
    · refine Pfx.bind ((Pfx.same _ _ (ttProbe_counters g p ply depth a (a + 1) _)
        (ttProbe_tw g p ply depth a (a + 1) _)).start rfl rfl) ?_
      rintro probe s1
      dsimp only
      cases probe with
      | inl r => exact Pfx.pure s1 _ s1 (Nat.le_refl _) (Nat.le_refl _)
      | inr te =>
        dsimp only
        refine Pfx.bind (nullMove_pfx g cfg hz p ply depth a s1) ?_
        rintro nm s2
        dsimp only
        cases nm with
        | some r => exact Pfx.pure s2 _ s2 (Nat.le_refl _) (Nat.le_refl _)
        | none =>
          dsimp only
          refine Pfx.bind (Pfx.same _ _ (slideReduction_counters g cfg p ply depth s2)
            (slideReduction_tw g cfg p ply depth s2)) ?_
          rintro depth' s3
          dsimp only
          refine Pfx.bind (multiCut_pfx g cfg hz p _ a cut s3) ?_
          rintro mc s4
          dsimp only
          cases mc with
          | some r => exact Pfx.pure s4 _ s4 (Nat.le_refl _) (Nat.le_refl _)
          | none =>
            dsimp only
            refine Pfx.bind_same _ ?_
            intro x _
            refine Pfx.bind (iterate_pfx (zwBody_pfx hz ply depth' a cut) cfg _ _ s4) ?_
            rintro c s5
            dsimp only
            cases c with
            | ret r => exact Pfx.pure s5 _ s5 (Nat.le_refl _) (Nat.le_refl _)
            | next acc => exact zwStore_pfx hm _ depth' a acc s5
            | brk acc => exact zwStore_pfx hm _ depth' a acc s5

/-- **the table writes of a search under a monotone oracle are an initial segment of the writes of the search with
the flag never set** (every configuration; see `Pfx`) -/
theorem search_pfx [DecidableEq M] (hm : o.Monotone) (g : Game P M) (cfg : SOpts) :
    ∀ n, PfxPv T0 o (search g cfg o n).1 (search g cfg o.never n).1 ∧
         PfxZw T0 o (search g cfg o n).2 (search g cfg o.never n).2 := by
  intro n
  induction n with
  | zero =>
    have hze : PfxZw (P := P) T0 o (fun _ _ _ _ _ _ _ => (.error (.panic "ai.stack[ply]: index out of range") : Except Err (Res M × Eng M)))
        (fun _ _ _ _ _ _ _ => (.error (.panic "ai.stack[ply]: index out of range") : Except Err (Res M × Eng M))) :=
      fun _ _ _ _ _ _ s => Pfx.error s _
    have hpe : PfxPv (P := P) T0 o (fun _ _ _ _ _ _ _ => (.error (.panic "ai.stack[ply]: index out of range") : Except Err (Res M × Eng M)))
        (fun _ _ _ _ _ _ _ => (.error (.panic "ai.stack[ply]: index out of range") : Except Err (Res M × Eng M))) :=
      fun _ _ _ _ _ _ s => Pfx.error s _
    exact ⟨pvNode_pfx hm g cfg false hpe hze, zwNode_pfx hm g cfg false hze⟩
  | succ n ih =>
    exact ⟨pvNode_pfx hm g cfg true ih.1 ih.2, zwNode_pfx hm g cfg true ih.2⟩

end nodes
end Search
