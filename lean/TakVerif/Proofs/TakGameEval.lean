import TakVerif.Props.C18
import TakVerif.Proofs.WF
import TakVerif.Impl.Minimax

/-! The evaluation functions the Tak instance of the search model is used with stay inside `[MinEval, MaxEval]`
and, on unfinished positions, inside `[-WinThreshold, WinThreshold]` (the search model's `EvalOK` conditions). -/
namespace Search
open Tak

/-- `ai.MakeEvaluator(size, nil)` as the search calls it (constants of the position, default weights of its size); the
model's panic/hang results map to 0 - they do not occur on well-formed positions (C18.eval_total) -/
def evalDefault (p : Pos) : Int := match Tak.evaluateDefault p.c p with | .ok v => v | .error _ => 0

/-- the search model's winner-only evaluator is the model of `ai.EvaluateWinner` -/
theorem evalWinner_eq (p : Pos) : evalWinner p = Tak.evaluateWinner p := by
  unfold evalWinner Tak.evaluateWinner
  cases p.gameOver with
  | mk a b => rfl

theorem evalWinner_bounded (p : Pos) : Facts.minEval ≤ evalWinner p ∧ evalWinner p ≤ Facts.maxEval := by
  rw [evalWinner_eq]
  unfold Tak.evaluateWinner
  dsimp only
  split
  · split
    · decide
    · split <;> decide
  · decide

theorem evalWinner_inside (p : Pos) (hov : p.gameOver.1 = false) :
    -Facts.winThreshold ≤ evalWinner p ∧ evalWinner p ≤ Facts.winThreshold := by
  rw [evalWinner_eq, (C18.winner_eval_spec p).1 hov]
  decide

/-- `evalMat` split along `gameOver` -/
theorem evalMat_over (p : Pos) (hov : p.gameOver.1 = true) :
    evalMat p = 0 ∨ evalMat p = Facts.winBase - p.move ∨ evalMat p = -(Facts.winBase - p.move) := by
  unfold evalMat
  cases hg : p.gameOver with
  | mk a b =>
    rw [hg] at hov
    simp only at hov
    subst hov
    simp only [if_true]
    split
    · exact .inl rfl
    · split
      · exact .inr (.inl rfl)
      · exact .inr (.inr rfl)

theorem evalMat_not_over (p : Pos) (hov : p.gameOver.1 = false) :
    -895 ≤ evalMat p ∧ evalMat p ≤ 895 := by
  unfold evalMat
  cases hg : p.gameOver with
  | mk a b =>
    rw [hg] at hov
    simp only at hov
    subst hov
    simp only [Bool.false_eq_true, if_false]
    cases hc : p.countFlats with
    | mk w b =>
      have hw : w ≤ 64 := by
        have := congrArg Prod.fst hc
        simp only [Pos.countFlats] at this
        rw [← this]; exact C18.popcount_le _
      have hb : b ≤ 64 := by
        have := congrArg Prod.snd hc
        simp only [Pos.countFlats] at this
        rw [← this]; exact C18.popcount_le _
      have h1 := p.blackStones.isLt
      have h2 := p.whiteStones.isLt
      simp only
      split <;> refine ⟨?_, ?_⟩ <;> omega

theorem evalMat_bounded (basis : Array W) (p : Pos) (hwf : WF basis p) (hN : p.move ≤ 2000000) :
    Facts.minEval ≤ evalMat p ∧ evalMat p ≤ Facts.maxEval := by
  have h0 := hwf.move_nonneg
  have e1 : Facts.minEval = -1073741824 := by decide
  have e2 : Facts.maxEval = 1073741824 := by decide
  have e3 : Facts.winBase = 805306368 := by decide
  cases hov : p.gameOver.1 with
  | false =>
    have := evalMat_not_over p hov
    refine ⟨?_, ?_⟩ <;> omega
  | true =>
    rcases evalMat_over p hov with h | h | h <;> rw [h] <;> refine ⟨?_, ?_⟩ <;> omega

theorem evalMat_inside (basis : Array W) (p : Pos) (hwf : WF basis p) (hov : p.gameOver.1 = false) :
    -Facts.winThreshold ≤ evalMat p ∧ evalMat p ≤ Facts.winThreshold := by
  have _ := hwf
  have := evalMat_not_over p hov
  have e : Facts.winThreshold = 536870912 := by decide
  refine ⟨?_, ?_⟩ <;> omega

/-- C01's invariant plus "the stored groups are the analysed ones" gives C02's board invariant -/
theorem roadWF_of_wf (basis : Array W) (p : Pos) (hwf : WF basis p) (han : p.analyze = some p) : Roads.RoadWF p := by
  have hn : Roads.SizeOK p.cfg.size := ⟨hwf.size_ge, hwf.size_le⟩
  have hsub : ∀ (x : W), (∀ j, p.cfg.size * p.cfg.size ≤ j → x.getLsbD j = false) → Roads.Sub x p.c.Mask := by
    intro x hx k hk
    rw [hwf.consts, Roads.Mask_bitN _ hn]
    simp only [decide_eq_true_eq]
    apply Classical.byContradiction
    intro hge
    rw [hx k (by omega)] at hk; cases hk
  exact ⟨hn, hwf.consts, hsub _ (fun j hj => (hwf.mask j hj).1), hsub _ (fun j hj => (hwf.mask j hj).2.1),
    hwf.white_black_disjoint, han⟩

/-- sizes 3..8 have a built-in default weight set -/
theorem defaultWeightsFor_ok (n : Nat) (h3 : 3 ≤ n) (h8 : n ≤ 8) :
    ∃ w, defaultWeightsFor n = .ok w ∧ w ∈ C18.builtinWeights := by
  have hs : n = 3 ∨ n = 4 ∨ n = 5 ∨ n = 6 ∨ n = 7 ∨ n = 8 := by omega
  rcases hs with e | e | e | e | e | e <;> subst e <;> exact ⟨_, rfl, by decide⟩

/-- on a well-formed analysed position `evalDefault` is the value `evaluate` returns with a built-in weight set -/
theorem evalDefault_eq (basis : Array W) (p : Pos) (hwf : WF basis p) (han : p.analyze = some p) :
    ∃ w, w ∈ C18.builtinWeights ∧ Tak.evaluate p.c w p = .ok (evalDefault p) := by
  obtain ⟨w, hw, hmem⟩ := defaultWeightsFor_ok p.cfg.size hwf.size_ge hwf.size_le
  obtain ⟨v, hv⟩ := C18.eval_total w p (roadWF_of_wf basis p hwf han)
    (by rw [hwf.height_size, hwf.stacks_size]; exact Nat.le_refl _)
  refine ⟨w, hmem, ?_⟩
  unfold evalDefault Tak.evaluateDefault
  rw [hw]
  simp only [hv]

theorem evalDefault_bounded (basis : Array W) (p : Pos) (hwf : WF basis p) (han : p.analyze = some p)
    (hN : p.move ≤ 2000000) : Facts.minEval ≤ evalDefault p ∧ evalDefault p ≤ Facts.maxEval := by
  obtain ⟨w, hmem, hv⟩ := evalDefault_eq basis p hwf han
  have hh : p.height.size ≤ 64 := by rw [hwf.height_size]; exact hwf.toFrame.n_le
  obtain ⟨v, hv', h1, h2, _⟩ := C18.c18 w hmem p (roadWF_of_wf basis p hwf han) hh
    (by rw [hwf.height_size, hwf.stacks_size]; exact Nat.le_refl _) hwf.move_nonneg hN
  rw [hv] at hv'
  have : evalDefault p = v := Except.ok.inj hv'
  rw [this]
  exact ⟨h1, h2⟩

theorem evalDefault_inside (basis : Array W) (p : Pos) (hwf : WF basis p) (han : p.analyze = some p)
    (hov : p.gameOver.1 = false) : -Facts.winThreshold ≤ evalDefault p ∧ evalDefault p ≤ Facts.winThreshold := by
  obtain ⟨w, hmem, hv⟩ := evalDefault_eq basis p hwf han
  have hh : p.height.size ≤ 64 := by rw [hwf.height_size]; exact hwf.toFrame.n_le
  have := C18.heuristic_inside p.c w hmem p (C18.analyze_analyzed p p han) hh hov _ hv
  refine ⟨?_, ?_⟩ <;> omega

end Search
