import TakVerif.Proofs.SearchAttainAnalyze
import TakVerif.Proofs.SearchCoverAnalyze

/-! Histories of calls of all three entry points (`Analyze`, `AnalyzeAll`, `GetMove`) on one engine keep the table
invariants of C05 — sound (`TableSound`), covering (`TableGood`, for `verdict_complete`) and naming win-keeping moves
(`TableAtt`): `runEntries_ok`.  The extra searches `GetMove` (randomised choice) and `AnalyzeAll` (one zero-width search
per root move) make are ordinary searches; cancelled or not, they leave only good entries. -/
namespace Search
open Tak (Err)

variable {P M : Type} [DecidableEq M]

theorem gmBody_keeps {g : Game P M} (hg : GameOK g) (he : EvalOK g) (hinj : HashOK g)
    {cfg : Cfg} (hpr : Precise cfg.opts) {o : Oracle M} (hm : o.Monotone) (hord : OrderOK o) (p : P)
    (depth : Int) (rest : List M) (v : Int) (hw : 0 ≤ cfg.randomizeWindow) :
    BodyOK g p (gmBody g cfg o depth rest v (v - cfg.randomizeWindow))
      (fun _ s => TableGood g s) (fun _ _ => True) (fun _ s => TableGood g s) (fun (_ : Unit) s => TableGood g s) := by
  intro m c a s _ hts
  unfold gmBody
  apply Sat.bind
  intro sm _
  apply Sat.bind
  unfold pvSearch
  have hs := (search_keeps hg he hinj hpr hm hord (Facts.maxDepth - 1)).1 c 1 (depth - 1) rest (-v - 1)
      (-(v - cfg.randomizeWindow)) { s with stackM := sm } (hts.of_table rfl) (by omega)
  refine hs.mono ?_
  rintro ⟨r, s'⟩ hts'
  dsimp only at hts' ⊢
  split
  · exact Sat.pure ⟨hts', fun _ h => h, fun _ _ => trivial⟩
  · split
    · exact Sat.pure ⟨hts', fun _ h => h, fun _ _ => trivial⟩
    · split
      · exact Sat.throw
      · exact Sat.pure ⟨hts'.of_table rfl, fun _ h => h, fun _ _ => trivial⟩

theorem getMoveFrom_keeps {g : Game P M} (hg : GameOK g) (he : EvalOK g) (hinj : HashOK g)
    {cfg : Cfg} (hpr : Precise cfg.opts) {o : Oracle M} (hm : o.Monotone) (hord : OrderOK o)
    (hw : 0 ≤ cfg.randomizeWindow) (p : P) (pv : List M) (v : Int) (st : Stats) (s : Eng M) (hts : TableGood g s) :
    Sat (getMoveFrom g cfg o p pv v st s) (fun x => TableGood g x.2) := by
  unfold getMoveFrom
  cases pv with
  | nil => exact Sat.ok hts
  | cons pv0 rest =>
    dsimp only
    split
    · exact Sat.ok hts
    · split
      · exact Sat.ok hts
      · have hit := iterate_inv (gmBody_keeps hg he hinj hpr hm hord p st.depth rest v hw) cfg.opts o
          (rootMG st.depth (pv0 :: rest)) (fun _ _ _ h => h.of_table rfl) (⟨pv0, 0⟩ : GmAcc M) s hts
        cases hi : iterate g cfg.opts o p (rootMG st.depth (pv0 :: rest))
            (gmBody g cfg o st.depth rest v (v - cfg.randomizeWindow)) (⟨pv0, 0⟩ : GmAcc M) s with
        | error e => exact Sat.error
        | ok y =>
          obtain ⟨ctl, s2⟩ := y
          have hpost := hit _ hi
          cases ctl with
          | next a => exact Sat.ok hpost.1
          | brk a => exact Sat.ok hpost
          | ret r => exact Sat.ok hpost

theorem getMove_keeps {g : Game P M} (hg : GameOK g) (he : EvalOK g) (hinj : HashOK g)
    {cfg : Cfg} (hpr : Precise cfg.opts) {o : Oracle M} (hm : o.Monotone) (hord : OrderOK o)
    (hw : 0 ≤ cfg.randomizeWindow) (p : P) (s : Eng M) (hts : TableGood g s) :
    Sat (getMove g cfg o p s) (fun x => TableGood g x.2) := by
  intro x hx
  obtain ⟨pv, v, st, s1, ha, hf⟩ := getMove_inner hx
  exact getMoveFrom_keeps hg he hinj hpr hm hord hw p pv v st s1 (analyze_keeps hg he hinj hpr hm hord p s hts _ ha) _ hf

theorem aaBody_good {g : Game P M} (hg : GameOK g) (he : EvalOK g) (hinj : HashOK g)
    {cfg : SOpts} (hpr : Precise cfg) {o : Oracle M} (hm : o.Monotone) (hord : OrderOK o) (p : P)
    (depth : Int) (pv0 : M) (rest : List M) (v : Int) :
    BodyOK g p (aaBody g cfg o depth pv0 rest v)
      (fun _ s => TableGood g s) (fun _ _ => True) (fun _ s => TableGood g s) (fun (_ : Unit) s => TableGood g s) := by
  intro m c a s _ hts
  unfold aaBody
  apply Sat.bind
  intro sm _
  apply Sat.bind
  unfold pvSearch
  have hs := (search_keeps hg he hinj hpr hm hord (Facts.maxDepth - 1)).1 c 1 (depth - 1) rest (-v - 1) (-v + 1)
    { s with stackM := sm } (hts.of_table rfl) (by omega)
  refine hs.mono ?_
  rintro ⟨r, s'⟩ hts'
  dsimp only at hts' ⊢
  split
  · exact Sat.pure ⟨hts', fun _ h => h, fun _ _ => trivial⟩
  · split
    · exact Sat.pure ⟨hts', fun _ h => h, fun _ _ => trivial⟩
    · exact Sat.pure ⟨hts', fun _ h => h, fun _ _ => trivial⟩

theorem analyzeAllFrom_good {g : Game P M} (hg : GameOK g) (he : EvalOK g) (hinj : HashOK g)
    {cfg : Cfg} (hpr : Precise cfg.opts) {o : Oracle M} (hm : o.Monotone) (hord : OrderOK o) (p : P)
    (pv : List M) (v : Int) (st : Stats) (s : Eng M) (hts : TableGood g s) :
    Sat (analyzeAllFrom g cfg o p pv v st s) (fun x => TableGood g x.2) := by
  unfold analyzeAllFrom
  cases pv with
  | nil => exact Sat.ok hts
  | cons pv0 rest =>
    dsimp only
    have hit := iterate_inv (aaBody_good hg he hinj hpr hm hord p st.depth pv0 rest v) cfg.opts o
      (rootMG st.depth (pv0 :: rest)) (fun _ _ _ h => h.of_table rfl) [pv0 :: rest] s hts
    cases hr : iterate g cfg.opts o p (rootMG st.depth (pv0 :: rest)) (aaBody g cfg.opts o st.depth pv0 rest v)
        [pv0 :: rest] s with
    | error e => exact Sat.error
    | ok r =>
      obtain ⟨c, s'⟩ := r
      have h := hit _ hr
      cases c with
      | next out => exact Sat.ok h.1
      | brk out => exact Sat.ok h
      | ret u => exact Sat.ok h

theorem analyzeAll_good {g : Game P M} (hg : GameOK g) (he : EvalOK g) (hinj : HashOK g)
    {cfg : Cfg} (hpr : Precise cfg.opts) {o : Oracle M} (hm : o.Monotone) (hord : OrderOK o) (p : P) (s : Eng M)
    (hts : TableGood g s) : Sat (analyzeAll g cfg o p s) (fun x => TableGood g x.2) := by
  intro x hx
  obtain ⟨pv, v, st, s1, ha, hf⟩ := analyzeAll_inner hx
  exact analyzeAllFrom_good hg he hinj hpr hm hord p pv v st s1 (analyze_keeps hg he hinj hpr hm hord p s hts _ ha) _ hf

/-! ### histories of calls of the three entry points -/

/-- the entry points of the engine that search -/
inductive Entry where
  | analyze | analyzeAll | getMove
deriving DecidableEq, Repr

/-- one call, keeping only the engine afterwards -/
def callEntry (g : Game P M) (cfg : Cfg) (k : Entry) (o : Oracle M) (p : P) (s : Eng M) : Except Err (Eng M) :=
  match k with
  | .analyze => (analyze g cfg o p s).map (·.2)
  | .analyzeAll => (analyzeAll g cfg o p s).map (·.2)
  | .getMove => (getMove g cfg o p s).map (·.2)

/-- a history of calls on one engine: entry point, position, environment (cancellation, move order, random numbers) -/
abbrev Calls (P M : Type) := List (Entry × P × Oracle M)

def runEntries (g : Game P M) (cfg : Cfg) : Calls P M → Eng M → Except Err (Eng M)
  | [], s => .ok s
  | (k, p, o) :: rest, s =>
    match callEntry g cfg k o p s with
    | .error e => .error e
    | .ok s1 => runEntries g cfg rest s1

/-- the table invariants of C05 together -/
structure TableOK (g : Game P M) (s : Eng M) : Prop where
  sound : TableSound g s
  att : TableAtt g s
  good : TableGood g s

omit [DecidableEq M] in
theorem tableOK_new {g : Game P M} (he : EvalOK g) (cfg : Cfg) : TableOK g (Eng.new g cfg) :=
  ⟨tableSound_new cfg, tableAtt_new cfg, tableGood_new he cfg⟩

omit [DecidableEq M] in
theorem sat_map_snd {α : Type} {x : Except Err (α × Eng M)} {Q : Eng M → Prop} (h : Sat x (fun y => Q y.2)) :
    Sat (x.map (·.2)) Q := by
  intro s hs
  cases x with
  | error e => cases hs
  | ok y => cases hs; exact h y rfl

theorem callEntry_ok {g : Game P M} (hg : GameOK g) (he : EvalOK g) (hinj : HashOK g) (hmv : HashMovesOK g)
    {cfg : Cfg} (hpr : Precise cfg.opts) (hw : 0 ≤ cfg.randomizeWindow) (k : Entry) {o : Oracle M} (hm : o.Monotone)
    (hord : OrderOK o) (p : P) (s : Eng M) (h : TableOK g s) :
    Sat (callEntry g cfg k o p s) (TableOK g) := by
  cases k with
  | analyze =>
    refine sat_map_snd (Q := TableOK g) ?_
    exact ((analyze_att hg he hinj hmv hpr hord p s h.sound h.att).and
      (analyze_keeps hg he hinj hpr hm hord p s h.good)).mono (fun _ hx => ⟨hx.1.1, hx.1.2.1, hx.2⟩)
  | analyzeAll =>
    refine sat_map_snd (Q := TableOK g) ?_
    exact ((analyzeAll_att hg he hinj hmv hpr hord p s h.sound h.att).and
      (analyzeAll_good hg he hinj hpr hm hord p s h.good)).mono (fun _ hx => ⟨hx.1.1, hx.1.2.1, hx.2⟩)
  | getMove =>
    refine sat_map_snd (Q := TableOK g) ?_
    exact ((getMove_att hg he hinj hmv hpr hord hw p s h.sound h.att).and
      (getMove_keeps hg he hinj hpr hm hord hw p s h.good)).mono (fun _ hx => ⟨hx.1.1, hx.1.2.1, hx.2⟩)

/-- **every engine state reached by calls of the three entry points has a good table**: precise configuration, each
call with its own move order, random numbers and (monotone) cancellation pattern -/
theorem runEntries_ok {g : Game P M} (hg : GameOK g) (he : EvalOK g) (hinj : HashOK g) (hmv : HashMovesOK g)
    {cfg : Cfg} (hpr : Precise cfg.opts) (hw : 0 ≤ cfg.randomizeWindow) :
    ∀ (h : Calls P M) (s : Eng M), (∀ x ∈ h, OrderOK x.2.2 ∧ x.2.2.Monotone) → TableOK g s →
      Sat (runEntries g cfg h s) (TableOK g) := by
  intro h
  induction h with
  | nil => intro s _ hs; exact Sat.ok hs
  | cons c rest ih =>
    intro s hh hs
    obtain ⟨k, p, o⟩ := c
    simp only [runEntries]
    have hc := callEntry_ok hg he hinj hmv hpr hw k (hh (k, p, o) (by simp)).2 (hh (k, p, o) (by simp)).1 p s hs
    cases hr : callEntry g cfg k o p s with
    | error e => exact Sat.error
    | ok s1 => exact ih s1 (fun x hx => hh x (List.mem_cons_of_mem _ hx)) (hc _ hr)

/-- a history of `Analyze` calls is a history of calls -/
def Calls.ofHistory (h : History P M) : Calls P M := h.map (fun x => (Entry.analyze, x.1, x.2))

theorem runEntries_ofHistory (g : Game P M) (cfg : Cfg) :
    ∀ (h : History P M) (s : Eng M) (rs : List (P × Int)) (s' : Eng M), runCalls g cfg h s = .ok (rs, s') →
      runEntries g cfg (Calls.ofHistory h) s = .ok s' := by
  intro h
  induction h with
  | nil => intro s rs s' hr; simp only [runCalls] at hr; cases hr; rfl
  | cons c rest ih =>
    intro s rs s' hr
    obtain ⟨p, o⟩ := c
    simp only [runCalls] at hr
    simp only [Calls.ofHistory, List.map_cons, runEntries, callEntry]
    cases ha : analyze g cfg o p s with
    | error e => rw [ha] at hr; cases hr
    | ok r =>
      obtain ⟨r, s1⟩ := r
      rw [ha] at hr
      dsimp only at hr
      cases hrest : runCalls g cfg rest s1 with
      | error e => rw [hrest] at hr; cases hr
      | ok q =>
        obtain ⟨rs1, s2⟩ := q
        rw [hrest] at hr
        cases hr
        exact ih s1 rs1 _ hrest


/-! ### the final call -/

/-- `GetMove` after any history of calls (core of `C05.getMove_verdict`) -/
theorem getMove_core {g : Game P M} (hg : GameOK g) (he : EvalOK g) (hinj : HashOK g) (hmv : HashMovesOK g)
    {cfg : Cfg} (hpr : Precise cfg.opts) (hw : 0 ≤ cfg.randomizeWindow)
    (h : Calls P M) (hh : ∀ x ∈ h, OrderOK x.2.2 ∧ x.2.2.Monotone)
    (p : P) (hov : g.over p = false) {o : Oracle M} (hord : OrderOK o)
    (s : Eng M) (h1 : runEntries g cfg h (Eng.new g cfg) = .ok s)
    (m : M) (s' : Eng M) (h2 : getMove g cfg o p s = .ok (m, s')) :
    ∃ pv v st s1, analyze g cfg o p s = .ok ((pv, v, st), s1) ∧
      (v > Facts.winThreshold → Win g p ∧ Keeps g p m) ∧
      (v < -Facts.winThreshold → Loss g p) ∧
      (NoCancel o →
        (negamax g st.depth.toNat p > Facts.winThreshold → v > Facts.winThreshold ∧ Keeps g p m) ∧
        (negamax g st.depth.toNat p < -Facts.winThreshold → v < -Facts.winThreshold)) := by
  have hok := runEntries_ok hg he hinj hmv hpr hw h _ hh (tableOK_new he cfg) _ h1
  obtain ⟨pv, v, st, s1, ha, _⟩ := getMove_inner h2
  obtain ⟨_, _, hatt⟩ := getMove_att hg he hinj hmv hpr hord hw p s hok.sound hok.att _ h2
  obtain ⟨hv, hk⟩ := hatt pv v st s1 ha
  refine ⟨pv, v, st, s1, ha, fun hw' => ⟨hv.1 hw', hk hw'⟩, fun hl => hv.2 hl, ?_⟩
  intro hnc
  obtain ⟨_, hc1, hc2⟩ := analyze_covers hg he hinj hpr hnc hord p hov s hok.good _ ha
  dsimp only at hc1 hc2
  constructor
  · intro hn
    have hvw : v > Facts.winThreshold := by
      apply Classical.byContradiction; intro hnot; have := hc1 (by omega); omega
    exact ⟨hvw, hk hvw⟩
  · intro hn
    apply Classical.byContradiction; intro hnot; have := hc2 (by omega); omega

/-- `AnalyzeAll` after any history of calls (core of `C05.analyzeAll_verdict`) -/
theorem analyzeAll_core {g : Game P M} (hg : GameOK g) (he : EvalOK g) (hinj : HashOK g) (hmv : HashMovesOK g)
    {cfg : Cfg} (hpr : Precise cfg.opts) (hw : 0 ≤ cfg.randomizeWindow)
    (h : Calls P M) (hh : ∀ x ∈ h, OrderOK x.2.2 ∧ x.2.2.Monotone)
    (p : P) (hov : g.over p = false) {o : Oracle M} (hord : OrderOK o)
    (s : Eng M) (h1 : runEntries g cfg h (Eng.new g cfg) = .ok s)
    (lines : List (List M)) (v : Int) (st : Stats) (s' : Eng M)
    (h2 : analyzeAll g cfg o p s = .ok ((lines, v, st), s')) :
    (∃ pv s1, analyze g cfg o p s = .ok ((pv, v, st), s1)) ∧
    (v > Facts.winThreshold → Win g p ∧ ∀ l ∈ lines, HeadKeeps g p l) ∧
    (v < -Facts.winThreshold → Loss g p) ∧
    (NoCancel o →
      (negamax g st.depth.toNat p > Facts.winThreshold → v > Facts.winThreshold) ∧
      (negamax g st.depth.toNat p < -Facts.winThreshold → v < -Facts.winThreshold)) := by
  have hok := runEntries_ok hg he hinj hmv hpr hw h _ hh (tableOK_new he cfg) _ h1
  obtain ⟨_, _, hv, ⟨pv, s1, ha⟩, hl⟩ := analyzeAll_att hg he hinj hmv hpr hord p s hok.sound hok.att _ h2
  dsimp only at hv ha hl
  refine ⟨⟨pv, s1, ha⟩, fun hw' => ⟨hv.1 hw', hl hw'⟩, fun hlo => hv.2 hlo, ?_⟩
  intro hnc
  obtain ⟨_, hc1, hc2⟩ := analyze_covers hg he hinj hpr hnc hord p hov s hok.good _ ha
  dsimp only at hc1 hc2
  constructor
  · intro hn; apply Classical.byContradiction; intro hnot; have := hc1 (by omega); omega
  · intro hn; apply Classical.byContradiction; intro hnot; have := hc2 (by omega); omega

end Search
