import TakVerif.Proofs.SearchTable
import TakVerif.Proofs.SearchLoop

/-! `AnalyzeAll` = `Analyze` followed by zero-width-window searches of the root's children.  In a precise
configuration these searches keep the transposition table sound, so a history of `AnalyzeAll` calls on one engine
is as good as a history of `Analyze` calls: every reported value beyond the threshold is a real forced result
(`analyzeAll_sound`, `runAll_sound`).  Used for `taktician analyze -all` (`Props/C05_cmd.lean`). -/
namespace Search

variable {P M : Type} [DecidableEq M]

theorem aaBody_keeps {g : Game P M} (hg : GameOK g) (he : EvalOK g) (hinj : HashInj g)
    {cfg : SOpts} (hpr : Precise cfg) {o : Oracle M} (hord : OrderOK o) (p : P)
    (depth : Int) (pv0 : M) (rest : List M) (v : Int) :
    BodyOK g p (aaBody g cfg o depth pv0 rest v) (fun _ s => TableSound g s) (fun _ _ => True)
      (fun _ s => TableSound g s) (fun (_ : Unit) s => TableSound g s) := by
  intro m c a s _ hts
  unfold aaBody
  apply Sat.bind
  intro sm _
  apply Sat.bind
  unfold pvSearch
  have hs := (search_sound hg he hinj.ok hpr hord (Facts.maxDepth - 1)).1 c 1 (depth - 1) rest (-v - 1) (-v + 1)
    { s with stackM := sm } hts (by omega)
  refine hs.mono ?_
  rintro ⟨r, s'⟩ ⟨hts', _⟩
  dsimp only at hts' ⊢
  split
  · exact Sat.pure ⟨hts', fun _ h => h, fun _ _ => trivial⟩
  · split
    · exact Sat.pure ⟨hts', fun _ h => h, fun _ _ => trivial⟩
    · exact Sat.pure ⟨hts', fun _ h => h, fun _ _ => trivial⟩

theorem analyzeAllFrom_keeps {g : Game P M} (hg : GameOK g) (he : EvalOK g) (hinj : HashInj g)
    {cfg : Cfg} (hpr : Precise cfg.opts) {o : Oracle M} (hord : OrderOK o) (p : P)
    (pv : List M) (v : Int) (st : Stats) (s : Eng M) (hts : TableSound g s) :
    Sat (analyzeAllFrom g cfg o p pv v st s) (fun x => TableSound g x.2 ∧ x.1.2.1 = v) := by
  unfold analyzeAllFrom
  cases pv with
  | nil => exact Sat.ok ⟨hts, rfl⟩
  | cons pv0 rest =>
    dsimp only
    have hit := iterate_inv (aaBody_keeps hg he hinj hpr hord p st.depth pv0 rest v) cfg.opts o
      (rootMG st.depth (pv0 :: rest)) (fun _ _ _ h => h) [pv0 :: rest] s hts
    cases hr : iterate g cfg.opts o p (rootMG st.depth (pv0 :: rest)) (aaBody g cfg.opts o st.depth pv0 rest v)
        [pv0 :: rest] s with
    | error e => exact Sat.error
    | ok r =>
      obtain ⟨c, s'⟩ := r
      have h := hit _ hr
      cases c with
      | next out => exact Sat.ok ⟨h.1, rfl⟩
      | brk out => exact Sat.ok ⟨h, rfl⟩
      | ret u => exact Sat.ok ⟨h, rfl⟩

/-- **one `AnalyzeAll` on an engine whose table is sound**: the table stays sound and the value is a sound verdict -/
theorem analyzeAll_sound {g : Game P M} (hg : GameOK g) (he : EvalOK g) (hinj : HashInj g)
    {cfg : Cfg} (hpr : Precise cfg.opts) {o : Oracle M} (hord : OrderOK o) (p : P) (s : Eng M)
    (hts : TableSound g s) :
    Sat (analyzeAll g cfg o p s) (fun x => TableSound g x.2 ∧ VSound g p x.1.2.1) := by
  unfold analyzeAll
  have ha := Search.analyze_sound hg he hinj.ok hpr hord p s hts
  cases hr : analyze g cfg o p s with
  | error e => exact Sat.error
  | ok r =>
    obtain ⟨⟨pv, v, st⟩, s1⟩ := r
    obtain ⟨hts1, hv⟩ := ha _ hr
    dsimp only at hts1 hv ⊢
    refine (analyzeAllFrom_keeps hg he hinj hpr hord p pv v st s1 hts1).mono ?_
    rintro x ⟨hx1, hx2⟩
    exact ⟨hx1, by rw [hx2]; exact hv⟩

end Search
