import TakVerif.Proofs.CmdAnalyze
import TakVerif.Proofs.AnalyzeAllSound

/-! The minimax analyzer of `taktician analyze` over the search model: every `AI analysis:` block of every run — also
under `-all`, where ONE engine per colour serves all positions of that colour — reports a sound value when the flags
ask for a precise configuration (`execute_analysis_sound`). -/
namespace Tak.CmdAnalyze
open Search
open PTN (Bytes)

/-- the engines of the analyze command are the search model: game `g` (rules + the evaluator `BuildConfig` installs),
every call in the environment `o` -/
def EnginesAre (eng : Engines (Eng Move)) (g : Game Pos Move) (o : Oracle Move) : Prop :=
  (∀ n cfg, eng.newMinimax n cfg = Eng.new g cfg) ∧
  (∀ cfg e p, eng.analyzeAll cfg e p =
    match Search.analyzeAll g cfg o p e with
    | .error x => .error x
    | .ok ((pvs, v, _), e') => .ok ((pvs, v), e'))

theorem minimaxCfg_precise (f : Flags) (hp : f.precise = true) (hs : f.symmetry = false) : Precise (minimaxCfg f).opts := by
  unfold minimaxCfg
  simp only [hp, if_true, SOpts.makePrecise, hs]
  exact ⟨rfl, rfl, rfl, rfl⟩

/-- an `AI analysis:` block reports a sound value -/
def Good (g : Game Pos Move) : Item → Prop
  | .analysis q _ val => VSound g q val
  | _ => True

/-- the engine an analyzer holds has a sound table -/
def ASound (g : Game Pos Move) : Analyzer (Eng Move) → Prop
  | .minimax ai => TableSound g ai
  | _ => True

variable {eng : Engines (Eng Move)} {g : Game Pos Move} {o : Oracle Move}

theorem engine_call_sound (heng : EnginesAre eng g o) (hg : GameOK g) (he : EvalOK g) (hinj : HashInj g)
    (hord : OrderOK o) {cfg : Search.Cfg} (hpr : Precise cfg.opts) (ai ai' : Eng Move) (p : Pos)
    (pvs : List (List Move)) (val : Int) (hts : TableSound g ai)
    (h : eng.analyzeAll cfg ai p = .ok ((pvs, val), ai')) : TableSound g ai' ∧ VSound g p val := by
  rw [heng.2] at h
  cases haa : Search.analyzeAll g cfg o p ai with
  | error x => rw [haa] at h; cases h
  | ok r =>
    obtain ⟨⟨pvs', v, st⟩, s'⟩ := r
    rw [haa] at h
    simp only [Except.ok.injEq, Prod.mk.injEq] at h
    obtain ⟨⟨_, hv⟩, hs⟩ := h
    subst hv hs
    exact analyzeAll_sound hg he hinj hpr hord p ai hts _ haa

/-- the engine `minimaxAnalyze` hands back is the one it was given, or the one `AnalyzeAll` left -/
theorem minimaxAnalyze_engine (env : PTN.Env) (f : Flags) (ai ai'' : Eng Move) (p : Pos)
    (h : (minimaxAnalyze env eng f ai p).2 = .ok ai'') :
    ai'' = ai ∨ ∃ pvs val, eng.analyzeAll (minimaxCfg f) ai p = .ok ((pvs, val), ai'') := by
  unfold minimaxAnalyze at h
  rw [bind_ok] at h
  obtain ⟨_, _, h⟩ := h
  split at h
  · rw [bind_ok] at h
    obtain ⟨_, _, h⟩ := h
    rw [bind_ok] at h
    obtain ⟨_, _, h⟩ := h
    simp at h
    exact Or.inl h.symm
  · rw [bind_ok] at h
    obtain ⟨r, hr, h⟩ := h
    rw [lift_ok] at hr
    rw [bind_ok] at h
    obtain ⟨_, _, h⟩ := h
    rw [bind_ok] at h
    obtain ⟨_, _, h⟩ := h
    have hr2 : ai'' = r.2 := by
      split at h
      · simp at h; exact h.symm
      · split at h
        · simp at h; exact h.symm
        · split at h
          · split at h
            · simp at h
            · simp at h; exact h.symm
          · rw [bind_ok] at h
            obtain ⟨_, _, h⟩ := h
            simp at h; exact h.symm
    right
    refine ⟨r.1.1, r.1.2, ?_⟩
    rw [hr, hr2]

theorem analyzeWith_sound (env : PTN.Env) (heng : EnginesAre eng g o) (hg : GameOK g) (he : EvalOK g)
    (hinj : HashInj g) (hord : OrderOK o) (f : Flags) (hp : f.precise = true) (hs : f.symmetry = false)
    (a : Analyzer (Eng Move)) (p : Pos) (ha : ASound g a) :
    (∀ i ∈ (analyzeWith env eng f a p).1, Good g i) ∧
    (∀ a', (analyzeWith env eng f a p).2 = .ok a' → ASound g a') := by
  have hpr := minimaxCfg_precise f hp hs
  cases a with
  | dfpn =>
    refine ⟨?_, ?_⟩
    · intro i hi
      cases i with
      | analysis q pvs val =>
        unfold analyzeWith at hi
        simp only at hi
        rw [mem_bind] at hi
        rcases hi with hi | ⟨_, _, hi⟩
        · exact absurd hi (dfpnAnalyze_no_analysis eng f p q pvs val)
        · simp at hi
      | _ => trivial
    · intro a' h
      unfold analyzeWith at h
      simp only at h
      rw [bind_ok] at h
      obtain ⟨_, _, h⟩ := h
      simp at h; subst h; trivial
  | pn =>
    refine ⟨?_, ?_⟩
    · intro i hi
      cases i with
      | analysis q pvs val =>
        unfold analyzeWith at hi
        simp only at hi
        rw [mem_bind] at hi
        rcases hi with hi | ⟨_, _, hi⟩
        · exact absurd hi (pnAnalyze_no_analysis eng f p q pvs val)
        · simp at hi
      | _ => trivial
    · intro a' h
      unfold analyzeWith at h
      simp only at h
      rw [bind_ok] at h
      obtain ⟨_, _, h⟩ := h
      simp at h; subst h; trivial
  | mcts =>
    refine ⟨?_, ?_⟩
    · intro i hi; simp [analyzeWith] at hi
    · intro a' h; simp [analyzeWith] at h
  | minimax ai =>
    have hts : TableSound g ai := ha
    refine ⟨?_, ?_⟩
    · intro i hi
      cases i with
      | analysis q pvs val =>
        unfold analyzeWith at hi
        simp only at hi
        rw [mem_bind] at hi
        rcases hi with hi | ⟨_, _, hi⟩
        · obtain ⟨hq, ai', h⟩ := minimaxAnalyze_analysis env eng f ai p q pvs val hi
          subst hq
          exact (engine_call_sound heng hg he hinj hord hpr ai ai' q pvs val hts h).2
        · simp at hi
      | _ => trivial
    · intro a' h
      unfold analyzeWith at h
      simp only at h
      rw [bind_ok] at h
      obtain ⟨ai'', hai, h⟩ := h
      simp at h; subst h
      rcases minimaxAnalyze_engine env f ai ai'' p hai with rfl | ⟨pvs, val, h⟩
      · exact hts
      · exact (engine_call_sound heng hg he hinj hord hpr ai ai'' p pvs val hts h).1

theorem allLoop_sound (env : PTN.Env) (heng : EnginesAre eng g o) (hg : GameOK g) (he : EvalOK g)
    (hinj : HashInj g) (hord : OrderOK o) (f : Flags) (hp : f.precise = true) (hs : f.symmetry = false) (color : Color) :
    ∀ fuel it (w b : Analyzer (Eng Move)), ASound g w → ASound g b →
      ∀ i ∈ (allLoop env eng f color fuel it w b).1, Good g i := by
  intro fuel
  induction fuel with
  | zero => intro it w b _ _ i hi; simp [allLoop] at hi
  | succ n ih =>
    intro it w b hw hb i hi
    unfold allLoop at hi
    split at hi
    · simp at hi
    · simp at hi
    · split at hi
      · simp at hi
      · rename_i p _
        split at hi
        · simp at hi
        · split at hi
          · rw [mem_bind] at hi
            rcases hi with hi | ⟨_, _, hi⟩
            · simp at hi; subst hi; trivial
            · rw [mem_bind] at hi
              have hsnd := analyzeWith_sound env heng hg he hinj hord f hp hs w p hw
              rcases hi with hi | ⟨w', hw', hi⟩
              · exact hsnd.1 i hi
              · exact ih _ w' b (hsnd.2 w' hw') hb i hi
          · split at hi
            · rw [mem_bind] at hi
              rcases hi with hi | ⟨_, _, hi⟩
              · simp at hi; subst hi; trivial
              · rw [mem_bind] at hi
                have hsnd := analyzeWith_sound env heng hg he hinj hord f hp hs b p hb
                rcases hi with hi | ⟨b', hb', hi⟩
                · exact hsnd.1 i hi
                · exact ih _ w b' hw (hsnd.2 b' hb') i hi
            · exact ih _ w b hw hb i hi

theorem buildAnalysis_sound (heng : EnginesAre eng g o) (f : Flags) (p : Pos) (a : Analyzer (Eng Move))
    (h : (buildAnalysis eng f p).2 = .ok a) : ASound g a := by
  unfold buildAnalysis at h
  repeat' split at h
  all_goals simp at h
  all_goals subst h
  all_goals first | trivial | (show TableSound g _; rw [heng.1]; exact tableSound_new _)

/-- **every `AI analysis:` block of every run of `taktician analyze -precise` reports a sound value** — with or without
`-all`, whatever the file and the selection flags -/
theorem execute_analysis_sound (env : PTN.Env) (heng : EnginesAre eng g o) (hg : GameOK g) (he : EvalOK g)
    (hinj : HashInj g) (hord : OrderOK o) (f : Flags) (input : Bytes) (hp : f.precise = true) (hs : f.symmetry = false) :
    ∀ i ∈ (execute env eng f input).1, Good g i := by
  intro i hi
  unfold execute at hi
  split at hi
  · simp at hi
  · split at hi
    · simp at hi
    · split at hi
      · split at hi
        · simp at hi
        · rename_i p _
          rw [mem_bind] at hi
          rcases hi with hi | ⟨a, ha, hi⟩
          · rw [buildAnalysis_fst] at hi; simp at hi
          · rw [mem_bind] at hi
            rcases hi with hi | ⟨_, _, hi⟩
            · exact (analyzeWith_sound env heng hg he hinj hord f hp hs a p (buildAnalysis_sound heng f p a ha)).1 i hi
            · simp at hi
      · split at hi
        · simp at hi
        · rename_i p _
          rw [mem_bind] at hi
          rcases hi with hi | ⟨w, hw, hi⟩
          · rw [buildAnalysis_fst] at hi; simp at hi
          · rw [mem_bind] at hi
            rcases hi with hi | ⟨b, hb, hi⟩
            · rw [buildAnalysis_fst] at hi; simp at hi
            · split at hi
              · simp at hi
              · rw [mem_bind] at hi
                rcases hi with hi | ⟨it, _, hi⟩
                · exact allLoop_sound env heng hg he hinj hord f hp hs _ _ _ w b
                    (buildAnalysis_sound heng f p w hw) (buildAnalysis_sound heng f p b hb) i hi
                · split at hi <;> simp at hi

end Tak.CmdAnalyze
