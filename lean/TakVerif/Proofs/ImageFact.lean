import TakVerif.Proofs.ImageBoard
import TakVerif.Proofs.TPSWF
import TakVerif.Proofs.SpecConserve
import TakVerif.Proofs.ApplyCfg
import TakVerif.Proofs.PosFactsInst
import TakVerif.Proofs.FromSquares

/-! The `k`-th image rebuilt by `Symmetries` (`At` on every square, `FromSquares` on the permuted board)
shows the list-level image `Sym.state k (abs p)`, for every position of a default game that satisfies C01's
invariant and the conservation of pieces.  Built on the C10 package's reading of `FromSquares`
(`Tak.TPS.fromSquares_eq`, `fsPure_fields`, `squareAt_of_fields`, `goPure_reserve`). -/
namespace Tak
open Spec SpecProofs

/-- the configuration `New(Config{Size: n})` stores -/
def defCfg (n : Nat) : Cfg :=
  { size := n, pieces := Facts.defaultPieces.getD n 0, capstones := Facts.defaultCaps.getD n 0, blackWinsTies := false }

/-- board + reserve hold the configured number of stones and capstones of each colour -/
def Totals (s : State) : Prop :=
  SpecProofs.total Color.white false s = Facts.defaultPieces.getD s.size 0 ∧
  SpecProofs.total Color.white true s = Facts.defaultCaps.getD s.size 0 ∧
  SpecProofs.total Color.black false s = Facts.defaultPieces.getD s.size 0 ∧
  SpecProofs.total Color.black true s = Facts.defaultCaps.getD s.size 0

/-- C01's invariant, the piece budget, the default configuration, and conservation of pieces -/
def InvD (basis : Array W) (p : Pos) : Prop :=
  WF basis p ∧ budget (Spec.abs p) ≤ 64 ∧ p.cfg = defCfg p.cfg.size ∧ Totals (Spec.abs p)

theorem new_defCfg (n : Nat) :
    Pos.new (defCfg n) = Pos.new { size := n, pieces := 0, capstones := 0, blackWinsTies := false } := by
  unfold Pos.new defCfg
  simp only [beq_self_eq_true, if_true]
  split
  · rfl
  · split
    · rfl
    · congr 1
      have e1 : (if (Facts.defaultPieces.getD n 0 == 0) = true then Facts.defaultPieces.getD n 0
          else Facts.defaultPieces.getD n 0) = Facts.defaultPieces.getD n 0 := by split <;> rfl
      have e2 : (if (Facts.defaultCaps.getD n 0 == 0) = true then Facts.defaultCaps.getD n 0
          else Facts.defaultCaps.getD n 0) = Facts.defaultCaps.getD n 0 := by split <;> rfl
      simp only [e1, e2]

theorem fromSquares_defCfg (basis : Array W) (n : Nat) (board : List (List Nat)) (mv : Int) :
    Pos.fromSquares basis (defCfg n) board mv =
      Pos.fromSquares basis { size := n, pieces := 0, capstones := 0, blackWinsTies := false } board mv := by
  unfold Pos.fromSquares
  rw [new_defCfg]
  rfl

/-- what `At` returns has the shape `FromSquares` can read back -/
theorem flatOf_valid (b : Bool) : (flatOf b).color ≠ Color.none ∧ (flatOf b).kind = Kind.flat := by
  cases b <;> simp [flatOf]

theorem squareAt_valid (p : Pos) (i : Nat) : TPS.ValidSq (p.squareAt i) := by
  unfold TPS.ValidSq
  rw [squareAt_cell]
  unfold Cell.square
  cases ht : (p.cell i).top with
  | none => simp
  | some t =>
    have htc : t.color ≠ Color.none := by
      unfold Cell.top at ht
      cases hw : (p.cell i).w <;> cases hb : (p.cell i).b <;> simp [hw, hb] at ht <;> (rw [← ht]; simp)
    simp only [List.tail_cons, List.mem_cons, buried, List.mem_map, List.mem_range]
    constructor
    · intro pc hpc
      rcases hpc with rfl | ⟨j, _, rfl⟩
      · exact htc
      · exact (flatOf_valid _).1
    · intro pc ⟨j, _, e⟩
      subst e
      exact (flatOf_valid _).2

theorem atOK_of_wf {basis : Array W} {p : Pos} (h : WF basis p) : AtOK p := by
  intro i
  unfold Pos.atR
  cases ht : p.topAt i with
  | none => simp [Pos.squareAt, ht]
  | some t =>
    simp only
    have hc := h.cell i
    have hne : ¬ (p.height.getD i 0 = 0#8) := by
      intro h0
      have := hc.h_zero.1 (by simpa [Pos.cell] using h0)
      rw [topAt_cell] at ht
      simp only [Pos.cell] at this
      simp [Cell.top, Pos.cell, this.1, this.2] at ht
    have : (p.height.getD i 0 == 0#8) = false := by
      cases hb : (p.height.getD i 0 == 0#8)
      · rfl
      · exact absurd (beq_iff_eq.1 hb) hne
    simp only [this, Bool.false_eq_true, if_false]

theorem squareAt_length_le {basis : Array W} {p : Pos} (h : WF basis p) (i : Nat) : (p.squareAt i).length ≤ 64 := by
  have hc := h.cell i
  rw [squareAt_cell]
  unfold Cell.square
  cases ht : (p.cell i).top with
  | none => simp
  | some t =>
    simp only [List.length_cons, buried_length]
    have hle := hc.h_le
    have hne : (p.cell i).h ≠ 0#8 := by
      intro h0
      have := hc.h_zero.1 h0
      simp [Cell.top, this.1, this.2] at ht
    have : (p.cell i).h.toNat ≠ 0 := by
      intro e
      apply hne
      exact BitVec.eq_of_toNat_eq (by simpa using e)
    omega

theorem foldl_add_sum (l : List Nat) : l.foldl (· + ·) 0 = l.sum := by
  have : ∀ (l : List Nat) (a : Nat), l.foldl (· + ·) a = a + l.sum := by
    intro l
    induction l with
    | nil => intro a; simp
    | cons x rest ih => intro a; simp only [List.foldl_cons, List.sum_cons]; rw [ih]; omega
  rw [this]; omega

theorem countOn_eq_cnt (c : Color) (cap : Bool) (board : List (List Piece)) :
    TPS.countOn (fun pc => pc.color == c && ((pc.kind == .capstone) == cap)) board = cnt c cap board := by
  unfold TPS.countOn cnt
  rw [foldl_add_sum]
  congr 1
  apply List.map_congr_left
  intro sq _
  rw [List.countP_eq_length_filter]
  rfl

theorem cnt_perm (c : Color) (cap : Bool) {l₁ l₂ : List Square} (h : l₁.Perm l₂) : cnt c cap l₁ = cnt c cap l₂ := by
  unfold cnt
  exact (h.map _).sum_nat

theorem u8_cancel (x y c : U8) (h : x + c = y + c) : x = y := by
  have := congrArg (· - c) h
  simpa [BitVec.add_sub_cancel] using this

/-- **The rebuilt image shows the image.** -/
theorem imageFact_invD (basis : Array W) : ImageFact basis (InvD basis) := by
  intro p k q ⟨hwf, _, hcfg, htot⟩ hq
  have h3 := hwf.size_ge
  have h8 := hwf.size_le
  -- the board handed to `FromSquares`
  let boardP : List (List Piece) := (List.range (p.cfg.size * p.cfg.size)).map (fun j => p.squareAt (Sym.idxMap (Sym.inv k) p.cfg.size j))
  have hib := imageBoard_eq (atOK_of_wf hwf) h8 k
  have hcodes : (List.range (p.cfg.size * p.cfg.size)).map (fun j => (p.squareAt (Sym.idxMap (Sym.inv k) p.cfg.size j)).map Piece.code) =
      boardP.map TPS.codes := by
    simp only [boardP, List.map_map]; rfl
  unfold imagePos at hq
  rw [hib] at hq
  simp only [bind, Except.bind] at hq
  rw [hcodes, hcfg, fromSquares_defCfg] at hq
  have hlen : boardP.length = p.cfg.size * p.cfg.size := by simp [boardP]
  have hcol : ∀ sq ∈ boardP, ∀ pc ∈ sq, pc.color ≠ .none := by
    intro sq hsq
    simp only [boardP, List.mem_map] at hsq
    obtain ⟨j, _, rfl⟩ := hsq
    exact (squareAt_valid p _).1
  rw [TPS.fromSquares_eq basis p.cfg.size boardP p.move h3 h8 hlen hcol] at hq
  cases ha : (TPS.fsPure basis p.cfg.size boardP p.move).analyze with
  | none => rw [ha] at hq; cases hq
  | some q' =>
    rw [ha] at hq
    cases hq
    obtain ⟨a1, a2, a3, a4, a5, a6, a7, a8, _, a10, a11, a12, a13⟩ := TPS.analyze_fields _ _ ha
    -- the squares
    have hsq : ∀ j, j < p.cfg.size * p.cfg.size → q.squareAt j = boardP.getD j [] := by
      intro j hj
      obtain ⟨f1, f2, f3, f4, f5, f6, _⟩ := TPS.fsPure_fields basis p.cfg.size boardP p.move hlen j
      have hj64 : j < 64 := by
        have := Nat.mul_le_mul h8 h8
        omega
      have hv : TPS.ValidSq (boardP.getD j []) ∧ (boardP.getD j []).length ≤ 65 := by
        simp only [boardP, List.getD_eq_getElem?_getD, List.getElem?_map, List.getElem?_range hj, Option.map_some,
          Option.getD_some]
        exact ⟨squareAt_valid p _, Nat.le_trans (squareAt_length_le hwf _) (by omega)⟩
      apply TPS.squareAt_of_fields q j _ hv.1 hv.2
      · rw [a3, f1]; simp [hj64]
      · rw [a4, f2]; simp [hj64]
      · rw [a5, f3]; simp [hj64]
      · rw [a6, f4]; simp [hj64]
      · rw [a7, Array.getD_eq_getD_getElem?, f5]
      · rw [a8, Array.getD_eq_getD_getElem?, f6]
    obtain ⟨_, _, _, _, _, _, fcfg, fmv, _, _⟩ := TPS.fsPure_fields basis p.cfg.size boardP p.move hlen 0
    have hqcfg : q.cfg = p.cfg := by rw [a1, fcfg, hcfg]; rfl
    have habsq : ∀ j, j < p.cfg.size * p.cfg.size → (Spec.abs q).squares.getD j [] = q.squareAt j := by
      intro j hj
      simp only [Spec.abs, hqcfg, List.getD_eq_getElem?_getD, List.getElem?_map, List.getElem?_range hj,
        Option.map_some, Option.getD_some]
    have habsp : ∀ j, j < p.cfg.size * p.cfg.size → (Spec.abs p).squares.getD j [] = p.squareAt j := by
      intro j hj
      simp only [Spec.abs, List.getD_eq_getElem?_getD, List.getElem?_map, List.getElem?_range hj,
        Option.map_some, Option.getD_some]
    have hsquares : (Spec.abs q).squares = (Sym.state k (Spec.abs p)).squares := by
      apply List.ext_getElem
      · simp [Spec.abs, Sym.state, hqcfg]
      · intro j h1 h2
        have hj' : j < p.cfg.size * p.cfg.size := by simpa [Spec.abs, hqcfg] using h1
        have e1 : (Spec.abs q).squares[j] = (Spec.abs q).squares.getD j [] := by
          simp [List.getD_eq_getElem?_getD, h1]
        have e2 : (Sym.state k (Spec.abs p)).squares[j] = (Sym.state k (Spec.abs p)).squares.getD j [] := by
          simp [List.getD_eq_getElem?_getD, h2]
        rw [e1, e2, habsq j hj', hsq j hj', Sym.state_getD k (Spec.abs p) (by exact hj')]
        show boardP.getD j [] = (Spec.abs p).squares.getD (Sym.idxMap (Sym.inv k) p.cfg.size j) []
        rw [habsp _ (Sym.idxMap_coords (Sym.inv k) hj').1]
        simp only [boardP, List.getD_eq_getElem?_getD, List.getElem?_map, List.getElem?_range hj', Option.map_some,
          Option.getD_some]
    -- the reserves
    have hperm : boardP.Perm (Spec.abs p).squares := by
      have := Sym.state_squares_perm k (s := Spec.abs p) (by simp [State.WF, Spec.abs])
      rw [← hsquares] at this
      have e : (Spec.abs q).squares = boardP := by
        apply List.ext_getElem
        · simp [Spec.abs, hqcfg, hlen]
        · intro j h1 h2
          have hj' : j < p.cfg.size * p.cfg.size := by simpa [Spec.abs, hqcfg] using h1
          have e1 : (Spec.abs q).squares[j] = (Spec.abs q).squares.getD j [] := by
            simp [List.getD_eq_getElem?_getD, h1]
          rw [e1, habsq j hj', hsq j hj']
          simp [List.getD_eq_getElem?_getD, h2]
      rw [e] at this
      exact this
    have reserve : ∀ (fld : Pos → U8) (c : Color) (cap : Bool) (tot : Nat),
        (∀ p pc, fld (TPS.decReserve p pc) + (if (pc.color == c && ((pc.kind == .capstone) == cap)) then 1#8 else 0#8) = fld p) →
        (∀ (p : Pos) s, fld { p with stacks := s } = fld p) →
        (∀ i top p, fld (TPS.markTop i top p) = fld p) →
        (∀ i len p, fld (TPS.finishSq basis i len p) = fld p) →
        fld (TPS.startPos p.cfg.size p.move) = BitVec.ofNat 8 tot →
        cnt c cap (Spec.abs p).squares + (fld p).toNat = tot →
        fld (TPS.fsPure basis p.cfg.size boardP p.move) = fld p := by
      intro fld c cap tot h1 h2 h3 h4 h5 h6
      have := TPS.goPure_reserve basis fld _ h1 h2 h3 h4 0 boardP (TPS.startPos p.cfg.size p.move)
      rw [countOn_eq_cnt, cnt_perm c cap hperm, h5, ← h6, Nat.add_comm, BitVec.ofNat_add, BitVec.ofNat_toNat,
        BitVec.setWidth_eq] at this
      exact u8_cancel _ _ _ this
    obtain ⟨t1, t2, t3, t4⟩ := htot
    simp only [total, State.reserve, Spec.abs] at t1 t2 t3 t4
    have r1 : q.whiteStones = p.whiteStones := by
      rw [a10]
      apply reserve (·.whiteStones) .white false (Facts.defaultPieces.getD p.cfg.size 0)
      · intro p pc; obtain ⟨c, k⟩ := pc; cases c <;> cases k <;> simp [TPS.decReserve, BitVec.sub_add_cancel]
      · intro p s; rfl
      · intro i top p; unfold TPS.markTop; cases top.color <;> cases top.kind <;> rfl
      · intro i len p; rfl
      · rfl
      · exact t1
    have r2 : q.whiteCaps = p.whiteCaps := by
      rw [a11]
      apply reserve (·.whiteCaps) .white true (Facts.defaultCaps.getD p.cfg.size 0)
      · intro p pc; obtain ⟨c, k⟩ := pc; cases c <;> cases k <;> simp [TPS.decReserve, BitVec.sub_add_cancel]
      · intro p s; rfl
      · intro i top p; unfold TPS.markTop; cases top.color <;> cases top.kind <;> rfl
      · intro i len p; rfl
      · rfl
      · exact t2
    have r3 : q.blackStones = p.blackStones := by
      rw [a12]
      apply reserve (·.blackStones) .black false (Facts.defaultPieces.getD p.cfg.size 0)
      · intro p pc; obtain ⟨c, k⟩ := pc; cases c <;> cases k <;> simp [TPS.decReserve, BitVec.sub_add_cancel]
      · intro p s; rfl
      · intro i top p; unfold TPS.markTop; cases top.color <;> cases top.kind <;> rfl
      · intro i len p; rfl
      · rfl
      · exact t3
    have r4 : q.blackCaps = p.blackCaps := by
      rw [a13]
      apply reserve (·.blackCaps) .black true (Facts.defaultCaps.getD p.cfg.size 0)
      · intro p pc; obtain ⟨c, k⟩ := pc; cases c <;> cases k <;> simp [TPS.decReserve, BitVec.sub_add_cancel]
      · intro p s; rfl
      · intro i top p; unfold TPS.markTop; cases top.color <;> cases top.kind <;> rfl
      · intro i len p; rfl
      · rfl
      · exact t4
    have hmove : q.move = p.move := by rw [a2, fmv]
    -- assemble
    have e : Spec.abs q = { Sym.state k (Spec.abs p) with squares := (Spec.abs q).squares } := by
      simp only [Spec.abs, Sym.state, hqcfg, hmove, r1, r2, r3, r4]
    rw [e, hsquares]

theorem totals_start : ∀ n ∈ [3, 4, 5, 6, 7, 8], Totals (startState n) := by
  have key : ∀ n ∈ [3, 4, 5, 6, 7, 8],
      (decide (SpecProofs.total Color.white false (startState n) = Facts.defaultPieces.getD n 0) &&
       decide (SpecProofs.total Color.white true (startState n) = Facts.defaultCaps.getD n 0) &&
       decide (SpecProofs.total Color.black false (startState n) = Facts.defaultPieces.getD n 0) &&
       decide (SpecProofs.total Color.black true (startState n) = Facts.defaultCaps.getD n 0)) = true := by decide
  intro n hn
  have := key n hn
  simp only [Bool.and_eq_true, decide_eq_true_eq] at this
  exact ⟨this.1.1.1, this.1.1.2, this.1.2, this.2⟩

/-- **`PosFacts2` for the invariant with conservation of pieces**, default games up to 6×6 -/
theorem posFacts2_defaultD (basis : Array W) (size : Nat) (hs : size ≤ 6) :
    PosFacts2 basis size (InvD basis) OkM where
  new := by
    intro p h
    have F := posFacts2_default basis size hs
    obtain ⟨w, b⟩ := F.new p h
    obtain ⟨s1, s8⟩ := new_size_ok h
    have h3 : 3 ≤ size := by have := w.size_ge; rw [s1] at this; exact this
    have hmem : size ∈ [3, 4, 5, 6, 7, 8] := by simp; omega
    have ha := abs_new size hmem
    rw [h] at ha
    simp only at ha
    refine ⟨w, b, ?_, ?_⟩
    · -- the configuration `New` stores
      unfold Pos.new at h
      by_cases e1 : size ≥ Facts.defaultPieces.length
      · simp [e1] at h
      · by_cases e2 : size < 3 ∨ size > 8
        · simp [e1, e2] at h
        · simp only [e1, e2, if_false] at h
          cases h
          simp [defCfg]
    · rw [ha]; exact totals_start size hmem
  apply := by
    intro p m p' hi hok ha
    have F := posFacts2_default basis size hs
    obtain ⟨⟨w', b'⟩, hsz, hstep⟩ := F.apply p m p' ⟨hi.1, hi.2.1⟩ hok ha
    have hcfg' : p'.cfg = p.cfg := apply_cfg ha
    have hwf : (Spec.abs p).squares.length = (Spec.abs p).size * (Spec.abs p).size := by simp [Spec.abs]
    have hsize : (Spec.abs p').size = (Spec.abs p).size := by show p'.cfg.size = p.cfg.size; rw [hcfg']
    obtain ⟨t1, t2, t3, t4⟩ := hi.2.2.2
    refine ⟨⟨w', b', by rw [hcfg']; exact hi.2.2.1, ?_⟩, hsz, hstep⟩
    refine ⟨?_, ?_, ?_, ?_⟩
    · rw [step_conserves _ _ _ _ _ hwf hstep, hsize]; exact t1
    · rw [step_conserves _ _ _ _ _ hwf hstep, hsize]; exact t2
    · rw [step_conserves _ _ _ _ _ hwf hstep, hsize]; exact t3
    · rw [step_conserves _ _ _ _ _ hwf hstep, hsize]; exact t4
  complete := fun p m s' hi hok h => (posFacts2_default basis size hs).complete p m s' ⟨hi.1, hi.2.1⟩ hok h
  hash_abs := fun p q hp hq h => (posFacts2_default basis size hs).hash_abs p q ⟨hp.1, hp.2.1⟩ ⟨hq.1, hq.2.1⟩ h
  ok_of_legal := fun p m hi h => (posFacts2_default basis size hs).ok_of_legal p m ⟨hi.1, hi.2.1⟩ h

/-- the piece budget is the same for a state and its images -/
theorem budget_state (k : Sym) {s : State} (hs : s.WF) : budget (Sym.state k s) = budget s := by
  unfold budget total
  rw [((Sym.state_squares_perm k hs).map List.length).sum_nat]
  rfl

/-- the rebuilt image of a position of the invariant satisfies C01's invariant and the budget -/
theorem image_wf (basis : Array W) (p q : Pos) (k : Fin 8) (hp : InvD basis p) (hq : imagePos basis p k = .ok q) :
    WF basis q ∧ budget (Spec.abs q) ≤ 64 := by
  have himg := imageFact_invD basis p k q hp hq
  constructor
  · unfold imagePos at hq
    rw [imageBoard_eq (atOK_of_wf hp.1) hp.1.size_le k] at hq
    simp only [bind, Except.bind] at hq
    apply fromSquares_wf basis _ _ _ q hp.1.move_nonneg _ hq
    intro sq hsq
    simp only [List.mem_map, List.mem_range] at hsq
    obtain ⟨j, _, rfl⟩ := hsq
    simp only [List.length_map]
    exact squareAt_length_le hp.1 _
  · rw [himg, budget_state k (by simp [State.WF, Spec.abs])]
    exact hp.2.1

end Tak
