import TakVerif.Proofs.Adj

/-! The executable breadth-first closure `Spec.reach` computes exactly the connectivity relation
`Spec.Conn`, and hence `Spec.hasRoad` decides `Spec.RoadPath`.  Any board size `n`, any `ok`. -/
namespace Roads
open Spec

/-! ### counting -/

theorem countP_lt' {α : Type} (p q : α → Bool) (l : List α) (h : ∀ a ∈ l, p a = true → q a = true)
    (a : α) (ha : a ∈ l) (hq : q a = true) (hp : p a = false) : l.countP p < l.countP q := by
  induction l with
  | nil => cases ha
  | cons b l ih =>
    simp only [List.countP_cons]
    have hmono : l.countP p ≤ l.countP q :=
      List.countP_mono_left (fun x hx => h x (List.mem_cons_of_mem _ hx))
    rcases List.mem_cons.mp ha with rfl | hal
    · simp [hq, hp]; omega
    · have := ih (fun x hx => h x (List.mem_cons_of_mem _ hx)) hal
      have hb := h b (List.mem_cons_self)
      by_cases hpb : p b = true
      · simp [hpb, hb hpb]; omega
      · by_cases hqb : q b = true <;> simp [hpb, hqb] <;> omega

/-- two filters of the same list, one pointwise below the other: equal, or the bigger one is longer -/
theorem filter_eq_or_length_lt {α : Type} (p q : α → Bool) (l : List α)
    (h : ∀ a ∈ l, p a = true → q a = true) :
    l.filter q = l.filter p ∨ (l.filter p).length < (l.filter q).length := by
  by_cases hex : ∃ a, a ∈ l ∧ q a = true ∧ p a = false
  · obtain ⟨a, ha, hq, hp⟩ := hex
    right
    rw [← List.countP_eq_length_filter, ← List.countP_eq_length_filter]
    exact countP_lt' p q l h a ha hq hp
  · left
    apply List.filter_congr
    intro x hx
    cases hpx : p x with
    | true => exact h x hx hpx
    | false =>
      cases hqx : q x with
      | false => rfl
      | true => exact absurd ⟨x, hx, hqx, hpx⟩ hex

/-! ### one round -/

/-- the lists the loop works on: a filter of `range (n*n)`, inside `ok` -/
def Canon (n : Nat) (ok : Nat → Bool) (cur : List Nat) : Prop :=
  ∃ q : Nat → Bool, cur = (List.range (n * n)).filter q ∧ ∀ i, q i = true → ok i = true

theorem Canon.ok {n : Nat} {ok : Nat → Bool} {cur : List Nat} (h : Canon n ok cur) {x : Nat}
    (hx : x ∈ cur) : ok x = true := by
  obtain ⟨q, rfl, hq⟩ := h
  exact hq x (List.mem_filter.mp hx).2

theorem Canon.length_le {n : Nat} {ok : Nat → Bool} {cur : List Nat} (h : Canon n ok cur) :
    cur.length ≤ n * n := by
  obtain ⟨q, rfl, _⟩ := h
  have := List.length_filter_le q (List.range (n * n))
  rw [List.length_range] at this
  exact this

theorem mem_growList {n : Nat} {ok : Nat → Bool} {cur : List Nat} {k : Nat} :
    k ∈ growList n ok cur ↔
      k < n * n ∧ ok k = true ∧ (k ∈ cur ∨ ∃ j, j ∈ neighbours n k ∧ j ∈ cur) := by
  unfold growList
  simp only [List.mem_filter, List.mem_range, Bool.and_eq_true, Bool.or_eq_true,
    List.contains_iff_mem, List.any_eq_true]

theorem growList_canon (n : Nat) (ok : Nat → Bool) (cur : List Nat) : Canon n ok (growList n ok cur) := by
  refine ⟨fun i => ok i && (cur.contains i || (neighbours n i).any cur.contains), rfl, ?_⟩
  intro i hi
  simp only [Bool.and_eq_true] at hi
  exact hi.1

/-- a round either changes nothing or makes the list strictly longer -/
theorem growList_eq_or_lt {n : Nat} {ok : Nat → Bool} {cur : List Nat} (h : Canon n ok cur) :
    growList n ok cur = cur ∨ cur.length < (growList n ok cur).length := by
  obtain ⟨q, rfl, hq⟩ := h
  apply filter_eq_or_length_lt
  intro a ha hqa
  have hmem : a ∈ (List.range (n * n)).filter q := List.mem_filter.mpr ⟨ha, hqa⟩
  simp only [Bool.and_eq_true, Bool.or_eq_true, List.contains_iff_mem]
  exact ⟨hq a hqa, Or.inl hmem⟩

theorem growList_infl {n : Nat} {ok : Nat → Bool} {cur : List Nat} (h : Canon n ok cur) {x : Nat}
    (hx : x ∈ cur) : x ∈ growList n ok cur := by
  have hok := h.ok hx
  obtain ⟨q, rfl, _⟩ := h
  have hlt : x < n * n := List.mem_range.mp (List.mem_filter.mp hx).1
  exact mem_growList.mpr ⟨hlt, hok, Or.inl hx⟩

/-! ### the loop -/

/-- Generic loop lemma: started from a canonical list with enough fuel for the squares still missing,
the loop returns a fixpoint of `growList` above the start; any property preserved by one round carries over. -/
theorem reachFuel_spec (n : Nat) (ok : Nat → Bool) (P : List Nat → Prop)
    (hP : ∀ cur, Canon n ok cur → P cur → P (growList n ok cur)) :
    ∀ (fuel : Nat) (cur : List Nat), Canon n ok cur → P cur → n * n - cur.length < fuel →
      P (reachFuel n ok fuel cur) ∧ Canon n ok (reachFuel n ok fuel cur) ∧
      growList n ok (reachFuel n ok fuel cur) = reachFuel n ok fuel cur ∧
      (∀ x, x ∈ cur → x ∈ reachFuel n ok fuel cur) := by
  intro fuel
  induction fuel with
  | zero => intro cur _ _ h; omega
  | succ fuel ih =>
    intro cur hc hp hf
    unfold reachFuel
    simp only []
    by_cases heq : growList n ok cur = cur
    · have hb : (growList n ok cur == cur) = true := beq_iff_eq.mpr heq
      rw [if_pos hb]
      exact ⟨hp, hc, heq, fun _ hx => hx⟩
    · have hb : ¬ (growList n ok cur == cur) = true := fun h => heq (beq_iff_eq.mp h)
      rw [if_neg hb]
      have hlt : cur.length < (growList n ok cur).length := by
        rcases growList_eq_or_lt hc with h | h
        · exact absurd h heq
        · exact h
      have hc' := growList_canon n ok cur
      have hle := hc'.length_le
      obtain ⟨h1, h2, h3, h4⟩ := ih (growList n ok cur) hc' (hP cur hc hp) (by omega)
      exact ⟨h1, h2, h3, fun x hx => h4 x (growList_infl hc hx)⟩

/-! ### `reach` is connectivity -/

theorem mem_reach (n : Nat) (ok : Nat → Bool) (p : Nat → Bool) (k : Nat) :
    k ∈ Spec.reach n ok ((List.range (n*n)).filter p) ↔
      ∃ i, i < n*n ∧ p i = true ∧ Spec.Conn n (fun j => ok j = true) i k := by
  unfold Spec.reach
  have hseed : ((List.range (n*n)).filter p).filter ok =
      (List.range (n*n)).filter (fun a => ok a && p a) := List.filter_filter
  rw [hseed]
  have hcanon : Canon n ok ((List.range (n*n)).filter (fun a => ok a && p a)) := by
    refine ⟨_, rfl, ?_⟩
    intro i hi
    simp only [Bool.and_eq_true] at hi
    exact hi.1
  let P : List Nat → Prop := fun cur =>
    ∀ k, k ∈ cur → ∃ i, i < n*n ∧ p i = true ∧ Spec.Conn n (fun j => ok j = true) i k
  have hP : ∀ cur, Canon n ok cur → P cur → P (growList n ok cur) := by
    intro cur _ hp k hk
    obtain ⟨hlt, hok, hk | ⟨j, hj, hjc⟩⟩ := mem_growList.mp hk
    · exact hp k hk
    · obtain ⟨i, hi, hpi, hconn⟩ := hp j hjc
      exact ⟨i, hi, hpi, Conn.step hconn (neighbours_symm hlt hj) hok⟩
  have hP0 : P ((List.range (n*n)).filter (fun a => ok a && p a)) := by
    intro k hk
    simp only [List.mem_filter, List.mem_range, Bool.and_eq_true] at hk
    exact ⟨k, hk.1, hk.2.2, Conn.refl hk.1 hk.2.1⟩
  obtain ⟨h1, _, h3, h4⟩ := reachFuel_spec n ok P hP (n*n+1) _ hcanon hP0 (by omega)
  constructor
  · exact h1 k
  · rintro ⟨i, hi, hpi, hconn⟩
    generalize reachFuel n ok (n*n+1) ((List.range (n*n)).filter (fun a => ok a && p a)) = r at h3 h4 ⊢
    have hir : i ∈ r := by
      apply h4
      simp only [List.mem_filter, List.mem_range, Bool.and_eq_true]
      exact ⟨hi, hconn.ok_left, hpi⟩
    refine Conn.closed (fun x => x ∈ r) ?_ hir hconn
    intro j k' hj hjlt hk' hok'
    show k' ∈ r
    rw [← h3]
    exact mem_growList.mpr ⟨neighbours_lt hjlt hk', hok', Or.inr ⟨j, neighbours_symm hjlt hk', hj⟩⟩

/-! ### `hasRoad` decides `RoadPath` -/

theorem spec_hasRoad_iff (s : Spec.State) (c : Tak.Color) :
    Spec.hasRoad s c = true ↔ Spec.RoadPath s c := by
  unfold Spec.hasRoad Spec.RoadPath
  simp only [Bool.or_eq_true, List.any_eq_true, mem_reach, beq_iff_eq]
  constructor
  · rintro (⟨j, ⟨i, _, hi, hconn⟩, hj⟩ | ⟨j, ⟨i, _, hi, hconn⟩, hj⟩)
    · exact ⟨i, j, hconn, Or.inl ⟨hi, hj⟩⟩
    · exact ⟨i, j, hconn, Or.inr ⟨hi, hj⟩⟩
  · rintro ⟨i, j, hconn, ⟨hi, hj⟩ | ⟨hi, hj⟩⟩
    · exact Or.inl ⟨j, ⟨i, hconn.lt_left, hi, hconn⟩, hj⟩
    · exact Or.inr ⟨j, ⟨i, hconn.lt_left, hi, hconn⟩, hj⟩

end Roads
