import TakVerif.Proofs.StepShape
import TakVerif.Proofs.AllMovesNodup

/-! # The list-level view of a bit-level position, as far as move generation needs it (C03, part 4b) -/
namespace Tak.Proofs
open Tak Spec

/-- the part of the position invariant that completeness of `AllMoves` rests on -/
structure WFlite (p : Pos) : Prop where
  size_lo : 3 ≤ p.cfg.size
  size_hi : p.cfg.size ≤ 8
  /-- `Height[i] == 0` exactly on the squares that carry no colour bit (= empty squares of `abs p`) -/
  height_zero : ∀ i, i < p.cfg.size * p.cfg.size →
    (p.height.getD i 0 = 0#8 ↔ (p.white.getLsbD i = false ∧ p.black.getLsbD i = false))

theorem idx_lt (sz x y : Nat) (hx : x < sz) (hy : y < sz) : y * sz + x < sz * sz := by
  have : y * sz ≤ (sz - 1) * sz := Nat.mul_le_mul_right _ (by omega)
  have h2 : (sz - 1) * sz + sz = sz * sz := by
    cases sz with
    | zero => omega
    | succ n => simp [Nat.succ_mul]
  omega

theorem abs_at (p : Pos) (mx my : Int) (hob : (abs p).onBoard mx my = true) :
    mx.toNat < p.cfg.size ∧ my.toNat < p.cfg.size ∧ (mx.toNat : Int) = mx ∧ (my.toNat : Int) = my ∧
    (abs p).at mx my = p.squareAt (my.toNat * p.cfg.size + mx.toNat) := by
  simp only [State.onBoard, Bool.and_eq_true, decide_eq_true_eq] at hob
  have hsz : (abs p).size = p.cfg.size := rfl
  rw [hsz] at hob
  obtain ⟨⟨⟨h1, h2⟩, h3⟩, h4⟩ := hob
  have hx : mx.toNat < p.cfg.size := by omega
  have hy : my.toNat < p.cfg.size := by omega
  refine ⟨hx, hy, by omega, by omega, ?_⟩
  unfold State.at State.idx
  rw [hsz]
  have hi : (mx + my * (p.cfg.size : Int)).toNat = my.toNat * p.cfg.size + mx.toNat := by
    have e1 : mx = (mx.toNat : Int) := by omega
    have e2 : my = (my.toNat : Int) := by omega
    rw [e1, e2]
    rw [← Int.natCast_mul, ← Int.natCast_add, Int.toNat_natCast]
    simp only [Int.toNat_natCast]; omega
  rw [hi]
  have hlt := idx_lt p.cfg.size mx.toNat my.toNat hx hy
  simp [abs, List.getD, hlt]

theorem squareAt_nil_iff (p : Pos) (i : Nat) :
    p.squareAt i = [] ↔ (p.white.getLsbD i = false ∧ p.black.getLsbD i = false) := by
  unfold Pos.squareAt Pos.topAt
  cases hw : p.white.getLsbD i <;> cases hb : p.black.getLsbD i <;> simp

theorem squareAt_cons (p : Pos) (i : Nat) (t : Piece) (rest : List Piece) (h : p.squareAt i = t :: rest) :
    (t.color = .white ↔ p.white.getLsbD i = true) ∧
    (t.color = .black → p.black.getLsbD i = true) ∧
    (t :: rest).length = 1 + ((p.height.getD i 0).toNat - 1) := by
  unfold Pos.squareAt Pos.topAt at h
  cases hw : p.white.getLsbD i <;> cases hb : p.black.getLsbD i <;> simp [hw, hb] at h
  all_goals (obtain ⟨rfl, rfl⟩ := h; simp; try omega)


theorem toMove_abs (p : Pos) : (abs p).toMove = p.toMove := rfl

theorem toMove_cases (p : Pos) : p.toMove = .white ∨ p.toMove = .black := by
  unfold Pos.toMove; split <;> simp

/-- decoding only looks at the slide word of slides -/
theorem decode_eq_of_equal (m1 m2 : Move) (h : m1.equal m2 = true) : decode m1 = decode m2 := by
  unfold Move.equal at h
  by_cases hxy : m1.x ≠ m2.x ∨ m1.y ≠ m2.y
  · simp [hxy] at h
  simp only [hxy, if_false] at h
  by_cases ht : m1.type ≠ m2.type
  · simp [ht] at h
  simp only [ht, if_false] at h
  have hx : m1.x = m2.x := by omega
  have hy : m1.y = m2.y := by omega
  have ht' : m1.type = m2.type := by omega
  by_cases hs : m1.isSlide = true
  · have : m1.slides = m2.slides := by simpa [hs] using h
    cases m1; cases m2; simp_all
  · have hs1 : ¬ (m2.type ≥ Facts.mtSlideLeft) := by
      rw [← ht']; simpa [Move.isSlide] using hs
    unfold decode
    rw [hx, hy, ht']
    have := types_cases
    have e5 : (m2.type == Facts.mtSlideLeft) = false := by simp; omega
    have e6 : (m2.type == Facts.mtSlideRight) = false := by simp; omega
    have e7 : (m2.type == Facts.mtSlideUp) = false := by simp; omega
    have e8 : (m2.type == Facts.mtSlideDown) = false := by simp; omega
    simp [e5, e6, e7, e8]

end Tak.Proofs
