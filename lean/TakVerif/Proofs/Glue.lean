import TakVerif.Impl.Friendly
import TakVerif.Spec.FPA
import TakVerif.Proofs.WF
import TakVerif.Proofs.AbsLite

/-! Helper lemmas for `Props/C20_glue.lean`: the case analysis of the model of `Friendly.GetMove`
(`Tak.Tak.Glue.friendlyGetMove`), and its agreement with the rule-driving part `Tak.FPA.friendlyGetMove` that C20's
opening game (`Spec.FPA.turn`) is built on. -/
namespace Tak.Glue
open Tak Tak.FPA

theorem friendlyWith_cases (check : Option (Variant × Rule) → GameRec → Pos → R (Option (Variant × Rule) × Option Msg))
    (fpa : Option (Variant × Rule)) (g : GameRec) (p : Pos) (o : CheckOracle) :
  Tak.Glue.friendlyGetMoveWith check fpa g p o =
    match check fpa g p with
    | .error e => .error e
    | .ok (f', some msg) => .ok (f', .resign msg)
    | .ok (f', none) =>
      if p.toMove ≠ g.color then .ok (f', .noMove) else
      match fpaScript f' p with
      | .error e => .error e
      | .ok (some m) => .ok (f', .move m)
      | .ok none =>
        match waitUndo g o with
        | .error e => .error e
        | .ok w => .ok (f', .think (some Facts.maxThink) (some (if w then .undo else .minThink))) := by
  unfold Tak.Glue.friendlyGetMoveWith
  cases h1 : check fpa g p with
  | error e => rfl
  | ok v =>
    obtain ⟨f', rej⟩ := v
    cases rej with
    | some msg => rfl
    | none =>
      show (if p.toMove ≠ g.color then _ else _) = (if p.toMove ≠ g.color then _ else _)
      by_cases ht : p.toMove ≠ g.color
      · rw [if_pos ht, if_pos ht]
      · rw [if_neg ht, if_neg ht]
        cases h2 : fpaScript f' p with
        | error e => rfl
        | ok sm =>
          cases sm with
          | some m => rfl
          | none =>
            show (waitUndo g o >>= _) = _
            cases h3 : waitUndo g o with
            | error e => rfl
            | ok w => rfl

theorem friendly_cases (fpa : Option (Variant × Rule)) (g : GameRec) (p : Pos) (o : CheckOracle) :
  Tak.Glue.friendlyGetMove fpa g p o =
    match fpaCheck fpa g p with
    | .error e => .error e
    | .ok (f', some msg) => .ok (f', .resign msg)
    | .ok (f', none) =>
      if p.toMove ≠ g.color then .ok (f', .noMove) else
      match fpaScript f' p with
      | .error e => .error e
      | .ok (some m) => .ok (f', .move m)
      | .ok none =>
        match waitUndo g o with
        | .error e => .error e
        | .ok w => .ok (f', .think (some Facts.maxThink) (some (if w then .undo else .minThink))) :=
  friendlyWith_cases fpaCheck fpa g p o

theorem friendly_cases_pinned (fpa : Option (Variant × Rule)) (g : GameRec) (p : Pos) (o : CheckOracle) :
  Tak.Glue.friendlyGetMovePinned fpa g p o =
    match fpaCheckPinned fpa g p with
    | .error e => .error e
    | .ok (f', some msg) => .ok (f', .resign msg)
    | .ok (f', none) =>
      if p.toMove ≠ g.color then .ok (f', .noMove) else
      match fpaScript f' p with
      | .error e => .error e
      | .ok (some m) => .ok (f', .move m)
      | .ok none =>
        match waitUndo g o with
        | .error e => .error e
        | .ok w => .ok (f', .think (some Facts.maxThink) (some (if w then .undo else .minThink))) :=
  friendlyWith_cases fpaCheckPinned fpa g p o

/-- the first block in terms of `prevCheck` -/
theorem fpaCheck_some (var : Variant) (r : Rule) (g : GameRec) (p : Pos) :
    fpaCheck (some (var, r)) g p =
      match prevCheck var r g p with
      | .error e => .error e
      | .ok (r', true) => .ok (some (var, r'), none)
      | .ok (r', false) =>
        match prevOf g with
        | .error e => .error e
        | .ok (q, _) =>
          match errMsg var q.move with
          | .error e => .error e
          | .ok msg => .ok (some (var, r'), some msg) := by
  unfold fpaCheck prevCheck
  by_cases hp : p.move > 0
  · simp only [hp, if_true]
    show (entryRule var r g >>= _) = _
    cases h0 : entryRule var r g with
    | error e => rfl
    | ok r1 =>
      show (prevOf g >>= _) = _
      cases h1 : prevOf g with
      | error e => rfl
      | ok qm =>
        obtain ⟨q, m⟩ := qm
        dsimp only
        show (legalMoveR var r1 (viewOfPos q) m >>= _) = _
        cases h2 : legalMoveR var r1 (viewOfPos q) m with
        | error e => rfl
        | ok v =>
          obtain ⟨r', ok⟩ := v
          cases ok with
          | true => rfl
          | false =>
            show (errMsg var q.move >>= _) = _
            cases h3 : errMsg var q.move with
            | error e => rfl
            | ok msg => rfl
  · simp only [hp, if_false]

/-- the first block of the tree before `fixes/C07-fpa-record-notes.diff` in terms of `prevCheckPinned` -/
theorem fpaCheckPinned_some (var : Variant) (r : Rule) (g : GameRec) (p : Pos) :
    fpaCheckPinned (some (var, r)) g p =
      match prevCheckPinned var r g p with
      | .error e => .error e
      | .ok (r', true) => .ok (some (var, r'), none)
      | .ok (r', false) =>
        match prevOf g with
        | .error e => .error e
        | .ok (q, _) =>
          match errMsg var q.move with
          | .error e => .error e
          | .ok msg => .ok (some (var, r'), some msg) := by
  unfold fpaCheckPinned prevCheckPinned
  by_cases hp : p.move > 0
  · simp only [hp, if_true]
    cases h1 : prevOf g with
    | error e => rfl
    | ok qm =>
      obtain ⟨q, m⟩ := qm
      dsimp only
      show (legalMove var r (viewOfPos q) m >>= _) = _
      cases h2 : legalMove var r (viewOfPos q) m with
      | error e => rfl
      | ok v =>
        obtain ⟨r', ok⟩ := v
        cases ok with
        | true => rfl
        | false =>
          show (errMsg var q.move >>= _) = _
          cases h3 : errMsg var q.move with
          | error e => rfl
          | ok msg => rfl
  · simp only [hp, if_false]

theorem fpaCheck_none (g : GameRec) (p : Pos) : fpaCheck none g p = .ok (none, none) := rfl
theorem fpaCheckPinned_none (g : GameRec) (p : Pos) : fpaCheckPinned none g p = .ok (none, none) := rfl

theorem doubleStackLegal_reject_ply {r r' : Rule} {v : View} {m : Move}
    (h : doubleStackLegal r v m = .ok (r', false)) : 2 ≤ v.ply ∧ v.ply ≤ 5 := by
  unfold doubleStackLegal at h
  by_cases h0 : v.ply = 0
  · simp [h0] at h
  by_cases h1 : v.ply = 1
  · simp [h1] at h
  by_cases h2 : v.ply = 2
  · omega
  by_cases h3 : v.ply = 3
  · omega
  by_cases h4 : v.ply = 4
  · omega
  by_cases h5 : v.ply = 5
  · omega
  simp [h0, h1, h2, h3, h4, h5] at h

theorem cairnLegal_reject_ply {r r' : Rule} {v : View} {m : Move}
    (h : cairnLegal r v m = .ok (r', false)) : 2 ≤ v.ply ∧ v.ply ≤ 5 := by
  unfold cairnLegal at h
  by_cases h0 : v.ply = 0 ∨ v.ply = 1
  · simp [h0] at h
  by_cases h2 : v.ply = 2
  · omega
  by_cases h3 : v.ply = 3
  · omega
  by_cases h4 : v.ply = 4
  · omega
  by_cases h5 : v.ply = 5
  · omega
  simp [h0, h2, h3, h4, h5] at h

/-- a rejected move always has an error text: `errors.New(doubleStackErrors[p.MoveNumber()])` never indexes outside its table -/
theorem errMsg_ok_of_reject {var : Variant} {r r' : Rule} {q : Pos} {m : Move}
    (h : legalMove var r (viewOfPos q) m = .ok (r', false)) : ∃ msg, errMsg var q.move = .ok msg := by
  cases var with
  | center => exact ⟨_, rfl⟩
  | doubleStack =>
    have := doubleStackLegal_reject_ply h
    simp only [viewOfPos] at this
    unfold errMsg
    simp only
    rw [if_neg (by omega)]
    exact ⟨_, rfl⟩
  | cairn =>
    have := cairnLegal_reject_ply h
    simp only [viewOfPos] at this
    unfold errMsg
    simp only
    rw [if_neg (by omega)]
    exact ⟨_, rfl⟩

/-- how the replies of `Tak.FPA.friendlyGetMove` correspond to the actions of the full model -/
inductive Matches : Reply → Action → Prop
  | resign (msg : Msg) : Matches .resign (.resign msg)
  | notMyTurn : Matches .notMyTurn .noMove
  | scripted (m : Move) : Matches (.scripted m) (.move m)
  | search (l : Option Int) (f : Option Floor) : Matches .search (.think l f)

theorem fpa_cases (var : Variant) (color : Color) (r : Rule) (view : View) (toMove : Color) (prev : Option (View × Move)) :
  FPA.friendlyGetMove var color r view toMove prev =
    match (if view.ply > 0 then
        (match prev with
        | none => .error (.panic "Friendly.GetMove: g.Positions[len-2]")
        | some (pv, pm) => legalMove var r pv pm)
      else pure (r, true) : R (Rule × Bool)) with
    | .error e => .error e
    | .ok (r', false) => .ok (r', .resign)
    | .ok (r', true) =>
      if toMove ≠ color then .ok (r', .notMyTurn) else
      match getMove var r' view with
      | .error e => .error e
      | .ok (some m) => .ok (r', .scripted m)
      | .ok none => .ok (r', .search) := by
  unfold FPA.friendlyGetMove
  generalize (if view.ply > 0 then
        (match prev with
        | none => (.error (.panic "Friendly.GetMove: g.Positions[len-2]") : R (Rule × Bool))
        | some (pv, pm) => legalMove var r pv pm)
      else pure (r, true)) = first
  cases first with
  | error e => rfl
  | ok v =>
    obtain ⟨r', ok⟩ := v
    cases ok with
    | false => rfl
    | true =>
      show (if toMove ≠ color then _ else _) = (if toMove ≠ color then _ else _)
      by_cases ht : toMove ≠ color
      · rw [if_pos ht, if_pos ht]
      · rw [if_neg ht, if_neg ht]
        show (getMove var r' view >>= _) = _
        cases hs : getMove var r' view with
        | error e => rfl
        | ok sm => cases sm <;> rfl

theorem glue_refines_fpa_pinned (var : Variant) (r : Rule) (g : GameRec) (p : Pos) (o : CheckOracle)
    (f' : Option (Variant × Rule)) (a : Action)
    (h : Tak.Glue.friendlyGetMovePinned (some (var, r)) g p o = .ok (f', a)) :
    ∃ r' rep, FPA.friendlyGetMove var g.color r (viewOfPos p) p.toMove (prevViews g) = .ok (r', rep) ∧
      f' = some (var, r') ∧ Matches rep a := by
  rw [friendly_cases_pinned, fpaCheckPinned_some] at h
  rw [fpa_cases]
  have hply : (viewOfPos p).ply = p.move := rfl
  rw [hply]
  unfold prevCheckPinned at h
  unfold prevViews
  by_cases hp : p.move > 0
  · simp only [hp, if_true] at h ⊢
    cases hq : prevOf g with
    | error e => rw [hq] at h; cases h
    | ok qm =>
      obtain ⟨q, m⟩ := qm
      rw [hq] at h
      simp only at h ⊢
      cases hl : legalMove var r (viewOfPos q) m with
      | error e => rw [hl] at h; cases h
      | ok v =>
        obtain ⟨r', ok⟩ := v
        rw [hl] at h
        cases ok with
        | false =>
          simp only at h
          cases he : errMsg var q.move with
          | error e => rw [he] at h; cases h
          | ok msg =>
            rw [he] at h; cases h
            exact ⟨r', .resign, rfl, rfl, .resign msg⟩
        | true =>
          simp only at h ⊢
          by_cases ht : p.toMove ≠ g.color
          · rw [if_pos ht] at h ⊢; cases h
            exact ⟨r', .notMyTurn, rfl, rfl, .notMyTurn⟩
          · rw [if_neg ht] at h ⊢
            simp only [fpaScript] at h
            cases hs : getMove var r' (viewOfPos p) with
            | error e => rw [hs] at h; cases h
            | ok sm =>
              rw [hs] at h
              cases sm with
              | some mv => cases h; exact ⟨r', .scripted mv, rfl, rfl, .scripted mv⟩
              | none =>
                simp only at h
                cases hw : waitUndo g o with
                | error e => rw [hw] at h; cases h
                | ok w => rw [hw] at h; cases h; exact ⟨r', .search, rfl, rfl, .search _ _⟩
  · simp only [hp, if_false] at h
    simp only [hp, if_false, pure, Except.pure]
    by_cases ht : p.toMove ≠ g.color
    · rw [if_pos ht] at h ⊢; cases h
      exact ⟨r, .notMyTurn, rfl, rfl, .notMyTurn⟩
    · rw [if_neg ht] at h ⊢
      simp only [fpaScript] at h
      cases hs : getMove var r (viewOfPos p) with
      | error e => rw [hs] at h; cases h
      | ok sm =>
        rw [hs] at h
        cases sm with
        | some mv => cases h; exact ⟨r, .scripted mv, rfl, rfl, .scripted mv⟩
        | none =>
          simp only at h
          cases hw : waitUndo g o with
          | error e => rw [hw] at h; cases h
          | ok w => rw [hw] at h; cases h; exact ⟨r, .search, rfl, rfl, .search _ _⟩

/-! ### the repaired `GetMove` is the old code run on the notes rebuilt from the record -/

/-- the notes with which `Friendly.GetMove` (with `fixes/C07-fpa-record-notes.diff`) runs the code it had before: the older
pairs of the record replayed from the notes on entry, and a fresh rule if the newest pair is the first move -/
def entryNotes (var : Variant) (r : Rule) (g : GameRec) (p : Pos) : R Rule :=
  if p.move > 0 then
    match entryRule var r g with
    | .error e => .error e
    | .ok r1 =>
      match prevOf g with
      | .error e => .error e
      | .ok (q, _) => .ok (if q.move = 0 then {} else r1)
  else .ok r

theorem prevCheck_eq (var : Variant) (r : Rule) (g : GameRec) (p : Pos) :
    prevCheck var r g p = match entryNotes var r g p with
      | .error e => .error e
      | .ok r1 => prevCheckPinned var r1 g p := by
  unfold prevCheck prevCheckPinned entryNotes
  by_cases hp : p.move > 0
  · simp only [hp, if_true]
    cases entryRule var r g with
    | error e => rfl
    | ok r1 =>
      cases prevOf g with
      | error e => rfl
      | ok qm => obtain ⟨q, m⟩ := qm; rfl
  · simp only [hp, if_false]

theorem fpaCheck_eq (var : Variant) (r : Rule) (g : GameRec) (p : Pos) :
    fpaCheck (some (var, r)) g p = match entryNotes var r g p with
      | .error e => .error e
      | .ok r1 => fpaCheckPinned (some (var, r1)) g p := by
  rw [fpaCheck_some, prevCheck_eq]
  cases entryNotes var r g p with
  | error e => rfl
  | ok r1 => simp only [fpaCheckPinned_some]

/-- **the repaired `Friendly.GetMove` is the code before the patch run on the notes rebuilt from the record** -/
theorem friendly_eq_pinned (var : Variant) (r : Rule) (g : GameRec) (p : Pos) (o : CheckOracle) :
    Tak.Glue.friendlyGetMove (some (var, r)) g p o = match entryNotes var r g p with
      | .error e => .error e
      | .ok r1 => Tak.Glue.friendlyGetMovePinned (some (var, r1)) g p o := by
  rw [friendly_cases, fpaCheck_eq]
  cases entryNotes var r g p with
  | error e => rfl
  | ok r1 => simp only [friendly_cases_pinned]

theorem friendly_none_eq_pinned (g : GameRec) (p : Pos) (o : CheckOracle) :
    Tak.Glue.friendlyGetMove none g p o = Tak.Glue.friendlyGetMovePinned none g p o := by
  rw [friendly_cases, friendly_cases_pinned, fpaCheck_none, fpaCheckPinned_none]

/-- the full model against the rule-driving part C20's opening game is built on: the call behaves as
`FPA.friendlyGetMove` on the rebuilt notes -/
theorem glue_refines_fpa (var : Variant) (r : Rule) (g : GameRec) (p : Pos) (o : CheckOracle)
    (f' : Option (Variant × Rule)) (a : Action)
    (h : Tak.Glue.friendlyGetMove (some (var, r)) g p o = .ok (f', a)) :
    ∃ r1 r' rep, entryNotes var r g p = .ok r1 ∧
      FPA.friendlyGetMove var g.color r1 (viewOfPos p) p.toMove (prevViews g) = .ok (r', rep) ∧
      f' = some (var, r') ∧ Matches rep a := by
  rw [friendly_eq_pinned] at h
  cases hn : entryNotes var r g p with
  | error e => rw [hn] at h; cases h
  | ok r1 =>
    rw [hn] at h
    obtain ⟨r', rep, h1, h2, h3⟩ := glue_refines_fpa_pinned var r1 g p o f' a h
    exact ⟨r1, r', rep, rfl, h1, h2, h3⟩

/-! ### the empty board, seen by the rules at both levels (for the examples) -/

open Spec.FPA in
theorem view_ext_of_empty (v w : View) (hs : v.size = w.size) (hp : v.ply = w.ply)
    (hv : ∀ x y, v.empty x y = true) (hw : ∀ x y, w.empty x y = true) : v = w := by
  obtain ⟨vs, vp, ve⟩ := v
  obtain ⟨ws, wp, we⟩ := w
  simp only at hs hp hv hw
  subst hs hp
  congr 1
  funext x y
  rw [hv, hw]

theorem viewOfPos_empty_board (p : Pos) (hw : p.white = 0) (hb : p.black = 0) (x y : Int) :
    (viewOfPos p).empty x y = true := by
  simp only [viewOfPos, hw, hb]
  split
  · rfl
  · simp

open Spec.FPA in
theorem viewOf_init_empty (size : Nat) (x y : Int) : (viewOf (init size).cur).empty x y = true := by
  unfold viewOf
  dsimp only
  split
  · rfl
  · have h : (init size).cur.squares = List.replicate (size * size) [] := rfl
    rw [h]
    simp only [List.getD_eq_getElem?_getD, List.getElem?_replicate]
    split <;> rfl


/-! ### the bit-level position and its abstraction show the rules the same board -/

open Spec.FPA in
/-- the rules see the same board through the bitboards and through the abstraction -/
theorem viewOfPos_abs {basis : Array W} {p : Pos} (h : WF basis p) : viewOfPos p = viewOf (Spec.abs p) := by
  unfold viewOfPos viewOf
  have hn := h.toFrame.n_le
  congr 1
  funext x y
  show (if _ then true else _) = (if _ then true else _)
  have hsz : (Spec.abs p).size = p.cfg.size := rfl
  rw [hsz]
  generalize hi : x + y * (p.cfg.size : Int) = i
  by_cases hneg : i < 0
  · rw [if_pos (Or.inl hneg), if_pos hneg]
  · rw [if_neg hneg]
    have hsq : (Spec.abs p).squares = (List.range (p.cfg.size * p.cfg.size)).map p.squareAt := rfl
    rw [hsq]
    by_cases hin : i.toNat < p.cfg.size * p.cfg.size
    · have h64 : ¬ (i < 0 ∨ i ≥ 64) := by omega
      rw [if_neg h64]
      have : ((List.range (p.cfg.size * p.cfg.size)).map p.squareAt).getD i.toNat [] = p.squareAt i.toNat := by
        simp [List.getD_eq_getElem?_getD, hin]
      rw [this]
      cases hs : p.squareAt i.toNat with
      | nil =>
        have := (Tak.Proofs.squareAt_nil_iff p i.toNat).mp hs
        simp [BitVec.getLsbD_or, this.1, this.2]
      | cons t rest =>
        have hne : ¬ (p.white.getLsbD i.toNat = false ∧ p.black.getLsbD i.toNat = false) := by
          intro hh; have := (Tak.Proofs.squareAt_nil_iff p i.toNat).mpr hh; rw [hs] at this; cases this
        simp only [List.isEmpty_cons]
        cases hw : p.white.getLsbD i.toNat <;> cases hb : p.black.getLsbD i.toNat <;>
          simp [BitVec.getLsbD_or, hw, hb] at hne ⊢
    · have : ((List.range (p.cfg.size * p.cfg.size)).map p.squareAt).getD i.toNat [] = [] := by
        have hnone : (List.range (p.cfg.size * p.cfg.size))[i.toNat]? = none := by
          rw [List.getElem?_eq_none_iff]; simp only [List.length_range]; omega
        simp [List.getD_eq_getElem?_getD, hnone]
      rw [this]
      simp only [List.isEmpty_nil]
      split
      · rfl
      · have hm := h.mask i.toNat (by omega)
        simp [BitVec.getLsbD_or, hm.1, hm.2.1]

end Tak.Glue
