import TakVerif.Proofs.SearchAnalyze

/-! A small concrete game (subtraction game: take 1 or 2 from a heap, whoever cannot move has lost)
satisfying every hypothesis of the search theorems, used for the non-vacuity examples. -/
namespace Search.Toy
open Tak (Err)

def legal (p m : Nat) : Bool := (m == 1 || m == 2) && decide (m ≤ p)

/-- heap game; the mover facing an empty heap has lost -/
def game : Game Nat Nat where
  over p := p == 0
  eval p := if p == 0 then -Facts.winBase else 0
  apply p m := if legal p m then .ok (p - m) else .error (.illegal "not 1 or 2 within the heap")
  allMoves _ := [1, 2]
  hash p := BitVec.ofNat 64 (p + 1)
  moveEq a b := a == b
  zeroMove := 0
  passMove := 0
  isPass m := m == 0
  nullOK _ := false
  reduceSlide _ _ := .ok false
  moveNumber p := p
  symHashes _ := []

theorem gameOK : GameOK game where
  complete := by
    intro p m c h
    simp only [game] at h ⊢
    by_cases hl : legal p m = true
    · simp only [hl, if_true, Except.ok.injEq] at h
      have hm : m = 1 ∨ m = 2 := by
        unfold legal at hl; simp only [Bool.and_eq_true, Bool.or_eq_true, beq_iff_eq] at hl; exact hl.1
      rcases hm with rfl | rfl
      · exact ⟨1, by simp, by simp [hl, h]⟩
      · exact ⟨2, by simp, by simp [hl, h]⟩
    · simp [hl] at h
  eqSound := by
    intro p a b h
    simp only [game, beq_iff_eq] at h
    rw [h]
  zeroNe := by
    intro p m hm
    simp only [game, List.mem_cons, List.not_mem_nil, or_false] at hm ⊢
    rcases hm with rfl | rfl <;> rfl

theorem evalBounded : EvalBounded game := by
  intro q
  simp only [game, Facts.minEval, Facts.maxEval, Facts.winBase]
  split <;> omega

theorem kids_ne (p : Nat) (hp : 0 < p) : kids game p ≠ [] := by
  have h1 : game.apply p 1 = .ok (p - 1) := by
    simp only [game, legal]
    have : decide (1 ≤ p) = true := decide_eq_true (by omega)
    simp [this]
  have : (1, p - 1) ∈ kids game p := mem_kids.mpr ⟨by simp [game], h1⟩
  exact List.ne_nil_of_mem this

theorem live : ∀ d p, Live game d p := by
  intro d
  induction d with
  | zero => intro p; trivial
  | succ d ih =>
    intro p
    simp only [Live]
    by_cases hp : p = 0
    · left; simp [game, hp]
    · right; exact ⟨kids_ne p (by omega), fun c _ => ih c.2⟩

def cfg : Cfg := { depth := 4, opts := { noSort := true, noNullMove := true, noReduceSlides := true } }

theorem cfg_precise : Precise cfg.opts := ⟨rfl, rfl, rfl, rfl⟩

theorem quiet_nc : NoCancel (Oracle.quiet : Oracle Nat) := fun _ _ => rfl
theorem quiet_order : OrderOK (Oracle.quiet : Oracle Nat) := fun _ _ _ => Iff.rfl

end Search.Toy
