import TakVerif.Proofs.SearchTable
import TakVerif.Proofs.SearchAnalyze

/-! A depth-1 engine WITH a transposition table (the engine `IsPositionInTak` caches: `Depth: 1`, `MakePrecise`, default
table) is exact over any history of calls: every `Analyze` of an unfinished position reports `negamax 1` (the best
immediate outcome) with a first move that attains it, a finished position gets value 0.

Invariant of the table (`Ent1`): a slot is either never written (`bound = lowerBound`, `depth = 0`) or holds the exact
depth-1 value of every position with its hash together with a legal move attaining it.  At depth 1 the children of
the root are leaves (the evaluation function), so the table is only read and written at the root. -/
namespace Search
open Tak (Err)

variable {P M : Type}

/-! ### generic per-entry table invariants -/

/-- every slot of the table satisfies `Q` -/
def TableAll (Q : TEntry M → Prop) (s : Eng M) : Prop := ∀ (i : Nat) (e : TEntry M), s.table[i]? = some e → Q e

theorem TableAll.setEntry {Q : TEntry M → Prop} {s : Eng M} (h : TableAll Q s) (i : Nat) (e : TEntry M) (he : Q e) :
    TableAll Q (s.setEntry i e) := by
  intro j e' hj
  unfold Eng.setEntry at hj
  dsimp only at hj
  rw [Array.getElem?_setIfInBounds] at hj
  split at hj
  · split at hj
    · cases hj; exact he
    · cases hj
  · exact h j e' hj

theorem TableAll.evict {Q : TEntry M → Prop} {s : Eng M} (h : TableAll Q s) (k : H) : TableAll Q (s.evict k) := by
  unfold Eng.evict
  split
  · exact h
  · rename_i e1 he1
    split
    · intro j e' hj
      dsimp only at hj
      rw [Array.getElem?_setIfInBounds] at hj
      split at hj
      · split at hj
        · cases hj; exact h _ e1 he1
        · cases hj
      · exact h j e' hj
    · exact h

theorem ttGet_all {Q : TEntry M → Prop} {s : Eng M} (h : TableAll Q s) (k : H) :
    Sat (ttGet s k) (fun te => ∀ e, te = some e → Q e ∧ e.hash = k) := by
  unfold ttGet
  split
  · exact Sat.ok (fun e he => by cases he)
  · split
    · exact Sat.error
    · split
      · rename_i e1 e2 h1 h2
        split
        · rename_i hh
          refine Sat.ok (fun e he => ?_)
          cases he
          exact ⟨h _ e1 h1, by simpa using hh⟩
        · split
          · rename_i hh
            refine Sat.ok (fun e he => ?_)
            cases he
            exact ⟨h _ e2 h2, by simpa using hh⟩
          · exact Sat.ok (fun e he => by cases he)
      · exact Sat.error

theorem ttPut_all {Q : TEntry M → Prop} (o : Oracle M) {s : Eng M} (h : TableAll Q s) (k : H) :
    Sat (ttPut o s k) (fun x => TableAll Q x.2) := by
  unfold ttPut
  split
  · exact Sat.ok h
  · dsimp only
    split
    · exact Sat.ok h
    · intro x hx
      cases hi : ttSlotIdx (load o s).2 k with
      | error e => rw [hi] at hx; cases hx
      | ok i =>
        rw [hi] at hx
        have : x = (some i, (load o s).2.evict k) := (Except.ok.inj hx).symm
        rw [this]
        exact TableAll.evict (s := (load o s).2) h k

theorem tableAll_new {Q : TEntry M → Prop} (g : Game P M) (cfg : Cfg) (h0 : Q ⟨0#64, 0, g.zeroMove, 0, 0⟩) :
    TableAll Q (Eng.new g cfg) := by
  intro i e hi
  unfold Eng.new at hi
  dsimp only at hi
  have : e = ⟨0#64, 0, g.zeroMove, 0, 0⟩ := by
    rw [Array.getElem?_replicate] at hi
    split at hi
    · exact (Option.some.inj hi).symm
    · cases hi
  subst this
  exact h0

/-! ### the depth-1 invariant -/

/-- a slot of the table of a depth-1 engine -/
def Ent1 (g : Game P M) (e : TEntry M) : Prop :=
  (e.bound = Facts.lowerBound ∧ e.depth = 0) ∨
  (e.bound = Facts.exactBound ∧ e.depth = 1 ∧ ∀ p, g.hash p = e.hash →
    g.over p = false ∧ e.value = negamax g 1 p ∧ ∃ c, g.apply p e.m = .ok c ∧ e.value = -(g.eval c))

abbrev T1 (g : Game P M) (s : Eng M) : Prop := TableAll (Ent1 g) s

theorem t1_new (g : Game P M) (cfg : Cfg) : T1 g (Eng.new g cfg) :=
  tableAll_new g cfg (Or.inl ⟨rfl, rfl⟩)

/-- an entry that suffices for a depth-1 probe is an exact one -/
theorem ent1_suffices {g : Game P M} {e : TEntry M} (he : Ent1 g e) (α β : Int)
    (h : teSuffices e 1 α β = true) :
    ∀ p, g.hash p = e.hash →
      g.over p = false ∧ e.value = negamax g 1 p ∧ ∃ c, g.apply p e.m = .ok c ∧ e.value = -(g.eval c) := by
  rcases he with ⟨hb, hd⟩ | ⟨_, _, hall⟩
  · exfalso
    unfold teSuffices at h
    rw [hb, hd] at h
    simp [Facts.lowerBound, Facts.exactBound, Facts.upperBound] at h
  · exact hall

/-- what the root of a depth-1 search returns -/
def Root1 (g : Game P M) (p : P) (x : Res M × Eng M) : Prop :=
  T1 g x.2 ∧ x.1.2 = negamax g 1 p ∧ ∃ m rest c, x.1.1 = some (m :: rest) ∧ g.apply p m = .ok c ∧ x.1.2 = -(g.eval c)

/-- searches of depth ≤ 0 are the evaluation function -/
def LeafPv (g : Game P M) (f : PvFn P M) : Prop :=
  ∀ c ply depth pv α β s, depth ≤ 0 → f c ply depth pv α β s = .ok (leaf g c (g.over c) s)
def LeafZw (g : Game P M) (f : ZwFn P M) : Prop :=
  ∀ c ply depth pv α cut s, depth ≤ 0 → f c ply depth pv α cut s = .ok (leaf g c (g.over c) s)

theorem pvNode_leaf [DecidableEq M] (g : Game P M) (cfg : SOpts) (o : Oracle M) (frame : Bool)
    (cpv : PvFn P M) (czw : ZwFn P M) : LeafPv g (pvNode g cfg o frame cpv czw) := by
  intro c ply depth pv α β s hd
  unfold pvNode
  have : (decide (depth ≤ 0) || g.over c) = true := by simp [hd]
  simp only [this, if_true]
  rfl

theorem zwNode_leaf [DecidableEq M] (g : Game P M) (cfg : SOpts) (o : Oracle M) (frame : Bool)
    (czw : ZwFn P M) : LeafZw g (zwNode g cfg o frame czw) := by
  intro c ply depth pv α cut s hd
  unfold zwNode
  have : (decide (depth ≤ 0) || g.over c) = true := by simp [hd]
  simp only [this, if_true]
  rfl

theorem search_succ [DecidableEq M] (g : Game P M) (cfg : SOpts) (o : Oracle M) (n : Nat) :
    search g cfg o (n + 1) =
      (pvNode g cfg o true (search g cfg o n).1 (search g cfg o n).2, zwNode g cfg o true (search g cfg o n).2) := rfl

theorem search_leaf [DecidableEq M] (g : Game P M) (cfg : SOpts) (o : Oracle M) (n : Nat) :
    LeafPv g (search g cfg o n).1 ∧ LeafZw g (search g cfg o n).2 := by
  cases n with
  | zero => exact ⟨pvNode_leaf g cfg o false _ _, zwNode_leaf g cfg o false _⟩
  | succ n => exact ⟨pvNode_leaf g cfg o true _ _, zwNode_leaf g cfg o true _⟩

/-- one child of the root of a depth-1 search: its value is the evaluation of the child, the table is untouched -/
theorem pvChild_leaf {g : Game P M} {cpv : PvFn P M} {czw : ZwFn P M} (hp : LeafPv g cpv) (hz : LeafZw g czw)
    {Q : TEntry M → Prop} (i : Nat) (child : P) (ply : Nat) (tail : List M) (α β : Int) (s : Eng M)
    (hs : TableAll Q s) :
    Sat (pvChild cpv czw i child ply 1 tail α β s) (fun x => TableAll Q x.2 ∧ x.1.2 = g.eval child) := by
  unfold pvChild
  split
  · rw [hz child (ply + 1) (1 - 1) tail (-α - 1) true s (by omega)]
    apply Sat.bind
    apply Sat.ok
    dsimp only
    split
    · rw [hp child (ply + 1) (1 - 1) tail (-β) (-α) _ (by omega)]
      exact Sat.ok ⟨hs, rfl⟩
    · exact Sat.pure ⟨hs, rfl⟩
  · rw [hp child (ply + 1) (1 - 1) tail (-β) (-α) s (by omega)]
    exact Sat.ok ⟨hs, rfl⟩

/-- loop invariant at the root of a depth-1 full-window search -/
def Inv1 (g : Game P M) (p : P) (α0 : Int) (a : PvAcc M) (s : Eng M) : Prop :=
  T1 g s ∧ a.α ≤ Facts.maxEval ∧
  ((a.α = α0 ∧ a.improved = false) ∨
   (a.improved = true ∧ α0 < a.α ∧
     ∃ m rest c, a.best = m :: rest ∧ g.apply p m = .ok c ∧ a.α = -(g.eval c)))

def Cov1 (g : Game P M) (a : PvAcc M) (c : P) : Prop := -(g.eval c) ≤ a.α

theorem pvBody1_ok [DecidableEq M] {g : Game P M} (hb : EvalBounded g) {o : Oracle M} {cpv : PvFn P M} {czw : ZwFn P M}
    (hnc : NoCancel o) (hp : LeafPv g cpv) (hz : LeafZw g czw) (p : P) (ply : Nat) (α0 : Int) :
    BodyOK g p (pvBody g o cpv czw ply 1 (Facts.maxEval + 1) false)
      (Inv1 g p α0) (Cov1 g) (fun _ _ => False) (fun _ _ => False) := by
  intro m c a s hap hinv
  obtain ⟨ht, hle, hdisj⟩ := hinv
  unfold pvBody
  simp only [Bool.false_and, Bool.false_eq_true, if_false]
  apply Sat.bind
  intro sm _
  apply Sat.bind
  refine (pvChild_leaf hp hz (a.i + 1) c ply (a.best.drop 1) a.α (Facts.maxEval + 1) { s with stackM := sm } ht).mono ?_
  rintro ⟨⟨ms, v⟩, s'⟩ ⟨ht', hv⟩
  simp only [] at ht' hv ⊢
  have hbc := hb c
  have hmm : Facts.minEval = -Facts.maxEval := by decide
  split
  · rename_i hgt
    apply Sat.bind
    intro pv0 _
    split
    · rename_i hge
      exfalso
      simp only [ge_iff_le] at hge
      omega
    · apply Sat.pure
      rw [afterChild_nc hnc]
      refine ⟨⟨ht', by simp only []; omega, Or.inr ⟨rfl, ?_, m, ms.getD [], c, rfl, hap, ?_⟩⟩, ?_, ?_⟩
      · simp only []
        rcases hdisj with ⟨h1, _⟩ | ⟨_, h1, _⟩ <;> omega
      · simp only []; omega
      · intro c' hc'; unfold Cov1 at hc' ⊢; simp only []; omega
      · intro c' hc'; subst hc'; unfold Cov1; simp only []; omega
  · rename_i hngt
    apply Sat.pure
    rw [afterChild_nc hnc]
    refine ⟨⟨ht', hle, hdisj⟩, fun c' hc' => hc', ?_⟩
    intro c' hc'; subst hc'; unfold Cov1; simp only []; omega

theorem pvInitBest_all {Q : TEntry M → Prop} (ply : Nat) (pv : List M) {s : Eng M} (h : TableAll Q s) :
    Sat (pvInitBest ply pv s) (fun x => TableAll Q x.2) := by
  unfold pvInitBest
  split
  · apply Sat.bind; intro pv0 _; exact Sat.pure h
  · apply Sat.bind; intro x _; exact Sat.pure h

/-- the store at the end of the root node: the new slot content is the exact depth-1 value with its move -/
theorem pvStore1 {g : Game P M} (hinj : HashInj g) (o : Oracle M) (p : P) (a : PvAcc M) {s : Eng M} (h : T1 g s)
    (hov : g.over p = false) (hval : a.α = negamax g 1 p) (himp : a.improved = true)
    (hlt : a.α < Facts.maxEval + 1)
    (hbest : ∃ m rest c, a.best = m :: rest ∧ g.apply p m = .ok c ∧ a.α = -(g.eval c)) :
    Sat (pvStore o (g.hash p) 1 (Facts.maxEval + 1) a s) (fun x => T1 g x.2 ∧ x.1 = (some a.best, a.α)) := by
  unfold pvStore
  apply Sat.bind
  refine (ttPut_all o h (g.hash p)).mono ?_
  rintro ⟨slot?, s1⟩ hs1
  dsimp only at hs1 ⊢
  cases slot? with
  | none => exact Sat.pure ⟨hs1, rfl⟩
  | some slot =>
    dsimp only
    obtain ⟨m, rest, c, hb, hap, hac⟩ := hbest
    split
    · rename_i old b0 tl hold hbb
      have hb0 : b0 = m := by rw [hb] at hbb; cases hbb; rfl
      split
      · refine Sat.pure ⟨?_, rfl⟩
        have hs1' : T1 g (if (!a.improved) = true then
            { s1 with st := { s1.st with allNodes := s1.st.allNodes + 1 } } else s1) := by
          split <;> exact hs1
        refine TableAll.setEntry hs1' slot _ ?_
        right
        refine ⟨?_, rfl, ?_⟩
        · dsimp only
          rw [himp]
          have : ¬ (a.α ≥ Facts.maxEval + 1) := by omega
          simp [this]
        · intro q hq
          dsimp only at hq ⊢
          have : q = p := hinj q p hq
          subst this
          exact ⟨hov, hval, c, by rw [hb0]; exact hap, hac⟩
      · exact Sat.pure ⟨hs1, rfl⟩
    · exact Sat.throw

/-- **the root of a depth-1 search with a table** (full window): exact value, attaining first move, table invariant kept -/
theorem pvNode1 [DecidableEq M] {g : Game P M} (hg : GameOK g) (hb : EvalBounded g) (hinj : HashInj g)
    {cfg : SOpts} (hpr : Precise cfg) {o : Oracle M} (hnc : NoCancel o) (hord : OrderOK o)
    {cpv : PvFn P M} {czw : ZwFn P M} (hp : LeafPv g cpv) (hz : LeafZw g czw)
    (p : P) (hov : g.over p = false) (hkids : kids g p ≠ []) (ply : Nat) (pv : List M) (s : Eng M) (hs : T1 g s) :
    Sat (pvNode g cfg o true cpv czw p ply 1 pv (Facts.minEval - 1) (Facts.maxEval + 1) s) (Root1 g p) := by
  unfold pvNode
  have hnl : (decide ((1 : Int) ≤ 0) || g.over p) = false := by simp [hov]
  simp only [hnl, Bool.false_eq_true, if_false, Bool.not_true]
  have hdd : (cfg.dedupSymmetry && decide (g.moveNumber p < Facts.maxDedup)) = false := by
    rw [hpr.dd]; rfl
  apply Sat.bind
  -- the probe
  have hprobe : ∀ s0 : Eng M, T1 g s0 →
      Sat (ttProbe g p ply 1 (Facts.minEval - 1) (Facts.maxEval + 1) s0) (fun x => T1 g x.2 ∧
        match x.1 with
        | .inl r => Root1 g p (r, x.2)
        | .inr _ => True) := by
    intro s0 hs0
    unfold ttProbe
    apply Sat.bind
    refine (ttGet_all hs0 (g.hash p)).mono ?_
    intro te hte
    cases te with
    | none => exact Sat.pure ⟨hs0, trivial⟩
    | some e =>
      dsimp only
      split
      · rename_i hsuff
        obtain ⟨he1, hh⟩ := hte e rfl
        obtain ⟨_, hval, c, hap, hvc⟩ := ent1_suffices he1 _ _ hsuff p hh.symm
        split
        · apply Sat.bind; intro pv0 _
          rename_i c' hap'
          refine Sat.pure ⟨hs0, hs0, hval, e.m, [], c, rfl, hap, hvc⟩
        · exact Sat.pure ⟨hs0, trivial⟩
        · exact Sat.throw
      · exact Sat.pure ⟨hs0, trivial⟩
  refine (hprobe _ (by exact hs)).mono ?_
  rintro ⟨probe, s0⟩ ⟨hs0, hpr0⟩
  dsimp only at hs0 hpr0 ⊢
  cases probe with
  | inl r => exact Sat.pure hpr0
  | inr te =>
    dsimp only
    apply Sat.bind
    refine Sat.mono (pvInitBest_all ply pv hs0) ?_
    rintro ⟨best, s1⟩ hs1
    simp only [] at hs1 ⊢
    apply Sat.bind
    rw [hdd]
    have hmm : Facts.minEval - 1 ≤ Facts.maxEval := by decide
    have hbody := pvBody1_ok (g := g) hb hnc hp hz p ply (Facts.minEval - 1)
    have hinv0 : Inv1 g p (Facts.minEval - 1) (⟨Facts.minEval - 1, best, false, 0, []⟩ : PvAcc M) s1 :=
      ⟨hs1, hmm, Or.inl ⟨rfl, rfl⟩⟩
    refine (iterate_rule hbody cfg o ⟨ply, 1, te, pv⟩ (hg.gen p) hord
      (fun a s k hi => ⟨hi.1, hi.2.1, hi.2.2⟩) _ s1 hinv0).mono ?_
    rintro ⟨c, s2⟩ hpost
    have hN : negamax g 1 p = maxOver (fun c => -(negamax g 0 c.2)) (Facts.minEval - 1) (kids g p) :=
      negamax_succ g 0 p hov
    cases c with
    | ret r => exact absurd hpost id
    | brk a => exact absurd hpost id
    | next a =>
      obtain ⟨⟨ht2, hle, hdisj⟩, _, hcov⟩ := hpost
      simp only []
      have hub : ∀ x ∈ kids g p, -(negamax g 0 x.2) ≤ a.α := by
        intro x hx
        obtain ⟨hm, hap⟩ := mem_kids.mp (show (x.1, x.2) ∈ kids g p from hx)
        exact hcov x.2 ⟨x.1, hm, hap⟩
      rcases hdisj with ⟨heq, _⟩ | ⟨himp, hgt, m, rest, c, hbest, hap, hval⟩
      · -- some child exists and every child beats MinEval - 1: impossible
        exfalso
        obtain ⟨x, hx, _⟩ := maxOver_attained (fun c => -(negamax g 0 c.2)) (Facts.minEval - 1) (kids g p) hkids
        have h1 := hub x hx
        have h2 := hb x.2
        have hmm2 : Facts.minEval = -Facts.maxEval := by decide
        simp only [negamax_zero] at h1
        omega
      · obtain ⟨m', hm', hap'⟩ := hg.complete p m c hap
        have hmax : a.α = negamax g 1 p := by
          rw [hN]
          exact (maxOver_eq _ _ _ _ hub ⟨(m', c), mem_kids.mpr ⟨hm', hap'⟩, hval⟩).symm
        refine (pvStore1 hinj o p a ht2 hov hmax himp (by omega) ⟨m, rest, c, hbest, hap, hval⟩).mono ?_
        rintro ⟨r, s3⟩ ⟨ht3, hr⟩
        dsimp only at ht3 hr
        subst hr
        exact ⟨ht3, hmax, m, rest, c, by simp only [hbest], hap, hval⟩

/-! ### `Analyze` on a depth-1 engine -/

/-- what `Analyze` of a depth-1 precise engine reports -/
def Exact1 (g : Game P M) (p : P) (x : (List M × Int × Stats) × Eng M) : Prop :=
  T1 g x.2 ∧
  (g.over p = true → x.1.2.1 = 0) ∧
  (g.over p = false → x.1.2.1 = negamax g 1 p ∧
    ∃ m rest c, x.1.1 = m :: rest ∧ g.apply p m = .ok c ∧ x.1.2.1 = -(g.eval c))

theorem analyze_depth1 [DecidableEq M] {g : Game P M} (hg : GameOK g) (he : EvalOK g) (hb : EvalBounded g)
    (hinj : HashInj g) {cfg : Cfg} (hd : cfg.depth = 1) (hpr : Precise cfg.opts)
    {o : Oracle M} (hnc : NoCancel o) (hord : OrderOK o) (p : P) (s : Eng M) (hs : T1 g s) :
    Sat (analyze g cfg o p s) (Exact1 g p) := by
  unfold analyze
  have hget := ttGet_all (s := { s with loads := 0, evals := 0, sorts := 0, rnds := 0, wlog := [] }) hs (g.hash p)
  cases hg' : ttGet { s with loads := 0, evals := 0, sorts := 0, rnds := 0, wlog := [] } (g.hash p) with
  | error e => exact Sat.error
  | ok te =>
    have hte := hget te hg'
    show Sat (analyzeFrom g cfg o p (seedOf te) { s with loads := 0, evals := 0, sorts := 0, rnds := 0, wlog := [] }) _
    -- the seed: an exact entry of this position, or nothing
    have hseed : (∃ e, te = some e ∧ e.bound = Facts.exactBound ∧ seedOf te = (1, [e.m], e.value) ∧
          g.over p = false ∧ e.value = negamax g 1 p ∧ ∃ c, g.apply p e.m = .ok c ∧ e.value = -(g.eval c)) ∨
        seedOf te = (0, [], 0) := by
      cases te with
      | none => right; rfl
      | some e =>
        obtain ⟨he1, hh⟩ := hte e rfl
        by_cases hbe : e.bound = Facts.exactBound
        · rcases he1 with ⟨hlb, _⟩ | ⟨_, hdp, hall⟩
          · rw [hlb] at hbe; exact absurd hbe (by decide)
          · left
            obtain ⟨h1, h2, h3⟩ := hall p hh.symm
            refine ⟨e, rfl, hbe, ?_, h1, h2, h3⟩
            unfold seedOf
            simp [hbe, hdp]
        · right
          unfold seedOf
          simp [hbe]
    unfold analyzeFrom
    rcases hseed with ⟨e, _, _, hsd, hov, hval, c, hap, hvc⟩ | hsd
    · rw [hsd]
      simp only [hd, Int.sub_self, Int.toNat_zero, analyzeLoop]
      refine Sat.ok ⟨hs, (fun h => by rw [hov] at h; cases h), (fun _ => ⟨hval, e.m, [], c, rfl, hap, hvc⟩)⟩
    · rw [hsd]
      have h10 : (cfg.depth - ((0 : Int), ([] : List M), (0 : Int)).1).toNat = 0 + 1 := by rw [hd]; rfl
      rw [h10]
      simp only [analyzeLoop, hd]
      have hle : ¬ ((!decide ((1 : Int) + 0 ≤ 1)) = true) := by decide
      rw [if_neg hle]
      unfold analyzeStep pvSearch
      have hmd : Facts.maxDepth - 0 = 14 + 1 := by decide
      rw [hmd, search_succ]
      simp only [Int.add_zero, Except.bind]
      by_cases hov : g.over p = true
      · -- a finished root: the iteration yields no line and is discarded
        have hleaf := pvNode_leaf g cfg.opts o true (search g cfg.opts o 14).1 (search g cfg.opts o 14).2
        unfold pvNode
        have hl : (decide ((1 : Int) ≤ 0) || g.over p) = true := by simp [hov]
        simp only [hl, if_true]
        refine Sat.ok ⟨?_, (fun _ => rfl), (fun h => by rw [hov] at h; cases h)⟩
        exact hs
      · have hov' : g.over p = false := by simpa using hov
        have hroot := pvNode1 hg hb hinj hpr hnc hord (search_leaf g cfg.opts o 14).1 (search_leaf g cfg.opts o 14).2
          p hov' (he.live p hov') 0 [] { s with loads := 0, evals := 0, sorts := 0, rnds := 0, wlog := [], st := { depth := 1 } } hs
        cases hr : pvNode g cfg.opts o true (search g cfg.opts o 14).1 (search g cfg.opts o 14).2 p 0 1 []
            (Facts.minEval - 1) (Facts.maxEval + 1)
            { s with loads := 0, evals := 0, sorts := 0, rnds := 0, wlog := [], st := { depth := 1 } } with
        | error e => exact Sat.error
        | ok r =>
          obtain ⟨ht, hv, m, rest, c, hpv, hap, hvc⟩ := hroot r hr
          obtain ⟨⟨next, nv⟩, s1⟩ := r
          dsimp only at ht hv hpv hvc
          subst hpv
          simp only [iterEnd, load_nc hnc, Bool.false_eq_true, if_false]
          rcases iterDone_cases cfg 0 1 ⟨[], 0, { depth := 0 }, 0, 0⟩ (m :: rest) nv
            { s1 with loads := s1.loads + 1 } with h | h
          · rw [h]
            exact Sat.ok ⟨ht, (fun h' => by rw [hov'] at h'; cases h'), (fun _ => ⟨hv, m, rest, c, rfl, hap, hvc⟩)⟩
          · rw [h]
            exact Sat.ok ⟨ht, (fun h' => by rw [hov'] at h'; cases h'), (fun _ => ⟨hv, m, rest, c, rfl, hap, hvc⟩)⟩

/-- the table invariant survives any history of calls of a depth-1 precise engine -/
theorem runCalls_t1 [DecidableEq M] {g : Game P M} (hg : GameOK g) (he : EvalOK g) (hb : EvalBounded g)
    (hinj : HashInj g) {cfg : Cfg} (hd : cfg.depth = 1) (hpr : Precise cfg.opts) :
    ∀ (h : History P M) (s : Eng M), (∀ x ∈ h, OrderOK x.2 ∧ NoCancel x.2) → T1 g s →
      Sat (runCalls g cfg h s) (fun x => T1 g x.2) := by
  intro h
  induction h with
  | nil => intro s _ hs; exact Sat.ok hs
  | cons c rest ih =>
    intro s hok hs
    obtain ⟨p, o⟩ := c
    simp only [runCalls]
    have ha := analyze_depth1 hg he hb hinj hd hpr (hok (p, o) (by simp)).2 (hok (p, o) (by simp)).1 p s hs
    cases hr : analyze g cfg o p s with
    | error e => exact Sat.error
    | ok x =>
      have hx := ha x hr
      simp only []
      have hrest := ih x.2 (fun y hy => hok y (by simp [hy])) hx.1
      cases hr2 : runCalls g cfg rest x.2 with
      | error e => exact Sat.error
      | ok y => exact Sat.ok (hrest y hr2)

/-- `negamax 1` is decisive for the mover exactly when some legal move ends the game in the mover's favour -/
theorem negamax1_win_iff {g : Game P M} (he : EvalOK g) (p : P) (hov : g.over p = false) :
    negamax g 1 p > Facts.winThreshold ↔
      ∃ m c, m ∈ g.allMoves p ∧ g.apply p m = .ok c ∧ g.over c = true ∧ g.eval c < -Facts.winThreshold := by
  rw [negamax_succ g 0 p hov]
  have hne := he.live p hov
  constructor
  · intro h
    obtain ⟨x, hx, hmx⟩ := maxOver_attained (fun c => -(negamax g 0 c.2)) (Facts.minEval - 1) (kids g p) hne
    rw [hmx] at h
    simp only [negamax_zero] at h
    obtain ⟨hm, hap⟩ := mem_kids.mp (show (x.1, x.2) ∈ kids g p from hx)
    refine ⟨x.1, x.2, hm, hap, ?_, by omega⟩
    by_cases ho : g.over x.2 = true
    · exact ho
    · have := he.inside x.2 (by simpa using ho)
      omega
  · rintro ⟨m, c, hm, hap, _, hv⟩
    have := maxOver_ge (fun c => -(negamax g 0 c.2)) (Facts.minEval - 1) (kids g p) (m, c) (mem_kids.mpr ⟨hm, hap⟩)
    have h0 : negamax g 0 c = g.eval c := rfl
    dsimp only at this
    rw [h0] at this
    omega

end Search
