import TakVerif.Proofs.TEIClient
import TakVerif.Proofs.TPSCanonical

/-! Lemmas for C17 (client side): the `position tps …` line.  What `FormatTPS` writes (a canonical TPS
string, C10) consists of three non-empty parts without white space, so the engine's tokeniser and
`parsePosition` hand `ParseTPS` exactly the string the client formatted. -/
set_option linter.unusedVariables false
set_option linter.unusedSimpArgs false
namespace Proofs.TEIClient
open Tak Tak.TEI Tak.TEIClient Go Spec.TEIClient Notation Tak.TPS

theorem mem_split_or (sep : UInt8) (s : Bytes) : ∀ b ∈ s, b = sep ∨ ∃ w ∈ split sep s, b ∈ w := by
  induction s with
  | nil => intro b hb; cases hb
  | cons c rest ih =>
    intro b hb
    simp only [split]
    cases hs : split sep rest with
    | nil => exact absurd hs (split_ne_nil sep rest)
    | cons w ws =>
      rw [hs] at ih
      simp only []
      by_cases hc : c = sep
      · subst hc
        simp only [beq_self_eq_true, if_true]
        rcases List.mem_cons.mp hb with e | e
        · exact .inl e
        · rcases ih b e with h | ⟨x, hx, hbx⟩
          · exact .inl h
          · exact .inr ⟨x, List.mem_cons_of_mem _ hx, hbx⟩
      · have : (c == sep) = false := by simpa using hc
        simp only [this, Bool.false_eq_true, if_false]
        rcases List.mem_cons.mp hb with e | e
        · exact .inr ⟨c :: w, by simp, by simp [e]⟩
        · rcases ih b e with h | ⟨x, hx, hbx⟩
          · exact .inl h
          · rcases List.mem_cons.mp hx with e2 | e2
            · subst e2; exact .inr ⟨c :: x, by simp, by simp [hbx]⟩
            · exact .inr ⟨x, by simp [e2], hbx⟩

theorem noWs_colour (b : UInt8) (h : isColourByte b = true) : NoWs b := by
  unfold isColourByte at h
  simp only [Bool.or_eq_true, beq_iff_eq] at h
  rcases h with rfl | rfl <;> decide

/-- a canonical TPS cell contains no white space -/
theorem noWs_cell (cell : Bytes) (w : Nat) (h : cellWidth cell = some w) : ∀ b ∈ cell, NoWs b := by
  rcases cell_cases cell w h with ⟨rfl, _, _⟩ | ⟨d, rfl, h1, h2, _, _⟩ | ⟨hs, _, _, _⟩
  · decide
  · intro b hb
    simp only [List.mem_cons, List.mem_nil_iff, or_false] at hb
    rcases hb with rfl | rfl
    · decide
    · unfold NoWs; omega
  · unfold isStackCell at hs
    simp only [Bool.and_eq_true, decide_eq_true_eq, Bool.or_eq_true, beq_iff_eq] at hs
    obtain ⟨_, hrest⟩ := hs
    intro b hb
    rw [← List.takeWhile_append_dropWhile (p := isColourByte) (l := cell)] at hb
    rcases List.mem_append.mp hb with hb | hb
    · exact noWs_colour b (mem_takeWhile_sat _ _ b hb)
    · rcases hrest with (e | e) | e <;> rw [e] at hb
      · cases hb
      · simp only [List.mem_singleton] at hb; subst hb; decide
      · simp only [List.mem_singleton] at hb; subst hb; decide

theorem mapM_cellWidth_mem : ∀ (cells : List Bytes) (ws : List Nat), cells.mapM cellWidth = some ws →
    ∀ c ∈ cells, ∃ w, cellWidth c = some w := by
  intro cells
  induction cells with
  | nil => intro _ _ c hc; cases hc
  | cons c0 rest ih =>
    intro ws h c hc
    rw [List.mapM_cons] at h
    cases h0 : cellWidth c0 with
    | none => simp [h0] at h
    | some w0 =>
      cases hr : rest.mapM cellWidth with
      | none => simp [h0, hr] at h
      | some wr =>
        rcases List.mem_cons.mp hc with e | e
        · subst e; exact ⟨w0, h0⟩
        · exact ih wr hr c e

theorem noWs_row (n : Nat) (row : Bytes) (h : canonicalRow n row = true) : ∀ b ∈ row, NoWs b := by
  unfold canonicalRow at h
  simp only [] at h
  cases hm : (split 44 row).mapM cellWidth with
  | none => simp [hm] at h
  | some ws =>
    intro b hb
    rcases mem_split_or 44 row b hb with rfl | ⟨cell, hcell, hbc⟩
    · decide
    · obtain ⟨w, hw⟩ := mapM_cellWidth_mem _ ws hm cell hcell
      exact noWs_cell cell w hw b hbc

/-- a canonical TPS string is `board ␣ turn ␣ number` with three non-empty, white-space-free parts -/
theorem canonical_parts (s : Bytes) (h : canonicalTPS s = true) :
    ∃ w0 w1 w2 : Bytes, s = join 32 [w0, w1, w2] ∧
      (∀ w ∈ [w0, w1, w2], w ≠ [] ∧ ∀ b ∈ w, NoWs b) := by
  unfold canonicalTPS at h
  have hjs := join_split 32 s
  cases hsp : split 32 s with
  | nil => simp [hsp] at h
  | cons w0 t0 =>
    cases t0 with
    | nil => simp [hsp] at h
    | cons w1 t1 =>
      cases t1 with
      | nil => simp [hsp] at h
      | cons w2 t2 =>
        cases t2 with
        | cons _ _ => simp [hsp] at h
        | nil =>
          rw [hsp] at h hjs
          simp only [Bool.and_eq_true, decide_eq_true_eq, Bool.or_eq_true, beq_iff_eq, List.all_eq_true] at h
          obtain ⟨⟨⟨⟨hlen3, hlen8⟩, hrows⟩, hturn⟩, hnum⟩ := h
          refine ⟨w0, w1, w2, hjs.symm, ?_⟩
          intro w hw
          simp only [List.mem_cons, List.mem_nil_iff, or_false] at hw
          rcases hw with rfl | rfl | rfl
          · constructor
            · intro e
              subst e
              simp [split] at hlen3
            · intro b hb
              rcases mem_split_or 47 w b hb with rfl | ⟨row, hrow, hbr⟩
              · decide
              · exact noWs_row _ row (hrows row hrow) b hbr
          · rcases hturn with rfl | rfl <;> decide
          · obtain ⟨N, _, _, rfl⟩ := canonicalNumber_decode w hnum
            exact noWs_itoaNat N

theorem lit_append (a b : String) : lit (a ++ b) = lit a ++ lit b := by
  simp [lit, String.toList_append]

/-- the engine's tokeniser on the client's `position` line -/
theorem fields_position_line (w0 w1 w2 : Bytes) (h : ∀ w ∈ [w0, w1, w2], w ≠ [] ∧ ∀ b ∈ w, NoWs b) :
    fields ("position tps " ++ str (join 32 [w0, w1, w2])).toList = ["position", "tps", str w0, str w1, str w2] := by
  have hall : ∀ w ∈ [lit "position", lit "tps", w0, w1, w2], w ≠ [] ∧ ∀ b ∈ w, NoWs b := by
    intro w hw
    simp only [List.mem_cons, List.mem_nil_iff, or_false] at hw
    rcases hw with rfl | rfl | rfl | rfl | rfl
    · decide
    · decide
    · exact h _ (by simp)
    · exact h _ (by simp)
    · exact h _ (by simp)
  have := fields_join _ hall
  have e : ("position tps " ++ str (join 32 [w0, w1, w2])).toList
      = chars (join 32 [lit "position", lit "tps", w0, w1, w2]) := by
    rw [String.toList_append, toList_str]
    simp only [join, chars_append, chars_cons, List.append_assoc]
    rfl
  rw [e, this]
  rfl

/-- `strings.Join(words[1:4], " ")` gives `ParseTPS` the client's string back -/
theorem lit_intercalate3 (w0 w1 w2 : Bytes) :
    lit (" ".intercalate [str w0, str w1, str w2]) = join 32 [w0, w1, w2] := by
  have : (" ".intercalate [str w0, str w1, str w2]) = str w0 ++ " " ++ str w1 ++ " " ++ str w2 := by
    apply String.toList_inj.mp
    simp [String.toList_intercalate, List.intercalate, String.toList_append]
  rw [this]
  simp only [lit_append, lit_str, join, List.append_assoc]
  rfl

/-- `parsePosition` on the tokenised line: `ParseTPS` of the client's string, accepted iff its size is the
configured one -/
theorem parsePosition_tps (basis : Array W) (search : Nat → Pos → Option Int → SearchRes) (size : Int)
    (w0 w1 w2 : Bytes) (p' : Pos) (hsz : size ≠ 0)
    (hp : TPS.parseTPS basis (join 32 [w0, w1, w2]) = .ok p') (hsize : (p'.cfg.size : Int) = size) :
    parsePosition (realEnv basis search) size ["position", "tps", str w0, str w1, str w2] = .ok p' := by
  unfold parsePosition
  simp only [hsz, if_false, List.drop_succ_cons, List.drop_zero]
  have h1 : ("tps" = "startpos") = False := by decide
  simp only [h1, if_false, if_true, List.length_cons, List.length_nil]
  have hlen : ¬ (0 + 1 + 1 + 1 + 1 < 4) := by omega
  simp only [hlen, if_false, List.take_succ_cons, List.take_zero, realEnv, lit_intercalate3, hp, hsize,
    ne_eq, not_true_eq_false, List.drop_succ_cons, List.drop_zero, List.drop_nil]

end Proofs.TEIClient
