import TakVerif.Proofs.LegalShape
import TakVerif.Proofs.PTNRealSafe
import TakVerif.Proofs.PTNIter
import TakVerif.Proofs.PTNLink
import TakVerif.Proofs.ApplyCfg

/-! # PTN records whose moves were legal when played (helpers for `Props/C12_legal.lean`)

* every move of a record that replays without error from its start position is, after `normalize`, a legal
  shape (`applyAll_each` + `apply_legalShape'`), and the start position of any record has size 3..8;
* what the real `ParseMove` returns is already normal and never the pass (`realParseMove_kind`), and so is
  every move of a file the linked `ParsePTN` returns (`parsePTN_moves`). -/
namespace PTN
open Tak Notation Tak.Proofs

set_option linter.unusedSimpArgs false

/-! ## a property of `ParseMove`'s results holds of every move of a parsed file -/

theorem classifyTok_moves (env : Env) (P : Move → Prop) (hpm : ∀ b m, env.parseMove b = .ok m → P m)
    (tok : Bytes) (op : Op) (h : classifyTok env tok = .ok op) :
    ∀ src m mods, op = .move src m mods → P m := by
  intro src m mods hop
  subst hop
  unfold classifyTok at h
  split at h
  · cases h
  · split at h
    · split at h <;> cases h
    · split at h
      · split at h <;> cases h
      · split at h
        · cases h
        · dsimp only at h
          split at h
          · rename_i m' hp
            injection h with h
            injection h with _ hm _
            subst hm
            exact hpm _ _ hp
          · cases h
          · cases h

theorem readMoves_moves (env : Env) (P : Move → Prop) (hpm : ∀ b m, env.parseMove b = .ok m → P m) :
    ∀ fuel rest ops, readMoves env fuel rest = .ok ops → ∀ src m mods, Op.move src m mods ∈ ops → P m := by
  intro fuel
  induction fuel with
  | zero => intro rest ops h; cases h
  | succ n ih =>
    intro rest ops h
    unfold readMoves at h
    split at h
    · cases h; intro s m md hm; cases hm
    · cases h
    · exact ih _ _ h
    · split at h
      · cases h
      · rename_i op hcl
        split at h
        · cases h
        · rename_i ops' hrec
          cases h
          intro s m md hm
          simp only [List.mem_cons] at hm
          rcases hm with hm | hm
          · exact classifyTok_moves env P hpm _ _ hcl s m md hm.symm
          · exact ih _ _ hrec s m md hm

/-- every move of a file `ParsePTN` returns satisfies whatever `ParseMove`'s results satisfy -/
theorem parsePTN_moves (env : Env) (P : Move → Prop) (hpm : ∀ b m, env.parseMove b = .ok m → P m)
    (input : Bytes) (f : File) (h : parsePTN env input = .ok f) :
    ∀ src m mods, Op.move src m mods ∈ f.ops → P m := by
  unfold parsePTN at h
  split at h
  · cases h
  · dsimp only at h
    split at h
    · cases h
    · split at h
      · cases h
      · rename_i ops hrm
        cases h
        exact readMoves_moves env P hpm _ _ _ hrm

/-! ## what the real `ParseMove` returns -/

theorem parseDir_slideType (b : UInt8) (ty : Nat) (h : Tak.PTN.parseDir b = .ok ty) : isSlideType ty = true := by
  unfold Tak.PTN.parseDir at h
  repeat' split at h
  all_goals first
    | (injection h with h; subst h; decide)
    | cases h

theorem parseHead_kind (b0 : UInt8) :
    isPlaceType (Tak.PTN.parseHead b0).1 = true ∨ (Tak.PTN.parseHead b0).2.1 ≠ 0 := by
  unfold Tak.PTN.parseHead
  split
  · left; decide
  · split
    · left; decide
    · split
      · left; decide
      · split
        · rename_i h
          right
          simp only [Tak.PTN.is18, Bool.and_eq_true, decide_eq_true_eq] at h
          show b0.toNat - 48 ≠ 0
          omega
        · left; decide

/-- **`ParseMove` returns only canonical move values**: a placement (flat, standing, capstone) with an empty
`Slides` word, or a slide in one of the four directions — never the pass, never type code 0 -/
theorem realParseMove_kind (b : Bytes) (m : Move) (h : Tak.PTN.parseMove b = .ok m) :
    (isPlaceType m.type = true ∧ m.slides = 0#32) ∨ isSlideType m.type = true := by
  unfold Tak.PTN.parseMove at h
  split at h
  · cases h
  split at h
  · cases h
  rename_i b0 _
  have hh := parseHead_kind b0
  split at h
  rename_i ty stack i hph
  rw [hph] at hh
  dsimp only at hh
  split at h
  · cases h
  split at h
  · cases h
  split at h
  · cases h
  split at h
  · cases h
  split at h
  · cases h
  have hplace : ∀ m0 : Move, m0.type = ty → m0.slides = 0#32 →
      (if stack ≠ 0 then (Except.error (Err.illegal "illegal move") : R Move) else .ok m0) = .ok m →
      (isPlaceType m.type = true ∧ m.slides = 0#32) ∨ isSlideType m.type = true := by
    intro m0 hm0 hs0 hp
    split at hp
    · cases hp
    · rename_i hs
      injection hp with hp
      subst hp
      left
      rw [hm0]
      rcases hh with hh | hh
      · exact ⟨hh, hs0⟩
      · exact absurd hh hs
  dsimp only at h
  split at h
  · exact hplace _ rfl rfl h
  split at h
  · cases h
  split at h
  · exact hplace _ rfl rfl h
  split at h
  · cases h
  · rename_i ty' hdir
    right
    rw [parseDrops_type _ _ _ _ _ h]
    exact parseDir_slideType _ _ hdir

theorem kind_normal_nopass (m : Move)
    (h : (isPlaceType m.type = true ∧ m.slides = 0#32) ∨ isSlideType m.type = true) :
    isNormal m = true ∧ m.type ≠ Facts.mtPass := by
  have tc := types_cases
  rcases h with ⟨hp, hz⟩ | hs
  · refine ⟨by simp [isNormal, hz], ?_⟩
    rcases PTN.placeType_cases _ hp with e | e | e <;> omega
  · refine ⟨by simp [isNormal, isSlideType_isSlide m hs], ?_⟩
    rcases PTN.slideType_cases _ hs with e | e | e | e <;> omega

/-! ## replays -/

/-- when a list of moves applies one after the other, each of them was applied to some position of the same
configuration -/
theorem applyAll_each (basis : Array W) : ∀ (ms : List Move) (p q : Pos), applyAll basis p ms = .ok q →
    ∀ m ∈ ms, ∃ p1 q1 : Pos, p1.cfg = p.cfg ∧ p1.apply basis m = .ok q1
  | [], _, _, _, m, hm => by cases hm
  | m0 :: ms, p, q, h, m, hm => by
    unfold applyAll at h
    cases ha : p.apply basis m0 with
    | error e => rw [ha] at h; cases h
    | ok q0 =>
      rw [ha] at h
      simp only [List.mem_cons] at hm
      rcases hm with rfl | hm
      · exact ⟨p, q0, rfl, ha⟩
      · obtain ⟨p', q', hc, hap⟩ := applyAll_each basis ms q0 q h m hm
        exact ⟨p', q', by rw [hc, apply_cfg ha], hap⟩

theorem mem_movesOf (ops : List Op) (m : Move) : m ∈ movesOf ops ↔ ∃ src mods, Op.move src m mods ∈ ops := by
  induction ops with
  | nil => simp [movesOf]
  | cons op ops ih =>
    cases op with
    | move s m0 md =>
      simp only [movesOf, List.mem_cons, ih]
      constructor
      · rintro (rfl | ⟨s', md', h⟩)
        · exact ⟨s, md, .inl rfl⟩
        · exact ⟨s', md', .inr h⟩
      · rintro ⟨s', md', h | h⟩
        · injection h with _ hm _; exact .inl hm
        · exact .inr ⟨s', md', h⟩
    | moveNumber s n =>
      simp only [movesOf, List.mem_cons, ih, reduceCtorEq, false_or]
    | comment s c =>
      simp only [movesOf, List.mem_cons, ih, reduceCtorEq, false_or]
    | result s r =>
      simp only [movesOf, List.mem_cons, ih, reduceCtorEq, false_or]

/-- the start position of a record is on a board of size 3..8, whatever the TPS parser is -/
theorem initialPosition_size (env : Env) (f : File) (p0 : Pos) (h : initialPosition env f = .ok p0) :
    3 ≤ p0.cfg.size ∧ p0.cfg.size ≤ 8 := by
  unfold initialPosition at h
  dsimp only at h
  split at h
  · cases h
  rename_i size _
  split at h
  · cases h
  rename_i hsz
  split at h
  · unfold Pos.new at h
    split at h
    · cases h
    dsimp only at h
    split at h
    · cases h
    · rename_i hb
      injection h with h
      subst h
      dsimp only at hb ⊢
      omega
  · split at h
    · cases h
    · cases h
    · rename_i out _
      split at h
      · cases h
      · rename_i hne
        injection h with h
        subst h
        simp only [Pos.size, bne_iff_ne, ne_eq, Decidable.not_not] at hne
        omega

/-- a record all of whose moves apply in order from its start position: every one of them, normalised, is a legal
shape of the board's size -/
theorem replay_legalShape (basis : Array W) (ops : List Op) (p0 q : Pos) (h3 : 3 ≤ p0.cfg.size) (h8 : p0.cfg.size ≤ 8)
    (hall : applyAll basis p0 (movesOf ops) = .ok q)
    (hnp : ∀ m ∈ movesOf ops, m.type ≠ Facts.mtPass) :
    ∀ s m mods, Op.move s m mods ∈ ops → LegalShape p0.cfg.size (normalize m) := by
  intro s m mods hop
  have hm : m ∈ movesOf ops := (mem_movesOf ops m).2 ⟨s, mods, hop⟩
  obtain ⟨p', q', hc, hap⟩ := applyAll_each basis _ p0 q hall m hm
  have := apply_legalShape' basis p' m q' (by rw [hc]; exact h3) (by rw [hc]; exact h8) (hnp m hm) hap
  rw [hc] at this
  exact this

end PTN
