import TakVerif.Impl.ServerMove
import TakVerif.Spec.Notation

/-! Lemmas for C11: the three move notations round-trip on every legal move shape. -/
set_option linter.unusedSimpArgs false
namespace Tak
open Go

theorem nibble_split (s : BitVec 32) : ((s >>> 4) <<< 4) ||| (s &&& 0xf#32) = s := by
  apply BitVec.eq_of_getLsbD_eq
  intro i hi
  simp only [BitVec.getLsbD_or, BitVec.getLsbD_shiftLeft, BitVec.getLsbD_ushiftRight, BitVec.getLsbD_and]
  by_cases h4 : i < 4
  · have : (0xf#32).getLsbD i = true := by
      have : i = 0 ∨ i = 1 ∨ i = 2 ∨ i = 3 := by omega
      rcases this with rfl | rfl | rfl | rfl <;> decide
    simp [h4, this]
  · have : (0xf#32).getLsbD i = false := by
      have h : i < 32 := hi
      have : ∀ j : Fin 32, ¬ j.val < 4 → (0xf#32).getLsbD j.val = false := by decide
      exact this ⟨i, h⟩ h4
    have h5 : 4 + (i - 4) = i := by omega
    simp only [h4, decide_false, Bool.not_false, Bool.true_and, this, Bool.and_false, Bool.or_false, hi, decide_true, h5]

theorem mkSlides_cons (d : Nat) (ds : List Nat) :
    mkSlides (d :: ds) = (match mkSlides ds with
      | .error e => .error e
      | .ok out => if d > 8 then .error (.panic "MkSlides: bad drop") else .ok (Slides.prepend out d)) := by
  unfold mkSlides
  rw [List.reverse_cons, List.foldlM_append]
  cases h : (List.foldlM (fun out d => if d > 8 then (Except.error (Err.panic "MkSlides: bad drop") : R (BitVec 32)) else Except.ok (Slides.prepend out d)) 0#32 ds.reverse) with
  | error e => rfl
  | ok out => simp only [List.foldlM_cons, List.foldlM_nil]; split <;> rfl

theorem mkSlides_elems_aux (k : Nat) (s : BitVec 32) (hk : s.toNat < 16 ^ k)
    (h8 : ∀ d ∈ slideElems k s, d ≤ 8) : mkSlides (slideElems k s) = .ok s := by
  induction k generalizing s with
  | zero =>
    have : s = 0#32 := by apply BitVec.eq_of_toNat_eq; simp at hk; simp [hk]
    subst this; rfl
  | succ k ih =>
    unfold slideElems
    split
    · rename_i h0
      have : s = 0#32 := by simpa using h0
      subst this; rfl
    · rename_i h0
      have hmem : ∀ d ∈ slideElems (k+1) s, d ≤ 8 := h8
      unfold slideElems at hmem
      simp only [h0] at hmem
      have hd : (s &&& 0xf#32).toNat ≤ 8 := hmem _ (by simp)
      have hrest : ∀ d ∈ slideElems k (s >>> 4), d ≤ 8 := fun d hd' => hmem d (by simp [hd'])
      have hlt : (s >>> 4).toNat < 16 ^ k := by
        rw [BitVec.toNat_ushiftRight, Nat.shiftRight_eq_div_pow]
        have : 16 ^ (k+1) = 16 ^ k * 16 := Nat.pow_succ ..
        apply Nat.div_lt_of_lt_mul
        rw [Nat.mul_comm] at this
        simpa [this] using hk
      rw [mkSlides_cons, ih (s >>> 4) hlt hrest]
      simp only []
      have : ¬ (s &&& 0xf#32).toNat > 8 := by omega
      simp only [this, if_false]
      congr 1
      unfold Slides.prepend
      rw [BitVec.ofNat_toNat, BitVec.setWidth_eq]
      exact nibble_split s

theorem mkSlides_elems (s : BitVec 32) (h8 : ∀ d ∈ Slides.elems s, d ≤ 8) : mkSlides (Slides.elems s) = .ok s := by
  apply mkSlides_elems_aux 8 s _ h8
  have := s.isLt
  simpa using this

end Tak

namespace Tak
namespace PTN
open Go

/-- what `ParseMove` does once the square has been read -/
def afterSquare (ty stack : Nat) (xc yc : UInt8) (rest : Bytes) : R Move :=
  let m : Move := { x := ((xc.toNat - 97 : Nat) : Int), y := ((yc.toNat - 49 : Nat) : Int), type := ty, slides := 0#32 }
  let placeRet : R Move := if stack ≠ 0 then .error (.illegal "illegal move") else .ok m
  match rest with
  | [] => placeRet
  | bd :: rest' =>
    if isAnnot bd then placeRet else
    match parseDir bd with
    | .error e => .error e
    | .ok ty' => parseDrops m ty' stack rest'

theorem parseHead_lower (b : UInt8) (h : 97 ≤ b.toNat) : parseHead b = (Facts.mtPlaceFlat, 0, 0) := by
  have h1 : (b == 70) = false := by
    apply beq_false_of_ne; intro hb; subst hb; revert h; decide
  have h2 : (b == 83) = false := by
    apply beq_false_of_ne; intro hb; subst hb; revert h; decide
  have h3 : (b == 67) = false := by
    apply beq_false_of_ne; intro hb; subst hb; revert h; decide
  have h4 : is18 b = false := by
    simp only [is18, Bool.and_eq_false_iff, decide_eq_false_iff_not]; omega
  simp [parseHead, h1, h2, h3, h4]

theorem parseMove_noHead (xc yc : UInt8) (rest : Bytes)
    (hx : 97 ≤ xc.toNat ∧ xc.toNat ≤ 104) (hy : 49 ≤ yc.toNat ∧ yc.toNat ≤ 56) :
    parseMove (xc :: yc :: rest) = afterSquare Facts.mtPlaceFlat 0 xc yc rest := by
  unfold parseMove
  have hy18 : is18 yc = true := by simp [is18, hy.1, hy.2]
  have hxr : (decide (97 ≤ xc.toNat) && decide (xc.toNat ≤ 104)) = true := by simp [hx.1, hx.2]
  simp only [List.length_cons, idx, List.getElem?_cons_zero, parseHead_lower xc hx.1]
  cases rest with
  | nil => simp [afterSquare, hy18, hxr]
  | cons bd rest' =>
    simp [afterSquare, hy18, hxr]
    have : ¬ (rest'.length + 1 + 1 + 1 < 2) := by omega
    simp [this]
    rfl

theorem parseMove_head (hc xc yc : UInt8) (rest : Bytes) (ty stack : Nat)
    (hh : parseHead hc = (ty, stack, 1))
    (hx : 97 ≤ xc.toNat ∧ xc.toNat ≤ 104) (hy : 49 ≤ yc.toNat ∧ yc.toNat ≤ 56) :
    parseMove (hc :: xc :: yc :: rest) = afterSquare ty stack xc yc rest := by
  unfold parseMove
  have hy18 : is18 yc = true := by simp [is18, hy.1, hy.2]
  have hxr : (decide (97 ≤ xc.toNat) && decide (xc.toNat ≤ 104)) = true := by simp [hx.1, hx.2]
  simp only [List.length_cons, idx, List.getElem?_cons_zero, hh]
  cases rest with
  | nil => simp [afterSquare, hy18, hxr]
  | cons bd rest' =>
    have : ¬ (rest'.length + 1 + 1 + 1 + 1 < 2) := by omega
    have h2 : ¬ (rest'.length + 1 + 1 + 1 + 1 < 1 + 2) := by omega
    simp [afterSquare, hy18, hxr, this, h2]
    rfl
/-- every byte of the suffix is one of `! ? ' *` -/
def AnnotSuffix (suffix : Bytes) : Prop := ∀ b ∈ suffix, isAnnot b = true

theorem isAnnot_not18 (b : UInt8) (h : isAnnot b = true) : is18 b = false := by
  simp only [isAnnot, Bool.or_eq_true, beq_iff_eq] at h
  rcases h with ((rfl | rfl) | rfl) | rfl <;> decide

def digitsOf (ds : List Nat) : Bytes := ds.map (fun e => UInt8.ofNat (48 + e))

theorem toNat_digit (e : Nat) (h : e ≤ 9) : (UInt8.ofNat (48 + e)).toNat = 48 + e := by
  rw [UInt8.toNat_ofNat']; omega

theorem foldl_add (l : List Nat) (a : Nat) : l.foldl (· + ·) a = a + l.foldl (· + ·) 0 := by
  induction l generalizing a with
  | nil => simp
  | cons d l ih => simp only [List.foldl_cons]; rw [ih (a + d), ih (0 + d)]; omega

theorem dropLoop_digits (ds : List Nat) (suffix : Bytes) (sl : List Nat) (st : Int)
    (hds : ∀ d ∈ ds, 1 ≤ d ∧ d ≤ 8) (hsuf : AnnotSuffix suffix) :
    dropLoop (digitsOf ds ++ suffix) sl st = .ok (sl ++ ds, st - ((ds.foldl (· + ·) 0 : Nat) : Int)) := by
  induction ds generalizing sl st with
  | nil =>
    simp only [digitsOf, List.map_nil, List.nil_append, List.append_nil, List.foldl_nil, Int.natCast_zero, Int.sub_zero]
    cases suffix with
    | nil => rfl
    | cons a t =>
      have ha := hsuf a (by simp)
      simp [dropLoop, isAnnot_not18 a ha, ha]
  | cons d ds ih =>
    have hd := hds d (by simp)
    have hn : (UInt8.ofNat (48 + d)).toNat = 48 + d := toNat_digit d (by omega)
    have h18 : is18 (UInt8.ofNat (48 + d)) = true := by
      simp only [is18, hn, Bool.and_eq_true, decide_eq_true_eq]; omega
    simp only [digitsOf, List.map_cons, List.cons_append, dropLoop, h18, if_true, hn]
    have := ih (sl ++ [48 + d - 48]) (st - ((48 + d - 48 : Nat) : Int)) (fun e he => hds e (by simp [he]))
    simp only [digitsOf] at this
    rw [this]
    simp only [List.foldl_cons]
    rw [foldl_add ds (0 + d)]
    congr 2
    · simp
    · have : 48 + d - 48 = d := by omega
      rw [this]; omega

theorem parseDrops_full (m0 : Move) (ty stack : Nat) (ds : List Nat) (suffix : Bytes) (s : BitVec 32)
    (hds : ∀ d ∈ ds, 1 ≤ d ∧ d ≤ 8) (hsuf : AnnotSuffix suffix)
    (hsum : ds.foldl (· + ·) 0 = (if stack == 0 then 1 else stack)) (hmk : mkSlides ds = .ok s) :
    parseDrops m0 ty stack (digitsOf ds ++ suffix) = .ok { m0 with type := ty, slides := s } := by
  unfold parseDrops
  simp only []
  rw [dropLoop_digits ds suffix [] _ hds hsuf, hsum]
  simp [hmk]

theorem parseDrops_elided (m0 : Move) (ty stack : Nat) (suffix : Bytes) (s : BitVec 32)
    (hsuf : AnnotSuffix suffix)
    (hmk : mkSlides [if stack == 0 then 1 else stack] = .ok s) :
    parseDrops m0 ty stack suffix = .ok { m0 with type := ty, slides := s } := by
  unfold parseDrops
  simp only []
  have := dropLoop_digits [] suffix [] (((if stack == 0 then 1 else stack : Nat)) : Int) (by simp) hsuf
  simp only [digitsOf, List.map_nil, List.nil_append, List.append_nil, List.foldl_nil, Int.natCast_zero, Int.sub_zero] at this
  rw [this]
  have hpos : (((if stack == 0 then 1 else stack : Nat)) : Int) > 0 := by split <;> simp_all <;> omega
  simp only [hpos, if_true, List.nil_append, Int.toNat_natCast, hmk]

theorem byteOfInt_toNat (v : Int) (h0 : 0 ≤ v) (h1 : v < 256) : (byteOfInt v).toNat = v.toNat := by
  unfold byteOfInt
  rw [UInt8.toNat_ofNat']
  have : v % 256 = v := Int.emod_eq_of_lt h0 h1
  rw [this]; omega

open Notation

theorem slideType_cases (t : Nat) (h : isSlideType t = true) :
    t = Facts.mtSlideLeft ∨ t = Facts.mtSlideRight ∨ t = Facts.mtSlideUp ∨ t = Facts.mtSlideDown := by
  simpa [isSlideType, or_assoc] using h

theorem placeType_cases (t : Nat) (h : isPlaceType t = true) :
    t = Facts.mtPlaceFlat ∨ t = Facts.mtPlaceStanding ∨ t = Facts.mtPlaceCapstone := by
  simpa [isPlaceType, or_assoc] using h

theorem legalShape_bounds {size : Nat} {m : Move} (h : LegalShape size m) :
    0 ≤ m.x ∧ m.x < 8 ∧ 0 ≤ m.y ∧ m.y < 8 ∧ 3 ≤ size ∧ size ≤ 8 := by
  unfold LegalShape legalShape at h
  simp only [Bool.and_eq_true, decide_eq_true_eq] at h
  obtain ⟨⟨⟨⟨⟨⟨h3, h8⟩, hx0⟩, hx1⟩, hy0⟩, hy1⟩, _⟩ := h
  refine ⟨hx0, ?_, hy0, ?_, h3, h8⟩ <;> omega

theorem legalShape_kind {size : Nat} {m : Move} (h : LegalShape size m) :
    (isPlaceType m.type = true ∧ m.slides = 0#32) ∨
    (isPlaceType m.type = false ∧ isSlideType m.type = true ∧
      Slides.elems m.slides ≠ [] ∧ (∀ d ∈ Slides.elems m.slides, 1 ≤ d ∧ d ≤ 8) ∧
      (Slides.elems m.slides).foldl (· + ·) 0 ≤ size ∧ ((Slides.elems m.slides).length : Int) ≤ edgeDist size m) := by
  unfold LegalShape legalShape at h
  simp only [Bool.and_eq_true] at h
  obtain ⟨_, h⟩ := h
  by_cases hp : isPlaceType m.type = true
  · left
    simp only [hp, if_true, beq_iff_eq] at h
    exact ⟨hp, h⟩
  · right
    simp only [hp] at h
    by_cases hs : isSlideType m.type = true
    · simp only [hs, if_true, Bool.false_eq_true, if_false, Bool.and_eq_true, Bool.not_eq_true',
        List.isEmpty_eq_false_iff, List.all_eq_true, decide_eq_true_eq] at h
      obtain ⟨⟨⟨h1, h2⟩, h3⟩, h4⟩ := h
      exact ⟨by simpa using hp, hs, h1, h2, h3, h4⟩
    · simp [hs] at h

def dirChar (t : Nat) : UInt8 :=
  if t == Facts.mtSlideLeft then 60 else if t == Facts.mtSlideRight then 62
  else if t == Facts.mtSlideUp then 43 else 45

theorem elems_ne_nil_ne_zero (s : BitVec 32) (h : Slides.elems s ≠ []) : s ≠ 0#32 := by
  intro h0; subst h0; exact h rfl

/-- the text of a slide: `[carry] square direction [drops]` with the elision rules of the short form -/
theorem formatMove_slide (x y : Int) (t : Nat) (s : BitVec 32) (long : Bool)
    (ht : isSlideType t = true) (hs : s ≠ 0#32) :
    formatMove ⟨x, y, t, s⟩ long =
      (if long = true ∨ (Slides.elems s).foldl (· + ·) 0 ≠ 1 then [UInt8.ofNat (48 + (Slides.elems s).foldl (· + ·) 0)] else []) ++
      [byteOfInt (97 + x), byteOfInt (49 + y), dirChar t] ++
      (if long = true ∨ (Slides.elems s).length ≠ 1 then digitsOf (Slides.elems s) else []) := by
  have hs' : (s != 0#32) = true := by simpa using hs
  rcases slideType_cases t ht with rfl | rfl | rfl | rfl <;>
    simp [formatMove, hs', Slides.len, dirChar, digitsOf, Facts.mtSlideLeft, Facts.mtSlideRight, Facts.mtSlideUp,
      Facts.mtSlideDown, Facts.mtPlaceFlat, Facts.mtPlaceCapstone, Facts.mtPlaceStanding] <;>
    split <;> split <;> simp

theorem parseDir_dirChar (t : Nat) (ht : isSlideType t = true) :
    isAnnot (dirChar t) = false ∧ parseDir (dirChar t) = .ok t := by
  rcases slideType_cases t ht with rfl | rfl | rfl | rfl <;> exact ⟨rfl, rfl⟩

theorem sum_single (ds : List Nat) (hds : ∀ d ∈ ds, 1 ≤ d ∧ d ≤ 8) (hlen : ds.length = 1) :
    ds = [ds.foldl (· + ·) 0] := by
  match ds, hlen with
  | [d], _ => simp

theorem sum_one (ds : List Nat) (hne : ds ≠ []) (hds : ∀ d ∈ ds, 1 ≤ d ∧ d ≤ 8) (hsum : ds.foldl (· + ·) 0 = 1) :
    ds.length = 1 := by
  match ds, hne with
  | [d], _ => rfl
  | d :: e :: rest, _ =>
    simp only [List.foldl_cons] at hsum
    rw [foldl_add] at hsum
    have := (hds d (by simp)).1
    have := (hds e (by simp)).1
    omega

theorem slide_rt (size : Nat) (m : Move) (h : LegalShape size m) (hs : isSlideType m.type = true)
    (long : Bool) (suffix : Bytes) (hsuf : AnnotSuffix suffix) :
    parseMove (formatMove m long ++ suffix) = .ok m := by
  obtain ⟨hx0, hx1, hy0, hy1, h3, h8⟩ := legalShape_bounds h
  rcases legalShape_kind h with ⟨hp, _⟩ | ⟨_, _, hne, hds, hsum, _⟩
  · exfalso
    rcases slideType_cases _ hs with h' | h' | h' | h' <;> rw [h'] at hp <;> revert hp <;> decide
  obtain ⟨x, y, t, s⟩ := m
  simp only at hx0 hx1 hy0 hy1 hs hne hds hsum
  rw [formatMove_slide x y t s long hs (elems_ne_nil_ne_zero s hne)]
  have hxc : (byteOfInt (97 + x)).toNat = (97 + x).toNat := byteOfInt_toNat _ (by omega) (by omega)
  have hyc : (byteOfInt (49 + y)).toNat = (49 + y).toNat := byteOfInt_toNat _ (by omega) (by omega)
  have hxr : 97 ≤ (byteOfInt (97 + x)).toNat ∧ (byteOfInt (97 + x)).toNat ≤ 104 := by rw [hxc]; omega
  have hyr : 49 ≤ (byteOfInt (49 + y)).toNat ∧ (byteOfInt (49 + y)).toNat ≤ 56 := by rw [hyc]; omega
  have hxv : (((byteOfInt (97 + x)).toNat - 97 : Nat) : Int) = x := by rw [hxc]; omega
  have hyv : (((byteOfInt (49 + y)).toNat - 49 : Nat) : Int) = y := by rw [hyc]; omega
  obtain ⟨hda, hdp⟩ := parseDir_dirChar t hs
  have hmk := mkSlides_elems s (fun d hd => (hds d hd).2)
  generalize hS : (Slides.elems s).foldl (· + ·) 0 = S at *
  have hS1 : 1 ≤ S := by
    cases hds' : Slides.elems s with
    | nil => exact absurd hds' hne
    | cons d rest =>
      rw [hds'] at hS hds
      simp only [List.foldl_cons] at hS
      rw [foldl_add] at hS
      have := (hds d (by simp)).1
      omega
  by_cases hcarry : long = true ∨ S ≠ 1
  · -- carry digit present
    have hcn : (UInt8.ofNat (48 + S)).toNat = 48 + S := toNat_digit S (by omega)
    have hhead : parseHead (UInt8.ofNat (48 + S)) = (0, S, 1) := by
      have h18 : is18 (UInt8.ofNat (48 + S)) = true := by
        simp only [is18, hcn, Bool.and_eq_true, decide_eq_true_eq]; omega
      have e1 : (UInt8.ofNat (48 + S) == 70) = false := by
        apply beq_false_of_ne; intro hb; have := congrArg UInt8.toNat hb; rw [hcn] at this; revert this; simp; omega
      have e2 : (UInt8.ofNat (48 + S) == 83) = false := by
        apply beq_false_of_ne; intro hb; have := congrArg UInt8.toNat hb; rw [hcn] at this; revert this; simp; omega
      have e3 : (UInt8.ofNat (48 + S) == 67) = false := by
        apply beq_false_of_ne; intro hb; have := congrArg UInt8.toNat hb; rw [hcn] at this; revert this; simp; omega
      simp only [parseHead, e1, e2, e3, h18, hcn, if_true]
      simp
    simp only [hcarry, if_true, List.cons_append, List.nil_append]
    rw [parseMove_head _ _ _ _ 0 S hhead hxr hyr]
    simp only [afterSquare, hda, hdp, hxv, hyv]
    by_cases hdig : long = true ∨ (Slides.elems s).length ≠ 1
    · simp only [hdig, if_true]
      rw [parseDrops_full _ _ _ _ _ s hds hsuf (by rw [hS]; split <;> simp_all <;> omega) hmk]
      simp
    · simp only [hdig, if_false, List.nil_append]
      have hlen : (Slides.elems s).length = 1 := by
        by_cases h1 : (Slides.elems s).length = 1
        · exact h1
        · exact absurd (Or.inr h1) hdig
      have hsingle := sum_single _ hds hlen
      rw [hS] at hsingle
      have hmk' : mkSlides [if (S == 0) = true then 1 else S] = .ok s := by
        have : (if (S == 0) = true then 1 else S) = S := by split <;> simp_all <;> omega
        rw [this, ← hsingle]; exact hmk
      rw [parseDrops_elided _ _ _ _ s hsuf hmk']
      simp
  · -- no carry digit: short form of a single stone
    have hS' : S = 1 := by
      by_cases h1 : S = 1
      · exact h1
      · exact absurd (Or.inr h1) hcarry
    have hl : long = false := by
      cases long
      · rfl
      · exact absurd (Or.inl rfl) hcarry
    subst hS' hl
    have hlen := sum_one _ hne hds hS
    simp only [if_false, List.nil_append, List.cons_append, hlen, Bool.false_eq_true, ne_eq,
      not_true_eq_false, or_self]
    rw [parseMove_noHead _ _ _ hxr hyr]
    simp only [afterSquare, hda, hdp, hxv, hyv]
    have hsingle := sum_single _ hds hlen
    rw [hS] at hsingle
    have hmk' : mkSlides [if (0 == 0) = true then 1 else 0] = .ok s := by
      simp only [beq_self_eq_true, if_true]
      rw [← hsingle]; exact hmk
    rw [parseDrops_elided _ _ _ _ s hsuf hmk']
    simp

theorem afterSquare_place (ty : Nat) (xc yc : UInt8) (suffix : Bytes) (hsuf : AnnotSuffix suffix) :
    afterSquare ty 0 xc yc suffix =
      .ok { x := ((xc.toNat - 97 : Nat) : Int), y := ((yc.toNat - 49 : Nat) : Int), type := ty, slides := 0#32 } := by
  cases suffix with
  | nil => simp [afterSquare]
  | cons a t =>
    have := hsuf a (by simp)
    simp [afterSquare, this]

theorem place_rt (size : Nat) (m : Move) (h : LegalShape size m) (hp : isPlaceType m.type = true)
    (long : Bool) (suffix : Bytes) (hsuf : AnnotSuffix suffix) :
    parseMove (formatMove m long ++ suffix) = .ok m := by
  obtain ⟨hx0, hx1, hy0, hy1, h3, h8⟩ := legalShape_bounds h
  have hz : m.slides = 0#32 := by
    rcases legalShape_kind h with ⟨_, hz⟩ | ⟨hnp, _⟩
    · exact hz
    · rw [hp] at hnp; cases hnp
  obtain ⟨x, y, t, s⟩ := m
  simp only at hx0 hx1 hy0 hy1 hp hz
  subst hz
  have hxc : (byteOfInt (97 + x)).toNat = (97 + x).toNat := byteOfInt_toNat _ (by omega) (by omega)
  have hyc : (byteOfInt (49 + y)).toNat = (49 + y).toNat := byteOfInt_toNat _ (by omega) (by omega)
  have hxr : 97 ≤ (byteOfInt (97 + x)).toNat ∧ (byteOfInt (97 + x)).toNat ≤ 104 := by rw [hxc]; omega
  have hyr : 49 ≤ (byteOfInt (49 + y)).toNat ∧ (byteOfInt (49 + y)).toNat ≤ 56 := by rw [hyc]; omega
  have hxv : (((byteOfInt (97 + x)).toNat - 97 : Nat) : Int) = x := by rw [hxc]; omega
  have hyv : (((byteOfInt (49 + y)).toNat - 49 : Nat) : Int) = y := by rw [hyc]; omega
  rcases placeType_cases t hp with rfl | rfl | rfl
  · cases long
    · have : formatMove ⟨x, y, Facts.mtPlaceFlat, 0#32⟩ false = [byteOfInt (97 + x), byteOfInt (49 + y)] := by
        simp [formatMove, Facts.mtPlaceFlat, Facts.mtSlideLeft, Facts.mtSlideRight, Facts.mtSlideUp, Facts.mtSlideDown]
      rw [this]
      simp only [List.cons_append, List.nil_append]
      rw [parseMove_noHead _ _ _ hxr hyr, afterSquare_place _ _ _ _ hsuf, hxv, hyv]
    · have : formatMove ⟨x, y, Facts.mtPlaceFlat, 0#32⟩ true = [70, byteOfInt (97 + x), byteOfInt (49 + y)] := by
        simp [formatMove, Facts.mtPlaceFlat, Facts.mtSlideLeft, Facts.mtSlideRight, Facts.mtSlideUp, Facts.mtSlideDown]
      rw [this]
      simp only [List.cons_append, List.nil_append]
      rw [parseMove_head _ _ _ _ Facts.mtPlaceFlat 0 rfl hxr hyr, afterSquare_place _ _ _ _ hsuf, hxv, hyv]
  · have : formatMove ⟨x, y, Facts.mtPlaceStanding, 0#32⟩ long = [83, byteOfInt (97 + x), byteOfInt (49 + y)] := by
      simp [formatMove, Facts.mtPlaceFlat, Facts.mtPlaceStanding, Facts.mtPlaceCapstone, Facts.mtSlideLeft,
        Facts.mtSlideRight, Facts.mtSlideUp, Facts.mtSlideDown]
    rw [this]
    simp only [List.cons_append, List.nil_append]
    rw [parseMove_head _ _ _ _ Facts.mtPlaceStanding 0 rfl hxr hyr, afterSquare_place _ _ _ _ hsuf, hxv, hyv]
  · have : formatMove ⟨x, y, Facts.mtPlaceCapstone, 0#32⟩ long = [67, byteOfInt (97 + x), byteOfInt (49 + y)] := by
      simp [formatMove, Facts.mtPlaceFlat, Facts.mtPlaceStanding, Facts.mtPlaceCapstone, Facts.mtSlideLeft,
        Facts.mtSlideRight, Facts.mtSlideUp, Facts.mtSlideDown]
    rw [this]
    simp only [List.cons_append, List.nil_append]
    rw [parseMove_head _ _ _ _ Facts.mtPlaceCapstone 0 rfl hxr hyr, afterSquare_place _ _ _ _ hsuf, hxv, hyv]

/-- both PTN spellings of a legal move shape, followed by any annotation suffix, parse back to the move -/
theorem ptn_rt (size : Nat) (m : Move) (h : LegalShape size m) (long : Bool) (suffix : Bytes)
    (hsuf : AnnotSuffix suffix) : parseMove (formatMove m long ++ suffix) = .ok m := by
  rcases legalShape_kind h with ⟨hp, _⟩ | ⟨_, hs, _⟩
  · exact place_rt size m h hp long suffix hsuf
  · exact slide_rt size m h hs long suffix hsuf


end PTN
end Tak
