import TakVerif.Proofs.SlidesMask

/-! # `AllMoves` as a comprehension (C03, part 3a)

The model `Pos.allMoves` mirrors the Go loops (nested `foldl`s appending to the output slice).  Here it is
rewritten, by proof, as `flatMap`s over the squares: per square either the placements, nothing, or the
slides of the four directions filtered by the edge mask. -/
namespace Tak.Proofs
open Tak Spec

theorem foldl_eq_append_flatMap {α β : Type} (g : List β → α → List β) (f : α → List β)
    (h : ∀ acc a, g acc a = acc ++ f a) (l : List α) (init : List β) :
    l.foldl g init = init ++ l.flatMap f := by
  induction l generalizing init with
  | nil => simp
  | cons a l ih => simp [List.foldl_cons, ih, h, List.flatMap_cons, List.append_assoc]

theorem flatMap_if_singleton {α β : Type} (c : α → Bool) (g : α → β) (l : List α) :
    l.flatMap (fun a => if c a then [g a] else []) = (l.filter c).map g := by
  induction l with
  | nil => rfl
  | cons a l ih =>
    rw [List.flatMap_cons, ih, List.filter_cons]
    cases c a <;> simp

def capFlag (p : Pos) : Bool := if p.toMove == .white then p.whiteCaps != 0#8 else p.blackCaps != 0#8

def placeMoves (p : Pos) (x y : Nat) : List Move :=
  (⟨x, y, Facts.mtPlaceFlat, 0⟩ : Move) ::
    (if p.move ≥ 2 then
      (⟨x, y, Facts.mtPlaceStanding, 0⟩ : Move) :: (if capFlag p then [(⟨x, y, Facts.mtPlaceCapstone, 0⟩ : Move)] else [])
     else [])

def dirList (sz x y : Nat) : List (Nat × Nat) :=
  [(Facts.mtSlideLeft, x), (Facts.mtSlideRight, sz - x - 1), (Facts.mtSlideDown, y), (Facts.mtSlideUp, sz - y - 1)]

def maskOf (c : Nat) : BitVec 32 := ~~~((1#32 <<< (4 * c)) - 1#32)

/-- the carry limit used by `AllMoves` on square `i` -/
def carryAt (p : Pos) (i : Nat) : Nat :=
  if (p.height.getD i 0).toNat > p.cfg.size then p.cfg.size else (p.height.getD i 0).toNat

def slideMoves (p : Pos) (x y : Nat) : List Move :=
  (dirList p.cfg.size x y).flatMap (fun dc =>
    ((slidesTable.getD (carryAt p (y * p.cfg.size + x)) []).filter (fun s => s &&& maskOf dc.2 == 0#32)).map
      (fun s => (⟨x, y, dc.1, s⟩ : Move)))

def sqMoves (p : Pos) (x y : Nat) : List Move :=
  let i := y * p.cfg.size + x
  if p.height.getD i 0 == 0#8 then placeMoves p x y
  else if p.move < 2 then []
  else if p.toMove == .white ∧ !p.white.getLsbD i then []
  else if p.toMove == .black ∧ !p.black.getLsbD i then []
  else slideMoves p x y

theorem allMoves_eq (p : Pos) :
    p.allMoves = (List.range p.cfg.size).flatMap (fun x => (List.range p.cfg.size).flatMap (fun y => sqMoves p x y)) := by
  unfold Pos.allMoves
  simp only []
  rw [foldl_eq_append_flatMap _ (fun x => (List.range p.cfg.size).flatMap (fun y => sqMoves p x y))]
  · simp
  intro acc x
  apply foldl_eq_append_flatMap
  intro acc y
  unfold sqMoves
  simp only []
  by_cases h0 : (p.height.getD (y * p.cfg.size + x) 0 == 0#8) = true
  · simp only [h0, if_true]
    unfold placeMoves capFlag
    by_cases h2 : p.move ≥ 2
    · simp only [h2, if_true]
      split <;> (simp [List.append_assoc]; split <;> simp)
    · simp only [h2, if_false]
  simp only [h0]
  by_cases h1 : p.move < 2
  · simp [h1]
  simp only [h1, if_false]
  by_cases h2 : (p.toMove == Color.white) = true ∧ (!BitVec.getLsbD p.white (y * p.cfg.size + x)) = true
  · simp [h2]
  simp only [h2, if_false]
  by_cases h3 : (p.toMove == Color.black) = true ∧ (!BitVec.getLsbD p.black (y * p.cfg.size + x)) = true
  · simp [h3]
  simp only [h3, if_false]
  unfold slideMoves dirList carryAt maskOf
  apply foldl_eq_append_flatMap
  intro acc dc
  rw [← flatMap_if_singleton]
  apply foldl_eq_append_flatMap
  intro acc s
  split <;> simp

end Tak.Proofs
