import TakVerif.Proofs.EvalArith

/-! The explicit bound `B w n` on the heuristic part of `evaluate` and its proof, feature by feature. -/
namespace C18
open Tak

/-! ### the bound -/

/-- one square of the `Height` loop: hard-top bonus, capstone mobility (≤ 64 squares), throw counts
(≤ 64 each), captives (`|hf|, |sf| ≤ 255` for a `uint8` height) -/
def Bsquare (w : Weights) : Int :=
  ab (w.at Facts.fHardTopCap) + 64 * ab (w.at Facts.fCapMobility)
  + (64 * ab (w.at Facts.fThrowMine) + 64 * ab (w.at Facts.fThrowTheirs) + 64 * ab (w.at Facts.fThrowEmpty))
  + (255 * ab (w.at Facts.fStandingCaptivesHard) + 255 * ab (w.at Facts.fStandingCaptivesSoft))
  + (255 * ab (w.at Facts.fCapstoneCaptivesHard) + 255 * ab (w.at Facts.fCapstoneCaptivesSoft))
  + (255 * ab (w.at Facts.fFlatCaptivesHard) + 255 * ab (w.at Facts.fFlatCaptivesSoft))

/-- `|w[lo]| + … + |w[lo+n-1]|` -/
def absSum (w : Weights) (lo : Nat) : Nat → Int
  | 0 => 0
  | n+1 => ab (w.at (lo + n)) + absSum w lo n

/-- whatever entry the computed index `Groups + width` can select without a panic: `Groups … MaxFeature-1`.
(With connected groups of an unfinished game the width is ≤ size and only `Groups_1 … Groups_8` are
reachable; the bound does not rely on that.) -/
def Bgroupw (w : Weights) : Int := absSum w Facts.fGroups (Facts.maxFeature - Facts.fGroups)

/-- `FloodGroups` visits at most 65 seeds, so it returns at most 65 groups (the true maximum is 32) -/
def maxGroups : Nat := 65

/-- `scoreGroups` for one colour -/
def Bgroups (w : Weights) : Int := (maxGroups : Int) * (2 * Bgroupw w) + 64 * ab (w.at Facts.fGroupLiberties)

/-- `scoreThreats`: `ForcedWin`, or counts (≤ 64 per group) times the two weights -/
def Bthreats (w : Weights) : Int :=
  Facts.forcedWin + ((maxGroups * 64 : Nat) : Int) * ab (w.at Facts.fPotential)
    + ((maxGroups * 64 : Nat) : Int) * ab (w.at Facts.fThreat)

def Bcontrol (w : Weights) : Int :=
  64 * ab (w.at Facts.fEmptyControl) + 64 * ab (w.at Facts.fFlatControl) + 64 * ab (w.at Facts.fCenterControl)

def Bmaterial (w : Weights) : Int :=
  128 * ab (w.at Facts.fTopFlat) + 128 * ab (w.at Facts.fStanding) + 128 * ab (w.at Facts.fCapstone)
    + 128 * ab (w.at Facts.fCenter)

def Btempo (w : Weights) : Int := ab (w.at Facts.fTopFlat) + ab (w.at Facts.fTempo)

def Blib (w : Weights) : Int := 128 * ab (w.at Facts.fLiberties)

/-- the bound on `|evaluate c w p|` for an unfinished game on a board of `n` squares: linear in the `|w f|` -/
def B (w : Weights) (n : Nat) : Int :=
  Btempo w + Bmaterial w + (n : Int) * Bsquare w + 2 * Bgroups w + Blib w + Bthreats w + Bcontrol w

/-! ### per-square part -/

theorem sqSign_cases (p : Pos) (i : Nat) : sqSign p i = 1 ∨ sqSign p i = -1 := by
  unfold sqSign; split <;> simp

theorem height_lt (p : Pos) (i : Nat) : ((p.height.getD i 0).toNat : Int) < 256 := by
  have := (p.height.getD i 0).isLt; omega

theorem hardCount_bounds (c : Consts) (p : Pos) (i : Nat) : -255 ≤ hardCount c p i ∧ hardCount c p i ≤ 255 := by
  have hp := popcount_int (captiveBits c p i)
  have hh := height_lt p i
  unfold hardCount; simp only []; split <;> omega

theorem softCount_bounds (c : Consts) (p : Pos) (i : Nat) : -255 ≤ softCount c p i ∧ softCount c p i ≤ 255 := by
  have hp := popcount_int (captiveBits c p i)
  have hh := height_lt p i
  unfold softCount; simp only []; split <;> omega

theorem capPart_bound (c : Consts) (w : Weights) (p : Pos) (i : Nat) :
    -(ab (w.at Facts.fHardTopCap) + 64 * ab (w.at Facts.fCapMobility)) ≤ capPart c w p i ∧
    capPart c w p i ≤ ab (w.at Facts.fHardTopCap) + 64 * ab (w.at Facts.fCapMobility) := by
  have h1 := ab_nonneg (w.at Facts.fHardTopCap)
  have h2 := ab_nonneg (w.at Facts.fCapMobility)
  unfold capPart
  split
  · have hs := sqSign_cases p i
    have hm := popcount_int (mobility c p (bit i) ((p.height.getD i 0).toNat : Int))
    have hmob := mul_bound' (popcount (mobility c p (bit i) ((p.height.getD i 0).toNat : Int)) : Int)
      (w.at Facts.fCapMobility) 64 (by omega) (by omega)
    have hmob2 := sign_mul_bound (sqSign p i) _ _ hs hmob
    rw [← Int.mul_assoc] at hmob2
    have hhard := sign_mul_bound (sqSign p i) (w.at Facts.fHardTopCap) (ab (w.at Facts.fHardTopCap)) hs
      (ab_bounds _)
    simp only []
    split <;> omega
  · omega

theorem throwPart_bound (c : Consts) (w : Weights) (p : Pos) (i : Nat) :
    -(64 * ab (w.at Facts.fThrowMine) + 64 * ab (w.at Facts.fThrowTheirs) + 64 * ab (w.at Facts.fThrowEmpty))
      ≤ throwPart c w p i ∧
    throwPart c w p i ≤
      64 * ab (w.at Facts.fThrowMine) + 64 * ab (w.at Facts.fThrowTheirs) + 64 * ab (w.at Facts.fThrowEmpty) := by
  have h1 := ab_nonneg (w.at Facts.fThrowMine)
  have h2 := ab_nonneg (w.at Facts.fThrowTheirs)
  have h3 := ab_nonneg (w.at Facts.fThrowEmpty)
  unfold throwPart
  simp only []
  split
  · generalize mobility c p (bit i) (hardCount c p i) = t
    have a1 := popcount_int (t &&& p.white)
    have a2 := popcount_int (t &&& p.black)
    have a3 := popcount_int (t &&& ~~~(p.white ||| p.black))
    have m1 := mul_bound' (popcount (t &&& p.white) : Int) (w.at Facts.fThrowMine) 64 (by omega) (by omega)
    have m2 := mul_bound' (popcount (t &&& p.black) : Int) (w.at Facts.fThrowMine) 64 (by omega) (by omega)
    have t1 := mul_bound' (popcount (t &&& p.white) : Int) (w.at Facts.fThrowTheirs) 64 (by omega) (by omega)
    have t2 := mul_bound' (popcount (t &&& p.black) : Int) (w.at Facts.fThrowTheirs) 64 (by omega) (by omega)
    have e1 := mul_bound' (popcount (t &&& ~~~(p.white ||| p.black)) : Int) (w.at Facts.fThrowEmpty) 64 (by omega) (by omega)
    split <;> omega
  · omega

theorem captivePart_bound (c : Consts) (w : Weights) (p : Pos) (i : Nat) :
    -((255 * ab (w.at Facts.fStandingCaptivesHard) + 255 * ab (w.at Facts.fStandingCaptivesSoft))
      + (255 * ab (w.at Facts.fCapstoneCaptivesHard) + 255 * ab (w.at Facts.fCapstoneCaptivesSoft))
      + (255 * ab (w.at Facts.fFlatCaptivesHard) + 255 * ab (w.at Facts.fFlatCaptivesSoft)))
      ≤ captivePart c w p i ∧
    captivePart c w p i ≤
      (255 * ab (w.at Facts.fStandingCaptivesHard) + 255 * ab (w.at Facts.fStandingCaptivesSoft))
      + (255 * ab (w.at Facts.fCapstoneCaptivesHard) + 255 * ab (w.at Facts.fCapstoneCaptivesSoft))
      + (255 * ab (w.at Facts.fFlatCaptivesHard) + 255 * ab (w.at Facts.fFlatCaptivesSoft)) := by
  have n1 := ab_nonneg (w.at Facts.fStandingCaptivesHard)
  have n2 := ab_nonneg (w.at Facts.fStandingCaptivesSoft)
  have n3 := ab_nonneg (w.at Facts.fCapstoneCaptivesHard)
  have n4 := ab_nonneg (w.at Facts.fCapstoneCaptivesSoft)
  have n5 := ab_nonneg (w.at Facts.fFlatCaptivesHard)
  have n6 := ab_nonneg (w.at Facts.fFlatCaptivesSoft)
  have hh := hardCount_bounds c p i
  have hs := softCount_bounds c p i
  have sg := sqSign_cases p i
  have key : ∀ wh wsf : Int,
      -(255 * ab wh + 255 * ab wsf) ≤ sqSign p i * (hardCount c p i * wh + softCount c p i * wsf) ∧
      sqSign p i * (hardCount c p i * wh + softCount c p i * wsf) ≤ 255 * ab wh + 255 * ab wsf := by
    intro wh wsf
    have b1 := mul_bound (hardCount c p i) wh 255 (by omega) (by omega)
    have b2 := mul_bound (softCount c p i) wsf 255 (by omega) (by omega)
    exact sign_mul_bound _ _ _ sg (by omega)
  have k1 := key (w.at Facts.fStandingCaptivesHard) (w.at Facts.fStandingCaptivesSoft)
  have k2 := key (w.at Facts.fCapstoneCaptivesHard) (w.at Facts.fCapstoneCaptivesSoft)
  have k3 := key (w.at Facts.fFlatCaptivesHard) (w.at Facts.fFlatCaptivesSoft)
  unfold captivePart
  simp only []
  split
  · omega
  · split <;> omega

theorem Bsquare_nonneg (w : Weights) : 0 ≤ Bsquare w := by
  unfold Bsquare
  have := ab_nonneg (w.at Facts.fHardTopCap)
  have := ab_nonneg (w.at Facts.fCapMobility)
  have := ab_nonneg (w.at Facts.fThrowMine)
  have := ab_nonneg (w.at Facts.fThrowTheirs)
  have := ab_nonneg (w.at Facts.fThrowEmpty)
  have := ab_nonneg (w.at Facts.fStandingCaptivesHard)
  have := ab_nonneg (w.at Facts.fStandingCaptivesSoft)
  have := ab_nonneg (w.at Facts.fCapstoneCaptivesHard)
  have := ab_nonneg (w.at Facts.fCapstoneCaptivesSoft)
  have := ab_nonneg (w.at Facts.fFlatCaptivesHard)
  have := ab_nonneg (w.at Facts.fFlatCaptivesSoft)
  omega

theorem squareScore_bound (c : Consts) (w : Weights) (p : Pos) (i : Nat) :
    -(Bsquare w) ≤ squareScore c w p i ∧ squareScore c w p i ≤ Bsquare w := by
  have h0 := Bsquare_nonneg w
  unfold squareScore
  split
  · omega
  · have a := capPart_bound c w p i
    have b := throwPart_bound c w p i
    have d := captivePart_bound c w p i
    unfold Bsquare; omega

theorem stacks_bound (c : Consts) (w : Weights) (p : Pos) (n : Nat) :
    -((n : Int) * Bsquare w) ≤ ((List.range n).map (squareScore c w p)).sum ∧
    ((List.range n).map (squareScore c w p)).sum ≤ (n : Int) * Bsquare w := by
  have := sum_map_bound (List.range n) (squareScore c w p) (Bsquare w)
    (fun x _ => squareScore_bound c w p x)
  simpa using this

end C18
