import TakVerif.Proofs.PTNScan

/-! Why the safety predicate is necessary.

1. Whatever the input, every op `ParsePTN` returns has representable characters (`opShape`) and every comment
   fits the window; every tag it returns has a name without space / `]` and a value without `]`.  So a value
   with an op outside `opShape` can never come back from `ParsePTN`.
2. If `ParsePTN` reads the rendered tags back unchanged then every tag was `tagSafe` (the quote clause included:
   `Render` drops quotes).
3. With `parse_render_exact` (tokens that do not fit give `ErrTooLong`) this makes `dataSafe` necessary and
   sufficient for a value whose moves are `moveSafe`. -/
namespace PTN
open Tak

/-! ### list helpers -/

theorem takeWhile_append_stop {α} (p : α → Bool) (l1 : List α) (a : α) (l2 : List α) (ha : p a = false) :
    (l1 ++ a :: l2).takeWhile p = l1.takeWhile p := by
  induction l1 with
  | nil => simp [List.takeWhile_cons, ha]
  | cons b l ih =>
    simp only [List.cons_append, List.takeWhile_cons]
    split
    · rw [ih]
    · rfl

theorem all_of_takeWhile_eq_self {α} (p : α → Bool) (l : List α) (h : l.takeWhile p = l) : ∀ b ∈ l, p b = true := by
  induction l with
  | nil => intro b hb; cases hb
  | cons a l ih =>
    simp only [List.takeWhile_cons] at h
    split at h
    · rename_i hp
      injection h with _ h
      intro b hb
      simp only [List.mem_cons] at hb
      rcases hb with rfl | hb
      · exact hp
      · exact ih h b hb
    · cases h

theorem mem_takeWhile_imp {α} (p : α → Bool) (l : List α) (b : α) (h : b ∈ l.takeWhile p) : p b = true ∧ b ∈ l := by
  induction l with
  | nil => cases h
  | cons a l ih =>
    simp only [List.takeWhile_cons] at h
    split at h
    · rename_i hp
      simp only [List.mem_cons] at h
      rcases h with rfl | h
      · exact ⟨hp, by simp⟩
      · exact ⟨(ih h).1, by simp [(ih h).2]⟩
    · cases h

theorem mem_dropWhile_imp {α} (p : α → Bool) (l : List α) (b : α) (h : b ∈ l.dropWhile p) : b ∈ l := by
  induction l with
  | nil => cases h
  | cons a l ih =>
    simp only [List.dropWhile_cons] at h
    split at h
    · exact List.mem_cons_of_mem _ (ih h)
    · exact h

theorem mem_trimRight (s : Bytes) (cut : UInt8 → Bool) (b : UInt8) (h : b ∈ trimRight s cut) : b ∈ s := by
  unfold trimRight at h
  have := mem_dropWhile_imp cut s.reverse b (by simpa using h)
  simpa using this

theorem mem_trim (s : Bytes) (cut : UInt8 → Bool) (b : UInt8) (h : b ∈ trim s cut) : b ∈ s := by
  unfold trim at h
  exact mem_dropWhile_imp cut s b (mem_trimRight _ _ _ h)

/-- what `TrimRight` removes consists of cutset bytes -/
theorem trimRight_removed (s : Bytes) (cut : UInt8 → Bool) :
    ∀ b ∈ s.drop (trimRight s cut).length, cut b = true := by
  intro b hb
  have hsplit : s.reverse = s.reverse.takeWhile cut ++ s.reverse.dropWhile cut := (List.takeWhile_append_dropWhile).symm
  have hs : s = (s.reverse.dropWhile cut).reverse ++ (s.reverse.takeWhile cut).reverse := by
    have := congrArg List.reverse hsplit
    rw [List.reverse_reverse, List.reverse_append] at this
    exact this
  have hdrop : ∀ (a t : Bytes), s = a ++ t → s.drop a.length = t := by
    rintro a t rfl; exact drop_append_length a t
  have hd := hdrop _ _ hs
  unfold trimRight at hb
  rw [hd] at hb
  exact (mem_takeWhile_imp cut _ b (by simpa using hb)).1

theorem length_takeWhile_le' {α} (p : α → Bool) (l : List α) : (l.takeWhile p).length ≤ l.length := by
  induction l with
  | nil => simp
  | cons a l ih =>
    simp only [List.takeWhile_cons]
    split
    · simp only [List.length_cons]; omega
    · simp

/-! ### what `ParsePTN` can return -/

/-- the comment of a comment op fits the scanner's window -/
def commentFits : Op → Bool
  | .comment _ c => decide (c.length + 2 ≤ maxScanTokenSize)
  | _ => true

/-- what every op that `ParsePTN` returns satisfies -/
def parsedOK (op : Op) : Bool := opShape op && commentFits op

theorem atoi_range (s : Bytes) (n : Int) (h : atoi s = some n) : -(2 ^ 63 : Int) ≤ n ∧ n < 2 ^ 63 := by
  unfold atoi at h
  extract_lets sd v at h
  clear_value v sd
  split at h
  · cases h
  · split at h
    · split at h
      · injection h with h; subst h; constructor <;> omega
      · cases h
    · split at h
      · injection h with h; subst h; constructor <;> omega
      · cases h

/-- shape of a token handed out by the split function: it lies inside the buffer; a token that starts with `{`
is text without `}` followed by `}` (or, at the end of the input, text without any `}`) -/
theorem splitMoves_shape (buf : Bytes) (atEOF : Bool) (adv : Nat) (tok : Bytes)
    (h : splitMoves buf atEOF = ⟨adv, some tok⟩) :
    tok.length ≤ buf.length ∧
    (tok.head? = some 123 → ∃ pre, (∀ b ∈ pre, (b != 125) = true) ∧ (tok = pre ++ [125] ∨ tok = pre)) := by
  unfold splitMoves at h
  extract_lets body start pre1 pre2 at h
  have hlen : body.length ≤ buf.length := length_dropWhile_le _ _
  have hbody : buf.dropWhile isSpace = body := rfl
  clear_value body
  cases body with
  | nil => simp at h
  | cons c cs =>
    have hc : isSpace c = false := head_dropWhile_not _ _ _ _ hbody
    have hpre1 : pre1 = (c :: cs).takeWhile (· != 125) := rfl
    have hpre2 : pre2 = (c :: cs).takeWhile (fun b => !isSpace b) := rfl
    have hsplit1 : c :: cs = pre1 ++ (c :: cs).dropWhile (· != 125) := by
      rw [hpre1]; exact (List.takeWhile_append_dropWhile).symm
    have hall1 : ∀ b ∈ pre1, (b != 125) = true := fun b hb => by
      rw [hpre1] at hb; exact (mem_takeWhile_imp _ _ b hb).1
    have hlen2 : pre2.length ≤ (c :: cs).length := by rw [hpre2]; exact length_takeWhile_le' _ _
    have hhd2 : pre2.head? = some c := by
      rw [hpre2]; simp [List.takeWhile_cons, hc]
    clear_value pre1 pre2
    dsimp only at h
    split at h
    · -- a comment
      split at h
      · rename_i hlt
        simp only [Split.mk.injEq, Option.some.injEq] at h
        obtain ⟨_, h2⟩ := h
        refine ⟨by rw [← h2, List.length_take]; omega, fun _ => ⟨pre1, hall1, Or.inl ?_⟩⟩
        -- the byte after `pre1` is the first `}`
        cases hdw : (c :: cs).dropWhile (· != 125) with
        | nil =>
          rw [hdw, List.append_nil] at hsplit1
          rw [← hsplit1] at hlt; omega
        | cons d r =>
          have hd : ((d != 125) = true) = False := by
            have := head_dropWhile_not _ _ _ _ hdw
            simp [this]
          have hd' : d = 125 := by simpa using hd
          rw [hdw] at hsplit1
          rw [← h2, hsplit1, take_append_ge _ _ _ (by omega)]
          simp [hd']
      · rename_i hnlt
        split at h
        · simp only [Split.mk.injEq, Option.some.injEq] at h
          obtain ⟨_, h2⟩ := h
          refine ⟨by rw [← h2]; exact hlen, fun _ => ⟨pre1, hall1, Or.inr ?_⟩⟩
          -- nothing was dropped
          cases hdw : (c :: cs).dropWhile (· != 125) with
          | nil => rw [hdw, List.append_nil] at hsplit1; rw [← h2]; exact hsplit1
          | cons d r =>
            rw [hdw] at hsplit1
            have := congrArg List.length hsplit1
            simp only [List.length_append, List.length_cons] at this hnlt
            omega
        · simp at h
    · rename_i hc123
      have hne : c ≠ 123 := by simpa using hc123
      split at h
      · simp only [Split.mk.injEq, Option.some.injEq] at h
        obtain ⟨_, h2⟩ := h
        refine ⟨by rw [← h2]; omega, fun hh => ?_⟩
        rw [← h2, hhd2] at hh
        injection hh with hh; exact absurd hh hne
      · split at h
        · simp only [Split.mk.injEq, Option.some.injEq] at h
          obtain ⟨_, h2⟩ := h
          refine ⟨by rw [← h2]; exact hlen, fun hh => ?_⟩
          rw [← h2] at hh
          simp only [List.head?_cons, Option.some.injEq] at hh
          exact absurd hh hne
        · simp at h

/-- the same for a token of the scanner: it is at most one window long -/
theorem scanStep_shape (rest tok rest' : Bytes) (h : scanStep rest = .token tok rest') :
    tok.length ≤ maxScanTokenSize ∧
    (tok.head? = some 123 → ∃ pre, (∀ b ∈ pre, (b != 125) = true) ∧ (tok = pre ++ [125] ∨ tok = pre)) := by
  unfold scanStep at h
  extract_lets window atEOF sp at h
  have hsp : splitMoves window atEOF = sp := rfl
  have hwin : window.length ≤ maxScanTokenSize := List.length_take_le _ _
  clear_value sp window
  obtain ⟨adv, token⟩ := sp
  dsimp only at h
  cases token with
  | none =>
    dsimp only at h
    split at h
    · cases h
    · split at h <;> cases h
  | some t =>
    dsimp only at h
    cases h
    obtain ⟨h1, h2⟩ := splitMoves_shape _ _ _ _ hsp
    exact ⟨by omega, h2⟩

/-- every op the token switch produces has representable characters, and a comment fits the window -/
theorem classifyTok_parsed (env : Env) (tok : Bytes) (op : Op)
    (hlen : tok.length ≤ maxScanTokenSize)
    (hshape : tok.head? = some 123 → ∃ pre, (∀ b ∈ pre, (b != 125) = true) ∧ (tok = pre ++ [125] ∨ tok = pre))
    (h : classifyTok env tok = .ok op) : parsedOK op = true := by
  unfold classifyTok at h
  split at h
  · cases h
  · rename_i c cs
    split at h
    · rename_i hc
      have hc' : c = 123 := by simpa using hc
      subst hc'
      split at h
      · cases h
      · rename_i hok
        injection h with h
        subst h
        obtain ⟨pre, hpre, hcase⟩ := hshape rfl
        have hl2 : 2 ≤ (123 :: cs).length ∧ (123 :: cs).getLast? = some 125 := by
          constructor
          · rcases Nat.lt_or_ge (123 :: cs : Bytes).length 2 with hh | hh
            · exact absurd (Or.inl hh) hok
            · exact hh
          · cases hg : (123 :: cs : Bytes).getLast? with
            | none => simp at hg
            | some l =>
              by_cases hl : l = 125
              · rw [hl]
              · exfalso; apply hok; right; rw [hg]; simpa using hl
        rcases hcase with hcase | hcase
        · -- `{` text `}`
          cases pre with
          | nil =>
            simp only [List.nil_append] at hcase
            injection hcase with h1 _
            exact absurd h1 (by decide)
          | cons p0 pre' =>
            simp only [List.cons_append] at hcase
            injection hcase with h1 h2
            subst h1
            have hcm : (List.drop 1 (123 :: cs)).take ((123 :: cs).length - 2) = pre' := by
              rw [h2]; simp
            have hall : ∀ b ∈ pre', (b != 125) = true := fun b hb => hpre b (by simp [hb])
            simp only [parsedOK, opShape, commentFits, Bool.and_eq_true, decide_eq_true_eq, hcm]
            refine ⟨List.all_eq_true.mpr hall, ?_⟩
            rw [h2] at hlen
            simp only [List.length_cons, List.length_append, List.length_nil] at hlen
            omega
        · -- no `}` at all: not a comment
          exfalso
          have hmem : (125 : UInt8) ∈ (123 :: cs : Bytes) := List.mem_of_getLast? hl2.2
          rw [hcase] at hmem
          have := hpre 125 hmem
          revert this; decide
    · split at h
      · split at h
        · cases h
        · rename_i n hn
          injection h with h
          subst h
          have := atoi_range _ _ hn
          simp only [parsedOK, opShape, commentFits, Bool.and_eq_true, decide_eq_true_eq, and_true]
          exact this
      · split at h
        · rename_i hm
          injection h with h
          subst h
          simp only [parsedOK, opShape, commentFits, Bool.and_true]
          exact hm
        · dsimp only at h
          split at h
          · injection h with h
            subst h
            simp only [parsedOK, opShape, commentFits, Bool.and_true]
            exact List.all_eq_true.mpr (trimRight_removed _ _)
          · cases h
          · cases h

theorem readMoves_parsed (env : Env) : ∀ fuel rest ops, readMoves env fuel rest = .ok ops →
    ∀ op ∈ ops, parsedOK op = true := by
  intro fuel
  induction fuel with
  | zero => intro rest ops h; cases h
  | succ n ih =>
    intro rest ops h
    unfold readMoves at h
    split at h
    · cases h; intro op hm; cases hm
    · cases h
    · exact ih _ _ h
    · rename_i tok rest' hscan
      split at h
      · cases h
      · rename_i op hcl
        split at h
        · cases h
        · rename_i ops' hrec
          cases h
          intro o hm
          simp only [List.mem_cons] at hm
          rcases hm with rfl | hm
          · obtain ⟨h1, h2⟩ := scanStep_shape _ _ _ hscan
            exact classifyTok_parsed env _ _ h1 h2 hcl
          · exact ih _ _ hrec o hm

/-- a tag as `readEvents` can return it: no space or `]` in the name, no `]` in the value -/
def tagParsed (t : Tag) : Bool :=
  t.name.all (fun b => b != 32 && b != 93) && t.value.all (fun b => b != 93)

theorem readEvents_parsed : ∀ fuel inp tags rest, readEvents fuel inp = .ok (tags, rest) →
    ∀ t ∈ tags, tagParsed t = true := by
  intro fuel
  induction fuel with
  | zero => intro inp tags rest h; cases h
  | succ n ih =>
    intro inp tags rest h
    unfold readEvents at h
    split at h
    · cases h; intro t ht; cases ht
    · rename_i c more hdw
      split at h
      · cases h; intro t ht; cases ht
      · extract_lets line after name tag at h
        have hline : ∀ b ∈ line, (b != 93) = true := fun b hb => (mem_takeWhile_imp _ _ b hb).1
        have hname : ∀ b ∈ name, (b != 32) = true ∧ b ∈ line := fun b hb => mem_takeWhile_imp _ _ b hb
        split at h
        · cases h; intro t ht; cases ht
        · split at h
          · cases h
          · split at h
            · cases h
            · rename_i tags' rest' hrec
              cases h
              intro t ht
              simp only [List.mem_cons] at ht
              rcases ht with rfl | ht
              · simp only [tagParsed, Bool.and_eq_true, List.all_eq_true]
                constructor
                · intro b hb
                  have := hname b hb
                  exact ⟨this.1, hline b this.2⟩
                · intro b hb
                  have h1 := mem_trim _ _ b hb
                  exact hline b (List.mem_of_mem_drop h1)
              · exact ih _ _ _ hrec t ht

/-- **Whatever the input**, the file `ParsePTN` returns has tags without space / `]` in the name and without
`]` in the value, and ops with representable characters (`opShape`), comments fitting the window -/
theorem parsePTN_parsed (env : Env) (input : Bytes) (f : File) (h : parsePTN env input = .ok f) :
    (∀ t ∈ f.tags, tagParsed t = true) ∧ (∀ op ∈ f.ops, parsedOK op = true) := by
  unfold parsePTN at h
  split at h
  · cases h
  · dsimp only at h
    split at h
    · cases h
    · rename_i tags rest hev
      split at h
      · cases h
      · rename_i ops hrm
        cases h
        exact ⟨readEvents_parsed _ _ _ _ hev, readMoves_parsed env _ _ _ hrm⟩

/-! ### tags that are read back unchanged were representable -/

theorem trim_open_quote (w : Bytes) (hw : ∀ b ∈ w, (b == 34) = false) : trim (34 :: w) (· == 34) = w := by
  unfold trim
  have h34 : ((34 : UInt8) == 34) = true := by decide
  have hd : (34 :: w).dropWhile (· == 34) = w := by
    simp only [List.dropWhile_cons, h34, if_true]
    cases w with
    | nil => rfl
    | cons a w' => simp only [List.dropWhile_cons, hw a (by simp), Bool.false_eq_true, if_false]
  rw [hd]
  have := trimRight_append w [] (· == 34) (by simp) (fun l hl => hw l (List.mem_of_getLast? hl))
  simpa using this

/-- the value `readEvents` extracts from `"` filtered-value `"` `]`: the filtered value up to its first `]` -/
theorem trim_value (v : Bytes) (hv : ∀ b ∈ v, (b == 34) = false) :
    trim (34 :: (v ++ [34]).takeWhile (· != 93)) (· == 34) = v.takeWhile (· != 93) := by
  by_cases h93 : ∀ b ∈ v, (b != 93) = true
  · have h1 : (v ++ [34]).takeWhile (· != 93) = v ++ [34] :=
      takeWhile_all _ _ (fun b hb => by
        simp only [List.mem_append, List.mem_singleton] at hb
        rcases hb with hb | rfl
        · exact h93 b hb
        · decide)
    rw [h1, takeWhile_all _ _ h93]
    exact trim_quoted v hv
  · -- the value is cut at its first `]`
    have hsplit : v = v.takeWhile (· != 93) ++ v.dropWhile (· != 93) := (List.takeWhile_append_dropWhile).symm
    cases hdw : v.dropWhile (· != 93) with
    | nil =>
      exfalso; apply h93
      rw [hdw, List.append_nil] at hsplit
      exact all_of_takeWhile_eq_self _ _ hsplit.symm
    | cons d r =>
      have hd : (d != 93) = false := by
        have := head_dropWhile_not _ _ _ _ hdw
        simpa using this
      have h1 : (v ++ [34]).takeWhile (· != 93) = v.takeWhile (· != 93) := by
        conv => lhs; rw [hsplit, hdw]
        rw [List.append_assoc, List.cons_append, takeWhile_append_stop (· != 93) _ d _ hd]
        exact takeWhile_all _ _ (fun b hb => (mem_takeWhile_imp _ _ b hb).1)
      rw [h1]
      exact trim_open_quote _ (fun b hb => hv b (mem_takeWhile_imp _ _ b hb).2)

/-- if `readEvents` returns the tags of a rendered tag section unchanged (in front of whatever else it finds),
every one of them was `tagSafe` -/
theorem readEvents_rendered_safe (tags : List Tag) : ∀ (rest : Bytes) (fuel : Nat) (more : List Tag) (rest' : Bytes),
    readEvents fuel (tags.flatMap renderTag ++ rest) = .ok (tags ++ more, rest') → ∀ t ∈ tags, tagSafe t = true := by
  induction tags with
  | nil => intro rest fuel more rest' _ t ht; cases ht
  | cons t tags ih =>
    intro rest fuel more rest' h
    cases fuel with
    | zero => cases h
    | succ f =>
    -- the input, with the first tag spelled out
    generalize hv' : t.value.filter (· != 34) = v' at h
    have hv'34 : ∀ b ∈ v', (b == 34) = false := by
      intro b hb; rw [← hv'] at hb
      have := (List.mem_filter.mp hb).2
      simpa using this
    have hin : (t :: tags).flatMap renderTag ++ rest =
        91 :: ((t.name ++ 32 :: 34 :: (v' ++ [34])) ++ 93 :: (10 :: (tags.flatMap renderTag ++ rest))) := by
      simp only [List.flatMap_cons, renderTag, hv']
      simp
    generalize hR : tags.flatMap renderTag ++ rest = R at hin
    generalize hL : t.name ++ 32 :: 34 :: (v' ++ [34]) = L at hin
    rw [hin] at h
    unfold readEvents at h
    have h91 : isSpace 91 = false := by decide
    have hne : ((91 : UInt8) != 91) = false := by decide
    simp only [List.dropWhile_cons, h91, Bool.false_eq_true, if_false, hne] at h
    have h93 : ((93 : UInt8) != 93) = false := by decide
    rw [takeWhile_append_stop (· != 93) L 93 _ h93] at h
    generalize hline : L.takeWhile (· != 93) = line at h
    have hlinelen : line.length ≤ L.length := by rw [← hline]; exact length_takeWhile_le' _ _
    have hlen : (line.length == (L ++ 93 :: 10 :: R).length) = false := by
      simp only [List.length_append, List.length_cons, beq_eq_false_iff_ne, ne_eq]
      omega
    simp only [hlen, Bool.false_eq_true, if_false] at h
    split at h
    · cases h
    · split at h
      · cases h
      · rename_i tags'' rest'' hrec
        injection h with h
        injection h with h1 h2
        injection h1 with htag htags
        have hname := congrArg Tag.name htag
        have hvalue := congrArg Tag.value htag
        dsimp only at hname hvalue
        subst h2
        -- the name
        have hnm : ∀ b ∈ t.name, (b != 32) = true ∧ (b != 93) = true := by
          intro b hb
          rw [← hname] at hb
          obtain ⟨p1, hb1⟩ := mem_takeWhile_imp _ _ b hb
          rw [← hline] at hb1
          exact ⟨p1, (mem_takeWhile_imp _ _ b hb1).1⟩
        -- the line, now that the name is known to be clean
        have hline' : line = t.name ++ 32 :: 34 :: (v' ++ [34]).takeWhile (· != 93) := by
          rw [← hline, ← hL, takeWhile_append_all _ _ _ (fun b hb => (hnm b hb).2)]
          have e32 : ((32 : UInt8) != 93) = true := by decide
          have e34 : ((34 : UInt8) != 93) = true := by decide
          simp only [List.takeWhile_cons, e32, e34, if_true]
        have hval : t.value = v'.takeWhile (· != 93) := by
          rw [← hvalue, hname, hline']
          have : t.name ++ 32 :: 34 :: (v' ++ [34]).takeWhile (· != 93) =
              (t.name ++ [32]) ++ (34 :: (v' ++ [34]).takeWhile (· != 93)) := by simp
          rw [this]
          have : t.name.length + 1 = (t.name ++ [32]).length := by simp
          rw [this, drop_append_length]
          exact trim_value v' hv'34
        -- the value has no quote, so nothing was filtered out, so it has no `]` either
        have hno34 : ∀ b ∈ t.value, (b != 34) = true := by
          intro b hb
          rw [hval] at hb
          have := hv'34 b (mem_takeWhile_imp _ _ b hb).2
          simpa using this
        have hfil : v' = t.value := by rw [← hv']; exact filter_all_eq _ _ hno34
        have hno93 : ∀ b ∈ t.value, (b != 93) = true := by
          rw [hfil] at hval
          exact all_of_takeWhile_eq_self _ _ hval.symm
        have hsafe : tagSafe t = true := by
          simp only [tagSafe, Bool.and_eq_true, List.all_eq_true]
          exact ⟨fun b hb => hnm b hb, fun b hb => ⟨hno34 b hb, hno93 b hb⟩⟩
        -- the rest of the input: the newline after the tag, then the remaining tags
        have hfull : line = L := by
          rw [hline', ← hL, hfil]
          have : (t.value ++ [34]).takeWhile (· != 93) = t.value ++ [34] :=
            takeWhile_all _ _ (fun b hb => by
              simp only [List.mem_append, List.mem_singleton] at hb
              rcases hb with hb | rfl
              · exact hno93 b hb
              · decide)
          rw [this]
        have hafter : (L ++ 93 :: 10 :: R).drop (line.length + 1) = 10 :: R := by
          rw [hfull]
          have : L ++ 93 :: 10 :: R = (L ++ [93]) ++ 10 :: R := by simp
          rw [this]
          have : L.length + 1 = (L ++ [93]).length := by simp
          rw [this, drop_append_length]
        rw [hafter, readEvents_skip _ _ _ (by decide), ← hR, htags] at hrec
        intro t' ht'
        simp only [List.mem_cons] at ht'
        rcases ht' with rfl | ht'
        · exact hsafe
        · exact ih rest f more rest'' hrec t' ht'

/-! ### `dataSafe` is necessary -/

theorem parsedOK_clearSrc (op : Op) : parsedOK op.clearSrc = parsedOK op := by cases op <;> rfl

theorem parsedOK_of_sameOps (g f : List Op) (h : g.map Op.clearSrc = f.map Op.clearSrc)
    (hg : ∀ op ∈ g, parsedOK op = true) : ∀ op ∈ f, parsedOK op = true := by
  intro op hop
  have hmem : op.clearSrc ∈ f.map Op.clearSrc := List.mem_map.mpr ⟨op, hop, rfl⟩
  rw [← h] at hmem
  obtain ⟨o', ho', he⟩ := List.mem_map.mp hmem
  rw [← parsedOK_clearSrc op, ← he, parsedOK_clearSrc]
  exact hg o' ho'

/-- the tag section of `Render`'s output, read back unchanged, was `tagSafe` -/
theorem tags_safe_of_parse (env : Env) (f g : File) (hp : parsePTN env (render env f) = .ok g)
    (ht : g.tags = f.tags) : ∀ t ∈ f.tags, tagSafe t = true := by
  unfold parsePTN at hp
  rw [render_nonempty] at hp
  simp only [Bool.false_eq_true, if_false] at hp
  rw [stripBOM_render] at hp
  split at hp
  · cases hp
  · rename_i tags rest hev
    split at hp
    · cases hp
    · cases hp
      rw [render_eq] at hev
      dsimp only at ht
      subst ht
      exact readEvents_rendered_safe _ _ _ [] rest (by simpa using hev)

/-- **Necessity.**  If `ParsePTN (Render p)` gives `p` back (tags equal, ops equal up to `src`) and the moves of
`p` are `moveSafe`, then `p` is `dataSafe` -/
theorem dataSafe_necessary (env : Env) (f g : File) (hm : movesSafe env f = true)
    (hp : parsePTN env (render env f) = .ok g) (ht : g.tags = f.tags)
    (ho : g.ops.map Op.clearSrc = f.ops.map Op.clearSrc) : dataSafe env f = true := by
  have hshape := parsedOK_of_sameOps g.ops f.ops ho (parsePTN_parsed env _ g hp).2
  have hclean : ∀ op ∈ f.ops, opClean env op = true := by
    intro op hop
    have h1 := hshape op hop
    simp only [parsedOK, Bool.and_eq_true] at h1
    have h2 := (List.all_eq_true.mp hm) op hop
    simp only [opClean, Bool.and_eq_true]
    exact ⟨h1.1, h2⟩
  have htags := tags_safe_of_parse env f g hp ht
  have hex := parse_render_exact env f htags hclean
  rw [hp] at hex
  have hfit : f.ops.all (opFits env) = true := by
    by_cases hfit : f.ops.all (opFits env) = true
    · exact hfit
    · rw [if_neg hfit] at hex; cases hex
  simp only [dataSafe, Bool.and_eq_true, List.all_eq_true]
  refine ⟨htags, fun op hop => ?_⟩
  have h1 := hclean op hop
  simp only [opClean, Bool.and_eq_true] at h1
  simp only [opData, Bool.and_eq_true]
  exact ⟨h1.1, (List.all_eq_true.mp hfit) op hop⟩

end PTN
