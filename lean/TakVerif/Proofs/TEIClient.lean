import TakVerif.Impl.TEIClient
import TakVerif.Spec.TEIClient
import TakVerif.Proofs.GoBytesLemmas
import TakVerif.Proofs.TEI

/-! Lemmas for C17 (client side): Go strings against the `String`s of the server model, tokenisation of
the lines the client writes, `formatTime`, the `go` line against the server's argument parser. -/
set_option linter.unusedVariables false
set_option linter.unusedSimpArgs false
namespace Proofs.TEIClient
open Tak Tak.TEI Tak.TEIClient Go Spec.TEIClient

/-! ### bytes and characters -/

theorem toNat_charOfByte (x : UInt8) : (Char.ofNat x.toNat).toNat = x.toNat := by
  have h := x.toNat_lt
  have hv : x.toNat.isValidChar := by left; omega
  simp [Char.ofNat, hv, Char.ofNatAux, Char.toNat]

theorem ch_charOfByte (x : UInt8) : ch (Char.ofNat x.toNat) = x := by
  unfold ch
  rw [toNat_charOfByte]
  exact UInt8.ofNat_toNat

theorem toList_str (b : Bytes) : (str b).toList = chars b := by simp [str]

theorem lit_str (b : Bytes) : lit (str b) = b := by
  unfold lit
  rw [toList_str]
  unfold chars
  rw [List.map_map]
  conv => rhs; rw [← List.map_id b]
  apply List.map_congr_left
  intro x _
  exact ch_charOfByte x

theorem chars_append (a b : Bytes) : chars (a ++ b) = chars a ++ chars b := by simp [chars]

theorem chars_cons (x : UInt8) (b : Bytes) : chars (x :: b) = Char.ofNat x.toNat :: chars b := rfl

theorem str_append (a b : Bytes) : str (a ++ b) = str a ++ str b := by
  simp [str, chars_append, String.ofList_append]

theorem str_inj (a b : Bytes) (h : str a = str b) : a = b := by
  have := congrArg lit h
  rwa [lit_str, lit_str] at this

/-! ### white space -/

/-- the byte is none of the six ASCII white-space characters `strings.Fields`/`TrimSpace` split at -/
def NoWs (b : UInt8) : Prop :=
  b.toNat ≠ 32 ∧ b.toNat ≠ 9 ∧ b.toNat ≠ 10 ∧ b.toNat ≠ 11 ∧ b.toNat ≠ 12 ∧ b.toNat ≠ 13

instance (b : UInt8) : Decidable (NoWs b) := by unfold NoWs; infer_instance

def SpaceFree (l : List Char) : Prop := ∀ c ∈ l, isSpace c = false

theorem isSpace_false_of_toNat (c : Char)
    (h : c.toNat ≠ 32 ∧ c.toNat ≠ 9 ∧ c.toNat ≠ 10 ∧ c.toNat ≠ 11 ∧ c.toNat ≠ 12 ∧ c.toNat ≠ 13) : isSpace c = false := by
  obtain ⟨h1, h2, h3, h4, h5, h6⟩ := h
  unfold isSpace
  simp only [Bool.or_eq_false_iff, beq_eq_false_iff_ne, ne_eq]
  refine ⟨⟨⟨⟨⟨?_, ?_⟩, ?_⟩, ?_⟩, ?_⟩, ?_⟩ <;> (intro e; subst e; revert h1 h2 h3 h4 h5 h6; decide)

theorem isSpace_charOfByte (b : UInt8) (h : NoWs b) : isSpace (Char.ofNat b.toNat) = false := by
  apply isSpace_false_of_toNat
  rw [toNat_charOfByte]
  exact h

theorem spaceFree_chars (w : Bytes) (h : ∀ b ∈ w, NoWs b) : SpaceFree (chars w) := by
  intro c hc
  simp only [chars, List.mem_map] at hc
  obtain ⟨b, hb, rfl⟩ := hc
  exact isSpace_charOfByte b (h b hb)

theorem noWs_of_digit (b : UInt8) (h : isDigit b = true) : NoWs b := by
  simp only [isDigit, Bool.and_eq_true, decide_eq_true_eq] at h
  unfold NoWs
  omega

/-! ### `strings.Fields` on space-separated words -/

theorem fieldsAux_acc (r : List Char) : ∀ (cur : List Char) (acc : List String),
    fieldsAux r cur acc = acc.reverse ++ fieldsAux r cur [] := by
  induction r with
  | nil =>
    intro cur acc
    simp only [fieldsAux]
    split <;> simp
  | cons c cs ih =>
    intro cur acc
    simp only [fieldsAux]
    split
    · split
      · rw [ih [] acc]
      · rw [ih [] (_ :: acc), ih [] [_]]; simp
    · exact ih _ _

theorem fieldsAux_word (w : List Char) (hw : SpaceFree w) : ∀ (r cur : List Char) (acc : List String),
    fieldsAux (w ++ r) cur acc = fieldsAux r (w.reverse ++ cur) acc := by
  induction w with
  | nil => intro r cur acc; rfl
  | cons c cs ih =>
    intro r cur acc
    have hc : isSpace c = false := hw c (by simp)
    simp only [List.cons_append, fieldsAux, hc, Bool.false_eq_true, if_false]
    rw [ih (fun d hd => hw d (by simp [hd]))]
    simp

/-- a non-empty word without white space followed by a space: the first field, then the fields of the rest -/
theorem fields_word_space (w r : List Char) (hne : w ≠ []) (hw : SpaceFree w) :
    fields (w ++ ' ' :: r) = String.ofList w :: fields r := by
  unfold fields
  rw [fieldsAux_word w hw]
  have hs : isSpace ' ' = true := by decide
  simp only [fieldsAux, hs, if_true, List.append_nil]
  have : (w.reverse).isEmpty = false := by
    cases w with
    | nil => exact absurd rfl hne
    | cons a b => simp
  simp only [this, Bool.false_eq_true, if_false, List.reverse_reverse]
  rw [fieldsAux_acc]
  rfl

theorem fields_word (w : List Char) (hne : w ≠ []) (hw : SpaceFree w) : fields w = [String.ofList w] := by
  unfold fields
  have := fieldsAux_word w hw [] [] []
  rw [List.append_nil] at this
  rw [this]
  have hre : (w.reverse ++ []).isEmpty = false := by
    cases w with
    | nil => exact absurd rfl hne
    | cons a b => simp
  simp [fieldsAux, hre, hne]

/-- `strings.Fields(strings.Join(words, " "))` gives the words back when none is empty or contains white space -/
theorem fields_join (ws : List Bytes) (h : ∀ w ∈ ws, w ≠ [] ∧ ∀ b ∈ w, NoWs b) :
    fields (chars (join 32 ws)) = ws.map str := by
  induction ws with
  | nil => rfl
  | cons w rest ih =>
    have hw := h w (by simp)
    have hne : chars w ≠ [] := by
      cases w with
      | nil => exact absurd rfl hw.1
      | cons a b => simp [chars]
    cases rest with
    | nil =>
      simp only [join, List.map_cons, List.map_nil]
      rw [fields_word _ hne (spaceFree_chars w hw.2)]
      rfl
    | cons w2 rest2 =>
      have ih' := ih (fun x hx => h x (by simp [hx]))
      simp only [join, chars_append, chars_cons, List.map_cons]
      have h32 : Char.ofNat (32 : UInt8).toNat = ' ' := by decide
      rw [h32, fields_word_space _ _ hne (spaceFree_chars w hw.2)]
      rw [ih']
      rfl

/-! ### `formatTime` and the server's `strconv.ParseUint` -/

theorem digitVal_charOfByte (b : UInt8) (h : isDigit b = true) :
    TEI.digitVal (Char.ofNat b.toNat) = some (b.toNat - 48) := by
  simp only [isDigit, Bool.and_eq_true, decide_eq_true_eq] at h
  have hn := toNat_charOfByte b
  unfold TEI.digitVal
  have : ('0' ≤ Char.ofNat b.toNat ∧ Char.ofNat b.toNat ≤ '9') := by
    constructor
    · show '0'.val ≤ (Char.ofNat b.toNat).val
      rw [UInt32.le_iff_toNat_le]
      show 48 ≤ (Char.ofNat b.toNat).toNat
      omega
    · show (Char.ofNat b.toNat).val ≤ '9'.val
      rw [UInt32.le_iff_toNat_le]
      show (Char.ofNat b.toNat).toNat ≤ 57
      omega
  rw [if_pos this, hn]
  rfl

/-- on a run of digit bytes the server's digit reader (characters) and the Go-string one (bytes) agree -/
theorem digitsVal_chars (w : Bytes) (h : ∀ b ∈ w, isDigit b = true) (a : Nat) :
    TEI.digitsVal (chars w) a = Go.digitsVal w a := by
  induction w generalizing a with
  | nil => rfl
  | cons b rest ih =>
    have hb := h b (by simp)
    simp only [chars_cons, TEI.digitsVal, digitVal_charOfByte b hb, Go.digitsVal, hb, if_true]
    exact ih (fun x hx => h x (by simp [hx])) _

/-- `strconv.ParseUint` reads back what `strconv.FormatUint` wrote -/
theorem parseUint64_itoaNat (n : Nat) (h : n < 18446744073709551616) :
    parseUint64 (str (itoaNat n)) = some n := by
  obtain ⟨hne, hdig, hval, _⟩ := itoaNat_spec n
  unfold parseUint64
  rw [toList_str]
  cases hs : itoaNat n with
  | nil => exact absurd hs hne
  | cons b rest =>
    rw [chars_cons]
    simp only []
    rw [← chars_cons, ← hs, digitsVal_chars _ hdig, hval]
    simp [h]

theorem formatTime_eq (d : Int) : formatTime d = itoaNat (msOf d) := by
  unfold formatTime msOf millisecond
  simp only []
  congr 1
  by_cases h : Int.tdiv d 1000000 < 0
  · rw [if_pos h]; omega
  · rw [if_neg h]; omega

theorem msOf_nonneg (d : Int) (h : 0 ≤ d) : (msOf d : Int) = d / 1000000 := by
  unfold msOf
  rw [Int.tdiv_eq_ediv_of_nonneg h]
  omega

theorem msOf_neg (d : Int) (h : d < 0) : msOf d = 0 := by
  unfold msOf
  have h1 : Int.tdiv d 1000000 = -(Int.tdiv (-d) 1000000) := by
    rw [Int.neg_tdiv, Int.neg_neg]
  have h2 : Int.tdiv (-d) 1000000 = (-d) / 1000000 := Int.tdiv_eq_ediv_of_nonneg (by omega)
  rw [h1, h2]
  omega

theorem noWs_formatTime (d : Int) : formatTime d ≠ [] ∧ ∀ b ∈ formatTime d, NoWs b := by
  rw [formatTime_eq]
  obtain ⟨hne, hdig, _, _⟩ := itoaNat_spec (msOf d)
  exact ⟨hne, fun b hb => noWs_of_digit b (hdig b hb)⟩

/-- the server turns the client's millisecond count back into the duration truncated to milliseconds -/
theorem msToDuration_msOf (d : Int) (h0 : 0 ≤ d) (h1 : d < 9223372036854775808) :
    msToDuration (msOf d) = msTrunc d := by
  have hm := msOf_nonneg d h0
  unfold msToDuration msTrunc millisecond
  rw [hm]
  have r1 : TEI.wrap64 (d / 1000000) = d / 1000000 := by
    apply Proofs.TEI.wrap64_id <;> unfold two63 <;> omega
  rw [r1]
  apply Proofs.TEI.wrap64_id <;> unfold two63 <;> omega

/-! ### the `go` line against the server's option loop -/

def IsKey (k : String) : Prop := k = "movetime" ∨ k = "wtime" ∨ k = "btime" ∨ k = "winc" ∨ k = "binc"

/-- what the server's option loop stores for one `key value` pair -/
def setKey (a : GoArgs) (k : String) (d : Int) : GoArgs :=
  if k = "movetime" then { a with movetime := d }
  else if k = "wtime" then { a with white := d }
  else if k = "btime" then { a with black := d }
  else if k = "winc" then { a with winc := d }
  else { a with binc := d }

theorem parseGoArgs_kv (k v : String) (rest : List String) (a : GoArgs) (ms : Nat) (hk : IsKey k)
    (hv : parseUint64 v = some ms) :
    parseGoArgs (k :: v :: rest) a = parseGoArgs rest (setKey a k (msToDuration ms)) := by
  unfold IsKey at hk
  rw [parseGoArgs]
  simp only [hk, if_true, hv, setKey]

/-- the two words a non-zero duration contributes to the `go` line -/
def kvWords (t : Bytes × Int) : List Bytes := if t.2 = 0 then [] else [t.1, formatTime t.2]

theorem timesLoop_ok (ts : List (Bytes × Int)) : ∀ (acc : List Bytes),
    (∀ t ∈ ts, t.2 = 0 ∨ millisecond ≤ t.2) → timesLoop ts acc = .ok (acc ++ ts.flatMap kvWords) := by
  induction ts with
  | nil => intro acc _; simp [timesLoop]
  | cons t rest ih =>
    intro acc h
    obtain ⟨key, dur⟩ := t
    have ht := h (key, dur) (by simp)
    have hrest : ∀ t ∈ rest, t.2 = 0 ∨ millisecond ≤ t.2 := fun t hm => h t (by simp [hm])
    simp only [timesLoop, List.flatMap_cons, kvWords]
    by_cases h0 : dur = 0
    · simp only [h0, ne_eq, not_true_eq_false, if_false, if_true, List.nil_append]
      exact ih acc hrest
    · have hge : ¬ dur < millisecond := by
        rcases ht with h | h
        · exact absurd h h0
        · simp only at h; omega
      simp only [h0, ne_eq, not_false_eq_true, if_true, hge, if_false]
      rw [ih _ hrest]
      simp

theorem timesLoop_err (ts : List (Bytes × Int)) : ∀ (acc : List Bytes),
    (∃ t ∈ ts, t.2 ≠ 0 ∧ t.2 < millisecond) → timesLoop ts acc = .error (.illegal "Timeout too short") := by
  induction ts with
  | nil => intro acc h; obtain ⟨t, ht, _⟩ := h; cases ht
  | cons t rest ih =>
    intro acc h
    obtain ⟨key, dur⟩ := t
    simp only [timesLoop]
    by_cases h0 : dur = 0
    · simp only [h0, ne_eq, not_true_eq_false, if_false]
      apply ih
      obtain ⟨t, ht, h1, h2⟩ := h
      rcases List.mem_cons.mp ht with e | e
      · subst e; exact absurd h0 h1
      · exact ⟨t, e, h1, h2⟩
    · simp only [h0, ne_eq, not_false_eq_true, if_true]
      by_cases hlt : dur < millisecond
      · simp [hlt]
      · simp only [hlt, if_false]
        apply ih
        obtain ⟨t, ht, h1, h2⟩ := h
        rcases List.mem_cons.mp ht with e | e
        · subst e; exact absurd h2 hlt
        · exact ⟨t, e, h1, h2⟩

/-- the server reads a run of `key value` pairs written by the client: every non-zero duration arrives
truncated to whole milliseconds under its key -/
theorem parseGoArgs_kvWords (ts : List (Bytes × Int)) : ∀ (a : GoArgs) (rest : List String),
    (∀ t ∈ ts, IsKey (str t.1) ∧ (t.2 = 0 ∨ millisecond ≤ t.2) ∧ t.2 < 9223372036854775808) →
    parseGoArgs ((ts.flatMap kvWords).map str ++ rest) a
      = parseGoArgs rest (ts.foldl (fun a t => if t.2 = 0 then a else setKey a (str t.1) (msTrunc t.2)) a) := by
  induction ts with
  | nil => intro a rest _; rfl
  | cons t more ih =>
    intro a rest h
    obtain ⟨key, dur⟩ := t
    obtain ⟨hk, hd, hlt⟩ := h (key, dur) (by simp)
    have hmore := fun t hm => h t (List.mem_cons_of_mem _ hm)
    simp only [List.flatMap_cons, kvWords, List.foldl_cons]
    by_cases h0 : dur = 0
    · simp only [h0, if_true, List.nil_append]
      exact ih a rest hmore
    · have hge : millisecond ≤ dur := by
        rcases hd with h | h
        · exact absurd h h0
        · exact h
      have hnn : 0 ≤ dur := by unfold millisecond at hge; omega
      simp only [h0, if_false, List.cons_append, List.nil_append, List.map_cons, List.map_append]
      have hv : parseUint64 (str (formatTime dur)) = some (msOf dur) := by
        rw [formatTime_eq]
        apply parseUint64_itoaNat
        have := msOf_nonneg dur hnn
        omega
      rw [parseGoArgs_kv _ _ _ _ _ hk hv, msToDuration_msOf dur hnn hlt]
      have := ih (setKey a (str key) (msTrunc dur)) rest hmore
      simpa using this

theorem isKey_lits : IsKey (str (lit "movetime")) ∧ IsKey (str (lit "wtime")) ∧ IsKey (str (lit "btime")) ∧
    IsKey (str (lit "winc")) ∧ IsKey (str (lit "binc")) := by
  unfold IsKey
  refine ⟨.inl ?_, .inr (.inl ?_), .inr (.inr (.inl ?_)), .inr (.inr (.inr (.inl ?_))), .inr (.inr (.inr (.inr ?_)))⟩ <;> decide

theorem noWs_lit_keys : ∀ w ∈ [lit "go", lit "movetime", lit "wtime", lit "btime", lit "winc", lit "binc"],
    w ≠ [] ∧ ∀ b ∈ w, NoWs b := by
  decide

theorem tcTimes_ok (t : TimeControl) (h : ¬ TooShort none t) :
    ∀ x ∈ tcTimes t, x.2 = 0 ∨ millisecond ≤ x.2 := by
  unfold TooShort at h
  simp only [reduceCtorEq, false_and, exists_false, false_or, not_or, not_and, Int.not_lt] at h
  obtain ⟨h1, h2, h3, h4⟩ := h
  intro x hx
  simp only [tcTimes, List.mem_cons, List.mem_nil_iff, or_false] at hx
  unfold millisecond
  rcases hx with rfl | rfl | rfl | rfl <;> simp only []
  · by_cases e : t.white = 0
    · exact .inl e
    · exact .inr (h1 e)
  · by_cases e : t.black = 0
    · exact .inl e
    · exact .inr (h2 e)
  · by_cases e : t.winc = 0
    · exact .inl e
    · exact .inr (h3 e)
  · by_cases e : t.binc = 0
    · exact .inl e
    · exact .inr (h4 e)

theorem flatMap_tcTimes (t : TimeControl) :
    (tcTimes t).flatMap kvWords = kv "wtime" t.white ++ kv "btime" t.black ++ kv "winc" t.winc ++ kv "binc" t.binc := by
  simp [tcTimes, kvWords, kv, formatTime_eq]

theorem tooShort_split (rem : Option Int) (t : TimeControl) :
    TooShort rem t ↔ (∃ r, rem = some r ∧ r < 1000000) ∨ TooShort none t := by
  unfold TooShort
  simp

/-- the error case of the `go` line -/
theorem goCmd_short (rem : Option Int) (t : TimeControl) (h : TooShort rem t) :
    goCmd rem (some t) = .error (.illegal "Timeout too short") := by
  unfold goCmd
  rcases (tooShort_split rem t).1 h with ⟨r, rfl, hr⟩ | ht
  · simp [millisecond, hr]
  · have herr : ∀ acc, timesLoop (tcTimes t) acc = .error (.illegal "Timeout too short") := by
      intro acc
      apply timesLoop_err
      unfold TooShort at ht
      simp only [reduceCtorEq, false_and, exists_false, false_or] at ht
      unfold millisecond
      rcases ht with h | h | h | h
      · exact ⟨(lit "wtime", t.white), by simp [tcTimes], h⟩
      · exact ⟨(lit "btime", t.black), by simp [tcTimes], h⟩
      · exact ⟨(lit "winc", t.winc), by simp [tcTimes], h⟩
      · exact ⟨(lit "binc", t.binc), by simp [tcTimes], h⟩
    cases rem with
    | none => simp [herr]
    | some r =>
      by_cases hr : r < millisecond
      · simp [hr]
      · simp [hr, herr]

/-- the success case: exactly the words of the specification -/
theorem goCmd_ok (rem : Option Int) (t : TimeControl) (h : ¬ TooShort rem t) :
    goCmd rem (some t) = .ok (goWords rem t) := by
  have hrem : ¬ ∃ r, rem = some r ∧ r < 1000000 := fun hx => h ((tooShort_split rem t).2 (.inl hx))
  have ht : ¬ TooShort none t := fun hx => h ((tooShort_split rem t).2 (.inr hx))
  have hloop := fun acc => timesLoop_ok (tcTimes t) acc (tcTimes_ok t ht)
  unfold goCmd goWords
  cases rem with
  | none => simp [hloop, flatMap_tcTimes]
  | some r =>
    have hr : ¬ r < millisecond := by
      unfold millisecond
      intro hlt
      exact hrem ⟨r, rfl, hlt⟩
    simp [hr, hloop, flatMap_tcTimes, formatTime_eq]

theorem goCmd_none (rem : Option Int) : goCmd rem none = goCmd rem (some {}) := by
  unfold goCmd
  cases rem with
  | none => simp [tcTimes, timesLoop]
  | some r =>
    by_cases hr : r < millisecond
    · simp [hr]
    · simp [hr, tcTimes, timesLoop]

/-- per-move time (if any) and the four clock fields, in the order the client writes them -/
def allTimes (rem : Option Int) (t : TimeControl) : List (Bytes × Int) :=
  (match rem with | some r => [(lit "movetime", r)] | none => []) ++ tcTimes t

theorem goWords_eq (rem : Option Int) (t : TimeControl) (h : ¬ TooShort rem t) :
    goWords rem t = lit "go" :: (allTimes rem t).flatMap kvWords := by
  unfold goWords allTimes
  cases rem with
  | none => simp [flatMap_tcTimes]
  | some r =>
    have hr : r ≠ 0 := by
      intro e
      apply h
      exact .inl ⟨r, rfl, by omega⟩
    simp [flatMap_tcTimes, kvWords, hr, formatTime_eq]

theorem allTimes_ok (rem : Option Int) (t : TimeControl) (h : ¬ TooShort rem t) (hr : InRange rem t) :
    ∀ x ∈ allTimes rem t, IsKey (str x.1) ∧ (x.2 = 0 ∨ millisecond ≤ x.2) ∧ x.2 < 9223372036854775808 := by
  have hrem : ¬ ∃ r, rem = some r ∧ r < 1000000 := fun hx => h ((tooShort_split rem t).2 (.inl hx))
  have ht : ¬ TooShort none t := fun hx => h ((tooShort_split rem t).2 (.inr hx))
  obtain ⟨k0, k1, k2, k3, k4⟩ := isKey_lits
  obtain ⟨r0, r1, r2, r3, r4⟩ := hr
  have htc := tcTimes_ok t ht
  intro x hx
  unfold allTimes at hx
  rcases List.mem_append.mp hx with hx | hx
  · cases rem with
    | none => cases hx
    | some r =>
      simp only [List.mem_singleton] at hx
      subst hx
      refine ⟨k0, .inr ?_, r0 r rfl⟩
      unfold millisecond
      simp only []
      have : ¬ r < 1000000 := fun hlt => hrem ⟨r, rfl, hlt⟩
      omega
  · refine ⟨?_, htc x hx, ?_⟩
    · simp only [tcTimes, List.mem_cons, List.mem_nil_iff, or_false] at hx
      rcases hx with rfl | rfl | rfl | rfl <;> assumption
    · simp only [tcTimes, List.mem_cons, List.mem_nil_iff, or_false] at hx
      rcases hx with rfl | rfl | rfl | rfl <;> assumption

theorem msTrunc_zero : msTrunc 0 = 0 := by decide

/-- the engine's option loop on the client's words: every duration arrives truncated to milliseconds -/
theorem parseGoArgs_goWords (rem : Option Int) (t : TimeControl) (h : ¬ TooShort rem t) (hr : InRange rem t) :
    parseGoArgs (((goWords rem t).map str).drop 1) {} = some (goArgs rem t) := by
  rw [goWords_eq rem t h]
  simp only [List.map_cons, List.drop_succ_cons, List.drop_zero]
  have := parseGoArgs_kvWords (allTimes rem t) {} [] (allTimes_ok rem t h hr)
  rw [List.append_nil] at this
  rw [this]
  simp only [parseGoArgs]
  congr 1
  unfold allTimes goArgs tcTimes
  have k : str (lit "movetime") = "movetime" ∧ str (lit "wtime") = "wtime" ∧ str (lit "btime") = "btime" ∧
      str (lit "winc") = "winc" ∧ str (lit "binc") = "binc" := by decide
  obtain ⟨k0, k1, k2, k3, k4⟩ := k
  cases rem with
  | none =>
    simp only [List.nil_append, List.foldl_cons, List.foldl_nil, k1, k2, k3, k4]
    by_cases e1 : t.white = 0 <;> by_cases e2 : t.black = 0 <;> by_cases e3 : t.winc = 0 <;> by_cases e4 : t.binc = 0 <;>
      simp [e1, e2, e3, e4, setKey, msTrunc_zero]
  | some r =>
    have hr0 : r ≠ 0 := by
      intro e
      apply h
      exact .inl ⟨r, rfl, by omega⟩
    simp only [List.cons_append, List.nil_append, List.foldl_cons, List.foldl_nil, k0, k1, k2, k3, k4, hr0, if_false]
    by_cases e1 : t.white = 0 <;> by_cases e2 : t.black = 0 <;> by_cases e3 : t.winc = 0 <;> by_cases e4 : t.binc = 0 <;>
      simp [e1, e2, e3, e4, setKey, msTrunc_zero]

theorem noWs_itoaNat (n : Nat) : itoaNat n ≠ [] ∧ ∀ b ∈ itoaNat n, NoWs b := by
  obtain ⟨hne, hdig, _, _⟩ := itoaNat_spec n
  exact ⟨hne, fun b hb => noWs_of_digit b (hdig b hb)⟩

theorem noWs_kv (key : String) (d : Int) (hk : lit key ≠ [] ∧ ∀ b ∈ lit key, NoWs b) :
    ∀ w ∈ kv key d, w ≠ [] ∧ ∀ b ∈ w, NoWs b := by
  intro w hw
  unfold kv at hw
  split at hw
  · cases hw
  · simp only [List.mem_cons, List.mem_nil_iff, or_false] at hw
    rcases hw with rfl | rfl
    · exact hk
    · exact noWs_itoaNat _

theorem noWs_goWords (rem : Option Int) (t : TimeControl) : ∀ w ∈ goWords rem t, w ≠ [] ∧ ∀ b ∈ w, NoWs b := by
  have hl := noWs_lit_keys
  intro w hw
  unfold goWords at hw
  simp only [List.mem_cons, List.mem_append] at hw
  rcases hw with rfl | (((( hw | hw) | hw) | hw) | hw)
  · exact hl _ (by simp)
  · cases rem with
    | none => cases hw
    | some r =>
      simp only [List.mem_cons, List.mem_nil_iff, or_false] at hw
      rcases hw with rfl | rfl
      · exact hl _ (by simp)
      · exact noWs_itoaNat _
  · exact noWs_kv "wtime" _ (hl _ (by simp)) w hw
  · exact noWs_kv "btime" _ (hl _ (by simp)) w hw
  · exact noWs_kv "winc" _ (hl _ (by simp)) w hw
  · exact noWs_kv "binc" _ (hl _ (by simp)) w hw

/-- the engine's tokeniser gives back exactly the words the client joined -/
theorem fields_goLine (rem : Option Int) (t : TimeControl) :
    fields (goLine (goWords rem t)).toList = (goWords rem t).map str := by
  unfold goLine
  rw [toList_str]
  exact fields_join _ (noWs_goWords rem t)

end Proofs.TEIClient
