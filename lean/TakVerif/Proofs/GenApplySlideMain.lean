import TakVerif.Proofs.GenApplyMain

set_option linter.unusedSimpArgs false

/-! Helper lemmas for `C01.movePreallocated_is_source`, fourth part: the slide branch as a whole. -/
namespace GenApply
open Tak GenMove

theorem apply_slide (basis : Array W) (p : Pos) (hB : p.cfg.size * p.cfg.size ≤ basis.size) (m : Move) (nn : Bool)
    (hsz : p.cfg.size ≤ 8) (hH : p.cfg.size * p.cfg.size ≤ p.height.size) (hS : p.cfg.size * p.cfg.size ≤ p.stacks.size)
    (dx dy : Int)
    (hk : (m.type = 5 ∧ dx = -1 ∧ dy = 0) ∨ (m.type = 6 ∧ dx = 1 ∧ dy = 0) ∨ (m.type = 7 ∧ dx = 0 ∧ dy = 1) ∨
          (m.type = 8 ∧ dx = 0 ∧ dy = -1)) :
    genApply basis p (genMove m) nn = encR (p.apply basis m) := by
  have wsz : Gen.wrap8 (p.cfg.size : Int) = p.cfg.size := wrap8_id _ (by omega) (by omega)
  have hX : (genMove m).X = m.x := rfl
  have hY : (genMove m).Y = m.y := rfl
  have hSl : (genMove m).Slides = m.slides := rfl
  have hpp := C01.pieceParts_is_source
  have cc : ∀ c : Color, C02.colorByte c = C01.colorByte c := fun _ => rfl
  have hm : m.type < 256 := by rcases hk with h | h | h | h <;> omega
  have te : ∀ j, j < 256 → ((genMove m).Type_ == BitVec.ofNat 8 j) = (m.type == j) := fun j hj => type_eq m hm j hj
  have t1 := te 1 (by omega); have t2 := te 2 (by omega); have t3 := te 3 (by omega); have t4 := te 4 (by omega)
  have t5 := te 5 (by omega); have t6 := te 6 (by omega); have t7 := te 7 (by omega); have t8 := te 8 (by omega)
  have hdx : -1 ≤ dx ∧ dx ≤ 1 := by rcases hk with h | h | h | h <;> omega
  have hdy : -1 ≤ dy ∧ dy ≤ 1 := by rcases hk with h | h | h | h <;> omega
  have k0 : (Gen.pieceKind 0#8 != 1#8) = true := by decide
  have z0 : ((0#8 : BitVec 8) != 0#8) = false := by decide
  unfold genApply Gen.movePreallocated Pos.apply dispatch openingRule
  rcases hk with ⟨ht, rfl, rfl⟩ | ⟨ht, rfl, rfl⟩ | ⟨ht, rfl, rfl⟩ | ⟨ht, rfl, rfl⟩
  all_goals
    simp only [ite_self, t1, t2, t3, t4, t5, t6, t7, t8, Bool.false_eq_true, ↓reduceIte, ht, Facts.mtPass, Facts.mtPlaceFlat,
      Facts.mtPlaceStanding, Facts.mtPlaceCapstone, Facts.mtSlideLeft, Facts.mtSlideRight, Facts.mtSlideUp, Facts.mtSlideDown,
      BEq.rfl, ← C02.toMove_is_source, hX, hY, hSl, wsz, Nat.reduceBEq, cc, k0, z0]
    by_cases hop : p.move < 2
    · simp only [hop, decide_true, ↓reduceIte, encR]
    simp only [hop, decide_false, Bool.false_eq_true, ↓reduceIte, z0]
    simp only [Bool.or_eq_true, decide_eq_true_eq, ge_iff_le, or_assoc]
    by_cases hb : m.x < 0 ∨ (p.cfg.size : Int) ≤ m.x ∨ m.y < 0 ∨ (p.cfg.size : Int) ≤ m.y
    · simp only [hb, ↓reduceIte, encR]
    simp only [hb, ↓reduceIte]
    have hb' : 0 ≤ m.x ∧ m.x < p.cfg.size ∧ 0 ≤ m.y ∧ m.y < p.cfg.size := by omega
    obtain ⟨hj, hjlt⟩ := idx_conv p.cfg.size hsz m.x m.y hb'.1 hb'.2.1 hb'.2.2.1 hb'.2.2.2
    rw [wsz] at hj
    simp only [hj, shl_bit, and_bit_ne, and_bit_eq]
    have hj2 : m.x + m.y * (p.cfg.size : Int) = ((m.x + m.y * (p.cfg.size : Int)).toNat : Int) := by
      have : 0 ≤ m.y * (p.cfg.size : Int) := Int.mul_nonneg hb'.2.2.1 (by omega)
      omega
    generalize (m.x + m.y * (p.cfg.size : Int)).toNat = j at hjlt hj2 ⊢
    have hjH : j < p.height.size := by omega
    have hjS : j < p.stacks.size := by omega
    have hjB : j < basis.size := by omega
    have htop := C01.top_is_source p m.x m.y j (by omega) hj2
    unfold slideFrom
    simp only [Gen.slidesIterator, Slides.elems]
    rw [loop0_eq 8 m.slides 0 (shift32 m.slides)]
    by_cases hany : (slideElems 8 m.slides).any (fun x => x == 0) = true
    · simp only [hany, ↓reduceIte, encR]
    simp only [hany, Bool.false_eq_true, ↓reduceIte, Nat.zero_add]
    obtain ⟨ct, hct⟩ : ∃ ct, ct = List.foldl (fun x1 x2 => x1 + x2) 0 (slideElems 8 m.slides) := ⟨_, rfl⟩
    simp only [← hct]
    have hszc : ((p.cfg.size : Int) % 18446744073709551616).toNat = p.cfg.size := C01.index_conv _ _ (by omega) rfl
    simp only [hszc, hjH, hjS, decide_true, Bool.not_true, Bool.and_false, Bool.false_eq_true, ↓reduceIte, gt_iff_lt,
      BitVec.ofNat_eq_ofNat]
    by_cases hc : p.cfg.size < ct ∨ ct < 1 ∨ (p.height.getD j 0#8).toNat < ct
    · simp only [hc, ↓reduceIte, encR]
    simp only [hc, ↓reduceIte]
    -- the mover must own the stack; then `Top` is a piece
    have hw : (C01.colorByte p.toMove == 128#8) = (p.toMove == Color.white) := by
      rcases toMove_cases p with h | h <;> rw [h] <;> rfl
    have hbk : (C01.colorByte p.toMove == 64#8) = (p.toMove == Color.black) := by
      rcases toMove_cases p with h | h <;> rw [h] <;> rfl
    simp only [hw, hbk, Bool.and_eq_true]
    by_cases hm1 : (p.toMove == Color.white) = true ∧ (!p.white.getLsbD j) = true
    · simp only [hm1, and_self, ↓reduceIte, encR]
    by_cases hm2 : (p.toMove == Color.black) = true ∧ (!p.black.getLsbD j) = true
    · simp only [hm1, hm2, and_self, ↓reduceIte, encR]
    simp only [hm1, hm2, ↓reduceIte]
    have hocc : p.white.getLsbD j = true ∨ p.black.getLsbD j = true := by
      rcases toMove_cases p with h | h
      · left; simp [h] at hm1; exact hm1
      · right; simp [h] at hm2; exact hm2
    obtain ⟨top, htp⟩ : ∃ t, p.topAt j = some t := by
      unfold Pos.topAt
      rcases hocc with h | h
      · simp [h]
      · cases hw2 : p.white.getLsbD j <;> simp [h]
    simp only [htop, htp, C01.topByte, (hpp top).1]
    have hstk : (if (C01.colorByte top.color == 64#8) = true then p.stacks.getD j 0#64 <<< 1 ||| 1#64
          else p.stacks.getD j 0#64 <<< 1) =
        (p.stacks.getD j 0#64 <<< 1 ||| if (top.color == Color.black) = true then 1#64 else 0#64) := by
      cases top.color <;> simp [C01.colorByte, Color.code, Facts.colorWhite, Facts.colorBlack]
    simp only [hstk]
    generalize (p.stacks.getD j 0#64 <<< 1 ||| if (top.color == Color.black) = true then 1#64 else 0#64) = stack
    rw [hashAt_raw basis _ _ j hjH hjS hjB]
    simp only []
    rw [hashAt_raw basis _ _ j (by rw [Array.size_setIfInBounds]; exact hjH) (by rw [Array.size_setIfInBounds]; exact hjS) hjB]
    simp only []
    cases heq : ((p.height.getD j 0#8).toNat == ct) <;> cases hsb : stack.getLsbD ct <;>
      simp only [heq, hsb, Bool.not_true, Bool.not_false, Bool.false_eq_true, ↓reduceIte, Gen.shr_eq]
  all_goals
    obtain ⟨t0, e0⟩ : ∃ t, encSt (⟨liftFrom basis { p with move := p.move + 1 } stack (p.height.getD j 0#8).toNat ct j, m.x, m.y, ct⟩ : SlideSt) j m.slides = t := ⟨_, rfl⟩
    have e := e0
    simp only [encSt, liftFrom, Pos.setStack, Pos.hashAt, heq, hsb, Bool.not_true, Bool.not_false, Bool.false_eq_true,
        ↓reduceIte, setBit, clrBit, BitVec.ofNat_eq_ofNat] at e
    rw [e, ← e0]
    obtain ⟨st0, hst0⟩ : ∃ st0 : SlideSt, st0 = ⟨liftFrom basis { p with move := p.move + 1 } stack (p.height.getD j 0#8).toNat ct j, m.x, m.y, ct⟩ := ⟨_, rfl⟩
    simp only [← hst0]
    have hlf := liftFrom_frame basis { p with move := p.move + 1 } stack (p.height.getD j 0#8).toNat ct j
    have inv0 : Inv basis p st0 := by
      rw [hst0]
      exact ⟨hb'.1, hb'.2.1, hb'.2.2.1, hb'.2.2.2, by rw [hlf.2.1]; exact hH, by rw [hlf.2.2]; exact hS⟩
    have hloop := loop1_eq basis p hB hsz top stack _ _ hdx hdy 8 m.slides (shift32 _) st0 inv0 j
    cases hsl : slideLoop basis p top stack _ _ (slideElems 8 m.slides) st0 with
    | error e =>
      obtain ⟨w, rfl⟩ := slideLoop_illegal basis p top stack _ _ _ st0 e hsl
      rw [hloop.1 _ hsl]
      rfl
    | ok st' =>
      obtain ⟨i', it', h⟩ := hloop.2 st' hsl
      rw [h]
      have fr : Untouched { p with move := p.move + 1 } st'.next := by
        have := slideLoop_frame basis p top stack _ _ _ st0 st' hsl
        rw [hst0] at this
        exact hlf.1.trans this
      obtain ⟨f1, f2, f3, f4, f5, f6, f7⟩ := fr
      simp only [] at f1 f2 f3 f4 f5 f6 f7
      simp only [encSt]
      refine Eq.trans ?_ (finish_is_source st'.next)
      rw [f2, f3, f4, f5, f6, f7]
      rfl

end GenApply
