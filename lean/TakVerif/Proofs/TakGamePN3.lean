import TakVerif.Proofs.TakGamePN
import TakVerif.Proofs.TakGamePN2
import TakVerif.Proofs.C06Bridge
import TakVerif.Proofs.PosFactsInst
import TakVerif.Proofs.HeapValue
import TakVerif.Proofs.Road
import TakVerif.Props.C03_WF

/-! `Position.Equal` is a bisimulation of the bit-level Tak game on the positions of one game
(`EqualIsBisimFrom (takGame basis) root`), for a well-formed analysed root.

`Equal` compares size, bitboards, heights, stacks and side to move — not the reserves, the
configuration flag for ties, the stored groups or the ply counter, all of which `GameOver`/`Move`/`AllMoves`
read.  Among the positions reachable from one root these are determined by what `Equal` sees: the
configuration never changes, pieces are conserved (board + reserve), the groups are the analysed ones,
and the rules read the counter only for its parity and for "still in the opening", which the number
of pieces taken from the reserves determines. -/
namespace C06
open Tak Tak.PN Spec.Game Tak.Proofs
open Spec (abs decode)

/-- the invariant of play from `root` -/
structure TInv (basis : Array W) (root p : Pos) : Prop where
  invB : InvB basis p
  ana : p.analyze = some p
  cfg : p.cfg = root.cfg
  tot : ∀ c cap, SpecProofs.total c cap (abs p) = SpecProofs.total c cap (abs root)
  /-- the pieces taken from the reserves since `root` count the plies of the opening -/
  opening : (p.move < 2 → (resSum (abs root) : Int) - resSum (abs p) = p.move - root.move) ∧
            (2 ≤ p.move → (resSum (abs root) : Int) - resSum (abs p) ≥ 2 - root.move)

theorem takGame_apply_some {basis : Array W} {p q : Pos} {m : Move} :
    (takGame basis).apply p m = some q ↔ p.apply basis m = .ok q := by
  simp only [takGame]
  split
  · rename_i q' hq; rw [hq]; constructor <;> (intro h; injection h with h; rw [h])
  · rename_i e he; rw [he]; constructor <;> (intro h; cases h)

theorem gen_not_pass {p : Pos} (h8 : p.cfg.size ≤ 8) {m : Move} (hm : m ∈ p.allMoves) : m.type ≠ Facts.mtPass := by
  obtain ⟨_, _, _, _, ht, _⟩ := allMoves_onboard' p h8 m hm
  have tc := types_cases
  have : Facts.mtPass = 1 := rfl
  omega

/-- one accepted non-pass move from a position of C01's invariant: the rule book makes the same step -/
theorem invB_step {basis : Array W} {p q : Pos} {m : Move} (h : InvB basis p) (hnp : m.type ≠ Facts.mtPass)
    (hap : p.apply basis m = .ok q) : InvB basis q ∧ Spec.step (abs p) (decode m) = some (abs q) := by
  have := (posFacts2_default basis 3 (by decide)).apply p m q h ⟨hnp, stackLimit_of_budget m h.2⟩ hap
  exact ⟨this.1, this.2.2⟩

theorem abs_squares_length (p : Pos) : (abs p).squares.length = (abs p).size * (abs p).size := by
  simp [Spec.abs]

theorem TInv.succ {basis : Array W} {root p q : Pos} (h : TInv basis root p) (hs : Succ (takGame basis) p q) :
    TInv basis root q := by
  obtain ⟨m, hm, ha⟩ := hs
  have hap : p.apply basis m = .ok q := takGame_apply_some.mp ha
  have hnp := gen_not_pass h.invB.1.size_le (show m ∈ p.allMoves from hm)
  obtain ⟨hi, hst⟩ := invB_step h.invB hnp hap
  refine ⟨hi, Pos.apply_analyzed hap, by rw [apply_cfg hap, h.cfg], ?_, ?_⟩
  · intro c cap
    rw [SpecProofs.step_conserves (abs p) (decode m) (abs q) c cap (abs_squares_length p) hst, h.tot]
  · have hmv := apply_move basis p q m hap
    obtain ⟨o1, o2⟩ := h.opening
    have hr := step_resSum (abs p) (decode m) (abs q) hst
    have hply : (abs p).ply = p.move := rfl
    rw [hply] at hr
    constructor
    · intro hq
      have := o1 (by omega)
      rcases hr with hr | ⟨hr, _⟩
      · omega
      · omega
    · intro hq
      by_cases hp2 : p.move < 2
      · have := o1 hp2
        rcases hr with hr | ⟨hr, _⟩
        · omega
        · omega
      · have := o2 (by omega)
        rcases hr with hr | ⟨_, hr⟩
        · omega
        · omega

theorem TInv.reach {basis : Array W} {root p : Pos} (h0 : TInv basis root root)
    (h : Reach (takGame basis) root p) : TInv basis root p := by
  induction h with
  | refl => exact h0
  | step _ hs ih => exact ih.succ hs

theorem TInv.root {basis : Array W} {root : Pos} (hi : InvB basis root) (ha : root.analyze = some root) :
    TInv basis root root :=
  ⟨hi, ha, rfl, fun _ _ => rfl, ⟨fun _ => by omega, fun _ => by omega⟩⟩

/-- C01's invariant plus "the stored groups are the analysed ones" gives C02's board invariant -/
theorem roadWF_of_inv (basis : Array W) (p : Pos) (hwf : WF basis p) (han : p.analyze = some p) : Roads.RoadWF p := by
  have hn : Roads.SizeOK p.cfg.size := ⟨hwf.size_ge, hwf.size_le⟩
  have hsub : ∀ (x : W), (∀ j, p.cfg.size * p.cfg.size ≤ j → x.getLsbD j = false) → Roads.Sub x p.c.Mask := by
    intro x hx k hk
    rw [hwf.consts, Roads.Mask_bitN _ hn]
    simp only [decide_eq_true_eq]
    apply Classical.byContradiction
    intro hge
    rw [hx k (by omega)] at hk; cases hk
  exact ⟨hn, hwf.consts, hsub _ (fun j hj => (hwf.mask j hj).1), hsub _ (fun j hj => (hwf.mask j hj).2.1),
    hwf.white_black_disjoint, han⟩

theorem abs_toMove (p : Pos) : (abs p).toMove = p.toMove := rfl

theorem u8_reserve_eq {a b : U8} (h : a.toNat = b.toNat) : a = b := BitVec.eq_of_toNat_eq h

/-- two positions of one game that `Equal` identifies show the rule book the same state, up to the ply counter -/
theorem plySim_of_equal {basis : Array W} {root s t : Pos} (hs : TInv basis root s) (ht : TInv basis root t)
    (he : s.equal t = true) : PlySim (abs s) (abs t) := by
  obtain ⟨hsz, hsq, htm⟩ := (equal_iff_core hs.invB.1 ht.invB.1).mp he
  have hr : ∀ c cap, (abs s).reserve c cap = (abs t).reserve c cap := fun c cap =>
    reserve_eq_of_total hsq c cap (by rw [hs.tot, ht.tot])
  refine plySim_of_fields hsz ?_ hsq (hr .white false) (hr .white true) (hr .black false) (hr .black true) htm ?_
  · show s.cfg.blackWinsTies = t.cfg.blackWinsTies
    rw [hs.cfg, ht.cfg]
  · have hrs : resSum (abs s) = resSum (abs t) := by
      have h1 := hr .white false; have h2 := hr .white true; have h3 := hr .black false; have h4 := hr .black true
      simp only [Spec.State.reserve] at h1 h2 h3 h4
      simp only [resSum, h1, h2, h3, h4]
    obtain ⟨s1, s2⟩ := hs.opening
    obtain ⟨t1, t2⟩ := ht.opening
    show s.move = t.move ∨ (2 ≤ s.move ∧ 2 ≤ t.move)
    by_cases hs2 : s.move < 2
    · have := s1 hs2
      by_cases ht2 : t.move < 2
      · have := t1 ht2
        left; omega
      · have := t2 (by omega)
        omega
    · have := s2 (by omega)
      by_cases ht2 : t.move < 2
      · have := t1 ht2
        omega
      · right; omega

theorem takGame_over_eq (basis : Array W) (p : Pos) (wf : Roads.RoadWF p) :
    (takGame basis).over p =
      if (Spec.outcome (abs p)).over then some (Spec.outcome (abs p)).winner else none := by
  simp only [takGame]
  rw [Roads.gameOver_refines p wf]

/-- `Move.Equal` moves are applied alike -/
theorem apply_of_equal' (basis : Array W) (p : Pos) (m1 m2 : Move) (he : m1.equal m2 = true) :
    p.apply basis m1 = p.apply basis m2 := by
  obtain ⟨hx, hy, ht, hs⟩ := equal_fields _ _ he
  by_cases hsl : m1.isSlide = true
  · have : m1 = m2 := by
      have := hs hsl
      cases m1; cases m2; simp_all
    rw [this]
  · exact apply_congr_nonslide basis p m1 m2 hx hy ht (by simpa using hsl)

/-- a move made in `s` can be made in a position `t` of the same game that `Equal` identifies with `s`,
and leads to positions that `Equal` identifies again -/
theorem equal_step {basis : Array W} {root s t s' : Pos} (hs : TInv basis root s) (ht : TInv basis root t)
    (he : s.equal t = true) (hsucc : Succ (takGame basis) s s') :
    ∃ t', Succ (takGame basis) t t' ∧ s'.equal t' = true := by
  have hs' := hs.succ hsucc
  obtain ⟨m, hm, ha⟩ := hsucc
  have hap : s.apply basis m = .ok s' := takGame_apply_some.mp ha
  have hnp := gen_not_pass hs.invB.1.size_le (show m ∈ s.allMoves from hm)
  obtain ⟨_, hst⟩ := invB_step hs.invB hnp hap
  obtain ⟨b', hb', hsim⟩ := step_plySim (plySim_of_equal hs ht he) (decode m) hst
  -- the model accepts `m` in `t`, with the rule book's successor
  have href := move_refines_core (basis := basis) (p := t) analyzeTotalInst ht.invB.1 m hnp
    (stackLimit_of_budget m ht.invB.2)
  cases hta : t.apply basis m with
  | error e => rw [hta] at href; simp only at href; rw [href] at hb'; cases hb'
  | ok t' =>
    rw [hta] at href
    simp only at href
    obtain ⟨hstep, _⟩ := href
    have hbt : b' = abs t' := by rw [hb'] at hstep; exact Option.some.inj hstep
    subst hbt
    -- the generator lists a move `Equal` to `m`
    obtain ⟨m', hm', hme⟩ := C03.allMoves_complete_wf basis t ht.invB.1 m t' hnp hta
    have hta' : t.apply basis m' = .ok t' := by rw [apply_of_equal' basis t m' m hme]; exact hta
    have hsucc' : Succ (takGame basis) t t' := ⟨m', hm', takGame_apply_some.mpr hta'⟩
    have ht' := ht.succ hsucc'
    refine ⟨t', hsucc', ?_⟩
    rw [equal_iff_core hs'.invB.1 ht'.invB.1]
    obtain ⟨hb, htm, _⟩ := hsim
    refine ⟨?_, ?_, htm⟩
    · rw [hs'.cfg, ht'.cfg]
    · rw [hb]

/-- **`Position.Equal` is a bisimulation on the positions of one game** (root: C01's invariant with the
piece budget, analysed groups) -/
theorem takGame_equalIsBisimFrom (basis : Array W) (root : Pos) (hi : InvB basis root)
    (ha : root.analyze = some root) : EqualIsBisimFrom (takGame basis) root := by
  have h0 := TInv.root hi ha
  have inv : ∀ {p}, Reach (takGame basis) root p → TInv basis root p := fun h => h0.reach h
  refine ⟨?_, ?_, ?_, ?_, ?_, ?_⟩
  · intro s rs
    show s.equal s = true
    rw [equal_iff_core (inv rs).invB.1 (inv rs).invB.1]
    exact ⟨rfl, rfl, rfl⟩
  · intro s t rs rt he
    have he' : s.equal t = true := he
    show t.equal s = true
    rw [equal_iff_core (inv rs).invB.1 (inv rt).invB.1] at he'
    rw [equal_iff_core (inv rt).invB.1 (inv rs).invB.1]
    exact ⟨he'.1.symm, he'.2.1.symm, he'.2.2.symm⟩
  · intro s t u rs rt ru h1 h2
    have h1' : s.equal t = true := h1
    have h2' : t.equal u = true := h2
    show s.equal u = true
    rw [equal_iff_core (inv rs).invB.1 (inv rt).invB.1] at h1'
    rw [equal_iff_core (inv rt).invB.1 (inv ru).invB.1] at h2'
    rw [equal_iff_core (inv rs).invB.1 (inv ru).invB.1]
    exact ⟨h1'.1.trans h2'.1, h1'.2.1.trans h2'.2.1, h1'.2.2.trans h2'.2.2⟩
  · intro s t rs rt he
    rw [takGame_over_eq basis s (roadWF_of_inv basis s (inv rs).invB.1 (inv rs).ana),
      takGame_over_eq basis t (roadWF_of_inv basis t (inv rt).invB.1 (inv rt).ana),
      outcome_plySim (plySim_of_equal (inv rs) (inv rt) he)]
  · intro s t rs rt he
    exact ((equal_iff_core (inv rs).invB.1 (inv rt).invB.1).mp he).2.2
  · intro s t s' rs rt he hsucc
    exact equal_step (inv rs) (inv rt) he hsucc

end C06
