import TakVerif.Proofs.TakGamePN
import TakVerif.Proofs.TakGamePN2
import TakVerif.Proofs.PosFactsInst
import TakVerif.Proofs.HeapValue
import TakVerif.Proofs.Road
import TakVerif.Props.C03_WF

/-! `Position.Equal` is a bisimulation of the bit-level Tak game on the positions of one game
(`EqualIsBisimFrom (takGame basis) root`), for a well-formed analysed root past the opening.

`Equal` compares size, bitboards, heights, stacks and side to move — not the reserves, the
configuration flag for ties, the stored groups or the ply counter, all of which `GameOver`/`Move`/`AllMoves`
read.  Among the positions reachable from one root these are determined by what `Equal` sees: the
configuration never changes, pieces are conserved (board + reserve), the groups are the analysed ones,
and past the opening only the parity of the counter matters. -/
namespace C06
open Tak Tak.PN Spec.Game Tak.Proofs Spec

/-- the invariant of play from `root` -/
structure TInv (basis : Array W) (root p : Pos) : Prop where
  invB : InvB basis p
  ana : p.analyze = some p
  cfg : p.cfg = root.cfg
  tot : ∀ c cap, SpecProofs.total c cap (abs p) = SpecProofs.total c cap (abs root)
  ply : 2 ≤ p.move

theorem takGame_apply_some {basis : Array W} {p q : Pos} {m : Move} :
    (takGame basis).apply p m = some q ↔ p.apply basis m = .ok q := by
  simp only [takGame]
  split
  · rename_i q' hq; rw [hq]; constructor <;> (intro h; injection h with h; rw [h])
  · rename_i e he; rw [he]; constructor <;> (intro h; cases h)

theorem gen_not_pass {p : Pos} (h8 : p.cfg.size ≤ 8) {m : Move} (hm : m ∈ p.allMoves) : m.type ≠ Facts.mtPass := by
  obtain ⟨_, _, _, _, ht, _⟩ := allMoves_onboard' p h8 m hm
  have tc := types_cases
  have : Facts.mtPass = 1 := rfl
  omega

/-- one accepted non-pass move from a position of C01's invariant: the rule book makes the same step -/
theorem invB_step {basis : Array W} {p q : Pos} {m : Move} (h : InvB basis p) (hnp : m.type ≠ Facts.mtPass)
    (hap : p.apply basis m = .ok q) : InvB basis q ∧ Spec.step (abs p) (decode m) = some (abs q) := by
  have := (posFacts2_default basis 3 (by decide)).apply p m q h ⟨hnp, stackLimit_of_budget m h.2⟩ hap
  exact ⟨this.1, this.2.2⟩

theorem abs_squares_length (p : Pos) : (abs p).squares.length = (abs p).size * (abs p).size := by
  simp [Spec.abs]

theorem TInv.succ {basis : Array W} {root p q : Pos} (h : TInv basis root p) (hs : Succ (takGame basis) p q) :
    TInv basis root q := by
  obtain ⟨m, hm, ha⟩ := hs
  have hap : p.apply basis m = .ok q := takGame_apply_some.mp ha
  have hnp := gen_not_pass h.invB.1.size_le (show m ∈ p.allMoves from hm)
  obtain ⟨hi, hst⟩ := invB_step h.invB hnp hap
  refine ⟨hi, Pos.apply_analyzed hap, by rw [apply_cfg hap, h.cfg], ?_, ?_⟩
  · intro c cap
    rw [SpecProofs.step_conserves (abs p) (decode m) (abs q) c cap (abs_squares_length p) hst, h.tot]
  · rw [apply_move basis p q m hap]
    have := h.ply
    omega

theorem TInv.reach {basis : Array W} {root p : Pos} (h0 : TInv basis root root)
    (h : Reach (takGame basis) root p) : TInv basis root p := by
  induction h with
  | refl => exact h0
  | step _ hs ih => exact ih.succ hs

theorem TInv.root {basis : Array W} {root : Pos} (hi : InvB basis root) (ha : root.analyze = some root)
    (hp : 2 ≤ root.move) : TInv basis root root :=
  ⟨hi, ha, rfl, fun _ _ => rfl, hp⟩

/-- C01's invariant plus "the stored groups are the analysed ones" gives C02's board invariant -/
theorem roadWF_of_inv (basis : Array W) (p : Pos) (hwf : WF basis p) (han : p.analyze = some p) : Roads.RoadWF p := by
  have hn : Roads.SizeOK p.cfg.size := ⟨hwf.size_ge, hwf.size_le⟩
  have hsub : ∀ (x : W), (∀ j, p.cfg.size * p.cfg.size ≤ j → x.getLsbD j = false) → Roads.Sub x p.c.Mask := by
    intro x hx k hk
    rw [hwf.consts, Roads.Mask_bitN _ hn]
    simp only [decide_eq_true_eq]
    apply Classical.byContradiction
    intro hge
    rw [hx k (by omega)] at hk; cases hk
  exact ⟨hn, hwf.consts, hsub _ (fun j hj => (hwf.mask j hj).1), hsub _ (fun j hj => (hwf.mask j hj).2.1),
    hwf.white_black_disjoint, han⟩

theorem abs_toMove (p : Pos) : (abs p).toMove = p.toMove := rfl

theorem u8_reserve_eq {a b : U8} (h : a.toNat = b.toNat) : a = b := BitVec.eq_of_toNat_eq h

/-- two positions of one game that `Equal` identifies show the rule book the same state, up to the ply counter -/
theorem plySim_of_equal {basis : Array W} {root s t : Pos} (hs : TInv basis root s) (ht : TInv basis root t)
    (he : s.equal t = true) : PlySim (abs s) (abs t) := by
  obtain ⟨hsz, hsq, htm⟩ := (equal_iff_core hs.invB.1 ht.invB.1).mp he
  have hr : ∀ c cap, (abs s).reserve c cap = (abs t).reserve c cap := fun c cap =>
    reserve_eq_of_total hsq c cap (by rw [hs.tot, ht.tot])
  refine plySim_of_fields hsz ?_ hsq (hr .white false) (hr .white true) (hr .black false) (hr .black true) htm ?_
  · show s.cfg.blackWinsTies = t.cfg.blackWinsTies
    rw [hs.cfg, ht.cfg]
  · right; exact ⟨hs.ply, ht.ply⟩

end C06
