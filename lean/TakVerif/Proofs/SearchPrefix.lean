import TakVerif.Proofs.SearchCancelAnalyze

/-! C16, the table clause: the table writes of a search under a monotone cancel oracle are an initial segment
of the table writes of the same search with the flag never set.

`Eng.wlog` is the ghost log of table assignments (newest first).  `Pfx T0 o s x x'` relates the same code run
under `o` (`x`) and under `o.never` (`x'`) from the state `s`:
* `nev`: the never-cancelled run only extends the log, and the table stays "start table + logged writes" (`Rep`);
* `run`: the run under `o` (i) only counts loads/evaluations up, (ii) keeps `Rep`, (iii) writes nothing once the
  flag has been seen (`Seen`), (iv) is the never-cancelled run if the flag was clear throughout (as in `Loc`), and
  (v) ends with a log that is a suffix-in-cons-order (= chronological prefix) of the never-cancelled run's log.
The rules below mirror `SearchCancel.lean`. -/
namespace Search
open Tak (Err)

variable {P M : Type}

/-- the table obtained from `T0` by the logged writes (`log` newest first, as `Eng.wlog`) -/
def replayR (T0 : Array (TEntry M)) (log : List (Nat × TEntry M)) : Array (TEntry M) :=
  log.foldr (fun w t => t.setIfInBounds w.1 w.2) T0

/-- the table of `s` is `T0` with the logged writes applied: the ghost log is faithful -/
def Rep (T0 : Array (TEntry M)) (s : Eng M) : Prop := s.table = replayR T0 s.wlog

/-- some load before the counters of `s` answered `true` -/
def Seen (o : Oracle M) (s : Eng M) : Prop := ∃ l e, l < s.loads ∧ e ≤ s.evals ∧ o.cancel l e = true

/-- `s1` has the table and the write log of `s` -/
def TW (s s1 : Eng M) : Prop := s1.table = s.table ∧ s1.wlog = s.wlog

theorem TW.refl (s : Eng M) : TW s s := ⟨rfl, rfl⟩

theorem TW.rep {T0 : Array (TEntry M)} {s s1 : Eng M} (h : TW s s1) (hr : Rep T0 s) : Rep T0 s1 := by
  unfold Rep at hr ⊢; rw [h.1, h.2]; exact hr

theorem TW.suffix {s s1 : Eng M} (h : TW s s1) : s.wlog <:+ s1.wlog := by
  rw [h.2]; exact List.suffix_refl _

theorem seen_or_falseUpTo (o : Oracle M) (s : Eng M) : FalseUpTo o s ∨ Seen o s := by
  by_cases h : Seen o s
  · exact Or.inr h
  · left
    intro l e hl he
    cases hc : o.cancel l e with
    | false => rfl
    | true => exact absurd ⟨l, e, hl, he, hc⟩ h

theorem Seen.mono {o : Oracle M} {s s1 : Eng M} (h : Seen o s) (hl : s.loads ≤ s1.loads) (he : s.evals ≤ s1.evals) :
    Seen o s1 := by
  obtain ⟨l, e, h1, h2, h3⟩ := h
  exact ⟨l, e, by omega, by omega, h3⟩

theorem Seen.not_falseUpTo {o : Oracle M} {s : Eng M} (h : Seen o s) (hf : FalseUpTo o s) : False := by
  obtain ⟨l, e, h1, h2, h3⟩ := h
  rw [hf l e h1 h2] at h3; cases h3

/-- once the flag has been seen, every further load answers `true` -/
theorem Seen.loadTrue {o : Oracle M} (hm : o.Monotone) {s : Eng M} (h : Seen o s) : (load o s).1 = true := by
  obtain ⟨l, e, h1, h2, h3⟩ := h
  exact hm l s.loads e s.evals (by omega) h2 h3

/-- a load that answered `true` has been seen -/
theorem seen_of_load {o : Oracle M} {s : Eng M} (h : (load o s).1 = true) : Seen o (load o s).2 :=
  ⟨s.loads, s.evals, Nat.lt_succ_self _, Nat.le_refl _, h⟩

section rel
variable {T0 : Array (TEntry M)} {o : Oracle M} {α β : Type}

/-- what a run (under `o.never`) started in `s` does to the log and the table -/
def Nev (T0 : Array (TEntry M)) (s : Eng M) (x' : Except Err (α × Eng M)) : Prop :=
  ∀ a2 s2, x' = .ok (a2, s2) → s.wlog <:+ s2.wlog ∧ (Rep T0 s → Rep T0 s2)

/-- what the result `(a, s')` of the run under `o` started in `s` satisfies, `x'` being the run under `o.never` -/
structure PfxPost (T0 : Array (TEntry M)) (o : Oracle M) (s : Eng M) (x' : Except Err (α × Eng M))
    (a : α) (s' : Eng M) : Prop where
  loads : s.loads ≤ s'.loads
  evals : s.evals ≤ s'.evals
  rep : Rep T0 s → Rep T0 s'
  frozen : Seen o s → s'.wlog = s.wlog
  same : FalseUpTo o s' → x' = .ok (a, s')
  pre : ∀ a2 s2, x' = .ok (a2, s2) → s'.wlog <:+ s2.wlog

def Run (T0 : Array (TEntry M)) (o : Oracle M) (s : Eng M) (x x' : Except Err (α × Eng M)) : Prop :=
  ∀ a s', x = .ok (a, s') → PfxPost T0 o s x' a s'

/-- `x` (under `o`) and `x'` (under `o.never`), both started in `s` -/
structure Pfx (T0 : Array (TEntry M)) (o : Oracle M) (s : Eng M) (x x' : Except Err (α × Eng M)) : Prop where
  nev : Nev T0 s x'
  run : Run T0 o s x x'

theorem Nev.error (s : Eng M) (e : Err) : Nev T0 s (.error e : Except Err (α × Eng M)) := by
  intro a s' h; cases h

theorem Nev.ok (s : Eng M) (x : α × Eng M) (htw : TW s x.2) : Nev T0 s (.ok x : Except Err (α × Eng M)) := by
  intro a s' h; cases h; exact ⟨htw.suffix, htw.rep⟩

theorem Run.error (s : Eng M) (e : Err) (x' : Except Err (α × Eng M)) :
    Run T0 o s (.error e : Except Err (α × Eng M)) x' := by
  intro a s' h; cases h

/-- both runs end in the same state, which has the table and log of the start state; the values agree if the
flag was clear -/
theorem Pfx.sameState (s : Eng M) (a a' : α) (s1 : Eng M) (hl : s.loads ≤ s1.loads) (he : s.evals ≤ s1.evals)
    (htw : TW s s1) (hsame : FalseUpTo o s1 → a = a') :
    Pfx T0 o s (.ok (a, s1) : Except Err (α × Eng M)) (.ok (a', s1)) := by
  refine ⟨Nev.ok s _ htw, ?_⟩
  intro b s' h
  cases h
  exact ⟨hl, he, htw.rep, fun _ => htw.2, fun hf => by rw [hsame hf], fun a2 s2 h2 => by cases h2; exact List.suffix_refl _⟩

theorem Pfx.ok (s : Eng M) (x : α × Eng M) (hl : s.loads ≤ x.2.loads) (he : s.evals ≤ x.2.evals)
    (htw : TW s x.2 := by exact ⟨rfl, rfl⟩) :
    Pfx T0 o s (.ok x : Except Err (α × Eng M)) (.ok x) :=
  Pfx.sameState s x.1 x.1 x.2 hl he htw (fun _ => rfl)

theorem Pfx.pure (s : Eng M) (a : α) (s1 : Eng M) (hl : s.loads ≤ s1.loads) (he : s.evals ≤ s1.evals)
    (htw : TW s s1 := by exact ⟨rfl, rfl⟩) :
    Pfx T0 o s (Pure.pure (a, s1) : Except Err (α × Eng M)) (Pure.pure (a, s1)) :=
  Pfx.sameState s a a s1 hl he htw (fun _ => rfl)

theorem Pfx.error (s : Eng M) (e : Err) :
    Pfx T0 o s (.error e : Except Err (α × Eng M)) (.error e) := ⟨Nev.error s e, Run.error s e _⟩

theorem Pfx.throw (s : Eng M) (e : Err) :
    Pfx T0 o s (throw e : Except Err (α × Eng M)) (throw e) := Pfx.error s e

/-- sequencing, with what is known about the intermediate result -/
theorem Pfx.bind' {s : Eng M} {x x' : Except Err (α × Eng M)} {f f' : α × Eng M → Except Err (β × Eng M)}
    (hx : Pfx T0 o s x x')
    (hn : ∀ a s1, x' = .ok (a, s1) → Nev T0 s1 (f' (a, s1)))
    (hr : ∀ a s1, x = .ok (a, s1) → Run T0 o s1 (f (a, s1)) (f' (a, s1))) :
    Pfx T0 o s (x >>= f) (x' >>= f') := by
  have hnev : ∀ b2 s2, (x' >>= f') = .ok (b2, s2) → ∀ a2 s1', x' = .ok (a2, s1') →
      s1'.wlog <:+ s2.wlog ∧ (Rep T0 s1' → Rep T0 s2) := by
    intro b2 s2 h a2 s1' hx'
    rw [hx'] at h
    exact hn a2 s1' hx' b2 s2 h
  constructor
  · intro b2 s2 h
    cases hx' : x' with
    | error e => rw [hx'] at h; cases h
    | ok v =>
      obtain ⟨a2, s1'⟩ := v
      obtain ⟨h1, h2⟩ := hx.nev a2 s1' hx'
      obtain ⟨h3, h4⟩ := hnev b2 s2 h a2 s1' hx'
      exact ⟨h1.trans h3, fun hr0 => h4 (h2 hr0)⟩
  · intro b s' h
    cases hxe : x with
    | error e => rw [hxe] at h; cases h
    | ok v =>
      obtain ⟨a, s1⟩ := v
      rw [hxe] at h
      have p1 := hx.run a s1 hxe
      have hb : f (a, s1) = .ok (b, s') := h
      have p2 := hr a s1 hxe b s' hb
      refine ⟨Nat.le_trans p1.loads p2.loads, Nat.le_trans p1.evals p2.evals, fun h0 => p2.rep (p1.rep h0), ?_, ?_, ?_⟩
      · intro hs
        rw [p2.frozen (hs.mono p1.loads p1.evals), p1.frozen hs]
      · intro hfu
        rw [p1.same (hfu.weaken p2.loads p2.evals)]
        exact p2.same hfu
      · intro b2 s2 h2
        rcases seen_or_falseUpTo o s1 with hfu | hs
        · rw [p1.same hfu] at h2
          exact p2.pre b2 s2 h2
        · cases hx' : x' with
          | error e => rw [hx'] at h2; cases h2
          | ok v =>
            obtain ⟨a2, s1'⟩ := v
            rw [p2.frozen hs]
            exact (p1.pre a2 s1' hx').trans (hnev b2 s2 h2 a2 s1' hx').1

theorem Pfx.bind {s : Eng M} {x x' : Except Err (α × Eng M)} {f f' : α × Eng M → Except Err (β × Eng M)}
    (hx : Pfx T0 o s x x')
    (hf : ∀ a s1, Pfx T0 o s1 (f (a, s1)) (f' (a, s1))) :
    Pfx T0 o s (x >>= f) (x' >>= f') :=
  Pfx.bind' hx (fun a s1 _ => (hf a s1).nev) (fun a s1 _ => (hf a s1).run)

/-- a step that does not involve the oracle, the counters, the table or the log -/
theorem Pfx.bind_same {γ : Type} {s : Eng M} (x : Except Err γ) {f f' : γ → Except Err (β × Eng M)}
    (hf : ∀ c, x = .ok c → Pfx T0 o s (f c) (f' c)) :
    Pfx T0 o s (x >>= f) (x >>= f') := by
  cases hx : x with
  | error e => exact Pfx.error s e
  | ok c => exact hf c hx

/-- moving to a start state with the same counters, table and log -/
theorem Pfx.start {s s0 : Eng M} {x x' : Except Err (α × Eng M)} (h : Pfx T0 o s0 x x')
    (hl : s.loads = s0.loads) (he : s.evals = s0.evals) (htw : TW s s0 := by exact ⟨rfl, rfl⟩) : Pfx T0 o s x x' := by
  have hrep : Rep T0 s → Rep T0 s0 := htw.rep
  constructor
  · intro a2 s2 h2
    obtain ⟨h1, h3⟩ := h.nev a2 s2 h2
    exact ⟨by rw [← htw.2]; exact h1, fun h0 => h3 (hrep h0)⟩
  · intro a s' hx
    have p := h.run a s' hx
    refine ⟨by have := p.loads; omega, by have := p.evals; omega, fun h0 => p.rep (hrep h0), ?_, p.same, p.pre⟩
    intro hs
    rw [p.frozen (hs.mono (by omega) (by omega)), htw.2]

/-- a step that does not involve the oracle -/
theorem Pfx.same (s : Eng M) (x : Except Err (α × Eng M))
    (hc : Sat x (fun r => s.loads ≤ r.2.loads ∧ s.evals ≤ r.2.evals ∧ r.2.st.depth = s.st.depth ∧
      r.2.hasTable = s.hasTable))
    (ht : Sat x (fun r => TW s r.2)) : Pfx T0 o s x x := by
  constructor
  · intro a2 s2 h2
    have := ht (a2, s2) h2
    exact ⟨this.suffix, this.rep⟩
  · intro a s' hx
    obtain ⟨h1, h2, _, _⟩ := hc (a, s') hx
    have htw := ht (a, s') hx
    exact ⟨h1, h2, htw.rep, fun _ => htw.2, fun _ => hx, fun a2 s2 h2 => by
      rw [hx] at h2; cases h2; exact List.suffix_refl _⟩

theorem Pfx.ite {s : Eng M} (c : Prop) [Decidable c] {x y x' y' : Except Err (α × Eng M)}
    (ht : c → Pfx T0 o s x x') (hf : ¬c → Pfx T0 o s y y') :
    Pfx T0 o s (if c then x else y) (if c then x' else y') := by
  by_cases h : c
  · simp only [h, if_true]; exact ht h
  · simp only [h, if_false]; exact hf h

end rel

/-! ### the generator loops -/

section loops
variable {T0 : Array (TEntry M)} {o : Oracle M} {σ ρ : Type}

/-- two loop bodies (the code under `o` and under `o.never`) are related pointwise -/
def PfxBody (T0 : Array (TEntry M)) (o : Oracle M)
    (body body' : M → P → σ → Eng M → Except Err (Ctl σ ρ × Eng M)) : Prop :=
  ∀ m c a s, Pfx T0 o s (body m c a s) (body' m c a s)

theorem andThen_nev {k' : σ → Eng M → Except Err (Ctl σ ρ × Eng M)}
    (hk : ∀ a s1, Nev T0 s1 (k' a s1)) (c' : Ctl σ ρ) (s1' : Eng M) (b2 : Ctl σ ρ) (s2 : Eng M)
    (h : Ctl.andThen (.ok (c', s1')) k' = .ok (b2, s2)) :
    s1'.wlog <:+ s2.wlog ∧ (Rep T0 s1' → Rep T0 s2) := by
  unfold Ctl.andThen at h
  cases c' with
  | next a => exact hk a s1' b2 s2 h
  | brk a => dsimp only at h; cases h; exact ⟨List.suffix_refl _, id⟩
  | ret r => dsimp only at h; cases h; exact ⟨List.suffix_refl _, id⟩

theorem Pfx.andThen {s : Eng M} {r r' : Except Err (Ctl σ ρ × Eng M)}
    {k k' : σ → Eng M → Except Err (Ctl σ ρ × Eng M)}
    (hr : Pfx T0 o s r r')
    (hk : ∀ a s1, Pfx T0 o s1 (k a s1) (k' a s1)) :
    Pfx T0 o s (Ctl.andThen r k) (Ctl.andThen r' k') := by
  have hkn : ∀ a s1, Nev T0 s1 (k' a s1) := fun a s1 => (hk a s1).nev
  -- the never-cancelled composite from the never-cancelled first part
  have hnev : ∀ b2 s2, Ctl.andThen r' k' = .ok (b2, s2) → ∀ c' s1', r' = .ok (c', s1') →
      s1'.wlog <:+ s2.wlog ∧ (Rep T0 s1' → Rep T0 s2) := by
    intro b2 s2 h c' s1' hr'
    rw [hr'] at h
    exact andThen_nev hkn c' s1' b2 s2 h
  constructor
  · intro b2 s2 h
    cases hr' : r' with
    | error e => rw [hr'] at h; unfold Ctl.andThen at h; cases h
    | ok v =>
      obtain ⟨c', s1'⟩ := v
      obtain ⟨h1, h2⟩ := hr.nev c' s1' hr'
      obtain ⟨h3, h4⟩ := hnev b2 s2 h c' s1' hr'
      exact ⟨h1.trans h3, fun h0 => h4 (h2 h0)⟩
  · intro b s' h
    cases hre : r with
    | error e => rw [hre] at h; unfold Ctl.andThen at h; cases h
    | ok v =>
      obtain ⟨c, s1⟩ := v
      rw [hre] at h
      have p1 := hr.run c s1 hre
      -- the log of the never-cancelled composite extends the log after the first part
      have hpre1 : ∀ b2 s2, Ctl.andThen r' k' = .ok (b2, s2) → s1.wlog <:+ s2.wlog := by
        intro b2 s2 h2
        cases hr' : r' with
        | error e => rw [hr'] at h2; unfold Ctl.andThen at h2; cases h2
        | ok v =>
          obtain ⟨c', s1'⟩ := v
          exact (p1.pre c' s1' hr').trans (hnev b2 s2 h2 c' s1' hr').1
      unfold Ctl.andThen at h
      cases c with
      | next a =>
        dsimp only at h
        have p2 := (hk a s1).run b s' h
        refine ⟨Nat.le_trans p1.loads p2.loads, Nat.le_trans p1.evals p2.evals, fun h0 => p2.rep (p1.rep h0), ?_, ?_, ?_⟩
        · intro hs
          rw [p2.frozen (hs.mono p1.loads p1.evals), p1.frozen hs]
        · intro hfu
          rw [p1.same (hfu.weaken p2.loads p2.evals)]
          exact p2.same hfu
        · intro b2 s2 h2
          rcases seen_or_falseUpTo o s1 with hfu | hs
          · rw [p1.same hfu] at h2
            exact p2.pre b2 s2 h2
          · rw [p2.frozen hs]
            exact hpre1 b2 s2 h2
      | brk a =>
        dsimp only at h
        cases h
        refine ⟨p1.loads, p1.evals, p1.rep, p1.frozen, fun hfu => by rw [p1.same hfu]; rfl, hpre1⟩
      | ret x =>
        dsimp only at h
        cases h
        refine ⟨p1.loads, p1.evals, p1.rep, p1.frozen, fun hfu => by rw [p1.same hfu]; rfl, hpre1⟩

theorem Pfx.refl_next (s : Eng M) (a : σ) :
    Pfx T0 o s (.ok (.next a, s) : Except Err (Ctl σ ρ × Eng M)) (.ok (.next a, s)) :=
  Pfx.ok s _ (Nat.le_refl _) (Nat.le_refl _)

variable {g : Game P M} {p : P} {body body' : M → P → σ → Eng M → Except Err (Ctl σ ρ × Eng M)}

theorem tryMove_pfx (hb : PfxBody T0 o body body') (m : M) (a : σ) (s : Eng M) :
    Pfx T0 o s (tryMove g p body m a s) (tryMove g p body' m a s) := by
  unfold tryMove
  cases g.apply p m with
  | ok c => exact hb m c a s
  | error e =>
    cases e with
    | illegal w => exact Pfx.refl_next s a
    | panic w => exact Pfx.error s _
    | hang w => exact Pfx.error s _

theorem runList_pfx (hb : PfxBody T0 o body body') (skip : M → Bool) (ms : List M) :
    ∀ (a : σ) (s : Eng M), Pfx T0 o s (runList g p body skip ms a s) (runList g p body' skip ms a s) := by
  induction ms with
  | nil => intro a s; simp only [runList]; exact Pfx.refl_next s a
  | cons m ms ih =>
    intro a s
    simp only [runList]
    by_cases hs : skip m = true
    · simp only [hs, if_true]; exact ih a s
    · simp only [hs]
      exact Pfx.andThen (tryMove_pfx hb m a s) (fun a1 s1 => ih a1 s1)

theorem iterate_pfx [DecidableEq M] (hb : PfxBody T0 o body body') (cfg : SOpts) (mg : MG M) (a : σ) (s : Eng M) :
    Pfx T0 o s (iterate g cfg o p mg body a s) (iterate g cfg o.never p mg body' a s) := by
  unfold iterate
  refine Pfx.andThen (Pfx.andThen ?_ ?_) ?_
  · unfold stage0
    cases mg.te with
    | none => exact Pfx.refl_next s a
    | some e => exact tryMove_pfx hb e.m a s
  · intro a1 s1
    unfold stage1
    cases mg.pv with
    | nil => exact Pfx.refl_next s1 a1
    | cons m rest =>
      dsimp only
      split
      · exact Pfx.refl_next s1 a1
      · exact tryMove_pfx hb m a1 s1
  · intro a1 s1
    unfold stage23
    cases respLookup mg.ply s1 with
    | error e => exact Pfx.error s1 _
    | ok r? =>
      dsimp only
      refine Pfx.andThen ?_ ?_
      · cases r? with
        | none => exact Pfx.refl_next s1 a1
        | some r => exact tryMove_pfx hb r a1 s1
      · intro a2 s2
        unfold stage3
        dsimp only
        split
        · exact (runList_pfx hb _ _ a2 _).start rfl rfl
        · exact runList_pfx hb _ _ a2 s2

end loops

end Search
