import TakVerif.Props.C04_selfplay
import TakVerif.Props.C01_closed
import TakVerif.Props.C02
import TakVerif.Proofs.TakGameEval
import TakVerif.Proofs.HeapValue

/-! `taktician selfplay`, one game against the rule book: the positions met strictly inside a game are unfinished
(`GameOver` is asked after every accepted move and ends the game), and along a game of non-pass moves from a
well-formed opening the bit-level replay and `GameOver` are the rule book's `Spec.step` and `Spec.outcome`
(C01 `move_refines`, C02 `gameOver_refines`). -/
namespace Tak.CmdSelfplay
open _root_.Spec (abs decode)

/-- the replay of `C04.applyAll` is the replay of C01's `Pos.applyAll` -/
theorem applyAll_eq (basis : Array W) : ∀ (ms : List Move) (p : Pos), C04.applyAll basis p ms = p.applyAll basis ms
  | [], _ => rfl
  | m :: ms, p => by
    simp only [C04.applyAll, Pos.applyAll]
    cases p.apply basis m with
    | ok q => exact applyAll_eq basis ms q
    | error e => rfl

/-- the position after EVERY non-empty prefix of `ms` (the whole list included) is one `GameOver` calls unfinished -/
def AllRunning (basis : Array W) : Pos → List Move → Prop
  | _, [] => True
  | p, m :: ms => ∀ q, p.apply basis m = .ok q → q.gameOver.1 = false ∧ AllRunning basis q ms

/-- how a game ended, with what is known about the positions on the way -/
inductive EndOf (basis : Array W) (p : Pos) (tc : Option TEIClient.TimeControl) (fuel : Nat) (added : List Move) (r : Result) : Prop where
  /-- the last accepted move finished the game; no earlier one did -/
  | rules (init : List Move) (last : Move) (hadd : added = init ++ [last]) (hrun : AllRunning basis p init)
      (hover : r.position.gameOver.1 = true) (hwin : r.winner = r.position.gameOver.2)
  | time (htc : tc.isSome = true) (hrun : AllRunning basis p added) (hwin : r.winner = r.position.toMove.flip)
  | cutoff (hlen : added.length = fuel) (hrun : AllRunning basis p added) (hwin : r.winner = .none)

theorem gameLoop_ends {σ : Type} (basis : Array W) (P1 P2 : Player σ) (dl : Bool) (sp : Spec) :
    ∀ (fuel : Nat) (s1 s2 : σ) (p : Pos) (tc : Option TEIClient.TimeControl) (ms : List Move)
      (calls : List (Option TEIClient.TimeControl)) (r : Result),
      gameLoop basis P1 P2 dl sp fuel s1 s2 p tc ms calls = .ok r →
      ∃ added, r.moves = ms ++ added ∧ C04.applyAll basis p added = .ok r.position ∧ EndOf basis p tc fuel added r := by
  intro fuel
  induction fuel with
  | zero =>
    intro s1 s2 p tc ms calls r h
    simp only [gameLoop, Except.ok.injEq] at h
    subst h
    exact ⟨[], by simp, rfl, .cutoff rfl trivial rfl⟩
  | succ fuel ih =>
    intro s1 s2 p tc ms calls r h
    simp only [gameLoop] at h
    split at h
    · rename_i hch
      simp only [Except.ok.injEq] at h
      subst h
      refine ⟨[], by simp, rfl, .time ?_ trivial rfl⟩
      cases tc with
      | none => simp at hch
      | some t => rfl
    · rename_i tc' hch
      have htc : tc'.isSome = tc.isSome := by
        cases tc with
        | none => simp only [Option.some.injEq] at hch; subst hch; rfl
        | some t =>
          simp only [Option.map_eq_some_iff] at hch
          obtain ⟨t', _, ht'⟩ := hch
          subst ht'; rfl
      split at h
      · cases h
      · cases h
      · rename_i m hans
        split at h
        · cases h
        · cases h
        · rename_i q hq
          split at h
          · rename_i hover
            simp only [Except.ok.injEq] at h
            subst h
            exact ⟨[m], rfl, by simp [C04.applyAll, hq], .rules [] m rfl trivial hover rfl⟩
          · rename_i hnot
            have hq0 : q.gameOver.1 = false := by
              cases hv : q.gameOver.1
              · rfl
              · exact absurd hv hnot
            obtain ⟨added, h1, h2, h3⟩ := ih _ _ q tc' (ms ++ [m]) _ r h
            have hcons : ∀ l, AllRunning basis q l → AllRunning basis p (m :: l) := by
              intro l hl q' hq'
              rw [hq] at hq'
              cases hq'
              exact ⟨hq0, hl⟩
            refine ⟨m :: added, by simpa using h1, C04.applyAll_cons basis p q _ m added hq h2, ?_⟩
            cases h3 with
            | rules init last hadd hrun hover hwin =>
              exact .rules (m :: init) last (by rw [hadd]; rfl) (hcons init hrun) hover hwin
            | time htc' hrun hwin => exact .time (by rw [← htc]; exact htc') (hcons added hrun) hwin
            | cutoff hlen hrun hwin => exact .cutoff (by simp [hlen]) (hcons added hrun) hwin

/-! ### the rule book's view of a replay -/

/-- rule book: the state after EVERY non-empty prefix of `ms` is unfinished -/
def SpecRunning : _root_.Spec.State → List _root_.Spec.Move → Prop
  | _, [] => True
  | s, m :: ms => ∀ s', _root_.Spec.step s m = some s' → (_root_.Spec.outcome s').over = false ∧ SpecRunning s' ms

/-- in terms of prefixes -/
theorem SpecRunning.prefix : ∀ (ms : List _root_.Spec.Move) (s : _root_.Spec.State), SpecRunning s ms →
    ∀ k s', 0 < k → k ≤ ms.length → stepAll s (ms.take k) = some s' → (_root_.Spec.outcome s').over = false
  | [], _, _, k, _, hk, hle, _ => by simp only [List.length_nil] at hle; omega
  | _ :: _, _, _, 0, _, hk, _, _ => by omega
  | m :: ms, s, hr, k + 1, s', _, hle, h => by
    simp only [List.take_succ_cons, stepAll] at h
    cases hs : _root_.Spec.step s m with
    | none => rw [hs] at h; cases h
    | some s1 =>
      rw [hs] at h
      simp only at h
      obtain ⟨h0, hr'⟩ := hr s1 hs
      cases k with
      | zero =>
        simp only [List.take_zero, stepAll, Option.some.injEq] at h
        subst h; exact h0
      | succ k =>
        simp only [List.length_cons] at hle
        exact SpecRunning.prefix ms s1 hr' (k + 1) s' (by omega) (by omega) h

/-- C01 + C02 along a game: on a well-formed position, with no pass and the 64-piece limit along the moves, "every
position met is unfinished for `GameOver`" is "every state met is unfinished for the rule book" -/
theorem specRunning_of_running (basis : Array W) : ∀ (ms : List Move) (p : Pos), WF basis p → MovesOK basis p ms →
    AllRunning basis p ms → SpecRunning (abs p) (ms.map decode)
  | [], _, _, _, _ => trivial
  | m :: ms, p, hwf, hok, hrun => by
    obtain ⟨hp, hlim, hrest⟩ := hok
    have hstep := move_refines_core C01.analyzeTotal hwf m hp hlim
    intro s' hs'
    cases hm : p.apply basis m with
    | error e =>
      rw [hm] at hstep
      simp only at hstep
      rw [hstep] at hs'; cases hs'
    | ok q =>
      rw [hm] at hstep
      simp only at hstep
      rw [hstep.1] at hs'
      simp only [Option.some.injEq] at hs'
      subst hs'
      obtain ⟨hq0, hrun'⟩ := hrun q hm
      have hrw : Roads.RoadWF q := Search.roadWF_of_wf basis q hstep.2 (Pos.apply_analyzed hm)
      have hgo := C02.gameOver_refines q hrw
      refine ⟨?_, specRunning_of_running basis ms q hstep.2 (hrest q hm) hrun'⟩
      rw [hgo] at hq0
      exact hq0

/-- the position a non-empty replay ends in went through `analyze()` -/
theorem applyAll_analyzed (basis : Array W) : ∀ (ms : List Move) (p q : Pos), ms ≠ [] →
    C04.applyAll basis p ms = .ok q → q.analyze = some q
  | [], _, _, hne, _ => absurd rfl hne
  | m :: ms, p, q, _, h => by
    simp only [C04.applyAll] at h
    split at h
    · rename_i q1 hq1
      cases ms with
      | nil => simp only [C04.applyAll, Except.ok.injEq] at h; subst h; exact Pos.apply_analyzed hq1
      | cons m' ms' => exact applyAll_analyzed basis (m' :: ms') q1 q (by simp) h
    · cases h

theorem movesOK_left (basis : Array W) : ∀ (a b : List Move) (p : Pos), MovesOK basis p (a ++ b) → MovesOK basis p a
  | [], _, _, _ => trivial
  | m :: a, b, p, h => by
    simp only [List.cons_append, MovesOK] at h ⊢
    exact ⟨h.1, h.2.1, fun q hq => movesOK_left basis a b q (h.2.2 q hq)⟩

/-- the prefix form, for the bit-level replay -/
theorem running_prefix (basis : Array W) (ms : List Move) (p : Pos) (hwf : WF basis p) (hok : MovesOK basis p ms)
    (hrun : AllRunning basis p ms) (k : Nat) (s' : _root_.Spec.State) (hk : 0 < k) (hle : k ≤ ms.length)
    (h : stepAll (abs p) ((ms.map decode).take k) = some s') : (_root_.Spec.outcome s').over = false :=
  SpecRunning.prefix _ _ (specRunning_of_running basis ms p hwf hok hrun) k s' hk (by simpa using hle) h

end Tak.CmdSelfplay
