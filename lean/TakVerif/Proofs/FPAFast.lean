import TakVerif.Proofs.FPAMini
import TakVerif.Proofs.SpecConserve

/-! A faster evaluator of the opening game on the sparse board (`fcheck`) and the proof that a `true`
answer of it implies a `true` answer of `Proofs.FPA.check` (`fcheck_check`), hence `C20.Holds`.

`check` tests, at every node where the move is free, *every* move of the generator `candsOf` (all
placements on all empty squares, ≈ 3·size² moves) against the rule's own acceptance check, although
from ply 2 on the rules of the double-stack and cairn variants accept placements on a handful of
squares only.  `fcheck` iterates over `fastCands` instead: the slides from the (few) occupied squares
of the sparse board plus the flat placements on the squares `nearSquares` that the rule can accept at
that ply.  `fast_complete` proves, for every board size ≤ 64 and every remembered-square content, that
no accepted legal move of `candsOf` is left out. -/
set_option linter.unusedSimpArgs false
set_option linter.unusedVariables false
namespace Proofs.FPAFast
open Tak Tak.FPA Spec Spec.FPA Proofs.FPA Proofs.FPAMini

/-! ### `candsOf`, one square at a time -/

/-- the moves `candsOf` lists for the square `(x, y)` with content `sq` -/
def cellOf (n : Nat) (mover : Color) (x y : Nat) (sq : Spec.Square) : List Tak.Move :=
  let xi : Int := x
  let yi : Int := y
  match sq with
  | [] => [(⟨xi, yi, Facts.mtPlaceFlat, 0⟩ : Tak.Move), ⟨xi, yi, Facts.mtPlaceStanding, 0⟩, ⟨xi, yi, Facts.mtPlaceCapstone, 0⟩]
  | t :: rest =>
    if t.color ≠ mover then [] else
    let h := min (rest.length + 1) n
    [(Facts.mtSlideLeft, x), (Facts.mtSlideRight, n - x - 1), (Facts.mtSlideDown, y), (Facts.mtSlideUp, n - y - 1)].flatMap
      fun (ty, room) =>
        (List.range h).flatMap fun c =>
          ((comps (c+1) (c+1)).filter (fun d => d.length ≤ room)).map fun d => (⟨xi, yi, ty, mkSlides d⟩ : Tak.Move)

theorem candsOf_eq (n : Nat) (mover : Color) (sq : Nat → Spec.Square) :
    candsOf n mover sq =
      (List.range n).flatMap fun y => (List.range n).flatMap fun x => cellOf n mover x y (sq (x + y * n)) := rfl

theorem mem_candsOf {n : Nat} {mover : Color} {sq : Nat → Spec.Square} {m : Tak.Move}
    (h : m ∈ candsOf n mover sq) : ∃ x y, x < n ∧ y < n ∧ m ∈ cellOf n mover x y (sq (x + y * n)) := by
  rw [candsOf_eq] at h
  simp only [List.mem_flatMap, List.mem_range] at h
  obtain ⟨y, hy, x, hx, hm⟩ := h
  exact ⟨x, y, hx, hy, hm⟩

/-! ### the occupied squares of the sparse board -/

/-- the keys of the sparse board, each once -/
def keysOf : List (Nat × Square) → List Nat
  | [] => []
  | (k, _) :: rest => if (keysOf rest).contains k then keysOf rest else k :: keysOf rest

theorem mem_keysOf (i : Nat) : ∀ l : List (Nat × Square), lookup i l ≠ [] → i ∈ keysOf l := by
  intro l
  induction l with
  | nil => intro h; exact absurd rfl h
  | cons e rest ih =>
    obtain ⟨k, sq⟩ := e
    intro h
    simp only [lookup] at h
    by_cases hk : k = i
    · subst hk
      by_cases hc : k ∈ keysOf rest
      · simp [keysOf, hc]
      · simp [keysOf, hc]
    · simp only [hk, if_false] at h
      have := ih h
      by_cases hc : k ∈ keysOf rest
      · simp [keysOf, hc, this]
      · simp [keysOf, hc, this]

/-- the slides `candsOf` lists, generated from the occupied squares only -/
def slidesFast (b : MB) : List Tak.Move :=
  (keysOf b.stones).flatMap fun k =>
    if (b.get k).isEmpty then [] else cellOf b.size b.toMove (k % b.size) (k / b.size) (b.get k)

theorem mem_slidesFast (b : MB) (x y : Nat) (hx : x < b.size) (hy : y < b.size) (m : Tak.Move)
    (hne : b.get (x + y * b.size) ≠ [])
    (hm : m ∈ cellOf b.size b.toMove x y (b.get (x + y * b.size))) : m ∈ slidesFast b := by
  unfold slidesFast
  rw [List.mem_flatMap]
  refine ⟨x + y * b.size, ?_, ?_⟩
  · apply mem_keysOf
    intro h0
    apply hne
    unfold MB.get
    rw [h0]
    split <;> rfl
  · have he : (b.get (x + y * b.size)).isEmpty = false := by
      cases hg : b.get (x + y * b.size) with
      | nil => exact absurd hg hne
      | cons _ _ => rfl
    have h1 : (x + y * b.size) % b.size = x := by
      rw [Nat.add_mul_mod_self_right]; exact Nat.mod_eq_of_lt hx
    have h2 : (x + y * b.size) / b.size = y := by
      have hpos : 0 < b.size := by omega
      rw [Nat.add_mul_div_right _ _ hpos, Nat.div_eq_of_lt hx]; omega
    rw [he, h1, h2]
    simpa using hm

/-! ### the squares a placement can be accepted on -/

def allSquares (n : Nat) : List (Int × Int) :=
  (List.range n).flatMap fun (y : Nat) => (List.range n).map fun (x : Nat) => ((x : Int), (y : Int))

theorem mem_allSquares {n x y : Nat} (hx : x < n) (hy : y < n) : ((x : Int), (y : Int)) ∈ allSquares n := by
  unfold allSquares
  simp only [List.mem_flatMap, List.mem_range, List.mem_map]
  exact ⟨y, hy, x, hx, rfl⟩

/-- the 4×4 block of squares around the centre that contains every square `isCenterAdjacent` accepts -/
def centreBlock (m : Int) : List (Int × Int) :=
  [(m-2, m-2), (m-1, m-2), (m, m-2), (m+1, m-2),
   (m-2, m-1), (m-1, m-1), (m, m-1), (m+1, m-1),
   (m-2, m), (m-1, m), (m, m), (m+1, m),
   (m-2, m+1), (m-1, m+1), (m, m+1), (m+1, m+1)]

/-- the squares on which the variant's rule can accept a placement at this ply -/
def nearSquares (var : Variant) (r : Rule) (size : Nat) (ply : Int) : List (Int × Int) :=
  if ply = 0 ∨ ply = 1 then allSquares size else
  match var with
  | .center => []
  | .doubleStack =>
    if ply = 3 then
      let cx := wrap8 r.blackPlaceX
      let cy := wrap8 r.blackPlaceY
      [(cx - 1, cy), (cx + 1, cy), (cx, cy - 1), (cx, cy + 1)]
    else []
  | .cairn => if ply = 2 ∨ ply = 3 then centreBlock ((size / 2 : Nat) : Int) else []

/-- where the shortened candidate list is used -/
def usesFast (var : Variant) (b : MB) : Bool :=
  (var == .doubleStack || var == .cairn) && decide (0 ≤ b.ply) && decide (b.ply ≤ 5) && decide (b.size ≤ 64)

def fastCands (var : Variant) (r : Rule) (b : MB) : List Tak.Move :=
  if usesFast var b then
    slidesFast b ++ (nearSquares var r b.size b.ply).map fun (x, y) => place x y
  else miniBoard.cands b

theorem mid_mview (b : MB) : mid (mview b) = ((b.size / 2 : Nat) : Int) := rfl

theorem isCenterAdjacent_block (v : View) (x y : Int) (h : isCenterAdjacent v x y = true) :
    (x, y) ∈ centreBlock (mid v) := by
  have hx : x = mid v - 2 ∨ x = mid v - 1 ∨ x = mid v ∨ x = mid v + 1 := by
    unfold isCenterAdjacent at h
    simp only [] at h
    split at h
    · simp only [Bool.or_eq_true, Bool.and_eq_true, beq_iff_eq] at h
      omega
    · split at h
      · rename_i h1
        simp only [Bool.and_eq_true, decide_eq_true_eq] at h1
        omega
      · split at h
        · rename_i h1
          simp only [Bool.and_eq_true, decide_eq_true_eq] at h1
          omega
        · exact absurd h (by decide)
  have hy : y = mid v - 2 ∨ y = mid v - 1 ∨ y = mid v ∨ y = mid v + 1 := by
    unfold isCenterAdjacent at h
    simp only [] at h
    split at h
    · simp only [Bool.or_eq_true, Bool.and_eq_true, beq_iff_eq] at h
      omega
    · split at h
      · rename_i h1
        simp only [Bool.and_eq_true, decide_eq_true_eq] at h1
        omega
      · split at h
        · rename_i h1
          simp only [Bool.and_eq_true, decide_eq_true_eq] at h1
          omega
        · exact absurd h (by decide)
  unfold centreBlock
  rcases hx with rfl | rfl | rfl | rfl <;> rcases hy with rfl | rfl | rfl | rfl <;> simp

theorem ds_adjacent (mx my bx bY : Int) (n : Nat) (hn : n ≤ 64) (hx0 : 0 ≤ mx) (hx : mx < n) (hy0 : 0 ≤ my) (hy : my < n)
    (h : ((abs8 (wrap8 (mx - bx)) == 1 && abs8 (wrap8 (my - bY)) == 0) ||
          (abs8 (wrap8 (mx - bx)) == 0 && abs8 (wrap8 (my - bY)) == 1)) = true) :
    (mx, my) ∈ [(wrap8 bx - 1, wrap8 bY), (wrap8 bx + 1, wrap8 bY), (wrap8 bx, wrap8 bY - 1), (wrap8 bx, wrap8 bY + 1)] := by
  simp only [List.mem_cons, Prod.mk.injEq, List.mem_nil_iff, or_false]
  simp only [Bool.or_eq_true, Bool.and_eq_true, beq_iff_eq] at h
  unfold abs8 wrap8 at h
  unfold wrap8
  split at h <;> split at h <;> omega

theorem acc_cairn2 (r : Rule) (v : View) (x y : Int) (hp : v.ply = 2) :
    accepted .cairn r v ⟨x, y, Facts.mtPlaceFlat, 0⟩ = isCenterAdjacent v x y := by
  simp [accepted, legalMove, cairnLegal, hp]

theorem acc_cairn3 (r : Rule) (v : View) (x y : Int) (hp : v.ply = 3) :
    accepted .cairn r v ⟨x, y, Facts.mtPlaceFlat, 0⟩ =
      (isCenterAdjacent v x y && distance x y r.whitePlaceX r.whitePlaceY == 2) := by
  simp [accepted, legalMove, cairnLegal, hp]

theorem acc_ds3 (r : Rule) (v : View) (x y : Int) (hp : v.ply = 3) :
    accepted .doubleStack r v ⟨x, y, Facts.mtPlaceFlat, 0⟩ =
      ((abs8 (wrap8 (x - r.blackPlaceX)) == 1 && abs8 (wrap8 (y - r.blackPlaceY)) == 0) ||
       (abs8 (wrap8 (x - r.blackPlaceX)) == 0 && abs8 (wrap8 (y - r.blackPlaceY)) == 1)) := by
  simp [accepted, legalMove, doubleStackLegal, hp]

/-- at the plies where only slides are accepted, a placement is not -/
theorem acc_place_slide_ply (var : Variant) (r : Rule) (v : View) (x y : Int) (ty : Nat)
    (hty : ty = Facts.mtPlaceFlat ∨ ty = Facts.mtPlaceStanding ∨ ty = Facts.mtPlaceCapstone)
    (hv : (var = .doubleStack ∧ (v.ply = 2 ∨ v.ply = 4 ∨ v.ply = 5)) ∨ (var = .cairn ∧ (v.ply = 4 ∨ v.ply = 5))) :
    accepted var r v ⟨x, y, ty, 0⟩ = false := by
  rcases hv with ⟨rfl, hp | hp | hp⟩ | ⟨rfl, hp | hp⟩ <;> rcases hty with rfl | rfl | rfl <;>
    simp [accepted, legalMove, doubleStackLegal, cairnLegal, hp, destOf, Move.dest, Move.isSlide,
      Facts.mtPlaceFlat, Facts.mtPlaceStanding, Facts.mtPlaceCapstone, Facts.mtSlideLeft, bind, Except.bind]

/-- at the plies where only flats are accepted, a wall or capstone is not -/
theorem acc_nonflat (var : Variant) (r : Rule) (v : View) (x y : Int) (ty : Nat)
    (hty : ty = Facts.mtPlaceStanding ∨ ty = Facts.mtPlaceCapstone)
    (hv : (var = .doubleStack ∧ v.ply = 3) ∨ (var = .cairn ∧ (v.ply = 2 ∨ v.ply = 3))) :
    accepted var r v ⟨x, y, ty, 0⟩ = false := by
  rcases hv with ⟨rfl, hp⟩ | ⟨rfl, hp | hp⟩ <;> rcases hty with rfl | rfl <;>
    simp [accepted, legalMove, doubleStackLegal, cairnLegal, hp,
      Facts.mtPlaceFlat, Facts.mtPlaceStanding, Facts.mtPlaceCapstone]

/-- a flat placement the rule accepts is on one of `nearSquares` -/
theorem near_of_accepted (var : Variant) (r : Rule) (b : MB) (x y : Nat) (hx : x < b.size) (hy : y < b.size)
    (hu : usesFast var b = true)
    (hacc : accepted var r (mview b) ⟨x, y, Facts.mtPlaceFlat, 0⟩ = true) :
    ((x : Int), (y : Int)) ∈ nearSquares var r b.size b.ply := by
  unfold usesFast at hu
  simp only [Bool.and_eq_true, Bool.or_eq_true, decide_eq_true_eq, beq_iff_eq] at hu
  obtain ⟨⟨⟨hv, h0⟩, h5⟩, hs⟩ := hu
  have hply : (mview b).ply = b.ply := rfl
  have hcases : b.ply = 0 ∨ b.ply = 1 ∨ b.ply = 2 ∨ b.ply = 3 ∨ b.ply = 4 ∨ b.ply = 5 := by omega
  unfold nearSquares
  rcases hcases with hp | hp | hp | hp | hp | hp
  · simp only [hp, true_or, if_true]; exact mem_allSquares hx hy
  · simp only [hp, or_true, if_true]; exact mem_allSquares hx hy
  · rcases hv with rfl | rfl
    · rw [acc_place_slide_ply _ r _ _ _ _ (Or.inl rfl) (Or.inl ⟨rfl, Or.inl (hply.trans hp)⟩)] at hacc
      exact absurd hacc (by decide)
    · rw [acc_cairn2 r _ _ _ (hply.trans hp)] at hacc
      simp only [hp, show ¬((2:Int) = 0 ∨ (2:Int) = 1) by omega, if_false, true_or, if_true]
      exact isCenterAdjacent_block _ _ _ hacc
  · rcases hv with rfl | rfl
    · rw [acc_ds3 r _ _ _ (hply.trans hp)] at hacc
      simp only [hp, show ¬((3:Int) = 0 ∨ (3:Int) = 1) by omega, if_false, if_true]
      exact ds_adjacent _ _ _ _ b.size hs (by omega) (by omega) (by omega) (by omega) hacc
    · rw [acc_cairn3 r _ _ _ (hply.trans hp), Bool.and_eq_true] at hacc
      simp only [hp, show ¬((3:Int) = 0 ∨ (3:Int) = 1) by omega, if_false, or_true, if_true]
      exact isCenterAdjacent_block _ _ _ hacc.1
  · rw [acc_place_slide_ply _ r _ _ _ _ (Or.inl rfl) (by
      rcases hv with rfl | rfl
      · exact Or.inl ⟨rfl, Or.inr (Or.inl (hply.trans hp))⟩
      · exact Or.inr ⟨rfl, Or.inl (hply.trans hp)⟩)] at hacc
    exact absurd hacc (by decide)
  · rw [acc_place_slide_ply _ r _ _ _ _ (Or.inl rfl) (by
      rcases hv with rfl | rfl
      · exact Or.inl ⟨rfl, Or.inr (Or.inr (hply.trans hp))⟩
      · exact Or.inr ⟨rfl, Or.inr (hply.trans hp)⟩)] at hacc
    exact absurd hacc (by decide)

/-- a wall or capstone placement is never both accepted and legal during the scripted plies -/
theorem nonflat_rejected (var : Variant) (r : Rule) (b : MB) (x y : Int) (ty : Nat)
    (hty : ty = Facts.mtPlaceStanding ∨ ty = Facts.mtPlaceCapstone)
    (hu : usesFast var b = true)
    (hacc : accepted var r (mview b) ⟨x, y, ty, 0⟩ = true)
    (hst : (mstep b (Spec.decode ⟨x, y, ty, 0⟩)).isSome = true) : False := by
  unfold usesFast at hu
  simp only [Bool.and_eq_true, Bool.or_eq_true, decide_eq_true_eq, beq_iff_eq] at hu
  obtain ⟨⟨⟨hv, h0⟩, h5⟩, hs⟩ := hu
  have hply : (mview b).ply = b.ply := rfl
  by_cases hlt : b.ply < 2
  · -- the rule book: only flats on the first two plies
    rcases hty with rfl | rfl
    · have : Spec.decode ⟨x, y, Facts.mtPlaceStanding, 0⟩ = .place x y .standing := by
        simp [Spec.decode, Facts.mtPlaceFlat, Facts.mtPlaceStanding]
      rw [this] at hst
      unfold mstep at hst
      by_cases hb : (!b.onBoard x y) = true
      · simp [hb] at hst
      · simp [hb, hlt] at hst
    · have : Spec.decode ⟨x, y, Facts.mtPlaceCapstone, 0⟩ = .place x y .capstone := by
        simp [Spec.decode, Facts.mtPlaceFlat, Facts.mtPlaceStanding, Facts.mtPlaceCapstone]
      rw [this] at hst
      unfold mstep at hst
      by_cases hb : (!b.onBoard x y) = true
      · simp [hb] at hst
      · simp [hb, hlt] at hst
  · have hcases : b.ply = 2 ∨ b.ply = 3 ∨ b.ply = 4 ∨ b.ply = 5 := by omega
    have hty3 : ty = Facts.mtPlaceFlat ∨ ty = Facts.mtPlaceStanding ∨ ty = Facts.mtPlaceCapstone := Or.inr hty
    have : accepted var r (mview b) ⟨x, y, ty, 0⟩ = false := by
      rcases hcases with hp | hp | hp | hp <;> rcases hv with rfl | rfl
      · exact acc_place_slide_ply _ r _ _ _ _ hty3 (Or.inl ⟨rfl, Or.inl (hply.trans hp)⟩)
      · exact acc_nonflat _ r _ _ _ _ hty (Or.inr ⟨rfl, Or.inl (hply.trans hp)⟩)
      · exact acc_nonflat _ r _ _ _ _ hty (Or.inl ⟨rfl, hply.trans hp⟩)
      · exact acc_nonflat _ r _ _ _ _ hty (Or.inr ⟨rfl, Or.inr (hply.trans hp)⟩)
      · exact acc_place_slide_ply _ r _ _ _ _ hty3 (Or.inl ⟨rfl, Or.inr (Or.inl (hply.trans hp))⟩)
      · exact acc_place_slide_ply _ r _ _ _ _ hty3 (Or.inr ⟨rfl, Or.inl (hply.trans hp)⟩)
      · exact acc_place_slide_ply _ r _ _ _ _ hty3 (Or.inl ⟨rfl, Or.inr (Or.inr (hply.trans hp))⟩)
      · exact acc_place_slide_ply _ r _ _ _ _ hty3 (Or.inr ⟨rfl, Or.inr (hply.trans hp)⟩)
    rw [this] at hacc
    exact absurd hacc (by decide)

/-- **no accepted legal move is left out of the shortened candidate list** -/
theorem fast_complete (var : Variant) (r : Rule) (b : MB) (m : Tak.Move)
    (hm : m ∈ miniBoard.cands b)
    (hacc : accepted var r (mview b) m = true)
    (hst : (mstep b (Spec.decode m)).isSome = true) : m ∈ fastCands var r b := by
  unfold fastCands
  by_cases hu : usesFast var b = true
  · rw [if_pos hu]
    obtain ⟨x, y, hx, hy, hcell⟩ := mem_candsOf hm
    rw [List.mem_append]
    cases hg : b.get (x + y * b.size) with
    | cons t rest =>
      left
      exact mem_slidesFast b x y hx hy m (by rw [hg]; simp) hcell
    | nil =>
      right
      rw [hg] at hcell
      simp only [cellOf, List.mem_cons, List.mem_nil_iff, or_false] at hcell
      rcases hcell with rfl | rfl | rfl
      · rw [List.mem_map]
        exact ⟨((x : Int), (y : Int)), near_of_accepted var r b x y hx hy hu hacc, rfl⟩
      · exact (nonflat_rejected var r b x y _ (Or.inl rfl) hu hacc hst).elim
      · exact (nonflat_rejected var r b x y _ (Or.inr rfl) hu hacc hst).elim
  · rw [if_neg hu]; exact hm

/-! ### after the last scripted ply

From ply 6 on the double-stack and cairn rules script nothing and accept everything; a state there
is `good` as soon as the move that led to it was accepted. -/

theorem mstep_ply (b : MB) (m : Spec.Move) (q : MB) (h : mstep b m = some q) : q.ply = b.ply + 1 := by
  have h1 : Spec.step (toState b) m = some (toState q) := by rw [step_hom, h]; rfl
  exact (SpecProofs.step_frame _ _ _ h1).1

theorem getMove_late (var : Variant) (r : Rule) (v : View) (hv : var = .doubleStack ∨ var = .cairn)
    (hp : 6 ≤ v.ply) : getMove var r v = .ok none := by
  have h2 : ¬ v.ply = 2 := by omega
  have h3 : ¬ v.ply = 3 := by omega
  have h4 : ¬ v.ply = 4 := by omega
  have h5 : ¬ v.ply = 5 := by omega
  rcases hv with rfl | rfl <;> simp [getMove, h2, h3, h4, h5]

section
variable (var : Variant) (color : Color)

/-- a state from ply 6 on whose last move the rule accepted is `good` -/
theorem good_late (t : St MB) (p : MB) (m : Tak.Move) (hprev : t.prev = some (p, m))
    (hacc : accepted var t.rule (mview p) m = true) (hply : 6 ≤ t.cur.ply)
    (hv : var = .doubleStack ∨ var = .cairn) : good miniBoard var color t = true := by
  unfold good turn friendlyGetMove
  have hpos : (miniBoard.view t.cur).ply > 0 := by
    show t.cur.ply > 0
    omega
  unfold accepted at hacc
  cases hl : legalMove var t.rule (mview p) m with
  | error e => simp [hl] at hacc
  | ok v =>
    obtain ⟨r', ok⟩ := v
    simp only [hl] at hacc
    subst hacc
    have hg : getMove var r' (mview t.cur) = .ok none := getMove_late var r' _ hv hply
    have hpos' : 0 < (mview t.cur).ply := hpos
    by_cases hc : t.cur.toMove = color
    · simp [hprev, hpos', hl, hc, hg, miniBoard, bind, Except.bind]
    · simp [hprev, hpos', hl, hc, miniBoard, bind, Except.bind]

/-- the node is at the last scripted ply or later: its successors need no evaluation -/
def isLast (b : MB) : Bool := (var == .doubleStack || var == .cairn) && decide (5 ≤ b.ply)

/-! ### the evaluator -/

/-- `Proofs.FPA.check` on the sparse board with the shortened candidate lists; at the last level
(`n = 0`, ply ≥ 5) the successors are not built: they are good when the move was accepted (`good_late`) -/
def fcheck : Nat → St MB → Bool
  | 0, s => good miniBoard var color s
  | n+1, s =>
    match turn miniBoard var color s with
    | .error _ => false
    | .ok (_, .resign) => !s.lastScripted
    | .ok (r, .scripted m) =>
      match mstep s.cur (Spec.decode m) with
      | none => false
      | some q =>
        if (n == 0 && isLast var s.cur) = true then accepted var r (mview s.cur) m
        else succ FM r s.cur m q true (fcheck n)
    | .ok (r, _) =>
      if (n == 0 && isLast var s.cur) = true then true else
      (fastCands var r s.cur).all fun m =>
        !(accepted var r (mview s.cur) m) ||
        match mstep s.cur (Spec.decode m) with
        | none => true
        | some q => succ FM r s.cur m q false (fcheck n)

theorem good_child (s : St MB) (r : Rule) (m : Tak.Move) (q : MB) (sc : Bool)
    (hl : isLast var s.cur = true) (hacc : accepted var r (mview s.cur) m = true)
    (hs : mstep s.cur (Spec.decode m) = some q) :
    good miniBoard var color { rule := r, cur := q, prev := some (s.cur, m), lastScripted := sc } = true := by
  unfold isLast at hl
  simp only [Bool.and_eq_true, Bool.or_eq_true, beq_iff_eq, decide_eq_true_eq] at hl
  have := mstep_ply _ _ _ hs
  exact good_late var color _ s.cur m rfl hacc (by show 6 ≤ q.ply; omega) hl.1

theorem fcheck_check : ∀ (n : Nat) (s : St MB), fcheck var color n s = true → check miniBoard FM var color n s = true := by
  intro n
  induction n with
  | zero => intro s h; exact h
  | succ n ih =>
    intro s h
    unfold fcheck at h
    unfold check
    cases ht : turn miniBoard var color s with
    | error e => simp [ht] at h
    | ok v =>
      obtain ⟨r, rep⟩ := v
      cases rep with
      | resign => simpa [ht] using h
      | scripted m =>
        simp only [ht] at h ⊢
        cases hs : miniBoard.step s.cur (Spec.decode m) with
        | none =>
          have hs' : mstep s.cur (Spec.decode m) = none := hs
          simp [hs'] at h
        | some q =>
          have hs' : mstep s.cur (Spec.decode m) = some q := hs
          simp only [hs', succ_eq] at h ⊢
          by_cases hc : (n == 0 && isLast var s.cur) = true
          · rw [if_pos hc] at h
            simp only [Bool.and_eq_true, beq_iff_eq] at hc
            obtain ⟨rfl, hl⟩ := hc
            exact good_child var color s r m q true hl h hs'
          · rw [if_neg hc] at h
            exact ih _ h
      | notMyTurn =>
        simp only [ht] at h ⊢
        rw [List.all_eq_true]
        intro m hm
        have hv : miniBoard.view s.cur = mview s.cur := rfl
        rw [hv]
        by_cases ha : accepted var r (mview s.cur) m = true
        · cases hs : miniBoard.step s.cur (Spec.decode m) with
          | none => simp
          | some q =>
            have hs' : mstep s.cur (Spec.decode m) = some q := hs
            simp only [ha, Bool.not_true, Bool.false_or, succ_eq]
            by_cases hc : (n == 0 && isLast var s.cur) = true
            · simp only [Bool.and_eq_true, beq_iff_eq] at hc
              obtain ⟨rfl, hl⟩ := hc
              exact good_child var color s r m q false hl ha hs'
            · rw [if_neg hc, List.all_eq_true] at h
              have hin := fast_complete var r s.cur m hm ha (by rw [hs']; rfl)
              have := h m hin
              simp only [ha, hs', Bool.not_true, Bool.false_or, succ_eq] at this
              exact ih _ this
        · simp [ha]
      | search =>
        simp only [ht] at h ⊢
        rw [List.all_eq_true]
        intro m hm
        have hv : miniBoard.view s.cur = mview s.cur := rfl
        rw [hv]
        by_cases ha : accepted var r (mview s.cur) m = true
        · cases hs : miniBoard.step s.cur (Spec.decode m) with
          | none => simp
          | some q =>
            have hs' : mstep s.cur (Spec.decode m) = some q := hs
            simp only [ha, Bool.not_true, Bool.false_or, succ_eq]
            by_cases hc : (n == 0 && isLast var s.cur) = true
            · simp only [Bool.and_eq_true, beq_iff_eq] at hc
              obtain ⟨rfl, hl⟩ := hc
              exact good_child var color s r m q false hl ha hs'
            · rw [if_neg hc, List.all_eq_true] at h
              have hin := fast_complete var r s.cur m hm ha (by rw [hs']; rfl)
              have := h m hin
              simp only [ha, hs', Bool.not_true, Bool.false_or, succ_eq] at this
              exact ih _ this
        · simp [ha]

end

section
variable (var : Variant) (color : Color)

/-! ### cutting the evaluation at a free node (cf. `Proofs.FPA.checkAt`) -/

/-- the conjunct of `fcheck (n+1) s` for the `i`-th candidate of a node where the move is free -/
def fcheckAt (n : Nat) (s : St MB) (r : Rule) (i : Nat) : Bool :=
  match (fastCands var r s.cur)[i]? with
  | none => true
  | some m =>
    !(accepted var r (mview s.cur) m) ||
    match mstep s.cur (Spec.decode m) with
    | none => true
    | some q => succ FM r s.cur m q false (fcheck var color n)

theorem fcheck_of_shards (n : Nat) (s : St MB) (r : Rule) (rep : Reply)
    (ht : turn miniBoard var color s = .ok (r, rep)) (hrep : rep = .notMyTurn ∨ rep = .search)
    (h : ∀ i, i < (fastCands var r s.cur).length → fcheckAt var color n s r i = true) :
    fcheck var color (n+1) s = true := by
  unfold fcheck
  rcases hrep with rfl | rfl
  all_goals (
    simp only [ht]
    split
    · rfl
    · rw [List.all_eq_true]
      intro m hm
      obtain ⟨i, hi, rfl⟩ := List.getElem_of_mem hm
      have := h i hi
      unfold fcheckAt at this
      simpa [List.getElem?_eq_getElem hi] using this)

end

end Proofs.FPAFast
