import TakVerif.Proofs.FPAFrameNear

/-! The frame property of the cairn variant, game level: two states of the opening game from ply 2 on whose
boards are related by `BR` (`SR`) have the same evaluation (`check_frame`: what `check` proves for one it
proves for the other). -/
set_option linter.unusedSimpArgs false
set_option linter.unusedVariables false
namespace Proofs.FPAFrame
open Tak Tak.FPA Spec Spec.FPA Proofs.FPA Proofs.FPAMini Proofs.FPAFast

theorem mstep_size (b : MB) (m : Spec.Move) (q : MB) (h : mstep b m = some q) : q.size = b.size := by
  have h1 : Spec.step (toState b) m = some (toState q) := by rw [step_hom, h]; rfl
  exact (SpecProofs.step_frame _ _ _ h1).2.1

/-- the frame relation between two states of the cairn opening at ply ≥ 2, `n` moves before ply 6 at most -/
structure SR (n : Nat) (s s' : St MB) : Prop where
  rule : s.rule = s'.rule
  ls : s.lastScripted = s'.lastScripted
  br : BR s.cur s'.cur
  h4 : 4 ≤ s.cur.size
  h64 : s.cur.size ≤ 64
  ply2 : 2 ≤ s.cur.ply
  plyn : s.cur.ply + n ≤ 6
  prev : ∃ p pm p' pm', s.prev = some (p, pm) ∧ s'.prev = some (p', pm') ∧ p.size = s.cur.size ∧
    p.ply + 1 = s.cur.ply ∧ ∀ r, cairnLegal r (mview p) pm = cairnLegal r (mview p') pm'

/-! ### `Friendly.GetMove` on a state with a previous move -/

/-- `turn` spelled out -/
def turnOf (color : Color) (s : St MB) (p : MB) (pm : Tak.Move) : R (Rule × Reply) :=
  match cairnLegal s.rule (mview p) pm with
  | .error e => .error e
  | .ok (r, ok) =>
    if ok = false then .ok (r, .resign) else
    if s.cur.toMove ≠ color then .ok (r, .notMyTurn) else
    match getMove .cairn r (mview s.cur) with
    | .error e => .error e
    | .ok (some m) => .ok (r, .scripted m)
    | .ok none => .ok (r, .search)

theorem turn_eq (color : Color) (s : St MB) (p : MB) (pm : Tak.Move) (hprev : s.prev = some (p, pm))
    (hply : 0 < s.cur.ply) : turn miniBoard .cairn color s = turnOf color s p pm := by
  unfold turn friendlyGetMove turnOf
  have hv : (mview s.cur).ply > 0 := hply
  simp only [hprev, Option.map, legalMove, miniBoard, bind, Except.bind, if_pos hv]
  cases cairnLegal s.rule (mview p) pm with
  | error e => rfl
  | ok v =>
    obtain ⟨r, ok⟩ := v
    cases ok with
    | false => simp
    | true =>
      simp only [Bool.not_true, Bool.false_eq_true, if_false, Bool.true_eq_false]
      by_cases hc : s.cur.toMove ≠ color
      · simp only [hc, if_true, ne_eq, not_false_eq_true]
      · simp only [hc, if_false]
        cases getMove .cairn r (mview s.cur) with
        | error e => rfl
        | ok o => cases o <;> rfl

theorem turn_rel {n : Nat} {s s' : St MB} (color : Color) (h : SR n s s') :
    turn miniBoard .cairn color s = turn miniBoard .cairn color s' := by
  obtain ⟨p, pm, p', pm', hp, hp', _, _, hleg⟩ := h.prev
  have h2 := h.ply2
  have hply' : 0 < s'.cur.ply := by rw [← h.br.ply]; omega
  rw [turn_eq color s p pm hp (by omega), turn_eq color s' p' pm' hp' hply']
  unfold turnOf
  rw [← h.rule, ← hleg, ← h.br.toMove]
  cases cairnLegal s.rule (mview p) pm with
  | error e => rfl
  | ok v =>
    obtain ⟨r, ok⟩ := v
    simp only [getMove_vr h.br.view h.h4 r]

/-- what a reply other than a resignation says about the rule's check of the previous move -/
theorem turn_legal {color : Color} {s : St MB} {p : MB} {pm : Tak.Move} (hprev : s.prev = some (p, pm))
    (hply : 0 < s.cur.ply) {r : Rule} {rep : Reply}
    (ht : turn miniBoard .cairn color s = .ok (r, rep)) (hrep : rep ≠ .resign) :
    cairnLegal s.rule (mview p) pm = .ok (r, true) := by
  rw [turn_eq color s p pm hprev hply] at ht
  unfold turnOf at ht
  cases hl : cairnLegal s.rule (mview p) pm with
  | error e => rw [hl] at ht; cases ht
  | ok v =>
    obtain ⟨r', ok⟩ := v
    rw [hl] at ht
    cases ok with
    | false =>
      simp only [if_true] at ht
      cases ht
      exact absurd rfl hrep
    | true =>
      simp only [Bool.true_eq_false, if_false] at ht
      have : r' = r := by
        split at ht
        · cases ht; rfl
        · split at ht
          · cases ht
          · cases ht; rfl
          · cases ht; rfl
      rw [this]

theorem turn_scripted {color : Color} {s : St MB} {p : MB} {pm : Tak.Move} (hprev : s.prev = some (p, pm))
    (hply : 0 < s.cur.ply) {r : Rule} {m : Tak.Move}
    (ht : turn miniBoard .cairn color s = .ok (r, .scripted m)) :
    getMove .cairn r (mview s.cur) = .ok (some m) := by
  have hl := turn_legal hprev hply ht (by intro h; cases h)
  rw [turn_eq color s p pm hprev hply] at ht
  unfold turnOf at ht
  rw [hl] at ht
  simp only [Bool.true_eq_false, if_false] at ht
  split at ht
  · cases ht
  · split at ht
    · cases ht
    · cases ht; assumption
    · cases ht

/-- the rule after the check of the ply-4 move, in the terms `scripted_near` and `accepted_near` need -/
theorem rule5 {n : Nat} {s s' : St MB} {color : Color} (h : SR n s s') {r : Rule} {rep : Reply}
    (ht : turn miniBoard .cairn color s = .ok (r, rep)) (hrep : rep ≠ .resign) (h5 : s.cur.ply = 5) :
    isCentered (coreView s.cur.size) r.whitePlaceX r.whitePlaceY = true ∧
    distance r.whitePlaceX r.whitePlaceY r.blackPlaceX r.blackPlaceY = 1 := by
  obtain ⟨p, pm, p', pm', hp, _, hps, hpp, _⟩ := h.prev
  have hl := turn_legal hp (by have := h.ply2; omega) ht hrep
  have h4 : (mview p).ply = 4 := by show p.ply = 4; omega
  have := rule_at_5 _ _ _ _ h4 hl
  rw [isCentered_core] at this
  have hs : (mview p).size = s.cur.size := hps
  rw [hs] at this
  exact this

theorem near_scripted {n : Nat} {s s' : St MB} {color : Color} (h : SR n s s') {r : Rule} {m : Tak.Move}
    (ht : turn miniBoard .cairn color s = .ok (r, .scripted m)) : MoveNear s.cur.size m := by
  obtain ⟨p, pm, p', pm', hp, _, hps, hpp, _⟩ := h.prev
  have hg := turn_scripted hp (by have := h.ply2; omega) ht
  exact scripted_near r (mview s.cur) m h.h4 h.h64 h.ply2
    (fun h5 => by
      have := rule5 h ht (by intro hh; cases hh) h5
      rw [isCentered_core]
      exact this) hg

theorem near_free {n : Nat} {s s' : St MB} {color : Color} (h : SR (n+1) s s') {r : Rule} {rep : Reply} {m : Tak.Move}
    (ht : turn miniBoard .cairn color s = .ok (r, rep)) (hrep : rep ≠ .resign)
    (hacc : accepted .cairn r (mview s.cur) m = true)
    (hst : (mstep s.cur (Spec.decode m)).isSome = true) : MoveNear s.cur.size m := by
  refine accepted_near r s.cur m h.ply2 (by have := h.plyn; omega) h.h64
    (fun h5 => (rule5 h ht hrep h5).1) (fun x y hb hn => (h.br.at_far x y hb hn).1) hacc hst

/-! ### the candidate lists -/

theorem cell_xy {n : Nat} {mover : Color} {x y : Nat} {sq : Spec.Square} {m : Tak.Move}
    (h : m ∈ cellOf n mover x y sq) : m.x = x ∧ m.y = y := by
  unfold cellOf at h
  simp only [] at h
  split at h
  · simp only [List.mem_cons, List.mem_nil_iff, or_false] at h
    rcases h with rfl | rfl | rfl <;> exact ⟨rfl, rfl⟩
  · split at h
    · cases h
    · simp only [List.mem_flatMap, List.mem_map] at h
      obtain ⟨_, _, _, _, _, _, rfl⟩ := h
      exact ⟨rfl, rfl⟩

theorem cands_rel {b b' : MB} (h : BR b b') {m : Tak.Move} (hm : m ∈ miniBoard.cands b)
    (hn : MoveNear b.size m) : m ∈ miniBoard.cands b' := by
  obtain ⟨x, y, hx, hy, hcell⟩ := mem_candsOf hm
  obtain ⟨hmx, hmy⟩ := cell_xy hcell
  have hb : onB b.size m.x m.y = true := by rw [hmx, hmy]; exact onB_of_nat hx hy
  have hnear : nearS b.size (x : Int) (y : Int) = true := by
    rw [← hmx, ← hmy]
    rcases hn with ⟨_, hn⟩ | ⟨_, hn⟩
    · exact hn
    · exact (hn hb).1
  have hget := h.near x y hx hy hnear
  show m ∈ candsOf b'.size b'.toMove b'.get
  rw [candsOf_eq]
  simp only [List.mem_flatMap, List.mem_range]
  refine ⟨y, by rw [← h.size]; exact hy, x, by rw [← h.size]; exact hx, ?_⟩
  rw [← h.size, ← h.toMove, ← hget]
  exact hcell

theorem accepted_rel {b b' : MB} (h : BR b b') (r : Rule) (m : Tak.Move) :
    accepted .cairn r (mview b') m = accepted .cairn r (mview b) m := by
  unfold accepted legalMove
  simp only []
  rw [cairnLegal_vr (v := mview b') (v' := mview b) h.size.symm h.ply.symm]

/-! ### the frame theorem -/

theorem SR.child {n : Nat} {s s' : St MB} (h : SR (n+1) s s') (r : Rule) (m : Tak.Move) (sc : Bool) {q q' : MB}
    (hq : mstep s.cur (Spec.decode m) = some q) (hq' : mstep s'.cur (Spec.decode m) = some q') (hbr : BR q q') :
    SR n { rule := r, cur := q, prev := some (s.cur, m), lastScripted := sc }
         { rule := r, cur := q', prev := some (s'.cur, m), lastScripted := sc } := by
  have hs := mstep_size _ _ _ hq
  have hp := mstep_ply _ _ _ hq
  refine ⟨rfl, rfl, hbr, ?_, ?_, ?_, ?_, ?_⟩
  · show 4 ≤ q.size; rw [hs]; exact h.h4
  · show q.size ≤ 64; rw [hs]; exact h.h64
  · show 2 ≤ q.ply; have := h.ply2; omega
  · show q.ply + n ≤ 6; have := h.plyn; omega
  · exact ⟨s.cur, m, s'.cur, m, rfl, rfl, hs.symm, hp.symm, fun r0 => cairnLegal_vr h.br.size h.br.ply r0 m⟩

theorem good_frame {n : Nat} {s s' : St MB} (color : Color) (h : SR n s s')
    (hg : good miniBoard .cairn color s' = true) : good miniBoard .cairn color s = true := by
  unfold good at hg ⊢
  rw [← turn_rel color h] at hg
  cases ht : turn miniBoard .cairn color s with
  | error e => rw [ht] at hg; exact hg
  | ok v =>
    obtain ⟨r, rep⟩ := v
    rw [ht] at hg
    cases rep with
    | resign => simp only [] at hg ⊢; rw [h.ls]; exact hg
    | notMyTurn => rfl
    | search => rfl
    | scripted m =>
      simp only [] at hg ⊢
      have hrel := move_rel h.br h.h64 m (near_scripted h ht)
      rcases hrel with ⟨_, h2⟩ | ⟨q, q', h1, _, _⟩
      · have h2' : miniBoard.step s'.cur (Spec.decode m) = none := h2
        rw [h2'] at hg; cases hg
      · have h1' : miniBoard.step s.cur (Spec.decode m) = some q := h1
        rw [h1']; rfl

/-- **the frame theorem**: what the evaluator proves for one of two related states it proves for the other -/
theorem check_frame (color : Color) : ∀ (n : Nat) (s s' : St MB), SR n s s' →
    check miniBoard FM .cairn color n s' = true → check miniBoard FM .cairn color n s = true := by
  intro n
  induction n with
  | zero => intro s s' h hc; exact good_frame color h hc
  | succ n ih =>
    intro s s' h hc
    unfold check at hc ⊢
    rw [← turn_rel color h] at hc
    cases ht : turn miniBoard .cairn color s with
    | error e => rw [ht] at hc; exact hc
    | ok v =>
      obtain ⟨r, rep⟩ := v
      rw [ht] at hc
      cases rep with
      | resign => simp only [] at hc ⊢; rw [h.ls]; exact hc
      | scripted m =>
        simp only [] at hc ⊢
        have hrel := move_rel h.br h.h64 m (near_scripted h ht)
        rcases hrel with ⟨_, h2⟩ | ⟨q, q', h1, h2, hbr⟩
        · have h2' : miniBoard.step s'.cur (Spec.decode m) = none := h2
          rw [h2'] at hc; cases hc
        · have h1' : miniBoard.step s.cur (Spec.decode m) = some q := h1
          have h2' : miniBoard.step s'.cur (Spec.decode m) = some q' := h2
          rw [h2'] at hc
          rw [h1']
          simp only [succ_eq] at hc ⊢
          exact ih _ _ (h.child r m true h1 h2 hbr) hc
      | notMyTurn | search =>
        simp only [] at hc ⊢
        rw [List.all_eq_true] at hc ⊢
        intro m hm
        have hv : miniBoard.view s.cur = mview s.cur := rfl
        have hv' : miniBoard.view s'.cur = mview s'.cur := rfl
        rw [hv]
        by_cases hacc : accepted .cairn r (mview s.cur) m = true
        · cases hst : miniBoard.step s.cur (Spec.decode m) with
          | none => simp
          | some q =>
            have hst' : mstep s.cur (Spec.decode m) = some q := hst
            have hnear := near_free h ht (by intro hh; cases hh) hacc (by rw [hst']; rfl)
            have hrel := move_rel h.br h.h64 m hnear
            rcases hrel with ⟨h1, _⟩ | ⟨q1, q', h1, h2, hbr⟩
            · rw [hst'] at h1; cases h1
            · rw [hst'] at h1
              cases h1
              have hm' := cands_rel h.br hm hnear
              have := hc m hm'
              rw [hv', accepted_rel h.br, hacc] at this
              have h2' : miniBoard.step s'.cur (Spec.decode m) = some q' := h2
              simp only [h2', Bool.not_true, Bool.false_or, succ_eq] at this
              simp only [hacc, Bool.not_true, Bool.false_or, succ_eq]
              exact ih _ _ (h.child r m false hst' h2 hbr) this
        · simp [hacc]

end Proofs.FPAFrame
