import TakVerif.Impl.PTN
import TakVerif.Impl.PTNSafe
import TakVerif.Proofs.PTNTotal

/-! Rendering a PTN value and parsing the text again: token-level round trip. -/
namespace PTN
open Tak

/-! ### decimal numbers -/

theorem foldl_digits (ds : Bytes) : ∀ init : Nat,
    ds.foldl (fun n d => n * 10 + (d.toNat - 48)) init = init * 10 ^ ds.length + digitsVal ds := by
  induction ds with
  | nil => intro init; simp [digitsVal]
  | cons d ds ih =>
    intro init
    simp only [List.foldl_cons, digitsVal, List.length_cons]
    rw [ih, ih (0 * 10 + (d.toNat - 48))]
    simp only [Nat.zero_mul, Nat.zero_add, Nat.pow_succ]
    rw [Nat.add_mul, Nat.mul_assoc, Nat.mul_comm 10, Nat.add_assoc]

theorem digitsVal_cons (d : UInt8) (ds : Bytes) :
    digitsVal (d :: ds) = (d.toNat - 48) * 10 ^ ds.length + digitsVal ds := by
  show List.foldl _ (0 * 10 + (d.toNat - 48)) ds = _
  rw [foldl_digits]
  simp

theorem digit_toNat (k : Nat) (hk : k < 10) : (UInt8.ofNat (48 + k)).toNat - 48 = k := by
  have : (UInt8.ofNat (48 + k)).toNat = 48 + k := by
    simp only [UInt8.toNat_ofNat']
    omega
  omega

theorem digit_isDigit (k : Nat) (hk : k < 10) : isDigit (UInt8.ofNat (48 + k)) = true := by
  have h : (UInt8.ofNat (48 + k)).toNat = 48 + k := by
    simp only [UInt8.toNat_ofNat']
    omega
  simp only [isDigit, Bool.and_eq_true, decide_eq_true_eq, UInt8.le_iff_toNat_le, h]
  exact ⟨by simp, by simp; omega⟩

theorem natDigitsAux_spec : ∀ (fuel n : Nat) (acc : Bytes), n < fuel →
    digitsVal (natDigitsAux fuel n acc) = n * 10 ^ acc.length + digitsVal acc ∧
    ((natDigitsAux fuel n acc).all isDigit = true ↔ acc.all isDigit = true) ∧
    natDigitsAux fuel n acc ≠ [] := by
  intro fuel
  induction fuel with
  | zero => intro n acc h; omega
  | succ f ih =>
    intro n acc hlt
    unfold natDigitsAux
    have hmod : n % 10 < 10 := Nat.mod_lt _ (by omega)
    dsimp only
    by_cases h10 : n < 10
    · rw [if_pos h10]
      have : n % 10 = n := Nat.mod_eq_of_lt h10
      rw [this]
      refine ⟨?_, ?_, by simp⟩
      · rw [digitsVal_cons, digit_toNat n h10]
      · simp only [List.all_cons, digit_isDigit n h10, Bool.true_and]
    · rw [if_neg h10]
      have hdiv : n / 10 < f := by omega
      obtain ⟨h1, h2, h3⟩ := ih (n / 10) (UInt8.ofNat (48 + n % 10) :: acc) hdiv
      refine ⟨?_, ?_, h3⟩
      · rw [h1, digitsVal_cons, digit_toNat _ hmod]
        simp only [List.length_cons, Nat.pow_succ]
        have := Nat.div_add_mod n 10
        calc n / 10 * (10 ^ acc.length * 10) + (n % 10 * 10 ^ acc.length + digitsVal acc)
            = (10 * (n / 10) + n % 10) * 10 ^ acc.length + digitsVal acc := by
              rw [Nat.add_mul, Nat.add_assoc]; congr 1
              rw [Nat.mul_comm (10 ^ acc.length) 10, ← Nat.mul_assoc, Nat.mul_comm (n / 10) 10]
          _ = n * 10 ^ acc.length + digitsVal acc := by rw [this]
      · rw [h2]
        simp only [List.all_cons, digit_isDigit _ hmod, Bool.true_and]

theorem natDigits_spec (n : Nat) :
    digitsVal (natDigits n) = n ∧ (natDigits n).all isDigit = true ∧ natDigits n ≠ [] := by
  obtain ⟨h1, h2, h3⟩ := natDigitsAux_spec (n + 1) n [] (by omega)
  unfold natDigits
  refine ⟨?_, h2.mpr rfl, h3⟩
  rw [h1]; simp [digitsVal]

theorem isDigit_ne_sign (d : UInt8) (h : isDigit d = true) : d ≠ 45 ∧ d ≠ 43 := by
  simp only [isDigit, Bool.and_eq_true, decide_eq_true_eq, UInt8.le_iff_toNat_le] at h
  constructor <;> (intro hd; subst hd; revert h; decide)

theorem splitSign_digit (d : UInt8) (ds : Bytes) (h : isDigit d = true) : splitSign (d :: ds) = (false, d :: ds) := by
  obtain ⟨hm, hp⟩ := isDigit_ne_sign d h
  unfold splitSign
  split
  · rename_i heq; injection heq with h' _; exact absurd h' hm
  · rename_i heq; injection heq with h' _; exact absurd h' hp
  · rfl

/-- `Atoi` reads back what `%d` prints, for every `int` -/
theorem atoi_itoa (n : Int) (hlo : -(2 ^ 63 : Int) ≤ n) (hhi : n < 2 ^ 63) : atoi (itoa n) = some n := by
  unfold itoa
  by_cases hneg : n < 0
  · rw [if_pos hneg]
    obtain ⟨h1, h2, h3⟩ := natDigits_spec n.natAbs
    unfold atoi
    have hs : splitSign (45 :: natDigits n.natAbs) = (true, natDigits n.natAbs) := rfl
    rw [hs]
    have hemp : (natDigits n.natAbs).isEmpty = false := by
      cases h : natDigits n.natAbs with
      | nil => exact absurd h h3
      | cons _ _ => rfl
    dsimp only
    rw [hemp, h2, h1]
    simp only [Bool.not_true, Bool.or_false, Bool.false_eq_true, if_false, if_true]
    have habs : (n.natAbs : Int) = -n := Int.ofNat_natAbs_of_nonpos (Int.le_of_lt hneg)
    have : n.natAbs ≤ 2 ^ 63 := by omega
    rw [if_pos this, habs]
    simp
  · rw [if_neg hneg]
    obtain ⟨h1, h2, h3⟩ := natDigits_spec n.toNat
    unfold atoi
    cases hd : natDigits n.toNat with
    | nil => exact absurd hd h3
    | cons d ds =>
      have hdig : isDigit d = true := by
        rw [hd] at h2; simp only [List.all_cons, Bool.and_eq_true] at h2; exact h2.1
      rw [splitSign_digit d ds hdig]
      rw [hd] at h1 h2
      simp only [List.isEmpty_cons, h2, Bool.false_or, Bool.not_true, Bool.false_eq_true, if_false, h1]
      have : n.toNat < 2 ^ 63 := by omega
      rw [if_pos this]
      congr 1
      omega

/-! ### the scanner on a well-separated token -/

theorem dropWhile_append_all {α} (p : α → Bool) (l1 l2 : List α) (h : ∀ b ∈ l1, p b = true) :
    (l1 ++ l2).dropWhile p = l2.dropWhile p := by
  induction l1 with
  | nil => rfl
  | cons a l ih =>
    simp only [List.cons_append, List.dropWhile_cons, h a (by simp), if_true]
    exact ih (fun b hb => h b (by simp [hb]))

theorem takeWhile_append_all {α} (p : α → Bool) (l1 l2 : List α) (h : ∀ b ∈ l1, p b = true) :
    (l1 ++ l2).takeWhile p = l1 ++ l2.takeWhile p := by
  induction l1 with
  | nil => rfl
  | cons a l ih =>
    simp only [List.cons_append, List.takeWhile_cons, h a (by simp), if_true]
    rw [ih (fun b hb => h b (by simp [hb]))]

theorem take_append_ge {α} (l1 l2 : List α) (n : Nat) (h : l1.length ≤ n) :
    (l1 ++ l2).take n = l1 ++ l2.take (n - l1.length) := by
  induction l1 generalizing n with
  | nil => simp
  | cons a l ih =>
    cases n with
    | zero => simp at h
    | succ n =>
      simp only [List.cons_append, List.take_succ_cons, List.length_cons, Nat.add_sub_add_right]
      rw [ih n (by simpa using h)]

theorem drop_append_length {α} (l1 l2 : List α) : (l1 ++ l2).drop l1.length = l2 := by
  induction l1 with
  | nil => rfl
  | cons a l ih => simpa using ih

/-- an ordinary token: white space, then bytes without white space that do not start with `{`, then a
white-space byte, all within the scanner's window -/
theorem scanStep_ordinary (lead tok tail : Bytes) (t : UInt8)
    (hlead : ∀ b ∈ lead, isSpace b = true) (hne : tok ≠ []) (htok : ∀ b ∈ tok, isSpace b = false)
    (hhead : tok.head? ≠ some 123) (ht : isSpace t = true)
    (hlen : lead.length + tok.length < maxScanTokenSize) :
    scanStep (lead ++ tok ++ t :: tail) = .token tok tail := by
  unfold scanStep
  -- the window
  have hk : (lead ++ tok).length ≤ maxScanTokenSize := by simp only [List.length_append]; omega
  have hwin : (lead ++ tok ++ t :: tail).take maxScanTokenSize =
      lead ++ tok ++ t :: tail.take (maxScanTokenSize - (lead ++ tok).length - 1) := by
    rw [take_append_ge _ _ _ hk]
    have : maxScanTokenSize - (lead ++ tok).length = (maxScanTokenSize - (lead ++ tok).length - 1) + 1 := by
      simp only [List.length_append]; omega
    rw [this, List.take_succ_cons]
    simp
  rw [hwin]
  generalize tail.take (maxScanTokenSize - (lead ++ tok).length - 1) = tl'
  generalize decide ((lead ++ tok ++ t :: tail).length < maxScanTokenSize) = atEOF
  -- the split function on the window
  have hsp : splitMoves (lead ++ tok ++ t :: tl') atEOF = ⟨lead.length + tok.length + 1, some tok⟩ := by
    unfold splitMoves
    obtain ⟨c, cs, rfl⟩ : ∃ c cs, tok = c :: cs := by
      cases tok with
      | nil => exact absurd rfl hne
      | cons c cs => exact ⟨c, cs, rfl⟩
    have hc : isSpace c = false := htok c (by simp)
    have hbody : (lead ++ (c :: cs) ++ t :: tl').dropWhile isSpace = (c :: cs) ++ t :: tl' := by
      rw [List.append_assoc, dropWhile_append_all _ _ _ hlead]
      simp only [List.cons_append, List.dropWhile_cons, hc]
      rfl
    rw [hbody]
    dsimp only
    have hc123 : (c == 123) = false := by
      simp only [List.head?_cons, ne_eq, Option.some.injEq] at hhead
      simp [hhead]
    simp only [List.cons_append, hc123, Bool.false_eq_true, if_false]
    have hpre : (c :: (cs ++ t :: tl')).takeWhile (fun b => !isSpace b) = c :: cs := by
      have := takeWhile_append_all (fun b => !isSpace b) (c :: cs) (t :: tl') (fun b hb => by simp [htok b hb])
      simp only [List.cons_append] at this
      rw [this]
      simp [ht]
    rw [hpre]
    have hlt : (c :: cs).length < (c :: (cs ++ t :: tl')).length := by simp
    rw [if_pos hlt]
    congr 1
    simp only [List.length_append, List.length_cons]
    omega
  dsimp only
  rw [hsp]
  dsimp only
  congr 1
  have : lead.length + tok.length + 1 = (lead ++ tok ++ [t]).length := by simp; omega
  rw [this]
  have : lead ++ tok ++ t :: tail = (lead ++ tok ++ [t]) ++ tail := by simp
  rw [this, drop_append_length]

/-- a comment token: white space, `{`, bytes without `}`, `}`, all within the scanner's window -/
theorem scanStep_comment (lead c tail : Bytes)
    (hlead : ∀ b ∈ lead, isSpace b = true) (hc : ∀ b ∈ c, (b != 125) = true)
    (hlen : lead.length + c.length + 2 ≤ maxScanTokenSize) :
    scanStep (lead ++ (123 :: c ++ [125]) ++ tail) = .token (123 :: c ++ [125]) tail := by
  unfold scanStep
  have hk : (lead ++ (123 :: c ++ [125])).length ≤ maxScanTokenSize := by
    simp only [List.length_append, List.length_cons, List.length_nil]; omega
  rw [take_append_ge _ _ _ hk]
  generalize tail.take (maxScanTokenSize - (lead ++ (123 :: c ++ [125])).length) = tl'
  generalize decide ((lead ++ (123 :: c ++ [125]) ++ tail).length < maxScanTokenSize) = atEOF
  have hsp : splitMoves (lead ++ (123 :: c ++ [125]) ++ tl') atEOF = ⟨lead.length + c.length + 2, some (123 :: c ++ [125])⟩ := by
    unfold splitMoves
    have hbody : (lead ++ (123 :: c ++ [125]) ++ tl').dropWhile isSpace = 123 :: (c ++ 125 :: tl') := by
      rw [List.append_assoc, dropWhile_append_all _ _ _ hlead]
      have : isSpace 123 = false := by decide
      simp only [List.cons_append, List.dropWhile_cons, this, List.append_assoc]
      rfl
    rw [hbody]
    dsimp only
    have hpre : (123 :: (c ++ 125 :: tl')).takeWhile (fun x => x != 125) = 123 :: c := by
      have h1 : ((123 : UInt8) != 125) = true := by decide
      simp only [List.takeWhile_cons, h1, if_true]
      rw [takeWhile_append_all _ _ _ hc]
      simp
    rw [hpre]
    have h123 : ((123 : UInt8) == 123) = true := by decide
    rw [if_pos h123]
    have hlt : (123 :: c).length < (123 :: (c ++ 125 :: tl')).length := by simp
    rw [if_pos hlt]
    congr 1
    · simp only [List.length_append, List.length_cons, List.length_nil]; omega
    · congr 1
      have : (123 :: c).length + 1 = (123 :: c ++ [125]).length := by simp
      rw [this]
      have : 123 :: (c ++ 125 :: tl') = (123 :: c ++ [125]) ++ tl' := by simp
      rw [this, List.take_left']
      rfl
  dsimp only
  rw [hsp]
  dsimp only
  congr 1
  have : lead.length + c.length + 2 = (lead ++ (123 :: c ++ [125])).length := by
    simp only [List.length_append, List.length_cons, List.length_nil]; omega
  rw [this, drop_append_length]

/-! ### the safe fragment and what each rendered token is classified as -/

/-- the 25 strings `resultRE` matches -/
def resultList : List Bytes :=
  resultSides.flatMap (fun a => resultSides.map (fun b => a ++ [45] ++ b))

theorem matchResult_mem (t : Bytes) (h : matchResult t = true) : t ∈ resultList := by
  simp only [matchResult, List.any_eq_true, beq_iff_eq] at h
  obtain ⟨a, ha, b, hb, rfl⟩ := h
  simp only [resultList, List.mem_flatMap, List.mem_map]
  exact ⟨a, ha, b, hb, rfl⟩

/-- shape facts of a result string, checked on all 25 -/
def resultShape (t : Bytes) : Bool :=
  (match t.head? with | some c => c != 123 && c != 91 | none => false) &&
  (match t.getLast? with | some l => l != 46 && !isModifier l | none => false) &&
  t.all (fun b => !isSpace b) && decide (t.length < 16)

theorem resultList_shape : ∀ t ∈ resultList, resultShape t = true := by decide

theorem matchResult_shape (t : Bytes) (h : matchResult t = true) : resultShape t = true :=
  resultList_shape t (matchResult_mem t h)

/-- the op as `ParsePTN` returns it: with the token as source text -/
def withSrc (env : Env) : Op → Op
  | .moveNumber s n => .moveNumber (tokOf env (.moveNumber s n)) n
  | .move s m mods => .move (tokOf env (.move s m mods)) m mods
  | .comment s c => .comment (tokOf env (.comment s c)) c
  | .result s r => .result (tokOf env (.result s r)) r

theorem clearSrc_withSrc (env : Env) (op : Op) : (withSrc env op).clearSrc = op.clearSrc := by
  cases op <;> rfl

theorem getLast?_append_singleton {α} (l : List α) (a : α) : (l ++ [a]).getLast? = some a := by
  simp

theorem trimRight_append (s mods : Bytes) (cut : UInt8 → Bool) (hm : ∀ b ∈ mods, cut b = true)
    (hl : ∀ l, s.getLast? = some l → cut l = false) : trimRight (s ++ mods) cut = s := by
  unfold trimRight
  rw [List.reverse_append, dropWhile_append_all _ _ _ (fun b hb => hm b (by simpa using hb))]
  cases hs : s.reverse with
  | nil =>
    have : s = [] := by simpa using hs
    subst this; rfl
  | cons l rest =>
    have hlast : s.getLast? = some l := by
      rw [← List.head?_reverse, hs]; rfl
    simp only [List.dropWhile_cons, hl l hlast, Bool.false_eq_true, if_false]
    rw [← hs, List.reverse_reverse]

theorem classify_moveNumber (env : Env) (n : Int) (hlo : -(2 ^ 63 : Int) ≤ n) (hhi : n < 2 ^ 63) :
    classifyTok env (itoa n ++ [46]) = .ok (.moveNumber (itoa n ++ [46]) n) := by
  -- the first byte of `%d` output is `-` or a digit
  have hhead : ∃ c cs, itoa n = c :: cs ∧ (c == 123) = false := by
    unfold itoa
    split
    · exact ⟨45, _, rfl, by decide⟩
    · obtain ⟨_, h2, h3⟩ := natDigits_spec n.toNat
      cases hd : natDigits n.toNat with
      | nil => exact absurd hd h3
      | cons d ds =>
        rw [hd] at h2
        simp only [List.all_cons, Bool.and_eq_true] at h2
        refine ⟨d, ds, rfl, ?_⟩
        have := h2.1
        simp only [isDigit, Bool.and_eq_true, decide_eq_true_eq, UInt8.le_iff_toNat_le] at this
        cases hd' : d == 123 with
        | false => rfl
        | true =>
          have : d = 123 := by simpa using hd'
          subst this; revert this; decide
  obtain ⟨c, cs, hcs, hc⟩ := hhead
  unfold classifyTok
  rw [hcs]
  simp only [List.cons_append, hc, Bool.false_eq_true, if_false]
  have hl : (c :: (cs ++ [46])).getLast? = some 46 := by
    have := getLast?_append_singleton (c :: cs) (46 : UInt8)
    simpa using this
  rw [hl]
  simp only [beq_self_eq_true, if_true]
  have htake : (c :: (cs ++ [46])).take ((c :: (cs ++ [46])).length - 1) = c :: cs := by
    have : c :: (cs ++ [46]) = (c :: cs) ++ [46] := rfl
    rw [this]
    simp
  rw [htake, ← hcs, atoi_itoa n hlo hhi]

theorem classify_comment (env : Env) (c : Bytes) :
    classifyTok env (123 :: c ++ [125]) = .ok (.comment (123 :: c ++ [125]) c) := by
  unfold classifyTok
  have h123 : ((123 : UInt8) == 123) = true := by decide
  simp only [List.cons_append, h123, if_true]
  have hl : (123 :: (c ++ [125])).getLast? = some 125 := by
    have := getLast?_append_singleton (123 :: c) (125 : UInt8)
    simpa using this
  have hlen : ¬((123 :: (c ++ [125])).length < 2 ∨ (123 :: (c ++ [125])).getLast? ≠ some 125) := by
    rw [hl]; simp
  rw [if_neg hlen]
  congr 2
  simp

theorem classify_result (env : Env) (r : Bytes) (h : matchResult r = true) :
    classifyTok env r = .ok (.result r r) := by
  have hs := matchResult_shape r h
  simp only [resultShape, Bool.and_eq_true] at hs
  obtain ⟨⟨⟨h1, h2⟩, _⟩, _⟩ := hs
  unfold classifyTok
  cases r with
  | nil => simp at h1
  | cons c cs =>
    simp only [List.head?_cons, Bool.and_eq_true, bne_iff_ne, ne_eq] at h1
    have hc : (c == 123) = false := by simpa using h1.1
    simp only [hc, Bool.false_eq_true, if_false]
    cases hl : (c :: cs).getLast? with
    | none => rw [hl] at h2; simp at h2
    | some l =>
      rw [hl] at h2
      simp only [Bool.and_eq_true, bne_iff_ne, ne_eq] at h2
      have : (some l == some (46 : UInt8)) = false := by simpa using h2.1
      rw [this]
      simp only [Bool.false_eq_true, if_false, h, if_true]

theorem classify_move (env : Env) (m : Move) (mods : Bytes) (hm : moveSafe env m = true)
    (hmods : mods.all isModifier = true) :
    classifyTok env (env.formatMove m ++ mods) = .ok (.move (env.formatMove m ++ mods) m mods) := by
  simp only [moveSafe, Bool.and_eq_true] at hm
  obtain ⟨⟨⟨⟨h1, h2⟩, h3⟩, h4⟩, h5⟩ := hm
  generalize hs : env.formatMove m = s at *
  have hmods' : ∀ b ∈ mods, isModifier b = true := by simpa using hmods
  cases s with
  | nil => simp at h1
  | cons c cs =>
    simp only [List.head?_cons, Bool.and_eq_true, bne_iff_ne, ne_eq] at h1
    have hc : (c == 123) = false := by simpa using h1.1
    obtain ⟨l, hl, hl46, hlmod⟩ : ∃ l, (c :: cs).getLast? = some l ∧ l ≠ 46 ∧ isModifier l = false := by
      cases hl : (c :: cs).getLast? with
      | none => rw [hl] at h2; simp at h2
      | some l =>
        rw [hl] at h2
        simp only [Bool.and_eq_true, bne_iff_ne, ne_eq, Bool.not_eq_true'] at h2
        exact ⟨l, rfl, h2.1, h2.2⟩
    -- the last byte of the whole token is not `.`, and the token is not a result string
    have hlast : ∃ l', ((c :: cs) ++ mods).getLast? = some l' ∧ l' ≠ 46 ∧
        (mods ≠ [] → isModifier l' = true) := by
      cases hmm : mods.getLast? with
      | none =>
        have : mods = [] := List.getLast?_eq_none_iff.mp hmm
        subst this
        exact ⟨l, by simpa using hl, hl46, fun h => absurd rfl h⟩
      | some l' =>
        have hmem : l' ∈ mods := List.mem_of_getLast? hmm
        have hne : mods ≠ [] := by intro h; subst h; simp at hmm
        refine ⟨l', ?_, ?_, fun _ => hmods' l' hmem⟩
        · rw [List.getLast?_append, hmm]; rfl
        · intro h46; subst h46
          have := hmods' 46 hmem
          revert this; decide
    obtain ⟨l', hl', hl'46, hl'mod⟩ := hlast
    have hres : matchResult ((c :: cs) ++ mods) = false := by
      cases hmr : matchResult ((c :: cs) ++ mods) with
      | false => rfl
      | true =>
        exfalso
        have hshape := matchResult_shape _ hmr
        simp only [resultShape, Bool.and_eq_true] at hshape
        obtain ⟨⟨⟨_, hsl⟩, _⟩, _⟩ := hshape
        rw [hl'] at hsl
        simp only [Bool.and_eq_true, bne_iff_ne, ne_eq, Bool.not_eq_true'] at hsl
        by_cases hme : mods = []
        · subst hme
          simp only [List.append_nil] at hmr
          rw [hmr] at h4
          simp at h4
        · rw [hl'mod hme] at hsl
          exact absurd hsl.2 (by simp)
    unfold classifyTok
    simp only [List.cons_append, hc, Bool.false_eq_true, if_false]
    have hl'' : (c :: (cs ++ mods)).getLast? = some l' := by simpa using hl'
    rw [hl'']
    have : (some l' == some (46 : UInt8)) = false := by simpa using hl'46
    rw [this]
    have hres' : matchResult (c :: (cs ++ mods)) = false := by simpa using hres
    simp only [Bool.false_eq_true, if_false, hres']
    have htrim : trimRight (c :: (cs ++ mods)) isModifier = c :: cs := by
      have := trimRight_append (c :: cs) mods isModifier hmods' (fun x hx => by
        rw [hl] at hx; injection hx with hx; subst hx; exact hlmod)
      simpa using this
    rw [htrim]
    cases hp : env.parseMove (c :: cs) with
    | error e => rw [hp] at h5; simp at h5
    | ok m' =>
      rw [hp] at h5
      have : m' = m := by simpa using h5
      subst this
      dsimp only
      congr 2
      have : c :: (cs ++ mods) = (c :: cs) ++ mods := rfl
      rw [this, drop_append_length]

/-! ### `readMoves` on rendered ops -/

theorem natDigitsAux_length : ∀ (k fuel n : Nat) (acc : Bytes), n < 10 ^ (k + 1) →
    (natDigitsAux fuel n acc).length ≤ acc.length + k + 1 := by
  intro k
  induction k with
  | zero =>
    intro fuel n acc h
    cases fuel with
    | zero => simp [natDigitsAux]
    | succ f =>
      unfold natDigitsAux
      have : n < 10 := by simpa using h
      simp [this]
  | succ k ih =>
    intro fuel n acc h
    cases fuel with
    | zero => simp only [natDigitsAux]; omega
    | succ f =>
      unfold natDigitsAux
      dsimp only
      split
      · simp only [List.length_cons]; omega
      · have hdiv : n / 10 < 10 ^ (k + 1) := by
          rw [Nat.div_lt_iff_lt_mul (by omega)]
          rw [Nat.pow_succ] at h; exact h
        have := ih f (n / 10) (UInt8.ofNat (48 + n % 10) :: acc) hdiv
        simp only [List.length_cons] at this
        omega

theorem itoa_length (n : Int) (hlo : -(2 ^ 63 : Int) ≤ n) (hhi : n < 2 ^ 63) : (itoa n).length ≤ 21 := by
  unfold itoa
  split
  · have : n.natAbs < 10 ^ (19 + 1) := by omega
    have := natDigitsAux_length 19 (n.natAbs + 1) n.natAbs [] this
    simp only [List.length_cons, natDigits]
    simp only [List.length_nil] at this
    omega
  · have : n.toNat < 10 ^ (19 + 1) := by omega
    have := natDigitsAux_length 19 (n.toNat + 1) n.toNat [] this
    simp only [natDigits]
    simp only [List.length_nil] at this
    omega

theorem isDigit_not_space (d : UInt8) (h : isDigit d = true) : isSpace d = false := by
  simp only [isDigit, Bool.and_eq_true, decide_eq_true_eq, UInt8.le_iff_toNat_le] at h
  obtain ⟨h1, h2⟩ := h
  have h1' : 48 ≤ d.toNat := h1
  have h2' : d.toNat ≤ 57 := h2
  have hne : ∀ k : Nat, k < 48 ∨ 57 < k → (d == UInt8.ofNat k) = false ∨ k ≥ 256 := by
    intro k hk
    by_cases hk256 : k ≥ 256
    · right; exact hk256
    · left
      cases hd : d == UInt8.ofNat k with
      | false => rfl
      | true =>
        have : d = UInt8.ofNat k := by simpa using hd
        have : d.toNat = k := by rw [this, UInt8.toNat_ofNat']; omega
        omega
  unfold isSpace
  have e9 := (hne 9 (by omega)).resolve_right (by omega)
  have e10 := (hne 10 (by omega)).resolve_right (by omega)
  have e11 := (hne 11 (by omega)).resolve_right (by omega)
  have e12 := (hne 12 (by omega)).resolve_right (by omega)
  have e13 := (hne 13 (by omega)).resolve_right (by omega)
  have e32 := (hne 32 (by omega)).resolve_right (by omega)
  have e85 := (hne 0x85 (by omega)).resolve_right (by omega)
  have eA0 := (hne 0xA0 (by omega)).resolve_right (by omega)
  simp only [UInt8.ofNat] at e9 e10 e11 e12 e13 e32 e85 eA0
  simp_all

theorem itoa_no_space (n : Int) : ∀ b ∈ itoa n, isSpace b = false := by
  intro b hb
  unfold itoa at hb
  split at hb
  · simp only [List.mem_cons] at hb
    rcases hb with rfl | hb
    · decide
    · have := (natDigits_spec n.natAbs).2.1
      exact isDigit_not_space b (by simpa using (List.all_eq_true.mp this) b hb)
  · have := (natDigits_spec n.toNat).2.1
    exact isDigit_not_space b (by simpa using (List.all_eq_true.mp this) b hb)

/-- a token the scanner cuts at the next white-space byte -/
def OrdTok (tok : Bytes) : Prop :=
  tok ≠ [] ∧ (∀ b ∈ tok, isSpace b = false) ∧ tok.head? ≠ some 123

/-- the clauses of `opSafe` without the length clause -/
def opClean (env : Env) (op : Op) : Bool := opShape op && opMove env op

theorem ordTok_moveNumber (n : Int) (hlo : -(2 ^ 63 : Int) ≤ n) (hhi : n < 2 ^ 63) : OrdTok (itoa n ++ [46]) := by
  refine ⟨by simp, ?_, ?_⟩
  · intro b hb
    simp only [List.mem_append, List.mem_singleton] at hb
    rcases hb with hb | rfl
    · exact itoa_no_space n b hb
    · decide
  · -- the first byte is `-` or a digit
    unfold itoa
    split
    · simp
    · obtain ⟨_, h2, h3⟩ := natDigits_spec n.toNat
      cases hd : natDigits n.toNat with
      | nil => exact absurd hd h3
      | cons d ds =>
        rw [hd] at h2
        simp only [List.all_cons, Bool.and_eq_true] at h2
        simp only [List.cons_append, List.head?_cons, ne_eq, Option.some.injEq]
        intro h; subst h
        have := h2.1; revert this; decide

theorem ordTok_result (r : Bytes) (h : matchResult r = true) : OrdTok r := by
  have hs := matchResult_shape r h
  simp only [resultShape, Bool.and_eq_true, decide_eq_true_eq] at hs
  obtain ⟨⟨⟨h1, _⟩, h3⟩, h4⟩ := hs
  refine ⟨?_, ?_, ?_⟩
  · intro h0; subst h0; simp at h1
  · intro b hb; simpa using (List.all_eq_true.mp h3) b hb
  · cases r with
    | nil => simp
    | cons c cs =>
      simp only [List.head?_cons, Bool.and_eq_true, bne_iff_ne, ne_eq] at h1
      simpa using h1.1

theorem ordTok_move (env : Env) (m : Move) (mods : Bytes) (hm : moveSafe env m = true)
    (hmods : mods.all isModifier = true) :
    OrdTok (env.formatMove m ++ mods) := by
  simp only [moveSafe, Bool.and_eq_true] at hm
  obtain ⟨⟨⟨⟨h1, _⟩, h3⟩, _⟩, _⟩ := hm
  refine ⟨?_, ?_, ?_⟩
  · intro h0
    have : env.formatMove m = [] := (List.append_eq_nil_iff.mp h0).1
    rw [this] at h1; simp at h1
  · intro b hb
    simp only [List.mem_append] at hb
    rcases hb with hb | hb
    · simpa using (List.all_eq_true.mp h3) b hb
    · have := (List.all_eq_true.mp hmods) b hb
      simp only [isModifier, Bool.or_eq_true, beq_iff_eq] at this
      rcases this with (rfl | rfl) | rfl <;> decide
  · cases hs : env.formatMove m with
    | nil => rw [hs] at h1; simp at h1
    | cons c cs =>
      rw [hs] at h1
      simp only [List.head?_cons, Bool.and_eq_true, bne_iff_ne, ne_eq] at h1
      simpa using h1.1

/-- what follows the tag section in `Render`'s output, from a given op on -/
def tailBytes (env : Env) (ops : List Op) : Bytes := ops.flatMap (renderOp env) ++ [10]

theorem tailBytes_head (env : Env) (ops : List Op) : ∃ t tl, tailBytes env ops = t :: tl ∧ isSpace t = true := by
  cases ops with
  | nil => exact ⟨10, [], rfl, by decide⟩
  | cons op ops =>
    cases op with
    | moveNumber s n => exact ⟨10, itoa n ++ [46] ++ tailBytes env ops, by simp [tailBytes, renderOp], by decide⟩
    | move s m md => exact ⟨32, env.formatMove m ++ md ++ tailBytes env ops, by simp [tailBytes, renderOp], by decide⟩
    | comment s c => exact ⟨32, [123] ++ c ++ [125] ++ tailBytes env ops, by simp [tailBytes, renderOp], by decide⟩
    | result s r => exact ⟨10, r ++ [10] ++ tailBytes env ops, by simp [tailBytes, renderOp], by decide⟩

/-! ### `readEvents` on rendered tags -/

theorem readEvents_skip (fuel : Nat) (b : UInt8) (x : Bytes) (hb : isSpace b = true) :
    readEvents fuel (b :: x) = readEvents fuel x := by
  cases fuel with
  | zero => rfl
  | succ f => simp only [readEvents, List.dropWhile_cons, hb, if_true]

theorem filter_all_eq {α} (p : α → Bool) (l : List α) (h : ∀ b ∈ l, p b = true) : l.filter p = l := by
  induction l with
  | nil => rfl
  | cons a l ih =>
    simp only [List.filter_cons, h a (by simp), if_true]
    rw [ih (fun b hb => h b (by simp [hb]))]

theorem trim_quoted (v : Bytes) (hv : ∀ b ∈ v, (b == 34) = false) :
    trim ([34] ++ v ++ [34]) (· == 34) = v := by
  unfold trim
  cases v with
  | nil => decide
  | cons a w =>
    have ha : (a == 34) = false := hv a (by simp)
    have h34 : ((34 : UInt8) == 34) = true := by decide
    have hd : ([34] ++ (a :: w) ++ [34]).dropWhile (· == 34) = (a :: w) ++ [34] := by
      simp only [List.cons_append, List.nil_append, List.dropWhile_cons, h34, if_true, ha,
        Bool.false_eq_true, if_false]
    rw [hd]
    exact trimRight_append (a :: w) [34] (· == 34) (by simp) (fun l hl => hv l (List.mem_of_getLast? hl))

theorem readEvents_tags (tags : List Tag) (hsafe : ∀ t ∈ tags, tagSafe t = true) :
    ∀ (rest : Bytes) (fuel : Nat), tags.length < fuel →
      (∀ c more, rest.dropWhile isSpace = c :: more → c ≠ 91) →
      readEvents fuel (tags.flatMap renderTag ++ rest) = .ok (tags, rest.dropWhile isSpace) := by
  induction tags with
  | nil =>
    intro rest fuel hf hrest
    obtain ⟨f, rfl⟩ : ∃ f, fuel = f + 1 := ⟨fuel - 1, by simp at hf; omega⟩
    simp only [List.flatMap_nil, List.nil_append, readEvents]
    cases hd : rest.dropWhile isSpace with
    | nil => rfl
    | cons c more =>
      have := hrest c more hd
      have hc : (c != 91) = true := by simpa using this
      simp only [hc, if_true]
  | cons t tags ih =>
    intro rest fuel hf hrest
    obtain ⟨f, rfl⟩ : ∃ f, fuel = f + 1 := ⟨fuel - 1, by simp at hf; omega⟩
    have ht := hsafe t (by simp)
    simp only [tagSafe, Bool.and_eq_true] at ht
    have hname : ∀ b ∈ t.name, (b != 32) = true ∧ (b != 93) = true := by
      intro b hb; have := (List.all_eq_true.mp ht.1) b hb; simpa using this
    have hval : ∀ b ∈ t.value, (b != 34) = true ∧ (b != 93) = true := by
      intro b hb; have := (List.all_eq_true.mp ht.2) b hb; simpa using this
    have hfil : t.value.filter (· != 34) = t.value := filter_all_eq _ _ (fun b hb => (hval b hb).1)
    -- the input, with the first tag spelled out
    have hin : (t :: tags).flatMap renderTag ++ rest =
        91 :: ((t.name ++ [32, 34] ++ t.value ++ [34]) ++ 93 :: (10 :: (tags.flatMap renderTag ++ rest))) := by
      simp only [List.flatMap_cons, renderTag, hfil]
      simp
    rw [hin]
    unfold readEvents
    have h91 : isSpace 91 = false := by decide
    simp only [List.dropWhile_cons, h91, Bool.false_eq_true, if_false]
    have hne : ((91 : UInt8) != 91) = false := by decide
    simp only [hne, Bool.false_eq_true, if_false]
    -- the line up to `]`
    have hline : ((t.name ++ [32, 34] ++ t.value ++ [34]) ++ 93 :: (10 :: (tags.flatMap renderTag ++ rest))).takeWhile (· != 93)
        = t.name ++ [32, 34] ++ t.value ++ [34] := by
      rw [takeWhile_append_all]
      · simp
      · intro b hb
        simp only [List.mem_append, List.mem_cons, List.mem_nil_iff, or_false] at hb
        rcases hb with ((hb | hb | hb) | hb) | hb
        · exact (hname b hb).2
        · subst hb; decide
        · subst hb; decide
        · exact (hval b hb).2
        · subst hb; decide
    rw [hline]
    have hlen : ((t.name ++ [32, 34] ++ t.value ++ [34]).length ==
        ((t.name ++ [32, 34] ++ t.value ++ [34]) ++ 93 :: (10 :: (tags.flatMap renderTag ++ rest))).length) = false := by
      simp only [List.length_append, List.length_cons, beq_eq_false_iff_ne, ne_eq]
      omega
    simp only [hlen, Bool.false_eq_true, if_false]
    -- the name up to the first space
    have hnm : (t.name ++ [32, 34] ++ t.value ++ [34]).takeWhile (· != 32) = t.name := by
      have : t.name ++ [32, 34] ++ t.value ++ [34] = t.name ++ (32 :: (34 :: (t.value ++ [34]))) := by simp
      rw [this, takeWhile_append_all _ _ _ (fun b hb => (hname b hb).1)]
      simp
    rw [hnm]
    have hlen2 : (t.name.length == (t.name ++ [32, 34] ++ t.value ++ [34]).length) = false := by
      simp only [List.length_append, List.length_cons, beq_eq_false_iff_ne, ne_eq]
      omega
    simp only [hlen2, Bool.false_eq_true, if_false]
    -- the value between the quotes
    have hv : trim ((t.name ++ [32, 34] ++ t.value ++ [34]).drop (t.name.length + 1)) (· == 34) = t.value := by
      have : t.name ++ [32, 34] ++ t.value ++ [34] = (t.name ++ [32]) ++ ([34] ++ t.value ++ [34]) := by simp
      rw [this]
      have : t.name.length + 1 = (t.name ++ [32]).length := by simp
      rw [this, drop_append_length]
      exact trim_quoted t.value (fun b hb => by simpa using (hval b hb).1)
    rw [hv]
    -- the rest: the newline after the tag, then the remaining tags
    have hafter : ((t.name ++ [32, 34] ++ t.value ++ [34]) ++ 93 :: (10 :: (tags.flatMap renderTag ++ rest))).drop
        ((t.name ++ [32, 34] ++ t.value ++ [34]).length + 1) = 10 :: (tags.flatMap renderTag ++ rest) := by
      have : (t.name ++ [32, 34] ++ t.value ++ [34]) ++ 93 :: (10 :: (tags.flatMap renderTag ++ rest)) =
          ((t.name ++ [32, 34] ++ t.value ++ [34]) ++ [93]) ++ (10 :: (tags.flatMap renderTag ++ rest)) := by simp
      rw [this]
      have : (t.name ++ [32, 34] ++ t.value ++ [34]).length + 1 = ((t.name ++ [32, 34] ++ t.value ++ [34]) ++ [93]).length := by
        simp only [List.length_append, List.length_cons, List.length_nil]
      rw [this, drop_append_length]
    rw [hafter, readEvents_skip _ _ _ (by decide)]
    rw [ih (fun t' ht' => hsafe t' (by simp [ht'])) rest f (by simp at hf; omega) hrest]

/-! ### the round trip -/

theorem render_eq (env : Env) (f : File) :
    render env f = f.tags.flatMap renderTag ++ (10 :: tailBytes env f.ops) := by
  simp [render, tailBytes]

theorem renderOp_shape (env : Env) (op : Op) :
    ∃ sep trail, isSpace sep = true ∧ renderOp env op = sep :: tokOf env op ++ trail := by
  cases op with
  | moveNumber s n => exact ⟨10, [], by decide, by simp [renderOp, tokOf]⟩
  | move s m md => exact ⟨32, [], by decide, by simp [renderOp, tokOf]⟩
  | comment s c => exact ⟨32, [], by decide, by simp [renderOp, tokOf]⟩
  | result s r => exact ⟨10, [10], by decide, by simp [renderOp, tokOf]⟩

theorem tok_head (env : Env) (op : Op) (h : opClean env op = true) :
    ∃ c cs, tokOf env op = c :: cs ∧ isSpace c = false ∧ c ≠ 91 := by
  cases op with
  | moveNumber s n =>
    simp only [opClean, opShape, opMove, Bool.and_eq_true, decide_eq_true_eq, and_true] at h
    obtain ⟨hne, hns, _⟩ := ordTok_moveNumber n h.1 h.2
    simp only [tokOf]
    cases hd : itoa n ++ [46] with
    | nil => exact absurd hd hne
    | cons c cs =>
      refine ⟨c, cs, rfl, hns c (by rw [hd]; simp), ?_⟩
      -- `-` or a digit or `.`
      intro h91; subst h91
      have hmem : (91 : UInt8) ∈ itoa n ++ [46] := by rw [hd]; simp
      simp only [List.mem_append, List.mem_singleton] at hmem
      rcases hmem with hmem | hmem
      · unfold itoa at hmem
        split at hmem
        · simp only [List.mem_cons] at hmem
          rcases hmem with hmem | hmem
          · revert hmem; decide
          · have := (List.all_eq_true.mp (natDigits_spec n.natAbs).2.1) 91 hmem
            revert this; decide
        · have := (List.all_eq_true.mp (natDigits_spec n.toNat).2.1) 91 hmem
          revert this; decide
      · revert hmem; decide
  | move s m md =>
    simp only [opClean, opShape, opMove, Bool.and_eq_true] at h
    have hm := h.2
    simp only [moveSafe, Bool.and_eq_true] at hm
    obtain ⟨⟨⟨⟨h1, _⟩, h3⟩, _⟩, _⟩ := hm
    simp only [tokOf]
    cases hs : env.formatMove m with
    | nil => rw [hs] at h1; simp at h1
    | cons c cs =>
      rw [hs] at h1 h3
      simp only [List.head?_cons, Bool.and_eq_true, bne_iff_ne, ne_eq] at h1
      simp only [List.all_cons, Bool.and_eq_true, Bool.not_eq_true'] at h3
      exact ⟨c, cs ++ md, rfl, h3.1, h1.2⟩
  | comment s c => exact ⟨123, c ++ [125], rfl, by decide, by decide⟩
  | result s r =>
    simp only [opClean, opShape, opMove, Bool.and_true] at h
    have hs := matchResult_shape r h
    simp only [resultShape, Bool.and_eq_true] at hs
    obtain ⟨⟨⟨h1, _⟩, h3⟩, _⟩ := hs
    simp only [tokOf]
    cases r with
    | nil => simp at h1
    | cons c cs =>
      simp only [List.head?_cons, Bool.and_eq_true, bne_iff_ne, ne_eq] at h1
      simp only [List.all_cons, Bool.and_eq_true, Bool.not_eq_true'] at h3
      exact ⟨c, cs, rfl, h3.1, h1.2⟩

/-- after the tag section: the reader skips the blank line and the first separator, and what follows does
not look like a tag -/
theorem after_tags (env : Env) (ops : List Op) (hsafe : ∀ op ∈ ops, opClean env op = true) :
    (10 :: tailBytes env ops).dropWhile isSpace = (tailBytes env ops).drop 1 ∧
    ∀ c more, (tailBytes env ops).drop 1 = c :: more → c ≠ 91 := by
  cases ops with
  | nil => exact ⟨by simp only [tailBytes, List.flatMap_nil, List.nil_append]; decide, fun c more h => by simp [tailBytes] at h⟩
  | cons op ops =>
    obtain ⟨sep, trail, hsep, hr⟩ := renderOp_shape env op
    obtain ⟨c, cs, hc, hcs, hc91⟩ := tok_head env op (hsafe op (by simp))
    have ht : tailBytes env (op :: ops) = sep :: (c :: cs ++ trail ++ tailBytes env ops) := by
      simp only [tailBytes, List.flatMap_cons, hr, hc]
      simp
    have h10 : isSpace 10 = true := by decide
    rw [ht]
    constructor
    · simp only [List.dropWhile_cons, h10, hsep, if_true, List.cons_append, hcs, Bool.false_eq_true, if_false]
      rfl
    · intro c' more h
      have : (sep :: (c :: cs ++ trail ++ tailBytes env ops)).drop 1 = c :: (cs ++ trail ++ tailBytes env ops) := rfl
      rw [this] at h
      injection h with h1 _
      rw [← h1]; exact hc91

theorem flatMap_renderTag_length (tags : List Tag) : tags.length ≤ (tags.flatMap renderTag).length := by
  induction tags with
  | nil => simp
  | cons t tags ih =>
    simp only [List.flatMap_cons, List.length_append, List.length_cons, renderTag]
    omega

theorem stripBOM_render (env : Env) (f : File) : stripBOM (render env f) = render env f := by
  rw [render_eq]
  cases hf : f.tags with
  | nil => rfl
  | cons t ts =>
    simp only [List.flatMap_cons, renderTag]
    rfl

end PTN
