import TakVerif.Spec.LegalShape
import TakVerif.Proofs.EngineLegalSet
import TakVerif.Proofs.MoveRT

/-! # A move the rules accept has a legal shape

`Notation.LegalShape size m` is the domain of the notation theorems (C11) and of what rests on them
(C12 `moveSafe`, the TEI client's `SearcherCanonical`).  Here it is connected to legality:

* `step_legalShape` — whatever the rule book `Spec.step` accepts is, after `normalize`, a legal shape;
* `apply_legalShape` — the same for the engine `Pos.apply` (model of `MovePreallocated`), read off its own
  acceptance tests (no rule book, no position invariant);
* `allMoves_legalShape` — generated moves are legal shapes as they stand.

`normalize` clears the only field `Move.Equal` ignores; neither `Spec.decode` nor `Pos.apply` reads it. -/
namespace Tak.Proofs
open Tak Spec Notation

set_option linter.unusedSimpArgs false

/-! ## `normalize` -/

theorem normalize_of_slide (m : Move) (h : m.isSlide = true) : normalize m = m := by
  simp [normalize, h]

theorem normalize_of_nonslide (m : Move) (h : m.isSlide = false) : normalize m = { m with slides := 0#32 } := by
  simp [normalize, h]

theorem normalize_fields (m : Move) :
    (normalize m).x = m.x ∧ (normalize m).y = m.y ∧ (normalize m).type = m.type ∧
    (m.isSlide = true → (normalize m).slides = m.slides) ∧ (m.isSlide = false → (normalize m).slides = 0#32) := by
  unfold normalize
  cases h : m.isSlide <;> simp

theorem normalize_isSlide (m : Move) : (normalize m).isSlide = m.isSlide := by
  unfold Move.isSlide
  rw [(normalize_fields m).2.2.1]

/-- `Move.Equal` cannot tell a move from its normal form (either way round) -/
theorem equal_normalize (m : Move) : m.equal (normalize m) = true ∧ (normalize m).equal m = true := by
  obtain ⟨hx, hy, ht, hs, _⟩ := normalize_fields m
  constructor
  · apply equal_of_fields m (normalize m) hx.symm hy.symm ht.symm
    intro h; exact (hs h).symm
  · apply equal_of_fields (normalize m) m hx hy ht
    intro h
    rw [normalize_isSlide] at h
    exact hs h

theorem normalize_idem (m : Move) : normalize (normalize m) = normalize m := by
  cases h : m.isSlide
  · rw [normalize_of_nonslide m h]
    have : ({ m with slides := 0#32 } : Move).isSlide = false := h
    rw [normalize_of_nonslide _ this]
  · rw [normalize_of_slide m h, normalize_of_slide m h]

theorem isNormal_iff (m : Move) : isNormal m = true ↔ normalize m = m := by
  unfold isNormal normalize
  cases h : m.isSlide
  · simp only [Bool.false_or, beq_iff_eq, Bool.false_eq_true, if_false]
    constructor
    · intro h0; cases m; simp_all
    · intro h0; rw [← h0]
  · simp

theorem isNormal_normalize (m : Move) : isNormal (normalize m) = true :=
  (isNormal_iff _).2 (normalize_idem m)

/-- two `Equal` moves have the same normal form, and conversely: `normalize` picks one representative of
every `Move.Equal` class -/
theorem equal_iff_normalize_eq (m r : Move) : m.equal r = true ↔ normalize m = normalize r := by
  constructor
  · intro h
    obtain ⟨hx, hy, ht, hs⟩ := equal_fields m r h
    have hsl : r.isSlide = m.isSlide := by unfold Move.isSlide; rw [ht]
    cases hm : m.isSlide
    · rw [normalize_of_nonslide m hm, normalize_of_nonslide r (by rw [hsl, hm])]
      cases m; cases r; simp_all
    · rw [normalize_of_slide m hm, normalize_of_slide r (by rw [hsl, hm])]
      have := hs hm
      cases m; cases r; simp_all
  · intro h
    obtain ⟨ax, ay, at_, as_, _⟩ := normalize_fields m
    obtain ⟨bx, by_, bt, bs, _⟩ := normalize_fields r
    apply equal_of_fields m r (by rw [← ax, h, bx]) (by rw [← ay, h, by_]) (by rw [← at_, h, bt])
    intro hm
    have hr : r.isSlide = true := by
      have : m.type = r.type := by rw [← at_, h, bt]
      unfold Move.isSlide at hm ⊢; rw [← this]; exact hm
    rw [← as_ hm, h, bs hr]

/-- the rule book's reading of a raw move does not look at the cleared field -/
theorem decode_normalize (m : Move) : decode (normalize m) = decode m := by
  have tc := types_cases
  cases h : m.isSlide
  · rw [normalize_of_nonslide m h]
    simp only [Move.isSlide, decide_eq_false_iff_not] at h
    have e5 : (m.type == Facts.mtSlideLeft) = false := by simp; omega
    have e6 : (m.type == Facts.mtSlideRight) = false := by simp; omega
    have e7 : (m.type == Facts.mtSlideUp) = false := by simp; omega
    have e8 : (m.type == Facts.mtSlideDown) = false := by simp; omega
    simp only [decode, e5, e6, e7, e8, Bool.false_eq_true, if_false]
  · rw [normalize_of_slide m h]

/-- … and neither does `MovePreallocated` -/
theorem apply_normalize (basis : Array W) (p : Pos) (m : Move) : p.apply basis (normalize m) = p.apply basis m := by
  cases h : m.isSlide
  · obtain ⟨hx, hy, ht, _⟩ := normalize_fields m
    exact (apply_congr_nonslide basis p m (normalize m) hx.symm hy.symm ht.symm h).symm
  · rw [normalize_of_slide m h]

/-! ## building a `LegalShape` -/

theorem isPlaceType_isSlide (m : Move) (h : isPlaceType m.type = true) : m.isSlide = false := by
  have tc := types_cases
  rcases PTN.placeType_cases _ h with e | e | e <;> simp [Move.isSlide, e, tc]

theorem isSlideType_isSlide (m : Move) (h : isSlideType m.type = true) : m.isSlide = true := by
  have tc := types_cases
  rcases PTN.slideType_cases _ h with e | e | e | e <;> simp [Move.isSlide, e, tc]

theorem isSlideType_not_place (t : Nat) (h : isSlideType t = true) : isPlaceType t = false := by
  have tc := types_cases
  rcases PTN.slideType_cases _ h with e | e | e | e <;> simp [isPlaceType, e, tc]

theorem legalShape_place_intro (size : Nat) (m : Move) (h3 : 3 ≤ size) (h8 : size ≤ 8)
    (hx0 : 0 ≤ m.x) (hx1 : m.x < size) (hy0 : 0 ≤ m.y) (hy1 : m.y < size)
    (hp : isPlaceType m.type = true) (hs : m.slides = 0#32) : LegalShape size m := by
  unfold LegalShape legalShape
  simp [h3, h8, hx0, hx1, hy0, hy1, hp, hs]

theorem dirCode_isSlideType (d : Dir) : isSlideType (dirCode d) = true := by
  cases d <;> simp [dirCode, isSlideType, Facts.mtSlideLeft, Facts.mtSlideRight, Facts.mtSlideUp, Facts.mtSlideDown]

theorem edgeDist_dirCode (size : Nat) (m : Move) (d : Dir) (ht : m.type = dirCode d) :
    edgeDist size m = match d with
      | .left => m.x | .right => (size : Int) - 1 - m.x | .down => m.y | .up => (size : Int) - 1 - m.y := by
  cases d <;>
    simp [edgeDist, ht, dirCode, Facts.mtSlideLeft, Facts.mtSlideRight, Facts.mtSlideUp, Facts.mtSlideDown]

/-- a slide from a board square whose drops are non-empty, all non-zero, sum to at most `size`, and whose
last square is on the board -/
theorem legalShape_slide_intro (size : Nat) (m : Move) (d : Dir) (h3 : 3 ≤ size) (h8 : size ≤ 8)
    (hx0 : 0 ≤ m.x) (hx1 : m.x < size) (hy0 : 0 ≤ m.y) (hy1 : m.y < size) (ht : m.type = dirCode d)
    (hne : Slides.elems m.slides ≠ []) (hnz : ∀ c ∈ Slides.elems m.slides, c ≠ 0)
    (hsum : (Slides.elems m.slides).foldl (· + ·) 0 ≤ size)
    (hend : 0 ≤ m.x + (Slides.elems m.slides).length * d.dx ∧ m.x + (Slides.elems m.slides).length * d.dx < size ∧
            0 ≤ m.y + (Slides.elems m.slides).length * d.dy ∧ m.y + (Slides.elems m.slides).length * d.dy < size) :
    LegalShape size m := by
  have hst : isSlideType m.type = true := by rw [ht]; exact dirCode_isSlideType d
  have hpt : isPlaceType m.type = false := isSlideType_not_place _ hst
  have hedge : ((Slides.elems m.slides).length : Int) ≤ edgeDist size m := by
    rw [edgeDist_dirCode size m d ht]
    cases d <;> simp only [Dir.dx, Dir.dy] at hend ⊢ <;> omega
  have hall : ∀ c ∈ Slides.elems m.slides, 1 ≤ c ∧ c ≤ 8 := by
    intro c hc
    have h1 := hnz c hc
    have h2 := le_sum_of_mem _ c hc
    rw [foldl_add_eq_sum] at hsum
    omega
  unfold LegalShape legalShape
  simp only [hpt, hst, Bool.false_eq_true, if_false, if_true, Bool.and_eq_true, decide_eq_true_eq, Bool.not_eq_true',
    List.isEmpty_eq_false_iff, List.all_eq_true]
  exact ⟨⟨⟨⟨⟨⟨h3, h8⟩, hx0⟩, hx1⟩, hy0⟩, hy1⟩, ⟨⟨hne, hall⟩, hsum⟩, hedge⟩

/-- a legal shape is its own normal form -/
theorem legalShape_normal {size : Nat} {m : Move} (h : LegalShape size m) : normalize m = m := by
  rcases PTN.legalShape_kind h with ⟨hp, hz⟩ | ⟨_, hs, _⟩
  · rw [normalize_of_nonslide m (isPlaceType_isSlide m hp)]
    cases m; simp_all
  · exact normalize_of_slide m (isSlideType_isSlide m hs)

/-- a legal shape is never the pass -/
theorem legalShape_not_pass {size : Nat} {m : Move} (h : LegalShape size m) : m.type ≠ Facts.mtPass := by
  have tc := types_cases
  rcases PTN.legalShape_kind h with ⟨hp, _⟩ | ⟨_, hs, _⟩
  · rcases PTN.placeType_cases _ hp with e | e | e <;> omega
  · rcases PTN.slideType_cases _ hs with e | e | e | e <;> omega

/-! ## the rule book -/

theorem step_place_legalShape (s : State) (m : Move) (k : Kind) (h3 : 3 ≤ s.size) (h8 : s.size ≤ 8)
    (hp : isPlaceType m.type = true) (hl : step s (.place m.x m.y k) ≠ none) :
    LegalShape s.size (normalize m) := by
  obtain ⟨hob, _⟩ := step_place_some _ _ _ _ hl
  simp only [State.onBoard, Bool.and_eq_true, decide_eq_true_eq] at hob
  obtain ⟨nx, ny, nt, _, nz⟩ := normalize_fields m
  apply legalShape_place_intro s.size _ h3 h8 (by rw [nx]; omega) (by rw [nx]; omega) (by rw [ny]; omega)
    (by rw [ny]; omega) (by rw [nt]; exact hp) (nz (isPlaceType_isSlide m hp))

theorem step_slide_legalShape (s : State) (m : Move) (d : Dir) (h3 : 3 ≤ s.size) (h8 : s.size ≤ 8)
    (ht : m.type = dirCode d) (hl : step s (.slide m.x m.y d (Slides.elems m.slides)) ≠ none) :
    LegalShape s.size (normalize m) := by
  obtain ⟨_, hob, hne, hnz, hsz, _, _, s', carried, hs', hdl⟩ := step_slide_some _ _ _ _ _ hl
  simp only [State.onBoard, Bool.and_eq_true, decide_eq_true_eq] at hob
  have hend := dropLoop_end_onboard d _ s' m.x m.y carried hne hdl
  rw [hs'] at hend
  have hsl : m.isSlide = true := isSlideType_isSlide m (by rw [ht]; exact dirCode_isSlideType d)
  rw [normalize_of_slide m hsl]
  exact legalShape_slide_intro s.size m d h3 h8 (by omega) (by omega) (by omega) (by omega) ht hne hnz hsz hend

/-- **whatever the rule book accepts is, after `normalize`, a legal shape** (the pass and the invalid type
codes decode to `.invalid`, which `step` rejects: no side condition on the type is needed) -/
theorem step_legalShape' (s : State) (m : Move) (h3 : 3 ≤ s.size) (h8 : s.size ≤ 8)
    (hl : step s (decode m) ≠ none) : LegalShape s.size (normalize m) := by
  have tc := types_cases
  unfold decode at hl
  by_cases t2 : m.type = Facts.mtPlaceFlat
  · simp only [t2, beq_self_eq_true, if_true] at hl
    exact step_place_legalShape s m .flat h3 h8 (by simp [isPlaceType, t2]) hl
  have e2 : (m.type == Facts.mtPlaceFlat) = false := by simpa using t2
  by_cases t3 : m.type = Facts.mtPlaceStanding
  · simp only [e2, t3, beq_self_eq_true, if_true, Bool.false_eq_true, if_false] at hl
    exact step_place_legalShape s m .standing h3 h8 (by simp [isPlaceType, t3]) hl
  have e3 : (m.type == Facts.mtPlaceStanding) = false := by simpa using t3
  by_cases t4 : m.type = Facts.mtPlaceCapstone
  · simp only [e2, e3, t4, beq_self_eq_true, if_true, Bool.false_eq_true, if_false] at hl
    exact step_place_legalShape s m .capstone h3 h8 (by simp [isPlaceType, t4]) hl
  have e4 : (m.type == Facts.mtPlaceCapstone) = false := by simpa using t4
  by_cases t5 : m.type = Facts.mtSlideLeft
  · simp only [e2, e3, e4, t5, beq_self_eq_true, if_true, Bool.false_eq_true, if_false] at hl
    exact step_slide_legalShape s m .left h3 h8 t5 hl
  have e5 : (m.type == Facts.mtSlideLeft) = false := by simpa using t5
  by_cases t6 : m.type = Facts.mtSlideRight
  · simp only [e2, e3, e4, e5, t6, beq_self_eq_true, if_true, Bool.false_eq_true, if_false] at hl
    exact step_slide_legalShape s m .right h3 h8 t6 hl
  have e6 : (m.type == Facts.mtSlideRight) = false := by simpa using t6
  by_cases t7 : m.type = Facts.mtSlideUp
  · simp only [e2, e3, e4, e5, e6, t7, beq_self_eq_true, if_true, Bool.false_eq_true, if_false] at hl
    exact step_slide_legalShape s m .up h3 h8 t7 hl
  have e7 : (m.type == Facts.mtSlideUp) = false := by simpa using t7
  by_cases t8 : m.type = Facts.mtSlideDown
  · simp only [e2, e3, e4, e5, e6, e7, t8, beq_self_eq_true, if_true, Bool.false_eq_true, if_false] at hl
    exact step_slide_legalShape s m .down h3 h8 t8 hl
  have e8 : (m.type == Facts.mtSlideDown) = false := by simpa using t8
  simp only [e2, e3, e4, e5, e6, e7, e8, Bool.false_eq_true, if_false] at hl
  exact absurd rfl hl

/-! ## the engine -/

/-- the type code of a non-pass move that `MovePreallocated` accepts is one of the seven -/
theorem apply_ok_type (basis : Array W) (p : Pos) (m : Move) (q : Pos) (hnp : m.type ≠ Facts.mtPass)
    (h : p.apply basis m = .ok q) :
    (∃ k, m.type = placeCode k) ∨ (∃ d, m.type = dirCode d) := by
  have tc := types_cases
  by_cases t2 : m.type = Facts.mtPlaceFlat
  · exact .inl ⟨.flat, t2⟩
  by_cases t3 : m.type = Facts.mtPlaceStanding
  · exact .inl ⟨.standing, t3⟩
  by_cases t4 : m.type = Facts.mtPlaceCapstone
  · exact .inl ⟨.capstone, t4⟩
  by_cases t5 : m.type = Facts.mtSlideLeft
  · exact .inr ⟨.left, t5⟩
  by_cases t6 : m.type = Facts.mtSlideRight
  · exact .inr ⟨.right, t6⟩
  by_cases t7 : m.type = Facts.mtSlideUp
  · exact .inr ⟨.up, t7⟩
  by_cases t8 : m.type = Facts.mtSlideDown
  · exact .inr ⟨.down, t8⟩
  exfalso
  have e1 : (m.type == Facts.mtPass) = false := by simpa using hnp
  have e2 : (m.type == Facts.mtPlaceFlat) = false := by simpa using t2
  have e3 : (m.type == Facts.mtPlaceStanding) = false := by simpa using t3
  have e4 : (m.type == Facts.mtPlaceCapstone) = false := by simpa using t4
  have e5 : (m.type == Facts.mtSlideLeft) = false := by simpa using t5
  have e6 : (m.type == Facts.mtSlideRight) = false := by simpa using t6
  have e7 : (m.type == Facts.mtSlideUp) = false := by simpa using t7
  have e8 : (m.type == Facts.mtSlideDown) = false := by simpa using t8
  unfold Pos.apply dispatch at h
  simp only [e1, e2, e3, e4, e5, e6, e7, e8, Bool.false_eq_true, if_false] at h
  cases h

/-- **whatever the engine applies (other than its internal pass) is, after `normalize`, a legal shape** —
read off the acceptance tests of `MovePreallocated` alone: type dispatch, bounds check on the origin, zero-drop
test, carry limit, the per-step bounds check of the drop loop.  No position invariant is needed. -/
theorem apply_legalShape' (basis : Array W) (p : Pos) (m : Move) (q : Pos) (h3 : 3 ≤ p.cfg.size) (h8 : p.cfg.size ≤ 8)
    (hnp : m.type ≠ Facts.mtPass) (h : p.apply basis m = .ok q) : LegalShape p.cfg.size (normalize m) := by
  rcases apply_ok_type basis p m q hnp h with ⟨k, hk⟩ | ⟨d, hd⟩
  · obtain ⟨hx0, hx1, hy0, hy1, _⟩ := apply_place_shape basis p m q k hk h
    have hp : isPlaceType m.type = true := by
      rw [hk]; cases k <;> simp [placeCode, isPlaceType]
    obtain ⟨nx, ny, nt, _, nz⟩ := normalize_fields m
    exact legalShape_place_intro _ _ h3 h8 (by rw [nx]; exact hx0) (by rw [nx]; exact hx1) (by rw [ny]; exact hy0)
      (by rw [ny]; exact hy1) (by rw [nt]; exact hp) (nz (isPlaceType_isSlide m hp))
  · obtain ⟨_, hx0, hx1, hy0, hy1, hnz, hsum, h1, _, _, _, top, stack, st, st', ex, ey, hloop⟩ :=
      apply_slide_shape basis p m q d hd h
    have hne : Slides.elems m.slides ≠ [] := by
      intro e; rw [e] at h1; simp at h1
    have hend := slideLoop_end basis p top stack d.dx d.dy _ st st' hne hloop
    rw [ex, ey] at hend
    have hsl : m.isSlide = true := isSlideType_isSlide m (by rw [hd]; exact dirCode_isSlideType d)
    rw [normalize_of_slide m hsl]
    exact legalShape_slide_intro _ m d h3 h8 hx0 hx1 hy0 hy1 hd hne hnz hsum hend

/-! ## the generator -/

/-- **generated moves are legal shapes as they stand** (no normalisation: `AllMoves` writes placements with an
empty `Slides` word) -/
theorem allMoves_legalShape' (p : Pos) (h3 : 3 ≤ p.cfg.size) (h8 : p.cfg.size ≤ 8) (m : Move) (hm : m ∈ p.allMoves) :
    LegalShape p.cfg.size m := by
  have tc := types_cases
  have hm0 := hm
  rw [mem_allMoves] at hm
  obtain ⟨x, hx, y, hy, hm⟩ := hm
  obtain ⟨ex, ey⟩ := sqMoves_xy p x y m hm
  rcases mem_sqMoves p x y m hm with ⟨_, h⟩ | ⟨_, _, h⟩
  · rw [mem_placeMoves] at h
    have hp : isPlaceType m.type = true ∧ m.slides = 0#32 := by
      rcases h with rfl | ⟨_, rfl⟩ | ⟨_, _, rfl⟩ <;> simp [isPlaceType]
    exact legalShape_place_intro _ m h3 h8 (by omega) (by omega) (by omega) (by omega) hp.1 hp.2
  · rw [mem_slideMoves] at h
    obtain ⟨dc, hdc, s, hs, hmask, rfl⟩ := h
    have hc := carryAt_le p (y * p.cfg.size + x)
    obtain ⟨hne, hpos, hsum, _⟩ := (slides_table _ (by omega) s).1 hs
    have hlen : ∀ c, c ≤ 8 → s &&& maskOf c = 0#32 → (Slides.elems s).length ≤ c := fun c hc8 h =>
      (mask_test _ (by omega) s hs c hc8).1 h
    have hnz : ∀ c ∈ Slides.elems s, c ≠ 0 := fun c hc => by have := (hpos c hc).1; omega
    have hsum' : (Slides.elems s).foldl (· + ·) 0 ≤ p.cfg.size := by rw [foldl_add_eq_sum]; omega
    rw [mem_dirList] at hdc
    rcases hdc with rfl | rfl | rfl | rfl
    · have := hlen x (by omega) hmask
      exact legalShape_slide_intro _ _ .left h3 h8 (by simp) (by simp; omega) (by simp) (by simp; omega) rfl hne hnz hsum'
        (by simp only [Dir.dx, Dir.dy]; omega)
    · have := hlen (p.cfg.size - x - 1) (by omega) hmask
      exact legalShape_slide_intro _ _ .right h3 h8 (by simp) (by simp; omega) (by simp) (by simp; omega) rfl hne hnz hsum'
        (by simp only [Dir.dx, Dir.dy]; omega)
    · have := hlen y (by omega) hmask
      exact legalShape_slide_intro _ _ .down h3 h8 (by simp) (by simp; omega) (by simp) (by simp; omega) rfl hne hnz hsum'
        (by simp only [Dir.dx, Dir.dy]; omega)
    · have := hlen (p.cfg.size - y - 1) (by omega) hmask
      exact legalShape_slide_intro _ _ .up h3 h8 (by simp) (by simp; omega) (by simp) (by simp; omega) rfl hne hnz hsum'
        (by simp only [Dir.dx, Dir.dy]; omega)

end Tak.Proofs
