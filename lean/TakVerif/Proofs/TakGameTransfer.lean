import TakVerif.Proofs.TakGameRestrictSpec
import TakVerif.Proofs.SearchCoverAnalyze

/-! The generic search theorems, relativised: their hypotheses about the game are asked for on a domain of
positions and moves only (`Restr`, `RestrOK`, evaluation bounds and liveness on the domain, no collision on the
domain) and in exchange the engine state must hold no hint outside the move domain (`EngGood`; a new engine does).
Each theorem is the generic one applied to the restricted game, carried over by the simulation theorems. -/
namespace Search
open Tak (Err)

variable {P M : Type} [DecidableEq M]
variable {g : Game P M} {S : Nat → P → Prop} {IM : M → Prop}

/-- `C05.analyze_exact` on a domain -/
theorem analyze_exact_restr (hR : Restr g S IM) (hO : RestrOK g S IM)
    (hb : ∀ q, S 0 q → Facts.minEval ≤ g.eval q ∧ g.eval q ≤ Facts.maxEval)
    (hlive : ∀ p, S 1 p → g.over p = false → kids g p ≠ [])
    {cfg : Cfg} (hpr : Precise cfg.opts) {o : Oracle M} (hnc : NoCancel o) (hord : OrderOK o)
    (p : P) (hp : S Facts.maxDepth p) (hov : g.over p = false) (hdepth : 1 ≤ cfg.depth)
    (hdmax : cfg.depth ≤ Facts.maxDepth) (s : Eng M) (hs : s.hasTable = false) (hgood : EngGood IM s) :
    Sat (analyze g cfg o p s) (fun x =>
      let ms := x.1.1; let v := x.1.2.1; let st := x.1.2.2
      x.2.hasTable = false ∧ st.canceled = false ∧ 1 ≤ st.depth ∧ st.depth ≤ cfg.depth ∧
      v = negamax g st.depth.toNat p ∧
      (∃ m rest c, ms = m :: rest ∧ g.apply p m = .ok c ∧ v = -(negamax g (st.depth.toNat - 1) c)) ∧
      EngGood IM x.2 ∧ ∀ m ∈ ms, IM m) := by
  have h0 : S 0 p := hR.anti_le (Nat.zero_le _) hp
  have hgen := analyze_exact_nt (gameOK_restrict hR hO) (evalBounded_restrict (IM := IM) hb) hpr hnc hord
    (⟨p, h0⟩ : {p // S 0 p}) hov hdepth
    (fun d _ h2 => live_restrict hR hlive d ⟨p, h0⟩ (hR.anti_le (by omega) hp)) s hs
  obtain ⟨e, hsat⟩ := analyze_sim hR cfg hpr.nn o hord ⟨p, h0⟩ hp s hgood
  rw [e] at hgen
  intro x hx
  obtain ⟨h1, h2, h3, h4, h5, m, rest, c', h6, h7, h8⟩ := hgen x hx
  obtain ⟨hg1, hg2⟩ := hsat x hx
  dsimp only at h1 h2 h3 h4 h5 h6 h7 h8 ⊢
  have hd : S x.1.2.2.depth.toNat p := hR.anti_le (by omega) hp
  refine ⟨h1, h2, h3, h4, ?_, ?_, hg2, hg1⟩
  · rw [h5]; exact negamax_restrict hR _ ⟨p, h0⟩ hd
  · obtain ⟨him, hap⟩ := restrict_apply_inv h7
    refine ⟨m, rest, c'.val, h6, hap, ?_⟩
    rw [h8]
    have hd1 : x.1.2.2.depth.toNat = (x.1.2.2.depth.toNat - 1) + 1 := by omega
    rw [hd1] at hd
    rw [negamax_restrict hR _ c' (hR.closed _ _ _ _ hd him hap)]

/-- `C05.analyzeAll_exact` on a domain -/
theorem analyzeAll_exact_restr (hR : Restr g S IM) (hO : RestrOK g S IM)
    (hb : ∀ q, S 0 q → Facts.minEval ≤ g.eval q ∧ g.eval q ≤ Facts.maxEval)
    (hlive : ∀ p, S 1 p → g.over p = false → kids g p ≠ [])
    {cfg : Cfg} (hpr : Precise cfg.opts) {o : Oracle M} (hnc : NoCancel o) (hord : OrderOK o)
    (p : P) (hp : S Facts.maxDepth p) (hov : g.over p = false) (hdepth : 1 ≤ cfg.depth)
    (hdmax : cfg.depth ≤ Facts.maxDepth) (s : Eng M) (hs : s.hasTable = false) (hgood : EngGood IM s) :
    Sat (analyzeAll g cfg o p s) (fun x =>
      let lines := x.1.1; let v := x.1.2.1; let st := x.1.2.2
      1 ≤ st.depth ∧ st.depth ≤ cfg.depth ∧
      v = negamax g st.depth.toNat p ∧
      (∀ line ∈ lines, ∃ m rest c, line = m :: rest ∧ IM m ∧ g.apply p m = .ok c ∧
        v = -(negamax g (st.depth.toNat - 1) c)) ∧
      (∀ m ∈ g.allMoves p, ∀ c, g.apply p m = .ok c → v = -(negamax g (st.depth.toNat - 1) c) →
        ∃ line ∈ lines, ∃ m' rest, line = m' :: rest ∧ g.apply p m' = .ok c) ∧ EngGood IM x.2) := by
  have h0 : S 0 p := hR.anti_le (Nat.zero_le _) hp
  have hgen := analyzeAll_exact_nt (gameOK_restrict hR hO) (evalBounded_restrict (IM := IM) hb) hpr hnc hord
    (⟨p, h0⟩ : {p // S 0 p}) hov hdepth
    (fun d _ h2 => live_restrict hR hlive d ⟨p, h0⟩ (hR.anti_le (by omega) hp)) s hs
  obtain ⟨e, hsat⟩ := analyzeAll_sim hR cfg hpr.nn o hord ⟨p, h0⟩ hp s hgood
  rw [e] at hgen
  -- the reported depth is the one `Analyze` reported
  have hdep : ∀ x, analyzeAll g cfg o p s = .ok x → 1 ≤ x.1.2.2.depth ∧ x.1.2.2.depth ≤ cfg.depth := by
    intro x hx
    have ha := analyze_exact_restr hR hO hb hlive hpr hnc hord p hp hov hdepth hdmax s hs hgood
    unfold analyzeAll at hx
    cases hr : analyze g cfg o p s with
    | error err => rw [hr] at hx; cases hx
    | ok y =>
      obtain ⟨⟨pv, v, st⟩, s1⟩ := y
      rw [hr] at hx
      obtain ⟨_, _, h3, h4, _⟩ := ha _ hr
      dsimp only at hx h3 h4
      unfold analyzeAllFrom at hx
      cases pv with
      | nil => cases hx; exact ⟨h3, h4⟩
      | cons pv0 rest =>
        dsimp only at hx
        split at hx
        · cases hx
        · cases hx; exact ⟨h3, h4⟩
        · cases hx; exact ⟨h3, h4⟩
        · cases hx; exact ⟨h3, h4⟩
  intro x hx
  obtain ⟨h5, h6, h7⟩ := hgen x hx
  obtain ⟨hd1, hd2⟩ := hdep x hx
  dsimp only at h5 h6 h7 hd1 hd2 ⊢
  have hd : S x.1.2.2.depth.toNat p := hR.anti_le (by omega) hp
  have hdd : x.1.2.2.depth.toNat = (x.1.2.2.depth.toNat - 1) + 1 := by omega
  have hd' : S ((x.1.2.2.depth.toNat - 1) + 1) p := by rw [← hdd]; exact hd
  have hchild : ∀ (m : M) (c : P), IM m → g.apply p m = .ok c → S (x.1.2.2.depth.toNat - 1) c :=
    fun m c him hap => hR.closed _ _ _ _ hd' him hap
  refine ⟨hd1, hd2, ?_, ?_, ?_, hsat x hx⟩
  · rw [h5]; exact negamax_restrict hR _ ⟨p, h0⟩ hd
  · intro line hl
    obtain ⟨m, rest, c', e1, e2, e3⟩ := h6 line hl
    obtain ⟨him, hap⟩ := restrict_apply_inv e2
    refine ⟨m, rest, c'.val, e1, him, hap, ?_⟩
    rw [e3, negamax_restrict hR _ c' (hchild m _ him hap)]
  · intro m hm c hap hv
    have him : IM m := hR.gen p h0 m hm
    have hc : S (x.1.2.2.depth.toNat - 1) c := hchild m c him hap
    have hc0 : S 0 c := hR.anti_le (Nat.zero_le _) hc
    obtain ⟨line, hl, m', rest, e1, e2⟩ := h7 m hm ⟨c, hc0⟩ (restrict_apply_ok him hap hc0)
      (by rw [hv, negamax_restrict hR _ ⟨c, hc0⟩ hc])
    exact ⟨line, hl, m', rest, e1, (restrict_apply_inv e2).2⟩

omit [DecidableEq M] in
/-- a history of calls at positions of the domain lifts to the restricted game -/
theorem hist_lift (h : History P M) (hh : ∀ x ∈ h, S 0 x.1) :
    ∃ h' : History {p // S 0 p} M, histVal h' = h := by
  induction h with
  | nil => exact ⟨[], rfl⟩
  | cons c rest ih =>
    obtain ⟨h', e⟩ := ih (fun x hx => hh x (List.mem_cons_of_mem _ hx))
    refine ⟨(⟨c.1, hh c (by simp)⟩, c.2) :: h', ?_⟩
    simp only [histVal, List.map_cons] at e ⊢
    rw [e]

omit [DecidableEq M] in
theorem histVal_mem {h' : History {p // S 0 p} M} {x : {p // S 0 p} × Oracle M} (hx : x ∈ h') :
    (x.1.val, x.2) ∈ histVal h' := by
  unfold histVal
  exact List.mem_map.mpr ⟨x, hx, rfl⟩

/-- `C05.verdict_sound` on a domain whose rank is immaterial (`hconst`): every history of `Analyze` calls, on one
engine starting new, at positions of the domain -/
theorem verdict_sound_restr (hR : Restr g S IM) (hO : RestrOK g S IM)
    (hin : ∀ p, S 0 p → g.over p = false → -Facts.winThreshold ≤ g.eval p ∧ g.eval p ≤ Facts.winThreshold)
    (hlive : ∀ p, S 1 p → g.over p = false → kids g p ≠ [])
    (hconst : ∀ k j p, S k p → S j p) (hinj : HashOKOn g (S 0))
    {cfg : Cfg} (hpr : Precise cfg.opts) (h : History P M) (hh : ∀ x ∈ h, OrderOK x.2 ∧ S 0 x.1) :
    Sat (runCalls g cfg h (Eng.new g cfg)) (fun x =>
      EngGood IM x.2 ∧
      ∀ y ∈ x.1, (y.2 > Facts.winThreshold → Win g y.1) ∧ (y.2 < -Facts.winThreshold → Loss g y.1)) := by
  obtain ⟨h', e⟩ := hist_lift (S := S) h (fun x hx => (hh x hx).2)
  subst e
  have hh' : ∀ x ∈ h', OrderOK x.2 ∧ S Facts.maxDepth x.1.val := by
    intro x hx
    have := hh _ (histVal_mem hx)
    exact ⟨this.1, hconst _ _ _ this.2⟩
  have hgen := runCalls_sound (gameOK_restrict hR hO)
    (evalOK_restrict hR hin (fun p hp => hconst _ _ _ hp) hlive) (hashOK_restrict hR hconst hinj) hpr h'
    (Eng.new (g.restrict (S 0) IM) cfg) (fun x hx => (hh' x hx).1) (tableSound_new cfg)
  intro x hx
  obtain ⟨rs, s2⟩ := x
  obtain ⟨rs', h1, h2, h3⟩ := runCalls_sim hR cfg hpr.nn h' _ hh' (engGood_new hR cfg) rs s2 hx
  refine ⟨h3, ?_⟩
  intro y hy
  dsimp only at hy
  rw [h2] at hy
  obtain ⟨y', hy', rfl⟩ := List.mem_map.mp hy
  have := (hgen _ h1).2 y' hy'
  unfold VSound at this
  dsimp only
  exact ⟨fun hw => (win_restrict hR y'.1 (fun d => hconst _ _ _ y'.1.property)).mp (this.1 hw),
         fun hl => (loss_restrict hR y'.1 (fun d => hconst _ _ _ y'.1.property)).mp (this.2 hl)⟩

/-- `C05.verdict_complete` on a domain whose rank is immaterial -/
theorem verdict_complete_restr (hR : Restr g S IM) (hO : RestrOK g S IM)
    (hin : ∀ p, S 0 p → g.over p = false → -Facts.winThreshold ≤ g.eval p ∧ g.eval p ≤ Facts.winThreshold)
    (hlive : ∀ p, S 1 p → g.over p = false → kids g p ≠ [])
    (hconst : ∀ k j p, S k p → S j p) (hinj : HashOKOn g (S 0))
    {cfg : Cfg} (hpr : Precise cfg.opts) (h : History P M) (hh : ∀ x ∈ h, OrderOK x.2 ∧ S 0 x.1)
    (hmono : ∀ x ∈ h, x.2.Monotone) (p : P) (hp : S 0 p) (hov : g.over p = false) {o : Oracle M} (hnc : NoCancel o)
    (hord' : OrderOK o) (rs : List (P × Int)) (s : Eng M) (r : List M × Int × Stats) (s' : Eng M)
    (h1 : runCalls g cfg h (Eng.new g cfg) = .ok (rs, s)) (h2 : analyze g cfg o p s = .ok (r, s')) :
    (negamax g r.2.2.depth.toNat p > Facts.winThreshold → r.2.1 > Facts.winThreshold) ∧
    (negamax g r.2.2.depth.toNat p < -Facts.winThreshold → r.2.1 < -Facts.winThreshold) := by
  obtain ⟨h', e⟩ := hist_lift (S := S) h (fun x hx => (hh x hx).2)
  subst e
  have hh' : ∀ x ∈ h', OrderOK x.2 ∧ S Facts.maxDepth x.1.val := by
    intro x hx
    have := hh _ (histVal_mem hx)
    exact ⟨this.1, hconst _ _ _ this.2⟩
  obtain ⟨rs', e1, _, hgood⟩ := runCalls_sim hR cfg hpr.nn h' _ hh' (engGood_new hR cfg) rs s h1
  obtain ⟨e2, _⟩ := analyze_sim hR cfg hpr.nn o hord' ⟨p, hp⟩ (hconst _ _ _ hp) s hgood
  have hgen := runCalls_then_complete (gameOK_restrict hR hO)
    (evalOK_restrict hR hin (fun p hp => hconst _ _ _ hp) hlive) (hashOK_restrict hR hconst hinj) hpr h'
    (fun x hx => (hh' x hx).1) (fun x hx => hmono _ (histVal_mem hx)) ⟨p, hp⟩ hov hnc hord' rs' s r s'
    e1 (by rw [e2]; exact h2)
  rw [negamax_restrict hR _ ⟨p, hp⟩ (hconst _ _ _ hp)] at hgen
  exact hgen

end Search
