import TakVerif.Spec.FPA
import TakVerif.Impl.FPARepair

/-! The opening game of `Spec/FPA.lean` played by the code **with** `fixes/C07-fpa-record-notes.diff`: the state
carries the game record (what the rule is shown of it: the view of each position and the move played there, oldest
first) and the notes the rule value happens to hold — those of an earlier game, of an undone line, anything —;
`Friendly.GetMove` (`Tak.FPA.friendlyGetMoveR`) rebuilds the notes from the record on every call. -/
namespace Spec.FPA
open Tak Tak.FPA

structure StR (β : Type) where
  /-- what the rule value remembers when `GetMove` is entered (left by the last call, of whatever game) -/
  notes : Rule
  /-- the record `(f.g.Positions[i], f.g.Moves[i])` as the rule sees it, oldest first -/
  hist : List (View × Tak.Move)
  cur : β
  lastScripted : Bool

/-- the variant's own (repaired) rule check accepts `m` -/
def acceptedR (var : Variant) (r : Rule) (v : View) (m : Tak.Move) : Bool :=
  match legalMoveR var r v m with
  | .ok (_, ok) => ok
  | .error _ => false

section game
variable {β : Type} (B : Board β) (var : Variant) (color : Color)

/-- the repaired `Friendly.GetMove` on a state -/
def turnR (s : StR β) : R (Rule × Reply) :=
  friendlyGetMoveR var color s.notes (B.view s.cur) (B.toMove s.cur) s.hist

def nextR (s : StR β) : List (StR β) :=
  match turnR B var color s with
  | .error _ => []
  | .ok (_, .resign) => []
  | .ok (r, .scripted m) =>
    match B.step s.cur (Spec.decode m) with
    | some q => [{ notes := r, hist := s.hist ++ [(B.view s.cur, m)], cur := q, lastScripted := true }]
    | none => []
  | .ok (r, _) =>
    (B.cands s.cur).filterMap fun m =>
      if acceptedR var r (B.view s.cur) m then
        (B.step s.cur (Spec.decode m)).map fun q =>
          { notes := r, hist := s.hist ++ [(B.view s.cur, m)], cur := q, lastScripted := false }
      else none

/-- C20 at one state (as `good`) -/
def goodR (s : StR β) : Bool :=
  match turnR B var color s with
  | .error _ => false
  | .ok (_, .resign) => !s.lastScripted
  | .ok (_, .scripted m) => (B.step s.cur (Spec.decode m)).isSome
  | .ok _ => true

inductive ReachR : Nat → StR β → StR β → Prop
  | refl (s : StR β) : ReachR 0 s s
  | step (n : Nat) (s t u : StR β) : t ∈ nextR B var color s → ReachR n t u → ReachR (n+1) s u

end game

/-- the start of a game with a rule value that holds the notes `r0` -/
def initR (size : Nat) (r0 : Rule) : StR Spec.State :=
  { notes := r0, hist := [], cur := (init size).cur, lastScripted := false }

end Spec.FPA
