import TakVerif.Impl.Bot

/-! What C07 asks of the bot loop, as predicates on the states of `Tak.Bot` (the model of `playtak/bot/bot.go`).
Nothing here mentions how the loop works; the ghost fields `srvPos/srvMoves` (the server's authoritative
history) and `log` (the circumstances of every transmitted move) carry the property. -/
namespace Tak.Bot

/-- `m` is accepted by the rule check the code itself uses (`Position.Move`; C01 relates it to the rule book) -/
def Legal (basis : Array W) (p : Pos) (m : Move) : Prop := ∃ q, p.apply basis m = .ok q

def St.crashed (s : St) : Prop := ∃ e, s.status = .crashed e

/-- the bot's record of positions and moves equals the server's authoritative history -/
def RecordTracks (s : St) : Prop :=
  s.positions = s.srvPos ∧ s.moves = s.srvMoves ∧ s.positions.head? = some s.p

/-- a transmitted move was sent when the record's current position was the server's, the game was not over
there (`Position.Move` itself does not look at that), the move is legal there, it was sent on the bot's own
turn, and it is the answer of a thinker started on exactly that position -/
structure GoodSend (cfg : Conf) (r : SentRec) : Prop where
  current : r.srvAt = some r.recAt
  live : r.recAt.gameOver.1 = false
  legal : Legal cfg.basis r.recAt r.move
  onTurn : r.recAt.toMove = cfg.color
  fresh : r.tag = r.recAt

/-- the moves among the transmitted commands, oldest first -/
def sentMoves (s : St) : List Move :=
  s.sent.filterMap (fun c => match c with | .move m => some m | .requestUndo => none)

/-- C07's invariant -/
structure Inv (cfg : Conf) (s : St) : Prop where
  /-- record = server history (as long as the loop has not panicked) -/
  tracks : ¬ s.crashed → RecordTracks s
  /-- every transmitted move is legal, on turn and fresh -/
  sends : ∀ r ∈ s.log, GoodSend cfg r
  /-- the ghost log is exactly the list of transmitted moves -/
  logged : sentMoves s = s.log.map (·.move)

/-- number of thinkers inside `GetMove` among a list -/
def nRunning (l : List Thinker) : Nat := (l.filter (fun t => t.st = .running)).length

/-- thinkers holding `g.moveLock` (inside `Bot.GetMove`) -/
def holders (s : St) : Nat := nRunning s.old + (if s.cur.st = .running then 1 else 0)

/-- the server ends the game: `Over`, `Abandoned.` for this game, or the connection closes -/
def isEnd (cfg : Conf) : Ev → Prop
  | .close => True
  | .deliver (b0 :: b1 :: _) _ _ => b0 = cfg.gameStr ∧ (b1 = "Over" ∨ b1 = "Abandoned.")
  | _ => False

/-- the rule check neither panics nor runs out of fuel on this answer (C01/C02 own the general fact that
`Position.Move` never does; here it is asked only of the answers that actually occur) -/
def AnswerOK (basis : Array W) (p : Pos) (m : Move) : Prop :=
  match p.apply basis m with
  | .error (.panic _) => False
  | .error (.hang _) => False
  | _ => True

/-- an announced move: `ParseServer` produced it and it is legal in the server's current position -/
def MoveOK (cfg : Conf) (s : St) (parsed : Option Move) : Prop :=
  match parsed, srvCur s with
  | some m, some q => Legal cfg.basis q m
  | _, _ => False

def keywords : List String := ["P", "M", "Abandoned.", "Over", "Time", "RequestUndo", "Undo"]

/-- what a playtak server sends while the game runs, relative to its own history:
announced moves are parsed and legal in the server's position, `Undo` only with a non-empty history,
`Over` carries a result, `Time` two numbers, `Tell` lines carry `<name>` as second word; and of an AI answer:
checking it does not panic. -/
def LineOK (cfg : Conf) (s : St) : Ev → Prop
  | .deliver bits parsed _ =>
    match bits with
    | [] => True
    | [b0] => b0 ≠ cfg.gameStr ∧ b0 ≠ "Tell"
    | b0 :: b1 :: args =>
      (b0 = "Tell" → b0 ≠ cfg.gameStr ∧ b1 ∉ keywords) ∧
      (b0 = cfg.gameStr →
        ((b1 = "P" ∨ b1 = "M") → MoveOK cfg s parsed) ∧
        (b1 = "Over" → args ≠ []) ∧
        (b1 = "Time" → 2 ≤ args.length) ∧
        (b1 = "Undo" → s.srvMoves ≠ []))
  | .aiReturns _ m => AnswerOK cfg.basis s.p m
  | _ => True

/-- the whole trace is well-formed server traffic (checked while the loop runs) -/
def TraceOK (cfg : Conf) : St → List Ev → Prop
  | _, [] => True
  | s, e :: es => (s.status = .running → LineOK cfg s e) ∧ TraceOK cfg (step cfg s e) es

end Tak.Bot
