import TakVerif.Spec.Tak

/-! Move shapes enumerated from first principles: the drop lists of a slide are the *compositions*
(ordered lists of positive numbers) with a bounded sum.  Nothing here looks at the engine's
precomputed `slides` table; `Proofs/Slides*.lean` proves the table equal to this enumeration. -/
namespace Spec

/-- all non-empty lists of positive numbers whose sum is at most `h`
(listed in the order Go's `calculateSlides` produces them: by first drop, the bare `[i]` first) -/
def compositions : Nat → List (List Nat)
  | 0 => []
  | h+1 => (List.range (h+1)).flatMap fun i0 =>
      [i0+1] :: (compositions (h - i0)).map (fun l => (i0+1) :: l)
termination_by h => h
decreasing_by omega

/-- packing of a drop list into a `Slides` word: first drop in the low nibble (`MkSlides`) -/
def encodeDrops : List Nat → BitVec 32
  | [] => 0#32
  | d :: ds => (encodeDrops ds <<< 4) ||| BitVec.ofNat 32 d

/-- every move shape that could be legal on this board size, without reference to the engine's table -/
def allShapesC (size : Nat) : List Tak.Move :=
  let coords := (List.range size).map (fun (n : Nat) => (n : Int))
  let places := coords.flatMap (fun x => coords.flatMap (fun y =>
    [Facts.mtPlaceFlat, Facts.mtPlaceStanding, Facts.mtPlaceCapstone].map (fun t => (⟨x, y, t, 0⟩ : Tak.Move))))
  let slides := coords.flatMap (fun x => coords.flatMap (fun y =>
    [Facts.mtSlideLeft, Facts.mtSlideRight, Facts.mtSlideUp, Facts.mtSlideDown].flatMap (fun t =>
      ((compositions (min size 8)).map encodeDrops).map (fun s => (⟨x, y, t, s⟩ : Tak.Move)))))
  places ++ slides

/-- the legal move set by the rule book alone -/
def legalMovesC (s : State) : List Tak.Move :=
  (allShapesC s.size).filter (fun m => (step s (decode m)).isSome)

end Spec
