import TakVerif.Impl.Move

/-! The rules of Tak over plain lists: no bitboards, no hashes.  This is the reference the
bit-level model (`Impl`) is proved against and the oracle the failing-input search uses.
It imports `Impl` only for the shared vocabulary (`Piece`, `Color`, `Kind`, `Move` record, `Facts`). -/
namespace Spec
open Tak (Piece Color Kind)

/-- a square: pieces top first; only the head may be a wall or a capstone -/
abbrev Square := List Piece

structure State where
  size : Nat
  blackWinsTies : Bool
  squares : List Square      -- row-major, a1 first; length size*size
  ply : Int
  whiteStones : Nat
  whiteCaps : Nat
  blackStones : Nat
  blackCaps : Nat
deriving Repr, DecidableEq, Inhabited

inductive Dir where | left | right | up | down
deriving Repr, DecidableEq, Inhabited

def Dir.dx : Dir → Int | .left => -1 | .right => 1 | _ => 0
def Dir.dy : Dir → Int | .up => 1 | .down => -1 | _ => 0

inductive Move where
  | place (x y : Int) (k : Kind)
  | slide (x y : Int) (d : Dir) (drops : List Nat)
  | invalid
deriving Repr, DecidableEq, Inhabited

/-- reading of a raw move value -/
def decode (m : Tak.Move) : Move :=
  if m.type == Facts.mtPlaceFlat then .place m.x m.y .flat
  else if m.type == Facts.mtPlaceStanding then .place m.x m.y .standing
  else if m.type == Facts.mtPlaceCapstone then .place m.x m.y .capstone
  else if m.type == Facts.mtSlideLeft then .slide m.x m.y .left (Tak.Slides.elems m.slides)
  else if m.type == Facts.mtSlideRight then .slide m.x m.y .right (Tak.Slides.elems m.slides)
  else if m.type == Facts.mtSlideUp then .slide m.x m.y .up (Tak.Slides.elems m.slides)
  else if m.type == Facts.mtSlideDown then .slide m.x m.y .down (Tak.Slides.elems m.slides)
  else .invalid

def State.toMove (s : State) : Color := if s.ply % 2 == 0 then .white else .black

def State.onBoard (s : State) (x y : Int) : Bool := 0 ≤ x && x < s.size && 0 ≤ y && y < s.size

def State.idx (s : State) (x y : Int) : Nat := (x + y * s.size).toNat

def State.at (s : State) (x y : Int) : Square := s.squares.getD (s.idx x y) []

def State.setAt (s : State) (x y : Int) (sq : Square) : State :=
  { s with squares := s.squares.set (s.idx x y) sq }

def State.reserve (s : State) (c : Color) (cap : Bool) : Nat :=
  match c, cap with
  | .white, false => s.whiteStones | .white, true => s.whiteCaps
  | .black, false => s.blackStones | .black, true => s.blackCaps
  | .none, _ => 0

def State.decReserve (s : State) (c : Color) (cap : Bool) : State :=
  match c, cap with
  | .white, false => { s with whiteStones := s.whiteStones - 1 }
  | .white, true => { s with whiteCaps := s.whiteCaps - 1 }
  | .black, false => { s with blackStones := s.blackStones - 1 }
  | .black, true => { s with blackCaps := s.blackCaps - 1 }
  | .none, _ => s

/-- drop the carried pieces (`carried`, top first) square by square -/
def dropLoop (s : State) (x y : Int) (d : Dir) (carried : List Piece) : List Nat → Option State
  | [] => if carried.isEmpty then some s else none
  | c :: cs =>
    let x := x + d.dx
    let y := y + d.dy
    if !s.onBoard x y then none else
    if c < 1 ∨ c > carried.length then none else
    let target := s.at x y
    -- what may be entered
    let target? : Option Square :=
      match target with
      | [] => some []
      | t :: rest =>
        match t.kind with
        | .capstone => none
        | .standing =>
          (match carried with
           | [cp] => if cp.kind == .capstone then some (⟨t.color, .flat⟩ :: rest) else none
           | _ => none)
        | .flat => some target
    match target? with
    | none => none
    | some target =>
      let keep := carried.length - c
      let dropped := carried.drop keep           -- the bottom c pieces of what is carried
      let s := s.setAt x y (dropped ++ target)
      dropLoop s x y d (carried.take keep) cs

/-- the rule book: `none` = the move is not legal -/
def step (s : State) : Move → Option State
  | .invalid => none
  | .place x y k =>
    if !s.onBoard x y then none else
    let mover := s.toMove
    if s.ply < 2 ∧ k ≠ .flat then none else
    let col := if s.ply < 2 then mover.flip else mover
    if !(s.at x y).isEmpty then none else
    let cap := k == .capstone
    if s.reserve col cap == 0 then none else
    let s := s.decReserve col cap
    let s := s.setAt x y [⟨col, k⟩]
    some { s with ply := s.ply + 1 }
  | .slide x y d drops =>
    if s.ply < 2 then none else
    if !s.onBoard x y then none else
    if drops.isEmpty ∨ drops.any (· == 0) then none else
    let total := drops.foldl (· + ·) 0
    let sq := s.at x y
    if total > s.size ∨ total > sq.length then none else
    match sq with
    | [] => none
    | t :: _ =>
      if t.color ≠ s.toMove then none else
      let carried := sq.take total
      let s := s.setAt x y (sq.drop total)
      match dropLoop s x y d carried drops with
      | none => none
      | some s => some { s with ply := s.ply + 1 }

/-! ### roads and the end of the game -/

def roadTop (c : Color) (sq : Square) : Bool :=
  match sq with
  | [] => false
  | t :: _ => t.color == c && t.isRoad

/-- squares (indices) adjacent on the board -/
def neighbours (size : Nat) (i : Nat) : List Nat :=
  let x := i % size
  let y := i / size
  (if x > 0 then [i - 1] else []) ++ (if x + 1 < size then [i + 1] else []) ++
  (if y > 0 then [i - size] else []) ++ (if y + 1 < size then [i + size] else [])

/-- one round of breadth-first growth inside `ok` -/
def growList (size : Nat) (ok : Nat → Bool) (cur : List Nat) : List Nat :=
  (List.range (size * size)).filter (fun i => ok i && (cur.contains i || (neighbours size i).any cur.contains))

def reachFuel (size : Nat) (ok : Nat → Bool) : Nat → List Nat → List Nat
  | 0, cur => cur
  | n+1, cur => let nx := growList size ok cur; if nx == cur then cur else reachFuel size ok n nx

def reach (size : Nat) (ok : Nat → Bool) (seed : List Nat) : List Nat :=
  reachFuel size ok (size * size + 1) (seed.filter ok)

/-- colour `c` has a road: a chain of adjacent road-capable tops joining two opposite edges -/
def hasRoad (s : State) (c : Color) : Bool :=
  let n := s.size
  let ok := fun i => roadTop c (s.squares.getD i [])
  let all := List.range (n * n)
  let left := all.filter (fun i => i % n == 0)
  let bottom := all.filter (fun i => i / n == 0)
  (reach n ok left).any (fun i => i % n == n - 1) || (reach n ok bottom).any (fun i => i / n == n - 1)

/-- `Conn n ok i j`: square `j` is reached from square `i` by steps between orthogonally adjacent
squares of the `n×n` board, every square on the way (both ends included) satisfying `ok`.
Squares are indices `x + y*n`. -/
inductive Conn (n : Nat) (ok : Nat → Prop) : Nat → Nat → Prop
  | refl {i : Nat} : i < n * n → ok i → Conn n ok i i
  | step {i j k : Nat} : Conn n ok i j → k ∈ neighbours n j → ok k → Conn n ok i k

/-- the rule-book notion of a road (as a proposition): some chain of adjacent squares whose tops are
flats or capstones of colour `c` joins the left edge to the right edge or the bottom edge to the top edge.
`Spec.hasRoad` decides it (`Roads.spec_hasRoad_iff`). -/
def RoadPath (s : State) (c : Color) : Prop :=
  ∃ i j, Conn s.size (fun k => roadTop c (s.squares.getD k []) = true) i j ∧
    ((i % s.size = 0 ∧ j % s.size = s.size - 1) ∨ (i / s.size = 0 ∧ j / s.size = s.size - 1))

def flatCount (s : State) (c : Color) : Nat :=
  (s.squares.filter (fun sq => match sq with | [] => false | t :: _ => t.color == c && t.kind == .flat)).length

structure Outcome where
  over : Bool
  winner : Color
  road : Bool
  whiteFlats : Nat
  blackFlats : Nat
deriving Repr, DecidableEq, Inhabited

def outcome (s : State) : Outcome :=
  let wr := hasRoad s .white
  let br := hasRoad s .black
  let wf := flatCount s .white
  let bf := flatCount s .black
  let flatsWinner := if wf > bf then Color.white else if bf > wf then Color.black
                     else if s.blackWinsTies then Color.black else Color.none
  if wr && br then
    -- the player who just moved wins
    { over := true, winner := s.toMove.flip, road := true, whiteFlats := wf, blackFlats := bf }
  else if wr then { over := true, winner := .white, road := true, whiteFlats := wf, blackFlats := bf }
  else if br then { over := true, winner := .black, road := true, whiteFlats := wf, blackFlats := bf }
  else
    let full := s.squares.all (fun sq => !sq.isEmpty)
    let out := s.whiteStones + s.whiteCaps == 0 || s.blackStones + s.blackCaps == 0
    if full || out then { over := true, winner := flatsWinner, road := false, whiteFlats := wf, blackFlats := bf }
    else { over := false, winner := .none, road := false, whiteFlats := wf, blackFlats := bf }

/-- the PTN result of a finished game by the rule book; `none` while the game is running -/
def result (s : State) : Option String :=
  let o := outcome s
  if !o.over then none else
  match o.winner with
  | .none => some "1/2-1/2"
  | .white => some (if o.road then "R-0" else "F-0")
  | .black => some (if o.road then "0-R" else "0-F")

/-! ### abstraction from the bit-level position -/

def abs (p : Tak.Pos) : State :=
  { size := p.cfg.size
    blackWinsTies := p.cfg.blackWinsTies
    squares := (List.range (p.cfg.size * p.cfg.size)).map p.squareAt
    ply := p.move
    whiteStones := p.whiteStones.toNat, whiteCaps := p.whiteCaps.toNat
    blackStones := p.blackStones.toNat, blackCaps := p.blackCaps.toNat }

/-- every move shape that could be legal on this board size (used to enumerate the legal set) -/
def allShapes (size : Nat) : List Tak.Move :=
  let coords := (List.range size).map (fun (n : Nat) => (n : Int))
  let places := coords.flatMap (fun x => coords.flatMap (fun y =>
    [Facts.mtPlaceFlat, Facts.mtPlaceStanding, Facts.mtPlaceCapstone].map (fun t => (⟨x, y, t, 0⟩ : Tak.Move))))
  let slides := coords.flatMap (fun x => coords.flatMap (fun y =>
    [Facts.mtSlideLeft, Facts.mtSlideRight, Facts.mtSlideUp, Facts.mtSlideDown].flatMap (fun t =>
      (Tak.slidesTable.getD (min size 8) []).map (fun s => (⟨x, y, t, s⟩ : Tak.Move)))))
  places ++ slides

def legalMoves (s : State) : List Tak.Move :=
  (allShapes s.size).filter (fun m => (step s (decode m)).isSome)

end Spec
