import TakVerif.Impl.PN
import Std.Data.HashMap

/-! Ground truth for C06, computed without any proof-number machinery:

* `explore` + `solve`: the graph reachable from a position and, by plain fixed-point iteration
  (retrograde analysis), the set of positions from which the attacker can force a win.  Play that
  never ends, draws and losses are all "no win", so this is the least fixed point
  (`C06.PlainWin`; equal to the repetition-aware `C06.ForcedWin` from an empty history).
* `bounded`: three-valued exhaustive search to a fixed depth, for positions whose graph is too large:
  `win` = the attacker forces a win within the depth, `loss` = the defender forces a finished game the
  attacker did not win within the depth, `open` = undecided at the horizon.

Positions are identified by `key` (for Tak: board, stacks, side to move and whether the opening
rule still applies). -/
namespace Tak.Truth
open Tak.PN (Game)

inductive Tri where | win | loss | open
deriving DecidableEq, Repr, Inhabited

structure Graph (S : Type) where
  nodes : Array S
  over : Array (Option Color)
  succ : Array (Array Nat)

section
variable {S M K : Type} [BEq K] [Hashable K] (G : Game S M) (key : S → K)

structure Explore (S K : Type) [BEq K] [Hashable K] where
  nodes : Array S
  index : Std.HashMap K Nat
  over : Array (Option Color)
  succ : Array (Array Nat)

/-- breadth-first closure; `none` when more than `cap` positions are reachable -/
def exploreLoop (cap : Nat) : Nat → Nat → Explore S K → Option (Explore S K)
  | 0, _, _ => none
  | fuel+1, i, e =>
    match e.nodes[i]? with
    | none => some e
    | some s =>
      match G.over s with
      | some w => exploreLoop cap fuel (i+1) { e with over := e.over.push (some w), succ := e.succ.push #[] }
      | none =>
        let (e, js) := (G.moves s).foldl (fun (acc : Explore S K × Array Nat) m =>
          match G.apply s m with
          | none => acc
          | some q =>
            let k := key q
            match acc.1.index[k]? with
            | some j => (acc.1, acc.2.push j)
            | none =>
              let j := acc.1.nodes.size
              ({ acc.1 with nodes := acc.1.nodes.push q, index := acc.1.index.insert k j }, acc.2.push j)) (e, #[])
        if e.nodes.size > cap then none
        else exploreLoop cap fuel (i+1) { e with over := e.over.push none, succ := e.succ.push js }

def explore (cap : Nat) (root : S) : Option (Explore S K) :=
  exploreLoop G key cap (cap + 2) 0
    { nodes := #[root], index := (∅ : Std.HashMap K Nat).insert (key root) 0, over := #[], succ := #[] }

/-- one round of the fixed-point iteration; returns the new marking and whether it grew -/
def solveRound (e : Explore S K) (attacker : Color) (win : Array Bool) : Array Bool × Bool :=
  (List.range e.nodes.size).foldl (fun (acc : Array Bool × Bool) i =>
    if acc.1.getD i false then acc else
    let w : Bool :=
      match e.over.getD i none with
      | some c => c == attacker
      | none =>
        match e.nodes[i]? with
        | none => false
        | some s =>
          let js := e.succ.getD i #[]
          if G.toMove s == attacker then js.any (fun j => acc.1.getD j false)
          else js.all (fun j => acc.1.getD j false)
    if w then (acc.1.setIfInBounds i true, true) else acc) (win, false)

def solveLoop (e : Explore S K) (attacker : Color) : Nat → Array Bool → Array Bool
  | 0, win => win
  | fuel+1, win =>
    let (win, grew) := solveRound G e attacker win
    if grew then solveLoop e attacker fuel win else win

/-- positions of the graph from which `attacker` can force a win -/
def solve (e : Explore S K) (attacker : Color) : Array Bool :=
  solveLoop G e attacker (e.nodes.size + 1) (Array.replicate e.nodes.size false)

/-- scan of an attacker node's children: a winning child wins; all lost = lost -/
def orScan {S : Type} (f : S → Tri) : List S → Bool → Tri
  | [], allLoss => if allLoss then .loss else .open
  | k :: ks, allLoss =>
    match f k with
    | .win => .win
    | .loss => orScan f ks allLoss
    | .open => orScan f ks false

/-- scan of a defender node's children: a lost child loses; all won = won -/
def andScan {S : Type} (f : S → Tri) : List S → Bool → Tri
  | [], allWin => if allWin then .win else .open
  | k :: ks, allWin =>
    match f k with
    | .loss => .loss
    | .win => andScan f ks allWin
    | .open => andScan f ks false

/-- depth-bounded exhaustive search for `attacker` -/
def bounded (attacker : Color) : Nat → S → Tri
  | 0, s =>
    match G.over s with
    | some c => if c == attacker then .win else .loss
    | none => .open
  | d+1, s =>
    match G.over s with
    | some c => if c == attacker then .win else .loss
    | none =>
      let kids := (G.moves s).filterMap (G.apply s)
      if G.toMove s == attacker then orScan (bounded attacker d) kids true
      else andScan (bounded attacker d) kids true

end

/-- identity of a Tak position as far as the rules can tell positions apart -/
def takKey (p : Pos) : List UInt64 :=
  let tag : UInt64 := if p.move < 2 then UInt64.ofNat p.move.toNat else (if p.move % 2 == 0 then 2 else 3)
  [UInt64.ofNat p.white.toNat, UInt64.ofNat p.black.toNat, UInt64.ofNat p.standing.toNat, UInt64.ofNat p.caps.toNat, tag]
  ++ (List.range p.height.size).flatMap (fun i =>
      let h := (p.height.getD i 0).toNat
      if h > 1 then [UInt64.ofNat (i * 256 + h), UInt64.ofNat (p.stacks.getD i 0).toNat] else [])

end Tak.Truth
