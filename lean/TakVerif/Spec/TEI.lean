import TakVerif.Impl.TEI

/-! What a TEI command history *tells* the engine, written as a look-back over the history (newest
command first) instead of a state machine: the size in force is the argument of the most recent
`teinewgame`; the position is what the most recent `position` since then declares — its start
(standard, or the TPS, which must have the size in force) with **all** listed moves first parsed and then
applied through the rules (`Pos.apply`). -/
namespace Spec.TEI
open Tak Tak.TEI

def toOpt {α} : R α → Option α
  | .ok a => some a
  | .error _ => none

/-- apply a list of moves through the rules -/
def applyAll (basis : Array W) : Pos → List Move → Option Pos
  | p, [] => some p
  | p, m :: ms => match p.apply basis m with
    | .ok q => applyAll basis q ms
    | .error _ => none

def parseAll (env : Env) : List String → Option (List Move)
  | [] => some []
  | w :: ws => match env.parseMove w with
    | .ok m => (parseAll env ws).map (m :: ·)
    | .error _ => none

/-- the optional `moves m1 m2 …` tail -/
def listedMoves (env : Env) : List String → Option (List Move)
  | [] => some []
  | w :: ws => if w = "moves" then parseAll env ws else none

/-- the declared start position: `startpos` under the size in force, or a TPS of that size -/
def declaredStart (env : Env) (size : Int) : List String → Option (Pos × List String)
  | [] => none
  | w :: rest =>
    if w = "startpos" then
      (toOpt (Pos.new { size := size.toNat, pieces := 0, capstones := 0, blackWinsTies := false })).map (·, rest)
    else if w = "tps" then
      match rest with
      | a :: b :: c :: rest' =>
        (toOpt (env.parseTPS (" ".intercalate [a, b, c]))).bind
          (fun p => if (p.cfg.size : Int) = size then some (p, rest') else none)
      | _ => none
    else none

/-- the position a `position …` line declares under `size` (`none`: the line is rejected) -/
def declared (env : Env) (size : Int) (words : List String) : Option Pos :=
  if size = 0 then none else
  (declaredStart env size (words.drop 1)).bind (fun (p0, rest) =>
    (listedMoves env rest).bind (applyAll env.basis p0))

def isNewgame (w : List String) : Bool := w.head? == some "teinewgame"
def isPosition (w : List String) : Bool := w.head? == some "position"
/-- the size a `teinewgame [n]` line asks for (5 when omitted) -/
def sizeArg (w : List String) : Int := match w.drop 1 with | a :: _ => (atoi a).1 | [] => 5

/-- the size in force after a history (newest command first) -/
def sizeTold : List (List String) → Int
  | [] => 0
  | w :: older => if isNewgame w then sizeArg w else sizeTold older

/-- the position told by a history (newest command first) -/
def posTold (env : Env) : List (List String) → Option Pos
  | [] => none
  | w :: older =>
    if isNewgame w then none
    else if isPosition w then declared env (sizeTold older) w
    else posTold env older

/-- `(size, position)` told after each command of `cmds`, given the earlier history `hist` -/
def toldAlong (env : Env) : List (List String) → List (List String) → List (Int × Option Pos)
  | _, [] => []
  | hist, w :: ws => (sizeTold (w :: hist), posTold env (w :: hist)) :: toldAlong env (w :: hist) ws

/-- the searcher's contract (C04): on a live position its principal variation is non-empty and starts
with a move that is legal there -/
def SearcherOK (env : Env) : Prop :=
  ∀ k p b, p.gameOver.1 = false →
    ∃ m rest, (env.search k p b).pv = m :: rest ∧ (p.apply env.basis m).isOk = true

/-- positions the engine can hold: a start position (`tak.New` for a size, or whatever the TPS parser
returned) followed by successfully applied moves -/
inductive Reach (env : Env) : Pos → Prop
  | new (size : Nat) (p : Pos) : Pos.new { size := size, pieces := 0, capstones := 0, blackWinsTies := false } = .ok p → Reach env p
  | tps (s : String) (p : Pos) : env.parseTPS s = .ok p → Reach env p
  | move (p q : Pos) (m : Move) : Reach env p → p.apply env.basis m = .ok q → Reach env q

/-- what this package takes from the rule-level properties (C01/C02) and the parser properties (C13, other
entry points): on reachable positions applying a move returns a position or an error (no panic, the
flood fuel suffices) and keeps the board size; the token parsers return a value or an error. -/
structure Collaborators (env : Env) : Prop where
  applyTotal : ∀ p m e, Reach env p → p.apply env.basis m = .error e → ∃ s, e = .illegal s
  applyKeepsSize : ∀ p m q, Reach env p → p.apply env.basis m = .ok q → q.cfg.size = p.cfg.size
  parseMoveTotal : ∀ s e, env.parseMove s = .error e → ∃ w, e = .illegal w
  parseTPSTotal : ∀ s e, env.parseTPS s = .error e → ∃ w, e = .illegal w

end Spec.TEI
