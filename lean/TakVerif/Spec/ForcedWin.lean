import TakVerif.Impl.PN

/-! What a proof-number solver's verdict is *about* (C06): forced wins of the attacker in an abstract
game `G : Game S M` (`moves`, `apply`, `over`, `toMove`, `equal`), with no reference to trees,
numbers or tables.

* `Succ s s'`: `s'` arises from `s` by a generated move that the rules accept.
* `ForcedWin G att s` = `Win G att [] s`: the least fixed point "the attacker `att` wins at once, or
  is to move and has a move into a won position, or the defender is to move and every move leads
  into a won position" — where, on top, a position that has already occurred twice on the path from
  the root (`Rep3`, positions compared with `G.equal`) counts against the attacker.  Play that never
  ends, a draw and a lost game are all "no forced win".
* `PlainWin G att s`: the same least fixed point without the repetition clause.  `Win h s → PlainWin s`
  always (`Win.plain`); conversely a plain win from an empty history is a forced win as soon as
  `G.equal` is an equality the rules cannot see through (`EqualIsBisim`, theorem
  `C06.plainWin_forcedWin`): a winning strategy never needs to repeat a position.
-/
namespace Spec.Game
open Tak Tak.PN

variable {S M : Type} (G : Game S M) (att : Color)

/-- `s'` is reached from `s` by one legal move -/
def Succ (s s' : S) : Prop := ∃ m, m ∈ G.moves s ∧ G.apply s m = some s'

/-- `s` has already occurred (at least) twice among the positions `hist` on the path to it -/
def Rep3 (hist : List S) (s : S) : Prop := 2 ≤ (hist.filter (fun t => G.equal t s)).length

/-- the attacker can force a win from `s`, reached along `hist` (nearest ancestor first), when a third
occurrence of a position on the path counts against the attacker -/
inductive Win : List S → S → Prop
  | terminal {h : List S} {s : S} : G.over s = some att → Win h s
  | attacker {h : List S} {s s' : S} : G.over s = none → ¬ Rep3 G h s → G.toMove s = att →
      Succ G s s' → Win (s :: h) s' → Win h s
  | defender {h : List S} {s : S} : G.over s = none → ¬ Rep3 G h s → G.toMove s ≠ att →
      (∀ s', Succ G s s' → Win (s :: h) s') → Win h s

/-- the game-theoretic meaning of "proven": a forced win of the attacker from `s` (as the root of the search) -/
def ForcedWin (s : S) : Prop := Win G att [] s

/-- forced win without the repetition clause (plain least fixed point) -/
inductive PlainWin : S → Prop
  | terminal {s : S} : G.over s = some att → PlainWin s
  | attacker {s s' : S} : G.over s = none → G.toMove s = att → Succ G s s' → PlainWin s' → PlainWin s
  | defender {s : S} : G.over s = none → G.toMove s ≠ att → (∀ s', Succ G s s' → PlainWin s') → PlainWin s

theorem Win.plain {h : List S} {s : S} (w : Win G att h s) : PlainWin G att s := by
  induction w with
  | terminal ho => exact .terminal ho
  | attacker ho _ ht hs _ ih => exact .attacker ho ht hs ih
  | defender ho _ ht _ ih => exact .defender ho ht ih

/-- the two players alternate and every position has a side to move -/
structure Alternating : Prop where
  binary : ∀ s, G.toMove s = .white ∨ G.toMove s = .black
  flips : ∀ s m s', G.apply s m = some s' → G.toMove s' = (G.toMove s).flip

/-- fewer than 2³² generated moves in every position (`setNumbers` stores the count in a `uint32`) -/
def SmallBranching : Prop := ∀ s, (G.moves s).length < 2 ^ 32

/-- `G.equal` relates only positions the rules cannot tell apart: an equivalence that preserves the
end of the game, the side to move, and is preserved by moving -/
structure EqualIsBisim : Prop where
  refl : ∀ s, G.equal s s = true
  symm : ∀ s t, G.equal s t = true → G.equal t s = true
  trans : ∀ s t u, G.equal s t = true → G.equal t u = true → G.equal s u = true
  over : ∀ s t, G.equal s t = true → G.over s = G.over t
  toMove : ∀ s t, G.equal s t = true → G.toMove s = G.toMove t
  step : ∀ s t s', G.equal s t = true → Succ G s s' → ∃ t', Succ G t t' ∧ G.equal s' t' = true

end Spec.Game
