import TakVerif.Spec.Tak
import TakVerif.Spec.ForcedWin

/-! Tak by the rule book, as a game in the sense of `Spec/ForcedWin.lean`: positions are the list-level
states of `Spec/Tak.lean`, a move is a raw move value the rule book accepts (`Spec.legalMoves`: every
placement and slide shape of the board size that `Spec.step` accepts), the game ends by `Spec.outcome`.
No bitboards, no hashes, no move generator of the engine.  `Spec.Game.ForcedWin ruleGame att s` is then
"the attacker can force a win from `s`" by the rules alone. -/
namespace Spec
open Tak (Color)

/-- the rule-book game; two states are the same position for the repetition rule when they have the same
board (size and squares) and the same side to move -/
def ruleGame : Tak.PN.Game State Tak.Move where
  moves := legalMoves
  apply := fun s m => step s (decode m)
  over := fun s => if (outcome s).over then some (outcome s).winner else none
  toMove := State.toMove
  equal := fun a b => decide (a.size = b.size ∧ a.squares = b.squares ∧ a.toMove = b.toMove)
  reversible := fun _ _ => false

end Spec
