import TakVerif.Spec.ForcedWin

/-! Forced wins *within a number of plies* — what a depth-limited search's verdict is about (C05).

`WinIn G att d s`: the attacker `att` can force a win from `s` in at most `d` plies: the game is already won, or
(`d > 0`) the attacker is to move and has a move into a position won within `d - 1`, or the defender is to move and
every move leads into one.  It is `PlainWin` (`Spec/ForcedWin.lean`) with a clock: `WinIn d s → PlainWin s`, and
`PlainWin s → ∃ d, WinIn d s` (`Proofs/WinIn.lean`; the number of moves of a position is finite).  No reference to
evaluations, thresholds, tables or the search.  "The mover is lost within `d` plies" is `WinIn` of the other colour. -/
namespace Spec.Game
open Tak Tak.PN

variable {S M : Type} (G : Game S M) (att : Color)

/-- the attacker can force a win from `s` within `d` plies -/
inductive WinIn : Nat → S → Prop
  | terminal {d : Nat} {s : S} : G.over s = some att → WinIn d s
  | attacker {d : Nat} {s s' : S} : G.over s = none → G.toMove s = att → Succ G s s' → WinIn d s' → WinIn (d + 1) s
  | defender {d : Nat} {s : S} : G.over s = none → G.toMove s ≠ att → (∀ s', Succ G s s' → WinIn d s') →
      WinIn (d + 1) s

end Spec.Game
