import TakVerif.Spec.Tak
import TakVerif.Impl.FPA

/-! The scripted openings as a game over the list-level rules of Tak (`Spec.step`).

A state is what `Friendly.GetMove` sees: the rule's remembered squares, the current position, the
previous position with the move that led here, and whether that move was one of the bot's scripted
ones.  `next` lists the successor states: the scripted move when the rule scripts one; otherwise
(the opponent's turn, or the bot's own unscripted first stones, chosen by its searcher) **every** move
of the move generator `cands` that is legal by the rule book and that the variant's own rule check
accepts.  `good` is the claim of C20 at one state.

The game is written once over an interface `Board` (how a position is queried, stepped and its moves
generated) so that the same definitions run on the rule book's `Spec.State` (`specBoard`: the
statement of the theorems) and on a sparse representation used only to evaluate them quickly
(`Proofs/FPAMini.lean`, proved to be a homomorphic image). -/
namespace Spec.FPA
open Tak Tak.FPA

structure Board (β : Type) where
  view : β → View
  toMove : β → Color
  step : β → Spec.Move → Option β
  cands : β → List Tak.Move

structure St (β : Type) where
  rule : Rule
  cur : β
  prev : Option (β × Tak.Move)
  lastScripted : Bool

/-- the variant's own rule check accepts `m` -/
def accepted (var : Variant) (r : Rule) (v : View) (m : Tak.Move) : Bool :=
  match legalMove var r v m with
  | .ok (_, ok) => ok
  | .error _ => false

section game
variable {β : Type} (B : Board β) (var : Variant) (color : Color)

/-- `Friendly.GetMove` on a state -/
def turn (s : St β) : R (Rule × Reply) :=
  friendlyGetMove var color s.rule (B.view s.cur) (B.toMove s.cur) (s.prev.map (fun (q, m) => (B.view q, m)))

/-- successor states -/
def next (s : St β) : List (St β) :=
  match turn B var color s with
  | .error _ => []
  | .ok (_, .resign) => []
  | .ok (r, .scripted m) =>
    match B.step s.cur (Spec.decode m) with
    | some q => [{ rule := r, cur := q, prev := some (s.cur, m), lastScripted := true }]
    | none => []
  | .ok (r, _) =>
    (B.cands s.cur).filterMap fun m =>
      if accepted var r (B.view s.cur) m then
        (B.step s.cur (Spec.decode m)).map fun q => { rule := r, cur := q, prev := some (s.cur, m), lastScripted := false }
      else none

/-- C20 at one state: the rule code does not panic; it has not just rejected the bot's own scripted
move (the resignation `Friendly.GetMove` would send); a move it scripts now is legal on the board -/
def good (s : St β) : Bool :=
  match turn B var color s with
  | .error _ => false
  | .ok (_, .resign) => !s.lastScripted
  | .ok (_, .scripted m) => (B.step s.cur (Spec.decode m)).isSome
  | .ok _ => true

/-- `Reach n s t`: `t` is reached from `s` by `n` moves of the opening game -/
inductive Reach : Nat → St β → St β → Prop
  | refl (s : St β) : Reach 0 s s
  | step (n : Nat) (s t u : St β) : t ∈ next B var color s → Reach n t u → Reach (n+1) s u

end game

/-! ### the rule book as a board -/

/-- what the rules read off a position, on the list-level state (cf. `Tak.FPA.viewOfPos`: the same
index arithmetic `x + y*size`, no piece for an index off the list) -/
def viewOf (s : Spec.State) : View :=
  { size := s.size
    ply := s.ply
    empty := fun x y =>
      let i := x + y * (s.size : Int)
      if i < 0 then true else (s.squares.getD i.toNat []).isEmpty }

/-- ordered compositions of `c` (the drop sequences of a carry of `c`); `fuel ≥ c` -/
def comps : Nat → Nat → List (List Nat)
  | _, 0 => [[]]
  | 0, _ => []
  | fuel+1, c => (List.range c).flatMap (fun i => (comps fuel (c - (i+1))).map ((i+1) :: ·))

/-- `tak.MkSlides` -/
def mkSlides (drops : List Nat) : BitVec 32 :=
  drops.foldr (fun d acc => Slides.prepend acc d) 0#32

/-- the move generator, given the board size, the side to move and the square contents: every placement on
an empty square and, from every stack the mover controls, every slide shape (direction, carry up to the
stack height and the board size, any drop sequence that stays on the board) -/
def candsOf (n : Nat) (mover : Color) (sq : Nat → Spec.Square) : List Tak.Move :=
  (List.range n).flatMap fun (y : Nat) => (List.range n).flatMap fun (x : Nat) =>
    let xi : Int := x
    let yi : Int := y
    match sq (x + y * n) with
    | [] => [(⟨xi, yi, Facts.mtPlaceFlat, 0⟩ : Tak.Move), ⟨xi, yi, Facts.mtPlaceStanding, 0⟩, ⟨xi, yi, Facts.mtPlaceCapstone, 0⟩]
    | t :: rest =>
      if t.color ≠ mover then [] else
      let h := min (rest.length + 1) n
      [(Facts.mtSlideLeft, x), (Facts.mtSlideRight, n - x - 1), (Facts.mtSlideDown, y), (Facts.mtSlideUp, n - y - 1)].flatMap
        fun (ty, room) =>
          (List.range h).flatMap fun c =>
            ((comps (c+1) (c+1)).filter (fun d => d.length ≤ room)).map fun d => (⟨xi, yi, ty, mkSlides d⟩ : Tak.Move)

def specBoard : Board Spec.State :=
  { view := viewOf
    toMove := Spec.State.toMove
    step := Spec.step
    cands := fun s => candsOf s.size s.toMove (fun i => s.squares.getD i []) }

/-- the start of a game under an FPA rule (`Friendly.Config`: black wins ties) with the default reserves -/
def init (size : Nat) : St Spec.State :=
  { rule := {}
    cur := { size := size, blackWinsTies := true, squares := List.replicate (size * size) [], ply := 0
             whiteStones := Facts.defaultPieces.getD size 0, whiteCaps := Facts.defaultCaps.getD size 0
             blackStones := Facts.defaultPieces.getD size 0, blackCaps := Facts.defaultCaps.getD size 0 }
    prev := none
    lastScripted := false }

end Spec.FPA
