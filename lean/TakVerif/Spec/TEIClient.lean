import TakVerif.Impl.TEIClient
import TakVerif.Spec.TEI
import TakVerif.Spec.Notation

/-! What the client side of TEI is to do, written without the client's control flow: the `go` line for a
per-move time and a time control, the clock values the engine is to receive, and what is assumed of the
searcher when client and engine are composed. -/
namespace Spec.TEIClient
open Tak Tak.TEI Tak.TEIClient Go

/-- whole milliseconds of a duration in nanoseconds: truncating division, 0 for a negative duration -/
def msOf (d : Int) : Nat := (max 0 (Int.tdiv d 1000000)).toNat

/-- a duration truncated to whole milliseconds (as a duration) -/
def msTrunc (d : Int) : Int := 1000000 * (d / 1000000)

/-- `key <ms>` for a non-zero duration, nothing for zero -/
def kv (key : String) (d : Int) : List Bytes := if d = 0 then [] else [lit key, itoaNat (msOf d)]

/-- the words of the `go` command: `go [movetime ms] [wtime ms] [btime ms] [winc ms] [binc ms]` -/
def goWords (rem : Option Int) (tc : TimeControl) : List Bytes :=
  lit "go" :: ((match rem with | some r => [lit "movetime", itoaNat (msOf r)] | none => []) ++
    kv "wtime" tc.white ++ kv "btime" tc.black ++ kv "winc" tc.winc ++ kv "binc" tc.binc)

/-- some duration handed to `TEIGetMove` cannot be expressed in whole milliseconds: a per-move time below
1 ms (also an expired one), or a non-zero clock/increment below 1 ms (also a negative one) -/
def TooShort (rem : Option Int) (tc : TimeControl) : Prop :=
  (∃ r, rem = some r ∧ r < 1000000) ∨ (tc.white ≠ 0 ∧ tc.white < 1000000) ∨ (tc.black ≠ 0 ∧ tc.black < 1000000) ∨
  (tc.winc ≠ 0 ∧ tc.winc < 1000000) ∨ (tc.binc ≠ 0 ∧ tc.binc < 1000000)

instance (rem : Option Int) (tc : TimeControl) : Decidable (TooShort rem tc) :=
  match rem with
  | none => decidable_of_iff ((tc.white ≠ 0 ∧ tc.white < 1000000) ∨ (tc.black ≠ 0 ∧ tc.black < 1000000) ∨
      (tc.winc ≠ 0 ∧ tc.winc < 1000000) ∨ (tc.binc ≠ 0 ∧ tc.binc < 1000000)) (by simp [TooShort])
  | some r => decidable_of_iff (r < 1000000 ∨ (tc.white ≠ 0 ∧ tc.white < 1000000) ∨ (tc.black ≠ 0 ∧ tc.black < 1000000) ∨
      (tc.winc ≠ 0 ∧ tc.winc < 1000000) ∨ (tc.binc ≠ 0 ∧ tc.binc < 1000000)) (by simp [TooShort])

/-- the clock arguments the engine is to end up with: every duration truncated to whole milliseconds -/
def goArgs (rem : Option Int) (tc : TimeControl) : GoArgs :=
  { movetime := match rem with | some r => msTrunc r | none => 0
    white := msTrunc tc.white, black := msTrunc tc.black, winc := msTrunc tc.winc, binc := msTrunc tc.binc }

/-- all durations fit Go's `time.Duration` (`int64` nanoseconds) -/
def InRange (rem : Option Int) (tc : TimeControl) : Prop :=
  (∀ r, rem = some r → r < 9223372036854775808) ∧ tc.white < 9223372036854775808 ∧ tc.black < 9223372036854775808 ∧
  tc.winc < 9223372036854775808 ∧ tc.binc < 9223372036854775808

/-- **what is assumed of the searcher** when client and engine are composed (C04 together with C03): on a
live position its principal variation is non-empty and starts with a move that `Position.Move` accepts
there *and* that is a canonical move value (`Notation.LegalShape`: what the move generator produces — on
the board, a placement carries no drop word, a slide's drops are 1..8 each, at most `size` in total and do
not run off the board).  Acceptance alone does not imply the second part: `Position.Move` ignores the drop
word of a placement, `FormatMove` does not. -/
def SearcherCanonical (env : Env) : Prop :=
  ∀ k p b, p.gameOver.1 = false →
    ∃ m rest, (env.search k p b).pv = m :: rest ∧ (p.apply env.basis m).isOk = true ∧
      Notation.LegalShape p.cfg.size m

end Spec.TEIClient
