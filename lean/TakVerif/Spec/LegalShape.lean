import TakVerif.Spec.Notation

/-! The normal form of a raw `Move` value: what `Move.Equal` (`tak/move.go`) does not look at is cleared.

`Move.Equal` compares `X`, `Y`, `Type`, and the `Slides` word only when `Type >= SlideLeft`.  So the one
field that two `Equal` move values can differ in is the `Slides` word of a move that is not a slide
(a placement; also the pass and type codes 0).  `normalize` zeroes exactly that. -/
namespace Notation
open Tak

/-- clear the `Slides` word of a move that is not a slide (`Type < SlideLeft`); slides are left alone -/
def normalize (m : Move) : Move := if m.isSlide then m else { m with slides := 0#32 }

/-- `m` is its own normal form: a slide, or a non-slide with an empty `Slides` word -/
def isNormal (m : Move) : Bool := m.isSlide || m.slides == 0#32

end Notation
