import TakVerif.Impl.Move
import TakVerif.Impl.GoBytes

/-! What C10 / C11 quantify over, as decidable predicates:
`LegalShape size m` (every move shape that can be legal on a `size` board), the canonical TPS grammar,
and the well-formedness hypothesis of the TPS round trip. -/
namespace Notation
open Tak Go

/-! ### C11: legal move shapes -/

/-- squares between `(x, y)` and the edge in the direction of the slide type -/
def edgeDist (size : Nat) (m : Move) : Int :=
  if m.type == Facts.mtSlideLeft then m.x
  else if m.type == Facts.mtSlideRight then (size : Int) - 1 - m.x
  else if m.type == Facts.mtSlideDown then m.y
  else if m.type == Facts.mtSlideUp then (size : Int) - 1 - m.y
  else 0

def isPlaceType (t : Nat) : Bool :=
  t == Facts.mtPlaceFlat || t == Facts.mtPlaceStanding || t == Facts.mtPlaceCapstone

def isSlideType (t : Nat) : Bool :=
  t == Facts.mtSlideLeft || t == Facts.mtSlideRight || t == Facts.mtSlideUp || t == Facts.mtSlideDown

/-- the shape of a move that can be legal on a `size`×`size` board: a placement on the board, or a slide
from a square of the board whose drops are each 1..8, sum to at most `size` (carry limit) and are at most
as many as there are squares up to the edge. -/
def legalShape (size : Nat) (m : Move) : Bool :=
  3 ≤ size && size ≤ 8 &&
  0 ≤ m.x && m.x < size && 0 ≤ m.y && m.y < size &&
  (if isPlaceType m.type then m.slides == 0#32
   else if isSlideType m.type then
     let drops := Slides.elems m.slides
     !drops.isEmpty && drops.all (fun d => 1 ≤ d && d ≤ 8) &&
     drops.foldl (· + ·) 0 ≤ size && (drops.length : Int) ≤ edgeDist size m
   else false)

/-- `LegalShape size m` as a (decidable) proposition -/
def LegalShape (size : Nat) (m : Move) : Prop := legalShape size m = true

instance (size : Nat) (m : Move) : Decidable (LegalShape size m) := by
  unfold LegalShape; infer_instance

/-! ### C10: canonical TPS text -/

def isColourByte (b : UInt8) : Bool := b == 49 || b == 50

/-- a stack cell: one to 64 colour digits (bottom first), then at most one of `S`, `C`.
(64 is the documented representation limit of a stack: deeper colours are not stored.) -/
def isStackCell (cell : Bytes) : Bool :=
  let body := cell.takeWhile isColourByte
  let rest := cell.dropWhile isColourByte
  1 ≤ body.length && body.length ≤ 64 && (rest == [] || rest == [83] || rest == [67])

/-- number of squares a canonical cell stands for (`none`: not a canonical cell) -/
def cellWidth (cell : Bytes) : Option Nat :=
  match cell with
  | [120] => some 1
  | [120, d] => if 50 ≤ d.toNat && d.toNat ≤ 56 then some (d.toNat - 48) else none
  | _ => if isStackCell cell then some 1 else none

def isEmptyCell (cell : Bytes) : Bool := cell.head? == some 120

/-- no two neighbouring cells are both runs of empty squares (runs are maximal) -/
def noAdjacentRuns : List Bytes → Bool
  | a :: b :: rest => !(isEmptyCell a && isEmptyCell b) && noAdjacentRuns (b :: rest)
  | _ => true

def canonicalRow (n : Nat) (row : Bytes) : Bool :=
  let cells := split 44 row
  match cells.mapM cellWidth with
  | none => false
  | some ws => ws.foldl (· + ·) 0 == n && noAdjacentRuns cells

/-- the move-number field: the decimal spelling (no sign, no leading zero) of an `N` with `1 ≤ N ≤ 2^62` -/
def canonicalNumber (w : Bytes) : Bool :=
  match digitsVal w 0 with
  | some n => 1 ≤ n && n ≤ 4611686018427387904 && w == itoaNat n
  | none => false

/-- the canonical TPS grammar: 3..8 rows of as many squares, maximal `x`/`xN` runs, stacks of colour
digits with an optional `S`/`C`, turn `1`/`2`, a canonical move number -/
def canonicalTPS (s : Bytes) : Bool :=
  match split 32 s with
  | [w0, w1, w2] =>
    let rows := split 47 w0
    3 ≤ rows.length && rows.length ≤ 8 && rows.all (canonicalRow rows.length) &&
    (w1 == [49] || w1 == [50]) && canonicalNumber w2
  | _ => false

def CanonicalTPS (s : Bytes) : Prop := canonicalTPS s = true

instance (s : Bytes) : Decidable (CanonicalTPS s) := by
  unfold CanonicalTPS; infer_instance

/-! ### C10: the positions the round trip is claimed for -/

def occupied (p : Pos) (i : Nat) : Bool := (p.white ||| p.black).getLsbD i

/-- pieces of colour `c` on the board, capstones (`cap = true`) or stones -/
def countPieces (p : Pos) (c : Color) (cap : Bool) : Nat :=
  ((List.range (p.cfg.size * p.cfg.size)).map (fun i =>
    ((p.squareAt i).filter (fun pc => pc.color == c && ((pc.kind == .capstone) == cap))).length)).foldl (· + ·) 0

/-- hypotheses of `C10.tps_roundtrip`: a well-formed position with the default piece counts of its size
and a ply in `[0, 2^63)`.  Well-formed = the invariant every position built by `New`/`Move`/`FromSquares`
satisfies: consistent bitboards inside the board, heights and buried-colour words consistent with the
bitboards, the incremental hash equal to its definition, reserves = totals − pieces on the board. -/
def tpsHyp (basis : Array W) (p : Pos) : Bool :=
  let n := p.cfg.size
  let nn := n * n
  let mask : W := (1#64 <<< nn) - 1#64
  3 ≤ n && n ≤ 8 &&
  p.cfg.pieces == Facts.defaultPieces.getD n 0 && p.cfg.capstones == Facts.defaultCaps.getD n 0 &&
  p.height.size == nn && p.stacks.size == nn &&
  0 ≤ p.move && p.move ≤ maxInt64 &&
  p.white &&& p.black == 0#64 && p.standing &&& p.caps == 0#64 &&
  (p.standing ||| p.caps) &&& ~~~(p.white ||| p.black) == 0#64 &&
  (p.white ||| p.black) &&& ~~~mask == 0#64 &&
  (List.range nn).all (fun i =>
    let h := (p.height.getD i 0).toNat
    (h == 0) == !occupied p i && h ≤ 64 &&
    (p.stacks.getD i 0) >>> (h - 1) == 0#64) &&
  p.hash == (List.range nn).foldl (fun h i => h ^^^ p.hashAt basis i) (BitVec.ofNat 64 Facts.fnvBasis) &&
  p.whiteStones.toNat + countPieces p .white false == p.cfg.pieces &&
  p.blackStones.toNat + countPieces p .black false == p.cfg.pieces &&
  p.whiteCaps.toNat + countPieces p .white true == p.cfg.capstones &&
  p.blackCaps.toNat + countPieces p .black true == p.cfg.capstones

end Notation
