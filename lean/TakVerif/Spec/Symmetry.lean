import TakVerif.Spec.Tak

/-! The eight symmetries of the square board acting on coordinates, directions, list-level
states and list-level moves.  Plain integers, no `int8` wrap-around, no hashes: this is the
notion the property C14 speaks about.  The numbering is the order of `symmetries()` in
`symmetry/canonical.go`:
`0 identity, 1 flipX, 2 flipY, 3 flipDiag1, 4 flipDiag2, 5 rotate2, 6 rotCW, 7 rotCCW`. -/
namespace Spec

abbrev Sym := Fin 8

/-- the coordinate map number `k` on an `n × n` board -/
def Sym.app (k : Sym) (n : Int) (x y : Int) : Int × Int :=
  match k with
  | 0 => (x, y)
  | 1 => (n - 1 - x, y)
  | 2 => (x, n - 1 - y)
  | 3 => (y, x)
  | 4 => (n - 1 - y, n - 1 - x)
  | 5 => (n - 1 - x, n - 1 - y)
  | 6 => (y, n - 1 - x)
  | 7 => (n - 1 - y, x)

/-- inverse map: the two quarter turns are each other's inverse, the rest are involutions -/
def Sym.inv (k : Sym) : Sym :=
  match k with
  | 6 => 7
  | 7 => 6
  | k => k

/-- composition table: `(mul a b).app = a.app ∘ b.app` (`b` first) -/
def Sym.mul (a b : Sym) : Sym :=
  let t : List (List (Fin 8)) :=
    [[0, 1, 2, 3, 4, 5, 6, 7],
     [1, 0, 5, 7, 6, 2, 4, 3],
     [2, 5, 0, 6, 7, 1, 3, 4],
     [3, 6, 7, 0, 5, 4, 1, 2],
     [4, 7, 6, 5, 0, 3, 2, 1],
     [5, 2, 1, 4, 3, 0, 7, 6],
     [6, 3, 4, 2, 1, 7, 5, 0],
     [7, 4, 3, 1, 2, 6, 0, 5]]
  (t.getD a.val []).getD b.val 0

/-- what the map does to a slide direction (its linear part) -/
def Sym.dir (k : Sym) (d : Dir) : Dir :=
  match k, d with
  | 0, d => d
  | 1, .left => .right | 1, .right => .left | 1, d => d
  | 2, .up => .down | 2, .down => .up | 2, d => d
  | 3, .left => .down | 3, .right => .up | 3, .up => .right | 3, .down => .left
  | 4, .left => .up | 4, .right => .down | 4, .up => .left | 4, .down => .right
  | 5, .left => .right | 5, .right => .left | 5, .up => .down | 5, .down => .up
  | 6, .left => .up | 6, .right => .down | 6, .up => .right | 6, .down => .left
  | 7, .left => .down | 7, .right => .up | 7, .up => .left | 7, .down => .right

/-- image of a move -/
def Sym.move (k : Sym) (n : Int) : Move → Move
  | .place x y kd => let (x', y') := k.app n x y; .place x' y' kd
  | .slide x y d drops => let (x', y') := k.app n x y; .slide x' y' (k.dir d) drops
  | .invalid => .invalid

/-- image of a state: the square at `k(x, y)` of the image is the square at `(x, y)` of the original;
everything else (ply, reserves, komi rule) is unchanged -/
def Sym.state (k : Sym) (s : State) : State :=
  { s with squares := (List.range (s.size * s.size)).map (fun j =>
      let x' : Int := (j % s.size : Nat)
      let y' : Int := (j / s.size : Nat)
      let (x, y) := k.inv.app s.size x' y'
      s.at x y) }

/-- the image list of `Symmetries()` at the level of boards: each distinct image once, with the first
transform (in the fixed order) that produces it -/
def symImages (s : State) : List (State × Sym) :=
  let all : List (State × Sym) := (List.finRange 8).map (fun k => (k.state s, k))
  all.foldl (fun out (im : State × Sym) => if out.any (fun o => o.1 == im.1) then out else out ++ [im]) []

/-! ### raw moves and the canonical form at list level -/

/-- type code of a direction -/
def dirCode : Dir → Nat
  | .left => Facts.mtSlideLeft | .right => Facts.mtSlideRight | .up => Facts.mtSlideUp | .down => Facts.mtSlideDown

/-- direction of a slide type code -/
def dirOf (t : Nat) : Option Dir :=
  if t == Facts.mtSlideLeft then some .left else if t == Facts.mtSlideRight then some .right
  else if t == Facts.mtSlideUp then some .up else if t == Facts.mtSlideDown then some .down else none

/-- image of a raw move value: origin mapped, slide direction mapped, drop word kept; a value that is not a
slide keeps its type code and carries no drop word (what `TransformMove` returns, in plain integers) -/
def Sym.raw (k : Sym) (n : Int) (m : Tak.Move) : Tak.Move :=
  let p := k.app n m.x m.y
  match dirOf m.type with
  | some d => { x := p.1, y := p.2, type := dirCode (k.dir d), slides := m.slides }
  | none => { x := p.1, y := p.2, type := m.type, slides := 0#32 }

/-- the empty board of a new game (`tak.New(Config{Size: n})`) -/
def startState (n : Nat) : State :=
  { size := n, blackWinsTies := false, squares := List.replicate (n * n) [], ply := 0,
    whiteStones := Facts.defaultPieces.getD n 0, whiteCaps := Facts.defaultCaps.getD n 0,
    blackStones := Facts.defaultPieces.getD n 0, blackCaps := Facts.defaultCaps.getD n 0 }

/-- which of two candidate moves the canonical form prefers: lower row, then lower column, then lower type code -/
def prefer (l r : Tak.Move) : Bool :=
  if l.y ≠ r.y then l.y < r.y
  else if l.x ≠ r.x then l.x < r.x
  else l.type < r.type

/-- the scan of `Canonical` over the boards that still equal board 0; board `k` is the `k`-image of board 0 -/
def canonScan (b0 : State) (m : Tak.Move) : List Sym → Tak.Move × Option Sym → Tak.Move × Option Sym
  | [], acc => acc
  | k :: ks, (best, rot) =>
    if k.state b0 = b0 then
      if prefer (k.raw b0.size m) best then canonScan b0 m ks (k.raw b0.size m, some k)
      else canonScan b0 m ks (best, rot)
    else canonScan b0 m ks (best, rot)

structure CanonSt where
  b0 : State
  tfn : Sym
  out : List Tak.Move
deriving Repr

def canonStep (st : CanonSt) (m0 : Tak.Move) : Option CanonSt :=
  let m := st.tfn.raw st.b0.size m0
  let r := canonScan st.b0 m [1, 2, 3, 4, 5, 6, 7] (m, none)
  let tfn' := match r.2 with | some k => Sym.mul k st.tfn | none => st.tfn
  let m' := match r.2 with | some _ => r.1 | none => m
  match step st.b0 (decode m') with
  | none => none
  | some b => some ⟨b, tfn', st.out ++ [(0 : Sym).raw st.b0.size m']⟩

def canonRun : CanonSt → List Tak.Move → Option CanonSt
  | st, [] => some st
  | st, m :: ms => match canonStep st m with
    | none => none
    | some st' => canonRun st' ms

/-- **the canonical form of a game at list level** (`none`: some move is illegal) -/
def canon (n : Nat) (ms : List Tak.Move) : Option (List Tak.Move) :=
  (canonRun ⟨startState n, 0, []⟩ ms).map (·.out)

/-- replaying a game by the rule book -/
def replay : State → List Tak.Move → Option State
  | s, [] => some s
  | s, m :: ms => match step s (decode m) with
    | none => none
    | some s' => replay s' ms

end Spec
