import TakVerif.Spec.Tak

/-! The eight symmetries of the square board acting on coordinates, directions, list-level
states and list-level moves.  Plain integers, no `int8` wrap-around, no hashes: this is the
notion the property C14 speaks about.  The numbering is the order of `symmetries()` in
`symmetry/canonical.go`:
`0 identity, 1 flipX, 2 flipY, 3 flipDiag1, 4 flipDiag2, 5 rotate2, 6 rotCW, 7 rotCCW`. -/
namespace Spec

abbrev Sym := Fin 8

/-- the coordinate map number `k` on an `n × n` board -/
def Sym.app (k : Sym) (n : Int) (x y : Int) : Int × Int :=
  match k with
  | 0 => (x, y)
  | 1 => (n - 1 - x, y)
  | 2 => (x, n - 1 - y)
  | 3 => (y, x)
  | 4 => (n - 1 - y, n - 1 - x)
  | 5 => (n - 1 - x, n - 1 - y)
  | 6 => (y, n - 1 - x)
  | 7 => (n - 1 - y, x)

/-- inverse map: the two quarter turns are each other's inverse, the rest are involutions -/
def Sym.inv (k : Sym) : Sym :=
  match k with
  | 6 => 7
  | 7 => 6
  | k => k

/-- composition table: `(mul a b).app = a.app ∘ b.app` (`b` first) -/
def Sym.mul (a b : Sym) : Sym :=
  let t : List (List (Fin 8)) :=
    [[0, 1, 2, 3, 4, 5, 6, 7],
     [1, 0, 5, 7, 6, 2, 4, 3],
     [2, 5, 0, 6, 7, 1, 3, 4],
     [3, 6, 7, 0, 5, 4, 1, 2],
     [4, 7, 6, 5, 0, 3, 2, 1],
     [5, 2, 1, 4, 3, 0, 7, 6],
     [6, 3, 4, 2, 1, 7, 5, 0],
     [7, 4, 3, 1, 2, 6, 0, 5]]
  (t.getD a.val []).getD b.val 0

/-- what the map does to a slide direction (its linear part) -/
def Sym.dir (k : Sym) (d : Dir) : Dir :=
  match k, d with
  | 0, d => d
  | 1, .left => .right | 1, .right => .left | 1, d => d
  | 2, .up => .down | 2, .down => .up | 2, d => d
  | 3, .left => .down | 3, .right => .up | 3, .up => .right | 3, .down => .left
  | 4, .left => .up | 4, .right => .down | 4, .up => .left | 4, .down => .right
  | 5, .left => .right | 5, .right => .left | 5, .up => .down | 5, .down => .up
  | 6, .left => .up | 6, .right => .down | 6, .up => .right | 6, .down => .left
  | 7, .left => .down | 7, .right => .up | 7, .up => .left | 7, .down => .right

/-- image of a move -/
def Sym.move (k : Sym) (n : Int) : Move → Move
  | .place x y kd => let (x', y') := k.app n x y; .place x' y' kd
  | .slide x y d drops => let (x', y') := k.app n x y; .slide x' y' (k.dir d) drops
  | .invalid => .invalid

/-- image of a state: the square at `k(x, y)` of the image is the square at `(x, y)` of the original;
everything else (ply, reserves, komi rule) is unchanged -/
def Sym.state (k : Sym) (s : State) : State :=
  { s with squares := (List.range (s.size * s.size)).map (fun j =>
      let x' : Int := (j % s.size : Nat)
      let y' : Int := (j / s.size : Nat)
      let (x, y) := k.inv.app s.size x' y'
      s.at x y) }

/-- the image list of `Symmetries()` at the level of boards: each distinct image once, with the first
transform (in the fixed order) that produces it -/
def symImages (s : State) : List (State × Sym) :=
  let all : List (State × Sym) := (List.finRange 8).map (fun k => (k.state s, k))
  all.foldl (fun out (im : State × Sym) => if out.any (fun o => o.1 == im.1) then out else out ++ [im]) []

end Spec
