import TakVerif.Proofs.Flood
namespace Roads
open Tak Spec

theorem mem_neighbours {n j k : Nat} : k ∈ Spec.neighbours n j ↔
    (j % n > 0 ∧ k = j - 1) ∨ (j % n + 1 < n ∧ k = j + 1) ∨
    (j / n > 0 ∧ k = j - n) ∨ (j / n + 1 < n ∧ k = j + n) := by
  unfold Spec.neighbours
  simp only [List.mem_append]
  by_cases h1 : j % n > 0 <;> by_cases h2 : j % n + 1 < n <;> by_cases h3 : j / n > 0 <;>
    by_cases h4 : j / n + 1 < n <;> simp [h1, h2, h3, h4, or_assoc]

theorem divmod_of (n q r : Nat) (hr : r < n) : (n * q + r) / n = q ∧ (n * q + r) % n = r := by
  have hn : 0 < n := by omega
  constructor
  · rw [Nat.mul_add_div hn, Nat.div_eq_of_lt hr]; rfl
  · rw [Nat.mul_add_mod, Nat.mod_eq_of_lt hr]

/-- coordinates of a square and of its neighbours -/
theorem neighbours_cases {n j k : Nat} (hj : j < n * n) (h : k ∈ Spec.neighbours n j) :
    k < n * n ∧
    ((k / n = j / n ∧ (k % n + 1 = j % n ∨ k % n = j % n + 1)) ∨
     (k % n = j % n ∧ (k / n + 1 = j / n ∨ k / n = j / n + 1))) ∧
    (k + 1 = j ∨ k = j + 1 ∨ k + n = j ∨ k = j + n) := by
  have hn : 0 < n := by
    rcases Nat.eq_zero_or_pos n with h0 | h0
    · subst h0; simp at hj
    · exact h0
  have hr : j % n < n := Nat.mod_lt _ hn
  have hq : j / n < n := Nat.div_lt_of_lt_mul hj
  have hdm : n * (j / n) + j % n = j := Nat.div_add_mod j n
  have hm := mem_neighbours.mp h
  generalize j / n = q at *
  generalize j % n = r at *
  have hsq : n * (q + 1) ≤ n * n := Nat.mul_le_mul_left n (by omega)
  have hs1 : n * (q + 1) = n * q + n := Nat.mul_succ n q
  rcases hm with ⟨h1, rfl⟩ | ⟨h1, rfl⟩ | ⟨h1, rfl⟩ | ⟨h1, rfl⟩
  · have e : j - 1 = n * q + (r - 1) := by omega
    obtain ⟨d, m⟩ := divmod_of n q (r - 1) (by omega)
    rw [e, d, m]; refine ⟨by omega, ?_, by omega⟩; left; exact ⟨rfl, by omega⟩
  · have e : j + 1 = n * q + (r + 1) := by omega
    obtain ⟨d, m⟩ := divmod_of n q (r + 1) (by omega)
    rw [e, d, m]; refine ⟨by omega, ?_, by omega⟩; left; exact ⟨rfl, by omega⟩
  · have hs2 : n * (q - 1 + 1) = n * (q - 1) + n := Nat.mul_succ n (q - 1)
    have hq1 : q - 1 + 1 = q := by omega
    rw [hq1] at hs2
    have e : j - n = n * (q - 1) + r := by omega
    obtain ⟨d, m⟩ := divmod_of n (q - 1) r hr
    rw [e, d, m]; refine ⟨by omega, ?_, by omega⟩; right; exact ⟨rfl, by omega⟩
  · have hs2 : n * (q + 1 + 1) = n * (q + 1) + n := Nat.mul_succ n (q + 1)
    have hsq2 : n * (q + 1 + 1) ≤ n * n := Nat.mul_le_mul_left n (by omega)
    have e : j + n = n * (q + 1) + r := by omega
    obtain ⟨d, m⟩ := divmod_of n (q + 1) r hr
    rw [e, d, m]; refine ⟨by omega, ?_, by omega⟩; right; exact ⟨rfl, by omega⟩

theorem neighbours_lt {n j k : Nat} (hj : j < n * n) (h : k ∈ Spec.neighbours n j) : k < n * n :=
  (neighbours_cases hj h).1

/-- adjacency is symmetric -/
theorem neighbours_symm {n j k : Nat} (hj : j < n * n) (h : k ∈ Spec.neighbours n j) :
    j ∈ Spec.neighbours n k := by
  obtain ⟨hk, hc, hd⟩ := neighbours_cases hj h
  have hn : 0 < n := by
    rcases Nat.eq_zero_or_pos n with h0 | h0
    · subst h0; simp at hj
    · exact h0
  have hq : j / n < n := Nat.div_lt_of_lt_mul hj
  have hr : j % n < n := Nat.mod_lt _ hn
  have hq' : k / n < n := Nat.div_lt_of_lt_mul hk
  have hr' : k % n < n := Nat.mod_lt _ hn
  have hdm : n * (j / n) + j % n = j := Nat.div_add_mod j n
  have hdm' : n * (k / n) + k % n = k := Nat.div_add_mod k n
  rw [mem_neighbours]
  generalize j / n = q at *
  generalize j % n = r at *
  generalize k / n = q' at *
  generalize k % n = r' at *
  rcases hc with ⟨e, h1 | h1⟩ | ⟨e, h1 | h1⟩
  · right; left; subst e; exact ⟨by omega, by omega⟩
  · left; subst e; exact ⟨by omega, by omega⟩
  · right; right; right
    have hs1 : n * (q' + 1) = n * q' + n := Nat.mul_succ n _
    subst h1; exact ⟨by omega, by omega⟩
  · right; right; left
    have hs1 : n * (q + 1) = n * q + n := Nat.mul_succ n _
    subst h1; exact ⟨by omega, by omega⟩
end Roads
