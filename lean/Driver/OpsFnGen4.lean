import Driver.State
import Driver.OpsEval
import TakVerif.Impl.GenEval
namespace Driver
open Tak Codec

/-! `fn.*` ops of the fourth batch of regenerated definitions (`Generated/FuncsThreat.lean`, `FuncsHeur.lean`;
harness/verifh/gen_fngen5.go): the threat detector `ai.CountThreats` and the heuristic evaluator `ai.evaluate` with its
helpers, evaluated on the fields of the raw position (`Impl/GenEval.lean`).  `none` (a Go panic, or a loop out of its
whitelist fuel) prints `panic`. -/

private def optInt : Option Int → String
  | some v => toString v
  | none => "panic"

private def natCsv (l : List Nat) : String := if l.isEmpty then "-" else ",".intercalate (l.map toString)

def handleFnGen4 : Handler := fun st op args =>
  match op, args with
  | "fn.threats", [ptok] =>
    some (st, withPos ptok fun p =>
      match genCountThreats p.c p with
      | some (wp, wt, bp, bt) => s!"{wp} {wt} {bp} {bt}"
      | none => "panic")
  | "fn.evalw", [wtok, ptok] =>
    some (st, withPos ptok fun p =>
      if wtok == "default" then
        -- `MakeEvaluator(size, nil)`: `&DefaultWeights[size]` of the table the regenerated `init()` builds
        optInt (genEvaluateDefault p.c p)
      else withWeights wtok p.cfg.size fun w => optInt (genEvaluate p.c w.arr p))
  | "fn.evalparts", [wtok, ptok] =>
    some (st, withPos ptok fun p => withWeights wtok p.cfg.size fun w =>
      let parts := [genScoreThreats p.c w.arr p, genScoreControl p.c w.arr p,
        Gen.scoreGroups p.c p.wgroups.toArray w.arr (p.black ||| p.standing),
        Gen.scoreGroups p.c p.bgroups.toArray w.arr (p.white ||| p.standing)]
      -- the Go op computes the four parts in one call: a panic in any of them is the op's answer
      if parts.any Option.isNone then "panic" else " ".intercalate (parts.map optInt))
  | "fn.mobility", [ptok, i, h] =>
    some (st, withPos ptok fun p =>
      match i.toNat?, h.toInt? with
      | some i, some h =>
        match genMobility p.c p (bit i) h with
        | some m => toString m.toNat
        | none => "panic"
      | _, _ => "bad-op")
  | "fn.control", [ptok] =>
    some (st, withPos ptok fun p =>
      match genComputeControl p.c p with
      | some (wc, bc) => s!"{wc.toNat} {bc.toNat}"
      | none => "panic")
  | "fn.influence", [size, mine, out] =>
    match size.toNat?, mine.toNat?, (if out == "-" then some [] else (out.splitOn ",").mapM String.toNat?) with
    | some n, some m, some o =>
      some (st, match Gen.computeInfluence (Gen.precompute n) (BitVec.ofNat 64 m) (o.map (BitVec.ofNat 64)).toArray with
        | some r => natCsv (r.toList.map (·.toNat))
        | none => "panic")
    | _, _, _ => some (st, "bad-op")
  | "fn.evalinit", [] =>
    some (st, match genDefaultWeights with
      | some t => ";".intercalate (t.toList.map fun w => ",".intercalate (w.toList.map toString))
      | none => "panic")
  | _, _ => none

end Driver
