import Driver.OpsBot
import Driver.OpsFPA
import TakVerif.Impl.Friendly
import TakVerif.Impl.FPATotal
/-! ops `glue`, `gluefn` (C20 glue): the model side of `harness/verifh/ops_glue.go` — `Friendly.GetMove` and
`Taktician.GetMove` on game records. -/
namespace Driver
open Tak Codec Tak.FPA Tak.Glue

structure GlueCall where
  j : Option Nat := none
  ans : Move := zeroMove
  chk : CheckOracle := { curV := 0, curDepth := 0, prevV := 0 }

def parseGlueCall (tok : String) : Option GlueCall :=
  (tok.splitOn ";").drop 1 |>.foldlM (init := ({} : GlueCall)) fun c f =>
    -- x=1: the call's time budget runs out while the searcher works; its answer is an answer like any other
    if f == "x=1" then some c
    else if f.startsWith "j=" then (f.drop 2).toString.toNat?.map fun j => { c with j := some j }
    else if f.startsWith "a=" then (parseMove (f.drop 2).toString).map fun m => { c with ans := m }
    else if f.startsWith "k=" then
      match (f.drop 2).toString.splitOn ":" with
      | [a, b, d] => do
        let a ← a.toInt?
        let b ← b.toInt?
        let d ← d.toInt?
        pure { c with chk := { curV := a, curDepth := b, prevV := d } }
      | _ => none
    else none

def glueMsg : Msg → String
  | .center => "center"
  | .doubleStack i => s!"ds{i}"
  | .cairn i => s!"cairn{i}"

/-- `:L` legal on the position / `:I` illegal / `:z` zero move -/
def glueLegal (basis : Array W) (p : Pos) (m : Move) : String :=
  if m == zeroMove then ":z" else if (p.apply basis m).isOk then ":L" else ":I"

/-- the returned-move field when the searcher was consulted: the stub's answer is known, the real searcher's is
not — there the C04 contract is printed (`GetMove` is only called on live positions) -/
def glueAnswer (basis : Array W) (realAI : Bool) (p : Pos) (ans : Move) : String :=
  if realAI then "=:L" else "=" ++ glueLegal basis p ans

def glueRender (basis : Array W) (realAI friendly : Bool) (p : Pos) (c : GlueCall) : Action → String
  | .resign msg => s!"Resign,Tell:{glueMsg msg},wait/0/-/z:z"
  | .noMove => "-/0/-/z:z"
  | .move m => "-/0/-/" ++ (if m == zeroMove then "z" else fmtMove m) ++ glueLegal basis p m
  | .think limit floor =>
    let chk := if friendly then (if asksPrev c.chk then ["chk:p", "chk:prev"] else ["chk:p"]) else []
    let fl := match floor with | some f => [s!"after:{f.ns}"] | none => []
    let lim := match limit with
      | some t => [(if friendly then "deadline:" else "timeout:") ++ toString t]
      | none => []
    let clock := chk ++ fl ++ lim
    "-/1/" ++ (if clock.isEmpty then "-" else ",".intercalate clock) ++ "/" ++ glueAnswer basis realAI p c.ans

structure GlueSt where
  fpa : Option (Variant × Rule)
  positions : List Pos        -- newest first
  all : Array Pos             -- every position that ever was in the record, in order of creation
  moves : List Move := []
  out : List String := []     -- newest first
  stop : Bool := false

inductive GlueWho where
  | friendly (color : Color) (size : Nat)
  | taktician (cfg : TakticianCfg) (color : Color) (size : Nat)

def glueStep (basis : Array W) (who : GlueWho) (realAI : Bool) (st : GlueSt) (tok : String) : GlueSt :=
  if st.stop then st else
  if tok.startsWith "m" then
    match parseMove (tok.drop 1).toString, st.positions with
    | some m, p :: _ =>
      match p.apply basis m with
      | .ok q => { st with positions := q :: st.positions, all := st.all.push q, moves := m :: st.moves }
      | .error _ => { st with out := "illegal" :: st.out, stop := true }
    | _, _ => { st with out := "bad-op" :: st.out, stop := true }
  else if tok == "u" then
    match st.positions, st.moves with
    | _ :: q :: ps, _ :: ms => { st with positions := q :: ps, moves := ms }
    | _, _ => { st with out := "ubad" :: st.out, stop := true }
  else if tok.startsWith "c" then
    match parseGlueCall tok, st.positions with
    | some c, head :: _ =>
      let p? : Option Pos := match c.j with
        | none => some head
        | some j => st.all[j]?
      match p? with
      | none => { st with out := "bad-op" :: st.out, stop := true }
      | some p =>
        if p.gameOver.1 then { st with out := "over" :: st.out } else
        match who with
        | .friendly color size =>
          let g : GameRec := { color := color, size := size, positions := st.positions, moves := st.moves }
          -- the tree with fixes/C07-fpa-script-declines.diff (Impl/FPATotal.lean)
          match friendlyGetMoveD st.fpa g p c.chk with
          | .ok (fpa, a) => { st with fpa := fpa, out := glueRender basis realAI true p c a :: st.out }
          | .error _ => { st with out := "panic" :: st.out, stop := true }
        | .taktician cfg color size =>
          let a := takticianGetMove cfg color size p 60000000000
          { st with out := glueRender basis realAI false p c a :: st.out }
    | _, _ => { st with out := "bad-op" :: st.out, stop := true }
  else { st with out := "bad-op" :: st.out, stop := true }

def glueColor : String → Color
  | "W" => .white | "B" => .black | _ => .none

def glueVariant : String → Option (Option Variant)
  | "none" => some none
  | s => (parseVariant s).map some

def glueRun (basis : Array W) (args : List String) : String :=
  match args with
  | who :: a1 :: col :: size :: a4 :: mode :: toks =>
    match size.toNat? with
    | none => "bad-op"
    | some size =>
    let realAI := mode == "ai"
    let start : Option (GlueWho × GlueSt) :=
      if who == "F" then
        match glueVariant a1 with
        | none => none
        | some var =>
          match Pos.new (friendlyConfig var.isSome size) with
          | .ok p0 => some (.friendly (glueColor col) size, { fpa := var.map (·, {}), positions := [p0], all := #[p0] })
          | .error _ => none
      else if who == "T" then
        match a1.toInt?, Pos.new { size := size, pieces := 0, capstones := 0, blackWinsTies := false } with
        | some lim, .ok p0 =>
          some (.taktician { limit := lim, useOpponentTime := a4 == "1" } (glueColor col) size, { fpa := none, positions := [p0], all := #[p0] })
        | _, _ => none
      else none
    match start with
    | none => "bad-op"
    | some (w, st) =>
      let st := toks.foldl (glueStep basis w realAI) st
      if st.out.isEmpty then "-" else " ".intercalate st.out.reverse
  | _ => "bad-op"

def handleGlue : Handler := fun st op args =>
  match op with
  | "glue" => some (st, glueRun st.basis args)
  | "gluefn" =>
    match args with
    | ["level", l] =>
      match l.toInt? with
      | some l => some (st, match levelDepth l with | .ok d => toString d | .error _ => "panic")
      | none => some (st, "bad-op")
    | ["levelcmd", l, ig, fo, h] =>
      match l.toInt?, (if h == "-" then some "" else (unhex h).bind String.fromUTF8?) with
      | some l, some arg =>
        let (nl, rep) := levelCommand l (arg == "max") (parseUintOpt arg) (ig == "1") (fo == "1")
        let cls := match rep with
          | .max => "max" | .bad => "none" | .unknown => "unknown" | .future => "future" | .now => "now"
        some (st, s!"{cls} {nl} {if rep == .now then 1 else 0}")
      | _, _ => some (st, "bad-op")
    | ["tell", k, l, ig, fo, h] =>
      match l.toInt?, (if h == "-" then some "" else (unhex h).bind String.fromUTF8?) with
      | some l, some msg =>
        let (nl, out) := if k == "F" then friendlyTell l (ig == "1") (fo == "1") msg else (l, takticianTell (ig == "1") msg)
        let cls := match out with
          | .level .bad => "nothing"
          | .level .max => "level:max" | .level .unknown => "level:unknown"
          | .level .future => "level:future" | .level .now => "level:now"
          | .help => "help"
          | .seek sz => s!"seek:{sz}"
          | .sizeSet sz => s!"sizeset:{sz}"
          | .nothing => "nothing"
        some (st, s!"{cls} {nl}")
      | _, _ => some (st, "bad-op")
    | ["cfg", v, s] =>
      match glueVariant v, s.toNat? with
      | some var, some size =>
        let c := friendlyConfig var.isSome size
        some (st, s!"{c.size} {c.pieces} {c.capstones} {if c.blackWinsTies then 1 else 0}")
      | _, _ => some (st, "bad-op")
    | ["book", b, s] =>
      match s.toNat? with
      | some size => some (st, if wrapsWithBook (b == "1") size then "1" else "0")
      | none => some (st, "bad-op")
    | _ => some (st, "bad-op")
  | _ => none

end Driver
