import Driver.OpsSearch
import TakVerif.Impl.Serve

/-! Driver ops of the RPC handlers of `cmd/internal/serve` (generators `C05serve`, `C15serve`).

One `case` = one `server` object (`st.serve`).  Byte strings (TPS text, PTN move spellings) travel hex-encoded.

* `sv.an <tps> <depth> <precise>`: `(*server).Analyze`.  The cache rule (`new`/`reuse`, table length of a new engine) is
  compared on every request.  Where the real engine makes no `sort.Sort` call — engines of depth 1 (and < 0), and
  finished roots at any depth — the whole response is the model's (`Serve.analyze` with the quiet oracle: `pv`, `value`).
  Elsewhere the line ends in `searched` and the generator follows up with the property-level claims `sv.pvlegal`,
  `sv.value` that carry the real response.
* `sv.tak <tps>`: `(*server).IsPositionInTak`, always exact (depth-1 engine); `sv.takspec` is the rule-book reading of
  the same response (`C05.intak_iff`).
* `sv.canon <size> <move>…`: `(*server).Canonicalize`, exact. -/
namespace Driver
open Tak Codec Search Go

def serveEnv (st : St) : Serve.Env Pos Move := Serve.takEnv st.basis

def fmtHexList (l : List Bytes) : String :=
  if l.isEmpty then "-" else ",".intercalate (l.map toHex)

def parseHexList (tok : String) : Option (List Bytes) :=
  if tok == "-" then some [] else (tok.splitOn ",").mapM fromHex

/-- the engine of this request makes no `sortMoves` call: `mg.depth > 1` never holds (configured depth 1 or negative),
or the root is a finished game -/
def serveExact (depth : Int) (p : Pos) : Bool := depth == 1 || depth < 0 || p.gameOver.1

def b01 (b : Bool) : Nat := if b then 1 else 0

/-- the configuration of an engine, option switches in the positive sense (as the harness prints `pl.Cfg`) -/
def fmtCfg (cfg : Search.Cfg) : String :=
  s!"cfg=d{cfg.depth},sort{b01 (!cfg.opts.noSort)},null{b01 (!cfg.opts.noNullMove)},red{b01 (!cfg.opts.noReduceSlides)},mc{b01 cfg.opts.multiCut},dd{b01 cfg.opts.dedupSymmetry},me{cfg.maxEvals},rw{cfg.randomizeWindow}"

def fmtNew (repl : Bool) (c : Serve.Cache Move) : String :=
  if repl then
    match c.player with
    | some pl => s!"new tbl={pl.eng.table.size} {fmtCfg pl.cfg}"
    | none => "new nil"
  else "reuse"

/-- the moves of a PV replayed from `p`: index of the first one that is rejected -/
def replayPV (basis : Array W) : Pos → Nat → List Bytes → String
  | _, _, [] => "ok"
  | p, i, b :: rest =>
    match PTN.parseMove b with
    | .error _ => s!"unparsable@{i}"
    | .ok m =>
      match p.apply basis m with
      | .error _ => s!"illegal@{i}"
      | .ok q => replayPV basis q (i + 1) rest

/-- the moves of the side to move in `q` that end the game in its favour at once -/
def winningMoves (basis : Array W) (q : Pos) : List Move :=
  q.allMoves.filter fun m =>
    match q.apply basis m with
    | .error _ => false
    | .ok c => let go := c.gameOver; go.1 && go.2 == q.toMove

def handleServe : Handler := fun st op args =>
  match op, args with
  | "sv.an", [tps, depth, precise] =>
    match fromHex tps, depth.toInt? with
    | some b, some depth =>
      let precise := precise == "1"
      let env := serveEnv st
      match env.parseTPS b with
      | .error e => some (st, fmtErr e)
      | .ok p =>
        let repl := st.serve.analyzeCache.replaces (env.size p) depth precise
        if serveExact depth p then
          -- take the server out of the session first so that the engine's arrays are not shared
          let sv := st.serve
          let st := { st with serve := {} }
          match Serve.analyze env Oracle.quiet sv b depth precise with
          | (.ok (.analyze pv v), sv') =>
            some ({ st with serve := sv' }, s!"{fmtNew repl sv'.analyzeCache} pv={fmtHexList pv} v={v}")
          | (.ok _, sv') => some ({ st with serve := sv' }, "bad-resp")
          | (.error e, sv') => some ({ st with serve := sv' }, fmtErr e)
        else
          -- a sorting engine: only the cache rule is the model's; the engine state behind it is not followed, so
          -- the driver does not allocate the new engine's table (`getPlayer` with a 1-entry stand-in)
          let c : Serve.Cache Move :=
            if repl then
              let pl := Serve.newPlayer { env with tableEntries := 1 } (env.size p) depth precise
              { size := env.size p, depth := depth, precise := precise, player := some pl }
            else st.serve.analyzeCache
          let tbl := (Serve.playerCfg env.tableEntries depth precise).tableEntries.getD 0
          some ({ st with serve := { st.serve with analyzeCache := c } },
            (if repl then s!"new tbl={tbl} {fmtCfg (Serve.playerCfg env.tableEntries depth precise)}" else "reuse") ++ " searched")
    | _, _ => some (st, "bad-op")
  | "sv.tak", [tps] =>
    match fromHex tps with
    | some b =>
      let env := serveEnv st
      match env.parseTPS b with
      | .error e => some (st, fmtErr e)
      | .ok p =>
        let repl := st.serve.istakCache.replaces (env.size p) 1 true
        let sv := st.serve
        let st := { st with serve := {} }
        match Serve.isPositionInTak env Oracle.quiet sv b with
        | (.ok (.isInTak t m), sv') =>
          some ({ st with serve := sv' }, s!"{fmtNew repl sv'.istakCache} intak={if t then 1 else 0} move={toHex m}")
        | (.ok _, sv') => some ({ st with serve := sv' }, "bad-resp")
        | (.error e, sv') => some ({ st with serve := sv' }, fmtErr e)
    | none => some (st, "bad-op")
  | "sv.canon", size :: moves =>
    match size.toInt?, moves.mapM fromHex with
    | some size, some ms =>
      match Serve.canonicalize (serveEnv st) size ms with
      | .ok (.canonicalize out) => some (st, if out.isEmpty then "ok" else "ok " ++ " ".intercalate (out.map toHex))
      | .ok _ => some (st, "bad-resp")
      | .error e => some (st, fmtErr e)
    | _, _ => some (st, "bad-op")
  -- claim: the PV of a response replays legally from the analysed position (C04: every reported line is playable)
  | "sv.pvlegal", [tps, pv] =>
    match fromHex tps, parseHexList pv with
    | some b, some pv =>
      match (serveEnv st).parseTPS b with
      | .error _ => some (st, "bad-tps")
      | .ok p => some (st, replayPV st.basis p 0 pv)
    | _, _ => some (st, "bad-op")
  -- claim: the value of a response of a sorting engine is what C05 prescribes (see the module comment of ops_serve.go)
  | "sv.value", [tps, d, precise, fresh, margin, exact, v, pv0] =>
    match fromHex tps, d.toNat?, margin.toNat?, v.toInt?, fromHex pv0 with
    | some b, some d, some margin, some v, some pv0 =>
      match (serveEnv st).parseTPS b with
      | .error _ => some (st, "bad-tps")
      | .ok p =>
        let precise := precise == "1"
        let fresh := fresh == "1"
        let gw := takGame st.basis evalWinner
        let truth := decisive (negamax gw d p)
        let dv := decisive v
        let out :=
          if truth != 0 && dv == -truth then "unsound"
          else if precise && truth != 0 && dv != truth then "missed"
          else if dv != 0 && truth == 0 then
            if precise && fresh then "unsound-fresh"
            else if (List.range margin).any (fun k => decisive (negamax gw (d + 1 + k) p) == dv) then "ok"
            else if (List.range margin).any (fun k => decisive (negamax gw (d + 1 + k) p) == -dv) then "unsound"
            else "ok"
          else if exact == "1" && precise && fresh && dv == 0 then
            let g := takGame st.basis Serve.takEval
            let want := negamax g d p
            if want != v then s!"value want={want}"
            else
              match PTN.parseMove pv0 with
              | .error _ => "pv0-unparsable"
              | .ok m =>
                match p.apply st.basis m with
                | .error _ => "pv0-illegal"
                | .ok c => if -(negamax g (d - 1) c) == v then "ok" else "pv0-does-not-attain"
          else "ok"
        some (st, out)
    | _, _, _, _, _ => some (st, "bad-op")
  -- claim: InTak <=> the side NOT to move has a move that wins at once after a pass; TakMove is such a move
  | "sv.takspec", [tps, intak, mv] =>
    match fromHex tps, fromHex mv with
    | some b, some mv =>
      let env := serveEnv st
      match env.parseTPS b with
      | .error _ => some (st, "bad-tps")
      | .ok p =>
        match env.pass p with
        | .error _ => some (st, "bad-pass")
        | .ok q =>
          let wins := if q.gameOver.1 then [] else winningMoves st.basis q
          let want := !wins.isEmpty
          if want != (intak == "1") then some (st, s!"wrong-intak want={if want then 1 else 0}")
          else if !want then some (st, if mv.isEmpty then "ok" else "move-without-tak")
          else
            match PTN.parseMove mv with
            | .error _ => some (st, "move-unparsable")
            | .ok m => some (st, if wins.any (fun w => w.equal m) then "ok" else "move-not-winning")
    | _, _ => some (st, "bad-op")
  | _, _ => none

end Driver
