import Driver.State
import Driver.OpsCore
import Driver.OpsFnGen5
import TakVerif.Generated.FuncsMoveIter
namespace Driver
open Tak Codec

/-! `fn.*` ops of the sixth batch of regenerated definitions (`Generated/FuncsMoveIter.lean`; harness/verifh/gen_fngen7.go):
the state machine of the move generator, `ai/moves.go` `moveGenerator.Reset` / `Next`.  The three oracle parameters of
`Gen.moveGeneratorNext` are the tables of the op line (taken from - and re-checked against - the real calls on the Go side);
the child position is its hash (`C_Position := Nat`).  `none` (a Go panic) prints `panic`. -/

namespace FnGen6
open FnGen5

/-- `nil` / `-` / a move list: (isNil, moves) -/
def parseMvs0 (tok : String) : Option (Bool × Array Gen.Move) :=
  if tok == "nil" then some (true, #[]) else if tok == "-" then some (false, #[]) else (parseMvs tok).map fun l => (false, l)

def fmtMvs0 (isNil : Bool) (ms : Array Gen.Move) : String :=
  if isNil then "nil" else if ms.isEmpty then "-" else ",".intercalate (ms.toList.map fmtMv)

/-- the graph of `MovePreallocated` on the candidate moves: `move=childhash;…` (only the moves it accepts) -/
def parseGraph (tok : String) : Option (List (Gen.Move × Nat)) :=
  if tok == "-" then some [] else
  (tok.splitOn ";").mapM fun kv =>
    match kv.splitOn "=" with
    | [k, v] => do pure ((← parseMv k), (← v.toNat?))
    | _ => none

def applyGraph (g : List (Gen.Move × Nat)) (m : Gen.Move) : Option Nat × Bool :=
  match Gen.mapGet g m with
  | some h => (some h, true)
  | none => (none, false)

end FnGen6
open FnGen5 FnGen6

def handleFnGen6 : Handler := fun st op args =>
  match op, args with
  | "fn.mgreset", [_] => some (st, toString Gen.moveGeneratorReset)
  | "fn.mgnext", [_, ply, depth, nosort, te, pv, resp, _, frames, i, r, ms, all, sorted, graph] =>
    match [ply, depth, i].mapM String.toInt?, (if te == "nil" then some none else (parseMv te).map some), parseMvs0 pv,
        parseMap parseMv resp, parseMvs frames, parseMv r, parseMvs0 ms, parseMvs0 all, parseMvs0 sorted, parseGraph graph with
    | some [ply, depth, i], some te, some (_, pv), some (rn, resp), some frames, some r, some (msNil, ms), some (allNil, all),
        some (_, sorted), some graph =>
      -- a nil response map reads like an empty one (Go: a read of a nil map yields the zero value)
      let _ := rn
      some (st, match Gen.moveGeneratorNext (C_Position := Nat) (nosort == "1") resp frames depth i ms msNil all allNil (applyGraph graph) ply pv r
          (fun _ => sorted) te.isNone (te.getD default) with
        | none => "panic"
        | some (m, child, i', ms', msNil', r') =>
          let ch := match child with | some h => toString h | none => "nil"
          s!"{fmtMv m} {ch} {i'} {fmtMvs0 msNil' ms'} {fmtMv r'}")
    | _, _, _, _, _, _, _, _, _, _ => some (st, "bad-op")
  | _, _ => none

end Driver
