import Driver.State
namespace Driver
open Tak Codec

def withPos (tok : String) (k : Pos → String) : String :=
  match parsePos tok with
  | none => "bad-pos"
  | some (p, true) => k p
  | some (_, false) => "hang"

def fmtOutcome (over : Bool) (w : Color) (road : Bool) (wf bf : Nat) : String :=
  s!"{if over then 1 else 0} {colorStr w} {if road then "road" else "flats"} {wf} {bf}"

-- `scratchHash` (the internal hash field recomputed from the stacks) is `Tak.scratchHash` in Impl/Move.lean

def applySeq (basis : Array W) (p : Pos) (tok : String) : Option Pos :=
  if tok == "-" then some p else
  (tok.splitOn ";").foldl (fun acc mt =>
    match acc, parseMove mt with
    | some q, some m => (match q.apply basis m with | .ok r => some r | .error _ => none)
    | _, _ => none) (some p)

def handleCore : Handler := fun st op args =>
  match op, args with
  | "basis", vs =>
    match vs.mapM String.toNat? with
    | some l => some ({ st with basis := (l.map (BitVec.ofNat 64)).toArray }, "ok")
    | none => some (st, "bad-op")
  | "move", [ptok, mtok] =>
    some (st, withPos ptok fun p =>
      match parseMove mtok with
      | none => "bad-move"
      | some m =>
        match p.apply st.basis m with
        | .ok q => "ok " ++ fmtPos q
        | .error e => fmtErr e)
  | "smove", [ptok, mtok] =>
    some (st, withPos ptok fun p =>
      match parseMove mtok with
      | none => "bad-move"
      | some m =>
        match Spec.step (Spec.abs p) (Spec.decode m) with
        | some s => if s.squares.any (fun q => q.length > 64) then "overlimit" else "ok " ++ fmtState s
        | none => "err")
  | "abs", [ptok] => some (st, withPos ptok fun p => fmtState (Spec.abs p))
  | "over", [ptok] =>
    some (st, withPos ptok fun p =>
      let d := p.winDetails
      fmtOutcome d.over d.winner (d.reason == .road) d.whiteFlats d.blackFlats)
  | "sover", [ptok] =>
    some (st, withPos ptok fun p =>
      let o := Spec.outcome (Spec.abs p)
      fmtOutcome o.over o.winner o.road o.whiteFlats o.blackFlats)
  | "allmoves", [ptok] => some (st, withPos ptok fun p => fmtMoves p.allMoves)
  | "allmovesbuf", [ptok, mtok, _k] =>
    some (st, withPos ptok fun p =>
      match parseMove mtok with
      | none => "bad-move"
      | some m =>
        match p.apply st.basis m with
        | .ok q => fmtMoves q.allMoves
        | .error (.panic e) => fmtErr (.panic e)
        | .error _ => "err")
  | "slegal", [ptok] => some (st, withPos ptok fun p => fmtMoves (Spec.legalMoves (Spec.abs p)))
  | "hash", [ptok] => some (st, withPos ptok fun p => toString p.hashOf.toNat)
  | "dump", [ptok] => some (st, withPos ptok fun p => fmtPos p)
  | "equal", [a, b] =>
    some (st, withPos a fun p => withPos b fun q => if p.equal q then "1" else "0")
  | "mhash", [ptok, mtok] =>
    some (st, withPos ptok fun p =>
      match parseMove mtok with
      | none => "bad-move"
      | some m =>
        match p.apply st.basis m with
        | .ok q => s!"{q.hashOf.toNat} {q.hash.toNat} {(scratchHash st.basis q).toNat}"
        | .error e => fmtErr e)
  | "mhashok", [ptok, mtok] =>
    -- by C08.hash_inv / equal_iff / hash_congr the required answer for an accepted move is "ok"
    some (st, withPos ptok fun p =>
      match parseMove mtok with
      | none => "bad-move"
      | some m =>
        match p.apply st.basis m with
        | .ok _ => "ok"
        | .error e => fmtErr e)
  | "trans", [ptok, sa, sb] =>
    some (st, withPos ptok fun p =>
      match applySeq st.basis p sa, applySeq st.basis p sb with
      | none, _ => "errA"
      | _, none => "errB"
      | some a, some b =>
        let same := Spec.abs a == Spec.abs b
        s!"eq={if a.equal b then 1 else 0} hsame={if a.hashOf == b.hashOf then 1 else 0} same={if same then 1 else 0}")
  | "transpre", [ptok, sa, sb, _dirt] =>
    -- storage is invisible in the model (C09.heap_refines_pure): the required answer is that of `trans`, and every
    -- intermediate of route B equals the same prefix played into fresh storage
    some (st, withPos ptok fun p =>
      match applySeq st.basis p sa, applySeq st.basis p sb with
      | none, _ => "errA"
      | _, none => "errB"
      | some a, some b =>
        let same := Spec.abs a == Spec.abs b
        s!"eq={if a.equal b then 1 else 0} hsame={if a.hashOf == b.hashOf then 1 else 0} same={if same then 1 else 0} pre=1")
  | "rebuild", [ptok] =>
    some (st, withPos ptok fun p =>
      let board := (Spec.abs p).squares.map (fun sq => sq.map Piece.code)
      match Pos.fromSquares st.basis p.cfg board p.move with
      | .ok q => s!"eq={if p.equal q then 1 else 0} hsame={if p.hashOf == q.hashOf then 1 else 0}"
      | .error e => fmtErr e)
  | _, _ => none

end Driver
