import Driver.State
import Driver.OpsCore
import TakVerif.Impl.Evaluate
import TakVerif.Impl.ThreatHyp

/-! Driver ops for C18 (evaluation) and C19 (immediate road threats). -/
namespace Driver
open Tak Codec

private def fmtInts (l : List Int) : String := ",".intercalate (l.map toString)

def fmtRInt : R Int → String
  | .ok v => toString v
  | .error e => fmtErr e

/-- weight-set token: default (by size), easy, med, raw, over6, 3..8, c:<csv> -/
def weightSet (tok : String) (size : Nat) : Option (R Weights) :=
  if tok == "default" then some (defaultWeightsFor size)
  else if tok == "easy" then some (.ok Facts.easyWeights)
  else if tok == "med" then some (.ok Facts.medWeights)
  else if tok == "raw" then some (.ok Facts.evalDefaultWeights)
  else if tok == "over6" then some (.ok defaultWeights6Overrides)
  else if tok.startsWith "c:" then
    match ((tok.drop 2).toString.splitOn ",").mapM String.toInt? with
    | some l => if l.length == Facts.maxFeature then some (.ok l) else some (.error (.panic "bad weight vector"))
    | none => some (.error (.panic "bad weight"))
  else match tok.toNat? with
    | some n => some (defaultWeightsFor n)
    | none => none
where defaultWeights6Overrides : Weights := Facts.evalOverrides6

def withWeights (tok : String) (size : Nat) (k : Weights → String) : String :=
  match weightSet tok size with
  | none => "bad-op"
  | some (.error e) => fmtErr e
  | some (.ok w) => k w

/-- what C18 demands of the value, from the end-of-game rules alone -/
def demandedClass (p : Pos) : String :=
  let go := p.gameOver
  if !go.1 then "in"
  else if go.2 == .none then "zero"
  else if go.2 == p.toMove then "out+"
  else "out-"

def threatReal (p : Pos) (win : Pos → Bool) : String :=
  if p.gameOver.1 then "over"
  else if p.move < 2 then "opening"
  else
    let t := countThreats p.c p
    if t.forMover p == 0 then "none"
    else if win p then "ok"
    else s!"MODEL-BOGUS {t.wp} {t.wt} {t.bp} {t.bt}"

/-- second opinion: the candidate moves judged by the list-level rule book and `Spec.outcome` -/
def specRoadWin (p : Pos) : Bool :=
  let s := Spec.abs p
  p.allMoves.any fun m =>
    match Spec.step s (Spec.decode m) with
    | none => false
    | some s' =>
      let o := Spec.outcome s'
      o.over && o.road && o.winner == p.toMove

def handleEval : Handler := fun st op args =>
  match op, args with
  | "evalconsts", [] =>
    some (st, fmtInts [Facts.maxEval, Facts.minEval, Facts.winThreshold, Facts.winBase, Facts.forcedWin,
        Facts.moveScale, Facts.maxFeature] ++ " " ++
      fmtInts ([Facts.fTempo, Facts.fTopFlat, Facts.fStanding, Facts.fCapstone, Facts.fHardTopCap, Facts.fCapMobility,
        Facts.fFlatCaptivesSoft, Facts.fFlatCaptivesHard, Facts.fStandingCaptivesSoft, Facts.fStandingCaptivesHard,
        Facts.fCapstoneCaptivesSoft, Facts.fCapstoneCaptivesHard, Facts.fLiberties, Facts.fGroupLiberties,
        Facts.fGroups, Facts.fGroups1, Facts.fGroups2, Facts.fGroups3, Facts.fGroups4, Facts.fGroups5,
        Facts.fGroups6, Facts.fGroups7, Facts.fGroups8, Facts.fPotential, Facts.fThreat, Facts.fEmptyControl,
        Facts.fFlatControl, Facts.fCenter, Facts.fCenterControl, Facts.fThrowMine, Facts.fThrowTheirs,
        Facts.fThrowEmpty, Facts.fTerminalPlies, Facts.fTerminalFlats, Facts.fTerminalReserves,
        Facts.fTerminalOpponentReserves, Facts.maxFeature].map (fun (n : Nat) => (n : Int))))
  -- every entry of the `[MaxFeature]int64` array (a fact list may omit trailing zeros)
  | "weights", [tok] => some (st, withWeights tok 5 fun w => fmtInts ((List.range Facts.maxFeature).map w.at))
  | "eval", [ptok] => some (st, withPos ptok fun p => fmtRInt (evaluateDefault p.c p))
  | "evalw", [wtok, ptok] =>
    some (st, withPos ptok fun p => withWeights wtok p.cfg.size fun w => fmtRInt (evaluate p.c w p))
  | "evalterm", [wtok, ptok] =>
    some (st, withPos ptok fun p => withWeights wtok p.cfg.size fun w => toString (evaluateTerminal p w))
  | "evalwinner", [ptok] => some (st, withPos ptok fun p => toString (evaluateWinner p))
  | "evalcheck", [_, ptok] => some (st, withPos ptok demandedClass)
  | "evalparts", [wtok, ptok] =>
    some (st, withPos ptok fun p => withWeights wtok p.cfg.size fun w =>
      match scoreGroups p.c p.wgroups w (p.black ||| p.standing), scoreGroups p.c p.bgroups w (p.white ||| p.standing) with
      | .ok wg, .ok bg => s!"{scoreThreats p.c w p} {scoreControl p.c w p} {wg} {bg}"
      | .error e, _ => fmtErr e
      | _, .error e => fmtErr e)
  | "mobility", [ptok, i, h] =>
    some (st, withPos ptok fun p =>
      match i.toNat?, h.toInt? with
      | some i, some h => toString (mobility p.c p (bit i) h).toNat
      | _, _ => "bad-op")
  | "control", [ptok] =>
    some (st, withPos ptok fun p => let cc := computeControl p.c p; s!"{cc.1.toNat} {cc.2.toNat}")
  | "dims", [size, bits] =>
    match size.toNat?, bits.toNat? with
    | some n, some b =>
      match dimensions (Gen.precompute n) (BitVec.ofNat 64 b) with
      | some (w, h) => some (st, s!"{w} {h}")
      | none => some (st, "hang")
    | _, _ => some (st, "bad-op")
  | "threats", [ptok] =>
    some (st, withPos ptok fun p => let t := countThreats p.c p; s!"{t.wp} {t.wt} {t.bp} {t.bt}")
  | "c19hyp", [ptok] => some (st, withPos ptok fun p => if p.threatHypB then "1" else "0")
  | "threatclone", [ptok, m1, _m2] =>
    some (st, withPos ptok fun p =>
      match parseMove m1 with
      | none => "bad-move"
      | some m =>
        match p.apply st.basis m with
        | .error e => fmtErr e
        | .ok a => let t := countThreats a.c a; s!"{t.wp} {t.wt} {t.bp} {t.bt} {threatReal a (onePlyRoadWin st.basis)}")
  | "threatstack", [ptok, m1, _m2] =>
    -- storage is invisible in the model (C09): the detector's answer for the position after m1 and a pass
    some (st, withPos ptok fun p =>
      match parseMove m1 with
      | none => "bad-move"
      | some m =>
        match p.apply st.basis m with
        | .error e => fmtErr e
        | .ok a =>
          match a.apply st.basis ⟨0, 0, Facts.mtPass, 0⟩ with
          | .error e => fmtErr e
          | .ok b => let t := countThreats b.c b; s!"{t.wp} {t.wt} {t.bp} {t.bt} {threatReal b (onePlyRoadWin st.basis)}")
  | "threatreal", [ptok] => some (st, withPos ptok fun p => threatReal p (onePlyRoadWin st.basis))
  | "sthreatreal", [ptok] => some (st, withPos ptok fun p => threatReal p specRoadWin)
  | "roadwin1", [ptok] =>
    some (st, withPos ptok fun p =>
      if p.gameOver.1 then "over" else if onePlyRoadWin st.basis p then "1" else "0")
  | _, _ => none

end Driver
