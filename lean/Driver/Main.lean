import Driver.OpsCore
import Driver.OpsSolvers
namespace Driver

def handlers : List Handler := [handleCore, handleSolvers]

def step (st : St) (line : String) : St × String :=
  match (line.trimAscii.toString.splitOn " ").filter (· ≠ "") with
  | [] => (st, "")
  | op :: args =>
    let rec go : List Handler → St × String
      | [] => (st, "bad-op")
      | h :: hs => match h st op args with
        | some r => r
        | none => go hs
    go handlers

partial def loop (hin hout : IO.FS.Stream) (st : St) : IO Unit := do
  let line ← hin.getLine
  if line.isEmpty then return ()
  let (st', out) := step st line
  hout.putStrLn out
  loop hin hout st'

end Driver

def main : IO Unit := do
  let hin ← IO.getStdin
  let hout ← IO.getStdout
  Driver.loop hin hout {}
