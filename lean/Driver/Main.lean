import Driver.OpsCore
import Driver.OpsSearch
import Driver.OpsEval
import Driver.OpsRoads
import Driver.OpsAlloc
import Driver.OpsFn
import Driver.OpsFnGen
import Driver.OpsFnGen2
import Driver.OpsFnGen3
import Driver.OpsFnGen4
import Driver.OpsFnGen5
import Driver.OpsFnGen6
import Driver.OpsFnGen7
import Driver.OpsC03
import Driver.OpsSym
import Driver.OpsBot
import Driver.OpsText
import Driver.OpsTEI
import Driver.OpsTEIClient
import Driver.OpsFPA
import Driver.OpsMCTS
import Driver.OpsPTN
import Driver.OpsSolvers
import Driver.OpsApi
import Driver.OpsGlue
import Driver.OpsServe
import Driver.OpsLegal
import Driver.OpsMCTSPolicy
import Driver.OpsCmd
import Driver.OpsCmd2
import Driver.OpsCompose
import Driver.OpsCheck
import Driver.OpsSelfplay
namespace Driver

def handlers : List Handler := [
  handleCore,
  handleRoads,
  handleAlloc,
  handleFn,
  handleFnGen,
  handleFnGen2,
  handleFnGen3,
  handleFnGen4,
  handleFnGen5,
  handleFnGen6,
  handleFnGen7,
  handleC03,
  handleSym,
  handleEval,
  handleBot,
  handleText,
  handleTEI,
  handleTEIClient,
  handleFPA,
  handleMCTS,
  handlePTN,
  handleSearch,
  handleSolvers,
  handleApi,
  handleGlue,
  handleLegal,
  handleMCTSPolicy,
  handleCmd,
  handleCmd2,
  handleCompose,
  handleCheck,
  handleSelfplay,
]

def step (st : St) (line : String) : St × String :=
  match (line.trimAscii.toString.splitOn " ").filter (· ≠ "") with
  | [] => (st, "")
  | "case" :: _ =>
    -- start of a stateful sequence: every module's session state is reset; only the basis table survives
    -- (and the C06 cache of the last solved game graph, a pure function of its root position)
    ({ basis := st.basis, solvers := { graph := st.solvers.graph } }, "ok")
  | op :: args =>
    -- the serve ops own the driver state (no other handler is tried first), so that the model's 3.2 M-entry
    -- transposition tables are updated in place
    if op.startsWith "sv." then (match handleServe st op args with | some r => r | none => (st, "bad-op")) else
    let rec go : List Handler → St × String
      | [] => (st, "bad-op")
      | h :: hs => match h st op args with
        | some r => r
        | none => go hs
    go handlers

partial def loop (hin hout : IO.FS.Stream) (st : St) : IO Unit := do
  let line ← hin.getLine
  if line.isEmpty then return ()
  let (st', out) := step st line
  hout.putStrLn out
  loop hin hout st'

end Driver

def main : IO Unit := do
  let hin ← IO.getStdin
  let hout ← IO.getStdout
  Driver.loop hin hout {}
