import Driver.OpsGlue
import Driver.OpsSearch
import TakVerif.Impl.BotCheck
/-! op `gluewait` (C07, work package botcompose2): the model side of `harness/verifh/ops_check.go` — `waitUndo` on the
check engine `Friendly.NewGame` builds (`Tak.Compose.waitUndoK` on `Tak.Compose.minimaxChecker`). -/
namespace Driver
open Tak Codec Tak.Glue Tak.Compose

/-- the record after the moves (newest first), or the word to answer -/
def waitRecord (basis : Array W) (p0 : Pos) (toks : List String) : Except String (List Pos) :=
  toks.foldlM (init := [p0]) fun ps tok =>
    if !tok.startsWith "m" then .error "bad-op" else
    match parseMove (tok.drop 1).toString, ps with
    | some m, p :: _ =>
      match p.apply basis m with
      | .ok q => .ok (q :: ps)
      | .error _ => .error "illegal"
    | _, _ => .error "illegal"

def waitRun (basis : Array W) (args : List String) : String :=
  match args with
  | size :: toks =>
    match size.toNat? with
    | none => "bad-op"
    | some size =>
      if size < 3 || size > 8 then "bad-op" else
      match Pos.new (friendlyConfig false size) with
      | .error _ => "bad-op"
      | .ok p0 =>
        match waitRecord basis p0 toks with
        | .error w => w
        | .ok [] => "bad-op"
        | .ok (p :: rest) =>
          if p.gameOver.1 then "over" else
          let sym := symHashesOf basis
          let K := minimaxChecker basis sym
          let eng0 := Search.Eng.new (Search.takGame basis Search.evalWinner sym) checkCfg
          let g : GameRec := { color := .white, size := size, positions := p :: rest, moves := [] }
          match checkVerdicts K Search.Oracle.quiet Search.Oracle.quiet g.positions p eng0 with
          | .error _ => "panic"
          | .ok (chk, _) =>
            match waitUndo g chk with
            | .error _ => "panic"
            | .ok w =>
              if asksPrev chk then "ask=1 n=2" else s!"ask=0 n=1 w={if w then 1 else 0}"
  | _ => "bad-op"

def handleCheck : Handler := fun st op args =>
  match op with
  | "gluewait" => some (st, waitRun st.basis args)
  | _ => none

end Driver
