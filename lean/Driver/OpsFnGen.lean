import Driver.State
import Driver.OpsEval
import TakVerif.Generated.FuncsEval
namespace Driver
open Tak Codec

/-! `fn.*` ops for the definitions regenerated into `Generated/Funcs{Tak,Sym,AI,FPA}.lean`: the Lean side evaluates
`Gen.<f>`, the Go side runs the real function (harness/verifh/gen_fngen.go).  `none` (panic) prints `panic`,
an exhausted loop fuel prints `fuel`. -/

private def b01 (x : Bool) : Nat := if x then 1 else 0

/-- the model's `WinDetails` as the regenerated struct (`RoadWin = 0`, `FlatsWin = 1`) -/
def genDetails (d : WinDetails) : Gen.WinDetails :=
  { Over := d.over, Reason := if d.reason == .road then 0 else 1, Winner := BitVec.ofNat 8 d.winner.code,
    WhiteFlats := d.whiteFlats, BlackFlats := d.blackFlats }

private def genMove : List Int → Option Gen.Move
  | [x, y, t, s] => some { X := x, Y := y, Type_ := BitVec.ofInt 8 t, Slides := BitVec.ofInt 32 s }
  | _ => none

def handleFnGen : Handler := fun st op args =>
  if op == "fn.pos" then
    match args with
    | [ptok] =>
      some (st, match parsePos ptok with
        | none => "bad-pos"
        | some (_, false) => "hang"
        | some (p, true) =>
          let (cw, cb) := Gen.positionCountFlats p.black p.caps p.standing p.white
          let fw := Gen.positionFlatsWinner p.black p.caps p.standing p.white p.cfg.blackWinsTies
          -- `hasRoad()` is an accessor parameter of the regenerated `GameOver`: it is supplied by the hand model
          let hr := p.hasRoad
          let (over, w) := Gen.positionGameOver p.black p.caps p.standing p.white p.blackCaps p.blackStones
            p.cfg.blackWinsTies p.c.Mask (BitVec.ofNat 8 hr.1.code, hr.2) p.whiteCaps p.whiteStones
          s!"{(Gen.positionToMove p.move).toNat} {cw} {cb} {fw.toNat} {b01 over} {w.toNat}")
    | _ => none
  else if op == "fn.evalterm" then
    match args with
    | [wtok, ptok] =>
      some (st, withPos ptok fun p => withWeights wtok p.cfg.size fun w =>
        -- accessor parameters (`WhiteStones()`, `WinDetails()` ...) are supplied by the hand model of the position
        toString (Gen.evaluateTerminal p.blackStones.toNat p.move p.cfg.size p.whiteStones.toNat (genDetails p.winDetails) p.move
          (w.at Facts.fTerminalFlats) (w.at Facts.fTerminalOpponentReserves) (w.at Facts.fTerminalPlies) (w.at Facts.fTerminalReserves)))
    | _ => none
  else if op == "fn.hash" then
    match args with
    | [ptok] => some (st, withPos ptok fun p => toString (Gen.positionHash p.black p.caps p.standing p.white p.hash p.move).toNat)
    | _ => none
  else if op == "fn.evalwinner" then
    match args with
    | [ptok] =>
      some (st, withPos ptok fun p =>
        let hr := p.hasRoad
        toString (Gen.evaluateWinner p.black p.caps p.standing p.white p.blackCaps p.blackStones p.cfg.blackWinsTies p.c.Mask
          (BitVec.ofNat 8 hr.1.code, hr.2) p.move p.whiteCaps p.whiteStones))
    | _ => none
  else
  match op, args.mapM String.toInt? with
  | "fn.flood", some [n, w, s] =>
    some (st, match Gen.flood (Gen.precompute n.toNat) (BitVec.ofInt 64 w) (BitVec.ofInt 64 s) with
      | some v => toString v.toNat
      | none => "fuel")
  | "fn.dims", some [n, x] =>
    let c := Gen.precompute n.toNat
    let bits := BitVec.ofInt 64 x
    -- the four loops carry whitelist fuel; `fuel` if one of them did not reach its exit condition
    let b0 := Gen.dimensions_loop0 bits 70 c.L
    let b2 := Gen.dimensions_loop2 bits c 70 c.T
    let bad := bits != 0#64 && (Gen.dimensions_loop0_more bits b0 || Gen.dimensions_loop2_more bits c b2 ||
      Gen.dimensions_loop1_more bits (Gen.dimensions_loop1 bits 70 (b0, 0)) ||
      Gen.dimensions_loop3_more bits c (Gen.dimensions_loop3 bits c 70 (b2, 0)))
    let (w, h) := Gen.dimensions c bits
    some (st, if bad then "fuel" else s!"{w} {h}")
  | "fn.popcount", some [x] =>
    some (st, s!"{Gen.popcount64 (BitVec.ofInt 64 x)} {Gen.trailingZeros64 (BitVec.ofInt 64 x)}")
  | "fn.piece", some [c, k, p] =>
    let pc := BitVec.ofInt 8 p
    some (st, s!"{(Gen.makePiece (BitVec.ofInt 8 c) (BitVec.ofInt 8 k)).toNat} {(Gen.pieceColor pc).toNat} {(Gen.pieceKind pc).toNat} {b01 (Gen.pieceIsRoad pc)}")
  | "fn.flip", some [c] =>
    some (st, match Gen.colorFlip (BitVec.ofInt 8 c) with
      | some v => toString v.toNat
      | none => "panic")
  | "fn.slen", some [s] =>
    let w := BitVec.ofInt 32 s
    -- the loop of `Slides.Len` carries whitelist fuel; report it if it did not suffice
    some (st, if Gen.slidesLen_loop0_more (Gen.slidesLen_loop0 8 (0, w)) then "fuel" else toString (Gen.slidesLen w))
  | "fn.mequal", some [x, y, t, s, x2, y2, t2, s2] =>
    match genMove [x, y, t, s], genMove [x2, y2, t2, s2] with
    | some m, some r => some (st, s!"{b01 (Gen.moveIsSlide m)} {b01 (Gen.moveEqual m r)}")
    | _, _ => none
  | "fn.mdest", some [x, y, t, s] =>
    match genMove [x, y, t, s] with
    | some m => some (st, match Gen.moveDest m with
        | some (dx, dy) => s!"{dx} {dy}"
        | none => "panic")
    | none => none
  | "fn.sym", some [n, k, x, y] =>
    if h : k.toNat < 8 then
      let (rx, ry) := Gen.symmetries n ⟨k.toNat, h⟩ x y
      some (st, s!"{rx} {ry}")
    else some (st, "panic")
  | "fn.prefer", some [x, y, t, s, x2, y2, t2, s2] =>
    match genMove [x, y, t, s], genMove [x2, y2, t2, s2] with
    | some m, some r => some (st, toString (b01 (Gen.preferMove m r)))
    | _, _ => none
  | "fn.tesuff", some [v, b, d, depth, α, β] =>
    let te : Gen.tableEntry := { hash := 0#64, value := v, m := default, bound := BitVec.ofInt 8 b, depth := d }
    some (st, toString (b01 (Gen.teSuffices te depth α β)))
  | "fn.centered", some [n, x, y] =>
    let m : Gen.Move := { X := x, Y := y, Type_ := 2#8, Slides := 0#32 }
    some (st, s!"{b01 (Gen.isCentered n m)} {b01 (Gen.isCenterAdjacent n m)}")
  | "fn.distance", some [x1, y1, x2, y2] => some (st, toString (Gen.distance x1 y1 x2 y2))
  | "fn.dir", some [x, y, ex, ey] =>
    some (st, match Gen.dir x y ex ey with
      | some v => toString v.toNat
      | none => "panic")
  | _, _ => none

end Driver
