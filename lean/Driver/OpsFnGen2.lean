import Driver.State
import Driver.OpsCore
import TakVerif.Generated.FuncsProve
namespace Driver
open Tak Codec

/-! `fn.*` ops of the second batch of regenerated definitions (`Generated/FuncsPos.lean`, `FuncsRoad.lean`,
`FuncsMoveGen.lean`; harness/verifh/gen_fngen2.go): the Lean side evaluates `Gen.<f>` on the fields of the position the
function reads.  `none` (Go panics: index out of range, explicit panic; or a loop that does not end) prints `panic`. -/

private def b01 (x : Bool) : Nat := if x then 1 else 0

private def natList (l : List Nat) : String := if l.isEmpty then "-" else ",".intercalate (l.map toString)

/-- the `slides` table as the regenerated `init` builds it from the zero value (evaluated once) -/
def genSlidesTable : Array (Array (BitVec 32)) := (Gen.slidesInit #[]).getD #[]

private def genMoveStr (m : Gen.Move) : String := s!"{m.X},{m.Y},{m.Type_.toNat},{m.Slides.toNat}"

private def parseGenMove (tok : String) : Option Gen.Move :=
  match (tok.splitOn ",").mapM String.toInt? with
  | some [x, y, t, s] => some { X := x, Y := y, Type_ := BitVec.ofInt 8 t, Slides := BitVec.ofInt 32 s }
  | _ => none

def handleFnGen2 : Handler := fun st op args =>
  match op, args with
  | "fn.top", [ptok, x, y] =>
    match x.toInt?, y.toInt? with
    | some x, some y => some (st, withPos ptok fun p =>
        toString (Gen.positionTop p.black p.caps p.cfg.size p.standing p.white x y).toNat)
    | _, _ => none
  | "fn.at", [ptok, x, y] =>
    match x.toInt?, y.toInt? with
    | some x, some y => some (st, withPos ptok fun p =>
        match Gen.positionAt p.black p.caps p.height p.cfg.size p.stacks p.standing p.white x y with
        | none => "panic"
        | some sq => natList (sq.toList.map (·.toNat)))
    | _, _ => none
  | "fn.hashat", [ptok, i] =>
    match i.toNat? with
    | some i => some (st, withPos ptok fun p =>
        match Gen.positionHashAt st.basis p.height p.stacks i with
        | none => "panic"
        | some h => toString h.toNat)
    | none => none
  | "fn.equal", [a, b] =>
    some (st, withPos a fun p => withPos b fun q =>
      match Gen.positionEqual p.black p.caps p.height p.stacks p.standing p.white p.cfg.size p.hash p.move
          q.black q.caps q.height q.stacks q.standing q.white q.cfg.size q.hash q.move with
      | none => "panic"
      | some r => toString (b01 r))
  | "fn.hasroad", [ptok] =>
    some (st, withPos ptok fun p =>
      let (c, ok) := Gen.positionHasRoad p.bgroups.toArray p.wgroups.toArray p.c.B p.c.L p.c.R p.c.T p.move
      s!"{c.toNat} {b01 ok}")
  | "fn.windetails", [ptok] =>
    some (st, withPos ptok fun p =>
      let hr := Gen.positionHasRoad p.bgroups.toArray p.wgroups.toArray p.c.B p.c.L p.c.R p.c.T p.move
      let d := Gen.positionWinDetails p.black p.caps p.standing p.white p.blackCaps p.blackStones p.cfg.blackWinsTies p.c.Mask
        hr p.whiteCaps p.whiteStones
      s!"{b01 d.Over} {d.Reason} {d.Winner.toNat} {d.WhiteFlats} {d.BlackFlats}")
  | "fn.floodgroups", [n, bits, pre] =>
    match n.toNat?, bits.toNat?, commaNat pre with
    | some n, some bits, some pre =>
      some (st, match Gen.floodGroups (Gen.precompute n) (BitVec.ofNat 64 bits) (pre.map (BitVec.ofNat 64)).toArray with
        | none => "fuel"
        | some out => natList (out.toList.map (·.toNat)))
    | _, _, _ => none
  | "fn.mkslides", [d] =>
    match (if d == "-" then some [] else (d.splitOn ",").mapM String.toInt?) with
    | some drops => some (st, match Gen.mkSlides drops.toArray with
        | none => "panic"
        | some s => toString s.toNat)
    | none => none
  | "fn.calcslides", [k] =>
    match k.toInt? with
    | some k => some (st, match Gen.calculateSlides genSlidesTable k with
        | none => "panic"
        | some row => natList (row.toList.map (·.toNat)))
    | none => none
  | "fn.slidesinit", [] =>
    some (st, match Gen.slidesInit #[] with
      | none => "panic"
      | some t => ";".intercalate (t.toList.map fun row => natList (row.toList.map (·.toNat))))
  | "fn.allmoves", ptok :: pre =>
    match pre.mapM parseGenMove with
    | some pre => some (st, withPos ptok fun p =>
        match Gen.positionAllMoves genSlidesTable p.black p.height p.white p.blackCaps p.cfg.size p.move p.whiteCaps pre.toArray with
        | none => "panic"
        | some ms => if ms.isEmpty then "-" else " ".intercalate (ms.toList.map genMoveStr))
    | none => none
  | "fn.xform", [n, k, x, y, t, sl] =>
    match n.toInt?, k.toNat?, parseGenMove s!"{x},{y},{t},{sl}" with
    | some n, some k, some m =>
      if h : k < 8 then
        some (st, match Gen.transformMove (Gen.symmetries n ⟨k, h⟩) m with
          | none => "panic"
          | some r => genMoveStr r)
      else some (st, "panic")
    | _, _, _ => none
  | "fn.termbounds", [att, ply, res] =>
    match att.toInt?, ply.toInt?, res.toInt? with
    | some att, some ply, some res =>
      some (st, match Gen.terminalBounds (BitVec.ofInt 8 att) ply (BitVec.ofInt 8 res) with
        | none => "panic"
        | some b => s!"{b.phi.toNat} {b.delta.toNat}")
    | _, _, _ => none
  | "fn.nodeflags", [f, phi, delta] =>
    match f.toInt?, phi.toNat?, delta.toNat? with
    | some f, some phi, some delta =>
      let ph := BitVec.ofNat 32 phi
      let de := BitVec.ofNat 32 delta
      some (st, s!"{b01 (Gen.nodeExpanded f)} {b01 (Gen.nodeAndNode f)} {(Gen.nodeProof de f ph).toNat} {(Gen.nodeDisproof de f ph).toNat}")
    | _, _, _ => none
  | _, _ => none

end Driver
