import Driver.OpsCore
import TakVerif.Impl.TPS
import TakVerif.Impl.ServerMove
import TakVerif.Spec.Notation

/-! Driver ops of C10 / C11 / C13 (text codecs).  Byte strings travel hex-encoded (`-` = empty). -/
namespace Driver
open Tak Codec Go

def withBytes (tok : String) (k : Bytes → String) : String :=
  match fromHex tok with
  | some b => k b
  | none => "bad-hex"

def fmtMoveR : R Move → String
  | .ok m => "ok " ++ fmtMove m
  | .error e => fmtErr e

def bit01 (b : Bool) : String := if b then "1" else "0"

/-- `ParseTPS(FormatTPS(p))` compared with `p`: `ok`, or which of equal/hash/reserves/side/move differ -/
def rtTPS (basis : Array W) (p : Pos) : String :=
  match TPS.formatTPS p with
  | .error e => "fmt-" ++ fmtErr e
  | .ok s =>
    match TPS.parseTPS basis s with
    | .error e => "parse-" ++ fmtErr e
    | .ok q =>
      let eq := q.equal p
      let h := q.hashOf == p.hashOf
      let r := q.whiteStones == p.whiteStones && q.whiteCaps == p.whiteCaps &&
               q.blackStones == p.blackStones && q.blackCaps == p.blackCaps
      let s := q.toMove == p.toMove
      let m := q.move == p.move
      if eq && h && r && s && m then "ok" else s!"diff {bit01 eq}{bit01 h}{bit01 r}{bit01 s}{bit01 m}"

/-- the three round trips and the agreement of the notations, as the real code is asked to show them -/
def rtMove (m : Move) : String :=
  let short := PTN.formatMove m false
  let long := PTN.formatMove m true
  let srv := Server.formatServer m
  let a := PTN.parseMove short
  let b := PTN.parseMove long
  let c := Server.parseServer srv
  let good (r : R Move) : Bool := match r with | .ok m' => m' == m | .error _ => false
  if good a && good b && good c then "ok" else s!"diff {bit01 (good a)}{bit01 (good b)}{bit01 (good c)}"

def handleText : Handler := fun st op args =>
  match op, args with
  | "tps", [ptok] =>
    some (st, withPos ptok fun p =>
      match TPS.formatTPS p with
      | .ok s => toHex s
      | .error e => fmtErr e)
  | "parsetps", [h] =>
    some (st, withBytes h fun b =>
      match TPS.parseTPS st.basis b with
      | .ok p => "ok " ++ fmtPos p
      | .error e => fmtErr e)
  | "rttps", [ptok] =>
    some (st, withPos ptok fun p =>
      let r := rtTPS st.basis p
      -- where the hypotheses of `C10.tps_roundtrip` hold the answer is fixed by the theorem
      if Notation.tpsHyp st.basis p && r != "ok" then "MODEL-RT-FAIL " ++ r else r)
  | "tpshyp", [ptok] => some (st, withPos ptok fun p => bit01 (Notation.tpsHyp st.basis p))
  | "canontps", [h] =>
    -- canonical TPS strings: format (parse s) must give s back
    some (st, withBytes h fun b =>
      if !Notation.canonicalTPS b then "noncanonical" else
      match TPS.parseTPS st.basis b with
      | .error e => "parse-" ++ fmtErr e
      | .ok p =>
        match TPS.formatTPS p with
        | .error e => "fmt-" ++ fmtErr e
        | .ok s => if s == b then "same" else "differs " ++ toHex s)
  | "fmtmove", [m] =>
    some (st, match parseMove m with | none => "bad-move" | some m => toHex (PTN.formatMove m false))
  | "fmtmovelong", [m] =>
    some (st, match parseMove m with | none => "bad-move" | some m => toHex (PTN.formatMove m true))
  | "fmtserver", [m] =>
    some (st, match parseMove m with | none => "bad-move" | some m => toHex (Server.formatServer m))
  | "parsemove", [h] => some (st, withBytes h fun b => fmtMoveR (PTN.parseMove b))
  | "parseserver", [h] => some (st, withBytes h fun b => fmtMoveR (Server.parseServer b))
  | "rtmove", [sz, m] =>
    some (st, match sz.toNat?, parseMove m with
      | some size, some m =>
        let r := rtMove m
        if Notation.legalShape size m && r != "ok" then "MODEL-RT-FAIL " ++ r else r
      | _, _ => "bad-move")
  -- the enumeration of the harness against the decidable predicate the theorems quantify over
  | "shape", [sz, m] =>
    some (st, match sz.toNat?, parseMove m with
      | some size, some m => bit01 (Notation.legalShape size m)
      | _, _ => "bad-move")
  | "shapecount", [sz] =>
    some (st, match sz.toNat? with
      | some size => toString ((Spec.allShapes size).filter (Notation.legalShape size)).length
      | none => "bad-op")
  | _, _ => none

end Driver
