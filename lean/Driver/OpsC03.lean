import Driver.OpsCore
namespace Driver
open Tak Codec

/-- what the Go-side `gencheck` computes on the model's list: length, `Equal` pairs, off-board entries -/
def genCheck (p : Pos) : String :=
  let ms := p.allMoves
  let rec pairs : List Move → Nat
    | [] => 0
    | m :: rest => (rest.filter (fun r => m.equal r)).length + pairs rest
  let sz : Int := p.cfg.size
  let off := (ms.filter (fun m =>
    match m.dest with
    | none => true
    | some (dx, dy) =>
      m.type < Facts.mtPlaceFlat || m.type > Facts.mtSlideDown ||
      m.x < 0 || m.x ≥ sz || m.y < 0 || m.y ≥ sz || dx < 0 || dx ≥ sz || dy < 0 || dy ≥ sz)).length
  s!"n={ms.length} dup={pairs ms} off={off}"

/-- C03 ops.  `accepts`: the Go side pushes every raw move shape through `Position.Move` and prints the
generated moves the accepted ones are `Equal` to; the model side answers with the rule-book legal set
(`Spec.legalMoves`, proved a permutation of `allMoves.filter legal` in `C03.legalMoves_perm`). -/
def handleC03 : Handler := fun st op args =>
  match op, args with
  | "acceptsq", [ptok] => some (st, withPos ptok fun p => fmtMoves (Spec.legalMoves (Spec.abs p)))
  | "accepts", [ptok] => some (st, withPos ptok fun p => fmtMoves (Spec.legalMoves (Spec.abs p)))
  | "gencheck", [ptok] => some (st, withPos ptok fun p => genCheck p)
  | _, _ => none

end Driver
