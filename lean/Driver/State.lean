import Driver.Codec
import Driver.SolverState
namespace Driver
open Tak

/-- driver state: the Zobrist basis sent by the harness; per-module session state is added by the modules -/
structure St where
  basis : Array W := Array.replicate 64 0#64
  solvers : SolverSession := {}
deriving Inhabited

/-- a handler returns `none` when the op is not its own -/
abbrev Handler := St → String → List String → Option (St × String)

end Driver
