import Driver.Codec
import Driver.SearchState
import TakVerif.Impl.Alloc
import TakVerif.Impl.Book
import TakVerif.Impl.Bot
import TakVerif.Impl.BotTimer
import TakVerif.Impl.BotCompose
import TakVerif.Impl.BotLevel
import Driver.SolverState
import TakVerif.Impl.Serve
namespace Driver
open Tak

/-- driver state: the Zobrist basis sent by the harness; per-module session state is added by the modules -/
structure St where
  basis : Array W := Array.replicate 64 0#64
  search : SearchSess := {}
  -- C09 session: heap-side and pure-side interpreter states (`Tak.HState.step` / `Tak.PState.step`, the very
  -- functions `C09.heap_refines_pure` is about) and the harness' slot -> handle table
  hs : Tak.HState := {}
  ps : Tak.PState := #[]
  slots : Array (Option Nat) := Array.replicate 16 none
  -- C04 (opening book) session: the book built by the last `book`/`realbook` op
  symBook : Option Tak.Book := none
  bot : Option Tak.Bot.Session := none      -- C07: the bot game of the current `case`
  botStale : Nat := 0                       -- C07: its armed timers nobody looks at (`Tak.Bot.Timed.stale`, Impl/BotTimer.lean)
  cbot : Option Tak.Compose.SessionL := none  -- C07 composed: the bot game (real Friendly / Taktician as Bot) of the current `case`
  solvers : SolverSession := {}           -- C06: cache of the last exactly solved game graph
  serve : Tak.Serve.Server Tak.Move := {}  -- C05serve/C15serve: the one server object of the current `case`
deriving Inhabited

/-- a handler returns `none` when the op is not its own -/
abbrev Handler := St → String → List String → Option (St × String)

end Driver
