import Driver.State
import Driver.OpsCore
import TakVerif.Generated.FuncsApply
namespace Driver
open Tak Codec

/-! `fn.*` ops of the third batch of regenerated definitions (`Generated/FuncsApply.lean`; harness/verifh/gen_fngen4.go):
`Position.analyze` and `Position.MovePreallocated` itself, evaluated on the fields of the raw position.  `none` (a Go
panic, or a loop out of its whitelist fuel) prints `panic`, a returned error `err`. -/

private def natList3 (l : List Nat) : String := if l.isEmpty then "-" else ",".intercalate (l.map toString)

private def parseGenMove3 (tok : String) : Option Gen.Move :=
  match (tok.splitOn ",").mapM String.toInt? with
  | some [x, y, t, s] => some { X := x, Y := y, Type_ := BitVec.ofInt 8 t, Slides := BitVec.ofInt 32 s }
  | _ => none

/-- the regenerated `MovePreallocated` on the fields of `p` (`nextNil`: the Go argument `next` was nil) -/
def genApply (basis : Array W) (p : Pos) (m : Gen.Move) (nextNil : Bool) :=
  Gen.movePreallocated basis p.black p.caps p.height p.cfg.size p.stacks p.standing p.white p.blackCaps p.blackStones
    p.cfg.size p.c p.hash p.move p.whiteCaps p.whiteStones m nextNil

def handleFnGen3 : Handler := fun st op args =>
  match op, args with
  | "fn.apply", ptok :: mtok :: mode :: _ =>
    match parseGenMove3 mtok with
    | none => none
    | some m => some (st, withPos ptok fun p =>
        match genApply st.basis p m (mode == "0") with
        | none => "panic"
        | some (.error _) => "err"
        | some (.ok (black, caps, height, stacks, standing, white, bg, wg, blackCaps, blackStones, hash, move, whiteCaps, whiteStones)) =>
          let q : Pos :=
            { p with
              black := black, caps := caps, height := height, stacks := stacks, standing := standing,
              white := white, bgroups := bg.toList, wgroups := wg.toList, blackCaps := blackCaps,
              blackStones := blackStones, hash := hash, move := move, whiteCaps := whiteCaps, whiteStones := whiteStones }
          "ok " ++ fmtPos q)
  | "fn.analyze", [ptok] =>
    some (st, withPos ptok fun p =>
      match Gen.positionAnalyze p.black p.standing p.white p.c with
      | none => "panic"
      | some (bg, wg) => natList3 (wg.toList.map (·.toNat)) ++ " " ++ natList3 (bg.toList.map (·.toNat)))
  | _, _ => none

end Driver
