import Driver.OpsCore
import TakVerif.Impl.Symmetry
import TakVerif.Impl.Evaluate
/-! Driver ops of the search properties (C04 alpha-beta part, C05, C16). -/
namespace Driver
open Tak Codec Search

/-- `k=v,k=v,…` -/
def kvs (tok : String) : List (String × String) :=
  (tok.splitOn ",").filterMap fun kv =>
    match kv.splitOn "=" with
    | [k, v] => some (k, v)
    | _ => none

def kvNat (l : List (String × String)) (k : String) (d : Nat) : Nat :=
  match l.lookup k with
  | some v => v.toNat?.getD d
  | none => d

def kvInt (l : List (String × String)) (k : String) (d : Int) : Int :=
  match l.lookup k with
  | some v => v.toInt?.getD d
  | none => d

/-- configuration token: `d` depth, `tbl` table entries (-1 none), `sort null red mc dd` option switches in the
*positive* sense (1 = feature on), `me` MaxEvals, `rw`/`rs` randomise window/scale, `ev` evaluator. -/
def parseCfg (tok : String) : Search.Cfg × String :=
  let l := kvs tok
  let d := kvInt l "d" 0
  let tbl := kvInt l "tbl" (-1)
  let rs := kvInt l "rs" 0
  ({ depth := if d == 0 then Facts.maxDepth else d
     maxEvals := kvNat l "me" 0
     tableEntries := if tbl < 0 then none else some tbl.toNat
     randomizeWindow := kvInt l "rw" 0
     randomizeScale := if rs == 0 then 1 else rs
     opts := { noSort := kvNat l "sort" 0 == 0
               noNullMove := kvNat l "null" 0 == 0
               noReduceSlides := kvNat l "red" 0 == 0
               multiCut := kvNat l "mc" 0 == 1
               dedupSymmetry := kvNat l "dd" 0 == 1 } },
   (l.lookup "ev").getD "w")

/-- `nil` / `def`: the engine's built-in evaluator (`MinimaxConfig.Evaluate == nil` resp. `MakeEvaluator(size, nil)`),
the model of `ai/evaluate.go` with the default weights of the board size (C18) -/
def evalDefault (p : Pos) : Int :=
  match evaluateDefault p.c p with
  | .ok v => v
  | .error _ => 0

def evalOf (name : String) : Pos → Int :=
  if name == "m" then Search.evalMat
  else if name == "nil" || name == "def" then evalDefault
  else Search.evalWinner

/-- hashes of the symmetric images as `pvSearch` puts them into its de-duplication cache:
`syms, _ := symmetry.Symmetries(child); for _, ps := range syms { cache[ps.P.Hash()] }` (an error gives no images) -/
def symHashesOf (basis : Array W) (p : Pos) : List Search.H :=
  match Tak.symmetries basis p with
  | .ok l => l.map (fun x => x.1.hashOf)
  | .error _ => []

def gameOf (st : St) (ev : String) : Game Pos Move := takGame st.basis (evalOf ev) (symHashesOf st.basis)

/-- cancel oracle of the harness: the flag is set inside the k-th leaf evaluation (k = 0: never) -/
def oracleOf (k : Nat) : Oracle Move :=
  { cancel := fun _ evals => k != 0 && evals ≥ k, order := fun _ l => l, rnd := fun _ _ => 0 }

/-! digests of engine state (computed identically by the harness) -/

def mix (h x : UInt64) : UInt64 := (h ^^^ x) * 1099511628211

def intWord (v : Int) : UInt64 := UInt64.ofNat (v % 18446744073709551616).toNat

def moveWord (m : Move) : UInt64 :=
  UInt64.ofNat ((m.x % 256).toNat ||| ((m.y % 256).toNat <<< 8) ||| (m.type <<< 16) ||| (m.slides.toNat <<< 24))

def digTable (t : Array (TEntry Move)) : String :=
  let (n, h, _) := t.foldl (fun (acc : Nat × UInt64 × Nat) e =>
    let (n, h, i) := acc
    if e.hash == 0#64 && e.value == (0 : Int) && e.bound == 0 && e.depth == (0 : Int) && moveWord e.m == 0 then (n, h, i + 1)
    else
      let h := mix h (UInt64.ofNat i)
      let h := mix h (UInt64.ofNat e.hash.toNat)
      let h := mix h (intWord e.value)
      let h := mix h (moveWord e.m)
      let h := mix h (UInt64.ofNat e.bound)
      let h := mix h (intWord e.depth)
      (n + 1, h, i + 1)) (0, 14695981039346656037, 0)
  s!"{n}:{h}"

def digResp (r : List (Move × Move)) : String :=
  let h := r.foldl (fun (acc : UInt64) kv => acc + mix (mix 14695981039346656037 (moveWord kv.1)) (moveWord kv.2)) 0
  s!"{r.length}:{h}"

def digFrames (e : Eng Move) : String :=
  let h := e.pv0.foldl (fun h m => mix h (moveWord m)) 14695981039346656037
  let h := e.stackM.foldl (fun h m => mix h (moveWord m)) h
  toString h

def fmtEng (e : Eng Move) : String :=
  s!"tt={digTable e.table} rs={digResp e.response} fr={digFrames e}"

def fmtPV (l : List Move) : String :=
  if l.isEmpty then "-" else ";".intercalate (l.map fmtMove)

def fmtStats (s : Stats) : String :=
  s!"d={s.depth} c={if s.canceled then 1 else 0} st={s.evaluated},{s.scout},{s.terminal},{s.visited},{s.cutNodes},{s.nullSearch},{s.nullCut},{s.cut0},{s.cut1},{s.cutSearch},{s.reSearch},{s.allNodes},{s.ttHits},{s.ttShortcut},{s.reducedSlides},{s.mcSearch},{s.mcCut}"

def fmtAnalyze (r : Except Err ((List Move × Int × Stats) × Eng Move)) : String :=
  match r with
  | .error e => fmtErr e
  | .ok ((pv, v, st), e) => s!"pv={fmtPV pv} v={v} {fmtStats st} {fmtEng e}"

def slotGet (st : St) (name : String) : Option EngSlot := st.search.slots.lookup name

def slotPut (st : St) (name : String) (sl : EngSlot) : St :=
  { st with search := { slots := (name, sl) :: st.search.slots.filter (fun kv => kv.1 != name) } }

def moveSort (l : List Move) : List Move := (l.toArray.qsort moveLt).toList

/-- spec side of `allbest`: the first moves whose child value attains the negamax value -/
def bestFirstMoves (g : Game Pos Move) (d : Nat) (p : Pos) : List Move :=
  match d with
  | 0 => []
  | d + 1 =>
    let v := negamax g (d + 1) p
    ((kids g p).filter (fun c => -(negamax g d c.2) == v)).map (·.1)

def decisive (v : Int) : Int := if v > Facts.winThreshold then 1 else if v < -Facts.winThreshold then -1 else 0

def handleSearch : Handler := fun st op args =>
  match op, args with
  -- fresh engine, one Analyze; optional cancellation inside the k-th leaf evaluation
  | "search", ctok :: ptok :: rest =>
    let k := match rest with | [k] => k.toNat?.getD 0 | _ => 0
    some (st, withPos ptok fun p =>
      let (cfg, ev) := parseCfg ctok
      let g := gameOf st ev
      fmtAnalyze (analyze g cfg (oracleOf k) p (Eng.new g cfg)))
  | "eng", [name, ctok] =>
    let (cfg, ev) := parseCfg ctok
    some (slotPut st name { cfg := cfg, ev := ev, eng := Eng.new (gameOf st ev) cfg }, "ok")
  | "an", name :: ptok :: rest =>
    let k := match rest with | [k] => k.toNat?.getD 0 | _ => 0
    match slotGet st name, parsePos ptok with
    | some sl, some (p, true) =>
      let g := gameOf st sl.ev
      -- take the engine out of the session first so that its arrays are not shared
      let eng := sl.eng
      let st := slotPut st name { sl with eng := default }
      match analyze g sl.cfg (oracleOf k) p eng with
      | .error e => some (st, fmtErr e)
      | .ok (r, eng) => some (slotPut st name { sl with eng := eng }, fmtAnalyze (.ok (r, eng)))
    | none, _ => some (st, "bad-slot")
    | _, _ => some (st, "bad-pos")
  | "gm", name :: ptok :: rest =>
    let k := match rest with | [k] => k.toNat?.getD 0 | _ => 0
    match slotGet st name, parsePos ptok with
    | some sl, some (p, true) =>
      let g := gameOf st sl.ev
      let eng := sl.eng
      let st := slotPut st name { sl with eng := default }
      match getMove g sl.cfg (oracleOf k) p eng with
      | .error e => some (st, fmtErr e)
      | .ok (m, eng) => some (slotPut st name { sl with eng := eng }, s!"m={fmtMove m} {fmtEng eng}")
    | none, _ => some (st, "bad-slot")
    | _, _ => some (st, "bad-pos")
  | "aa", [name, ptok] =>
    match slotGet st name, parsePos ptok with
    | some sl, some (p, true) =>
      let g := gameOf st sl.ev
      let eng := sl.eng
      let st := slotPut st name { sl with eng := default }
      match analyzeAll g sl.cfg (oracleOf 0) p eng with
      | .error e => some (st, fmtErr e)
      | .ok ((pvs, v, stt), eng) =>
        some (slotPut st name { sl with eng := eng },
          s!"pvs={"|".intercalate (pvs.map fmtPV)} v={v} {fmtStats stt} {fmtEng eng}")
    | none, _ => some (st, "bad-slot")
    | _, _ => some (st, "bad-pos")
  -- what a precise table-less Analyze must report: exhaustive negamax, iteratively deepened
  | "sval", [ctok, ptok] =>
    some (st, withPos ptok fun p =>
      let (cfg, ev) := parseCfg ctok
      let g := gameOf st ev
      if g.over p then "v=0 d=0" else
      let (v, d) := analyzeSpec g cfg.depth.toNat p cfg.depth.toNat 1
      s!"v={v} d={d}")
  -- the first move of a reported PV attains the reported value (claim of the real code: 1)
  | "attains", [ev, d, ptok, mtok, v] =>
    some (st, withPos ptok fun p =>
      match parseMove mtok, d.toNat?, v.toInt? with
      | some m, some (d + 1), some v =>
        let g := gameOf st ev
        match g.apply p m with
        | .ok c => if -(negamax g d c) == v then "1" else "0"
        | .error _ => "0"
      | _, _, _ => "bad-args")
  -- AnalyzeAll lists exactly the first moves that attain the value
  | "allbest", [ctok, ptok] =>
    some (st, withPos ptok fun p =>
      let (cfg, ev) := parseCfg ctok
      let g := gameOf st ev
      if g.over p then "v=0 d=0 first=-" else
      let (v, d) := analyzeSpec g cfg.depth.toNat p cfg.depth.toNat 1
      s!"v={v} d={d} first={fmtMoves (bestFirstMoves g d p)}")
  -- verdict check of a reported value `v` at reported depth `d` (winner-only evaluation):
  -- a forced result within d must be reported; a reported result must be forced within d+margin
  | "verdict", [d, margin, ptok, v] =>
    some (st, withPos ptok fun p =>
      match d.toNat?, margin.toNat?, v.toInt? with
      | some d, some margin, some v =>
        let g := gameOf st "w"
        let truth := decisive (negamax g d p)
        if truth != 0 && decisive v != truth then "missed"
        else if decisive v != 0 && truth == 0 then
          if (List.range margin).any (fun k => decisive (negamax g (d + 1 + k) p) == decisive v) then "ok"
          else if (List.range margin).any (fun k => decisive (negamax g (d + 1 + k) p) == -(decisive v)) then "unsound"
          else "ok"
        else "ok"
      | _, _, _ => "bad-args")
  | "anq", _ => some (st, "ok")
  -- real-context cancellation (context -> watcher goroutine -> flag): the flag's arrival time is the scheduler's, so
  -- the harness prints the property-level comparison; `C16.cancel_truncates` (for every monotone oracle) makes "ok"
  -- the required answer, and a context of an earlier, finished call is no part of a later call's oracle
  | "ctxc", _ => some (st, "ok")
  | "ctxprev", _ => some (st, "ok")
  | "gmprev", _ => some (st, "ok")
  -- race-detector run of the repository's cancel tests (supporting evidence only; no model side)
  | "racecheck", _ => some (st, "ok")
  | "eqclaim", [a, b] => some (st, if a == b then "1" else "0")
  -- claims of C04 (the harness prints what the real engine did; the model side is the claim itself)
  | "c04", _ => some (st, "legal pvok")
  | "c04mem", _ => some (st, "legal")
  | "c04s", _ :: name :: _ => some (st, if (slotGet st name).isSome then "legal pvok" else "bad-slot")
  | "slegalmem", [ptok, mtok] =>
    some (st, withPos ptok fun p =>
      match parseMove mtok with
      | some m => if (Spec.legalMoves (Spec.abs p)).any (fun x => x == m) then "1" else "0"
      | none => "bad-move")
  | "negamax", [ev, d, ptok] =>
    some (st, withPos ptok fun p =>
      match d.toNat? with
      | some d => toString (negamax (gameOf st ev) d p)
      | none => "bad-args")
  | _, _ => none

end Driver
