import Driver.OpsTEI
import TakVerif.Impl.TEIClient
namespace Driver
open Tak Codec Tak.TEI Tak.TEIClient

/-! ops `teicl depth step…`, `teiscr size pos hexreply eof`, `fmttime ns` (C17, client side):
the model of `tei/client.go` composed with the model of `tei/server.go` (or with a scripted engine). -/

private def fmtR {α} (f : α → String) : R α → String
  | .ok a => f a
  | .error e => fmtErr e

/-- the searcher as the harness observed it for this request (`-`: it was not asked / printed nothing).
The answer is taken as it is: whether it is legal is the searcher's contract (C04, checked on the engine
side by the `tei` ops); here the client has to hand on whatever the engine printed, and the legality of the
returned move *in the caller's position* is reported next to it by both sides (`legal=`). -/
private def oracleSearch (_basis : Array W) (oracle : String) : Nat → Pos → Option Int → SearchRes :=
  fun _ _ _ =>
    match (if oracle == "-" then none else parseOracle oracle) with
    | some r => r
    | none => { depth := 0, elapsedMs := 0, nodes := 0, val := 0, pv := [] }

private def clientEnv (basis : Array W) (oracle : String) : Env :=
  realEnv basis (oracleSearch basis oracle)

private def parseTC (s : String) : Option (Option TimeControl) :=
  if s == "-" then some none else
  match (s.splitOn ",").mapM String.toInt? with
  | some [w, b, wi, bi] => some (some { white := w, black := b, winc := wi, binc := bi })
  | _ => none

private def parseRem (s : String) : Option (Option Int) :=
  if s == "-" then some none else s.toInt?.map some

structure ClSess where
  conn : Conn EngSt := { eng := {} }
  players : Array Player := #[]
  out : List String := []
  stopped : Bool := false

private def stepOut (c : Conn EngSt) (res : String) (same : String) : String :=
  let dl := match c.eng.deadline with | none => "-" | some d => toString d
  s!"[{"~".intercalate c.wrote}] {res} dl={dl} same={same}"

/-- one step of a `teicl` line -/
private def clStep (basis : Array W) (s : ClSess) (step : String) : Option ClSess :=
  if s.stopped then some s else
  -- per-step observation window: lines written and deadline installed during this step
  let c0 : Conn EngSt := { s.conn with wrote := [], eng := { s.conn.eng with deadline := none } }
  let noOracle := serverPeer (clientEnv basis "-")
  if step == "hs" then
    let (c, r) := handshake noOracle c0
    let res := "hs=" ++ fmtR (fun _ => "ok") r
    some { s with conn := c, out := s.out ++ [stepOut c res "-"], stopped := res.endsWith "panic" || res.endsWith "hang" }
  else if step.startsWith "ng" then
    match (step.drop 2).toString.toInt? with
    | none => none
    | some size =>
      let (c, r) := newGame noOracle c0 size
      let res := "ng=" ++ fmtR (fun _ => "ok") r
      let players := match r with | .ok p => s.players.push p | .error _ => s.players
      some { s with conn := c, players := players, out := s.out ++ [stepOut c res "-"],
                    stopped := res.endsWith "panic" || res.endsWith "hang" }
  else
    match step.splitOn ":" with
    | ["mv", pl, pos, rem, tc, oracle] =>
      match pl.toNat?, parsePos pos, parseRem rem, parseTC tc with
      | some pl, some (pos, _), some rem, some tc =>
        match s.players[pl]? with
        | none => some { s with out := s.out ++ ["no-player"] }
        | some player =>
          let (c, r) := teiGetMove (serverPeer (clientEnv basis oracle)) c0 player pos rem tc
          let res := match r with
            | .ok m => "ok " ++ fmtMove m ++ " legal=" ++ (if (pos.apply basis m).isOk then "1" else "0")
            | .error e => fmtErr e
          let stopped := res.endsWith "panic" || res.endsWith "hang"
          let same :=
            if stopped || !c.alive then "-" else
            match c.eng.st.pos with
            | none => "-"
            | some q => if fmtPos q == fmtPos pos then "1" else "0"
          -- C17 itself: when the engine held exactly the caller's position, the move it names must be legal there
          -- (searcher contract, C04); the model does not reproduce an illegal answer, so the lines differ
          let res := if same == "1" && res.endsWith "legal=0" then res ++ " <searcher-contract-broken>" else res
          some { s with conn := c, out := s.out ++ [stepOut c res same], stopped := stopped }
      | _, _, _, _ => none
    | _ => none

private def engineClass (e : EngSt) : String :=
  match e.exit with
  | none => "ok"           -- still running at the end of the script: the harness closes its input, `Run` returns nil
  | some x => fmtExit x

/-- the scripted engine of `teiscr`: swallows every line, answers each line starting with `go` with the
given complete lines and then closes (`eof`) or keeps waiting -/
private def scriptedPeer (reply : List String) (eof : Bool) : Peer Unit :=
  { feed := fun _ line => if line.startsWith "go" then ((), reply, !eof) else ((), [], true) }

def handleTEIClient : Handler := fun st op args =>
  match op, args with
  | "fmttime", [v] =>
    match v.toInt? with
    | some d => some (st, str (formatTime d))
    | none => some (st, "bad-op")
  | "teicl", _depth :: steps =>
    match steps.foldlM (clStep st.basis) ({} : ClSess) with
    | some s => some (st, " | ".intercalate (s.out ++ ["engine=" ++ engineClass s.conn.eng]))
    | none => some (st, "bad-op")
  | "teiscr", [size, pos, hex, eof] =>
    match size.toInt?, parsePos pos, Go.fromHex hex with
    | some size, some (pos, _), some bytes =>
      let lines := (linesAux (chars bytes) [] []).map String.ofList
      let P := scriptedPeer lines (eof == "1")
      let c0 : Conn Unit := { eng := () }
      match newGame P c0 size with
      | (_, .error (.panic _)) => some (st, "panic")
      | (_, .error _) => some (st, "ng=err")
      | (c, .ok pl) =>
        let (_, r) := teiGetMove P c pl pos none none
        some (st, match r with | .ok m => "ok " ++ fmtMove m | .error e => fmtErr e)
    | _, _, _ => some (st, "bad-op")
  | _, _ => none

end Driver
