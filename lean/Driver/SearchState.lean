import TakVerif.Impl.Minimax
namespace Driver
open Tak Search

/-- one engine kept between ops of a `case`: its configuration, evaluator name and state -/
structure EngSlot where
  cfg : Search.Cfg
  ev : String
  eng : Search.Eng Tak.Move
deriving Inhabited

/-- session state of the search ops (reset by `case`) -/
structure SearchSess where
  slots : List (String × EngSlot) := []
deriving Inhabited

end Driver
