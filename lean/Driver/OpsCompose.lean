import Driver.OpsBot
import Driver.OpsGlue
import TakVerif.Impl.BotCompose
import TakVerif.Impl.BotLevel
import TakVerif.Impl.TextGlue
/-! C07 composed ops: the model side of `harness/verifh/ops_compose.go` — the bot loop with the real `Friendly` /
`Taktician` as its `Bot` (`Impl/BotCompose.lean`), the searching player a stub answering what `cev answer` says. -/
namespace Driver
open Tak Codec Tak.Bot Tak.Glue Tak.FPA Tak.Compose

def cStatus (s : Compose.St Unit Move) : String :=
  if s.dead.isSome then "tpanic" else botStatus s.b

def fmtWire : Wire → String
  | .bot c => fmtCmd c
  | .resign => "R"
  | .tell msg => "T:" ++ glueMsg msg

def cIn (s : Compose.St Unit Move) : String :=
  match s.inside with
  | none => "-"
  | some call =>
    let canc := match Compose.thinkerAt s.b call.k with
      | some t => if t.cancelled then 1 else 0
      | none => 0
    let kind := match call.act with | .think _ _ => "think" | _ => "resign"
    s!"{kind}:{call.pos.move}:{call.pos.hashOf.toNat}:{canc}"

def fmtReply : LevelReply → Int → String
  | .max, _ => "max"
  | .unknown, _ => "unknown"
  | .future, l => s!"future:{l}"
  | .now, l => s!"now:{l}"
  | .bad, _ => "bad"

def fmtWireL : WireL → String
  | .base w => fmtWire w
  | .reply toOpp r l => "L:" ++ (if toOpp then "o" else "x") ++ ":" ++ fmtReply r l
  | .help toOpp l => "L:" ++ (if toOpp then "o" else "x") ++ s!":help:{l}"

/-- `f.level`, how often `f.ai` was rebuilt, the `Depth` of the engine built last (after `NewMinimax`'s `0 ↦ maxDepth`),
the build of the `f.ai` object the search in progress runs on -/
def cLv (b : Compose.SessionL) : String :=
  match b.c.who with
  | .taktician _ => "-"
  | .friendly _ =>
    let L := b.L
    let depth : Int := match L.builtLevel with
      | none => -1
      | some l => match levelDepth l with
        | .ok d => if d == 0 then Facts.maxDepth else (d : Int)
        | .error _ => -2
    let gen := match L.s.inside with
      | some call => (match call.act with | .think _ _ => toString L.insideGen | _ => "-")
      | none => "-"
    s!"{L.level}:{L.built}:{depth}:{gen}"

def cSummary (b : Compose.SessionL) (r : String) : String :=
  let s := b.L.s
  if b.noGame then s!"{cStatus s} nogame r={r}" else
  let last := match b.L.wire.getLast? with | some c => fmtWireL c | none => "-"
  s!"{cStatus s} n={s.b.positions.length} m={s.b.moves.length} h={s.b.p.hashOf.toNat} w={b.L.wire.length}:{last} in={cIn s} c={s.entered} lv={cLv b} r={r}"

def cFull (b : Compose.SessionL) : String :=
  let s := b.L.s
  if b.noGame then s!"{cStatus s} nogame" else
  let res := if s.b.result.isEmpty then "-" else hexOf s.b.result
  let ps := s.b.positions.reverse.map (fun p => s!"{p.move}:{p.hashOf.toNat}")
  let ms := s.b.moves.reverse.map fmtMove
  let notes := if s.dead.isSome then "-" else match s.fpa with
    | none => "-"
    | some (_, r) =>
      s!"bp={r.blackPlaceX},{r.blackPlaceY};wp={r.whitePlaceX},{r.whitePlaceY};bt={r.blackTmpX},{r.blackTmpY};wt={r.whiteTmpX},{r.whiteTmpY}"
  s!"{cStatus s} result={res} pos={joinSemi ps} moves={joinSemi ms} p={s.b.p.hashOf.toNat} times={s.b.mine},{s.b.theirs} wire={joinSemi (b.L.wire.map fmtWireL)} in={cIn s} c={s.entered} notes={notes}"

def handleCompose : Handler := fun st op args =>
  match op, args with
  | "cbotnew", kind :: arg :: colour :: size :: secs :: gameNo :: rest =>
    match size.toNat?, secs.toInt? with
    | some size, some secs =>
      let color := if colour == "w" then Color.white else if colour == "b" then Color.black else Color.none
      let who? : Option Who :=
        if kind == "F" then (glueVariant arg).map Who.friendly
        else if kind == "T" then
          match arg.splitOn ":" with
          | [l, u] => l.toInt?.map fun lim => Who.taktician { limit := lim, useOpponentTime := u == "1" }
          | _ => none
        else none
      match who? with
      | none => some (st, "bad-op")
      | some who =>
        let guard := auxOf rest "v=" != some "pinned"
        let bcfg : Bot.Conf := { basis := st.basis, color := color, gameStr := "Game#" ++ gameNo, fixed := true }
        let c : Compose.Conf := { bot := bcfg, size := size, who := who, guard := guard, observe := colour == "o" }
        let L0 : Compose.StL Unit Move := Compose.startL c secs (fun _ => ()) Facts.defaultLevel
        let noGame := L0.s.b.status != .running
        let chk : CheckOracle := { curV := 0, curDepth := 3, prevV := 0 }
        let b : Compose.SessionL :=
          { c := c, L := if noGame then L0 else Compose.settleLN c stubSearcher chk 2000 L0, chk := chk, noGame := noGame }
        some ({ st with cbot := some b, bot := none }, cSummary b "new")
    | _, _ => some (st, "bad-op")
  | "cchk", [a, b, d] =>
    match st.cbot, a.toInt?, b.toInt?, d.toInt? with
    | some s, some a, some b, some d => some ({ st with cbot := some { s with chk := { curV := a, curDepth := b, prevV := d } } }, "ok")
    | _, _, _, _ => some (st, "nobot")
  | "cstate", _ =>
    match st.cbot with
    | none => some (st, "nobot")
    | some b => some (st, cFull b)
  | "cev", kind :: rest =>
    match st.cbot with
    | none => some (st, "nobot")
    | some b =>
      let fin (L : Compose.StL Unit Move) (r : String) : Option (St × String) :=
        let b' := { b with L := L }
        some ({ st with cbot := some b' }, cSummary b' r)
      if b.L.s.dead.isSome then fin b.L "dead" else
      let alive := b.L.s.b.status = .running
      let goL (e : Compose.EvL Move) := Compose.tieStepL b.c stubSearcher (fun _ => ()) b.chk b.L e
      let go (e : Compose.Ev Move) := goL (.base e)
      match kind, rest with
      | "deliver", h :: aux =>
        match (if h == "-" then some "" else (unhex h).bind String.fromUTF8?) with
        | none => some (st, "bad-op")
        | some line =>
          let parsed := match auxOf aux "mv=" with
            | some tok => parseMove tok
            | none => none
          if !alive then fin b.L "gone" else
          -- a line `Tell <who> msg` (what `playtak.ParseTell` accepts) goes to `Bot.HandleTell` first
          let tell? : Option (String × String) :=
            match TextGlue.parseTell TextGlue.regexpInst line.toUTF8.toList with
            | .ok [who, msg] =>
              if who.isEmpty then none else
              match String.fromUTF8? (ByteArray.mk who.toArray), String.fromUTF8? (ByteArray.mk msg.toArray) with
              | some w, some m => some (w, m)
              | _, _ => none
            | _ => none
          match tell? with
          | some (who, msg) => fin (goL (.tell who msg)) "ok"
          | none => fin (go (.deliver (line.splitOn " ") parsed)) "ok"
      | "close", _ => if !alive then fin b.L "gone" else fin (go .close) "ok"
      | "timer", _ =>
        let fired := alive ∧ b.L.s.b.timeout = true
        fin (go .timerFires) (if fired then "fired" else "idle")
      | "answer", [mtok] =>
        match parseMove mtok with
        | none => some (st, "bad-move")
        | some m =>
          if b.noGame then fin b.L "noai" else
          match b.L.s.inside with
          | some call =>
            match call.act with
            | .think _ _ =>
              let canc := match Compose.thinkerAt b.L.s.b call.k with
                | some t => if t.cancelled then 1 else 0
                | none => 0
              fin (go (.leave call.k m)) s!"ai:{call.pos.move}:{canc}"
            | _ => fin b.L "noai"
          | none => fin b.L "noai"
      | _, _ => some (st, "bad-op")
  | _, _ => none

end Driver
