import Driver.State
/-! C07 ops: the model side of the lock-step schedule (`harness/verifh/ops_bot.go`). -/
namespace Driver
open Tak Codec Tak.Bot

private def hexVal (c : Char) : Option Nat :=
  if '0' ≤ c ∧ c ≤ '9' then some (c.toNat - 48)
  else if 'a' ≤ c ∧ c ≤ 'f' then some (c.toNat - 87)
  else if 'A' ≤ c ∧ c ≤ 'F' then some (c.toNat - 55)
  else none

def unhex (s : String) : Option ByteArray :=
  let rec go : List Char → ByteArray → Option ByteArray
    | [], acc => some acc
    | [_], _ => none
    | a :: b :: r, acc => do
      let x ← hexVal a
      let y ← hexVal b
      go r (acc.push (UInt8.ofNat (x * 16 + y)))
  go s.toList ByteArray.empty

private def hexDigit (n : Nat) : Char := if n < 10 then Char.ofNat (48 + n) else Char.ofNat (87 + n)

def hexOf (s : String) : String :=
  String.ofList (s.toUTF8.toList.flatMap (fun b => [hexDigit (b.toNat / 16), hexDigit (b.toNat % 16)]))

def botStatus (s : Bot.St) : String :=
  match s.status with
  | .running => "run"
  | .ended => "end"
  | .crashed _ => "panic"

def fmtCmd : Cmd → String
  | .move m => "mv:" ++ fmtMove m
  | .requestUndo => "U"

def thinkerAt (s : Bot.St) (k : Nat) : Option Thinker := (thinkers s)[k]?

def botAi (s : Bot.St) : String :=
  match runningIdx s with
  | none => "-"
  | some k =>
    match thinkerAt s k with
    | none => "-"
    | some t => s!"{t.pos.move}:{t.pos.hashOf.toNat}:{t.mine}:{t.theirs}:{if t.cancelled then 1 else 0}"

def botSummary (b : Session) (r : String) : String :=
  let s := b.st
  if b.noGame then s!"{botStatus s} nogame r={r}" else
  let last := match s.sent.getLast? with | some c => fmtCmd c | none => "-"
  s!"{botStatus s} n={s.positions.length} m={s.moves.length} h={s.p.hashOf.toNat} sent={s.sent.length}:{last} ai={botAi s} r={r}"

def joinSemi (l : List String) : String := if l.isEmpty then "-" else ";".intercalate l

def botFull (b : Session) : String :=
  let s := b.st
  if b.noGame then s!"{botStatus s} nogame" else
  let res := if s.result.isEmpty then "-" else hexOf s.result
  let ps := s.positions.reverse.map (fun p => s!"{p.move}:{p.hashOf.toNat}")
  let ms := s.moves.reverse.map fmtMove
  let over := if s.status = .running then 0 else 1
  s!"{botStatus s} result={res} pos={joinSemi ps} moves={joinSemi ms} p={s.p.hashOf.toNat} times={s.mine},{s.theirs} sent={joinSemi (s.sent.map fmtCmd)} ai={botAi s} over={over}"

def auxOf (args : List String) (pre : String) : Option String :=
  (args.find? (·.startsWith pre)).map (fun x => (x.drop pre.length).toString)

def handleBot : Handler := fun st op args =>
  match op, args with
  | "case", _ => some ({ st with bot := none, botStale := 0 }, "ok")
  | "botnew", colour :: size :: secs :: gameNo :: rest =>
    match size.toNat?, secs.toInt? with
    | some size, some secs =>
      let color := if colour == "w" then Color.white else if colour == "b" then Color.black else Color.none
      let fixed := auxOf rest "v=" != some "pinned"
      let cfg : Bot.Conf := { basis := st.basis, color := color, gameStr := "Game#" ++ gameNo, fixed := fixed }
      let s0 := start cfg size secs
      let noGame := s0.status != .running
      let b : Session := { cfg := cfg, st := if noGame then s0 else settle cfg s0, noGame := noGame }
      some ({ st with bot := some b, botStale := 0 }, botSummary b "new")
    | _, _ => some (st, "bad-op")
  | "state", _ =>
    match st.bot with
    | none => some (st, "nobot")
    | some b => some (st, botFull b)
  | "ev", kind :: rest =>
    match st.bot with
    | none => some (st, "nobot")
    | some b =>
      let fin (s : Bot.St) (r : String) : Option (St × String) :=
        let b' := { b with st := s }
        some ({ st with bot := some b' }, botSummary b' r)
      -- the timed system (Impl/BotTimer.lean): every op is one `ttieStep`
      let t : Timed := { st := b.st, stale := st.botStale }
      let finT (t' : Timed) (r : String) : Option (St × String) :=
        let b' := { b with st := t'.st }
        some ({ st with bot := some b', botStale := t'.stale }, botSummary b' r)
      let alive := b.st.status = .running
      match kind, rest with
      | "deliver", h :: aux =>
        match (if h == "-" then some "" else (unhex h).bind String.fromUTF8?) with
        | none => some (st, "bad-op")
        | some line =>
          let parsed := match auxOf aux "mv=" with
            | some tok => parseMove tok
            | none => none
          let accept := auxOf aux "a=" == some "1"
          if !alive then fin b.st "gone"
          else finT (ttieStep b.cfg t (.ev (.deliver (line.splitOn " ") parsed accept))) "ok"
      | "close", _ =>
        if !alive then fin b.st "gone" else finT (ttieStep b.cfg t (.ev .close)) "ok"
      | "aireturns", [mtok] =>
        match parseMove mtok with
        | none => some (st, "bad-move")
        | some m =>
          if b.noGame then fin b.st "noai" else
          match runningIdx b.st with
          | none => fin b.st "noai"
          | some k =>
            let r := match thinkerAt b.st k with
              | some t => s!"ai:{t.pos.move}:{if t.cancelled then 1 else 0}"
              | none => "ai:?"
            finT (ttieStep b.cfg t (.ev (.aiReturns k m))) r
      | "timer", _ => finT (ttieStep b.cfg t .expire) (expireResult t)
      | "drain", _ => finT (drain b.cfg t) s!"drained:{t.stale}:{if live t.st then 1 else 0}"
      | _, _ => some (st, "bad-op")
  | _, _ => none

end Driver
