import Driver.OpsCore
import TakVerif.Impl.DFPN
import TakVerif.Spec.GameTruth

/-! C06 ops: the model's proof-number solvers, and the comparison of their verdicts with the
game-theoretic truth (`truth=…` field; the real code prints the constant `truth=ok`). -/
namespace Driver
open Tak Codec Tak.Truth

def fmtOptMove : Option Move → String
  | some m => fmtMove m
  | none => "0,0,0,0"

def evalStr : Tak.PN.Eval → String
  | .unknown => "unknown" | .proven => "proven" | .disproven => "disproven"

def parseColor : String → Color
  | "W" => .white | "B" => .black | _ => .none

/-- `uint32(float64(δ₂) * (1.0 + epsilon))` -/
def dfpnScale (d : UInt32) : UInt32 := (Float.ofNat d.toNat * 1.1).toUInt32

def solverFuel : Nat := 4000000000

inductive TruthMode where
  | off
  | graph
  | explore (cap : Nat)
  | bounded (d : Nat)

def parseTruthMode (s : String) : Option TruthMode :=
  if s == "n" then some .off
  else if s == "g" then some .graph
  else if s.startsWith "x" then (s.drop 1).toNat?.map .explore
  else if s.startsWith "b" then (s.drop 1).toNat?.map .bounded
  else none

def buildGraph (basis : Array W) (cap : Nat) (p : Pos) : Option SolverGraph :=
  let G := Tak.PN.takGame basis
  match explore G takKey cap p with
  | none => none
  | some e =>
    some { rootKey := takKey p, cap := cap, index := e.index, winW := solve G e .white, winB := solve G e .black }

def graphLookup (g : SolverGraph) (att : Color) (p : Pos) : Option Tri :=
  match g.index[takKey p]? with
  | none => none
  | some i =>
    let w := if att == .white then g.winW.getD i false else g.winB.getD i false
    some (if w then .win else .loss)

/-- the truth oracle for one op: `Pos → (plies already played below the root) → Tri`, or why there is none -/
def truthOracle (st : St) (mode : TruthMode) (att : Color) (root : Pos) : Except String (Pos → Nat → Tri) :=
  match mode with
  | .off => .ok (fun _ _ => .open)
  | .graph =>
    match st.solvers.graph with
    | none => .error "nograph"
    | some g =>
      match graphLookup g att root with
      | none => .error "nograph"
      | some _ => .ok (fun p _ => (graphLookup g att p).getD .open)
  | .explore cap =>
    match buildGraph st.basis cap root with
    | none => .error "toolarge"
    | some g => .ok (fun p _ => (graphLookup g att p).getD .open)
  | .bounded d => .ok (fun p k => bounded (Tak.PN.takGame st.basis) att (d - k) p)

/-- compare a verdict (and the move returned with it) with the truth -/
def truthField (st : St) (mode : TruthMode) (att : Color) (root : Pos)
    (verdict : Tak.PN.Eval) (move : Option Move) : String :=
  match truthOracle st mode att root with
  | .error e => "truth=" ++ e
  | .ok t =>
    match verdict with
    | .unknown => "truth=ok"
    | .disproven => if t root 0 == .win then "truth=bad:disproven-but-attacker-wins" else "truth=ok"
    | .proven =>
      if t root 0 == .loss then "truth=bad:proven-but-no-forced-win" else
      match move with
      | none => "truth=ok"
      | some m =>
        match root.apply st.basis m with
        | .error _ => "truth=bad:move-illegal"
        | .ok q => if t q 1 == .loss then "truth=bad:move-gives-up-the-win" else "truth=ok"

def handleSolvers : Handler := fun st op args =>
  match op, args with
  | "pn", [mn, pres, pn2, md, tm, ptok] =>
    some (st, withPos ptok fun p =>
      match mn.toNat?, md.toInt?, parseTruthMode tm with
      | some mn, some md, some mode =>
        let cfg : Tak.PN.Cfg := { maxNodes := UInt64.ofNat mn, preserveSolved := pres != "0", pn2 := pn2 != "0", maxDepth := md }
        match Tak.PN.takProve st.basis solverFuel cfg p with
        | .error e => fmtErr e
        | .ok (r, s) =>
          " ".intercalate [evalStr r.result, fmtOptMove r.move, toString r.depth, toString r.proof, toString r.disproof,
            toString s.nodes, toString s.proved, toString s.disproved, toString s.dropped, toString s.expanded,
            toString s.maxDepth, truthField st mode p.toMove p r.result r.move]
      | _, _, _ => "bad-op")
  | "dfpn", [att, entries, tm, ptok] =>
    some (st, withPos ptok fun p =>
      match entries.toNat?, parseTruthMode tm with
      | some entries, some mode =>
        let att := parseColor att
        match Tak.DFPN.takProve st.basis dfpnScale solverFuel att entries p with
        | .error e => fmtErr e
        | .ok (r, s) =>
          let attacker := if att == .none then p.toMove else att
          " ".intercalate [evalStr r.result, fmtOptMove r.move, toString r.proof, toString r.disproof,
            toString s.work, toString s.repetition, toString s.terminal, toString s.solved, toString s.hits,
            toString s.miss, truthField st mode attacker p r.result r.move]
      | _, _ => "bad-op")
  | "dfpnnew", [slot, att, entries] =>
    match entries.toNat? with
    | none => some (st, "bad-op")
    | some entries =>
      let d : Tak.DFPN.Solver Move := Tak.DFPN.newSolver (parseColor att) entries
      some ({ st with solvers := { st.solvers with dfpn := (slot, d) :: st.solvers.dfpn.filter (·.1 != slot) } }, "ok")
  | "dfpnuse", [slot, tm, ptok] =>
    match st.solvers.dfpn.lookup slot, parseTruthMode tm, parsePos ptok with
    | some d, some mode, some (p, true) =>
      match Tak.DFPN.takProveWith st.basis dfpnScale solverFuel d p with
      | .error e => some (st, fmtErr e)
      | .ok (r, s, d') =>
        let out := " ".intercalate [evalStr r.result, fmtOptMove r.move, toString r.proof, toString r.disproof,
          toString s.work, toString s.repetition, toString s.terminal, toString s.solved, toString s.hits,
          toString s.miss, truthField st mode d'.attacker p r.result r.move]
        some ({ st with solvers := { st.solvers with dfpn := (slot, d') :: st.solvers.dfpn.filter (·.1 != slot) } }, out)
    | none, _, _ => some (st, "no-solver")
    | _, _, _ => some (st, "bad-op")
  | "pnnew", [slot, mn, pres, pn2, md] =>
    match mn.toNat?, md.toInt? with
    | some mn, some md =>
      let cfg : Tak.PN.Cfg := { maxNodes := UInt64.ofNat mn, preserveSolved := pres != "0", pn2 := pn2 != "0", maxDepth := md }
      some ({ st with solvers := { st.solvers with pn := (slot, cfg) :: st.solvers.pn.filter (·.1 != slot) } }, "ok")
    | _, _ => some (st, "bad-op")
  | "pnuse", [slot, tm, ptok] =>
    match st.solvers.pn.lookup slot, parseTruthMode tm, parsePos ptok with
    | some cfg, some mode, some (p, true) =>
      match Tak.PN.takProveWith st.basis solverFuel cfg p with
      | .error e => some (st, fmtErr e)
      | .ok (r, s, cfg') =>
        let out := " ".intercalate [evalStr r.result, fmtOptMove r.move, toString r.depth, toString r.proof, toString r.disproof,
          toString s.nodes, toString s.proved, toString s.disproved, toString s.dropped, toString s.expanded,
          toString s.maxDepth, truthField st mode p.toMove p r.result r.move]
        some ({ st with solvers := { st.solvers with pn := (slot, cfg') :: st.solvers.pn.filter (·.1 != slot) } }, out)
    | none, _, _ => some (st, "no-solver")
    | _, _, _ => some (st, "bad-op")
  | "pngraph", [cap, ptok] =>
    match cap.toNat?, parsePos ptok with
    | some cap, some (p, true) =>
      let k := takKey p
      let fmt (g : SolverGraph) : String :=
        s!"{g.winW.size} {(g.winW.toList.filter id).length} {(g.winB.toList.filter id).length}"
      match st.solvers.graph with
      | some g =>
        if g.rootKey == k && g.cap == cap then some (st, fmt g) else
        match buildGraph st.basis cap p with
        | none => some ({ st with solvers := { st.solvers with graph := none } }, "toolarge")
        | some g => some ({ st with solvers := { st.solvers with graph := some g } }, fmt g)
      | none =>
        match buildGraph st.basis cap p with
        | none => some (st, "toolarge")
        | some g => some ({ st with solvers := { st.solvers with graph := some g } }, fmt g)
    | _, _ => some (st, "bad-pos")
  | "gtruth", [att, cap, ptok] =>
    some (st, withPos ptok fun p =>
      match cap.toNat? with
      | none => "bad-op"
      | some cap =>
        match buildGraph st.basis cap p with
        | none => "toolarge"
        | some g =>
          let w := if parseColor att == .white then g.winW.getD 0 false else g.winB.getD 0 false
          (if w then "win " else "nowin ") ++ toString g.winW.size)
  | _, _ => none

end Driver
