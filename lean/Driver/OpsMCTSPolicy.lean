import Driver.OpsCore
import TakVerif.Impl.MCTSPolicy
import TakVerif.Impl.Evaluate
import TakVerif.Impl.ThreatHyp
namespace Driver
open Tak Codec Tak.MCTS

/-! ops `pw.find`, `pw.move`, `pw.sel`, `pw.selr`, `pw.roll`, `pw.rolls` (C04, rollout policies of the Monte-Carlo player) -/

def parseDraws (s : String) : Option (List Nat) :=
  if s == "-" || s == "" then some [] else (s.splitOn ",").mapM String.toNat?

def parsePolicy (s : String) : Policy := if s == "p" then .placeWin else .uniform

/-- what the placement proposed by `placeWinMove` does (as the harness computes it from the real code) -/
def placeWinClass (basis : Array W) (p : Pos) (m : Move) : String :=
  if m.type == 0 then "none" else
  let r := match p.apply basis m with
    | .ok q => some q
    | .error _ => match p.apply basis { m with type := Facts.mtPlaceCapstone } with
      | .ok q => some q
      | .error _ => none
  match r with
  | none => "refused"
  | some q =>
    let d := q.winDetails
    if d.over && d.reason == .road && d.winner == p.toMove then "win" else "nowin"

def handleMCTSPolicy : Handler := fun st op args =>
  match op, args with
  | "pw.find", [size, mask, empty, gs] =>
    match size.toNat?, mask.toNat?, empty.toNat?, commaNat gs with
    | some n, some m, some e, some gs =>
      some (st, toString (findPlaceWins (Gen.precompute n) (BitVec.ofNat 64 m) (BitVec.ofNat 64 e) (gs.map (BitVec.ofNat 64))).toNat)
    | _, _, _, _ => some (st, "bad-op")
  | "pw.move", [ptok] =>
    some (st, withPos ptok fun p =>
      match placeWinMove p.c p with
      | .error e => fmtErr e
      | .ok m =>
        let cls := placeWinClass st.basis p m
        -- C04.placeWin_square_completes_road / placeWins_select_never_panics: on a well-formed unfinished position
        -- from ply 2 on a proposed square is taken and wins by a road
        let claim := p.threatHypB && decide (2 ≤ p.move) && !p.gameOver.1
        (if claim && cls != "none" && cls != "win" then "MODEL-THM-FAIL " else "") ++ fmtMove m ++ " " ++ cls)
  | "pw.sel", [pol, draws, ptok] =>
    match parseDraws draws with
    | none => some (st, "bad-op")
    | some l =>
      some (st, withPos ptok fun p =>
        match (parsePolicy pol).select st.basis p.c (fun i => l.getD i 0) p 0 with
        | .ok (q, k) => if k > l.length then "more" else s!"ok {k} {fmtPos q}"
        | .error e => fmtErr e)
  | "pw.selr", [pol, _seed, ptok, qtok] =>
    some (st, withPos ptok fun p => withPos qtok fun q =>
      let qs := fmtPos q
      if ((parsePolicy pol).mayReturn st.basis p.c p).any (fun x => fmtPos x == qs) then "member" else "not-member")
  | "pw.roll", [pol, maxr, thr, draws, ptok] =>
    match maxr.toNat?, thr.toInt?, parseDraws draws with
    | some maxr, some thr, some l =>
      some (st, withPos ptok fun p =>
        let sel := fun q k => (parsePolicy pol).select st.basis p.c (fun i => l.getD i 0) q k
        match rollout sel (evaluateDefault p.c) maxr thr p 0 with
        | .ok (v, k) => if k > l.length then "more" else s!"{v} {k}"
        | .error e => fmtErr e)
    | _, _, _ => some (st, "bad-op")
  | "pw.rolls", [_, _, _, _, ptok] =>
    -- C04.rollout_total: a rollout returns a value in {-1, 0, 1} without panic; storage is not visible in the model
    some (st, withPos ptok fun _ => "ok")
  | _, _ => none

end Driver
