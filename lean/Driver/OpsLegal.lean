import Driver.OpsText
import TakVerif.Spec.LegalShape

/-! Driver op of the legal-shape link (`Props/C11_legal.lean`): `legalraw <pos> <move>`.
The answer is computed from the models (`Pos.apply`, `Move.equal`, `Notation.normalize`, `Notation.legalShape`,
the byte-level formatters and parsers); where the theorems fix the answer for an accepted move, the model's own
answer is checked against them and `MODEL-THM-FAIL` is prepended otherwise (the Go side never prints that). -/
namespace Driver
open Tak Codec Go Notation

def resMove : R Move → String
  | .ok m => "ok:" ++ fmtMove m
  | .error e => fmtErr e

def legalRaw (basis : Array W) (p : Pos) (m : Move) : String :=
  let hn := normalize m
  let r1 := p.apply basis m
  let r2 := p.apply basis hn
  let same : Bool := match r1, r2 with
    | .ok q1, .ok q2 => fmtPos q1 == fmtPos q2
    | .error _, .error _ => true
    | _, _ => false
  let head := s!"hn={fmtMove hn} eq={bit01 (m.equal hn)}{bit01 (hn.equal m)} same={bit01 same}"
  match r1 with
  | .error (.illegal _) => "acc=0 " ++ head
  | .error e => fmtErr e
  | .ok _ =>
    if m.type == Facts.mtPass then "acc=1 " ++ head ++ " pass" else
    let gens := p.allMoves.filter (fun g => g.equal m)
    let norm := match gens with
      | [] => "none"
      | [g] => fmtMove g
      | _ => "several"
    let shape := legalShape p.cfg.size hn
    let fm := PTN.formatMove m false
    let fn := PTN.formatMove hn false
    let ln := PTN.formatMove hn true
    let sm := Server.formatServer m
    let pn := PTN.parseMove fn
    let pl := PTN.parseMove ln
    let ps := Server.parseServer sm
    let isOkN (r : R Move) : Bool := match r with | .ok x => x == hn | .error _ => false
    -- C11_legal: apply_legalShape, normalize_mem_allMoves, legal_move_notations_roundtrip, normalize_transparent
    let thm := shape && gens == [hn] && isOkN pn && isOkN pl && isOkN ps && same && m.equal hn && hn.equal m
    let sized := decide (3 ≤ p.cfg.size) && decide (p.cfg.size ≤ 8)
    (if sized && !thm then "MODEL-THM-FAIL " else "") ++
    s!"acc=1 {head} norm={norm} shape={bit01 shape} fm={toHex fm} pm={resMove (PTN.parseMove fm)} " ++
    s!"fn={toHex fn} pn={resMove pn} ln={toHex ln} pl={resMove pl} sm={toHex sm} ps={resMove ps}"

def handleLegal : Handler := fun st op args =>
  match op, args with
  | "legalraw", [ptok, mtok] =>
    some (st, withPos ptok fun p =>
      match parseMove mtok with
      | none => "bad-move"
      | some m => legalRaw st.basis p m)
  | _, _ => none

end Driver
