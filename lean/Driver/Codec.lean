import TakVerif.Spec.Tak

/-! Text encodings shared by the driver ops.  One position is one token:
`size/pieces/caps/bwt/move/ws/wc/bs/bc/W/B/S/C/h,h,…/s,s,…/hash[/wg,…/bg,…]` (decimal). -/
namespace Codec
open Tak

def commaNat (s : String) : Option (List Nat) :=
  if s == "-" || s == "" then some [] else (s.splitOn ",").mapM String.toNat?

def fmtList (l : List Nat) : String :=
  if l.isEmpty then "-" else ",".intercalate (l.map toString)

def parsePos (tok : String) : Option (Pos × Bool) := do
  let f := (tok.splitOn "/").toArray
  if f.size != 16 && f.size != 18 then none
  let size ← f[0]!.toNat?
  let pieces ← f[1]!.toNat?
  let caps ← f[2]!.toNat?
  let bwt ← f[3]!.toNat?
  let move ← f[4]!.toInt?
  let ws ← f[5]!.toNat?
  let wc ← f[6]!.toNat?
  let bs ← f[7]!.toNat?
  let bc ← f[8]!.toNat?
  let w ← f[9]!.toNat?
  let b ← f[10]!.toNat?
  let s ← f[11]!.toNat?
  let c ← f[12]!.toNat?
  let hs ← commaNat f[13]!
  let ss ← commaNat f[14]!
  let hash ← f[15]!.toNat?
  let (wg, bg, analyzed) ←
    if f.size == 18 then do
      let wg ← commaNat f[16]!
      let bg ← commaNat f[17]!
      pure (wg, bg, true)
    else pure ([], [], false)
  let p : Pos :=
    { cfg := { size := size, pieces := pieces, capstones := caps, blackWinsTies := bwt != 0 }
      c := Gen.precompute size
      whiteStones := BitVec.ofNat 8 ws, whiteCaps := BitVec.ofNat 8 wc
      blackStones := BitVec.ofNat 8 bs, blackCaps := BitVec.ofNat 8 bc
      move := move
      white := BitVec.ofNat 64 w, black := BitVec.ofNat 64 b
      standing := BitVec.ofNat 64 s, caps := BitVec.ofNat 64 c
      height := (hs.map (BitVec.ofNat 8)).toArray
      stacks := (ss.map (BitVec.ofNat 64)).toArray
      wgroups := wg.map (BitVec.ofNat 64), bgroups := bg.map (BitVec.ofNat 64)
      hash := BitVec.ofNat 64 hash }
  if analyzed then pure (p, true)
  else match p.analyze with
    | some q => pure (q, true)
    | none => pure (p, false)

def fmtPos (p : Pos) : String :=
  "/".intercalate
    [toString p.cfg.size, toString p.cfg.pieces, toString p.cfg.capstones,
     (if p.cfg.blackWinsTies then "1" else "0"), toString p.move,
     toString p.whiteStones.toNat, toString p.whiteCaps.toNat,
     toString p.blackStones.toNat, toString p.blackCaps.toNat,
     toString p.white.toNat, toString p.black.toNat, toString p.standing.toNat, toString p.caps.toNat,
     fmtList (p.height.toList.map (·.toNat)), fmtList (p.stacks.toList.map (·.toNat)),
     toString p.hash.toNat,
     fmtList (p.wgroups.map (·.toNat)), fmtList (p.bgroups.map (·.toNat))]

/-- a move: `x,y,type,slides` -/
def parseMove (tok : String) : Option Move := do
  match tok.splitOn "," with
  | [x, y, t, s] =>
    let x ← x.toInt?
    let y ← y.toInt?
    let t ← t.toNat?
    let s ← s.toNat?
    pure { x := x, y := y, type := t, slides := BitVec.ofNat 32 s }
  | _ => none

def fmtMove (m : Move) : String :=
  s!"{m.x},{m.y},{m.type},{m.slides.toNat}"

def pieceChar (p : Piece) : String :=
  (match p.color with | .white => "W" | .black => "B" | .none => "?") ++
  (match p.kind with | .flat => "" | .standing => "S" | .capstone => "C")

/-- abstract (list-level) dump: what `At`, reserves, ply and side to move show -/
def fmtState (s : Spec.State) : String :=
  let sq := s.squares.map (fun q => if q.isEmpty then "_" else "".intercalate (q.map pieceChar))
  s!"{s.size}/{s.ply}/{s.whiteStones}/{s.whiteCaps}/{s.blackStones}/{s.blackCaps}/" ++ ",".intercalate sq

def colorStr : Color → String
  | .white => "W" | .black => "B" | .none => "N"

def fmtErr : Err → String
  | .illegal _ => "err"
  | .panic _ => "panic"
  | .hang _ => "hang"

def moveLt (a b : Move) : Bool :=
  if a.x != b.x then a.x < b.x else if a.y != b.y then a.y < b.y
  else if a.type != b.type then a.type < b.type else a.slides.toNat < b.slides.toNat

def fmtMoves (l : List Move) : String :=
  let a := l.toArray.qsort moveLt
  if a.isEmpty then "-" else " ".intercalate (a.toList.map fmtMove)

end Codec
