import Driver.State
import Driver.OpsCore
import TakVerif.Spec.Symmetry
import TakVerif.Impl.Book

/-! Driver ops of C14 (symmetries), C15 (canonicalisation) and the opening-book part of C04. -/
namespace Driver
open Tak Codec

def parseFin8 (s : String) : Option (Fin 8) :=
  match s.toNat? with
  | some k => if h : k < 8 then some ⟨k, h⟩ else none
  | none => none

/-- "k" or "k1.k2.k3" = compose(syms[k1], syms[k2], syms[k3]) -/
def parseWord (s : String) : Option Symm := (s.splitOn ".").mapM parseFin8

private def fmtR (r : R String) : String :=
  match r with
  | .ok s => s
  | .error e => fmtErr e

def fmtMoveSeq (l : List Move) : String :=
  if l.isEmpty then "-" else " ".intercalate (l.map fmtMove)

def parseMoveSeq (args : List String) : Option (List Move) :=
  (args.filter (· ≠ "-")).mapM parseMove

def overLimit (p : Pos) : Bool := p.height.any (fun h => h.toNat > 64)

/-- C15 stated on the model, clause by clause (mirrors `canonCheck` of the harness) -/
def canonCheck (basis : Array W) (size : Nat) (ms : List Move) : R String := do
  let out ←
    match canonical basis size ms with
    | .ok o => pure o
    | .error (.illegal _) => return "err"
    | .error e => throw e
  if out.length != ms.length then return "length"
  let p0 ← Pos.new { size := size, pieces := 0, capstones := 0, blackWinsTies := false }
  let rec walk (i : Nat) (p q : Pos) : List Move → List Move → R (Option String)
    | m :: ms, o :: os =>
      match p.apply basis m with
      | .error (.illegal _) => pure (some "input-illegal")
      | .error e => throw e
      | .ok p' =>
        match q.apply basis o with
        | .error (.illegal _) => pure (some s!"illegal@{i}")
        | .error e => throw e
        | .ok q' => do
          let mut found := false
          for k in List.finRange 8 do
            match imagePos basis p' k with
            | .error (.illegal _) => return some "image-err"
            | .error e => throw e
            | .ok im => if im.equal q' && fmtPos im == fmtPos q' then found := true
          if !found then return some s!"notimage@{i}"
          walk (i+1) p' q' ms os
    | _, _ => pure none
  match ← walk 0 p0 p0 ms out with
  | some s => return s
  | none => pure ()
  for k in List.finRange 8 do
    let tm ← ms.mapM (transformMove size [k])
    match canonical basis size tm with
    | .error (.illegal _) => return s!"orbit-err@{k.val}"
    | .error e => throw e
    | .ok o2 => if fmtMoveSeq o2 != fmtMoveSeq out then return s!"orbit@{k.val}"
  match canonical basis size out with
  | .error (.illegal _) => return "idem-err"
  | .error e => throw e
  | .ok o3 => if fmtMoveSeq o3 != fmtMoveSeq out then return "idem"
  return "ok"

def parseBookLines (tok : String) : Option (List (List Move)) :=
  if tok == "-" then some [] else
  (tok.splitOn ";").mapM (fun l => if l == "" then some [] else (l.splitOn "|").mapM parseMove)

def fmtChildren (cs : List BookChild) : String :=
  "|".intercalate (cs.map (fun c => s!"{fmtMove c.move}*{c.weight}"))

def dumpBook (b : Book) : String :=
  let es := b.entries.toArray.qsort (fun a c => a.hash.toNat < c.hash.toNat)
  s!"ok {es.size}" ++ String.join (es.toList.map (fun e => s!" {e.hash.toNat}={e.p.hashOf.toNat}={fmtChildren e.moves}"))

/-- the text of the built-in books of `cmd/internal/playtak/book.go` is sent by the harness
(`realbook <size> <lines>` carries the parsed lines); nothing is typed in here -/
def bookGet (basis : Array W) (b : Book) (p : Pos) : String :=
  match b.find p.hashOf with
  | none => "none"
  | some e =>
    -- two extreme oracles (always 0 / always n-1) and a mixing one: every answer must be a stored child
    let oracles : List (Nat → Nat → Nat) := [fun _ _ => 0, fun _ n => n - 1, fun i n => (i * 7919 + 13) % n]
    let answers := oracles.map (fun o => b.getMove p o)
    let isIn := answers.all (fun a => match a with
      | .ok (some m) => e.moves.any (fun c => c.move.equal m)
      | _ => false)
    let cand := e.moves.map (·.move)
    let bad := cand.find? (fun m => match p.apply basis m with | .ok _ => false | .error _ => true)
    let legal := match bad with | none => "legal" | some m => "illegal:" ++ fmtMove m
    s!"some {fmtChildren e.moves} {if isIn then "in" else "notin"} {legal}"

def handleSym : Handler := fun st op args =>
  match op, args with
  | "case", _ => some ({ st with symBook := none }, "ok")
  | "syms", [ptok] =>
    some (st, withPos ptok fun p =>
      match symmetries st.basis p with
      | .ok rs => " ".intercalate (rs.map (fun (q, k) => s!"{k.val}:{fmtPos q}"))
      | .error e => fmtErr e)
  | "symscfg", [_src, ptok] =>
    some (st, withPos ptok fun p =>
      let board := (Spec.abs p).squares.map (fun sq => sq.map Piece.code)
      match Pos.fromSquares st.basis p.cfg board p.move with
      | .error e => fmtErr e
      | .ok q =>
        match symmetries st.basis q with
        | .error e => fmtErr e
        | .ok rs =>
          let oc (x : Pos) : String := let d := x.winDetails
            fmtOutcome d.over d.winner (d.reason == .road) d.whiteFlats d.blackFlats
          " | ".intercalate (oc q :: rs.map (fun (r, k) => s!"{k.val}:{oc r}")))
  | "ssyms", [ptok] =>
    some (st, withPos ptok fun p =>
      " ".intercalate ((Spec.symImages (Spec.abs p)).map (fun (s, k) => s!"{k.val}:{fmtState s}")))
  | "xform", [w, size, mtok] =>
    match parseWord w, size.toNat?, parseMove mtok with
    | some w, some n, some m =>
      some (st, match transformMove n w m with | .ok r => fmtMove r | .error e => fmtErr e)
    | _, _, _ => some (st, "bad-op")
  | "prefer", [a, b] =>
    match parseMove a, parseMove b with
    | some a, some b => some (st, if preferMove a b then "1" else "0")
    | _, _ => some (st, "bad-op")
  | "xmove", [k, ptok, mtok] =>
    match parseFin8 k, parseMove mtok with
    | some k, some m =>
      some (st, withPos ptok fun p => fmtR do
        let sp ← match imagePos st.basis p k with
          | .error (.illegal _) => return "image-err"
          | r => r
        let sm ← transformMove p.cfg.size [k] m
        let r1 := p.apply st.basis m
        let r2 := sp.apply st.basis sm
        let tag (r : R Pos) : R String := match r with
          | .ok _ => pure "ok" | .error (.illegal _) => pure "err" | .error e => throw e
        let t1 ← tag r1
        let t2 ← tag r2
        match r1, r2 with
        | .ok n, .ok sn =>
          match imagePos st.basis n k with
          | .error (.illegal _) => return "ok ok image-err"
          | .error e => throw e
          | .ok ns =>
            if ns.equal sn && fmtPos ns == fmtPos sn then return "ok ok eq " ++ fmtPos sn
            else return "ok ok ne " ++ fmtPos ns ++ " " ++ fmtPos sn
        | _, _ => return t1 ++ " " ++ t2)
    | _, _ => some (st, "bad-op")
  | "sxmove", [k, ptok, mtok] =>
    match parseFin8 k, parseMove mtok with
    | some k, some m =>
      some (st, withPos ptok fun p =>
        let s := Spec.abs p
        match Spec.step (Spec.Sym.state k s) (Spec.Sym.move k s.size (Spec.decode m)) with
        | some s' => if s'.squares.any (fun q => q.length > 64) then "overlimit" else "ok " ++ fmtState s'
        | none => "err")
    | _, _ => some (st, "bad-op")
  | "xover", [k, ptok] =>
    match parseFin8 k with
    | some k =>
      some (st, withPos ptok fun p => fmtR do
        let sp ← match imagePos st.basis p k with
          | .error (.illegal _) => return "image-err"
          | r => r
        let d := sp.winDetails
        let e := p.winDetails
        return fmtOutcome d.over d.winner (d.reason == .road) d.whiteFlats d.blackFlats ++ " | " ++
               fmtOutcome e.over e.winner (e.reason == .road) e.whiteFlats e.blackFlats)
    | none => some (st, "bad-op")
  | "sxover", [k, ptok] =>
    match parseFin8 k with
    | some k =>
      some (st, withPos ptok fun p =>
        let o := Spec.outcome (Spec.Sym.state k (Spec.abs p))
        fmtOutcome o.over o.winner o.road o.whiteFlats o.blackFlats)
    | none => some (st, "bad-op")
  | "canon", size :: ms =>
    match size.toNat?, parseMoveSeq ms with
    | some n, some ms =>
      some (st, match canonical st.basis n ms with | .ok o => fmtMoveSeq o | .error e => fmtErr e)
    | _, _ => some (st, "bad-op")
  | "scanon", size :: ms =>
    match size.toNat?, parseMoveSeq ms with
    | some n, some ms =>
      some (st, match Spec.canon n ms with | some o => fmtMoveSeq o | none => "err")
    | _, _ => some (st, "bad-op")
  | "canonchk", size :: ms =>
    match size.toNat?, parseMoveSeq ms with
    | some n, some ms => some (st, fmtR (canonCheck st.basis n ms))
    | _, _ => some (st, "bad-op")
  | "realbook", [size, ltok]
  | "book", [size, ltok] =>
    match size.toNat?, parseBookLines ltok with
    | some n, some lines =>
      match buildOpeningBook st.basis n lines with
      | .ok b => some ({ st with symBook := some b }, dumpBook b)
      | .error e => some ({ st with symBook := none }, fmtErr e)
    | _, _ => some ({ st with symBook := none }, "bad-op")
  -- the wrapper `WithOpeningBook`: by C04.book_moves_legal the required answer is "ok" whenever a book is loaded
  | "bookwrap", [_] =>
    match st.symBook with
    | none => some (st, "nobook")
    | some _ => some (st, "ok")
  | "bookget", [ptok] =>
    match st.symBook with
    | none => some (st, "nobook")
    | some b => some (st, withPos ptok fun p => bookGet st.basis b p)
  | _, _ => none

end Driver
