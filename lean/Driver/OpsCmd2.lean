import Driver.OpsPTN
import TakVerif.Impl.CmdCanon
import TakVerif.Impl.CmdImport
import TakVerif.Impl.CmdPlay

/-! Driver ops of work package "cmdglue2" (Go side: `harness/verifh/ops_cmd2.go`).

* `cmd.canon <hex file | ! | 0>` — `taktician canonicalize`: `usage`, `FATAL`, `out <hex of standard output>`.
* `cmd.imp1 <row>` — `importOne` on one games row: `none`, `err`, `ok <hex PTN>`.
* `cmd.impdb <row>…` — `taktician import-ptn` twice on a database holding these rows.
* `cmd.play <flags> <hex stdin>` — `taktician play` with two human players on scripted input. -/
namespace Driver.Cmd2Ops
open Tak Codec
open Driver.PTNOps (hexDec hexEnc)

/-! ### canonicalize -/

def fmtExit : CmdCanon.Exit → String
  | .usage => "usage"
  | .fatal _ => "FATAL"
  | .printed out => "out " ++ hexEnc out
  | .crash e => fmtErr e

/-! ### import-ptn -/

structure RowTok where
  row : CmdImport.GameRow
  date : PTN.Bytes
  time : PTN.Bytes

def parseRow (tok : String) : Option RowTok :=
  match tok.splitOn ":" with
  | [id, date, size, w, b, n, r, tt, ti, ds, ts] => do
    pure { row := { id := ← id.toInt?, date := ← date.toInt?, size := ← size.toInt?, playerWhite := ← hexDec w,
                    playerBlack := ← hexDec b, notn := ← hexDec n, result := ← hexDec r, timerTime := ← tt.toInt?,
                    timerInc := ← ti.toInt? }
           date := ← hexDec ds, time := ← hexDec ts }
  | _ => none

/-- the calendar of the standard library as the op line carries it: the strings of each row's date -/
def dateTimeOf (rows : List RowTok) (date : Int) : PTN.Bytes × PTN.Bytes :=
  match rows.find? (·.row.date == date) with
  | some r => (r.date, r.time)
  | none => ([], [])

def fmtPTNRows (rows : List (Int × PTN.Bytes)) : String :=
  " ".intercalate (s!"n={rows.length}" :: rows.map fun r => s!"{r.1}:{hexEnc r.2}")

/-! ### play -/

structure PlayFlags where
  size : Int := 5
  out : Bool := false

inductive PlayFlagRes where
  | ok (f : PlayFlags)
  | err
  | unmodelled (w : String)

def applyPlayFlag (f : PlayFlags) (name : String) (val : Option String) : PlayFlagRes :=
  match name, val with
  | "size", some v => (match v.toInt? with | some n => .ok { f with size := n } | none => .err)
  | "out", some _ => .ok { f with out := true }
  | "white", some "human" => .ok f
  | "black", some "human" => .ok f
  | "limit", some _ => .ok f
  | "debug", some _ => .ok f
  | "size", none | "out", none | "white", none | "black", none | "limit", none | "debug", none => .err
  | "white", some _ | "black", some _ | "unicode", _ => .unmodelled name
  | _, _ => .err

def parsePlayFlags (tok : String) : PlayFlagRes :=
  if tok == "-" then .ok {} else
  (tok.splitOn ";").foldl (fun acc a =>
    match acc with
    | .ok f =>
      (match a.splitOn "=" with
       | [n] => applyPlayFlag f n none
       | n :: rest => applyPlayFlag f n (some ("=".intercalate rest))
       | [] => .err)
    | r => r) (.ok {})

def isSpaceChar (c : Char) : Bool := c == ' ' || c == '\t' || c == '\r' || c == '\x0b' || c == '\x0c'

/-- `playCanon` of the Go side: lines, white space normalised, empty lines dropped -/
def canonLines (text : String) : List String :=
  (text.splitOn "\n").filterMap fun l =>
    let ws := (l.split isSpaceChar).toList.map (·.toString) |>.filter (· ≠ "")
    if ws.isEmpty then none else some (" ".intercalate ws)

def fmtPlay (env : PTN.Env) (f : PlayFlags) (input : PTN.Bytes) : String :=
  match CmdPlay.execute env f.size input with
  | .error _ =>
    -- `tak.New` panicked before anything was printed: the Go side reports the recovered panic after the (empty) text
    "PANIC" ++ (if f.out then " || outfile=none" else "")
  | .ok (r, file) =>
    let ls := canonLines (r.text env)
    let ls := match r.stop with
      | .finished => ls
      | .eof => ls ++ ["PANIC"]
      | .crash (.hang _) => ls ++ ["HANG"]
      | .crash _ => ls ++ ["PANIC"]
    let res := if ls.isEmpty then "-" else " | ".intercalate ls
    if f.out then
      res ++ " || outfile=" ++ (match file with | some b => hexEnc b | none => "none")
    else res

def handleCmd2 : Handler := fun st op args =>
  match op, args with
  | "cmd.canon", [tok] =>
    some (st,
      if tok == "0" then fmtExit (CmdCanon.run st.basis none)
      else if tok == "!" then fmtExit (CmdCanon.run st.basis (some none))
      else match hexDec tok with
        | none => "bad-hex"
        | some b => fmtExit (CmdCanon.run st.basis (some (some b))))
  | "cmd.imp1", [tok] =>
    some (st, match parseRow tok with
      | none => "bad-row"
      | some r =>
        match CmdImport.importOne (CmdImport.takEnv (dateTimeOf [r])) (PTN.realEnv st.basis) r.row with
        | .error e => fmtErr e
        | .ok none => "none"
        | .ok (some text) => "ok " ++ hexEnc text)
  | "cmd.impdb", toks =>
    some (st, match toks.mapM parseRow with
      | none => "bad-row"
      | some rs =>
        let env := CmdImport.takEnv (dateTimeOf rs)
        let penv := PTN.realEnv st.basis
        match CmdImport.execute env penv { games := rs.map (·.row), ptns := [] } with
        | .error e => fmtErr e
        | .ok db1 =>
          match CmdImport.execute env penv db1 with
          | .error e => fmtErr e
          | .ok db2 =>
            fmtPTNRows db1.ptns ++ " | again=" ++ (if db2.ptns == db1.ptns then "same" else fmtPTNRows db2.ptns))
  | "cmd.play", [ftok, h] =>
    some (st, match parsePlayFlags ftok, hexDec h with
      | _, none => "bad-hex"
      | .err, _ => "flagerr"
      | .unmodelled w, _ => "unmodelled:" ++ w
      | .ok f, some input => fmtPlay (PTN.realEnv st.basis) f input)
  | _, _ => none

end Driver.Cmd2Ops

namespace Driver
def handleCmd2 : Handler := Cmd2Ops.handleCmd2
end Driver
