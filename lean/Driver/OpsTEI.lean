import Driver.State
import TakVerif.Impl.TEI
namespace Driver
open Tak Codec Tak.TEI

/-! ops `budget mt gt inc`, `tei depth <hex stream> [table…]`, `teiclass …` (C17, C13 TEI part) -/

private def hexVal (c : Char) : Option Nat :=
  if '0' ≤ c ∧ c ≤ '9' then some (c.toNat - '0'.toNat)
  else if 'a' ≤ c ∧ c ≤ 'f' then some (c.toNat - 'a'.toNat + 10)
  else if 'A' ≤ c ∧ c ≤ 'F' then some (c.toNat - 'A'.toNat + 10)
  else none

private def unhexAux : List Char → List Nat → Option (List Nat)
  | [], acc => some acc.reverse
  | [_], _ => none
  | a :: b :: r, acc => do
    let x ← hexVal a
    let y ← hexVal b
    unhexAux r ((x * 16 + y) :: acc)

/-- hex → bytes; `-` is the empty string -/
private def unhex (s : String) : Option (List Nat) :=
  if s == "-" then some [] else unhexAux s.toList []

private def hexDigit (n : Nat) : Char := "0123456789abcdef".toList.getD n '0'

def hexOfString (s : String) : String :=
  String.ofList (s.toUTF8.toList.flatMap (fun b => [hexDigit (b.toNat / 16), hexDigit (b.toNat % 16)]))

/-- `ptn.FormatMove` (short form), enough for the moves an engine prints; type 255 is the driver's
marker for a broken searcher contract -/
def fmtMovePTN (m : Move) : String :=
  if m.type == 255 then "<searcher-contract-broken>" else
  let elems := Slides.elems m.slides
  let stack := elems.foldl (· + ·) 0
  let pre := if !elems.isEmpty && stack != 1 then toString stack else ""
  let kind := if m.type == Facts.mtPlaceCapstone then "C" else if m.type == Facts.mtPlaceStanding then "S" else ""
  let sq := String.ofList [Char.ofNat ('a'.toNat + m.x.toNat), Char.ofNat ('1'.toNat + m.y.toNat)]
  let dir := if m.type == Facts.mtSlideLeft then "<" else if m.type == Facts.mtSlideRight then ">"
             else if m.type == Facts.mtSlideUp then "+" else if m.type == Facts.mtSlideDown then "-" else ""
  let drops := if !elems.isEmpty && elems.length != 1 then String.join (elems.map toString) else ""
  pre ++ kind ++ sq ++ dir ++ drops

structure TeiTable where
  moves : List (String × String) := []
  tps : List (String × String) := []
  gos : List (Nat × String) := []

def parseTable (ents : List String) : Option TeiTable :=
  ents.foldlM (fun (t : TeiTable) e =>
    match e.splitOn "=" with
    | [k, v] =>
      if k.startsWith "m:" then some { t with moves := ((k.drop 2).toString, v) :: t.moves }
      else if k.startsWith "t:" then some { t with tps := ((k.drop 2).toString, v) :: t.tps }
      else if k.startsWith "g:" then (k.drop 2).toString.toNat?.map (fun n => { t with gos := (n, v) :: t.gos })
      else none
    | _ => none) {}

def lookupRes {α} (tbl : List (String × String)) (key : String) (dec : String → Option α) : R α :=
  match tbl.lookup key with
  | none => .error (.hang "bad-table")
  | some "err" => .error (.illegal "parse")
  | some "panic" => .error (.panic "parser")
  | some v => match dec v with
    | some x => .ok x
    | none => .error (.hang "bad-table")

def sentinel : Move := { x := 0, y := 0, type := 255, slides := 0 }

def parseOracle (v : String) : Option SearchRes :=
  match v.splitOn ";" with
  | hd :: mv =>
    match hd.splitOn "," with
    | [d, n, val, len] => do
      let d ← d.toInt?
      let n ← n.toNat?
      let val ← val.toInt?
      let len ← len.toNat?
      let mv := mv.filter (· ≠ "")
      if mv.length ≠ len then none
      let pv ← mv.mapM parseMove
      pure { depth := d, elapsedMs := 0, nodes := n, val := val, pv := pv }
    | _ => none
  | _ => none

private def mkEnv (basis : Array W) (t : TeiTable) (strict : Bool) : Env :=
  { basis := basis
    parseMove := fun tok => lookupRes t.moves (hexOfString tok) parseMove
    parseTPS := fun s => lookupRes t.tps (hexOfString s) (fun v => (parsePos v).map (·.1))
    fmtMove := fmtMovePTN
    search := fun k pos _ =>
      let broken : SearchRes := { depth := 0, elapsedMs := 0, nodes := 0, val := 0, pv := [sentinel] }
      match (t.gos.lookup k).bind parseOracle with
      | some r =>
        match r.pv with
        | m :: _ => if strict && !(pos.apply basis m).isOk then broken else r
        | [] => r
      | none =>
        -- no answer recorded: fine on a finished game; on a live one the searcher broke its contract (C04)
        if strict && !pos.gameOver.1 then broken
        else { depth := 0, elapsedMs := 0, nodes := 0, val := 0, pv := [] } }

/-- drop the `time T` field of an info line, as the harness does -/
def canonInfo (l : String) : String :=
  match l.splitOn " " with
  | "info" :: "depth" :: d :: "time" :: _ :: rest => " ".intercalate ("info" :: "depth" :: d :: rest)
  | _ => l

def fmtExit : Exit → String
  | .eof => "ok" | .quit => "ok" | .error => "err" | .panic _ => "panic"

def fmtRecs (rs : List Rec) : String :=
  let rec go (prev : String) : List Rec → List String
    | [] => []
    | r :: rs =>
      let ps := match r.st.pos with | none => "nil" | some p => fmtPos p
      let shown := if ps == prev && ps != "nil" then "=" else ps
      let mm := if r.st.mm.isSome then "1" else "0"
      let dl := match r.deadline with | none => "-" | some d => toString d
      (" || " ++ "~".intercalate (r.out.map canonInfo) ++ s!" # {mm} {r.st.size} dl={dl} {shown}") :: go ps rs
  String.join (go "" rs)

def charsOfBytes (bs : List Nat) : List Char := bs.map Char.ofNat

def handleTEI : Handler := fun st op args =>
  match op, args with
  | "budget", [a, b, c] =>
    match a.toInt?, b.toInt?, c.toInt? with
    | some mt, some gt, some inc => some (st, toString (calcBudget64 mt gt inc))
    | _, _, _ => some (st, "bad-op")
  | "tei", _depth :: hex :: ents =>
    match unhex hex, parseTable ents with
    | some bytes, some t =>
      let (recs, x) := run (mkEnv st.basis t true) (tokenize (charsOfBytes bytes))
      some (st, fmtExit x ++ fmtRecs recs)
    | _, _ => some (st, "bad-op")
  -- every search is cancelled inside its first ply: the searcher has nothing to report (empty PV, not a broken contract)
  | "teiexp", _depth :: hex :: ents =>
    match unhex hex, parseTable ents with
    | some bytes, some t =>
      let (recs, x) := run (mkEnv st.basis { t with gos := [] } false) (tokenize (charsOfBytes bytes))
      some (st, fmtExit x ++ fmtRecs recs)
    | _, _ => some (st, "bad-op")
  -- pipelined input: outcome class and everything written, in order
  | "teibulk", _depth :: _chunk :: hex :: ents =>
    match unhex hex, parseTable ents with
    | some bytes, some t =>
      let (recs, x) := run (mkEnv st.basis t true) (tokenize (charsOfBytes bytes))
      some (st, fmtExit x ++ " || " ++ "~".intercalate ((recs.flatMap fun r => r.out).map canonInfo))
    | _, _ => some (st, "bad-op")
  -- the built-in configuration on well-formed multi-game streams whose every `go` stands on a live position: one
  -- bestmove per `go` (C17.tei_go_answers; the configuration is no part of the protocol state)
  | "teidef", [hex] =>
    match unhex hex with
    | some bytes =>
      let lines := (String.ofList (charsOfBytes bytes)).splitOn "\n"
      let n := (lines.filter fun l => l.startsWith "go").length
      some (st, s!"ok bestmoves={n}")
    | none => some (st, "bad-op")
  | "teiclass", _depth :: hex :: ents =>
    match unhex hex, parseTable ents with
    | some bytes, some t =>
      let (recs, x) := run (mkEnv st.basis t false) (tokenize (charsOfBytes bytes))
      some (st, fmtExit x ++ String.join (recs.map fun r => " " ++ (match r.deadline with | none => "-" | some d => toString d)))
    | _, _ => some (st, "bad-op")
  | _, _ => none

end Driver
